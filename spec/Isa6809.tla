------------------------------- MODULE Isa6809 -------------------------------
(* Motorola MC6809 instruction set, written from the MC6809 programming manual (opcode map pages 1 / 2 / 3,     *)
(* "Indexed addressing postbyte" table, TFR / EXG and PSH / PUL postbyte layouts) - NOT from /repo/code6809.c,   *)
(* and without the Hitachi 6309 extensions.                                                                     *)
(*                                                                                                              *)
(* Three layers, each stated on its own:                                                                        *)
(*  1 MACHINE INSTRUCTIONS  m = [mn, am]: what the CPU executes.  am is the complete operand INCLUDING the size  *)
(*    of an indexed offset (LDA 5,X with a 5-, 8- or 16-bit offset are three different machine instructions:     *)
(*    different bytes, different cycle counts).  MEncode(m, pc) -> bytes | Error is the encoder,                 *)
(*    MDecode(bytes, pc) -> m | NoMatch the decoder, written independently by walking the published maps         *)
(*    from the byte side (page prefix, opcode row / column, postbyte bit fields).  TLC checks MDecode o MEncode   *)
(*    = identity (aliases LSL / BHS / BLO decode to ASL / BCC / BCS), published lengths, injective maps.         *)
(*  2 MEANING  Sem(m, pc): the effective address / value an instruction denotes (16-bit address arithmetic).     *)
(*  3 STATEMENTS  s: what is written in the source (`LDA <5,X`).  Readings(s, pc, dpr) = EVERY machine            *)
(*    instruction that denotes the statement (the instruction set leaves the choice among them to the assembler);*)
(*    Choice(s, pc, dpr) = the one the Motorola assembler convention picks (no offset / 5 / 8 / 16 bit: the      *)
(*    shortest; `<` forces the 8-bit, `>` the 16-bit form, direct page by ASSUME DPR - doc/pseudo-instructions.md *)
(*    "ASSUME ... 6809": "the page of memory that can be reached with single-byte addresses" is set by the       *)
(*    assumed DPR, default 0).  Expect(s, ..) in {"units", "reject", "either"} is what the instruction set and   *)
(*    the manual FIX: "units" = must be accepted and the bytes must be those of SOME reading; "reject" = no      *)
(*    reading exists (an error, no bytes); "either" = acceptance is a convention of the assembler (forced sizes, *)
(*    two's-complement spellings), but if accepted the bytes must be those of a reading.  Which reading an        *)
(*    assembler takes is never a verdict (spec drift only).                                                      *)
(* Bytes are 0..255, 16-bit quantities are stored high byte first.                                              *)
EXTENDS Integers, Sequences, FiniteSets, TLC

IC == INSTANCE IsaCommon            \* div/mod bit arithmetic shared by all ISA modules
Bits(v, shr, w) == IC!Bits(v, shr, w)
SignExt(e, w)   == IC!SignExt(e, w)
Error   == IC!Error
\* "no such instruction" as records (TLC compares records with records only)
NoAm    == [k |-> "nomatch"]
NoMatch == [mn |-> "?", am |-> NoAm]

M16(v) == v % 65536                 \* 16-bit address arithmetic (0..65535 also for negative v)
S16(v) == SignExt(M16(v), 16)       \* the representative in -32768..32767
Hi(v)  == M16(v) \div 256
Lo(v)  == v % 256
W16(v) == <<Hi(v), Lo(v)>>

\* ------------------------------------------------------------------------------------------- registers
IdxRegs == <<"X", "Y", "U", "S">>                  \* postbyte bits 6..5 = position - 1
IdxCode(r) == CHOOSE i \in 0..3 : IdxRegs[i + 1] = r
\* TFR / EXG postbyte: source nibble / destination nibble
RRNames == <<"D", "X", "Y", "U", "S", "PC", "A", "B", "CC", "DP">>
RRCodes == <<0, 1, 2, 3, 4, 5, 8, 9, 10, 11>>
RRCode(r) == RRCodes[CHOOSE i \in 1..10 : RRNames[i] = r]
RRName(c) == RRNames[CHOOSE i \in 1..10 : RRCodes[i] = c]
RRSize(r) == IF RRCode(r) < 8 THEN 16 ELSE 8
\* PSH / PUL postbyte: one bit per register; bit 6 is the OTHER stack pointer (U for PSHS / PULS, S for PSHU / PULU)
ListNames == {"CC", "A", "B", "DP", "X", "Y", "U", "S", "PC"}
StackBit(r) == CASE r = "CC" -> 0 [] r = "A" -> 1 [] r = "B" -> 2 [] r = "DP" -> 3 [] r = "X" -> 4 [] r = "Y" -> 5
                 [] r \in {"U", "S"} -> 6 [] r = "PC" -> 7
Own(mn) == IF mn \in {"PSHS", "PULS"} THEN "S" ELSE "U"       \* the stack the instruction works on: never in its list
Other(mn) == IF mn \in {"PSHS", "PULS"} THEN "U" ELSE "S"

\* ------------------------------------------------------------------------------------------- opcode map
\* entry = [mn, mode, page (0, 16 = $10, 17 = $11), op, alias]
\* mode: inh imm8 imm16 dir idx ext rel8 rel16 regs rr
E(mn, mode, page, op) == [mn |-> mn, mode |-> mode, page |-> page, op |-> op, alias |-> FALSE]
AE(mn, mode, page, op) == [mn |-> mn, mode |-> mode, page |-> page, op |-> op, alias |-> TRUE]

Inherent == << <<"NOP", 18>>, <<"SYNC", 19>>, <<"DAA", 25>>, <<"SEX", 29>>, <<"RTS", 57>>, <<"ABX", 58>>, <<"RTI", 59>>,
               <<"MUL", 61>>, <<"SWI", 63>> >>
\* read-modify-write group: column in rows 4 (A) 5 (B) inherent, 0 (direct) 6 (indexed) 7 (extended); JMP memory rows only
AccRmw == << <<"NEG", 0>>, <<"COM", 3>>, <<"LSR", 4>>, <<"ROR", 6>>, <<"ASR", 7>>, <<"ASL", 8>>, <<"ROL", 9>>, <<"DEC", 10>>,
             <<"INC", 12>>, <<"TST", 13>>, <<"CLR", 15>> >>
MemRmw == AccRmw \o << <<"JMP", 14>> >>
\* row 2: short branches; page 2 row 2: long conditional branches (LBRA / LBSR are on page 1: $16 / $17)
Branch == << <<"BRA", 32>>, <<"BRN", 33>>, <<"BHI", 34>>, <<"BLS", 35>>, <<"BCC", 36>>, <<"BCS", 37>>, <<"BNE", 38>>,
             <<"BEQ", 39>>, <<"BVC", 40>>, <<"BVS", 41>>, <<"BPL", 42>>, <<"BMI", 43>>, <<"BGE", 44>>, <<"BLT", 45>>,
             <<"BGT", 46>>, <<"BLE", 47>> >>
BranchAlias == << <<"BHS", 36>>, <<"BLO", 37>> >>
\* 8-bit accumulator group: column in rows 8-B (A) and C-F (B); ST has no immediate form
Alu8 == << <<"SUB", 0>>, <<"CMP", 1>>, <<"SBC", 2>>, <<"AND", 4>>, <<"BIT", 5>>, <<"LD", 6>>, <<"ST", 7>>, <<"EOR", 8>>,
           <<"ADC", 9>>, <<"OR", 10>>, <<"ADD", 11>> >>
\* 16-bit group + JSR: <<mnemonic, page, opcode of the immediate column, has an immediate form>>
Reg16 == << <<"SUBD", 0, 131, TRUE>>, <<"ADDD", 0, 195, TRUE>>, <<"CMPX", 0, 140, TRUE>>, <<"LDX", 0, 142, TRUE>>,
            <<"STX", 0, 143, FALSE>>, <<"LDD", 0, 204, TRUE>>, <<"STD", 0, 205, FALSE>>, <<"LDU", 0, 206, TRUE>>,
            <<"STU", 0, 207, FALSE>>, <<"JSR", 0, 141, FALSE>>,
            <<"CMPD", 16, 131, TRUE>>, <<"CMPY", 16, 140, TRUE>>, <<"LDY", 16, 142, TRUE>>, <<"STY", 16, 143, FALSE>>,
            <<"LDS", 16, 206, TRUE>>, <<"STS", 16, 207, FALSE>>,
            <<"CMPU", 17, 131, TRUE>>, <<"CMPS", 17, 140, TRUE>> >>
MemModes == << <<"dir", 16>>, <<"idx", 32>>, <<"ext", 48>> >>

OpTab ==
  {E(Inherent[i][1], "inh", 0, Inherent[i][2]) : i \in 1..Len(Inherent)}
  \cup {E("SWI2", "inh", 16, 63), E("SWI3", "inh", 17, 63)}
  \cup UNION {{E(AccRmw[i][1] \o "A", "inh", 0, 64 + AccRmw[i][2]), E(AccRmw[i][1] \o "B", "inh", 0, 80 + AccRmw[i][2])}
              : i \in 1..Len(AccRmw)}
  \cup {AE("LSLA", "inh", 0, 72), AE("LSLB", "inh", 0, 88)}
  \cup UNION {{E(MemRmw[i][1], "dir", 0, MemRmw[i][2]), E(MemRmw[i][1], "idx", 0, 96 + MemRmw[i][2]),
               E(MemRmw[i][1], "ext", 0, 112 + MemRmw[i][2])} : i \in 1..Len(MemRmw)}
  \cup {AE("LSL", "dir", 0, 8), AE("LSL", "idx", 0, 104), AE("LSL", "ext", 0, 120)}
  \cup {E("ORCC", "imm8", 0, 26), E("ANDCC", "imm8", 0, 28), E("CWAI", "imm8", 0, 60)}
  \cup {E("EXG", "rr", 0, 30), E("TFR", "rr", 0, 31)}
  \cup {E("LEAX", "idx", 0, 48), E("LEAY", "idx", 0, 49), E("LEAS", "idx", 0, 50), E("LEAU", "idx", 0, 51)}
  \cup {E("PSHS", "regs", 0, 52), E("PULS", "regs", 0, 53), E("PSHU", "regs", 0, 54), E("PULU", "regs", 0, 55)}
  \cup {E(Branch[i][1], "rel8", 0, Branch[i][2]) : i \in 1..Len(Branch)}
  \cup {AE(BranchAlias[i][1], "rel8", 0, BranchAlias[i][2]) : i \in 1..2}
  \cup {E("BSR", "rel8", 0, 141), E("LBRA", "rel16", 0, 22), E("LBSR", "rel16", 0, 23)}
  \cup {E("L" \o Branch[i][1], "rel16", 16, Branch[i][2]) : i \in 2..Len(Branch)}
  \cup {AE("L" \o BranchAlias[i][1], "rel16", 16, BranchAlias[i][2]) : i \in 1..2}
  \cup UNION {UNION {{E(Alu8[i][1] \o "A", MemModes[j][1], 0, 128 + MemModes[j][2] + Alu8[i][2]),
                      E(Alu8[i][1] \o "B", MemModes[j][1], 0, 192 + MemModes[j][2] + Alu8[i][2])} : j \in 1..3}
              : i \in 1..Len(Alu8)}
  \cup UNION {{E(Alu8[i][1] \o "A", "imm8", 0, 128 + Alu8[i][2]), E(Alu8[i][1] \o "B", "imm8", 0, 192 + Alu8[i][2])}
              : i \in {x \in 1..Len(Alu8) : Alu8[x][1] # "ST"}}
  \cup UNION {{E(Reg16[i][1], MemModes[j][1], Reg16[i][2], Reg16[i][3] + MemModes[j][2]) : j \in 1..3} : i \in 1..Len(Reg16)}
  \cup {E(Reg16[i][1], "imm16", Reg16[i][2], Reg16[i][3]) : i \in {x \in 1..Len(Reg16) : Reg16[x][4]}}

Mnems == {e.mn : e \in OpTab}
Modes == {"inh", "imm8", "imm16", "dir", "idx", "ext", "rel8", "rel16", "regs", "rr"}
\* the map as a function mnemonic -> mode -> entry (op = -1: the instruction does not have the mode); the alias'
\* primary mnemonic (LSL = ASL, BHS = BCC, BLO = BCS name the same opcode) is looked up once
NoEntry == [mn |-> "", mode |-> "", page |-> 0, op |-> -1, alias |-> FALSE, prim |-> ""]
EntryF == [mn \in Mnems |-> [mode \in Modes |->
             LET es == {e \in OpTab : e.mn = mn /\ e.mode = mode} IN
             IF es = {} THEN NoEntry
             ELSE LET e == CHOOSE x \in es : TRUE IN
                  [mn |-> e.mn, mode |-> e.mode, page |-> e.page, op |-> e.op, alias |-> e.alias,
                   prim |-> IF ~e.alias THEN e.mn
                            ELSE (CHOOSE g \in OpTab : ~g.alias /\ g.mode = mode /\ g.page = e.page /\ g.op = e.op).mn]]]
HasEntry(mn, mode) == mn \in Mnems /\ EntryF[mn][mode].op >= 0
Entry(mn, mode) == EntryF[mn][mode]
OpBytes(e) == IF e.page = 0 THEN <<e.op>> ELSE <<e.page, e.op>>
OpLen(mn, mode) == IF EntryF[mn][mode].page = 0 THEN 1 ELSE 2
Primary(mn, mode) == EntryF[mn][mode].prim

\* ---- sanity of the map (checked once, see Isa6809_Gen) --------------------------------------------------------
Primaries == {e \in OpTab : ~e.alias}
OpcodeMapInjective == \A e, g \in Primaries : (e.page = g.page /\ e.op = g.op) => e = g
OneEntryPerMode == \A e, g \in OpTab : (e.mn = g.mn /\ e.mode = g.mode) => e = g
AliasesHavePrimary == \A e \in OpTab : e.alias => \E g \in Primaries : g.mode = e.mode /\ g.page = e.page /\ g.op = e.op
PrefixesFree == \A e \in OpTab : e.op \notin {16, 17} /\ e.page \in {0, 16, 17} /\ e.op \in 0..255
DefinedOn(page) == {e.op : e \in {g \in Primaries : g.page = page}}
\* counted on the published opcode map: page 1 221 (rows 0..F: 12 10 16 14 11 11 12 12 14 16 16 16 13 16 16 16), page 2 38
\* (15 long branches, SWI2, CMPD CMPY LDY LDS 4 each, STY STS 3 each), page 3 9 (SWI3, CMPU CMPS 4 each)
PublishedCounts == Cardinality(DefinedOn(0)) = 221 /\ Cardinality(DefinedOn(16)) = 38 /\ Cardinality(DefinedOn(17)) = 9

\* ------------------------------------------------------------------------------------------- machine instructions
\* operand records (all have k; idx operands always carry ind, sub, r, v so that records compare field by field)
AInh == [k |-> "inh"]
AImm(w, v) == [k |-> "imm", w |-> w, v |-> v]
ADir(a) == [k |-> "dir", a |-> a]
AExt(a) == [k |-> "ext", a |-> a]
ARel(w, t) == [k |-> "rel", w |-> w, t |-> t]                 \* t = branch TARGET address
ARegs(s) == [k |-> "regs", s |-> s]                           \* s = set of register names
ARR(r1, r2) == [k |-> "rr", r1 |-> r1, r2 |-> r2]
\* sub: off5 off8 off16 (constant offset v, signed) | zero inc1 inc2 dec1 dec2 accA accB accD (v = 0) |
\*      pcr8 pcr16 (r = "-", v = TARGET address) | extind (r = "-", ind = TRUE, v = address)
AIdx(ind, sub, r, v) == [k |-> "idx", ind |-> ind, sub |-> sub, r |-> r, v |-> v]
MI(mn, am) == [mn |-> mn, am |-> am]

ModeOf(am) == CASE am.k = "imm" -> IF am.w = 8 THEN "imm8" ELSE "imm16"
                [] am.k = "rel" -> IF am.w = 8 THEN "rel8" ELSE "rel16"
                [] OTHER -> am.k

\* bytes that follow the postbyte
IdxExtra(sub) == CASE sub \in {"off8", "pcr8"} -> 1 [] sub \in {"off16", "pcr16", "extind"} -> 2 [] OTHER -> 0
\* bytes that follow the opcode
OperandLen(am) == CASE am.k = "inh" -> 0
                    [] am.k = "imm" -> am.w \div 8
                    [] am.k = "dir" -> 1
                    [] am.k = "ext" -> 2
                    [] am.k = "rel" -> am.w \div 8
                    [] am.k \in {"regs", "rr"} -> 1
                    [] am.k = "idx" -> 1 + IdxExtra(am.sub)
\* address of the instruction that follows: the base of every PC-relative quantity
NextPc(m, pc) == pc + OpLen(m.mn, ModeOf(m.am)) + OperandLen(m.am)

PlainSubs == {"zero", "inc1", "inc2", "dec1", "dec2", "accA", "accB", "accD"}
\* well-formed = the instruction exists (ranges as published)
WFam(mn, am, pc) ==
  CASE am.k = "inh" -> TRUE
    [] am.k = "imm" -> am.v \in 0..(2^am.w - 1)
    [] am.k = "dir" -> am.a \in 0..255
    [] am.k = "ext" -> am.a \in 0..65535
    \* short branch: -128..127 from the address of the following instruction; long branch: every address (wraps)
    [] am.k = "rel" -> /\ am.t \in 0..65535
                       /\ am.w = 8 => LET d == am.t - NextPc(MI(mn, am), pc) IN d >= -128 /\ d <= 127
    [] am.k = "regs" -> am.s \subseteq ListNames /\ Own(mn) \notin am.s
    [] am.k = "rr" -> /\ \E i \in 1..10 : RRNames[i] = am.r1
                      /\ \E i \in 1..10 : RRNames[i] = am.r2
                      /\ RRSize(am.r1) = RRSize(am.r2)              \* mixing 8- and 16-bit registers is an error
    [] am.k = "idx" ->
         CASE am.sub = "off5"  -> ~am.ind /\ am.v \in -16..15                          \* no indirect 5-bit form
           [] am.sub = "off8"  -> am.v \in -128..127
           [] am.sub = "off16" -> am.v \in -32768..32767
           [] am.sub \in {"inc1", "dec1"} -> ~am.ind /\ am.v = 0                          \* [,R+] and [,-R] are illegal
           [] am.sub \in PlainSubs -> am.v = 0
           [] am.sub = "pcr8"  -> /\ am.r = "-" /\ am.v \in 0..65535
                                  /\ LET d == S16(am.v - NextPc(MI(mn, am), pc)) IN d >= -128 /\ d <= 127
           [] am.sub = "pcr16" -> am.r = "-" /\ am.v \in 0..65535
           [] am.sub = "extind" -> am.r = "-" /\ am.ind /\ am.v \in 0..65535
           [] OTHER -> FALSE
WF(m, pc) == /\ HasEntry(m.mn, ModeOf(m.am))
             /\ WFam(m.mn, m.am, pc)
             /\ m.am.k = "idx" /\ m.am.sub \notin {"pcr8", "pcr16", "extind"} => \E i \in 1..4 : IdxRegs[i] = m.am.r

\* ---- encoder ------------------------------------------------------------------------------------------------
PostByte(am) ==
  LET ib == IF am.ind THEN 16 ELSE 0
      rb == IF am.r = "-" THEN 0 ELSE IdxCode(am.r) * 32
  IN CASE am.sub = "off5"  -> rb + Bits(am.v, 0, 5)
       [] am.sub = "inc1"  -> 128 + rb + ib
       [] am.sub = "inc2"  -> 128 + rb + ib + 1
       [] am.sub = "dec1"  -> 128 + rb + ib + 2
       [] am.sub = "dec2"  -> 128 + rb + ib + 3
       [] am.sub = "zero"  -> 128 + rb + ib + 4
       [] am.sub = "accB"  -> 128 + rb + ib + 5
       [] am.sub = "accA"  -> 128 + rb + ib + 6
       [] am.sub = "off8"  -> 128 + rb + ib + 8
       [] am.sub = "off16" -> 128 + rb + ib + 9
       [] am.sub = "accD"  -> 128 + rb + ib + 11
       [] am.sub = "pcr8"  -> 128 + ib + 12            \* register bits are "don't care": written as 0
       [] am.sub = "pcr16" -> 128 + ib + 13
       [] am.sub = "extind" -> 159                      \* $9F

OperandBytes(m, pc) ==
  LET am == m.am
      nx == NextPc(m, pc)
  IN CASE am.k = "inh" -> <<>>
       [] am.k = "imm" -> IF am.w = 8 THEN <<am.v>> ELSE W16(am.v)
       [] am.k = "dir" -> <<am.a>>
       [] am.k = "ext" -> W16(am.a)
       [] am.k = "rel" -> IF am.w = 8 THEN <<Lo(am.t - nx)>> ELSE W16(am.t - nx)
       [] am.k = "regs" -> <<IC!SumSeq([b \in 1..8 |-> IF \E r \in am.s : StackBit(r) = b - 1 THEN 2^(b - 1) ELSE 0])>>
       [] am.k = "rr" -> <<RRCode(am.r1) * 16 + RRCode(am.r2)>>
       [] am.k = "idx" -> <<PostByte(am)>> \o
                          (CASE am.sub = "off8" -> <<Lo(am.v)>>
                             [] am.sub = "off16" -> W16(am.v)
                             [] am.sub = "pcr8" -> <<Lo(am.v - nx)>>
                             [] am.sub = "pcr16" -> W16(am.v - nx)
                             [] am.sub = "extind" -> W16(am.v)
                             [] OTHER -> <<>>)

MEncode(m, pc) == IF WF(m, pc) THEN OpBytes(Entry(m.mn, ModeOf(m.am))) \o OperandBytes(m, pc) ELSE Error

\* lengths as published (bytes column of the instruction tables): base length of the addressing mode, + 1 on pages 2 / 3,
\* + the postbyte's extension bytes
PubLen(m) == LET mode == ModeOf(m.am) IN
  (IF Entry(m.mn, mode).page = 0 THEN 0 ELSE 1)
  + (CASE mode = "inh" -> 1 [] mode = "imm8" -> 2 [] mode = "imm16" -> 3 [] mode = "dir" -> 2 [] mode = "ext" -> 3
       [] mode = "rel8" -> 2 [] mode = "rel16" -> 3 [] mode = "regs" -> 2 [] mode = "rr" -> 2
       [] mode = "idx" -> 2 + IdxExtra(m.am.sub))

\* ---- decoder: from the byte side, by the published maps ---------------------------------------------------------
\* b = exactly the bytes of one instruction standing at pc
DecodePost(b, nx) ==          \* b = postbyte and what follows it; nx = address of the next instruction
  LET p == b[1]
      r == IdxRegs[((p \div 32) % 4) + 1]
      ind == Bits(p, 4, 1) = 1
      low == p % 16
  IN IF p < 128 THEN (IF Len(b) = 1 THEN AIdx(FALSE, "off5", r, SignExt(p % 32, 5)) ELSE NoAm)
     ELSE CASE low = 0 /\ ~ind /\ Len(b) = 1 -> AIdx(FALSE, "inc1", r, 0)
            [] low = 1 /\ Len(b) = 1 -> AIdx(ind, "inc2", r, 0)
            [] low = 2 /\ ~ind /\ Len(b) = 1 -> AIdx(FALSE, "dec1", r, 0)
            [] low = 3 /\ Len(b) = 1 -> AIdx(ind, "dec2", r, 0)
            [] low = 4 /\ Len(b) = 1 -> AIdx(ind, "zero", r, 0)
            [] low = 5 /\ Len(b) = 1 -> AIdx(ind, "accB", r, 0)
            [] low = 6 /\ Len(b) = 1 -> AIdx(ind, "accA", r, 0)
            [] low = 8 /\ Len(b) = 2 -> AIdx(ind, "off8", r, SignExt(b[2], 8))
            [] low = 9 /\ Len(b) = 3 -> AIdx(ind, "off16", r, SignExt(b[2] * 256 + b[3], 16))
            [] low = 11 /\ Len(b) = 1 -> AIdx(ind, "accD", r, 0)
            [] low = 12 /\ Len(b) = 2 /\ (p \div 32) % 4 = 0 -> AIdx(ind, "pcr8", "-", M16(nx + SignExt(b[2], 8)))
            [] low = 13 /\ Len(b) = 3 /\ (p \div 32) % 4 = 0 -> AIdx(ind, "pcr16", "-", M16(nx + b[2] * 256 + b[3]))
            [] p = 159 /\ Len(b) = 3 -> AIdx(TRUE, "extind", "-", b[2] * 256 + b[3])
            [] OTHER -> NoAm               \* 7, 10, 14, 15 (except $9F), [,R+], [,-R]: not defined

DecodeOperand(e, b, nx) ==
  CASE e.mode = "inh"   -> IF b = <<>> THEN AInh ELSE NoAm
    [] e.mode = "imm8"  -> IF Len(b) = 1 THEN AImm(8, b[1]) ELSE NoAm
    [] e.mode = "imm16" -> IF Len(b) = 2 THEN AImm(16, b[1] * 256 + b[2]) ELSE NoAm
    [] e.mode = "dir"   -> IF Len(b) = 1 THEN ADir(b[1]) ELSE NoAm
    [] e.mode = "ext"   -> IF Len(b) = 2 THEN AExt(b[1] * 256 + b[2]) ELSE NoAm
    [] e.mode = "rel8"  -> IF Len(b) = 1 /\ nx + SignExt(b[1], 8) \in 0..65535 THEN ARel(8, nx + SignExt(b[1], 8)) ELSE NoAm
    [] e.mode = "rel16" -> IF Len(b) = 2 THEN ARel(16, M16(nx + b[1] * 256 + b[2])) ELSE NoAm
    [] e.mode = "regs"  -> IF Len(b) = 1
                           THEN ARegs({r \in ListNames \ {Own(e.mn)} : Bits(b[1], StackBit(r), 1) = 1})
                           ELSE NoAm
    [] e.mode = "rr"    -> IF Len(b) = 1 /\ b[1] \div 16 \in IC!Range(RRCodes) /\ b[1] % 16 \in IC!Range(RRCodes)
                              /\ (b[1] \div 16 < 8) = (b[1] % 16 < 8)
                           THEN ARR(RRName(b[1] \div 16), RRName(b[1] % 16)) ELSE NoAm
    [] e.mode = "idx"   -> IF Len(b) >= 1 THEN DecodePost(b, nx) ELSE NoAm

MDecode(b, pc) ==
  IF b = <<>> THEN NoMatch
  ELSE LET page == IF b[1] \in {16, 17} THEN b[1] ELSE 0
           k == IF page = 0 THEN 1 ELSE 2
       IN IF Len(b) < k THEN NoMatch
          ELSE LET es == {e \in Primaries : e.page = page /\ e.op = b[k]} IN
               IF es = {} THEN NoMatch
               ELSE LET e == CHOOSE x \in es : TRUE
                        am == DecodeOperand(e, SubSeq(b, k + 1, Len(b)), pc + Len(b))
                    IN IF am = NoAm THEN NoMatch ELSE MI(e.mn, am)

CanonM(m) == MI(Primary(m.mn, ModeOf(m.am)), m.am)

\* ---- postbyte map --------------------------------------------------------------------------------------------
\* every indexed operand shape the instruction set defines (5-bit offsets with every value)
IdxShapes ==
  {AIdx(FALSE, "off5", IdxRegs[i], v) : i \in 1..4, v \in -16..15}
  \cup {AIdx(ind, sub, IdxRegs[i], 0) : ind \in BOOLEAN, sub \in PlainSubs \cup {"off8", "off16"}, i \in 1..4}
  \cup {AIdx(ind, sub, "-", 0) : ind \in BOOLEAN, sub \in {"pcr8", "pcr16"}}
  \cup {AIdx(TRUE, "extind", "-", 0)}
LegalShapes == {a \in IdxShapes : ~(a.ind /\ a.sub \in {"inc1", "dec1"})}
PostByteMapInjective == \A a, c \in LegalShapes : PostByte(a) = PostByte(c) => a = c
\* 128 five-bit + 4 x (,R+ ,-R) + 2 x 4 x (,R++ ,--R ,R A,R B,R D,R n8,R n16,R) + 2 x 2 PCR + [n] = 205 canonical postbytes
PostByteCount == Cardinality({PostByte(a) : a \in LegalShapes}) = 205
\* the illegal indirect auto-increment / decrement by one fall on postbytes no legal shape uses
IllegalFree == \A a \in IdxShapes \ LegalShapes : \A c \in LegalShapes : PostByte(a) # PostByte(c)

\* ---- range edges (as published) -----------------------------------------------------------------------------------
EdgeOff5  == /\ ~WF(MI("LDA", AIdx(FALSE, "off5", "X", -17)), 0) /\ WF(MI("LDA", AIdx(FALSE, "off5", "X", -16)), 0)
             /\ WF(MI("LDA", AIdx(FALSE, "off5", "X", 15)), 0) /\ ~WF(MI("LDA", AIdx(FALSE, "off5", "X", 16)), 0)
             /\ ~WF(MI("LDA", AIdx(TRUE, "off5", "X", 3)), 0)
EdgeOff8  == /\ ~WF(MI("LDA", AIdx(FALSE, "off8", "Y", -129)), 0) /\ WF(MI("LDA", AIdx(FALSE, "off8", "Y", -128)), 0)
             /\ WF(MI("LDA", AIdx(TRUE, "off8", "Y", 127)), 0) /\ ~WF(MI("LDA", AIdx(TRUE, "off8", "Y", 128)), 0)
EdgeOff16 == /\ ~WF(MI("LDA", AIdx(FALSE, "off16", "S", -32769)), 0) /\ WF(MI("LDA", AIdx(FALSE, "off16", "S", -32768)), 0)
             /\ WF(MI("LDA", AIdx(FALSE, "off16", "S", 32767)), 0) /\ ~WF(MI("LDA", AIdx(FALSE, "off16", "S", 32768)), 0)
\* short branch at 4096: next instruction at 4098
EdgeRel8  == /\ ~WF(MI("BNE", ARel(8, 4098 - 129)), 4096) /\ WF(MI("BNE", ARel(8, 4098 - 128)), 4096)
             /\ WF(MI("BNE", ARel(8, 4098 + 127)), 4096) /\ ~WF(MI("BNE", ARel(8, 4098 + 128)), 4096)
             /\ MEncode(MI("BNE", ARel(8, 4098 - 128)), 4096) = <<38, 128>>
             /\ MEncode(MI("BNE", ARel(8, 4098 + 127)), 4096) = <<38, 127>>
\* long branches: LBRA 3 bytes, LBcc 4 bytes; the offset counts from the following instruction
EdgeRel16 == /\ MEncode(MI("LBRA", ARel(16, 4099)), 4096) = <<22, 0, 0>>
             /\ MEncode(MI("LBNE", ARel(16, 4096)), 4096) = <<16, 38, 255, 252>>
             /\ MEncode(MI("LBSR", ARel(16, 0)), 40000) = <<23, Hi(0 - 40003), Lo(0 - 40003)>>
\* n,PCR: 8-bit form of a page-1 instruction is 3 bytes, of a page-2 / page-3 instruction 4 bytes
EdgePcr   == /\ WF(MI("LDA", AIdx(FALSE, "pcr8", "-", 4099 + 127)), 4096) /\ ~WF(MI("LDA", AIdx(FALSE, "pcr8", "-", 4099 + 128)), 4096)
             /\ WF(MI("LDY", AIdx(FALSE, "pcr8", "-", 4100 - 128)), 4096) /\ ~WF(MI("LDY", AIdx(FALSE, "pcr8", "-", 4100 - 129)), 4096)
             /\ MEncode(MI("LDA", AIdx(FALSE, "pcr8", "-", 4099)), 4096) = <<166, 140, 0>>
             /\ MEncode(MI("CMPS", AIdx(TRUE, "pcr16", "-", 4096)), 4096) = <<17, 172, 157, 255, 251>>
\* register lists and pairs
EdgeRegs  == /\ MEncode(MI("PSHS", ARegs({"CC", "A", "B", "DP", "X", "Y", "U", "PC"})), 0) = <<52, 255>>
             /\ MEncode(MI("PULU", ARegs({"S"})), 0) = <<55, 64>>
             /\ MEncode(MI("PSHS", ARegs({"S"})), 0) = Error /\ MEncode(MI("PULU", ARegs({"U", "A"})), 0) = Error
             /\ MEncode(MI("TFR", ARR("X", "Y")), 0) = <<31, 18>> /\ MEncode(MI("EXG", ARR("A", "DP")), 0) = <<30, 139>>
             /\ MEncode(MI("TFR", ARR("A", "X")), 0) = Error /\ MEncode(MI("EXG", ARR("D", "B")), 0) = Error
TableSane == /\ OpcodeMapInjective /\ OneEntryPerMode /\ AliasesHavePrimary /\ PrefixesFree /\ PublishedCounts
             /\ PostByteMapInjective /\ PostByteCount /\ IllegalFree
             /\ EdgeOff5 /\ EdgeOff8 /\ EdgeOff16 /\ EdgeRel8 /\ EdgeRel16 /\ EdgePcr /\ EdgeRegs

\* ------------------------------------------------------------------------------------------- meaning
\* what the CPU does with the operand (addresses mod 2^16); dp = content of the direct page register at run time
Sem(m, pc, dp) ==
  LET am == m.am IN
  CASE am.k = "inh"  -> <<"none">>
    [] am.k = "imm"  -> <<"value", am.w, am.v>>
    [] am.k = "dir"  -> <<"mem", dp * 256 + am.a>>
    [] am.k = "ext"  -> <<"mem", am.a>>
    [] am.k = "rel"  -> <<"goto", am.t>>
    [] am.k = "regs" -> <<"regs", am.s>>
    [] am.k = "rr"   -> <<"pair", am.r1, am.r2>>
    [] am.k = "idx"  ->
         CASE am.sub \in {"off5", "off8", "off16", "zero"} -> <<"base", am.ind, am.r, M16(am.v), "">>
           [] am.sub \in {"pcr8", "pcr16"} -> <<"abs", am.ind, am.v>>
           [] am.sub = "extind" -> <<"abs", TRUE, am.v>>
           [] OTHER -> <<"base", am.ind, am.r, 0, am.sub>>

\* ------------------------------------------------------------------------------------------- statements
\* k: none | imm (#v) | addr ([<>]v) | target (v) | regs (regs = names as written) | rr (regs = <<r1, r2>>) |
\*    idx (ind, sub in PlainSubs or "off" "pcr" "extind", r, force in "" "<" ">" "<<", v)
S0 == [mn |-> "", k |-> "none", ind |-> FALSE, sub |-> "", r |-> "-", force |-> "", v |-> 0, regs |-> <<>>]
SNone(mn) == [S0 EXCEPT !.mn = mn]
SImm(mn, v) == [S0 EXCEPT !.mn = mn, !.k = "imm", !.v = v]
SAddr(mn, force, v) == [S0 EXCEPT !.mn = mn, !.k = "addr", !.force = force, !.v = v]
STarget(mn, v) == [S0 EXCEPT !.mn = mn, !.k = "target", !.v = v]
SRegs(mn, names) == [S0 EXCEPT !.mn = mn, !.k = "regs", !.regs = names]
SRR(mn, r1, r2) == [S0 EXCEPT !.mn = mn, !.k = "rr", !.regs = <<r1, r2>>]
SIdx(mn, ind, sub, r, force, v) == [S0 EXCEPT !.mn = mn, !.k = "idx", !.ind = ind, !.sub = sub, !.r = r, !.force = force, !.v = v]

\* source text of the operand field (Motorola syntax)
RECURSIVE JoinC(_)
JoinC(q) == IF q = <<>> THEN "" ELSE IF Len(q) = 1 THEN q[1] ELSE q[1] \o "," \o JoinC(Tail(q))
Text(s) ==
  LET br(t) == IF s.ind THEN "[" \o t \o "]" ELSE t IN
  CASE s.k = "none" -> ""
    [] s.k = "imm" -> "#" \o ToString(s.v)
    [] s.k = "addr" -> s.force \o ToString(s.v)
    [] s.k = "target" -> ToString(s.v)
    [] s.k \in {"regs", "rr"} -> JoinC(s.regs)
    [] s.k = "idx" ->
         CASE s.sub = "zero" -> br("," \o s.r)
           [] s.sub = "inc1" -> br("," \o s.r \o "+")
           [] s.sub = "inc2" -> br("," \o s.r \o "++")
           [] s.sub = "dec1" -> br(",-" \o s.r)
           [] s.sub = "dec2" -> br(",--" \o s.r)
           [] s.sub = "accA" -> br("A," \o s.r)
           [] s.sub = "accB" -> br("B," \o s.r)
           [] s.sub = "accD" -> br("D," \o s.r)
           [] s.sub = "off"  -> br(s.force \o ToString(s.v) \o "," \o s.r)
           [] s.sub = "pcr"  -> br(s.force \o ToString(s.v) \o ",PCR")
           [] s.sub = "extind" -> "[" \o ToString(s.v) \o "]"

ImmWidth(mn) == IF HasEntry(mn, "imm8") THEN 8 ELSE IF HasEntry(mn, "imm16") THEN 16 ELSE 0
RelWidth(mn) == IF HasEntry(mn, "rel8") THEN 8 ELSE IF HasEntry(mn, "rel16") THEN 16 ELSE 0

\* every machine instruction the statement denotes (dpr = the direct page the program told the assembler to assume)
Readings(s, pc, dpr) ==
  LET cand ==
    CASE s.k = "none" -> {MI(s.mn, AInh)}
      [] s.k = "imm" -> LET w == ImmWidth(s.mn) IN
           IF w = 0 \/ s.v < -(2^(w - 1)) \/ s.v > 2^w - 1 THEN {} ELSE {MI(s.mn, AImm(w, s.v % (2^w)))}
      [] s.k = "addr" ->
           IF s.v < -32768 \/ s.v > 65535 THEN {}
           ELSE LET a == M16(s.v) IN
                (IF Hi(a) = dpr \/ s.force = "<" THEN {MI(s.mn, ADir(Lo(a)))} ELSE {}) \cup {MI(s.mn, AExt(a))}
      [] s.k = "target" -> LET w == RelWidth(s.mn) IN IF w = 0 THEN {} ELSE {MI(s.mn, ARel(w, s.v))}
      [] s.k = "regs" -> {MI(s.mn, ARegs(IC!Range(s.regs)))}
      [] s.k = "rr" -> {MI(s.mn, ARR(s.regs[1], s.regs[2]))}
      [] s.k = "idx" ->
           CASE s.sub \in PlainSubs -> {MI(s.mn, AIdx(s.ind, s.sub, s.r, 0))}
             [] s.sub = "off" ->
                  IF s.v < -32768 \/ s.v > 65535 THEN {}
                  ELSE LET v == S16(s.v) IN
                       {MI(s.mn, AIdx(s.ind, sub, s.r, v)) : sub \in {"off5", "off8", "off16"}}
                       \cup (IF v = 0 THEN {MI(s.mn, AIdx(s.ind, "zero", s.r, 0))} ELSE {})
             [] s.sub = "pcr" ->
                  IF s.v < -32768 \/ s.v > 65535 THEN {}
                  ELSE {MI(s.mn, AIdx(s.ind, sub, "-", M16(s.v))) : sub \in {"pcr8", "pcr16"}}
             [] s.sub = "extind" ->
                  IF s.v < -32768 \/ s.v > 65535 THEN {} ELSE {MI(s.mn, AIdx(TRUE, "extind", "-", M16(s.v)))}
  IN {m \in cand : WF(m, pc)}

\* declarative meaning of the statement text itself (independent of Readings): what the operand field says
StmtSem(s, pc, dpr) ==
  CASE s.k = "none" -> <<"none">>
    [] s.k = "imm" -> <<"value", ImmWidth(s.mn), s.v % (2^ImmWidth(s.mn))>>
    [] s.k = "addr" -> <<"mem", M16(s.v)>>
    [] s.k = "target" -> <<"goto", s.v>>
    [] s.k = "regs" -> <<"regs", IC!Range(s.regs)>>
    [] s.k = "rr" -> <<"pair", s.regs[1], s.regs[2]>>
    [] s.k = "idx" ->
         CASE s.sub = "off" -> <<"base", s.ind, s.r, M16(s.v), "">>
           [] s.sub = "zero" -> <<"base", s.ind, s.r, 0, "">>
           [] s.sub = "pcr" -> <<"abs", s.ind, M16(s.v)>>
           [] s.sub = "extind" -> <<"abs", TRUE, M16(s.v)>>
           [] OTHER -> <<"base", s.ind, s.r, 0, s.sub>>
\* meaning of a reading of a statement: a direct-page access means the page the program assumed - unless the programmer
\* forced direct addressing himself (`<`: he vouches for the register content, only the low byte is his statement)
ReadingSem(s, m, pc, dpr) ==
  IF s.k = "addr" /\ s.force = "<" /\ m.am.k = "dir" THEN <<"mem", Hi(s.v) * 256 + m.am.a>> ELSE Sem(m, pc, dpr)

\* ---- what instruction set and manual fix ---------------------------------------------------------------------------
\* operand spelled inside the published range (not a two's-complement / wrap-around spelling)
Plain(s) ==
  CASE s.k = "imm" -> s.v >= 0
    [] s.k = "addr" -> s.v >= 0
    [] s.k = "idx" /\ s.sub = "off" -> s.v <= 32767
    [] s.k = "idx" /\ s.sub \in {"pcr", "extind"} -> s.v >= 0
    [] OTHER -> TRUE
Expect(s, pc, dpr) == IF Readings(s, pc, dpr) = {} THEN "reject"
                      ELSE IF s.force # "" \/ ~Plain(s) THEN "either" ELSE "units"

\* ---- the assembler's choice (Motorola convention; never a verdict) ---------------------------------------------
Pref(m) == CASE m.am.k = "dir" -> 1 [] m.am.k = "ext" -> 2
             [] m.am.k = "idx" -> (CASE m.am.sub = "zero" -> 1 [] m.am.sub = "off5" -> 2 [] m.am.sub \in {"off8", "pcr8"} -> 3
                                     [] m.am.sub \in {"off16", "pcr16"} -> 4 [] OTHER -> 1)
             [] OTHER -> 1
Forced(s) == CASE s.force = "<<" -> {"off5"}
               [] s.force = "<" -> {"dir", "off8", "pcr8"}
               [] s.force = ">" -> {"ext", "off16", "pcr16"}
               [] OTHER -> {}
KindOf(m) == IF m.am.k = "idx" THEN m.am.sub ELSE m.am.k
\* a forced size is taken literally: the value as written must fit
ForcedFits(s) == CASE s.force = "<<" -> s.v >= -16 /\ s.v <= 15
                   [] s.force = "<" /\ s.k = "idx" /\ s.sub = "off" -> s.v >= -128 /\ s.v <= 127
                   [] OTHER -> TRUE
Choices(s, pc, dpr) ==
  LET R == Readings(s, pc, dpr) IN
  IF s.force = "" THEN {m \in R : \A g \in R : Pref(m) <= Pref(g)}
  ELSE IF ~ForcedFits(s) THEN {}
  ELSE {m \in R : KindOf(m) \in Forced(s) /\ (m.am.k = "dir" => Hi(s.v) = dpr)}
=============================================================================
