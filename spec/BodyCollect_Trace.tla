--------------------------- MODULE BodyCollect_Trace ---------------------------
(* (V) The line runs of golden sources that the replay wrapped into a parameterless macro, as the sequence *)
(* of (upper-cased) mnemonics the real assembler logged for them (`stmt` hook): TLC confirms the wrap's     *)
(* precondition on each - balanced for the body collector and for IF / STRUCT / SECTION pairs - and that    *)
(* the collector ends the wrapper's body at the wrapper's ENDM.  [a |-> "WRAP", ops] / [a |-> "RESET"]      *)
(* [a |-> "WRAPLOCAL", ops, run]: a whole main file wrapped into a plain macro (labels local to the wrapper):    *)
(* additionally no SECTION among the statement names `run` executed anywhere in the run (LocalWrappable).       *)
EXTENDS BodyCollect, TLC, Json, IOUtils
VARIABLES l
TraceLog == ndJsonDeserialize(IOEnv.TRACE)
TInit == l = 1
TNext == /\ l <= Len(TraceLog)
         /\ LET e == TraceLog[l] IN
              CASE e.a = "RESET" -> TRUE
                [] e.a = "WRAP"  -> Wrappable(e.ops) /\ WrapperCollectsExactly(e.ops)
                [] e.a = "WRAPLOCAL" -> LocalWrappable(e.ops, {e.run[i] : i \in 1..Len(e.run)}) /\ WrapperCollectsExactly(e.ops)
                [] OTHER -> FALSE
         /\ l' = l + 1
Accepted == TLCGet("stats").diameter - 1 = Len(TraceLog)
=============================================================================
