\* C18 cover: histories of a predecessor of <= 2 line classes and a successor of 1 (Driver_Gen_Hist2.cfg: 2) over 9 mode flags + probes, 8 open constructs, errors,
\* forward references, EXPECT; -maxerrors 0/1
CONSTANTS MaxLines = 2 MaxFiles = 2 Wrap = 0 Leaky = {} MaxLater = 2 BigFirst = TRUE HistView = TRUE
CONSTANTS Kinds <- KindsHistAll OptSpace <- OptsTwo
INIT GInit
NEXT GNext
VIEW GView
ACTION_CONSTRAINT TCover
CHECK_DEADLOCK FALSE
