---------------------------- MODULE Limb64_MC ----------------------------
(* Model check of the 64-bit arithmetic used by Expr/DataDef: native agreement on small operands and *)
(* algebraic laws on the boundary operands 0, +-1, 2^31, 2^32, 2^63-1, -2^63 (and neighbours).       *)
EXTENDS Limb64, TLC
CONSTANTS Small,     \* native bound: operands -Small..Small are compared with TLC arithmetic
          ShiftCounts \* shift counts for which the shift laws are checked (subset of 0..63)

VARIABLES x, y
vars == <<x, y>>

Boundary == {Zero, One, MinusOne, MaxInt, MinInt, Pow31, Pow32, Sub(Pow31, One), Neg(Pow31), Sub(Pow32, One),
             Add(MinInt, One), Sub(MaxInt, One), <<65535, 0, 65535, 0>>, <<1, 2, 3, 4>>, <<65534, 65535, 32767, 65535>>,
             FromNat(255), FromNat(65535), FromNat(10), FromInt(0 - 7)}
SmallSet == {FromInt(n) : n \in (0 - Small)..Small}
Operands == Boundary \cup SmallSet

\* two levels so that TLC's workers share the work: x is chosen initially, y by the first step
Init == x \in Operands /\ y = <<>>
Next == y = <<>> /\ y' \in Operands /\ x' = x
Spec == Init /\ [][Next]_vars

TruncDiv(a, b) == IF (a >= 0) = (b >= 0) THEN (IF a >= 0 THEN a \div b ELSE (0 - a) \div (0 - b))
                  ELSE 0 - ((IF a >= 0 THEN a ELSE 0 - a) \div (IF b >= 0 THEN b ELSE 0 - b))

BothSmall == x \in SmallSet /\ y \in SmallSet
Chosen == y # <<>>

NativeAgreement ==
  Chosen /\ BothSmall =>
    LET a == ToInt(x)
        b == ToInt(y)
    IN /\ FitsSmall(x) /\ FitsSmall(y)
       /\ ToInt(Add(x, y)) = a + b
       /\ ToInt(Sub(x, y)) = a - b
       /\ ToInt(Mul(x, y)) = a * b
       /\ ToInt(Neg(x)) = 0 - a
       /\ ToInt(Not(x)) = (0 - a) - 1
       /\ LtS(x, y) = (a < b)
       /\ LeS(x, y) = (a <= b)
       /\ (b # 0 => /\ ToInt(DivT(x, y)) = TruncDiv(a, b)
                    /\ ToInt(ModT(x, y)) = a - b * TruncDiv(a, b))
       /\ (b \in 0..20 /\ a >= 0 => /\ ToInt(Shl(x, b)) = a * Pow2(b)
                                   /\ ToInt(ShrL(x, b)) = a \div Pow2(b)
                                   /\ ToInt(ShrA(x, b)) = a \div Pow2(b))
       /\ (b \in 0..20 /\ a < 0 => ToInt(ShrA(x, b)) = 0 - (((0 - a) + Pow2(b) - 1) \div Pow2(b)))  \* floor
       /\ (b \in 0..4 /\ a \in (0 - 6)..6 => ToInt(Pow(x, y)) = (IF b = 0 THEN 1 ELSE IF b = 1 THEN a ELSE IF b = 2 THEN a * a
                                                                   ELSE IF b = 3 THEN a * a * a ELSE a * a * a * a))

Laws == Chosen =>
  /\ IsLimbs(Add(x, y)) /\ IsLimbs(Mul(x, y)) /\ IsLimbs(Neg(x)) /\ IsLimbs(And(x, y))
  /\ Add(x, y) = Add(y, x)
  /\ Mul(x, y) = Mul(y, x)
  /\ Sub(Add(x, y), y) = x
  /\ Add(x, Neg(x)) = Zero
  /\ Mul(x, MinusOne) = Neg(x)
  /\ Mul(x, One) = x /\ Mul(x, Zero) = Zero
  /\ Not(x) = Sub(MinusOne, x)
  /\ Xor(x, y) = Sub(Or(x, y), And(x, y))
  /\ And(x, Not(x)) = Zero /\ Or(x, Not(x)) = MinusOne
  /\ PopCnt(x) + PopCnt(Not(x)) = 64
  /\ (LtS(x, y) \/ LtS(y, x) \/ x = y) /\ ~(LtS(x, y) /\ LtS(y, x))
  /\ (\A n \in ShiftCounts : /\ Shl(x, n) = Mul(x, Shl(One, n))
                       /\ ShrL(Shl(x, n), n) = And(x, ShrL(MinusOne, n))
                       /\ Add(Shl(ShrA(x, n), n), And(x, Not(Shl(MinusOne, n)))) = x
                       /\ IsNeg(ShrA(x, n)) = IsNeg(x)
                       /\ (n > 0 => ~IsNeg(ShrL(x, n))))
  /\ (~IsZero(y) /\ ~DivOverflows(x, y) =>
        LET q == DivT(x, y)
            r == ModT(x, y)
        IN /\ Add(Mul(q, y), r) = x                         \* q*y + r = x
           /\ LtU(Abs(r), Abs(y)) \/ (y = MinInt /\ ~IsNeg(r) /\ ~IsZero(Abs(y)))  \* |r| < |y|
           /\ (IsZero(r) \/ IsNeg(r) = IsNeg(x)))            \* remainder has the dividend's sign
  /\ Pow(x, Zero) = One /\ Pow(x, One) = x /\ Pow(x, FromNat(2)) = Mul(x, x) /\ Pow(x, FromNat(5)) = Mul(x, Mul(Mul(x, x), Mul(x, x)))
  /\ FromBytes8(Bytes8(x)) = x
  /\ DigitsVal(<<1, 0>>, 16, Zero) = FromNat(16)

Known ==
  /\ Mul(Pow32, Pow31) = MinInt
  /\ Add(MaxInt, One) = MinInt
  /\ Neg(MinInt) = MinInt
  /\ DivT(MinInt, FromNat(2)) = <<0, 0, 0, 49152>>
  /\ ModT(FromInt(0 - 7), FromNat(2)) = MinusOne /\ DivT(FromInt(0 - 7), FromNat(2)) = FromInt(0 - 3)
  /\ DigitsVal(<<7, 15, 15, 15, 15, 15, 15, 15, 15, 15, 15, 15, 15, 15, 15, 15>>, 16, Zero) = MaxInt
  /\ DigitsVal(<<9, 2, 2, 3, 3, 7, 2, 0, 3, 6, 8, 5, 4, 7, 7, 5, 8, 0, 7>>, 10, Zero) = MaxInt
  /\ DigitsVal(<<2, 1, 4, 7, 4, 8, 3, 6, 4, 8>>, 10, Zero) = Pow31
=============================================================================
