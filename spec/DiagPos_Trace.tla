--------------------------- MODULE DiagPos_Trace ---------------------------
(* Trace validation of the EXPECT accounting (asmerr.c) on recorded runs: the `diag` hook events of a    *)
(* statement (every message raised while it was assembled, with the flag "consumed by EXPECT") grouped    *)
(* with the statement that raised them.                                                                   *)
(*   [a |-> "STMT", diags]            any statement: a message is consumed iff its number is pending       *)
(*   [a |-> "EXPECT", nums, diags]    CodeEXPECT:  nested => 2140, else the numbers become pending          *)
(*   [a |-> "ENDEXPECT", nargs, diags] CodeENDEXPECT: one 2130 per leftover, without EXPECT => 2160          *)
(*   [a |-> "PASSEND", diags]         AsmErrPassExit: open EXPECT => 2150                                   *)
(*   [a |-> "RESET"]                  next pass / next execution (AsmErrPassInit)                           *)
(* diags = sequence of [num, hid].                                                                         *)
EXTENDS DiagPos, Json, IOUtils

VARIABLES x, l
vars == <<x, l>>
TraceLog == ndJsonDeserialize(IOEnv.TRACE)

Clear(y) == [y EXCEPT !.log = <<>>, !.out = <<>>]
AsLog(ds) == [i \in DOMAIN ds |-> [num |-> ds[i].num, hid |-> ds[i].hid]]

\* messages of an ordinary statement are inputs; the machine decides hidden / shown
RECURSIVE Feed(_, _)
Feed(y, ds) == IF ds = <<>> THEN y ELSE Feed(Report(y, Head(ds).num, Internal), Tail(ds))

TInit == x = XInit /\ l = 1
TNext ==
  /\ l <= Len(TraceLog)
  /\ l' = l + 1
  /\ LET e == TraceLog[l] IN
       CASE e.a = "RESET" -> x' = XInit
         [] e.a = "STMT" -> LET y == Feed(Clear(x), e.diags) IN y.log = AsLog(e.diags) /\ x' = Clear(y)
         [] e.a = "EXPECT" ->
              \* messages raised before the statement's own logic (operand evaluation) are not modelled: none allowed
              LET y == CodeEXPECT(Clear(x), e.nums, Internal) IN y.log = AsLog(e.diags) /\ x' = Clear(y)
         [] e.a = "ENDEXPECT" -> LET y == CodeENDEXPECT(Clear(x), e.nargs, Internal) IN y.log = AsLog(e.diags) /\ x' = Clear(y)
         [] OTHER -> LET y == PassExit(Clear(x)) IN y.log = AsLog(e.diags) /\ x' = Clear(y)
Accepted == TLCGet("stats").diameter - 1 = Len(TraceLog)
=============================================================================
