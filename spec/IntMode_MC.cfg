\* quick: initial targets z80 / 68000; every history of 1 and 2 statements, third statement from Stmts3
CONSTANTS Fams0 = {"Intel", "Moto"}
          MaxLen = 3
          Quick = TRUE
SPECIFICATION Spec
INVARIANTS ListIsFunctionOfSettings VerdictsAgree LiteralsAgree Emit
CHECK_DEADLOCK FALSE
