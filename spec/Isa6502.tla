------------------------------- MODULE Isa6502 -------------------------------
(* MOS Technology 6502 (151 documented opcodes) and the CMOS 65C02 family, written from the MCS6500    *)
(* Microcomputer Family Programming Manual (opcode matrix aaabbbcc) and the Rockwell R65C02 / WDC      *)
(* W65C02S data sheets:                                                                               *)
(*   65SC02 = CMOS base set: BRA, PHX/PHY/PLX/PLY, STZ, TRB, TSB, INC A / DEC A, (zp) mode, BIT #/zp,X/ *)
(*            abs,X, JMP (abs,X)                                                                      *)
(*   65C02  = 65SC02 + Rockwell bit instructions RMBn/SMBn zp (n7,87 + n*16), BBRn/BBSn zp,rel (0F/8F)  *)
(*   W65C02S = 65C02 + WAI (CB), STP (DB)                                                             *)
(* Group cc=01 (ORA AND EOR ADC STA LDA CMP SBC): opcode = aaa*32 + 1 + mode offset: (zp,X) 0, zp 4,   *)
(*   # 8, abs 12, (zp),Y 16, zp,X 20, abs,Y 24, abs,X 28; CMOS (zp) = aaa*32 + 18.                     *)
(* Operands: 8-bit immediate, zero-page address, 16-bit address low byte first, relative branches      *)
(* with an 8-bit signed displacement from the address of the next instruction.                        *)
(* Assembler convention (MOS): a plain address operand < 256 selects the zero-page form where the      *)
(* mnemonic has one; the absolute form is therefore exercised with operands 256..65535.                *)
EXTENDS IsaCommon

AddrMax == 65535
UnitBits == 8
BranchPCs == {4096, 40000}

\* MELPS740: Mitsubishi 740 family, only its 6502-compatible base set is tabulated (used for the adjacency dimension)
NMOS == {"6502", "65SC02", "65C02", "W65C02S", "MELPS740"}
CMOS == {"65SC02", "65C02", "W65C02S"}
ROCK == {"65C02", "W65C02S"}
WDC  == {"W65C02S"}

ZpSib  == FWindow(0, 255, 8)                                             \* zero page, absolute sibling exists
ZpOnly == FNum(0, 255, -128, 255, 8, FALSE)                              \* zero page only
AbsSib == [FNum(256, 65535, 256, 65535, 16, FALSE) EXCEPT !.gmin = 256]  \* absolute, zero-page sibling exists
AbsOnly == FUns(16)

B2 == <<U(0, <<P(1, 0, 8, 0)>>)>>
B3 == <<U(0, <<P(1, 0, 8, 0)>>), U(0, <<P(1, 8, 8, 0)>>)>>

\* addressing mode -> [args, flds, operand units]
ModeSpec(m) ==
  CASE m = "imp"   -> [args |-> <<>>, flds |-> <<>>, tail |-> <<>>]
    [] m = "acc"   -> [args |-> <<Lit("A")>>, flds |-> <<>>, tail |-> <<>>]
    [] m = "imm"   -> [args |-> <<Arg("#", 1, "")>>, flds |-> <<FUns(8)>>, tail |-> B2]
    [] m = "zp"    -> [args |-> <<Op(1)>>, flds |-> <<ZpSib>>, tail |-> B2]
    [] m = "zpo"   -> [args |-> <<Op(1)>>, flds |-> <<ZpOnly>>, tail |-> B2]
    [] m = "zpx"   -> [args |-> <<Op(1), Lit("X")>>, flds |-> <<ZpSib>>, tail |-> B2]
    [] m = "zpy"   -> [args |-> <<Op(1), Lit("Y")>>, flds |-> <<ZpSib>>, tail |-> B2]
    [] m = "zpxo"  -> [args |-> <<Op(1), Lit("X")>>, flds |-> <<ZpOnly>>, tail |-> B2]
    [] m = "zpyo"  -> [args |-> <<Op(1), Lit("Y")>>, flds |-> <<ZpOnly>>, tail |-> B2]
    [] m = "abs"   -> [args |-> <<Op(1)>>, flds |-> <<AbsSib>>, tail |-> B3]
    [] m = "abso"  -> [args |-> <<Op(1)>>, flds |-> <<AbsOnly>>, tail |-> B3]
    \* assembler spelling "<addr" (force zero page) on a mode that has no zero-page form: see Unjudged
    [] m = "abso<" -> [args |-> <<Arg("<", 1, "")>>, flds |-> <<FWindow(0, 255, 16)>>, tail |-> B3]
    [] m = "absyo<" -> [args |-> <<Arg("<", 1, ""), Lit("Y")>>, flds |-> <<FWindow(0, 255, 16)>>, tail |-> B3]
    [] m = "absx"  -> [args |-> <<Op(1), Lit("X")>>, flds |-> <<AbsSib>>, tail |-> B3]
    [] m = "absy"  -> [args |-> <<Op(1), Lit("Y")>>, flds |-> <<AbsSib>>, tail |-> B3]
    [] m = "absxo" -> [args |-> <<Op(1), Lit("X")>>, flds |-> <<AbsOnly>>, tail |-> B3]
    [] m = "absyo" -> [args |-> <<Op(1), Lit("Y")>>, flds |-> <<AbsOnly>>, tail |-> B3]
    [] m = "indx"  -> [args |-> <<Arg("(", 1, ""), Lit("X)")>>, flds |-> <<ZpOnly>>, tail |-> B2]
    [] m = "indy"  -> [args |-> <<Arg("(", 1, ")"), Lit("Y")>>, flds |-> <<ZpOnly>>, tail |-> B2]
    [] m = "zpind" -> [args |-> <<Arg("(", 1, ")")>>, flds |-> <<ZpOnly>>, tail |-> B2]
    [] m = "ind"   -> [args |-> <<Arg("(", 1, ")")>>, flds |-> <<AbsOnly>>, tail |-> B3]
    [] m = "aindx" -> [args |-> <<Arg("(", 1, ""), Lit("X)")>>, flds |-> <<AbsOnly>>, tail |-> B3]
    [] m = "rel"   -> [args |-> <<Op(1)>>, flds |-> <<FRel(8, 2)>>, tail |-> B2]
    [] m = "zprel" -> [args |-> <<Op(1), Op(2)>>, flds |-> <<ZpOnly, FRel(8, 3)>>,
                       tail |-> <<U(0, <<P(1, 0, 8, 0)>>), U(0, <<P(2, 0, 8, 0)>>)>>]

FlowOf(mn, m) ==
  CASE m = "rel" /\ mn = "BRA" -> "jump"
    [] m \in {"rel", "zprel"} -> "cond"
    [] mn = "JMP" /\ m = "abso" -> "jump"
    [] mn = "JMP" -> "stop"
    [] mn = "JSR" -> "call"
    [] mn \in {"RTS", "RTI"} -> "ret"
    [] mn \in {"BRK", "STP"} -> "stop"
    [] OTHER -> "next"

F(mn, m, code, cpus) ==
  LET ms == ModeSpec(m) IN
  [id |-> mn \o " " \o m, mn |-> mn, cpus |-> cpus, args |-> ms.args, flds |-> ms.flds,
   enc |-> <<U(code, <<>>)>> \o ms.tail, flow |-> FlowOf(mn, m),
   tf |-> IF m = "zprel" THEN 2 ELSE IF m = "rel" \/ mn \in {"JSR"} \/ (mn = "JMP" /\ m = "abso") THEN 1 ELSE 0,
   alias |-> FALSE]

\* group cc = 01
G1 == << <<"ORA", 0>>, <<"AND", 1>>, <<"EOR", 2>>, <<"ADC", 3>>, <<"STA", 4>>, <<"LDA", 5>>, <<"CMP", 6>>, <<"SBC", 7>> >>
G1Modes == << <<"indx", 0>>, <<"zp", 4>>, <<"imm", 8>>, <<"abs", 12>>, <<"indy", 16>>, <<"zpx", 20>>,
              <<"absyo", 24>>, <<"absx", 28>> >>
Group1 == {F(G1[i][1], G1Modes[j][1], G1[i][2] * 32 + 1 + G1Modes[j][2], NMOS) :
             <<i, j>> \in {x \in (1..8) \X (1..8) : ~(G1[x[1]][1] = "STA" /\ G1Modes[x[2]][1] = "imm")}}
           \cup {F(G1[i][1], "zpind", G1[i][2] * 32 + 18, CMOS) : i \in 1..8}

\* shifts / rotates / INC / DEC: zp, zp,X, abs, abs,X (+ accumulator for the shifts)
G2 == << <<"ASL", 0>>, <<"ROL", 1>>, <<"LSR", 2>>, <<"ROR", 3>>, <<"DEC", 6>>, <<"INC", 7>> >>
Group2 == UNION {{F(G2[i][1], "zp", G2[i][2] * 32 + 6, NMOS), F(G2[i][1], "zpx", G2[i][2] * 32 + 22, NMOS),
                  F(G2[i][1], "abs", G2[i][2] * 32 + 14, NMOS), F(G2[i][1], "absx", G2[i][2] * 32 + 30, NMOS)} : i \in 1..6}
          \cup {F(G2[i][1], "acc", G2[i][2] * 32 + 10, NMOS) : i \in 1..4}
          \cup {[F(G2[i][1], "imp", G2[i][2] * 32 + 10, NMOS) EXCEPT !.alias = TRUE] : i \in 1..4}

Implied == << <<"BRK", 0>>, <<"PHP", 8>>, <<"CLC", 24>>, <<"PLP", 40>>, <<"SEC", 56>>, <<"RTI", 64>>, <<"PHA", 72>>,
              <<"CLI", 88>>, <<"RTS", 96>>, <<"PLA", 104>>, <<"SEI", 120>>, <<"DEY", 136>>, <<"TXA", 138>>,
              <<"TYA", 152>>, <<"TXS", 154>>, <<"TAY", 168>>, <<"TAX", 170>>, <<"CLV", 184>>, <<"TSX", 186>>,
              <<"INY", 200>>, <<"DEX", 202>>, <<"CLD", 216>>, <<"INX", 232>>, <<"NOP", 234>>, <<"SED", 248>> >>
Branches == << <<"BPL", 16>>, <<"BMI", 48>>, <<"BVC", 80>>, <<"BVS", 112>>, <<"BCC", 144>>, <<"BCS", 176>>,
               <<"BNE", 208>>, <<"BEQ", 240>> >>

Misc ==
  { F("BIT", "zp", 36, NMOS), F("BIT", "abs", 44, NMOS),
    F("JMP", "abso", 76, NMOS), F("JMP", "ind", 108, NMOS), F("JSR", "abso", 32, NMOS),
    F("CPX", "imm", 224, NMOS), F("CPX", "zp", 228, NMOS), F("CPX", "abs", 236, NMOS),
    F("CPY", "imm", 192, NMOS), F("CPY", "zp", 196, NMOS), F("CPY", "abs", 204, NMOS),
    F("LDX", "imm", 162, NMOS), F("LDX", "zp", 166, NMOS), F("LDX", "zpy", 182, NMOS), F("LDX", "abs", 174, NMOS),
    F("LDX", "absy", 190, NMOS),
    F("LDY", "imm", 160, NMOS), F("LDY", "zp", 164, NMOS), F("LDY", "zpx", 180, NMOS), F("LDY", "abs", 172, NMOS),
    F("LDY", "absx", 188, NMOS),
    F("STX", "zp", 134, NMOS), F("STX", "zpyo", 150, NMOS), F("STX", "abs", 142, NMOS),
    F("STY", "zp", 132, NMOS), F("STY", "zpxo", 148, NMOS), F("STY", "abs", 140, NMOS) }

Cmos ==
  { F("BRA", "rel", 128, CMOS), F("PHX", "imp", 218, CMOS), F("PHY", "imp", 90, CMOS), F("PLX", "imp", 250, CMOS),
    F("PLY", "imp", 122, CMOS),
    F("STZ", "zp", 100, CMOS), F("STZ", "zpx", 116, CMOS), F("STZ", "abs", 156, CMOS), F("STZ", "absx", 158, CMOS),
    F("TRB", "zp", 20, CMOS), F("TRB", "abs", 28, CMOS), F("TSB", "zp", 4, CMOS), F("TSB", "abs", 12, CMOS),
    F("BIT", "imm", 137, CMOS), F("BIT", "zpx", 52, CMOS), F("BIT", "absx", 60, CMOS),
    F("INC", "acc", 26, CMOS), F("DEC", "acc", 58, CMOS),
    F("JMP", "aindx", 124, CMOS),
    F("WAI", "imp", 203, WDC), F("STP", "imp", 219, WDC) }

BitNames == << "0", "1", "2", "3", "4", "5", "6", "7" >>
Rockwell ==
  UNION {{F("RMB" \o BitNames[n + 1], "zpo", n * 16 + 7, ROCK), F("SMB" \o BitNames[n + 1], "zpo", n * 16 + 135, ROCK),
          F("BBR" \o BitNames[n + 1], "zprel", n * 16 + 15, ROCK), F("BBS" \o BitNames[n + 1], "zprel", n * 16 + 143, ROCK)}
         : n \in 0..7}

\* Assembler spelling "<addr" (force zero page; code65.c ChkZero) on the forms that have NO zero-page sibling: the manual
\* is silent about the prefix for this family (the 65816 section asks for an error), so acceptance is not judged
\* (Unjudged below); the units are the only encoding the instruction set has: opcode, low byte, 00.
ForcedZp == {[F(G1[i][1], "absyo<", G1[i][2] * 32 + 1 + 24, NMOS) EXCEPT !.alias = TRUE] : i \in 1..8}
            \cup {[F("JMP", "abso<", 76, NMOS) EXCEPT !.alias = TRUE], [F("JSR", "abso<", 32, NMOS) EXCEPT !.alias = TRUE]}

Forms == Group1 \cup Group2 \cup Misc \cup Cmos \cup Rockwell \cup ForcedZp
         \cup {F(Implied[i][1], "imp", Implied[i][2], NMOS) : i \in 1..Len(Implied)}
         \cup {F(Branches[i][1], "rel", Branches[i][2], NMOS) : i \in 1..Len(Branches)}

\* NMOS anomaly documented by MOS: JMP (xxFF) fetches the high byte from xx00; an assembler may refuse it on the
\* NMOS part.  The CMOS parts fixed this, there the statement is plainly legal.
\* the 740 family has its own zero-page indirect jump JMP ($zz) (opcode B2): outside the tabulated common subset
Skipped(cpu, form, ops) == cpu = "MELPS740" /\ form.id = "JMP ind" /\ ops[1] < 256
\* "<addr" where the instruction has no zero-page form: an assembler may refuse it; if it accepts, the only
\* encoding the instruction set offers is the three-byte absolute one (low byte, 00)
Unjudged(cpu, form, ops) ==
  \/ cpu \in {"6502", "MELPS740"} /\ form.id = "JMP ind" /\ ops[1] % 256 = 255
  \/ (Len(form.args) >= 1 /\ form.args[1].pre = "<")

\* Named assembler behaviour for the Mitsubishi 740 family only (usage cautions of the MELPS 740 software manual
\* turned into automatic NOPs): PLP is followed by a NOP; SEC / CLC / CLD directly after ADC / SBC are preceded by a
\* NOP.  Every other 65xx CPU is context free.
After(cpu, prev, form, units) ==
  IF cpu # "MELPS740" THEN units
  ELSE IF form.mn = "PLP" THEN units \o <<234>>
  ELSE IF prev.mn \in {"ADC", "SBC"} /\ form.mn \in {"SEC", "CLC", "CLD"} THEN <<234>> \o units
  ELSE units

\* 151 documented NMOS opcodes; CMOS base adds 8 (zp) + BRA PHX PHY PLX PLY (5) + STZ 4 + TRB 2 + TSB 2 + BIT 3 +
\* INC A, DEC A (2) + JMP (abs,X) = 27; Rockwell adds 32; WDC adds 2
DefinedCount(cpu) == CASE cpu = "6502" -> 151 [] cpu = "65SC02" -> 178 [] cpu = "65C02" -> 210 [] cpu = "W65C02S" -> 212
                      [] cpu = "MELPS740" -> 151      \* the tabulated 6502-compatible subset
=============================================================================
