CONSTANTS LOCSYMSIGHT = 3 PopVIntoConstant = TRUE NamedTmpByLastGlobal = TRUE EmptyMacroPopsOuter = TRUE
          MaxLen = 4 MaxDepth = 2 Focus = "stack" CaseModes = {FALSE}
SPECIFICATION Spec
INVARIANTS LookupAgreesWithManual ExtraPassAgrees ConvergesInTwo StackMirrorsText
PROPERTIES ConstNeverChanges
CHECK_DEADLOCK FALSE
