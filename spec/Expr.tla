------------------------------- MODULE Expr -------------------------------
(* Formula expressions of the assembler (doc/assembler-usage.md "Formula Expressions").                *)
(*                                                                                                    *)
(*  1. STRUCTURE.  OpTable is the operator table of the manual (documented rank, number of operands,   *)
(*     operand types) joined with the table Operators[] of operator.c (order, Priority,                *)
(*     TypeCombinations).  Scan/Parse transcribe asmpars.c EvalStrExpression: the formula is split at  *)
(*     the *rightmost* operator of *highest* priority outside parentheses, longest operator match,     *)
(*     a '-' in first position is the one-operand minus, operand count check; a formula without        *)
(*     operator is a parenthesised formula or a function call.  Unparse writes a tree with only the    *)
(*     parentheses the documented ranks demand.  Expr_MC checks Parse(Unparse(t)) = t and the          *)
(*     declarative rank/left-to-right property RankGrouped on flat formulas.                           *)
(*  2. VALUES.  Integers are 64-bit two's complement (Limb64), floats are exact dyadic numbers (IEEE), *)
(*     strings are sequences of character codes.  A result is a value, ERR (an error must be reported  *)
(*     and no value produced), or UNS (the manual does not give this case a definite result: never     *)
(*     replayed with a verdict).                                                                      *)
(*  3. FUNCTIONS of the manual's function table that are decidable in integer arithmetic.              *)
(*                                                                                                    *)
(* A formula is a sequence of one-character strings and opaque atom tokens: an atom token (constant or *)
(* symbol) and a function name are single elements that contain no operator character; quotes and      *)
(* escapes inside string constants are therefore not modelled (string constants are atoms).            *)
EXTENDS Naturals, Integers, Sequences, FiniteSets, Limb64, IEEE

(* ===================================================================================================*)
(* 1. operator table                                                                                   *)
(* ===================================================================================================*)
\* n: spelling; id: characters; dy: two operands; pr: Priority in operator.c; rank: rank in the manual;
\* tc: TypeCombinations of operator.c in order (left, right), "-" = no such operand;
\* di/df/ds: the manual's yes/no columns integer / float / string
OpTable == <<
  [n |-> "~",  id |-> <<"~">>,      dy |-> FALSE, pr |-> 1,  rank |-> 1,  tc |-> << <<"-","I">> >>, di |-> TRUE, df |-> FALSE, ds |-> FALSE],
  [n |-> "<<", id |-> <<"<","<">>,  dy |-> TRUE,  pr |-> 3,  rank |-> 3,  tc |-> << <<"I","I">> >>, di |-> TRUE, df |-> FALSE, ds |-> FALSE],
  [n |-> ">>", id |-> <<">",">">>,  dy |-> TRUE,  pr |-> 3,  rank |-> 3,  tc |-> << <<"I","I">> >>, di |-> TRUE, df |-> FALSE, ds |-> FALSE],
  [n |-> "><", id |-> <<">","<">>,  dy |-> TRUE,  pr |-> 4,  rank |-> 4,  tc |-> << <<"I","I">> >>, di |-> TRUE, df |-> FALSE, ds |-> FALSE],
  [n |-> "&",  id |-> <<"&">>,      dy |-> TRUE,  pr |-> 5,  rank |-> 5,  tc |-> << <<"I","I">> >>, di |-> TRUE, df |-> FALSE, ds |-> FALSE],
  [n |-> "|",  id |-> <<"|">>,      dy |-> TRUE,  pr |-> 6,  rank |-> 6,  tc |-> << <<"I","I">> >>, di |-> TRUE, df |-> FALSE, ds |-> FALSE],
  [n |-> "!",  id |-> <<"!">>,      dy |-> TRUE,  pr |-> 7,  rank |-> 7,  tc |-> << <<"I","I">> >>, di |-> TRUE, df |-> FALSE, ds |-> FALSE],
  [n |-> "^",  id |-> <<"^">>,      dy |-> TRUE,  pr |-> 8,  rank |-> 8,  tc |-> << <<"I","I">>, <<"F","F">> >>, di |-> TRUE, df |-> TRUE, ds |-> FALSE],
  [n |-> "*",  id |-> <<"*">>,      dy |-> TRUE,  pr |-> 11, rank |-> 9,  tc |-> << <<"I","I">>, <<"F","F">> >>, di |-> TRUE, df |-> TRUE, ds |-> FALSE],
  [n |-> "/",  id |-> <<"/">>,      dy |-> TRUE,  pr |-> 11, rank |-> 9,  tc |-> << <<"I","I">>, <<"F","F">> >>, di |-> TRUE, df |-> TRUE, ds |-> FALSE],
  [n |-> "#",  id |-> <<"#">>,      dy |-> TRUE,  pr |-> 11, rank |-> 9,  tc |-> << <<"I","I">> >>, di |-> TRUE, df |-> FALSE, ds |-> FALSE],
  [n |-> "+",  id |-> <<"+">>,      dy |-> TRUE,  pr |-> 13, rank |-> 10, tc |-> << <<"I","I">>, <<"F","F">>, <<"S","S">>, <<"I","S">>, <<"S","I">> >>, di |-> TRUE, df |-> TRUE, ds |-> TRUE],
  [n |-> "-",  id |-> <<"-">>,      dy |-> TRUE,  pr |-> 13, rank |-> 10, tc |-> << <<"I","I">>, <<"F","F">> >>, di |-> TRUE, df |-> TRUE, ds |-> FALSE],
  [n |-> "~~", id |-> <<"~","~">>,  dy |-> FALSE, pr |-> 2,  rank |-> 2,  tc |-> << <<"-","I">> >>, di |-> TRUE, df |-> FALSE, ds |-> FALSE],
  [n |-> "&&", id |-> <<"&","&">>,  dy |-> TRUE,  pr |-> 15, rank |-> 11, tc |-> << <<"I","I">> >>, di |-> TRUE, df |-> FALSE, ds |-> FALSE],
  [n |-> "||", id |-> <<"|","|">>,  dy |-> TRUE,  pr |-> 16, rank |-> 12, tc |-> << <<"I","I">> >>, di |-> TRUE, df |-> FALSE, ds |-> FALSE],
  [n |-> "!!", id |-> <<"!","!">>,  dy |-> TRUE,  pr |-> 17, rank |-> 13, tc |-> << <<"I","I">> >>, di |-> TRUE, df |-> FALSE, ds |-> FALSE],
  [n |-> "=",  id |-> <<"=">>,      dy |-> TRUE,  pr |-> 23, rank |-> 14, tc |-> << <<"I","I">>, <<"F","F">>, <<"S","S">> >>, di |-> TRUE, df |-> TRUE, ds |-> TRUE],
  [n |-> "==", id |-> <<"=","=">>,  dy |-> TRUE,  pr |-> 23, rank |-> 14, tc |-> << <<"I","I">>, <<"F","F">>, <<"S","S">> >>, di |-> TRUE, df |-> TRUE, ds |-> TRUE],
  [n |-> ">",  id |-> <<">">>,      dy |-> TRUE,  pr |-> 23, rank |-> 14, tc |-> << <<"I","I">>, <<"F","F">>, <<"S","S">> >>, di |-> TRUE, df |-> TRUE, ds |-> TRUE],
  [n |-> "<",  id |-> <<"<">>,      dy |-> TRUE,  pr |-> 23, rank |-> 14, tc |-> << <<"I","I">>, <<"F","F">>, <<"S","S">> >>, di |-> TRUE, df |-> TRUE, ds |-> TRUE],
  [n |-> "<=", id |-> <<"<","=">>,  dy |-> TRUE,  pr |-> 23, rank |-> 14, tc |-> << <<"I","I">>, <<"F","F">>, <<"S","S">> >>, di |-> TRUE, df |-> TRUE, ds |-> TRUE],
  [n |-> ">=", id |-> <<">","=">>,  dy |-> TRUE,  pr |-> 23, rank |-> 14, tc |-> << <<"I","I">>, <<"F","F">>, <<"S","S">> >>, di |-> TRUE, df |-> TRUE, ds |-> TRUE],
  [n |-> "<>", id |-> <<"<",">">>,  dy |-> TRUE,  pr |-> 23, rank |-> 14, tc |-> << <<"I","I">>, <<"F","F">>, <<"S","S">> >>, di |-> TRUE, df |-> TRUE, ds |-> TRUE],
  \* the manual's alias of <>: row appended by "fix: != alias" (behind the rows EvalStrExpression addresses by index)
  [n |-> "!=", id |-> <<"!","=">>,  dy |-> TRUE,  pr |-> 23, rank |-> 14, tc |-> << <<"I","I">>, <<"F","F">>, <<"S","S">> >>, di |-> TRUE, df |-> TRUE, ds |-> TRUE] >>

\* the aliases the manual promises (the pinned tree had no "!=" row in Operators[]; Expr_MC's ASSUME follows OpTable)
DocAliases == << [n |-> "!=", id |-> <<"!","=">>, of |-> "<>"], [n |-> "==", id |-> <<"=","=">>, of |-> "="] >>

\* "minus may have one or two operands": MinusMonadicOperator of operator.c (not in the manual's table)
MinusMonadic == [n |-> "neg", id |-> <<"-">>, dy |-> FALSE, pr |-> 13, rank |-> 10, tc |-> << <<"-","I">>, <<"-","F">> >>,
                 di |-> TRUE, df |-> TRUE, ds |-> FALSE]

NOps == Len(OpTable)
OpIdx(n) == CHOOSE k \in 1..NOps : OpTable[k].n = n
OpByName(n) == IF n = "neg" THEN MinusMonadic ELSE OpTable[OpIdx(n)]
BinOpNames == {OpTable[k].n : k \in {j \in 1..NOps : OpTable[j].dy}}
UnOpNames == {"~", "~~", "neg"}
Rank(n) == OpByName(n).rank

OpChars == {"~", "<", ">", "&", "|", "!", "^", "*", "/", "#", "+", "-", "="}

(* ===================================================================================================*)
(* trees                                                                                               *)
(* ===================================================================================================*)
Atom(a) == [k |-> "A", a |-> a]
Un(o, x) == [k |-> "U", o |-> o, x |-> x]
Bin(o, l, r) == [k |-> "B", o |-> o, l |-> l, r |-> r]
Fun(f, args) == [k |-> "F", f |-> f, args |-> args]
PErr(why) == [k |-> "PE", why |-> why]

IsPErr(t) == t.k = "PE"

RECURSIVE Depth(_)
Depth(t) ==
  CASE t.k = "A" -> 1
    [] t.k = "U" -> 1 + Depth(t.x)
    [] t.k = "B" -> 1 + (IF Depth(t.l) > Depth(t.r) THEN Depth(t.l) ELSE Depth(t.r))
    [] t.k = "F" -> 1 + (IF Len(t.args) = 0 THEN 0
                         ELSE LET ds == {Depth(t.args[i]) : i \in 1..Len(t.args)} IN CHOOSE d \in ds : \A e \in ds : e <= d)
    [] OTHER -> 0

(* ===================================================================================================*)
(* Unparse: only the parentheses the documented ranks require                                          *)
(* ===================================================================================================*)
Paren(cs) == <<"(">> \o cs \o <<")">>

RECURSIVE JoinArgs(_)
JoinArgs(ss) == IF Len(ss) = 0 THEN <<>> ELSE IF Len(ss) = 1 THEN ss[1] ELSE ss[1] \o <<",">> \o JoinArgs(Tail(ss))

\* rank of the outermost operator of a tree (0: atom / function call / always-parenthesised)
TopRank(t) == CASE t.k = "B" -> Rank(t.o) [] t.k = "U" /\ t.o # "neg" -> Rank(t.o) [] OTHER -> 0

RECURSIVE Unparse(_, _, _)
\* sp: put blanks around two-operand operators; full: parenthesise every operator node
Unparse(t, sp, full) ==
  LET blank == IF sp THEN <<" ">> ELSE <<>> IN
  CASE t.k = "A" -> <<t.a>>
    [] t.k = "B" ->
         LET needL == full \/ (TopRank(t.l) > Rank(t.o))            \* equal rank on the left: left-to-right grouping
             needR == full \/ (TopRank(t.r) >= Rank(t.o))
             ul == Unparse(t.l, sp, full)
             ur == Unparse(t.r, sp, full)
         IN (IF needL /\ t.l.k \in {"B", "U"} /\ ~(t.l.k = "U" /\ t.l.o = "neg") THEN Paren(ul) ELSE ul)
            \o blank \o OpByName(t.o).id \o blank
            \o (IF needR /\ t.r.k \in {"B", "U"} /\ ~(t.r.k = "U" /\ t.r.o = "neg") THEN Paren(ur) ELSE ur)
    [] t.k = "U" /\ t.o = "neg" ->
         \* the one-operand minus is recognised in first position only: it always gets its own parentheses
         LET ux == Unparse(t.x, sp, full)
             need == full \/ TopRank(t.x) >= 10
         IN Paren(<<"-">> \o (IF need /\ t.x.k \in {"B", "U"} /\ ~(t.x.k = "U" /\ t.x.o = "neg") THEN Paren(ux) ELSE ux))
    [] t.k = "U" ->
         LET ux == Unparse(t.x, sp, full)
             need == full \/ TopRank(t.x) >= Rank(t.o)
             wrapped == IF need /\ t.x.k \in {"B", "U"} /\ ~(t.x.k = "U" /\ t.x.o = "neg") THEN Paren(ux) ELSE ux
             \* "~~ ~x": a blank keeps the two operators apart
             gap == IF Len(wrapped) > 0 /\ wrapped[1] = "~" THEN <<" ">> ELSE IF sp THEN <<>> ELSE <<>>
         IN OpByName(t.o).id \o gap \o wrapped
    [] t.k = "F" -> <<t.f, "(">> \o JoinArgs([i \in 1..Len(t.args) |-> Unparse(t.args[i], sp, full)]) \o <<")">>
    [] OTHER -> <<"?">>

(* ===================================================================================================*)
(* Scan / Parse: asmpars.c EvalStrExpression                                                          *)
(* ===================================================================================================*)
RECURSIVE TrimL(_)
TrimL(cs) == IF cs # <<>> /\ Head(cs) = " " THEN TrimL(Tail(cs)) ELSE cs
RECURSIVE TrimR(_)
TrimR(cs) == IF cs # <<>> /\ cs[Len(cs)] = " " THEN TrimR(SubSeq(cs, 1, Len(cs) - 1)) ELSE cs
Trim(cs) == TrimR(TrimL(cs))

MatchAt(cs, i, id) == /\ i + Len(id) - 1 <= Len(cs)
                      /\ \A j \in 1..Len(id) : cs[i + j - 1] = id[j]

PrioOf(k) == IF k = 0 THEN 0 ELSE OpTable[k].pr       \* Operators[0] is the dummy " " with priority 0

\* the inner loop "for (zop = 0; zop < FOpCnt; zop++)" at one position; st = [fnd, oplen, loc, opmax, oppos]
RECURSIVE TryOps(_, _, _, _)
TryOps(cs, i, k, st) ==
  IF k > NOps THEN st
  ELSE LET op == OpTable[k] IN
       IF MatchAt(cs, i, op.id) /\ Len(op.id) >= st.oplen
       THEN LET s1 == [st EXCEPT !.fnd = TRUE, !.oplen = Len(op.id), !.loc = k]
            IN TryOps(cs, i, k + 1, IF op.pr >= PrioOf(st.opmax) THEN [s1 EXCEPT !.opmax = k, !.oppos = i] ELSE s1)
       ELSE TryOps(cs, i, k + 1, st)

\* the outer loop over the characters: st = [lk, rk, opmax, oppos]
RECURSIVE ScanFrom(_, _, _)
ScanFrom(cs, i, st) ==
  IF i > Len(cs) THEN st
  ELSE LET c == cs[i] IN
       IF c = "(" THEN ScanFrom(cs, i + 1, [st EXCEPT !.lk = st.lk + 1])
       ELSE IF c = ")" THEN ScanFrom(cs, i + 1, [st EXCEPT !.rk = st.rk + 1])
       ELSE IF st.lk = st.rk /\ c \in OpChars      \* (no operator begins with another character: shortcut only)
       THEN LET r == TryOps(cs, i, 1, [fnd |-> FALSE, oplen |-> 0, loc |-> 0, opmax |-> st.opmax, oppos |-> st.oppos])
            IN ScanFrom(cs, IF r.fnd THEN i + Len(OpTable[r.loc].id) ELSE i + 1,
                        [st EXCEPT !.opmax = r.opmax, !.oppos = r.oppos])
       ELSE ScanFrom(cs, i + 1, st)
Scan(cs) == ScanFrom(cs, 1, [lk |-> 0, rk |-> 0, opmax |-> 0, oppos |-> 0])

IsAtomTok(c) == c \notin OpChars /\ c \notin {"(", ")", ",", " "}

RECURSIVE FirstIdx(_, _, _)
FirstIdx(cs, c, i) == IF i > Len(cs) THEN 0 ELSE IF cs[i] = c THEN i ELSE FirstIdx(cs, c, i + 1)

\* QuotPos(',') : first comma outside parentheses, 0 if none
RECURSIVE CommaPos(_, _, _)
CommaPos(cs, i, d) ==
  IF i > Len(cs) THEN 0
  ELSE IF cs[i] = "(" THEN CommaPos(cs, i + 1, d + 1)
  ELSE IF cs[i] = ")" THEN CommaPos(cs, i + 1, d - 1)
  ELSE IF cs[i] = "," /\ d = 0 THEN i
  ELSE CommaPos(cs, i + 1, d)
RECURSIVE SplitArgs(_)
SplitArgs(cs) == LET p == CommaPos(cs, 1, 0)
                 IN IF p = 0 THEN <<cs>> ELSE <<SubSeq(cs, 1, p - 1)>> \o SplitArgs(SubSeq(cs, p + 1, Len(cs)))

RECURSIVE Parse(_)
Parse(cs0) ==
  LET cs == Trim(cs0)
      n == Len(cs)
  IN IF n = 0 THEN PErr("empty")             \* (the code reads an empty formula as the constant 0)
     ELSE IF n = 1 /\ IsAtomTok(cs[1]) THEN Atom(cs[1])      \* constant or symbol
     ELSE
       LET sc == Scan(cs) IN
       IF sc.lk # sc.rk THEN PErr("brackets")
       ELSE IF sc.opmax # 0 THEN
         LET op == IF OpTable[sc.opmax].n = "-" /\ sc.oppos = 1 THEN MinusMonadic ELSE OpTable[sc.opmax]
             argcnt == IF n <= 1 THEN 0 ELSE IF sc.oppos = 1 \/ sc.oppos = n THEN 1 ELSE 2
         IN IF argcnt # (IF op.dy THEN 2 ELSE 1) THEN PErr("operand count")
            ELSE LET right == Parse(SubSeq(cs, sc.oppos + Len(op.id), n))
                     left  == IF op.dy THEN Parse(SubSeq(cs, 1, sc.oppos - 1)) ELSE Atom("_")
                 IN IF IsPErr(right) THEN right
                    ELSE IF IsPErr(left) THEN left
                    ELSE IF op.dy THEN Bin(op.n, left, right) ELSE Un(op.n, right)
       ELSE IF sc.lk # 0 THEN
         LET kp == FirstIdx(cs, "(", 1)
             fname == Trim(SubSeq(cs, 1, kp - 1))
             farg == SubSeq(cs, kp + 1, n - 1)                   \* StrCompShorten(&FArg, 1)
         IN IF fname = <<>> THEN Parse(farg)                      \* "Nullfunktion": only the argument
            ELSE IF Len(fname) # 1 THEN PErr("function name")
            ELSE LET as == SplitArgs(farg)
                     ps == [i \in 1..Len(as) |-> Parse(as[i])]
                 IN IF \E i \in 1..Len(ps) : IsPErr(ps[i]) THEN PErr("argument") ELSE Fun(fname[1], ps)
       ELSE PErr("symbol")

(* declarative rank property of a parse tree of a flat (parenthesis-free) formula of two-operand operators *)
RECURSIVE OpsOf(_)
OpsOf(t) == IF t.k = "B" THEN {t.o} \cup OpsOf(t.l) \cup OpsOf(t.r) ELSE {}
RECURSIVE InOrder(_)
InOrder(t) == IF t.k = "B" THEN InOrder(t.l) \o OpByName(t.o).id \o InOrder(t.r) ELSE <<t.a>>
RECURSIVE RankGrouped(_)
\* the operator applied last has the highest rank; among equal ranks the rightmost is applied last (= left-to-right)
RankGrouped(t) ==
  t.k = "B" => /\ \A o \in OpsOf(t.l) : Rank(o) <= Rank(t.o)
               /\ \A o \in OpsOf(t.r) : Rank(o) < Rank(t.o)
               /\ RankGrouped(t.l) /\ RankGrouped(t.r)

(* ===================================================================================================*)
(* 2. values                                                                                           *)
(* ===================================================================================================*)
IV(l) == [t |-> "I", v |-> l]
FV(d) == [t |-> "F", v |-> d]
SV(c) == [t |-> "S", v |-> c]
ERR == [t |-> "E"]
UNS == [t |-> "U"]
BoolV(b) == IV(IF b THEN One ELSE Zero)
IntV(n) == IV(FromInt(n))
IsVal(x) == x.t \in {"I", "F", "S"}

\* string -> integer "on the fly": 1..4 characters, first character most significant (asmpars.c NonZString2Int)
RECURSIVE StrAsNat(_, _)
StrAsNat(cs, acc) == IF cs = <<>> THEN acc ELSE StrAsNat(Tail(cs), Add(Shl(acc, 8), FromNat(Head(cs))))
StrToInt(x) == IF Len(x.v) \in 1..4 THEN IV(StrAsNat(x.v, Zero)) ELSE ERR

\* integer -> float is exact when the integer has at most 30 significant bits (otherwise rounding: not decided)
RECURSIVE TrailZ(_, _)
TrailZ(a, i) == IF i > 63 THEN 64 ELSE IF Bit(a, i) = 1 THEN i ELSE TrailZ(a, i + 1)
RECURSIVE TopBit(_, _)
TopBit(a, i) == IF i < 0 THEN 0 - 1 ELSE IF Bit(a, i) = 1 THEN i ELSE TopBit(a, i - 1)
IntToDy(l) ==
  IF IsZero(l) THEN FV(DyZero)
  ELSE LET s == IF IsNeg(l) THEN 1 ELSE 0
           a == Abs(l)                        \* Abs(MinInt) = 2^63 read as unsigned magnitude
           tz == TrailZ(a, 0)
           tb == TopBit(a, 63)
           mm == ShrL(a, tz)
       IN IF tb - tz >= 30 THEN UNS ELSE FV(Dy(s, mm[1] + B16 * mm[2], tz))

\* float that is an integer below 2^30 -> limbs
DyToLimbs(d) == FromInt(DyFloorSmall(d))

(* ---- operand typing: asmpars.c TryConvert / best TypeCombination --------------------------------- *)
ConvCost(want, act) ==
  IF want = act THEN 0
  ELSE IF want = "F" /\ act = "I" THEN 1
  ELSE IF want = "I" /\ act = "S" THEN 2
  ELSE IF want = "F" /\ act = "S" THEN 3
  ELSE 255
ComboCost(op, c, tl, tr) ==
  LET c0 == IF op.dy THEN ConvCost(c[1], tl) ELSE 0
      c1 == ConvCost(c[2], tr)
  IN IF c0 = 255 \/ c1 = 255 THEN 255 ELSE c0 + 16 * c1
RECURSIVE BestCombo(_, _, _, _, _, _)
\* first combination of minimal cost ("if (ThisOpMatch < BestOpMatch)"), stops at cost 0
BestCombo(op, tl, tr, z, best, bestz) ==
  IF z > Len(op.tc) \/ best = 0 THEN <<best, bestz>>
  ELSE LET c == ComboCost(op, op.tc[z], tl, tr)
       IN IF c < best THEN BestCombo(op, tl, tr, z + 1, c, z) ELSE BestCombo(op, tl, tr, z + 1, best, bestz)
Typing(op, tl, tr) == BestCombo(op, tl, tr, 1, 255, 0)      \* <<cost, index>>; cost 255 = ill-typed

Convert(x, want) ==      \* "necessary conversions": string -> int, then int -> float
  LET a == IF x.t = "S" /\ want \in {"I", "F"} THEN StrToInt(x) ELSE x
  IN IF a.t = "I" /\ want = "F" THEN IntToDy(a.v) ELSE a

\* The manual's rule, stated without the cost arithmetic: which operand types an operator accepts.
\* (integer/float/string columns; integers are promoted to float next to a float; a string of 1..4 characters
\*  counts as an integer wherever the operator or the other operand does not make it a string operation)
DocAccepts(op, tl, tr) ==
  LET ts == IF op.dy THEN {tl, tr} ELSE {tr}
      numeric == IF "F" \in ts THEN "F" ELSE "I"      \* after string -> integer -> float promotion
  IN IF ts = {"S"} /\ op.ds THEN TRUE
     ELSE IF numeric = "F" THEN op.df
     ELSE op.di
\* where the implementation's choice is not covered by the manual: int + string / string + int yield a *string*
UndocumentedMix(op, tl, tr) == op.n = "+" /\ {tl, tr} = {"I", "S"}

(* ---- operators on converted operands -------------------------------------------------------------- *)
ShiftCountOK(r) == ~IsNeg(r) /\ r[2] = 0 /\ r[3] = 0 /\ r[4] = 0 /\ r[1] <= 63

RECURSIVE RevBitsN(_, _, _, _)
\* sum over z in lo..hi-1 (z < n) of bit(n-1-z) of a, weighted 2^(z-lo)
RevBitsN(a, n, z, hi) == IF z >= hi \/ z >= n THEN 0 ELSE Bit(a, n - 1 - z) + 2 * RevBitsN(a, n, z + 1, hi)
Mirror(a, n) ==      \* the lowest n bits (1..32) in reverse order, the others unchanged
  LET keep == Shl(ShrL(a, n), n)
      rev == <<RevBitsN(a, n, 0, 16), RevBitsN(a, n, 16, 32), 0, 0>>
  IN Or(keep, rev)

RECURSIVE LexLess(_, _)
LexLess(a, b) == IF b = <<>> THEN FALSE ELSE IF a = <<>> THEN TRUE
                 ELSE IF Head(a) # Head(b) THEN Head(a) < Head(b) ELSE LexLess(Tail(a), Tail(b))

CmpResult(n, lt, eq) ==     \* from "less" and "equal"
  CASE n \in {"=", "=="} -> BoolV(eq)
    [] n \in {"<>", "!="} -> BoolV(~eq)
    [] n = "<"  -> BoolV(lt)
    [] n = "<=" -> BoolV(lt \/ eq)
    [] n = ">"  -> BoolV(~lt /\ ~eq)
    [] n = ">=" -> BoolV(~lt)

\* float power, decided only where no rounding can occur (operator.c PotOp, TempFloat branch)
RECURSIVE DyPowNat(_, _)
DyPowNat(b, k) == IF k = 0 THEN Dy(0, 1, 0)
                  ELSE LET p == DyPowNat(b, k - 1) IN IF IsWide(p) THEN Wide ELSE DyMul(p, b)
FloatPow(b, x) ==
  IF x.m = 0 THEN (IF b.m = 0 THEN UNS ELSE FV(Dy(0, 1, 0)))              \* x^0 = 1; 0^0 left open
  ELSE IF b.m = 0 THEN (IF x.s = 0 THEN FV(DyZero) ELSE UNS)             \* 0^positive = 0
  ELSE IF ~DyIsInt(x) THEN (IF b.s = 1 THEN ERR ELSE UNS)                \* negative base, fractional exponent: no real value
  ELSE IF TopExp(x) > 4 THEN UNS
  ELSE LET k == DyFloorSmall(DyAbs(x))
           p == DyPowNat(b, k)
       IN IF IsWide(p) THEN UNS
          ELSE IF x.s = 0 THEN FV(p)
          ELSE IF p.m = 1 THEN FV(Dy(p.s, 1, 0 - p.e))                    \* reciprocal of a power of two is exact
          ELSE UNS

ApplyII(n, l, r) ==
  CASE n = "+" -> IV(Add(l, r))
    [] n = "-" -> IV(Sub(l, r))
    [] n = "*" -> IV(Mul(l, r))
    [] n = "/" -> IF IsZero(r) THEN ERR ELSE IF DivOverflows(l, r) THEN [t |-> "O", v |-> MinInt] ELSE IV(DivT(l, r))
    [] n = "#" -> IF IsZero(r) THEN ERR ELSE IF DivOverflows(l, r) THEN IV(Zero) ELSE IV(ModT(l, r))
    [] n = "^" -> IF IsNeg(r) THEN UNS ELSE IV(Pow(l, r))
    [] n = "&" -> IV(And(l, r))
    [] n = "|" -> IV(Or(l, r))
    [] n = "!" -> IV(Xor(l, r))
    [] n = "<<" -> IF ShiftCountOK(r) THEN IV(Shl(l, r[1])) ELSE UNS
    [] n = ">>" -> IF ShiftCountOK(r) THEN IV(ShrL(l, r[1])) ELSE UNS       \* "log. shift right"
    [] n = "><" -> IF ~IsNeg(r) /\ r[2] = 0 /\ r[3] = 0 /\ r[4] = 0 /\ r[1] \in 1..32 THEN IV(Mirror(l, r[1])) ELSE ERR
    [] n = "&&" -> BoolV(~IsZero(l) /\ ~IsZero(r))
    [] n = "||" -> BoolV(~IsZero(l) \/ ~IsZero(r))
    [] n = "!!" -> BoolV(IsZero(l) # IsZero(r))
    [] OTHER -> CmpResult(n, LtS(l, r), l = r)

ApplyFF(n, l, r) ==
  LET w(d) == IF IsWide(d) THEN UNS ELSE FV(d) IN
  CASE n = "+" -> w(DyAdd(l, r))
    [] n = "-" -> w(DySub(l, r))
    [] n = "*" -> w(DyMul(l, r))
    [] n = "/" -> IF r.m = 0 THEN ERR ELSE w(DyDiv(l, r))
    [] n = "^" -> FloatPow(l, r)
    [] OTHER -> CmpResult(n, DyCmp(l, r) < 0, DyCmp(l, r) = 0)

ApplySS(n, l, r) ==
  IF n = "+" THEN SV(l \o r) ELSE CmpResult(n, LexLess(l, r), l = r)

ApplyBin(n, a, b) ==      \* a, b: values (possibly ERR/UNS)
  LET op == OpByName(n) IN
  IF a.t = "E" \/ b.t = "E" THEN ERR
  ELSE IF ~IsVal(a) \/ ~IsVal(b) THEN UNS
  ELSE LET ty == Typing(op, a.t, b.t) IN
       IF ty[1] = 255 THEN ERR
       ELSE IF UndocumentedMix(op, a.t, b.t) THEN UNS
       ELSE LET c == op.tc[ty[2]]
                x == Convert(a, c[1])
                y == Convert(b, c[2])
            IN IF x.t = "E" \/ y.t = "E" THEN ERR
               ELSE IF x.t = "U" \/ y.t = "U" THEN UNS
               ELSE IF c[1] = "I" THEN ApplyII(n, x.v, y.v)
               ELSE IF c[1] = "F" THEN ApplyFF(n, x.v, y.v)
               ELSE ApplySS(n, x.v, y.v)

ApplyUn(n, b) ==
  LET op == OpByName(n) IN
  IF b.t = "E" THEN ERR
  ELSE IF ~IsVal(b) THEN UNS
  ELSE LET ty == Typing(op, "I", b.t) IN
       IF ty[1] = 255 THEN ERR
       ELSE LET c == op.tc[ty[2]]
                y == Convert(b, c[2])
            IN IF y.t = "E" THEN ERR ELSE IF y.t = "U" THEN UNS
               ELSE CASE n = "~" -> IV(Not(y.v))
                      [] n = "~~" -> BoolV(IsZero(y.v))
                      [] n = "neg" -> IF c[2] = "I" THEN IV(Neg(y.v)) ELSE FV(DyNeg(y.v))

(* ===================================================================================================*)
(* 3. functions                                                                                        *)
(* ===================================================================================================*)
Upper(c) == IF c \in 97..122 THEN c - 32 ELSE c
Lower(c) == IF c \in 65..90 THEN c + 32 ELSE c

\* small integer argument (|v| < 2^31) as native number, or "big"
SmallArg(x) == FitsSmall(x.v)

RECURSIVE FindSub(_, _, _)
FindSub(h, nd, pos) ==     \* first position (0-based) of nd in h, -1 if none
  IF pos + Len(nd) > Len(h) THEN 0 - 1
  ELSE IF SubSeq(h, pos + 1, pos + Len(nd)) = nd THEN pos ELSE FindSub(h, nd, pos + 1)

\* SQRT of a dyadic that is a perfect square
RECURSIVE ISqrt(_, _)
ISqrt(n, r) == IF r * r >= n THEN r ELSE ISqrt(n, r + 1)
SqrtDy(d) ==
  IF d.m = 0 THEN FV(DyZero)
  ELSE IF d.e % 2 # 0 \/ d.m > 1000000 THEN UNS
  ELSE LET r == ISqrt(d.m, 1) IN IF r * r = d.m THEN FV(Dy(0, r, d.e \div 2)) ELSE UNS

\* argument coercion of built-in functions: an integer is promoted where only a float is accepted
FArgTypes(f) ==
  CASE f = "SUBSTR" -> << {"S"}, {"I"}, {"I"} >>
    [] f = "STRSTR" -> << {"S"}, {"S"} >>
    [] f = "CHARFROMSTR" -> << {"S"}, {"I"} >>
    [] f = "EXPRTYPE" -> << {"I", "F", "S"} >>
    [] f \in {"UPSTRING", "LOWSTRING", "STRLEN", "VAL"} -> << {"S"} >>
    [] f \in {"TOUPPER", "TOLOWER", "BITCNT", "FIRSTBIT", "LASTBIT", "BITPOS"} -> << {"I"} >>
    [] f \in {"ABS", "SGN"} -> << {"I", "F"} >>
    [] OTHER -> << {"F"} >>          \* INT, SQRT and the transcendental functions
KnownFunctions == {"SUBSTR", "STRSTR", "CHARFROMSTR", "EXPRTYPE", "UPSTRING", "LOWSTRING", "STRLEN", "VAL", "TOUPPER",
                   "TOLOWER", "BITCNT", "FIRSTBIT", "LASTBIT", "BITPOS", "ABS", "SGN", "INT", "SQRT", "SIN", "COS", "TAN",
                   "COT", "ASIN", "ACOS", "ATAN", "ACOT", "EXP", "ALOG", "ALD", "SINH", "COSH", "TANH", "COTH", "LN", "LOG",
                   "LD", "ASINH", "ACOSH", "ATANH", "ACOTH"}

One_ == Dy(0, 1, 0)
\* transcendental functions: only arguments whose result is exact and follows from the definition
Transc(f, d) ==
  LET zero == d.m = 0
      one == d = One_
      neg == d.s = 1
      absgt1 == DyCmp(DyAbs(d), One_) > 0
  IN CASE f \in {"SIN", "TAN", "ATAN", "ASIN", "SINH", "TANH", "ASINH", "ATANH"} ->
            IF zero THEN FV(DyZero)
            ELSE IF f = "ASIN" /\ absgt1 THEN ERR
            ELSE IF f = "ATANH" /\ d.s = 0 /\ DyCmp(d, One_) >= 0 THEN ERR        \* manual: arg < 1
            ELSE UNS
       [] f \in {"COS", "COSH", "EXP", "ALOG", "ALD"} -> IF zero THEN FV(One_) ELSE UNS
       [] f = "ACOS" -> IF absgt1 THEN ERR ELSE IF one THEN FV(DyZero) ELSE UNS
       [] f \in {"COT", "COTH"} -> IF zero THEN ERR ELSE UNS
       [] f \in {"LN", "LOG", "LD"} ->
            IF zero \/ neg THEN ERR
            ELSE IF one THEN FV(DyZero)
            ELSE IF f = "LD" /\ d.m = 1 /\ d.e \in 1..10 THEN FV(DyOfInt(d.e))   \* ld(2^k) = k
            ELSE UNS
       [] f = "ACOSH" -> IF DyCmp(d, One_) < 0 THEN ERR ELSE IF one THEN FV(DyZero) ELSE UNS
       [] f = "ACOTH" -> IF d.s = 0 /\ DyCmp(d, One_) <= 0 THEN ERR ELSE UNS       \* manual: arg > 1
       [] f = "ACOT" -> UNS
       [] OTHER -> UNS

RECURSIVE EvalT(_, _)

ApplyFun(f, vs, atoms) ==
  LET n == Len(vs)
      ats == FArgTypes(f)
      \* integer -> float where the function takes no integer
      cv == [i \in 1..n |-> IF i <= Len(ats) /\ vs[i].t = "I" /\ "I" \notin ats[i] THEN IntToDy(vs[i].v) ELSE vs[i]]
  IN IF \E i \in 1..n : vs[i].t = "E" THEN ERR
     ELSE IF f \notin KnownFunctions THEN ERR
     ELSE IF n # Len(ats) THEN ERR                                   \* wrong number of arguments
     ELSE IF \E i \in 1..n : ~IsVal(cv[i]) THEN UNS
     ELSE IF \E i \in 1..n : cv[i].t \notin ats[i] THEN
            \* a string where an integer is expected: the manual promises "on the fly" conversion in general,
            \* the function dispatcher refuses it: left open.  Everything else is ill-typed.
            (IF \A i \in 1..n : cv[i].t \in ats[i] \/ (cv[i].t = "S" /\ ats[i] \cap {"I", "F"} # {}) THEN UNS ELSE ERR)
     ELSE
     CASE f = "SUBSTR" ->
            \* start < 0 counts as 0; start >= length gives "" - for every 64-bit start, not only small ones;
            \* count 0 = up to the end, a count beyond the end likewise; count < 0 left open
            LET s == cv[1].v
                a2 == cv[2].v
                a3 == cv[3].v
                st == IF IsNeg(a2) THEN 0
                      ELSE IF FitsSmall(a2) /\ ToInt(a2) < Len(s) THEN ToInt(a2) ELSE Len(s)
                avail == Len(s) - st
                take == IF IsZero(a3) THEN avail
                        ELSE IF FitsSmall(a3) /\ ToInt(a3) < avail THEN ToInt(a3) ELSE avail
            IN IF IsNeg(a3) THEN UNS ELSE SV(SubSeq(s, st + 1, st + take))
       [] f = "STRSTR" -> IntV(FindSub(cv[1].v, cv[2].v, 0))
       [] f = "CHARFROMSTR" ->
            IF ~SmallArg(cv[2]) THEN IntV(0 - 1)
            ELSE LET i == ToInt(cv[2].v) IN IF i >= 0 /\ i < Len(cv[1].v) THEN IntV(cv[1].v[i + 1]) ELSE IntV(0 - 1)
       [] f = "EXPRTYPE" -> IntV(CASE cv[1].t = "I" -> 0 [] cv[1].t = "F" -> 1 [] OTHER -> 2)
       [] f = "UPSTRING" -> SV([i \in 1..Len(cv[1].v) |-> Upper(cv[1].v[i])])
       [] f = "LOWSTRING" -> SV([i \in 1..Len(cv[1].v) |-> Lower(cv[1].v[i])])
       [] f = "STRLEN" -> IntV(Len(cv[1].v))
       [] f = "VAL" -> UNS        \* the contents of an arbitrary string as a formula: see EvalT for the modelled case
       [] f \in {"TOUPPER", "TOLOWER"} ->
            IF ~SmallArg(cv[1]) \/ ToInt(cv[1].v) \notin 0..255 THEN ERR
            ELSE IF ToInt(cv[1].v) > 127 THEN UNS                      \* depends on the host's locale
            ELSE IntV(IF f = "TOUPPER" THEN Upper(ToInt(cv[1].v)) ELSE Lower(ToInt(cv[1].v)))
       [] f = "BITCNT" -> IntV(PopCnt(cv[1].v))
       [] f = "FIRSTBIT" -> IntV(IF IsZero(cv[1].v) THEN 0 - 1 ELSE TrailZ(cv[1].v, 0))
       [] f = "LASTBIT" -> IntV(TopBit(cv[1].v, 63))
       [] f = "BITPOS" -> IF PopCnt(cv[1].v) = 1 THEN IntV(TrailZ(cv[1].v, 0)) ELSE ERR    \* -1 "and an error message"
       [] f = "ABS" -> IF cv[1].t = "I" THEN (IF cv[1].v = MinInt THEN UNS ELSE IV(Abs(cv[1].v))) ELSE FV(DyAbs(cv[1].v))
       [] f = "SGN" -> IF cv[1].t = "I" THEN IntV(IF IsZero(cv[1].v) THEN 0 ELSE IF IsNeg(cv[1].v) THEN 0 - 1 ELSE 1)
                       ELSE IntV(IF cv[1].v.m = 0 THEN 0 ELSE IF cv[1].v.s = 1 THEN 0 - 1 ELSE 1)
       [] f = "INT" ->   \* "integer part"; a negative non-integer is left open (truncation or floor)
            LET d == cv[1].v IN
            IF ~DyFitsSmall(d) THEN UNS
            ELSE IF d.s = 1 /\ ~DyIsInt(d) THEN UNS
            ELSE IV(DyToLimbs(d))
       [] f = "SQRT" -> IF cv[1].v.s = 1 THEN ERR ELSE SqrtDy(cv[1].v)
       [] OTHER -> Transc(f, cv[1].v)

\* atoms: [val |-> function atom token -> value,
\*         valsrc |-> function token -> tree: string atoms whose characters are the spelling of that formula (VAL)]
EvalT(t, atoms) ==
  CASE t.k = "F" /\ t.f = "VAL" /\ Len(t.args) = 1 /\ t.args[1].k = "A" /\ t.args[1].a \in DOMAIN atoms.valsrc ->
         EvalT(atoms.valsrc[t.args[1].a], atoms)          \* VAL "evaluates contents as expression"
    [] t.k = "A" -> IF t.a \in DOMAIN atoms.val THEN atoms.val[t.a] ELSE ERR      \* undefined symbol
    [] t.k = "U" -> ApplyUn(t.o, EvalT(t.x, atoms))
    [] t.k = "B" -> ApplyBin(t.o, EvalT(t.l, atoms), EvalT(t.r, atoms))
    [] t.k = "F" -> ApplyFun(t.f, [i \in 1..Len(t.args) |-> EvalT(t.args[i], atoms)], atoms)
    [] OTHER -> ERR

(* ---- named deviations of the pinned implementation ------------------------------------------------ *)
(* Devs(t) = the known defects of the pinned tree that the evaluation of t runs into (operator.c, function.c,  *)
(* asmpars.c; each is reproduced by the replay and has a proposed fix).  The expected values above are the     *)
(* manual's; these tags only let the check tell a known finding from a new one.                                *)
StrUnconvertible(v, want) == v.t = "S" /\ want \in {"I", "F"} /\ Len(v.v) \notin 1..4
DevBin(n, a, b) ==
  IF ~IsVal(a) \/ ~IsVal(b) THEN {}
  ELSE LET op == OpByName(n)
           ty == Typing(op, a.t, b.t)
       IN IF ty[1] = 255 THEN {}
          ELSE LET c == op.tc[ty[2]]
                   x == Convert(a, c[1])
                   y == Convert(b, c[2])
               IN (IF StrUnconvertible(a, c[1]) \/ StrUnconvertible(b, c[2]) THEN {"str2int_range"} ELSE {})
                  \cup (IF n = ">>" /\ IsVal(x) /\ IsVal(y) /\ IsNeg(x.v) /\ ShiftCountOK(y.v) /\ y.v[1] > 0 THEN {"shr_negative"} ELSE {})
                  \cup (IF n \in {"/", "#"} /\ c[1] = "I" /\ IsVal(x) /\ IsVal(y) /\ DivOverflows(x.v, y.v) THEN {"div_minint_neg1"} ELSE {})
                  \cup (IF n = "^" /\ c[1] = "F" /\ IsVal(x) /\ IsVal(y) /\ x.v.s = 1 /\ y.v.m # 0 /\ DyIsInt(y.v) THEN {"pow_float_negbase"} ELSE {})
                  \cup (IF n = "><" /\ IsVal(x) /\ IsVal(y) /\ y.v = FromNat(32)
                          /\ (Bit(x.v, 0) = 1 \/ (Bit(x.v, 31) = 0 /\ ShrL(x.v, 32) # Zero)) THEN {"mirror_32"} ELSE {})
DevUn(n, b) ==
  IF IsVal(b) /\ StrUnconvertible(b, "I") THEN {"str2int_range"} ELSE {}
DevFun(f, vs) ==
  IF \E i \in 1..Len(vs) : ~IsVal(vs[i]) THEN {}
  ELSE (IF f = "FIRSTBIT" /\ Len(vs) = 1 /\ vs[1].t = "I" /\ Bit(vs[1].v, 0) = 1 /\ Bit(vs[1].v, 1) = 0 THEN {"firstbit_odd"} ELSE {})
       \cup (IF f = "SUBSTR" /\ Len(vs) = 3 /\ vs[1].t = "S" /\ vs[2].t = "I" /\ vs[3].t = "I" /\ IsNeg(vs[2].v) THEN {"substr_negstart"} ELSE {})
       \cup (IF f = "BITPOS" /\ Len(vs) = 1 /\ vs[1].t = "I" /\ vs[1].v = MinInt THEN {"bitpos_minint"} ELSE {})
RECURSIVE Devs(_, _)
Devs(t, atoms) ==
  CASE t.k = "F" /\ t.f = "VAL" /\ Len(t.args) = 1 /\ t.args[1].k = "A" /\ t.args[1].a \in DOMAIN atoms.valsrc ->
         Devs(atoms.valsrc[t.args[1].a], atoms)
    [] t.k = "U" -> Devs(t.x, atoms) \cup DevUn(t.o, EvalT(t.x, atoms))
    [] t.k = "B" -> Devs(t.l, atoms) \cup Devs(t.r, atoms) \cup DevBin(t.o, EvalT(t.l, atoms), EvalT(t.r, atoms))
    [] t.k = "F" -> UNION {Devs(t.args[i], atoms) : i \in 1..Len(t.args)}
                    \cup DevFun(t.f, [i \in 1..Len(t.args) |-> EvalT(t.args[i], atoms)])
    [] OTHER -> {}

(* ---- what the code file must contain ------------------------------------------------------------- *)
\* integer: 8 bytes (dq / dc.q), float: IEEE double (dq / dc.d), string: its characters (db / dc.b);
\* least significant byte first - the renderer reverses for big-endian targets
Observable(v) ==
  CASE v.t = "I" -> [k |-> "int", b |-> BytesLE(v.v)]
    [] v.t = "F" -> IF DoubleOK(v.v) THEN [k |-> "float", b |-> Reverse(DoubleBytesBE(v.v)), zero |-> v.v.m = 0]
                    ELSE [k |-> "unspec"]
    [] v.t = "S" -> [k |-> "str", b |-> v.v]
    [] v.t = "E" -> [k |-> "error"]
    [] v.t = "O" -> [k |-> "overflow", b |-> BytesLE(v.v)]      \* -2^63 / -1: an error or the wrapped value, never a crash
    [] OTHER -> [k |-> "unspec"]
=============================================================================
