\* trace validation of the recorded machine statements of tests/t_full09 (6809 part) against the MC6809 table
INIT TInit
NEXT TNext
POSTCONDITION Accepted
CHECK_DEADLOCK FALSE
