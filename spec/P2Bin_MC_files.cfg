\* two input files, the second with an (offset); first entry record wins
CONSTANTS
  Dev = {}
  MaxRecs = 2
  Starts = {0, 1, 3}
  UnitLens = {1, 2}
  GranSet = {1}
  EntryAddrs = {4660}
  Offsets = {2, 5}
  FillSet = {255}
  SumOpts = {FALSE}
  SegOpts = {1}
  CpuSegs <- CS_One
  Ranges <- R_Small
  LaneSet <- L_Two
  FiltSet <- F_None
  ESet <- E_None
  HdrSet <- H_L2
SPECIFICATION Spec
INVARIANTS Conforms StepRunAgrees ChunkListOK WindowStable MeasureSound UsedIsCoverage
CHECK_DEADLOCK FALSE
