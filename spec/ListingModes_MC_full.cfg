CONSTANTS Stale = FALSE MaxTop = 3
  ModLists <- AllModLists CtlLists <- AllCtlLists MacroIds <- FIds MacroBodies <- AllMacroBodies
SPECIFICATION Spec
INVARIANTS CodeShown TextOwn ListedAsManual Sane
CHECK_DEADLOCK FALSE
