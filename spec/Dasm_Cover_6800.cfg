\* systematic opcode coverage images (Dasm_Cover.tla): one initial state per image, no steps
CONSTANTS IsaName = "6800" Cpu = "6800" MaxItems = 12 Orgs = {256, 4096, 60000} WithVectors = TRUE MaxEntries = 4
INIT CInit
NEXT CNext
INVARIANT CDump
