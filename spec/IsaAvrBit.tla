------------------------------ MODULE IsaAvrBit ------------------------------
(* C14, BIT-SYMBOL dimension of the AVR (same family as the register symbols of IsaAlias.tla): the I/O bit          *)
(* instructions SBI / CBI / SBIC / SBIS A,b (1001 10oo AAAA Abbb, A = I/O address 0..31, b = 0..7) written with a       *)
(* SYMBOLIC bit.                                                                                                *)
(*                                                                                                              *)
(* doc/pseudo-instructions.md "BIT" (valid for ... AVR ...): "BIT serves to equate a single bit of a memory cell     *)
(* with a symbolic name ... bit addressing is done in a two-dimensional fashion with address and bit position.  In   *)
(* these cases, AS packs both parts into an integer symbol in a way that depends on the currently active target    *)
(* processor and separates both parts again when the symbol is used."  "PORT works similar to EQU, just the symbol   *)
(* becomes assigned to the I/O-address range.  Allowed values are ... 0...63 for the AVR"; SFR does the same for the  *)
(* data address range (an I/O register seen at its data address = I/O address + 32).                               *)
(* Consequence for the property: `SBI name` after `name BIT addr,bit` IS the instruction `SBI addr,bit` - same word,  *)
(* and if the address the symbol carries is not one the instruction can encode (> 31; a data address of an I/O       *)
(* register is >= 32) an error and no word - whatever the way the address was written in the definition: a number, an *)
(* untyped symbol (EQU), an I/O-typed symbol (PORT) or a data-typed one (SFR), with `addr,bit` or `addr.bit`.        *)
(* The same holds for the packed spelling `addr.bit` used directly as the single operand of the instruction, and for  *)
(* the two-operand form with a typed address symbol.                                                            *)
(*                                                                                                              *)
(* The case is a HISTORY (as in IsaAlias): definition statements executed earlier build a symbol table, the machine  *)
(* statement reads it.  Operational side (shaped like codeavr.c DecodeBIT / DecodeBitArg / DecodePBit): Define enters  *)
(* an address symbol with its address space, or packs (space flag, address, bit) into ONE integer (Pack); the use      *)
(* unpacks it again (Unpack) and hands address and bit to the encoder of the IsaAvr TABLE.  Declarative side: Denotes  *)
(* reads address and bit off the program TEXT alone.  TLC checks at every state SymMeaning (every table entry means     *)
(* what the text says; Unpack inverts Pack), at every leaf BitTransparent (units = units of the two-operand statement  *)
(* with the denoted numbers; the declarative decoder of IsaCommon finds them in the word) and FarIsError.            *)
(*                                                                                                              *)
(* Case space: the 4 forms x address (0, 1, 24, 30, 31 | 32, 33, 63 | mask probes 37, 69, 133, 261, 517 - the last four  *)
(* not for PORT / SFR, whose own range ends at 63) x bit (0, 1, 3, 7; 8 where no BIT definition is involved)            *)
(* x spelling of the address (number, EQU, PORT, SFR symbol) x use (BIT symbol defined with `,` / with `.`, packed         *)
(* operand `addr.bit`, two operands with an address symbol).  Mode "all": everything; "rotate": the BIT definition      *)
(* spelling rotates with the other coordinates.                                                                *)
(* Not generated: a data-typed symbol whose value is <= 31 (asl warns "wrong segment" and encodes it: the manual does    *)
(* not say), forward references, BIT definitions that are themselves illegal (bit > 7, PORT > 63).                     *)
EXTENDS IsaAvr, TLC, Json
CONSTANTS Cpu, Salt, Mode
VARIABLES form, prog, sym, plan, res
vars == <<form, prog, sym, plan, res>>

IoForms == {f \in Forms : Cpu \in f.cpus /\ f.mn \in {"SBI", "CBI", "SBIC", "SBIS"}}
ASSUME Cardinality(IoForms) = 4
ASSUME \A f \in IoForms : f.flds = <<FAddr(5), FAddr(3)>>
AddrMax == AddrMaxOf(Cpu)
\* largest data address a BIT definition may carry on this device (the data field of LDS / STS)
DataMax == DataAdr(Cpu).hi

\* ---- operands as written: a number or a symbol name -----------------------------------------------------------------
Num(n) == [s |-> "", n |-> n]
Ref(x) == [s |-> x, n |-> 0]
Text(o) == IF o.s = "" THEN ToString(o.n) ELSE o.s
D(label, mn, args) == [label |-> label, mn |-> mn, args |-> args]

\* ---- symbol table (operational) -------------------------------------------------------------------------------------
Defined(st, x) == \E e \in st : e.name = x
Entry(st, x) == CHOOSE e \in st : e.name = x
\* value and address space of an address operand at the moment the statement is executed
EvalA(st, o) == IF o.s = "" THEN [space |-> "none", v |-> o.n] ELSE [space |-> Entry(st, o.s).space, v |-> Entry(st, o.s).val]
IoFlag == 2^22
DataFlag == 2^23
Pack(space, a, b) == b + 8 * a + (IF space = "io" THEN IoFlag ELSE IF space = "data" THEN DataFlag ELSE 0)
Unpack(v) == [space |-> IF Bits(v, 22, 1) = 1 THEN "io" ELSE IF Bits(v, 23, 1) = 1 THEN "data" ELSE "none",
              a |-> Bits(v, 3, 16), b |-> v % 8]
\* the two parts of a BIT definition's argument(s): <<addr, bit>> whether written `addr,bit` or `addr.bit`
SpaceOf(mn) == CASE mn = "PORT" -> "io" [] mn = "SFR" -> "data" [] OTHER -> "none"
CanDefine(st, d) ==
  /\ ~Defined(st, d.label)
  /\ \A i \in 1..Len(d.args) : d.args[i].s # "" => Defined(st, d.args[i].s)           \* no forward references
  /\ CASE d.mn = "EQU"  -> TRUE
       [] d.mn = "PORT" -> d.args[1].n \in 0..63
       [] d.mn = "SFR"  -> d.args[1].n \in 32..95
       [] d.mn \in {"BIT,", "BIT."} ->
            LET a == EvalA(st, d.args[1]) IN
              /\ d.args[2].n \in 0..7
              /\ IF a.space = "io" THEN a.v \in 0..63 ELSE a.v \in 0..DataMax
Define(st, d) ==
  st \cup {IF d.mn \in {"BIT,", "BIT."}
           THEN LET a == EvalA(st, d.args[1]) IN [name |-> d.label, space |-> "bit", val |-> Pack(a.space, a.v, d.args[2].n)]
           ELSE [name |-> d.label, space |-> SpaceOf(d.mn), val |-> d.args[1].n]}

\* ---- declarative: what a name means, read off the program text ---------------------------------------------------------
DefOf(p, x) == p[CHOOSE k \in 1..Len(p) : p[k].label = x]
AddrMeant(p, o) == IF o.s = "" THEN o.n ELSE DefOf(p, o.s).args[1].n
\* <<address, bit>> the statement operand(s) denote
Denotes(p, use) ==
  IF Len(use) = 1 /\ use[1].s # "" /\ DefOf(p, use[1].s).mn \in {"BIT,", "BIT."}
  THEN LET d == DefOf(p, use[1].s) IN <<AddrMeant(p, d.args[1]), d.args[2].n>>
  ELSE <<AddrMeant(p, use[1]), use[2].n>>

\* ---- case space ---------------------------------------------------------------------------------------------------
Near == {0, 1, 24, 30, 31}
Far == {32, 33, 63}
Probes == {37, 69, 133, 261, 517}
ASpell == <<"num", "equ", "port", "sfr">>
Uses == <<"sym,", "sym.", "dot", "comma">>
\* a BIT definition needs an address the device has (CanDefine): small devices (AT90S2313: data ends at 0DFh) lose the upper probes
AddrsFor(sp) == IF sp \in {"port", "sfr"} THEN {a \in Near \cup Far \cup Probes : a <= 63} ELSE {a \in Near \cup Far \cup Probes : a <= DataMax}
BitsFor(u) == IF u \in {"sym,", "sym."} THEN {0, 1, 3, 7} ELSE {0, 1, 3, 7, 8}
FormSeq == <<"SBI", "CBI", "SBIC", "SBIS">>
Rank(S, x) == Cardinality({y \in S : y < x})
Keep(m, i, a, b, u) ==
  IF Mode = "all" \/ Uses[u] \in {"dot", "comma"} THEN TRUE
  ELSE u = 1 + ((Salt + m + i + Rank(Near \cup Far \cup Probes, a) + b) % 2)

BInit ==
  \E m \in 1..4 : \E i \in 1..Len(ASpell) : \E u \in 1..Len(Uses) :
  \E a \in AddrsFor(ASpell[i]) : \E b \in BitsFor(Uses[u]) :
    LET id == ToString(m) \o "_" \o ToString(i) \o "_" \o ToString(u) \o "_" \o ToString(a) \o "_" \o ToString(b)
        an == "QA" \o id
        bn == "QB" \o id
        sp == ASpell[i]
        \* the address as written (an SFR symbol carries the DATA address of the I/O register)
        adef == CASE sp = "num" -> <<>> [] sp = "equ" -> <<D(an, "EQU", <<Num(a)>>)>>
                  [] sp = "port" -> <<D(an, "PORT", <<Num(a)>>)>> [] sp = "sfr" -> <<D(an, "SFR", <<Num(a + 32)>>)>>
        aop == IF sp = "num" THEN Num(a) ELSE Ref(an)
        us == Uses[u]
    IN /\ Keep(m, i, a, b, u)
       /\ ~(sp = "num" /\ us = "comma")                   \* that is the statement of the IsaAvr table itself
       /\ form = CHOOSE f \in IoForms : f.mn = FormSeq[m]
       /\ prog = <<>> /\ sym = {} /\ res = <<>>
       /\ plan = [defs |-> adef \o (CASE us = "sym," -> <<D(bn, "BIT,", <<aop, Num(b)>>)>>
                                      [] us = "sym." -> <<D(bn, "BIT.", <<aop, Num(b)>>)>>
                                      [] OTHER -> <<>>),
                  use |-> IF us \in {"sym,", "sym."} THEN <<Ref(bn)>> ELSE <<aop, Num(b)>>,
                  how |-> us, aspell |-> sp]

BDef == /\ Len(prog) < Len(plan.defs)
        /\ LET d == plan.defs[Len(prog) + 1] IN
             /\ CanDefine(sym, d)
             /\ sym' = Define(sym, d)
             /\ prog' = Append(prog, d)
        /\ UNCHANGED <<form, plan, res>>
\* the machine statement: a BIT symbol is separated into its parts again; else address operand + bit number
BUse == /\ Len(prog) = Len(plan.defs) /\ res = <<>>
        /\ res' = IF Len(plan.use) = 1 THEN LET u == Unpack(Entry(sym, plan.use[1].s).val) IN <<u.a, u.b>>
                  ELSE <<EvalA(sym, plan.use[1]).v, plan.use[2].n>>
        /\ UNCHANGED <<form, prog, sym, plan>>
BNext == BDef \/ BUse

BLeaf == res # <<>>
BV == Verdict(form, res, 0, AddrMax)
BUnits == EncodeRaw(form, res, 0)
\* rendering: `name BIT addr,bit` / `name BIT addr.bit`; the statement with a packed operand is `MN addr.bit`
DefArgs(d) == IF d.mn = "BIT," THEN <<Text(d.args[1]), Text(d.args[2])>>
              ELSE IF d.mn = "BIT." THEN <<Text(d.args[1]) \o "." \o Text(d.args[2])>> ELSE <<Text(d.args[1])>>
DefMn(d) == IF d.mn \in {"BIT,", "BIT."} THEN "BIT" ELSE d.mn
UseArgs == IF Len(plan.use) = 1 THEN <<Text(plan.use[1])>>
           ELSE IF plan.how = "dot" THEN <<Text(plan.use[1]) \o "." \o Text(plan.use[2])>>
           ELSE <<Text(plan.use[1]), Text(plan.use[2])>>
BitOut == [id |-> form.id \o " <" \o plan.aspell \o " " \o plan.how \o ">", mn |-> form.mn, args |-> UseArgs, pc |-> -1,
           exp |-> BV, units |-> IF BV = "units" THEN BUnits ELSE <<>>, ops |-> res, len |-> 1,
           pre |-> [k \in 1..Len(prog) |-> [label |-> prog[k].label, mn |-> DefMn(prog[k]), args |-> DefArgs(prog[k])]],
           scen |-> plan.aspell \o " " \o plan.how, reg |-> ToString(res[1]) \o "." \o ToString(res[2]),
           symkind |-> "bit / address symbol"]

\* ---- checked by TLC ---------------------------------------------------------------------------------------------------
\* every planned definition is executable, and the table means what the text says
PlanRuns == Len(prog) < Len(plan.defs) => CanDefine(sym, plan.defs[Len(prog) + 1])
SymMeaning ==
  /\ \A e, g \in sym : e.name = g.name => e = g
  /\ \A k \in 1..Len(prog) : Defined(sym, prog[k].label)
  /\ \A e \in sym :
       IF e.space = "bit"
       THEN LET m == Denotes(prog, <<Ref(e.name)>>)
                u == Unpack(e.val)
            IN u.a = m[1] /\ u.b = m[2] /\ e.val < 2^24
               /\ u.space = SpaceOf(IF DefOf(prog, e.name).args[1].s = "" THEN "EQU" ELSE DefOf(prog, DefOf(prog, e.name).args[1].s).mn)
       ELSE e.val = AddrMeant(prog, Ref(e.name)) /\ e.space = SpaceOf(DefOf(prog, e.name).mn)
\* a symbolic bit is transparent: the statement is the two-operand statement with the numbers the text denotes
BitTransparent ==
  BLeaf => LET m == Denotes(prog, plan.use) IN
             /\ res = m
             /\ BV = Verdict(form, m, 0, AddrMax)
             /\ BV = "units" => /\ BUnits = EncodeRaw(form, m, 0)
                                /\ Extract(form, BUnits, 0) = m
                                /\ m[1] \in 0..31 /\ m[2] \in 0..7
FarIsError == (BLeaf /\ (res[1] > 31 \/ res[2] > 7)) => BV = "reject"
BDump == BLeaf => PrintT(<<"OUT", ToJson(BitOut)>>)
=============================================================================
