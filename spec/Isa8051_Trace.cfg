INIT TInit
NEXT TNext
POSTCONDITION Accepted
CHECK_DEADLOCK FALSE
