------------------------------- MODULE AsCore -------------------------------
(***************************************************************************)
(* The composed specification of the assembler core: ONE source statement  *)
(* is ONE step of ALL statement-level machines of the specification.       *)
(*                                                                         *)
(*   CA  conditional assembly   INSTANCE CondAsm    IF/SWITCH stack, IfAsm *)
(*   AB  address bookkeeping    INSTANCE AddrBook   counters, phases,      *)
(*                                                  segments, SAVE, STRUCT *)
(*   DG  diagnostic counters    INSTANCE Diag       WrErrorString, user    *)
(*                                                  WARNING/ERROR/FATAL    *)
(*   CW  code writer, stream view  INSTANCE CodeWriter_Trace (Consume/Norm:*)
(*                              the file's data in file order = the        *)
(*                              emitted bytes in emission order)           *)
(*   MP  macro processor        INSTANCE MacroProc, PROJECTED: the input   *)
(*                              tag chain (kind, IsMacro, IfLevel, body as *)
(*                              a range of recorded lines, LineZ, IsEmpty),*)
(*                              the output tag chain (kind, NestLevel,     *)
(*                              recorded range) and the macro table        *)
(*                              (name -> recorded range).  MacroProc's own *)
(*                              operators work on token lines with bound   *)
(*                              parameters (CompressLine / ExpandLine);    *)
(*                              composing them needs the tokenised text    *)
(*                              and the split fields of every statement    *)
(*                              and is what MacroProc_CorpusTrace does     *)
(*                              (C11, minutes).  The projection keeps what *)
(*                              decides the line delivery structurally and *)
(*                              reuses NestAfter / MacroStart / MacroEnd / *)
(*                              DoRestoreIFs of the original modules.      *)
(*                              Parameter substitution is NOT composed:    *)
(*                              the text of a delivered line is compared   *)
(*                              with the recorded one only where the       *)
(*                              processor delivers it verbatim (REPT,      *)
(*                              WHILE: REPT_/WHILE_OutProcessor store the  *)
(*                              raw line).                                 *)
(*                                                                         *)
(* This module holds the pure operators and the cross-machine claims; the  *)
(* wrappers are AsCore_Trace (one recorded execution of the real assembler *)
(* validated against all machines at once; also INSTANCEs Driver_Trace for *)
(* the run/file/pass protocol) and AsCore_MC / AsCore_Gen (bounded model   *)
(* of the composition and generator of programs for replay).               *)
(*                                                                         *)
(* Cross-machine claims (each an operator, checked at every step):         *)
(*   SkippedIsInert, RecordedIsInert, IfFamilyIsAddressNeutral  (as before)*)
(*   ErrsDeltaIsDiagCount     ErrorCount moves by the number of messages   *)
(*                            of class error/fatal of the line (+1 for an  *)
(*                            executed ERROR/FATAL statement)              *)
(*   ErrorLineEmitsNoCode     a line that raised an error (number >= 1000, *)
(*                            also one consumed by EXPECT) emits nothing   *)
(*                            and reserves nothing                         *)
(*   FailedHandlerNeedsError  a named address statement may leave the      *)
(*                            bookkeeping untouched only if it complained  *)
(*   MachineErrorIsReported   an Err step of CondAsm shows as a diagnostic *)
(*   ExitmRestoresEntryDepth  EXITM cuts the IF stack back to the IfLevel  *)
(*                            the input tag saved when it was generated    *)
(*   RejectedHeaderNeedsError a loop/macro header is only skipped (WAIT    *)
(*                            tag) in pass > 1, in a skipped branch or     *)
(*                            after a diagnostic                           *)
(*   DeliveredAsRecorded      k-th line handed out by a tag = k-th line    *)
(*                            recorded for it (verbatim bodies: same text) *)
(*   TagDepthIsMachineDepth   depth after GetNextLine / after the          *)
(*                            statement = length of the machine's chain    *)
(*   LabelValueIsExec         a constant label gets AddrBook's execution   *)
(*                            address as it is BEFORE the statement        *)
(*   LastPassImageEqualsFile  in the last pass every emitted byte is the   *)
(*                            next byte of the code file, at its address;  *)
(*                            at the end nothing is left in the file       *)
(*   PassBoundaryResetsEverything  (AsCore_Trace: Driver_Trace's Pass)     *)
(*   OpenConstructsAreReported  at the end of a pass an open IF / SAVE /   *)
(*                            STRUCT is reported (1470 / 1460 / 1551) and  *)
(*                            nothing else is                              *)
(* VARIABLE l = position of the current statement in the record of         *)
(* statements (the wrappers step it); bodies of macros and loops are       *)
(* ranges of such positions.                                               *)
(* CONSTANTS OffSet, OffAt: claims switched off at position OffAt          *)
(* (diagnosis only: the harness finds the violated claim of a rejected     *)
(* trace by re-running the rejected execution with one claim off at the    *)
(* rejected event - again TLC decides; production value {} / 0).           *)
(***************************************************************************)
EXTENDS Integers, Sequences, FiniteSets, TLC

CONSTANTS Segs, StructSeg, OffSet, OffAt
VARIABLE l

CA == INSTANCE CondAsm
AB == INSTANCE AddrBook
DG == INSTANCE Diag WITH Wrap <- 0
MP == INSTANCE MacroProc WITH Fixed <- {}, HasAttrs <- TRUE, MaxNum <- 0
CW == INSTANCE CodeWriter_Trace WITH l <- 0, base <- 0, ri <- 0, off <- 0

On(c) == ~(l = OffAt /\ c \in OffSet)
Claim(c, p) == ~On(c) \/ p

-----------------------------------------------------------------------------
(* 1. DG: the diagnostics of one line                                      *)
\* g = [num, cls, errs, warns]: WrXErrorPos after EXPECT / -w filtering, counters BEFORE counting
DiagOK(o, d, g) ==
  \/ g.cls = "expected"
  \/ /\ ~(o.suppw /\ DG!IsWarnNum(g.num))
     /\ g.cls = DG!Classify(o, g.num)
     /\ g.errs = d.err /\ g.warns = d.warn
DiagApply(o, d, g) ==
  IF g.cls = "expected" THEN d ELSE DG!WrErrorString(o, d, DG!IsWarnNum(g.num), DG!IsFatalNum(g.num))
RECURSIVE FoldDiags(_, _, _, _)
\* <<ok, d>>
FoldDiags(o, d, gs, i) ==
  IF i > Len(gs) THEN <<TRUE, d>>
  ELSE IF d.fatal \/ ~DiagOK(o, d, gs[i]) THEN <<FALSE, d>>
  ELSE FoldDiags(o, DiagApply(o, d, gs[i]), gs, i + 1)

HasErr(gs) == \E i \in 1..Len(gs) : gs[i].num >= 1000          \* an error or fatal number, consumed by EXPECT or not
HasDiag(gs, num) == \E i \in 1..Len(gs) : gs[i].num = num
CountedErrs(gs) == Cardinality({i \in 1..Len(gs) : gs[i].cls \in {"error", "fatal"}})

UserOps == {"WARNING", "ERROR", "FATAL"}
\* the statement is an executed WARNING / ERROR / FATAL (asmallg.c; UserBypass: no diag record)
IsUserOp(e, ifpre, recpre) == e.op \in UserOps /\ ifpre /\ ~recpre /\ ~e.wm /\ e.ifasm /\ ~e.rec
UserCands(o, d, e, faulty) ==
  {CASE e.op = "WARNING" -> DG!UserWARNING(o, d)
     [] e.op = "ERROR"   -> DG!UserERROR(o, d)
     [] OTHER            -> DG!UserFATAL(o, d)} \cup (IF faulty THEN {d} ELSE {})

\* ErrorCount as the stmt record shows it = the counter of the protocol, and it moved by the number of messages of
\* class error / fatal of this line (+ user: 1 for an executed ERROR / FATAL statement, or WARNING under -Werror)
ErrsDeltaIsDiagCount(dpre, dpost, e, user) ==
  Claim("ErrsDeltaIsDiagCount", dpost.err = e.errs /\ dpost.err - dpre.err = CountedErrs(e.dg) + user)

-----------------------------------------------------------------------------
(* 2. CA: conditional assembly (as CondAsm_Trace), EXITM decided by MP     *)
AbsStk(stk) == [i \in 1..Len(stk) |-> [st |-> stk[i].st, found |-> stk[i].found, save |-> stk[i].save]]
LogStk(e) == [i \in 1..Len(e.stk) |-> [st |-> e.stk[i][1], found |-> e.stk[i][2] = 1, save |-> e.stk[i][3] = 1]]
CAMatches(m, e) == m.ifasm = e.ifasm /\ AbsStk(m.stk) = LogStk(e)

\* the input tag that delivered the line (head of the chain after GetNextLine)
ExitmTaken(ca, tags, e) == e.argc = 0 /\ tags # <<>> /\ Head(tags).mac /\ ca.ifasm
CACands(ca, tags, e) ==
  CASE e.ca = "IF"       -> {CA!DoIf(ca, c) : c \in BOOLEAN}
    [] e.ca = "ELSEIF"   -> IF e.argc = 0 THEN {CA!DoElse(ca)}
                            ELSE IF e.argc = 1 THEN {CA!DoElseIf(ca, c) : c \in BOOLEAN} ELSE {CA!Err(ca)}
    [] e.ca = "ENDIF"    -> IF e.argc = 0 THEN {CA!DoEndIf(ca)} ELSE {CA!Err(ca)}
    [] e.ca = "SWITCH"   -> {CA!DoSwitch(ca, 0)}
    [] e.ca = "CASE"     -> IF e.argc = 0 /\ ca.stk # <<>> THEN {CA!Err(ca)} ELSE {CA!DoCaseB(ca, h) : h \in BOOLEAN}
    [] e.ca = "ELSECASE" -> IF e.argc = 0 THEN {CA!DoElseCase(ca)} ELSE {CA!Err(ca)}
    [] e.ca = "ENDCASE"  -> IF e.argc = 0 THEN {CA!DoEndCase(ca)} ELSE {CA!Err(ca)}
    [] e.ca = "EXITM"    -> IF ExitmTaken(ca, tags, e)
                            THEN (IF On("ExitmRestoresEntryDepth") THEN {CA!DoRestoreIFs(ca, Head(tags).ifl)}
                                  ELSE {CA!DoRestoreIFs(ca, k) : k \in 0..Len(ca.stk)})
                            ELSE {ca}
    [] OTHER             -> {ca}

MachineErrorIsReported(ca, c, gs) == Claim("MachineErrorIsReported", (c.errs > ca.errs) => HasErr(gs))

-----------------------------------------------------------------------------
(* 3. AB: address bookkeeping (as AddrBook_Trace) + CW: the stream         *)
\* w = [on, ri, off, pend]: cursor into the parsed code file; pend = the chunk emitted last, not yet compared
\* (a RetractWords of the NEXT statement may still chop its tail: TMS320C3x/C4x parallel instructions)
NoPend == [seg |-> 0, g |-> 1, a |-> 0, b |-> <<>>]
InitW(on) == [on |-> on, ri |-> 1, off |-> 0, pend |-> NoPend]
\* <<ok, w>>
FlushPend(rs, w) ==
  IF w.pend.b = <<>> THEN <<TRUE, [w EXCEPT !.pend = NoPend]>>
  ELSE LET r == CW!Consume(rs, w.ri, w.off, w.pend.seg, w.pend.g, w.pend.a, w.pend.b)
       IN <<r[1], [w EXCEPT !.ri = r[2], !.off = r[3], !.pend = NoPend]>>
StreamChunk(rs, w, c) ==
  IF ~w.on \/ ~On("LastPassImageEqualsFile") THEN <<TRUE, w>>
  ELSE CASE c.k = "E" -> LET f == FlushPend(rs, w)
                         IN <<f[1], [f[2] EXCEPT !.pend = [seg |-> c.seg, g |-> c.g, a |-> c.addr * c.g, b |-> c.b]]>>
         [] c.k = "X" -> IF c.nb <= Len(w.pend.b)          \* a retraction never reaches into an older chunk
                         THEN <<TRUE, [w EXCEPT !.pend.b = SubSeq(@, 1, Len(@) - c.nb)]>>
                         ELSE <<FALSE, w>>
         [] OTHER     -> <<TRUE, w>>
\* end of the last pass: nothing in the file that was not emitted
StreamDone(rs, w) ==
  ~w.on \/ ~On("LastPassImageEqualsFile")
  \/ LET f == FlushPend(rs, w) IN f[1] /\ CW!Norm(rs, f[2].ri, f[2].off)[1] > Len(rs)

RECURSIVE Chunks(_, _, _, _, _)
\* <<ok, b, w>>: every chunk at the load address the bookkeeping implies, and (last pass) next in the file
Chunks(rs, bb, w, cs, i) ==
  IF i > Len(cs) THEN <<TRUE, bb, w>>
  ELSE LET c == cs[i]
           s == StreamChunk(rs, w, c)
       IN IF ~s[1] THEN <<FALSE, bb, w>>
          ELSE IF c.k = "X" THEN Chunks(rs, AB!Retract(bb, c.n), s[2], cs, i + 1)
          ELSE IF c.seg = bb.act /\ c.addr = AB!Load(bb)
               THEN Chunks(rs, AB!MarkUsed(AB!Advance(bb, c.n)), s[2], cs, i + 1)
               ELSE <<FALSE, bb, w>>

PostOK(bb, e) ==
  /\ bb.act = e.seg /\ AB!Load(bb) = e.pc /\ bb.ph[bb.act] = e.ph
  /\ (e.seg # StructSeg => Len(bb.phStk[bb.act]) = e.phd)
  /\ Len(bb.saveStk) = e.svd /\ Len(bb.stStk) = e.std

\* candidates for the state right after the pseudo-op handler ran (before WriteCode); `quiet` = the line raised
\* no error: then the handler did its work (FailedHandlerNeedsError)
Untouched(ab, quiet) == IF quiet /\ On("FailedHandlerNeedsError") THEN {} ELSE {ab}
\* SaveIsOccupied / RestoreIsOccupied (asmdef.c): on a target that has a machine instruction of that name (NS32K: SAVE
\* and RESTORE with operands) the statement goes to the code generator - it is then an ordinary statement that emits
NameOccupied(ab, e) == IF e.len > 0 THEN {ab} ELSE {}
AfterHandler(ab, e, quiet) ==
  CASE e.cb = "ORG"      -> {AB!Org(ab, e.pc + e.ph)}
    [] e.cb = "RORG"     -> {AB!Rorg(ab, e.pc - AB!Load(ab))}
    [] e.cb = "SEGMENT"  -> {AB!Segment(ab, e.seg, e.pc)} \cup Untouched(ab, quiet)
    [] e.cb = "CPU"      -> {AB!Segment(ab, e.seg, e.pc)}
    [] e.cb = "PHASE"    -> {AB!Phase(ab, e.pc + e.ph)} \cup Untouched(ab, quiet)
    [] e.cb = "DEPHASE"  -> {AB!Dephase(ab)} \cup Untouched(ab, quiet)
    [] e.cb = "SAVE"     -> {AB!Save(ab)} \cup Untouched(ab, quiet) \cup NameOccupied(ab, e)
    [] e.cb = "RESTORE"  -> (IF AB!CanRestore(ab) THEN {AB!Restore(ab)} ELSE {}) \cup Untouched(ab, quiet)
                            \cup NameOccupied(ab, e)
    [] e.cb = "STRUCT"   -> {AB!BeginStruct(ab, FALSE)} \cup Untouched(ab, quiet)
    [] e.cb = "UNION"    -> {AB!BeginStruct(ab, TRUE)} \cup Untouched(ab, quiet)
    [] e.cb = "ENDSTRUCT" -> (IF ab.stStk # <<>> THEN {AB!EndStruct(ab)} ELSE {}) \cup Untouched(ab, quiet)
    [] OTHER             -> {ab}
BodyAdvance(bb, e) ==
  IF AB!InStruct(bb) /\ e.cb \notin {"ENDSTRUCT", "STRUCT", "UNION"} THEN AB!Advance(bb, e.len) ELSE bb

Reset(e) == [AB!InitB(e.seg) EXCEPT !.pc[e.seg] = e.pc, !.used = [s \in AB!AllSegs |-> FALSE]]

-----------------------------------------------------------------------------
(* 4. MP: the macro processor, projected                                   *)
\* input tag  [kind, mac, ifl, s, n, z, raw, known, emp]   (TInputTag: Processor, IsMacro, IfLevel, Lines as the
\*            range s..s+n-1 of recorded statements, LineZ, "lines are delivered verbatim", "body known", IsEmpty)
\* output tag [kind, nest, s, n, ifl, name]                (TOutputTag: Processor, NestLevel, recorded range)
\* mp = [tags, outs, macros, pass];  macros: name -> [s, n]
FileTag(ifl) == [kind |-> "FILE", mac |-> FALSE, ifl |-> ifl, s |-> 0, n |-> 0, z |-> 1, raw |-> FALSE,
                 known |-> FALSE, emp |-> FALSE]
InitMP == [tags |-> <<>>, outs |-> <<>>, macros |-> <<>>, pass |-> 0]
\* AssembleFile_InitPass + ProcessFile: chains empty, the main file is the only input tag; macros of pass 1 stay
StartPass(mp, pass) == [mp EXCEPT !.tags = <<FileTag(0)>>, !.outs = <<>>, !.pass = pass]

RECURSIVE PopEmpty(_)
PopEmpty(tags) == IF tags # <<>> /\ Head(tags).emp THEN PopEmpty(Tail(tags)) ELSE tags
SetTop(tags, t) == <<t>> \o Tail(tags)
LoopKinds == {"IRP", "IRPN", "IRPC", "REPT"}

\* GetNextLine for one delivered line ln = [nl, tx, dp, em]; Tx(i) = text of the statement recorded at position i.
\* Returns the set (empty or singleton) of chains after the call.
DeliveredAsRecorded(Tx(_), t, ln) ==
  Claim("DeliveredAsRecorded", (t.raw /\ t.known) => ln.tx = Tx(t.s + t.z - 1))
NextLine(Tx(_), tags0, ln) ==
  LET tags == PopEmpty(tags0)
  IN IF ln.nl THEN (IF tags = <<>> THEN {tags} ELSE {})            \* the hook is behind the early return
     ELSE IF tags = <<>> \/ ~Claim("TagDepthIsMachineDepth", ln.dp = Len(tags)) THEN {}
     ELSE LET t == Head(tags) IN
          CASE t.kind = "FILE" \/ ~t.known -> {SetTop(tags, [t EXCEPT !.emp = ln.em])}      \* text and end: input
            [] t.kind = "MACRO" ->                                  \* MACRO_Processor: exhausted with the last line
                 IF t.z <= t.n /\ ln.em = (t.z + 1 > t.n) /\ DeliveredAsRecorded(Tx, t, ln)
                 THEN {SetTop(tags, [t EXCEPT !.z = @ + 1, !.emp = ln.em])} ELSE {}
            [] t.kind \in LoopKinds ->                              \* IRP_/IRPC_/REPT_Processor: the count ends
                 IF t.z <= t.n /\ (ln.em => t.z = t.n) /\ DeliveredAsRecorded(Tx, t, ln)     \* only with the body
                 THEN {SetTop(tags, [t EXCEPT !.z = IF t.z = t.n THEN 1 ELSE @ + 1, !.emp = ln.em])} ELSE {}
            [] OTHER ->                                             \* WHILE_Processor: condition before line 1
                 IF t.z = 1 /\ ln.em THEN (IF ln.tx = 0 THEN {SetTop(tags, [t EXCEPT !.emp = TRUE])} ELSE {})
                 ELSE IF ~ln.em /\ t.z <= t.n /\ DeliveredAsRecorded(Tx, t, ln)
                      THEN {SetTop(tags, [t EXCEPT !.z = IF t.z = t.n THEN 1 ELSE @ + 1])} ELSE {}
RECURSIVE Deliver(_, _, _, _)
Deliver(Tx(_), tags, lns, i) ==
  IF i > Len(lns) THEN {tags}
  ELSE UNION {Deliver(Tx, t2, lns, i + 1) : t2 \in NextLine(Tx, tags, lns[i])}

\* Produce_Code, statements of the macro processor.  pos = position of this statement in the record of statements,
\* ifpre = IfAsm before the statement, ifl = depth of the IF stack (SaveIFs), quiet = no error on this line
WaitOut == [kind |-> "WAIT", nest |-> 0, s |-> 0, n |-> 0, ifl |-> 0, name |-> ""]
NewOut(kind, pos, ifl, name) == [kind |-> kind, nest |-> 0, s |-> pos + 1, n |-> 0, ifl |-> ifl, name |-> name]
PushOut(mp, o) == [mp EXCEPT !.outs = <<o>> \o @]
PushTag(mp, t) == [mp EXCEPT !.tags = <<t>> \o @]
BodyTag(kind, o) == [kind |-> kind, mac |-> TRUE, ifl |-> o.ifl, s |-> o.s, n |-> o.n, z |-> 1,
                     raw |-> kind \in {"REPT", "WHILE"}, known |-> TRUE, emp |-> o.n = 0]
MacroTag(mp, name, ifl) ==
  IF name \in DOMAIN mp.macros
  THEN [kind |-> "MACRO", mac |-> TRUE, ifl |-> ifl, s |-> mp.macros[name].s, n |-> mp.macros[name].n, z |-> 1,
        raw |-> FALSE, known |-> TRUE, emp |-> mp.macros[name].n = 0]
  ELSE [kind |-> "MACRO", mac |-> TRUE, ifl |-> ifl, s |-> 0, n |-> 0, z |-> 1, raw |-> FALSE, known |-> FALSE,
        emp |-> FALSE]                   \* a macro the specification has not seen defined: opaque
DefMacro(mp, name, o) ==
  [mp EXCEPT !.macros = [x \in DOMAIN mp.macros \cup {name} |-> IF x = name THEN [s |-> o.s, n |-> o.n] ELSE mp.macros[x]]]
Rejected(mp, quiet) == IF quiet /\ On("RejectedHeaderNeedsError") THEN {} ELSE {PushOut(mp, WaitOut)}

Produce(mp, e, pos, ifpre, ifl, quiet) ==
  IF mp.outs # <<>>
  THEN LET o    == Head(mp.outs)
           nn   == MP!NestAfter(o, e.op)
           rest == [mp EXCEPT !.outs = Tail(@)]
       IN IF nn > -1
          THEN {[mp EXCEPT !.outs = <<[o EXCEPT !.nest = nn, !.n = IF o.kind = "WAIT" THEN 0 ELSE @ + 1]>> \o Tail(@)]}
          ELSE CASE o.kind = "WAIT"  -> {rest}
                 [] o.kind = "MACRO" -> IF ifpre THEN {DefMacro(rest, o.name, o)} ELSE {rest}
                 [] OTHER            -> \* REPT count, WHILE condition, IRP list: not in the record - the chain decides
                                        IF ifpre THEN {rest, PushTag(rest, BodyTag(o.kind, o))} ELSE {rest}
  ELSE CASE e.mc \in LoopKinds \cup {"WHILE"} ->
              IF ~ifpre THEN {PushOut(mp, WaitOut)}
              ELSE {PushOut(mp, NewOut(e.mc, pos, ifl, ""))} \cup Rejected(mp, quiet)
         [] e.mc = "MACRO" ->
              IF mp.pass # 1 THEN {PushOut(mp, WaitOut)}             \* definitions are only taken in pass 1
              ELSE {PushOut(mp, NewOut("MACRO", pos, ifl, e.nm))} \cup Rejected(mp, quiet)
         [] e.mc = "EXITM" ->
              IF e.argc = 0 /\ mp.tags # <<>> /\ Head(mp.tags).mac /\ ifpre
              THEN {[mp EXCEPT !.tags = SetTop(@, [Head(@) EXCEPT !.emp = TRUE])]} ELSE {mp}
         [] e.mc = "INCLUDE" ->
              IF ifpre THEN {PushTag(mp, FileTag(ifl))} \cup (IF quiet THEN {} ELSE {mp}) ELSE {mp}
         [] e.mc = "OTHER" /\ e.wm ->                              \* FoundMacro(): a macro call
              IF ifpre THEN {PushTag(mp, MacroTag(mp, e.op, ifl))} \cup (IF quiet THEN {} ELSE {mp}) ELSE {mp}
         [] OTHER -> {mp}

-----------------------------------------------------------------------------
(* 5. cross-machine claims                                                 *)
NoCode(e) == \A i \in 1..Len(e.ch) : e.ch[i].n = 0
Inert(e, ab, nab) == e.ch = <<>> /\ nab = ab
\* (statements of the macro processor - WasMACRO - are looked at even in a skipped branch: EXITM / SHIFT outside a
\*  macro and malformed loop headers complain there too; everything else is not even decoded)
SkippedIsInert(e, ca, ab, nab) ==
  Claim("SkippedIsInert", (~ca.ifasm /\ ~e.ifasm /\ e.ca = "OTHER" /\ ~e.rec)
                          => (Inert(e, ab, nab) /\ (e.wm \/ e.dg = <<>>) /\ e.sd = <<>>))
\* (e.rec alone: the header that starts a recording moves nothing either; a line stored INTO a body - recording
\*  before and after - is not looked at at all: no diagnostic, no definition)
RecordedIsInert(e, ca, nca, ab, nab, recpre) ==
  Claim("RecordedIsInert", /\ e.rec => (Inert(e, ab, nab) /\ nca.ifasm = ca.ifasm /\ nca.stk = ca.stk)
                           /\ (recpre /\ e.rec) => (e.dg = <<>> /\ e.sd = <<>>))
IfFamilyIsAddressNeutral(e, ab, nab) ==
  Claim("IfFamilyIsAddressNeutral",
        (e.ca \notin {"OTHER", "EXITM"}) => (NoCode(e) /\ nab.pc = ab.pc /\ nab.ph = ab.ph /\ nab.act = ab.act))

\* "where definite": the line was assembled (not skipped, not recorded), it is not one of the statements whose
\* machine says otherwise (ErrorLineMayEmit: none known), and the error belongs to the statement itself
ErrorLineEmitsNoCode(e, ifpre, recpre) ==
  Claim("ErrorLineEmitsNoCode", (HasErr(e.dg) /\ ifpre /\ ~recpre) => NoCode(e))

\* Statements that take the label field as their operand (asmlabel.c LabelPresent() + IsDef() of the targets):
\* for them the first definition of the line is not a label.
LabelConsumers == {"=", ":=", "MACRO", "FUNCTION", "LABEL", "SET", "STRUCT", "STRUC", "EQU", "ENDSTRUCT", "ENDS",
                   "ENDSTRUC", "ENDUNION", "EVAL", "UNION", "REG", "BIT", "SFR", "PORT", "DEFBIT", "YSFR", "XSFR",
                   "SFRB", "RIV", "LIV", "DEFBITFIELD", "DEFBITB", "DBIT", "SFRBIT"}
\* LabelSetByTarget: IsDef_XA() claims every label in the CODE segment (codexa.c places it behind the alignment
\* padding itself); header id 3Ch = Philips XA
LabelSetByTarget(e, ab) == e.cpu = 60 /\ ab.act = 1
\* Inside STRUCT/UNION bodies the label is an element of the innermost named structure (asmstructs.c
\* AddStructSymbol): its value is the offset in the body plus the offsets at which the enclosing open structures
\* started (stStk[i].savePC of all but the outermost entry, which holds the counter of the interrupted segment);
\* with no named structure open it is an ordinary label.
RECURSIVE SumSave(_, _)
SumSave(stk, i) == IF i >= Len(stk) THEN 0 ELSE stk[i].savePC + SumSave(stk, i + 1)
LabelValues(ab) == {AB!Exec(ab)} \cup (IF AB!InStruct(ab) THEN {AB!Exec(ab) + SumSave(ab.stStk, 1)} ELSE {})
\* e.sd = <<>> or <<[v, chg, int, big]>>: the first symbol definition after the line was delivered
LabelValueIsExec(e, ab, ifpre, recpre) ==
  Claim("LabelValueIsExec",
        (e.lab /\ ifpre /\ ~recpre /\ e.op \notin LabelConsumers /\ ~HasErr(e.dg) /\ e.sd # <<>>
         /\ e.sd[1].int /\ e.sd[1].chg = 0 /\ ~e.sd[1].big /\ ~LabelSetByTarget(e, ab))
        => e.sd[1].v \in LabelValues(ab))

OpenConstructsAreReported(ca, ab, gs) ==
  Claim("OpenConstructsAreReported",
        /\ (ca.stk # <<>>) = HasDiag(gs, DG!NumMissEndif)
        /\ (ab.saveStk # <<>>) = HasDiag(gs, DG!NumNoRestoreFrame)
        /\ (ab.stStk # <<>>) = HasDiag(gs, DG!NumOpenStruct))
-----------------------------------------------------------------------------
(* 6. THE COMPOSED STEP: one execution of Produce_Code as a step of every  *)
(* machine.  s = [ca, ab, mp, cw, d] (states of CondAsm, AddrBook, the     *)
(* projected macro processor, the stream cursor, the diagnostic counters), *)
(* e = the regrouped record of the statement (see AsCore_Trace), o = the   *)
(* option record of Diag, rs = the parsed code file (last pass), Tx(i) =   *)
(* text of the statement at position i.  Returns the set of states after   *)
(* the statement that the composed specification allows - empty when the   *)
(* record contradicts a machine or a cross-machine claim.                  *)
StmtSucc(Tx(_), rs, o, s, e) ==
  LET ifpre  == s.ca.ifasm
      recpre == s.mp.outs # <<>>
      quiet  == ~HasErr(e.dg)
      fd     == FoldDiags(o, s.d, e.dg, 1)
      here   == [nl |-> e.nl, tx |-> e.tx, dp |-> e.dp, em |-> e.em]
      ds     == IF IsUserOp(e, ifpre, recpre) THEN UserCands(o, fd[2], e, e.dg # <<>>) ELSE {fd[2]}
      After(c, m, h) ==
        LET r   == Chunks(rs, h, s.cw, e.ch, 1)
            nab == BodyAdvance(r[2], e)
        IN IF /\ r[1]
              /\ PostOK(nab, e)
              /\ SkippedIsInert(e, s.ca, s.ab, nab)
              /\ RecordedIsInert(e, s.ca, c, s.ab, nab, recpre)
              /\ IfFamilyIsAddressNeutral(e, s.ab, nab)
              /\ ErrorLineEmitsNoCode(e, ifpre, recpre)
              /\ LabelValueIsExec(e, s.ab, ifpre, recpre)
           THEN {[ca |-> [c EXCEPT !.errs = 0, !.warns = 0], ab |-> nab, mp |-> m, cw |-> r[3], d |-> d2] :
                   d2 \in {x \in ds : ErrsDeltaIsDiagCount(s.d, x, e, x.err - fd[2].err)}}
           ELSE {}
      Produced(tg, c) ==
        {m \in Produce([s.mp EXCEPT !.tags = tg], e, l, ifpre, Len(s.ca.stk), quiet) :
           Claim("TagDepthIsMachineDepth", Len(m.tags) = e.tagd) /\ (m.outs # <<>>) = e.rec}
      Selected(tg) ==
        {c \in CACands(s.ca, tg, e) : CAMatches(c, e) /\ MachineErrorIsReported(s.ca, c, e.dg)}
  IN IF ~fd[1] THEN {}
     ELSE UNION {UNION {UNION {UNION {After(c, m, h) : h \in AfterHandler(s.ab, e, quiet)}
                               : m \in Produced(tg, c)}
                        : c \in Selected(tg)}
                 : tg \in Deliver(Tx, s.mp.tags, Append(e.pre, here), 1)}
=============================================================================
