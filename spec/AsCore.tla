------------------------------- MODULE AsCore -------------------------------
(***************************************************************************)
(* The composed specification of the assembler core: ONE source statement  *)
(* is ONE step of ALL statement-level machines of the specification.       *)
(*                                                                         *)
(*   CA  conditional assembly   INSTANCE CondAsm    IF/SWITCH stack, IfAsm *)
(*   AB  address bookkeeping    INSTANCE AddrBook   counters, phases,      *)
(*                                                  segments, SAVE, STRUCT *)
(*   DG  diagnostic counters    INSTANCE Diag       WrErrorString, user    *)
(*                                                  WARNING/ERROR/FATAL    *)
(*   CW  code writer, stream view  INSTANCE CodeWriter_Trace (Consume/Norm:*)
(*                              the file's data in file order = the        *)
(*                              emitted bytes in emission order)           *)
(*   MP  macro processor        INSTANCE MacroProc, PROJECTED: the input   *)
(*                              tag chain (kind, IsMacro, IfLevel, body as *)
(*                              a range of recorded lines, LineZ, IsEmpty),*)
(*                              the output tag chain (kind, NestLevel,     *)
(*                              recorded range) and the macro table        *)
(*                              (name -> recorded range).  MacroProc's own *)
(*                              operators work on token lines with bound   *)
(*                              parameters (CompressLine / ExpandLine);    *)
(*                              composing them needs the tokenised text    *)
(*                              and the split fields of every statement    *)
(*                              and is what MacroProc_CorpusTrace does     *)
(*                              (C11, minutes).  The projection keeps what *)
(*                              decides the line delivery structurally and *)
(*                              reuses NestAfter / MacroStart / MacroEnd / *)
(*                              DoRestoreIFs of the original modules.      *)
(*                              Parameter substitution is NOT composed:    *)
(*                              the text of a delivered line is compared   *)
(*                              with the recorded one only where the       *)
(*                              processor delivers it verbatim (REPT,      *)
(*                              WHILE: REPT_/WHILE_OutProcessor store the  *)
(*                              raw line).                                 *)
(*   XP  EXPECT list            INSTANCE DiagPos (C20): Report, AddAll,    *)
(*                              TakeFirst, CodeEXPECT on the list d.exp /  *)
(*                              d.inexp of Diag's state                    *)
(*   SY  symbol table           INSTANCE Symbols (C13): the trees          *)
(*                              FirstSymbol / FirstLocSymbol as functions  *)
(*                              <<name, section or local handle>> ->       *)
(*                              [val, chg, def], the section list and      *)
(*                              stack, the PUBLIC/GLOBAL/FORWARD lists,    *)
(*                              the PUSHV/POPV stacks.  Adder, EnterSymbol,*)
(*                              DoSection, DoEndSection, DoPP, FindNode,   *)
(*                              DoPushV, DoPopV, ExitPass, NextPass are    *)
(*                              the operators of Symbols.tla, unchanged.   *)
(*                              Names are the stored (case-folded) names   *)
(*                              of the hook records; a value is the triple *)
(*                              <<type, integer, decimal text of integers  *)
(*                              beyond 2^30>> (values of other types are   *)
(*                              compared by type only - that is what the   *)
(*                              hook records).  The local symbol handles   *)
(*                              (MomLocHandle, LocHandleCnt) are carried   *)
(*                              by the tags of MP: lh, gs, mp.lc.          *)
(*                              NOT composed: expression evaluation (the   *)
(*                              value of a definition is the recorded one; *)
(*                              what is judged is where it goes, whether   *)
(*                              it may go there, what it does to the table *)
(*                              and that every later read sees it), the    *)
(*                              spelling rules of temporary / composed     *)
(*                              names and the search path of a reference   *)
(*                              (C13 judges both).                         *)
(*                                                                         *)
(* This module holds the pure operators and the cross-machine claims; the  *)
(* wrappers are AsCore_Trace (one recorded execution of the real assembler *)
(* validated against all machines at once; also INSTANCEs Driver_Trace for *)
(* the run/file/pass protocol) and AsCore_MC / AsCore_Gen (bounded model   *)
(* of the composition and generator of programs for replay).               *)
(*                                                                         *)
(* Cross-machine claims (each an operator, checked at every step):         *)
(*   SkippedIsInert, RecordedIsInert, IfFamilyIsAddressNeutral  (as before)*)
(*   ErrsDeltaIsDiagCount     ErrorCount moves by the number of messages   *)
(*                            of class error/fatal of the line (+1 for an  *)
(*                            executed ERROR/FATAL statement)              *)
(*   ErrorLineEmitsNoCode     a line that raised an error (number >= 1000, *)
(*                            also one consumed by EXPECT) emits nothing   *)
(*                            and reserves nothing                         *)
(*   FailedHandlerNeedsError  a named address statement may leave the      *)
(*                            bookkeeping untouched only if it complained  *)
(*   MachineErrorIsReported   an Err step of CondAsm shows as a diagnostic *)
(*   ExitmRestoresEntryDepth  EXITM cuts the IF stack back to the IfLevel  *)
(*                            the input tag saved when it was generated    *)
(*   RejectedHeaderNeedsError a loop/macro header is only skipped (WAIT    *)
(*                            tag) in pass > 1, in a skipped branch or     *)
(*                            after a diagnostic                           *)
(*   DeliveredAsRecorded      k-th line handed out by a tag = k-th line    *)
(*                            recorded for it (verbatim bodies: same text) *)
(*   TagDepthIsMachineDepth   depth after GetNextLine / after the          *)
(*                            statement = length of the machine's chain    *)
(*   LabelValueIsExec         a constant label gets AddrBook's execution   *)
(*                            address as it is BEFORE the statement        *)
(*   LabelEntersTable         a label field that is not the operand of the *)
(*                            statement is entered: exactly one constant,  *)
(*                            its name, in the current section (in the     *)
(*                            local space of the innermost expansion that  *)
(*                            opened one), first definition of the line    *)
(*   SymbolTableFollowsAdder  every recorded definition is what            *)
(*                            EnterSymbol / EnterLocSymbol + SymbolAdder   *)
(*                            do to the table of the specification: place  *)
(*                            (section, PUBLIC / GLOBAL target, local      *)
(*                            handle) and outcome new / same / changed /   *)
(*                            redef_* / double / mix.  This is the rule    *)
(*                            "EQU, = and labels may not be redefined      *)
(*                            within a pass (whatever the value), SET, :=, *)
(*                            EVAL may; across passes the same value is    *)
(*                            silent".                                     *)
(*   ConstantIsStable         the same, declaratively: a definition never  *)
(*                            alters an entry that is a constant defined   *)
(*                            in this pass                                 *)
(*   RedefinitionIsReported   outcome double / mix <=> message 1000 /      *)
(*                            2030, 2035 on the line                       *)
(*   DefKindMatchesStatement  EQU / = define constants, SET / := / EVAL    *)
(*                            variables, ENUM constants                    *)
(*   ErrorDefinesNothing      a definition statement (EQU, SET, ...) that  *)
(*                            raised an error leaves the table as it was   *)
(*   RefReadsTable            every recorded lookup that found an entry    *)
(*                            shows the value, kind and defined-mark the   *)
(*                            table of the specification holds for it      *)
(*   SectionStackFollowsManual SECTION / ENDSECTION / PUBLIC / GLOBAL /    *)
(*                            FORWARD are DoSection / DoEndSection / DoPP; *)
(*                            their errors are reported with their number; *)
(*                            the depth of the stack is the recorded one   *)
(*                            after EVERY statement                        *)
(*   EnumAssignsSequentialValues  ENUM starts at 0, NEXTENUM continues,    *)
(*                            name=value restarts, step = ENUMCONF         *)
(*   StackIsLifo              PUSHV / POPV are DoPushV / DoPopV (the value *)
(*                            popped is read back by later references)     *)
(*   FinalTableIsListed       (AsCore_Trace, FILEEND) the symbol table of  *)
(*                            the listing = the global tree at the end of  *)
(*                            the last pass (generated programs: -L)       *)
(*   LastPassImageEqualsFile  in the last pass every emitted byte is the   *)
(*                            next byte of the code file, at its address;  *)
(*                            at the end nothing is left in the file       *)
(*   PassBoundaryResetsEverything  (AsCore_Trace: Driver_Trace's Pass)     *)
(*   OpenConstructsAreReported  at the end of a pass an open IF / SAVE /   *)
(*                            STRUCT / SECTION is reported (1470 / 1460 /  *)
(*                            1551 / 1485), a PUSHV stack that is not      *)
(*                            empty is warned about (230), nothing else is *)
(*   ExpectListIsHistory      (growth round 6) a message is consumed -     *)
(*                            recorded "expected", not counted - iff its   *)
(*                            number is on the EXPECT list, and the list   *)
(*                            is the numbers the open EXPECT named less    *)
(*                            those consumed since (d.exp; DiagPos!Report  *)
(*                            / AddAll / TakeFirst).  ErrsDeltaIsDiagCount *)
(*                            counts the messages that were NOT consumed.  *)
(*   EndExpectReportsExactlyUnmet  ENDEXPECT raises one 2130 per entry     *)
(*                            left on the list, nothing else, and closes   *)
(*                            the block; without an open block: 2160       *)
(*   ExpectDoesNotNest        EXPECT inside a block: 2140, the list stays  *)
(*   ExpectEndsWithPass       a block open at the end of the pass is       *)
(*                            reported (2150); list and InExpect do not    *)
(*                            reach the next pass / file (PassInit)        *)
(*   IfdefReadsTable          IFDEF / IFNDEF name takes the branch the     *)
(*                            table of the specification dictates: true    *)
(*                            iff the entry FindLocNode / FindNode finds   *)
(*                            has been defined in this pass                *)
(*   PhaseErrorForcesRepass, RepassHasCause  (PASSEND) Repass is set iff a *)
(*                            constant was re-entered with another value,  *)
(*                            a lookup found nothing (or a REG statement   *)
(*                            ran): symbol table x pass loop               *)
(*   CodeLenIsEmitted         CodeLen of the statement = what its emit /   *)
(*                            reserve records hand out (all of it, or the  *)
(*                            last portion behind an automatic pad)        *)
(*   EmptyLineIsInert, ListingControlIsInert  a line without instruction / *)
(*                            NEWPAGE, PAGE, TITLE, PRTINIT, PRTEXIT,      *)
(*                            PAGESIZE: no code, no length, bookkeeping    *)
(*                            untouched                                    *)
(*   AlignReachesBoundary     ALIGN n: execution address becomes the next  *)
(*                            multiple of n (AddrBook!AlignGap)            *)
(*   EndStopsAssembly, EndSetsEntry  no statement is executed behind END;  *)
(*                            the code file has an entry record iff an END *)
(*                            of the last pass gave an address             *)
(* SkippedIsInert / RecordedIsInert include the symbol table: no           *)
(* definition, no modification, table after = table before.                *)
(* Named behaviour of the code the manual does not state:                  *)
(*   LabelSurvivesError       the label of a line whose instruction fails  *)
(*                            stays defined (LabelHandle runs first)       *)
(*   EnumLocalInExpansion     ENUM inside a macro body defines macro-local *)
(*                            constants (CodeENUM has no PushLocHandle(-1))*)
(*                            while EQU / LABEL / SET define global ones   *)
(*   RedefinitionEvenIfEqual  x EQU 1 / x EQU 1 in one pass is an error    *)
(*   QuietUnknownEqu          x EQU <forward reference> in pass 1 defines  *)
(*                            nothing and says nothing                     *)
(*   LabelErrorStillEmits     a label that is refused (double definition)  *)
(*                            does not stop the instruction behind it      *)
(*   OpFieldExpandedAnyway    {symbol} in the opcode field is looked up    *)
(*                            even on a skipped or recorded line           *)
(*   SetIsInstruction         SET bit,operand on targets that have it      *)
(*   ResetAt                  ResetSymbolDefines runs in front of the      *)
(*                            first definition of TRUE (hook: no marker)   *)
(*   FatalNotExpectable, ExpectedFirst, DrainIsSubjectToList  (section 1)  *)
(*   PageIsInstruction        PAGE on targets that have such an instruction*)
(* VARIABLE l = position of the current statement in the record of         *)
(* statements (the wrappers step it); bodies of macros and loops are       *)
(* ranges of such positions.                                               *)
(* CONSTANTS OffSet, OffAt: claims switched off at position OffAt          *)
(* (diagnosis only: the harness finds the violated claim of a rejected     *)
(* trace by re-running the rejected execution with one claim off at the    *)
(* rejected event - again TLC decides; production value {} / 0).           *)
(***************************************************************************)
EXTENDS Integers, Sequences, FiniteSets, TLC

CONSTANTS Segs, StructSeg, OffSet, OffAt
VARIABLE l

CA == INSTANCE CondAsm
AB == INSTANCE AddrBook
DG == INSTANCE Diag WITH Wrap <- 0
MP == INSTANCE MacroProc WITH Fixed <- {}, HasAttrs <- TRUE, MaxNum <- 0
CW == INSTANCE CodeWriter_Trace WITH l <- 0, base <- 0, ri <- 0, off <- 0
SY == INSTANCE Symbols WITH LOCSYMSIGHT <- 3

On(c) == ~(l = OffAt /\ c \in OffSet)
Claim(c, p) == ~On(c) \/ p

-----------------------------------------------------------------------------
(* 1. DG: the diagnostics of one line                                      *)
(* EXPECT / ENDEXPECT (asmerr.c): the list of announced message numbers    *)
(* lives in the diagnostic state of Diag.tla - d.exp = pExpectErrors, head *)
(* first, d.inexp = InExpect; PassInit = AsmErrPassInit drops both - and   *)
(* its semantics are those of DiagPos.tla (C20), reused by INSTANCE:       *)
(* Report (WrXErrorPos: FindAndTakeExpectError takes the FIRST entry with  *)
(* the number), AddAll (AddExpectError prepends argument by argument),     *)
(* TakeFirst.  A message whose number is on the list is consumed: recorded *)
(* with class "expected", not counted, the entry is gone.                  *)
(* Named behaviour of the code:                                            *)
(*   FatalNotExpectable   WrXErrorPos asks the list only for numbers below *)
(*                        10000 (a fatal error cannot be swallowed)        *)
(*   ExpectedFirst        the list is asked before -w and before counting  *)
(*   DrainIsSubjectToList the "expected error did not occur" messages of   *)
(*                        ENDEXPECT (2130) go through WrXErrorPos while    *)
(*                        the rest of the list is still there: EXPECT      *)
(*                        2130,1200 / ENDEXPECT reports nothing, EXPECT    *)
(*                        1200,2130 / ENDEXPECT reports two errors         *)
XP == INSTANCE DiagPos WITH Fixed <- {}, HasAttrs <- TRUE, MaxNum <- 0
XOf(d) == [pending |-> d.exp, inExp |-> d.inexp, out |-> <<>>, log |-> <<>>]
OnList(d, num) == num < 10000 /\ d.exp # <<>> /\ XP!Report(XOf(d), num, 0).log[1].hid
Taken(d, num) == [d EXCEPT !.exp = XP!Report(XOf(d), num, 0).pending]

\* g = [num, cls, errs, warns]: WrXErrorPos after EXPECT / -w filtering, counters BEFORE counting.
\* loose: the list is not known to the specification (an EXPECT argument that is not a literal number) or the claim
\* ExpectListIsHistory is switched off: the record is taken as it is.
DiagOK(o, d, g, loose) ==
  /\ loose \/ (g.cls = "expected") = OnList(d, g.num)                  \* ExpectListIsHistory
  /\ \/ g.cls = "expected"
     \/ /\ ~(o.suppw /\ DG!IsWarnNum(g.num))
        /\ g.cls = DG!Classify(o, g.num)
        /\ g.errs = d.err /\ g.warns = d.warn
DiagApply(o, d, g) ==
  IF g.cls = "expected" THEN (IF OnList(d, g.num) THEN Taken(d, g.num) ELSE d)
  ELSE DG!WrErrorString(o, d, DG!IsWarnNum(g.num), DG!IsFatalNum(g.num))
RECURSIVE FoldDiags(_, _, _, _, _, _)
\* the records gs[i..k]: <<ok, d>>
FoldDiags(o, d, gs, i, k, loose) ==
  IF i > k THEN <<TRUE, d>>
  ELSE IF d.fatal \/ ~DiagOK(o, d, gs[i], loose) THEN <<FALSE, d>>
  ELSE FoldDiags(o, DiagApply(o, d, gs[i]), gs, i + 1, k, loose)
\* AssembleFile_ExitPass: ClearStacks (230), then AsmErrPassExit - "missing ENDEXPECT" (2150) through WrXErrorPos
\* while the list is still there, then ClearExpectErrors - then the other open constructs: <<ok, d>>
RECURSIVE FoldDiagsExit(_, _, _, _, _)
FoldDiagsExit(o, d, gs, i, loose) ==
  IF i > Len(gs) THEN <<TRUE, d>>
  ELSE IF d.fatal \/ ~DiagOK(o, d, gs[i], loose) THEN <<FALSE, d>>
  ELSE LET n == DiagApply(o, d, gs[i])
       IN FoldDiagsExit(o, IF gs[i].num = DG!NumMissingENDEXPECT THEN [n EXCEPT !.exp = <<>>] ELSE n, gs, i + 1, loose)

HasErr(gs) == \E i \in 1..Len(gs) : gs[i].num >= 1000          \* an error or fatal number, consumed by EXPECT or not
HasDiag(gs, num) == \E i \in 1..Len(gs) : gs[i].num = num
CountedErrs(gs) == Cardinality({i \in 1..Len(gs) : gs[i].cls \in {"error", "fatal"}})

UserOps == {"WARNING", "ERROR", "FATAL"}
\* the statement is an executed WARNING / ERROR / FATAL (asmallg.c; UserBypass: no diag record)
IsUserOp(e, ifpre, recpre) == e.op \in UserOps /\ ifpre /\ ~recpre /\ ~e.wm /\ e.ifasm /\ ~e.rec
UserCands(o, d, e, faulty) ==
  {CASE e.op = "WARNING" -> DG!UserWARNING(o, d)
     [] e.op = "ERROR"   -> DG!UserERROR(o, d)
     [] OTHER            -> DG!UserFATAL(o, d)} \cup (IF faulty THEN {d} ELSE {})

\* ErrorCount as the stmt record shows it = the counter of the protocol, and it moved by the number of messages of
\* class error / fatal of this line (+ user: 1 for an executed ERROR / FATAL statement, or WARNING under -Werror)
ErrsDeltaIsDiagCount(dpre, dpost, e, user) ==
  Claim("ErrsDeltaIsDiagCount", dpost.err = e.errs /\ dpost.err - dpre.err = CountedErrs(e.dg) + user)

\* ---- EXPECT / ENDEXPECT: CodeEXPECT / CodeENDEXPECT (asmerr.c), as DiagPos!CodeEXPECT / CodeENDEXPECT / DrainPending
\* e.gk = "EXPECT" | "ENDEXPECT": the statement was executed (selected, not recorded, not a macro call); e.ga = its
\* arguments as the tokeniser reads them: a literal decimal number or -1 (anything else: the value is not known to the
\* specification - from there to the ENDEXPECT / the end of the pass the list is `fuzzy`: au.fz, nothing is claimed
\* about it).  The diagnostics of the line are those raised BEFORE the handler (label ...: gs[1..k], against the list
\* as it was) and those the handler raises itself (gs[k+1..]); the set of d after the line.
XKinds == {"EXPECT", "ENDEXPECT"}
KnownNums(ga) == SelectSeq(ga, LAMBDA x : x >= 0)
Fuzzy(ga) == \E i \in 1..Len(ga) : ga[i] < 0
\* the handler raises exactly the one message num
Raises1(o, d, gs, k, num, loose) ==
  IF Len(gs) = k + 1 /\ gs[k + 1].num = num /\ ~d.fatal /\ DiagOK(o, d, gs[k + 1], loose)
  THEN {DiagApply(o, d, gs[k + 1])} ELSE {}
\* ... or whatever is recorded (claim switched off / list fuzzy)
RaisesAny(o, d, gs, k) == LET f == FoldDiags(o, d, gs, k + 1, Len(gs), TRUE) IN IF f[1] THEN {f[2]} ELSE {}
\* "while (pExpectErrors) { unlink the head; WrXError(ErrNum_ExpectedError) }": one 2130 per entry that is left - itself
\* subject to the rest of the list (DrainIsSubjectToList); a -maxerrors stop ends the process: <<ok, d, next record>>
RECURSIVE Drain(_, _, _, _)
Drain(o, d, gs, i) ==
  IF d.exp = <<>> \/ d.fatal THEN <<TRUE, d, i>>
  ELSE LET d1 == [d EXCEPT !.exp = Tail(@)]
       IN IF i <= Len(gs) /\ gs[i].num = DG!NumExpectedError /\ DiagOK(o, d1, gs[i], FALSE)
          THEN Drain(o, DiagApply(o, d1, gs[i]), gs, i + 1) ELSE <<FALSE, d, i>>
XHandler(o, d, e, k, fz) ==
  LET gs == e.dg
      n  == Len(gs)
  IN
  CASE e.gk = "EXPECT" ->
         IF ~On("ExpectDoesNotNest")
         THEN {IF e.argc = 0 \/ d.inexp THEN x ELSE [x EXCEPT !.exp = XP!AddAll(@, KnownNums(e.ga)), !.inexp = TRUE] :
                 x \in RaisesAny(o, d, gs, k)}
         ELSE IF e.argc = 0 THEN Raises1(o, d, gs, k, 1110, fz)                     \* ChkArgCnt(1, ArgCntMax)
         ELSE IF d.inexp THEN Raises1(o, d, gs, k, DG!NumNoNestExpect, fz)          \* the list stays as it is
         ELSE IF Fuzzy(e.ga)
              THEN {[x EXCEPT !.exp = XP!AddAll(@, KnownNums(e.ga)), !.inexp = TRUE] : x \in RaisesAny(o, d, gs, k)}
         ELSE IF k = n THEN {[d EXCEPT !.exp = XP!CodeEXPECT(XOf(d), e.ga, 0).pending, !.inexp = TRUE]} ELSE {}
    [] e.gk = "ENDEXPECT" ->
         IF fz \/ ~On("EndExpectReportsExactlyUnmet")
         THEN {IF e.argc # 0 \/ ~d.inexp THEN x ELSE [x EXCEPT !.exp = <<>>, !.inexp = FALSE] :
                 x \in RaisesAny(o, d, gs, k)}
         ELSE IF e.argc # 0 THEN Raises1(o, d, gs, k, 1110, FALSE)                   \* ChkArgCnt(0, 0)
         ELSE IF ~d.inexp THEN Raises1(o, d, gs, k, DG!NumMissingEXPECT, FALSE)
         ELSE LET r == Drain(o, d, gs, k + 1)                                        \* EndExpectReportsExactlyUnmet:
              IN IF r[1] /\ r[3] = n + 1                                             \* one 2130 per unmet entry, no more
                 THEN {IF r[2].fatal THEN r[2] ELSE [r[2] EXCEPT !.inexp = FALSE]} ELSE {}
    [] OTHER -> {}
\* the diagnostic state after the line (before a user ERROR / WARNING / FATAL is counted)
XLine(o, d, e, fz) ==
  LET loose == fz \/ ~On("ExpectListIsHistory")
      n == Len(e.dg)
  IN IF e.gk \notin XKinds
     THEN (IF e.dg = <<>> THEN {d} ELSE LET f == FoldDiags(o, d, e.dg, 1, n, loose) IN IF f[1] THEN {f[2]} ELSE {})
     ELSE UNION {LET f == FoldDiags(o, d, e.dg, 1, k, loose) IN IF f[1] THEN XHandler(o, f[2], e, k, fz) ELSE {}
                 : k \in 0..n}
\* the list is fuzzy after the statement
FuzzyAfter(d, e, fz) ==
  CASE e.gk = "EXPECT"    -> fz \/ (e.argc > 0 /\ ~d.inexp /\ Fuzzy(e.ga))
    [] e.gk = "ENDEXPECT" -> fz /\ ~(e.argc = 0 /\ d.inexp)
    [] OTHER              -> fz

-----------------------------------------------------------------------------
(* 2. CA: conditional assembly (as CondAsm_Trace), EXITM decided by MP     *)
AbsStk(stk) == [i \in 1..Len(stk) |-> [st |-> stk[i].st, found |-> stk[i].found, save |-> stk[i].save]]
LogStk(e) == [i \in 1..Len(e.stk) |-> [st |-> e.stk[i][1], found |-> e.stk[i][2] = 1, save |-> e.stk[i][3] = 1]]
CAMatches(m, e) == m.ifasm = e.ifasm /\ AbsStk(m.stk) = LogStk(e)

\* the input tag that delivered the line (head of the chain after GetNextLine)
ExitmTaken(ca, tags, e) == e.argc = 0 /\ tags # <<>> /\ Head(tags).mac /\ ca.ifasm
CACands(ca, tags, e) ==
  CASE e.ca = "IF"       -> {CA!DoIf(ca, c) : c \in BOOLEAN}
    [] e.ca = "ELSEIF"   -> IF e.argc = 0 THEN {CA!DoElse(ca)}
                            ELSE IF e.argc = 1 THEN {CA!DoElseIf(ca, c) : c \in BOOLEAN} ELSE {CA!Err(ca)}
    [] e.ca = "ENDIF"    -> IF e.argc = 0 THEN {CA!DoEndIf(ca)} ELSE {CA!Err(ca)}
    [] e.ca = "SWITCH"   -> {CA!DoSwitch(ca, 0)}
    [] e.ca = "CASE"     -> IF e.argc = 0 /\ ca.stk # <<>> THEN {CA!Err(ca)} ELSE {CA!DoCaseB(ca, h) : h \in BOOLEAN}
    [] e.ca = "ELSECASE" -> IF e.argc = 0 THEN {CA!DoElseCase(ca)} ELSE {CA!Err(ca)}
    [] e.ca = "ENDCASE"  -> IF e.argc = 0 THEN {CA!DoEndCase(ca)} ELSE {CA!Err(ca)}
    [] e.ca = "EXITM"    -> IF ExitmTaken(ca, tags, e)
                            THEN (IF On("ExitmRestoresEntryDepth") THEN {CA!DoRestoreIFs(ca, Head(tags).ifl)}
                                  ELSE {CA!DoRestoreIFs(ca, k) : k \in 0..Len(ca.stk)})
                            ELSE {ca}
    [] OTHER             -> {ca}

MachineErrorIsReported(ca, c, gs) == Claim("MachineErrorIsReported", (c.errs > ca.errs) => HasErr(gs))

-----------------------------------------------------------------------------
(* 3. AB: address bookkeeping (as AddrBook_Trace) + CW: the stream         *)
\* w = [on, ri, off, pend]: cursor into the parsed code file; pend = the chunk emitted last, not yet compared
\* (a RetractWords of the NEXT statement may still chop its tail: TMS320C3x/C4x parallel instructions)
NoPend == [seg |-> 0, g |-> 1, a |-> 0, b |-> <<>>]
InitW(on) == [on |-> on, ri |-> 1, off |-> 0, pend |-> NoPend]
\* <<ok, w>>
FlushPend(rs, w) ==
  IF w.pend.b = <<>> THEN <<TRUE, [w EXCEPT !.pend = NoPend]>>
  ELSE LET r == CW!Consume(rs, w.ri, w.off, w.pend.seg, w.pend.g, w.pend.a, w.pend.b)
       IN <<r[1], [w EXCEPT !.ri = r[2], !.off = r[3], !.pend = NoPend]>>
StreamChunk(rs, w, c) ==
  IF ~w.on \/ ~On("LastPassImageEqualsFile") THEN <<TRUE, w>>
  ELSE CASE c.k = "E" -> LET f == FlushPend(rs, w)
                         IN <<f[1], [f[2] EXCEPT !.pend = [seg |-> c.seg, g |-> c.g, a |-> c.addr * c.g, b |-> c.b]]>>
         [] c.k = "X" -> IF c.nb <= Len(w.pend.b)          \* a retraction never reaches into an older chunk
                         THEN <<TRUE, [w EXCEPT !.pend.b = SubSeq(@, 1, Len(@) - c.nb)]>>
                         ELSE <<FALSE, w>>
         [] OTHER     -> <<TRUE, w>>
\* end of the last pass: nothing in the file that was not emitted
StreamDone(rs, w) ==
  ~w.on \/ ~On("LastPassImageEqualsFile")
  \/ LET f == FlushPend(rs, w) IN f[1] /\ CW!Norm(rs, f[2].ri, f[2].off)[1] > Len(rs)

RECURSIVE Chunks(_, _, _, _, _)
\* <<ok, b, w>>: every chunk at the load address the bookkeeping implies, and (last pass) next in the file
Chunks(rs, bb, w, cs, i) ==
  IF i > Len(cs) THEN <<TRUE, bb, w>>
  ELSE LET c == cs[i]
           s == StreamChunk(rs, w, c)
       IN IF ~s[1] THEN <<FALSE, bb, w>>
          ELSE IF c.k = "X" THEN Chunks(rs, AB!Retract(bb, c.n), s[2], cs, i + 1)
          ELSE IF c.seg = bb.act /\ c.addr = AB!Load(bb)
               THEN Chunks(rs, AB!MarkUsed(AB!Advance(bb, c.n)), s[2], cs, i + 1)
               ELSE <<FALSE, bb, w>>

PostOK(bb, e) ==
  /\ bb.act = e.seg /\ AB!Load(bb) = e.pc /\ bb.ph[bb.act] = e.ph
  /\ (e.seg # StructSeg => Len(bb.phStk[bb.act]) = e.phd)
  /\ Len(bb.saveStk) = e.svd /\ Len(bb.stStk) = e.std

\* candidates for the state right after the pseudo-op handler ran (before WriteCode); `quiet` = the line raised
\* no error: then the handler did its work (FailedHandlerNeedsError)
Untouched(ab, quiet) == IF quiet /\ On("FailedHandlerNeedsError") THEN {} ELSE {ab}
\* SaveIsOccupied / RestoreIsOccupied (asmdef.c): on a target that has a machine instruction of that name (NS32K: SAVE
\* and RESTORE with operands) the statement goes to the code generator - it is then an ordinary statement that emits
NameOccupied(ab, e) == IF e.len > 0 THEN {ab} ELSE {}
AfterHandler(ab, e, quiet) ==
  CASE e.cb = "ORG"      -> {AB!Org(ab, e.pc + e.ph)}
    [] e.cb = "RORG"     -> {AB!Rorg(ab, e.pc - AB!Load(ab))}
    [] e.cb = "SEGMENT"  -> {AB!Segment(ab, e.seg, e.pc)} \cup Untouched(ab, quiet)
    [] e.cb = "CPU"      -> {AB!Segment(ab, e.seg, e.pc)}
    [] e.cb = "PHASE"    -> {AB!Phase(ab, e.pc + e.ph)} \cup Untouched(ab, quiet)
    [] e.cb = "DEPHASE"  -> {AB!Dephase(ab)} \cup Untouched(ab, quiet)
    [] e.cb = "SAVE"     -> {AB!Save(ab)} \cup Untouched(ab, quiet) \cup NameOccupied(ab, e)
    [] e.cb = "RESTORE"  -> (IF AB!CanRestore(ab) THEN {AB!Restore(ab)} ELSE {}) \cup Untouched(ab, quiet)
                            \cup NameOccupied(ab, e)
    [] e.cb = "STRUCT"   -> {AB!BeginStruct(ab, FALSE)} \cup Untouched(ab, quiet)
    [] e.cb = "UNION"    -> {AB!BeginStruct(ab, TRUE)} \cup Untouched(ab, quiet)
    [] e.cb = "ENDSTRUCT" -> (IF ab.stStk # <<>> THEN {AB!EndStruct(ab)} ELSE {}) \cup Untouched(ab, quiet)
    [] OTHER             -> {ab}
BodyAdvance(bb, e) ==
  IF AB!InStruct(bb) /\ e.cb \notin {"ENDSTRUCT", "STRUCT", "UNION"} THEN AB!Advance(bb, e.len) ELSE bb

Reset(e) == [AB!InitB(e.seg) EXCEPT !.pc[e.seg] = e.pc, !.used = [s \in AB!AllSegs |-> FALSE]]

-----------------------------------------------------------------------------
(* 4. MP: the macro processor, projected                                   *)
\* input tag  [kind, mac, ifl, s, n, z, raw, known, emp, gs, lh]   (TInputTag: Processor, IsMacro, IfLevel, Lines as the
\*            range s..s+n-1 of recorded statements, LineZ, "lines are delivered verbatim", "body known", IsEmpty,
\*            GlobalSymbols, the local symbol handle the tag has pushed: -1 = none)
\* output tag [kind, nest, s, n, ifl, name, gs]            (TOutputTag: Processor, NestLevel, recorded range, options)
\* mp = [tags, outs, macros, pass, lc];  macros: name -> [s, n, gs];  lc = LocHandleCnt
FileTag(ifl) == [kind |-> "FILE", mac |-> FALSE, ifl |-> ifl, s |-> 0, n |-> 0, z |-> 1, raw |-> FALSE,
                 known |-> FALSE, emp |-> FALSE, gs |-> TRUE, lh |-> -1]
InitMP == [tags |-> <<>>, outs |-> <<>>, macros |-> <<>>, pass |-> 0, lc |-> 0]
\* AssembleFile_InitPass + ProcessFile: chains empty, the main file is the only input tag; macros of pass 1 stay
StartPass(mp, pass) == [mp EXCEPT !.tags = <<FileTag(0)>>, !.outs = <<>>, !.pass = pass, !.lc = 0]

RECURSIVE PopEmpty(_)
PopEmpty(tags) == IF tags # <<>> /\ Head(tags).emp THEN PopEmpty(Tail(tags)) ELSE tags
SetTop(tags, t) == <<t>> \o Tail(tags)
LoopKinds == {"IRP", "IRPN", "IRPC", "REPT"}

\* MACRO_/IRP_/IRPC_/REPT_/WHILE_Processor, "before the first line, start a new local symbol space": a tag without
\* GlobalSymbols gets the next handle (GetLocHandle() = LocHandleCnt++) when its line 1 is delivered - a loop at line 1
\* of every iteration (the handle of the iteration before is dropped), WHILE before it evaluates its condition.  The
\* Restorer drops the handle with the tag.
OpensSpace(t) == t.kind # "FILE" /\ t.known /\ ~t.gs /\ t.z = 1
Opened(t, lc) == IF OpensSpace(t) THEN [t EXCEPT !.lh = lc] ELSE t
\* MomLocHandle and the chain FindLocNode walks: the handles of the open tags, innermost first
RECURSIVE LocChain(_)
LocChain(tags) == IF tags = <<>> THEN <<>>
                  ELSE (IF Head(tags).lh >= 0 THEN <<Head(tags).lh>> ELSE <<>>) \o LocChain(Tail(tags))
MomLoc(tags) == LET c == LocChain(tags) IN IF c = <<>> THEN -1 ELSE c[1]

\* GetNextLine for one delivered line ln = [nl, tx, dp, em]; Tx(i) = text of the statement recorded at position i.
\* tl = [tags, lc].  Returns the set (empty or singleton) of [tags, lc] after the call.
DeliveredAsRecorded(Tx(_), t, ln) ==
  Claim("DeliveredAsRecorded", (t.raw /\ t.known) => ln.tx = Tx(t.s + t.z - 1))
NextLine(Tx(_), tl, ln) ==
  LET tags == PopEmpty(tl.tags)
      R(ts, c) == [tags |-> ts, lc |-> c]
  IN IF ln.nl THEN (IF tags = <<>> THEN {R(tags, tl.lc)} ELSE {})    \* the hook is behind the early return
     ELSE IF tags = <<>> \/ ~Claim("TagDepthIsMachineDepth", ln.dp = Len(tags)) THEN {}
     ELSE LET t0 == Head(tags)
              t  == Opened(t0, tl.lc)
              lc == IF OpensSpace(t0) THEN tl.lc + 1 ELSE tl.lc
          IN
          CASE t.kind = "FILE" \/ ~t.known -> {R(SetTop(tags, [t EXCEPT !.emp = ln.em]), lc)}   \* text and end: input
            [] t.kind = "MACRO" ->                                  \* MACRO_Processor: exhausted with the last line
                 IF t.z <= t.n /\ ln.em = (t.z + 1 > t.n) /\ DeliveredAsRecorded(Tx, t, ln)
                 THEN {R(SetTop(tags, [t EXCEPT !.z = @ + 1, !.emp = ln.em]), lc)} ELSE {}
            [] t.kind \in LoopKinds ->                              \* IRP_/IRPC_/REPT_Processor: the count ends
                 IF t.z <= t.n /\ (ln.em => t.z = t.n) /\ DeliveredAsRecorded(Tx, t, ln)     \* only with the body
                 THEN {R(SetTop(tags, [t EXCEPT !.z = IF t.z = t.n THEN 1 ELSE @ + 1, !.emp = ln.em]), lc)} ELSE {}
            [] OTHER ->                                             \* WHILE_Processor: condition before line 1
                 IF t.z = 1 /\ ln.em THEN (IF ln.tx = 0 THEN {R(SetTop(tags, [t EXCEPT !.emp = TRUE]), lc)} ELSE {})
                 ELSE IF ~ln.em /\ t.z <= t.n /\ DeliveredAsRecorded(Tx, t, ln)
                      THEN {R(SetTop(tags, [t EXCEPT !.z = IF t.z = t.n THEN 1 ELSE @ + 1]), lc)} ELSE {}
RECURSIVE Deliver(_, _, _, _)
Deliver(Tx(_), tl, lns, i) ==
  IF i > Len(lns) THEN {tl}
  ELSE UNION {Deliver(Tx, t2, lns, i + 1) : t2 \in NextLine(Tx, tl, lns[i])}

\* Produce_Code, statements of the macro processor.  pos = position of this statement in the record of statements,
\* ifpre = IfAsm before the statement, ifl = depth of the IF stack (SaveIFs), quiet = no error on this line
WaitOut == [kind |-> "WAIT", nest |-> 0, s |-> 0, n |-> 0, ifl |-> 0, name |-> "", gs |-> FALSE]
NewOut(kind, pos, ifl, name, gs) ==
  [kind |-> kind, nest |-> 0, s |-> pos + 1, n |-> 0, ifl |-> ifl, name |-> name, gs |-> gs]
PushOut(mp, o) == [mp EXCEPT !.outs = <<o>> \o @]
PushTag(mp, t) == [mp EXCEPT !.tags = <<t>> \o @]
BodyTag(kind, o) == [kind |-> kind, mac |-> TRUE, ifl |-> o.ifl, s |-> o.s, n |-> o.n, z |-> 1,
                     raw |-> kind \in {"REPT", "WHILE"}, known |-> TRUE, emp |-> o.n = 0, gs |-> o.gs, lh |-> -1]
MacroTag(mp, name, ifl) ==
  IF name \in DOMAIN mp.macros
  THEN [kind |-> "MACRO", mac |-> TRUE, ifl |-> ifl, s |-> mp.macros[name].s, n |-> mp.macros[name].n, z |-> 1,
        raw |-> FALSE, known |-> TRUE, emp |-> mp.macros[name].n = 0, gs |-> mp.macros[name].gs, lh |-> -1]
  ELSE [kind |-> "MACRO", mac |-> TRUE, ifl |-> ifl, s |-> 0, n |-> 0, z |-> 1, raw |-> FALSE, known |-> FALSE,
        emp |-> FALSE, gs |-> TRUE, lh |-> -1]  \* a macro the specification has not seen defined: opaque
DefMacro(mp, name, o) ==
  [mp EXCEPT !.macros = [x \in DOMAIN mp.macros \cup {name} |->
                           IF x = name THEN [s |-> o.s, n |-> o.n, gs |-> o.gs] ELSE mp.macros[x]]]
Rejected(mp, quiet) == IF quiet /\ On("RejectedHeaderNeedsError") THEN {} ELSE {PushOut(mp, WaitOut)}

Produce(mp, e, pos, ifpre, ifl, quiet) ==
  IF mp.outs # <<>>
  THEN LET o    == Head(mp.outs)
           nn   == MP!NestAfter(o, e.op)
           rest == [mp EXCEPT !.outs = Tail(@)]
       IN IF nn > -1
          THEN {[mp EXCEPT !.outs = <<[o EXCEPT !.nest = nn, !.n = IF o.kind = "WAIT" THEN 0 ELSE @ + 1]>> \o Tail(@)]}
          ELSE CASE o.kind = "WAIT"  -> {rest}
                 [] o.kind = "MACRO" -> IF ifpre THEN {DefMacro(rest, o.name, o)} ELSE {rest}
                 [] OTHER            -> \* REPT count, WHILE condition, IRP list: not in the record - the chain decides
                                        IF ifpre THEN {rest, PushTag(rest, BodyTag(o.kind, o))} ELSE {rest}
  ELSE CASE e.mc \in LoopKinds \cup {"WHILE"} ->
              IF ~ifpre THEN {PushOut(mp, WaitOut)}
              ELSE {PushOut(mp, NewOut(e.mc, pos, ifl, "", e.gsym))} \cup Rejected(mp, quiet)
         [] e.mc = "MACRO" ->
              IF mp.pass # 1 THEN {PushOut(mp, WaitOut)}             \* definitions are only taken in pass 1
              ELSE {PushOut(mp, NewOut("MACRO", pos, ifl, e.nm, e.gsym))} \cup Rejected(mp, quiet)
         [] e.mc = "EXITM" ->
              IF e.argc = 0 /\ mp.tags # <<>> /\ Head(mp.tags).mac /\ ifpre
              THEN {[mp EXCEPT !.tags = SetTop(@, [Head(@) EXCEPT !.emp = TRUE])]} ELSE {mp}
         [] e.mc = "INCLUDE" ->
              IF ifpre THEN {PushTag(mp, FileTag(ifl))} \cup (IF quiet THEN {} ELSE {mp}) ELSE {mp}
         [] e.mc = "OTHER" /\ e.wm ->                              \* FoundMacro(): a macro call
              IF ifpre THEN {PushTag(mp, MacroTag(mp, e.op, ifl))} \cup (IF quiet THEN {} ELSE {mp}) ELSE {mp}
         [] OTHER -> {mp}

-----------------------------------------------------------------------------
(* 4b. SY: the symbol table                                                *)
\* sy = a state of Symbols.tla (InitS): tab, loc, sects, mom, stk, stacks, pass ...; en = [cur, kc, inc, ki]: ENUM's
\* counter and increment with "value known to the specification" marks (an explicit value beyond 2^30, an ENUMCONF
\* argument that is not a literal and a failed ENUM make them unknown: nothing is claimed until they are set again).
\* A record of e.sy (sym_def / sym_mod / sym_ref of the statement, in order):
\*   [k "def"|"mod"|"ref", name, sect, t (TempType: 1 = integer), v, x, chg, out]
InitSY == SY!InitS(TRUE, {})              \* names arrive case-folded (tokeniser): Fold is the identity
InitEN == [cur |-> 0, kc |-> TRUE, inc |-> 1, ki |-> TRUE]
Quiesce(sy) == [sy EXCEPT !.errs = 0, !.ekinds = {}, !.obs = <<>>, !.repass = FALSE, !.warns = 0]
\* AssembleFile_InitPass: ResetSymbolDefines, the section stack, the PUSHV stacks, ENUM's state
SyStartPass(sy, pass) == Quiesce([SY!NextPass(sy) EXCEPT !.pass = pass])

Val(o) == <<o.t, o.v, o.x>>
\* an entry patched by ChangeSymbol (LabelModify: XA, padding) keeps the entered value for the comparison in
\* SymbolAdder (EnteredInt) and shows the patched one to references
Cur(en) == IF "cur" \in DOMAIN en THEN en.cur ELSE en.val
PathHandles(sy) == {sy.mom, SY!GLOB} \cup {sy.stk[k].h : k \in 1..Len(sy.stk)}
InChain(h, ch) == \E k \in 1..Len(ch) : ch[k] = h
Defs(rs) == SelectSeq(rs, LAMBDA o : o.k = "def")
Writes(rs) == SelectSeq(rs, LAMBDA o : o.k # "ref")

SameObs(m, o) == m.name = o.name /\ m.sect = o.sect /\ m.val = Val(o) /\ m.chg = o.chg /\ m.out = o.out
\* ConstantIsStable, declaratively ("EQU defines constants which can not be modified again"): what a definition
\* leaves of an entry that was a constant defined in this pass is that entry.  Evaluated at the keys the records
\* name (SymbolAdder touches no other entry; the bounded model AsCore_MC checks the same over the whole table as
\* the invariant ConstantsKeepTheirValue).
Stable(f, g, k) == (k \in DOMAIN f /\ f[k].def /\ ~f[k].chg) => g[k] = f[k]
ConstantIsStable(sy, n, rs, i, used) ==
  Claim("ConstantIsStable", \A j \in i..(i + used - 1) :
                              LET k == <<rs[j].name, rs[j].sect>> IN Stable(sy.tab, n.tab, k) /\ Stable(sy.loc, n.loc, k))

\* the record at i (and, for a GLOBAL export, the one behind it) is what EnterSymbol does: <<ok, sy, records used>>
DefGlobal(sy0, rs, i, c) ==
  LET o  == rs[i]
      n1 == SY!EnterSymbol(sy0, o.name, Val(o), o.chg, SY!NOSECT)
      p  == rs[i + 1]
      n2 == SY!EnterSymbol(sy0, p.name, Val(p), p.chg, SY!NOSECT)
      n3 == SY!EnterSymbol(sy0, o.name, Val(o), o.chg, o.sect)
  IN IF Len(n1.obs) = 1 /\ SameObs(n1.obs[1], o) THEN <<TRUE, n1, 1>>
     ELSE IF i < Len(rs) /\ rs[i + 1].k = "def" /\ Len(n2.obs) = 2 /\ SameObs(n2.obs[1], o) /\ SameObs(n2.obs[2], p)
          THEN <<TRUE, n2, 2>>                               \* GLOBAL: the copy SECTION_NAME first, then the symbol
     ELSE IF c.q /\ o.sect \in PathHandles(sy0) /\ Len(n3.obs) = 1 /\ SameObs(n3.obs[1], o)
          THEN <<TRUE, n3, 1>>                               \* name[section]: GetSymSection / IdentifySection
     ELSE <<FALSE, sy0, 1>>
DefLocal(sy0, o, c) ==
  LET n == SY!Adder(sy0, "loc", <<o.name, c.ml>>, Val(o), FALSE)
  IN <<~o.chg /\ Len(n.obs) = 1 /\ SameObs(n.obs[1], o), n>>
\* SymbolTableFollowsAdder switched off (diagnosis): the table takes the record as it is
RawDef(sy, o, c) ==
  LET key == <<o.name, o.sect>>
      ne  == [val |-> Val(o), chg |-> o.chg, def |-> TRUE]
      put(f) == IF key \in DOMAIN f THEN [f EXCEPT ![key] = ne] ELSE f @@ (key :> ne)
  IN IF o.out \in {"double", "mix"} THEN sy
     ELSE IF c.ml # -1 /\ o.sect = c.ml /\ ~o.chg /\ ~c.gl THEN [sy EXCEPT !.loc = put(@)] ELSE [sy EXCEPT !.tab = put(@)]

\* EnterIntSymbolWithFlags & co: (MomLocHandle == -1) || (DestHandle != -2) || MayChange -> EnterSymbol, else
\* EnterLocSymbol.  c = [ml (MomLocHandle), ch (chain of handles), q (a "[" on the line), gl (the handler wraps its
\* definition in PushLocHandle(-1): EQU, =, SET, :=, EVAL, LABEL), lab, lbn, lvals, vchk, struct, prs]
\* islab: this is the definition LabelHandle makes.  <<ok, sy, records used>>
DefEntry(sy, rs, i, c, islab) ==
  LET o    == rs[i]
      sy0  == [sy EXCEPT !.obs = <<>>]
      loc1 == DefLocal(sy0, o, c)
      glb  == DefGlobal(sy0, rs, i, c)
      r    == IF islab /\ c.ml # -1 /\ ~c.q THEN <<loc1[1], loc1[2], 1>>              \* labels of an expansion are local
              ELSE IF c.ml # -1 /\ o.sect = c.ml /\ ~o.chg /\ ~c.q /\ (islab \/ ~c.gl) /\ loc1[1] THEN <<TRUE, loc1[2], 1>>
              ELSE glb
  IN IF ~On("SymbolTableFollowsAdder") THEN <<TRUE, RawDef(sy, o, c), 1>>
     ELSE <<r[1] /\ ConstantIsStable(sy, r[2], rs, i, r[3]), r[2], r[3]>>

\* ChangeSymbol (LabelModify): the label just entered is moved; <<ok, sy>>
ModEntry(sy, o, c) ==
  LET key == <<o.name, o.sect>>
      patch(en) == [val |-> en.val, chg |-> en.chg, def |-> en.def, cur |-> Val(o)]
  IN IF InChain(o.sect, c.ch) /\ key \in DOMAIN sy.loc THEN <<sy.loc[key].def, [sy EXCEPT !.loc[key] = patch(@)]>>
     ELSE IF key \in DOMAIN sy.tab THEN <<sy.tab[key].def, [sy EXCEPT !.tab[key] = patch(@)]>>
     ELSE <<FALSE, sy>>

\* LookupSymbol found an entry: it is an entry of the table (FindLocNode: a handle of the chain; FindNode: any section
\* - the search path is C13's) and the record shows its value, kind and defined-mark
RefReadsTable(sy, o, c) ==
  Claim("RefReadsTable",
        \/ o.out = "unknown"
        \/ LET key == <<o.name, o.sect>>
               M(en) == Cur(en) = Val(o) /\ en.chg = o.chg /\ en.def = (o.out = "defined")
           IN \/ InChain(o.sect, c.ch) /\ key \in DOMAIN sy.loc /\ M(sy.loc[key])
              \/ key \in DOMAIN sy.tab /\ M(sy.tab[key]))

\* the label's definition (first definition of the line)
LabelOK(o, c) ==
  /\ Claim("LabelValueIsExec", (c.vchk /\ o.t = 1 /\ o.x = "" /\ ~o.chg) => o.v \in c.lvals)
  /\ Claim("LabelEntersTable", ~o.chg /\ ((c.lbn # "" /\ ~c.struct) => o.name = c.lbn))

RECURSIVE SymFold(_, _, _, _, _)
\* <<ok, sy, number of definitions>>
SymFold(sy, rs, i, c, nd) ==
  IF i > Len(rs) THEN <<TRUE, sy, nd>>
  ELSE LET o == rs[i] IN
       CASE o.k = "ref" -> IF RefReadsTable(sy, o, c) THEN SymFold(sy, rs, i + 1, c, nd) ELSE <<FALSE, sy, nd>>
         [] o.k = "mod" -> LET r == ModEntry(sy, o, c)
                           IN IF r[1] THEN SymFold(r[2], rs, i + 1, c, nd) ELSE <<FALSE, sy, nd>>
         [] OTHER       -> LET islab == c.lab /\ nd = 0
                               r     == DefEntry(sy, rs, i, c, islab)
                           IN IF r[1] /\ (islab => LabelOK(o, c)) THEN SymFold(r[2], rs, i + r[3], c, nd + r[3])
                              ELSE <<FALSE, sy, nd>>

\* AssembleFile_InitPass: InitPass() of the code generators enters their flags (HASFPU ...), THEN ResetSymbolDefines
\* clears the "defined in this pass" marks, THEN the predefined symbols are entered, TRUE (FlagTrueName) first, then
\* FALSE, CONSTPI ... MOMCPU, the -D symbols - all through SymbolAdder, recorded before pass_begin.  The hook does not
\* mark where the reset happened: it is in front of the first definition of TRUE (read off the code).
RECURSIVE PreFold(_, _, _)
\* (no section is open, no expansion: EnterSymbol is SymbolAdder on the global tree at the global level)
PreFold(sy, rs, i) ==
  IF i > Len(rs) THEN <<TRUE, sy>>
  ELSE LET o == rs[i]
           n == SY!Adder([sy EXCEPT !.obs = <<>>], "tab", <<o.name, SY!GLOB>>, Val(o), o.chg)
       IN IF ~On("SymbolTableFollowsAdder") THEN PreFold(RawDef(sy, o, [ml |-> -1, gl |-> TRUE]), rs, i + 1)
          ELSE IF o.k = "def" /\ SameObs(n.obs[1], o) THEN PreFold(n, rs, i + 1) ELSE <<FALSE, sy>>
ResetAt(rs) == LET T == {i \in 1..Len(rs) : rs[i].name = "TRUE"}
               IN IF T = {} THEN 0 ELSE (CHOOSE i \in T : \A j \in T : i <= j) - 1
Predefine(sy, pass, rs) ==
  LET k == ResetAt(rs)
      a == PreFold(sy, SubSeq(rs, 1, k), 1)
      b == PreFold(SyStartPass(a[2], pass), SubSeq(rs, k + 1, Len(rs)), 1)
  IN <<a[1] /\ b[1], b[2]>>

\* ---- statements of the symbol table ---------------------------------------------------------------------------
KindNum(k) == CASE k = "DoubleSection" -> 1483 [] k = "InvSection" -> 1484 [] k = "WrongEndSect" -> 1486
                [] k = "NotInSection" -> 1487 [] k = "UndefdForward" -> 1488 [] k = "ContForward" -> 1489
                [] k = "SymbolUndef" -> 1010 [] k = "StackEmpty" -> 1530 [] k = "PopVConstant" -> 2030 [] OTHER -> 0
Reported(n, gs) == \A k \in n.ekinds : KindNum(k) = 0 \/ HasDiag(gs, KindNum(k))

RECURSIVE PPFold(_, _, _, _)
PPFold(sy, kind, as, k) ==
  IF k > Len(as) THEN sy ELSE PPFold(SY!DoPP(sy, kind, SY!N(as[k].n), as[k].q), kind, as, k + 1)
RECURSIVE StackFold(_, _, _, _, _)
StackFold(sy, pop, st, as, k) ==
  IF k > Len(as) THEN sy
  ELSE StackFold(IF pop THEN SY!DoPopV(sy, st, SY!N(as[k].n), as[k].q) ELSE SY!DoPushV(sy, st, SY!N(as[k].n), as[k].q),
                 pop, st, as, k + 1)

\* ENUM / NEXTENUM: hd = the definitions the handler made, flags[k] = argument k is name=value; <<ok, en>>
RECURSIVE EnumWalk(_, _, _, _, _, _)
EnumWalk(en, cur, kc, flags, hd, k) ==
  IF k > Len(hd) THEN <<TRUE, [en EXCEPT !.cur = cur, !.kc = kc /\ Len(hd) = Len(flags)]>>
  ELSE LET o     == hd[k]
           small == o.t = 1 /\ o.x = ""
       IN IF ~o.chg /\ o.t = 1 /\ ((~flags[k] /\ kc /\ small) => o.v = cur)
          THEN EnumWalk(en, IF small /\ en.ki THEN o.v + en.inc ELSE 0, small /\ en.ki, flags, hd, k + 1)
          ELSE <<FALSE, en>>
EnumAssignsSequentialValues(en, e, hd, quiet) ==
  LET w == EnumWalk(en, IF e.sc = "ENUM" THEN 0 ELSE en.cur, e.sc = "ENUM" \/ en.kc, e.sa, hd, 1)
  IN IF ~On("EnumAssignsSequentialValues") THEN <<TRUE, [en EXCEPT !.kc = FALSE]>>
     ELSE <<Len(hd) <= Len(e.sa) /\ (quiet => Len(hd) = Len(e.sa)) /\ w[1], w[2]>>

\* the handler of the statement, after the label: the set of <<sy, en>> the specification allows
Handled(n, sy, e, quiet) ==              \* a machine step: its errors are reported, and it complains if it fails
  IF On("SectionStackFollowsManual")
  THEN {x \in {n} \cup (IF quiet THEN {} ELSE {sy}) : Reported(x, e.dg) /\ (x.errs > 0 => ~quiet)}
  ELSE {n, sy}
SyHandler(sy, en, e, hd, quiet) ==
  CASE e.sc = "SECTION"    -> {<<x, en>> : x \in Handled(SY!DoSection(sy, e.sa[1]), sy, e, quiet)}
    [] e.sc = "ENDSECTION" -> {<<x, en>> : x \in Handled(SY!DoEndSection(sy, e.sa[1]), sy, e, quiet)}
    [] e.sc \in {"PUBLIC", "GLOBAL", "FORWARD"} -> {<<x, en>> : x \in Handled(PPFold(sy, e.sc, e.sa, 1), sy, e, quiet)}
    [] e.sc \in {"PUSHV", "POPV"} ->
         IF ~On("StackIsLifo") THEN {<<sy, en>>}
         ELSE {<<x, en>> : x \in Handled(StackFold(sy, e.sc = "POPV", e.sa[1], e.sa[2], 1), sy, e, quiet)}
    [] e.sc \in {"ENUM", "NEXTENUM"} ->
         LET w == EnumAssignsSequentialValues(en, e, hd, quiet) IN IF w[1] THEN {<<sy, w[2]>>} ELSE {}
    [] e.sc = "ENUMCONF" ->
         {<<sy, IF quiet /\ e.sa # <<>> THEN [en EXCEPT !.inc = e.sa[1], !.ki = TRUE] ELSE [en EXCEPT !.ki = FALSE]>>}
    [] OTHER -> {<<sy, en>>}

\* "SET, :=, EVAL define variables, EQU, = constants; a definition with ENUM is equal to a definition with EQU"
DefKindMatchesStatement(sc, hd) ==
  Claim("DefKindMatchesStatement",
        /\ sc = "EQU" => \A k \in 1..Len(hd) : ~hd[k].chg
        /\ sc = "SET" => \A k \in 1..Len(hd) : hd[k].chg)
\* outcome double <=> "symbol double defined"; mix <=> "constant redefined as variable" or the reverse
RedefinitionIsReported(e, sc) ==
  LET ds == Defs(e.sy) IN
  Claim("RedefinitionIsReported",
        /\ (\E k \in 1..Len(ds) : ds[k].out = "double") => HasDiag(e.dg, 1000)
        /\ (\E k \in 1..Len(ds) : ds[k].out = "mix") => (HasDiag(e.dg, 2030) \/ HasDiag(e.dg, 2035))
        /\ (sc \in {"EQU", "SET"} /\ HasDiag(e.dg, 1000)) => \E k \in 1..Len(ds) : ds[k].out = "double")
ErrorDefinesNothing(e, sc, sy, nsy) ==
  Claim("ErrorDefinesNothing", (sc \in {"EQU", "SET"} /\ HasErr(e.dg)) => (nsy.tab = sy.tab /\ nsy.loc = sy.loc))

-----------------------------------------------------------------------------
(* 5. cross-machine claims                                                 *)
NoCode(e) == \A i \in 1..Len(e.ch) : e.ch[i].n = 0
Inert(e, ab, nab) == e.ch = <<>> /\ nab = ab
\* (statements of the macro processor - WasMACRO - are looked at even in a skipped branch: EXITM / SHIFT outside a
\*  macro and malformed loop headers complain there too; everything else is not even decoded)
Skipped(e, ca) == ~ca.ifasm /\ ~e.ifasm /\ e.ca = "OTHER" /\ ~e.rec
SkippedIsInert(e, ca, ab, nab) ==
  Claim("SkippedIsInert", Skipped(e, ca) => (Inert(e, ab, nab) /\ (e.wm \/ e.dg = <<>>)))
\* ... and it defines nothing and modifies nothing: the symbol table, the section stack, the PUSHV stacks and ENUM's
\* counter after the statement are those before it.  (OpFieldExpandedAnyway: Produce_Code expands a {symbol} in the
\* opcode field before it looks at IfAsm or at the recording processor - a lookup may be recorded, it has no effect.)
SkippedIsInertSy(e, ca, sy, nsy, en, nen) ==
  Claim("SkippedIsInert", Skipped(e, ca) => (Writes(e.sy) = <<>> /\ nsy = sy /\ nen = en))
\* (e.rec alone: the header that starts a recording moves nothing either; a line stored INTO a body - recording
\*  before and after - is not looked at at all: no diagnostic, no definition; the line that closes a body is the
\*  processor's: no definition)
RecordedIsInert(e, ca, nca, ab, nab, recpre) ==
  Claim("RecordedIsInert", /\ e.rec => (Inert(e, ab, nab) /\ nca.ifasm = ca.ifasm /\ nca.stk = ca.stk)
                           /\ (recpre /\ e.rec) => (e.dg = <<>> /\ Writes(e.sy) = <<>>))
RecordedIsInertSy(e, recpre, sy, nsy, en, nen) ==
  Claim("RecordedIsInert", recpre => (Writes(e.sy) = <<>> /\ nsy = sy /\ nen = en))
IfFamilyIsAddressNeutral(e, ab, nab) ==
  Claim("IfFamilyIsAddressNeutral",
        (e.ca \notin {"OTHER", "EXITM"}) => (NoCode(e) /\ nab.pc = ab.pc /\ nab.ph = ab.ph /\ nab.act = ab.act))

\* "where definite": the line was assembled (not skipped, not recorded), it is not one of the statements whose
\* machine says otherwise (ErrorLineMayEmit: none known), and the error belongs to the statement itself - not to its
\* label: LabelHandle runs before the statement is decoded, and a label that is refused (double definition, constant /
\* variable mixed) does not stop the instruction behind it (LabelErrorStillEmits)
OwnErr(gs, labfailed) == \E i \in 1..Len(gs) : gs[i].num >= 1000 /\ ~(labfailed /\ gs[i].num \in {1000, 2030, 2035})
ErrorLineEmitsNoCode(e, ifpre, recpre, labfailed) ==
  Claim("ErrorLineEmitsNoCode", (OwnErr(e.dg, labfailed) /\ ifpre /\ ~recpre) => NoCode(e))

\* Statements that take the label field as their operand (asmlabel.c LabelPresent() + IsDef() of the targets):
\* for them the first definition of the line is not a label.
LabelConsumers == {"=", ":=", "MACRO", "FUNCTION", "LABEL", "SET", "STRUCT", "STRUC", "EQU", "ENDSTRUCT", "ENDS",
                   "ENDSTRUC", "ENDUNION", "EVAL", "UNION", "REG", "BIT", "SFR", "PORT", "DEFBIT", "YSFR", "XSFR",
                   "SFRB", "RIV", "LIV", "DEFBITFIELD", "DEFBITB", "DBIT", "SFRBIT"}
\* the handlers that wrap their definition in PushLocHandle(-1): global also inside a macro body
GlobalDefOps == {"EQU", "=", "SET", ":=", "EVAL", "LABEL"}
\* LabelSetByTarget: IsDef_XA() claims every label in the CODE segment (codexa.c places it behind the alignment
\* padding itself); header id 3Ch = Philips XA
LabelSetByTarget(e, ab) == e.cpu = 60 /\ ab.act = 1
\* Inside STRUCT/UNION bodies the label is an element of the innermost named structure (asmstructs.c
\* AddStructSymbol): its value is the offset in the body plus the offsets at which the enclosing open structures
\* started (stStk[i].savePC of all but the outermost entry, which holds the counter of the interrupted segment);
\* with no named structure open it is an ordinary label.
RECURSIVE SumSave(_, _)
SumSave(stk, i) == IF i >= Len(stk) THEN 0 ELSE stk[i].savePC + SumSave(stk, i + 1)
LabelValues(ab) == {AB!Exec(ab)} \cup (IF AB!InStruct(ab) THEN {AB!Exec(ab) + SumSave(ab.stStk, 1)} ELSE {})
\* Produce_Code: "if ((IfAsm) && ((!IsMacro) || (!OneMacro->LocIntLabel))) if (LabelPresent()) LabelHandle(...)" -
\* before the statement is decoded, never while a body is being recorded.  LabelValueIsExec and LabelEntersTable are
\* evaluated on the first definition of such a line (LabelOK); it has to be there unless the line complained
\* (invalid name ...) or is a macro call (INTLABEL hands the label to the macro).
\* SetIsOccupied (asmdef.c): on a target that has a machine instruction SET (Z80, TLCS-90/900 ...: SET bit,operand) the
\* statement goes to the code generator when it looks like one - it emits then, and its label field is a label
SetIsInstruction(e) == e.op = "SET" /\ e.len > 0
LabelExpected(e, ab, ifpre, recpre) ==
  e.lab /\ ifpre /\ ~recpre /\ (e.op \notin LabelConsumers \/ SetIsInstruction(e)) /\ ~LabelSetByTarget(e, ab)
ScOf(e) == IF SetIsInstruction(e) THEN "OTHER" ELSE e.sc

\* The symbol table of the listing (-L, printed after the last pass) shows the global tree as the specification holds it
\* at the end of the last pass: every integer symbol with its section and value, and nothing of that kind besides.
\* lst = the tokenised table [n, s (section name, "" = global), v] (integers below 2^30 only)
FinalTableIsListed(sy, e) ==
  LET Listed == {<<e.lst[i].n, e.lst[i].s, e.lst[i].v>> : i \in 1..Len(e.lst)}
      Shown  == {k \in DOMAIN sy.tab : Cur(sy.tab[k])[1] = 1 /\ Cur(sy.tab[k])[3] = ""}
      Table  == {<<k[1], SY!SectName(sy, k[2]), Cur(sy.tab[k])[2]>> : k \in Shown}
  IN Claim("FinalTableIsListed", e.haslst => Listed = Table)

OpenConstructsAreReported(ca, ab, sy, gs) ==
  Claim("OpenConstructsAreReported",
        /\ (ca.stk # <<>>) = HasDiag(gs, DG!NumMissEndif)
        /\ (ab.saveStk # <<>>) = HasDiag(gs, DG!NumNoRestoreFrame)
        /\ (ab.stStk # <<>>) = HasDiag(gs, DG!NumOpenStruct)
        /\ (sy.stk # <<>>) = HasDiag(gs, 1485)                       \* ErrNum_MissingEndSect
        /\ (DOMAIN sy.stacks # {}) = HasDiag(gs, 230))               \* ErrNum_StackNotEmpty (ClearStacks, a warning)
\* SY in the composed step: the records of the line against the table, then the handler of the statement.  The set
\* of <<sy, en>> the specification allows after the statement.  (Top level, few parameters: TLC looks names up in a
\* chain.)  A line without symbol records and without a handler of the symbol table leaves both as they are.
SySlow(s, e, tags, labexp, quiet, recpre) ==
  LET c   == [ml |-> MomLoc(tags), ch |-> LocChain(tags), q |-> e.q,
              gl |-> e.op \in GlobalDefOps /\ ~SetIsInstruction(e),
              lab |-> labexp, lbn |-> e.lbn, lvals |-> LabelValues(s.ab),
              vchk |-> quiet, struct |-> AB!InStruct(s.ab),
              prs |-> quiet /\ e.lbn # "" /\ ~(e.wm /\ e.mc = "OTHER")]
      p   == SymFold(s.sy, e.psy, 1, [c EXCEPT !.lab = FALSE], 0)        \* lookups made by GetNextLine (WHILE)
      f   == SymFold(p[2], e.sy, 1, c, 0)
      dfs == Defs(e.sy)
      hd  == IF c.lab /\ dfs # <<>> THEN Tail(dfs) ELSE dfs
  IN IF ~p[1] \/ ~f[1] \/ ~Claim("LabelEntersTable", (c.lab /\ c.prs) => f[3] >= 1) THEN {}
     ELSE {y \in {<<Quiesce(x[1]), x[2]>> : x \in SyHandler(f[2], s.en, e, hd, quiet)} :
             /\ Claim("SectionStackFollowsManual", Len(y[1].stk) = e.sed)
             /\ DefKindMatchesStatement(ScOf(e), hd)
             /\ RedefinitionIsReported(e, ScOf(e))
             /\ ErrorDefinesNothing(e, ScOf(e), s.sy, y[1])
             /\ SkippedIsInertSy(e, s.ca, s.sy, y[1], s.en, y[2])
             /\ RecordedIsInertSy(e, recpre, s.sy, y[1], s.en, y[2])}
SySucc(s, e, tags, labexp, quiet, recpre) ==
  IF e.sy = <<>> /\ e.psy = <<>> /\ e.sc = "OTHER"
  THEN (IF /\ Claim("LabelEntersTable", ~(labexp /\ quiet /\ e.lbn # "" /\ ~(e.wm /\ e.mc = "OTHER")))
           /\ Claim("SectionStackFollowsManual", Len(s.sy.stk) = e.sed) THEN {<<s.sy, s.en>>} ELSE {})
  ELSE SySlow(s, e, tags, labexp, quiet, recpre)

-----------------------------------------------------------------------------
(* 5b. AU: what the statement-level machines above do not hold.            *)
(* au = [fz      the EXPECT list is not known to the specification         *)
(*       fns     names defined by FUNCTION (kept until the file ends:      *)
(*               ClearFunctionList runs after the last pass)               *)
(*       rp      a cause for another pass was seen in this pass: a         *)
(*               constant re-entered with another value than in the pass   *)
(*               before (SymbolAdder, outcome "changed") or a lookup that  *)
(*               found nothing (LookupSymbol, outcome "unknown")           *)
(*       rg      a REG statement was executed in this pass (asmallg.c      *)
(*               CodeREG asks for another pass when its operand is not     *)
(*               known yet - without a lookup record)                      *)
(*       ended   an END statement was executed (ENDOccured)                *)
(*       entry   ... with a start address (StartAdrPresent)]               *)
InitAU == [fz |-> FALSE, fns |-> {}, rp |-> FALSE, rg |-> FALSE, ended |-> FALSE, entry |-> FALSE]
AuStartPass(au, pass) == IF pass = 1 THEN InitAU ELSE [InitAU EXCEPT !.fns = au.fns]

\* ---- IFDEF / IFNDEF read the table (asmif.c CodeIFDEF: IsSymbolDefined || FindFunction || FoundMacroByName) -----
\* e.ga = <<name as the table stores it, name in capitals>> for IFDEF / IFNDEF with ONE argument that is a plain name.
\* IsSymbolDefined: FindLocNode (the chain of local handles, innermost first), else FindNode (the current section and
\* the sections around it) - and the entry found has been defined IN THIS PASS (Defined is reset by
\* ResetSymbolDefines).  "yes" / "no" / "unknown": a name that is (also) a macro or a function - macros are looked
\* up per section, which the projection of the macro processor does not hold (gap: section scoping of macro names).
LocKey(sy, ch, name) ==
  LET C == {k \in 1..Len(ch) : <<name, ch[k]>> \in DOMAIN sy.loc}
  IN IF C = {} THEN <<>> ELSE <<name, ch[CHOOSE k \in C : \A j \in C : k <= j]>>
IfdefKnown(s, tags, ga) ==
  LET lk  == LocKey(s.sy, LocChain(tags), ga[1])
      gk  == SY!FindNode(s.sy, ga[1], SY!NoQ).key
      def == IF lk # <<>> THEN s.sy.loc[lk].def ELSE IF gk # SY!NoKey THEN s.sy.tab[gk].def ELSE FALSE
  IN IF def THEN "yes" ELSE IF ga[2] \in DOMAIN s.mp.macros \/ ga[1] \in s.au.fns \/ ga[2] \in s.au.fns THEN "unknown"
     ELSE "no"
\* c = the state of CondAsm the record selects
IfdefReadsTable(s, tags, e, c, ifpre, recpre) ==
  Claim("IfdefReadsTable",
        (e.gk \in {"IFDEF", "IFNDEF"} /\ e.ca = "IF" /\ ifpre /\ ~recpre /\ e.argc = 1 /\ e.ga # <<>>) =>
          LET k == IfdefKnown(s, tags, e.ga)
          IN k = "unknown" \/ c = CA!DoIf(s.ca, (k = "yes") = (e.gk = "IFDEF")))

\* ---- causes of another pass ----------------------------------------------------------------------------------
RepassCause(rs) == \E i \in 1..Len(rs) : \/ rs[i].k = "def" /\ ~rs[i].chg /\ rs[i].out = "changed"
                                         \/ rs[i].k = "ref" /\ rs[i].out = "unknown"
\* (AsCore_Trace, PASSEND) Repass is only ever set in a pass, never cleared: the pass loop sees it
PhaseErrorForcesRepass(au, e) ==
  /\ Claim("PhaseErrorForcesRepass", au.rp => e.repass = 1)
  /\ Claim("RepassHasCause", e.repass = 1 => (au.rp \/ au.rg))        \* (these are all the places that set Repass)

\* ---- named actions for statements that used to fall under the generic rule ------------------------------------
\* e.gk = "EMPTY"  no instruction on the line (blank, comment, label only)
\*        "LIST"   NEWPAGE / PAGE / TITLE / PRTINIT / PRTEXIT / PAGESIZE: controls of the listing
\*        "ALIGN"  ALIGN with a literal first argument e.ga[1] (asmallg.c CodeALIGN)
\*        "END"    an executed END statement
\* (all of them: selected, not recorded, not a macro call - the tokeniser says so, SkippedIsInert covers the rest)
RECURSIVE SumER(_, _)
SumER(cs, i) == IF i > Len(cs) THEN 0 ELSE (IF cs[i].k \in {"E", "R"} THEN cs[i].n ELSE 0) + SumER(cs, i + 1)
LastER(cs) == LET C == {i \in 1..Len(cs) : cs[i].k \in {"E", "R"}}
              IN IF C = {} THEN 0 ELSE cs[CHOOSE i \in C : \A j \in C : j <= i].n
\* CodeLen of the stmt record against the emit / reserve records: what WriteCode handed out is what the statement
\* produced (in address units: bytes / granularity) - all of it, or the last portion when the statement was padded
\* first (automatic alignment: the pad is a chunk of its own) or flushed in portions; inside a structure body nothing
\* is handed out and CodeLen moves the structure's counter (BodyAdvance)
CodeLenIsEmitted(e, ab) ==
  Claim("CodeLenIsEmitted",
        /\ (e.ch # <<>> /\ ~AB!InStruct(ab)) => e.len \in {SumER(e.ch, 1), LastER(e.ch)}
        /\ (e.ch = <<>> /\ e.len > 0) => (AB!InStruct(ab) \/ e.cb \in {"STRUCT", "UNION", "ENDSTRUCT"}))
EmptyLineIsInert(e, ab, nab) ==
  Claim("EmptyLineIsInert", e.gk = "EMPTY" => (e.ch = <<>> /\ e.len = 0 /\ nab = ab))
\* PageIsInstruction (asmallg.c PageIsOccupied): on targets with a machine instruction PAGE (SX20, OLMS-50) the
\* listing control is spelled PAGESIZE and PAGE goes to the code generator - it emits then
PageIsInstruction(e) == e.op = "PAGE" /\ e.len > 0
ListingControlIsInert(e, ab, nab) ==
  Claim("ListingControlIsInert", (e.gk = "LIST" /\ ~PageIsInstruction(e)) => (e.ch = <<>> /\ e.len = 0 /\ nab = ab))
\* "ALIGN n: the program counter is advanced to the next multiple of n" (execution address; what lies between is
\* reserved or filled: the chunks account for it)
AlignReachesBoundary(e, ab, nab, quiet) ==
  Claim("AlignReachesBoundary",
        (e.gk = "ALIGN" /\ quiet /\ e.ga # <<>> /\ e.ga[1] > 0 /\ nab.act = ab.act) =>
           AB!Exec(nab) = AB!Exec(ab) + AB!AlignGap(ab, e.ga[1]))
\* END: "ENDOccured = True" unless the argument count is wrong (ChkArgCnt(0, 1)); ProcessFile then drains the input
\* tags without executing another statement
EndExecuted(e) == e.gk = "END" /\ ~HasDiag(e.dg, 1110)
AuAfter(s, e, dpre, quiet) ==
  [fz    |-> FuzzyAfter(dpre, e, s.au.fz),
   fns   |-> IF e.gk = "FUNCTION" /\ quiet /\ e.ga # <<>> THEN s.au.fns \cup {e.ga[1]} ELSE s.au.fns,
   rp    |-> s.au.rp \/ RepassCause(e.sy) \/ RepassCause(e.psy),
   rg    |-> s.au.rg \/ (e.op = "REG" /\ s.ca.ifasm /\ s.mp.outs = <<>>),
   ended |-> s.au.ended \/ EndExecuted(e),
   entry |-> s.au.entry \/ (EndExecuted(e) /\ e.argc = 1 /\ quiet)]
\* (AsCore_Trace / AsCore_MC, end of the pass) AsmErrPassExit: an EXPECT that is still open is reported (2150: asked of
\* the list like every message) - and with PassInit (Driver_Trace's Pass: d' = PassInit) neither the list nor InExpect
\* reaches the next pass or the next file
ExpectEndsWithPass(d, gs) == Claim("ExpectEndsWithPass", d.inexp = HasDiag(gs, DG!NumMissingENDEXPECT))
\* (AsCore_Trace, FILEEND) the code file has an entry record iff an END of the last pass gave a start address
EndSetsEntry(au, entries) == Claim("EndSetsEntry", entries = (IF au.entry THEN 1 ELSE 0))

-----------------------------------------------------------------------------
(* 6. THE COMPOSED STEP: one execution of Produce_Code as a step of every  *)
(* machine.  s = [ca, ab, mp, cw, d, sy, en] (states of CondAsm, AddrBook, *)
(* the projected macro processor, the stream cursor, the diagnostic        *)
(* counters, the symbol table, ENUM's counter), e = the regrouped record   *)
(* of the statement (see AsCore_Trace), o = the option record of Diag, rs  *)
(* = the parsed code file (last pass), Tx(i) = text of the statement at    *)
(* position i.  Returns the set of states after the statement that the     *)
(* composed specification allows - empty when the record contradicts a     *)
(* machine or a cross-machine claim.                                       *)
StmtSuccAt(Tx(_), rs, o, s, e, pos) ==
  LET ifpre  == s.ca.ifasm
      recpre == s.mp.outs # <<>>
      quiet  == ~HasErr(e.dg)
      fds    == XLine(o, s.d, e, s.au.fz)                \* the diagnostics of the line + EXPECT / ENDEXPECT
      here   == [nl |-> e.nl, tx |-> e.tx, dp |-> e.dp, em |-> e.em]
      labexp == LabelExpected(e, s.ab, ifpre, recpre)
      labfailed == labexp /\ Defs(e.sy) # <<>> /\ Defs(e.sy)[1].out \in {"double", "mix"}
      nau    == AuAfter(s, e, s.d, quiet)
      After(c, m, h, f2) ==
        LET r   == Chunks(rs, h, s.cw, e.ch, 1)
            nab == BodyAdvance(r[2], e)
            ds  == IF IsUserOp(e, ifpre, recpre) THEN UserCands(o, f2, e, e.dg # <<>>) ELSE {f2}
        IN IF /\ r[1]
              /\ PostOK(nab, e)
              /\ SkippedIsInert(e, s.ca, s.ab, nab)
              /\ RecordedIsInert(e, s.ca, c, s.ab, nab, recpre)
              /\ IfFamilyIsAddressNeutral(e, s.ab, nab)
              /\ ErrorLineEmitsNoCode(e, ifpre, recpre, labfailed)
              /\ CodeLenIsEmitted(e, s.ab)
              /\ EmptyLineIsInert(e, s.ab, nab)
              /\ ListingControlIsInert(e, s.ab, nab)
              /\ AlignReachesBoundary(e, s.ab, nab, quiet)
           THEN {[ca |-> [c EXCEPT !.errs = 0, !.warns = 0], ab |-> nab, mp |-> m, cw |-> r[3], d |-> d2] :
                   d2 \in {x \in ds : ErrsDeltaIsDiagCount(s.d, x, e, x.err - f2.err)}}
           ELSE {}
      Produced(tg, c) ==
        {m \in Produce([s.mp EXCEPT !.tags = tg.tags, !.lc = tg.lc], e, pos, ifpre, Len(s.ca.stk), quiet) :
           Claim("TagDepthIsMachineDepth", Len(m.tags) = e.tagd) /\ (m.outs # <<>>) = e.rec}
      Selected(tg) ==
        {c \in CACands(s.ca, tg.tags, e) : /\ CAMatches(c, e) /\ MachineErrorIsReported(s.ca, c, e.dg)
                                           /\ IfdefReadsTable(s, tg.tags, e, c, ifpre, recpre)}
      \* the other machines (small states: alternatives that coincide are merged here), then the table is attached
      Small(tg) == UNION {UNION {UNION {UNION {After(c, m, h, f2) : f2 \in fds} : h \in AfterHandler(s.ab, e, quiet)}
                                 : m \in Produced(tg, c)} : c \in Selected(tg)}
  IN IF fds = {} \/ (s.au.ended /\ On("EndStopsAssembly")) THEN {}
     ELSE UNION {{[ca |-> x.ca, ab |-> x.ab, mp |-> x.mp, cw |-> x.cw, d |-> x.d, sy |-> y[1], en |-> y[2], au |-> nau] :
                    x \in Small(tg), y \in SySucc(s, e, tg.tags, labexp, quiet, recpre)}
                 : tg \in Deliver(Tx, [tags |-> s.mp.tags, lc |-> s.mp.lc], Append(e.pre, here), 1)}
\* (pos = l: the wrappers step statement by statement; AsCore_Trace also takes several statements in one step)
StmtSucc(Tx(_), rs, o, s, e) == StmtSuccAt(Tx, rs, o, s, e, l)
=============================================================================
