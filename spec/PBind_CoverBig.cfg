\* replayed exhaustively: one record longer than the copy buffer / of (almost) maximal length
CONSTANTS MaxFiles = 1 MaxItems = 1 Starts = {300} ByteLens = {8192, 8194, 65534} EntryAddrs = {4660}
  CpuSegGran <- CSG_Small Forms <- Forms_Both Filters <- F_Two Creators <- Cr_One Quiets <- Q_No Dev <- D_None
SPECIFICATION CoverSpec
CHECK_DEADLOCK FALSE
