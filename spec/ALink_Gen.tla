------------------------------ MODULE ALink_Gen ------------------------------
(* (G) Link sets as SOURCE programs: every module is a statement list of RelocWriter.tla.  For each    *)
(* case TLC prints the modules (the harness renders them as MCS-51 source and assembles them with the  *)
(* real asl), the code files the writer model says asl must produce (compared byte for byte up to the  *)
(* creator string), and - for these files - the expectation of ALink.tla as in ALink_MC.               *)
(*   FamSpec   hand-made families (pairs, two names in one field, three modules in every order,        *)
(*             undefined / double definitions, modules without relocation info, several records per    *)
(*             module, relocatable segments, exports that the writer loses, local references)          *)
(*   SimSpec   random wide link sets (TLC -simulate): 1..3 modules of <= 6 statements                  *)
EXTENDS ALink, RelocWriter, Json

VARIABLES c, s
vars == <<c, s>>

\* ---- statements ---------------------------------------------------------------------------------------------
DB(bs) == [op |-> "db", bytes |-> bs]
REF8(nm, k) == [op |-> "ref", w |-> 1, opc |-> 116, names |-> <<nm>>, add |-> k]                  \* MOV A,#nm+k
REF16(opc, nms, k) == [op |-> "ref", w |-> 2, opc |-> opc, names |-> nms, add |-> k]             \* MOV DPTR,# / LJMP / LCALL
LAB(nm) == [op |-> "label", name |-> nm]
EQU(nm, v) == [op |-> "equ", name |-> nm, value |-> v]
EXT(nms) == [op |-> "extern", names |-> nms]
EXP(nms) == [op |-> "export", names |-> nms]
ORG(a) == [op |-> "org", addr |-> a]
RES(n) == [op |-> "res", n |-> n]
RSEG == [op |-> "rseg"]  ASEG == [op |-> "aseg"]  CPU == [op |-> "cpu"]
Opt(cond, st) == IF cond THEN <<st>> ELSE <<>>
AbsMod(base, body, exts, exps) == <<CPU>> \o Opt(exts # <<>>, EXT(exts)) \o <<ORG(base)>> \o body \o Opt(exps # <<>>, EXP(exps))
RelMod(body, exts, exps) == <<RSEG, CPU>> \o Opt(exts # <<>>, EXT(exts)) \o body \o Opt(exps # <<>>, EXP(exps))

Ga == <<103, 97>>  Gb == <<103, 98>>  Gc == <<103, 99>>  Uu == <<117, 117>>                      \* "ga" "gb" "gc" "uu"
Lc(i) == <<108, 48 + i>>                                                                           \* "l1" ...

\* ---- a case -------------------------------------------------------------------------------------------------
FilesOf(progs) == [i \in 1..Len(progs) |-> REncode(FileItems(progs[i]), <<65, 83>>)]
ImageRecs(Ld) == [k \in 1..Len(Ld.recs) |-> [seg |-> Ld.recs[k].seg, start |-> Ld.recs[k].start, data |-> Ld.recs[k].data]]
Creator == <<65, 76, 73, 78, 75>>
ObsOf(r) == [rc |-> r.rc, bytes |-> IF r.rc = 0 THEN r.body \o Creator ELSE <<>>, undef |-> r.undef, dbl |-> r.dbl]
AsmOut(progs, tag) ==
  LET cc == [files |-> FilesOf(progs)]
      def == Definite(cc)  r == Run({}, cc)  Ld == IF def THEN Link_decl(cc) ELSE [rc |-> -1, why |-> "", recs |-> <<>>]
      W == [i \in 1..Len(progs) |-> Written(progs[i])]
  IN [c |-> cc, tag |-> tag, src |-> progs, exp |-> r, def |-> def, decl |-> [rc |-> Ld.rc, recs |-> ImageRecs(Ld)],
      allowed |-> (def /\ r.rc # RcAny) => Linked(cc, ObsOf(r)),
      accepted |-> \A i \in 1..Len(progs) : Accepted(progs[i]),
      \* the writer's own obligations (RelocWriter!Faithful) and the two situations in which asmcode.c misses them
      faithful |-> [i \in 1..Len(progs) |-> Faithful(progs[i], W[i].out)],
      lost |-> [i \in 1..Len(progs) |-> W[i].lost], split |-> [i \in 1..Len(progs) |-> W[i].split],
      cancel |-> [i \in 1..Len(progs) |-> Cancels(progs[i])], leak |-> [i \in 1..Len(progs) |-> Leaks(progs[i])],
      plist |-> [i \in 1..Len(progs) |-> PListRelocRows(W[i].out)]]

\* ---- families -----------------------------------------------------------------------------------------------
Refs1 == {REF8(Ga, k) : k \in {0, 5, 200}} \cup {REF16(opc, <<Ga>>, k) : opc \in {144, 2, 18}, k \in {0, 3, 258}}
UserA(r) == AbsMod(256, <<DB(<<1, 2>>), r, DB(<<3>>)>>, <<Ga>>, <<>>)
DefGa(base) == AbsMod(base, <<DB(<<9>>), LAB(Ga), DB(<<8, 7>>)>>, <<>>, <<Ga>>)
DefGaGb == AbsMod(512, <<DB(<<9>>), LAB(Ga), DB(<<8, 7>>), EQU(Gb, 4660)>>, <<>>, <<Ga, Gb>>)
PlainMod(base) == AbsMod(base, <<DB(<<5, 5>>)>>, <<>>, <<>>)
M3a == AbsMod(256, <<REF16(144, <<Ga>>, 0), REF8(Gb, 1), LAB(Lc(1)), REF16(2, <<Lc(1)>>, 0)>>, <<Ga, Gb>>, <<>>)
M3b == AbsMod(512, <<LAB(Ga), REF16(18, <<Gb>>, 2), DB(<<7>>)>>, <<Gb>>, <<Ga>>)
M3c == AbsMod(768, <<EQU(Gb, 255), REF16(144, <<Ga, Gb>>, 0)>>, <<Ga>>, <<Gb>>)
Perms3 == {<<1, 2, 3>>, <<1, 3, 2>>, <<2, 1, 3>>, <<2, 3, 1>>, <<3, 1, 2>>, <<3, 2, 1>>}
\* several records in one module: ORG gap, reservation; references in front of and behind the gaps
Multi == AbsMod(256, <<REF16(144, <<Ga>>, 1), ORG(300), LAB(Gb), REF8(Ga, 2), RES(2), REF16(18, <<Ga, Gb>>, 0), DB(<<1>>)>>, <<Ga>>, <<Gb>>)
\* relocatable segments (RSEG in front of CPU: the record at address 0 is opened relocatable)
R1 == RelMod(<<LAB(Lc(1)), REF16(144, <<Lc(2)>>, 0), REF16(18, <<Gb>>, 0), LAB(Lc(2)), DB(<<0>>), LAB(Ga)>>, <<Gb>>, <<Ga>>)
R2 == RelMod(<<DB(<<34>>), LAB(Gb), REF16(144, <<Ga>>, 0), REF16(144, <<Gb>>, 1), REF8(Gb, 0)>>, <<Ga>>, <<Gb>>)
R3 == RelMod(<<LAB(Gc), REF16(2, <<Gc>>, 0), DB(<<1, 2, 3>>), EXP(<<Gc>>), ASEG, ORG(1024), REF16(144, <<Ga>>, 0), REF16(144, <<Gb>>, 0)>>, <<Ga, Gb>>, <<>>)
\* exports that never reach the file: the record open at the end of the program is empty
LostExp == AbsMod(512, <<LAB(Ga), DB(<<1>>), ORG(640)>>, <<>>, <<Ga>>)
LostExp2 == AbsMod(512, <<LAB(Ga), DB(<<1>>), RES(4)>>, <<>>, <<Ga>>)
\* exports in front of the code of their record, exported constants, a name exported twice
Early == AbsMod(512, <<EXP(<<Ga>>), DB(<<1>>), LAB(Ga), DB(<<2>>)>>, <<>>, <<>>)
Consts(v) == AbsMod(512, <<DB(<<0>>), EQU(Ga, v)>>, <<>>, <<Ga>>)
Twice == AbsMod(512, <<LAB(Ga), DB(<<1>>)>>, <<>>, <<Ga, Ga>>)
Families ==
  {<<"pair", <<UserA(r), DefGa(512)>>>> : r \in Refs1} \cup {<<"pair-rev", <<DefGa(512), UserA(r)>>>> : r \in Refs1}
  \cup {<<"two-names", <<AbsMod(256, <<REF16(opc, <<Ga, Gb>>, k)>>, <<Ga, Gb>>, <<>>), DefGaGb>>>> : opc \in {144, 18}, k \in {0, 7}}
  \cup {<<"two-names", <<DefGaGb, AbsMod(256, <<REF16(144, <<Gb, Ga>>, 1), REF16(2, <<Ga, Ga>>, 0)>>, <<Ga, Gb>>, <<>>)>>>>}
  \cup {<<"three", [i \in 1..3 |-> <<M3a, M3b, M3c>>[p[i]]]>> : p \in Perms3}
  \cup {<<"undefined", <<UserA(REF16(144, <<Ga>>, 0))>>>>,
        <<"undefined", <<UserA(REF16(144, <<Ga>>, 0)), AbsMod(512, <<LAB(Gb), DB(<<1>>)>>, <<>>, <<Gb>>)>>>>,
        <<"undefined", <<M3a, M3b>>>>, <<"undefined", <<M3b, M3a>>>>,
        <<"double", <<DefGa(512), DefGa(768)>>>>, <<"double", <<DefGa(512), UserA(REF8(Ga, 0)), DefGa(768)>>>>,
        <<"double", <<DefGa(512), DefGaGb, M3c>>>>, <<"double-and-undefined", <<DefGa(512), DefGa(768), M3a>>>>,
        <<"same-file-twice", <<DefGa(512), DefGa(512)>>>>, <<"exported-twice", <<Twice, UserA(REF16(2, <<Ga>>, 0))>>>>}
  \cup {<<"plain-module", fs>> : fs \in {<<PlainMod(768), UserA(REF16(144, <<Ga>>, 0)), DefGa(512)>>, <<UserA(REF16(144, <<Ga>>, 0)), PlainMod(768), DefGa(512)>>,
                                         <<DefGa(512), PlainMod(768), UserA(REF16(144, <<Ga>>, 0))>>, <<DefGa(512), UserA(REF16(144, <<Ga>>, 0)), PlainMod(768)>>,
                                         <<PlainMod(768)>>, <<PlainMod(768), PlainMod(1024)>>}}
  \cup {<<"records", <<Multi, DefGa(512)>>>>, <<"records", <<DefGa(512), Multi>>>>, <<"records", <<DefGa(512), Multi, PlainMod(768)>>>>}
  \cup {<<"rseg", <<R1, R2>>>>, <<"rseg", <<R2, R1>>>>, <<"rseg", <<R1, R2, R3>>>>, <<"rseg", <<R3, R2, R1>>>>, <<"rseg", <<R2, DefGa(512)>>>>,
        <<"rseg", <<DefGa(512), R2>>>>, <<"rseg", <<R1>>>>, <<"rseg", <<RelMod(<<DB(<<1, 2>>)>>, <<>>, <<>>), R2, DefGa(512)>>>>}
  \cup {<<"lost-export", <<le, UserA(REF16(144, <<Ga>>, 0))>>>> : le \in {LostExp, LostExp2}}
  \cup {<<"early-export", <<Early, UserA(REF16(18, <<Ga>>, 0))>>>>}
  \cup {<<"const", <<Consts(v), UserA(r)>>>> : v \in {0, 255, 4660, 65535}, r \in {REF8(Ga, 1), REF16(144, <<Ga>>, 1)}}

FamInit == \E q \in Families : c = [progs |-> q[2], tag |-> q[1]] /\ s = "gen"
FamNext == s = "gen" /\ PrintT(<<"TR", ToJson(AsmOut(c.progs, c.tag))>>) /\ s' = "printed" /\ UNCHANGED c
FamSpec == FamInit /\ [][FamNext]_vars
\* every family member is a program the assembler accepts, the operational model agrees with Link_decl where that is definite,
\* and the writer is faithful unless one of its four named situations occurs
FamSelf == s = "gen" => LET o == AsmOut(c.progs, c.tag) IN
             /\ o.accepted /\ o.allowed
             /\ \A i \in 1..Len(c.progs) : o.faithful[i] \/ o.lost[i] \/ o.split[i] \/ o.cancel[i] \/ o.leak[i]

\* ---- the real record limit: 65533 data bytes, then a 3-byte instruction with a relocation (asmcode.c WriteBytes splits
\* the record in front of the instruction; its patch entry is already queued and goes to the record that just ended)
BigUser == AbsMod(0, <<DB([i \in 1..65533 |-> i % 251]), REF16(2, <<Ga>>, 0)>>, <<Ga>>, <<>>)
BigInit == c = [progs |-> <<DefGa(4660), BigUser>>, tag |-> "record-limit"] /\ s = "gen"
BigSpec == BigInit /\ [][FamNext]_vars
BigSelf == s = "gen" => LET o == AsmOut(c.progs, c.tag) IN o.accepted /\ o.split[2] /\ ~o.faithful[2] /\ ~o.def

\* ---- random wide link sets ----------------------------------------------------------------------------------
Globals == {Ga, Gb, Gc}
SimStmts(m, body) ==
  LET defd == {body[i].name : i \in {j \in 1..Len(body) : body[j].op \in {"label", "equ"}}}
      names == Globals \cup {Lc(m)}
  IN {DB(<<17 * m>>), DB(<<1, 2, 3>>), RES(3)}
     \cup {LAB(g) : g \in names \ defd}
     \cup {EQU(g, v) : g \in Globals \ defd, v \in {258}}
     \cup {REF8(g, k) : g \in Globals \ defd, k \in {0, 9}}
     \cup {REF16(opc, <<g>>, k) : opc \in {144, 2}, g \in names, k \in {0, 260}}
     \cup {REF16(18, <<g, h>>, 1) : g \in names, h \in Globals}
Finish(m, kind, body) ==
  LET defd == {body[i].name : i \in {j \in 1..Len(body) : body[j].op \in {"label", "equ"}}}
      used == UNION {{body[i].names[k] : k \in 1..Len(body[i].names)} : i \in {j \in 1..Len(body) : body[j].op = "ref"}}
      b2 == IF Lc(m) \in used \ defd THEN Append(body, LAB(Lc(m))) ELSE body
      b3 == IF \E i \in 1..Len(b2) : b2[i].op \in {"db", "ref"} THEN b2 ELSE Append(b2, DB(<<m>>))
      exts == SetToSeq((used \cap Globals) \ defd)
      exps == SetToSeq(defd \cap Globals)
  IN IF kind = "rel" THEN RelMod(b3, exts, exps) ELSE AbsMod(256 * m, b3, exts, exps)
NamesOf(ps, op) == UNION {UNION {{ps[i][j].names[k] : k \in 1..Len(ps[i][j].names)} : j \in {q \in 1..Len(ps[i]) : ps[i][q].op = op}} : i \in 1..Len(ps)}
\* a last module that defines what is still undefined (half of the random link sets get one)
Closer(m, us) == AbsMod(256 * m, FoldLeft(LAMBDA acc, u : acc \o <<LAB(u), DB(<<m>>)>>, <<DB(<<m, m>>)>>, us), <<>>, us)
SimInit == c = [bodies |-> <<<<>>>>, kinds |-> <<"abs">>, progs |-> <<>>, tag |-> "sim"] /\ s = 0
SimNext ==
  /\ s \in 0..11 /\ s' = s + 1
  /\ LET n == Len(c.bodies) IN
     IF s < 11 THEN
        \/ \E st \in SimStmts(n, c.bodies[n]) : Len(c.bodies[n]) < 6 /\ c' = [c EXCEPT !.bodies[n] = Append(@, st)]
        \/ \E k \in {"abs", "abs", "rel"} : n < 3 /\ c.bodies[n] # <<>> /\ c' = [c EXCEPT !.bodies = Append(@, <<>>), !.kinds = Append(@, k)]
     ELSE \E close \in BOOLEAN :
            LET ps == [i \in 1..n |-> Finish(i, c.kinds[i], c.bodies[i])]
                U == NamesOf(ps, "extern") \ NamesOf(ps, "export")          \* referenced, exported by nobody
            IN c' = [c EXCEPT !.progs = IF close /\ U # {} THEN Append(ps, Closer(n + 1, SetToSeq(U))) ELSE ps]
SimSpec == SimInit /\ [][SimNext]_vars
SimDump == (s = 12 /\ \A i \in 1..Len(c.progs) : Accepted(c.progs[i])) => PrintT(<<"BEH", ToJson(AsmOut(c.progs, "sim"))>>)
=============================================================================
