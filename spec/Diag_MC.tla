------------------------------ MODULE Diag_MC ------------------------------
(* Properties of the counter protocol itself, evaluated by TLC over all small arguments:                  *)
(*  - the closed forms used for REPT bursts (up to 65537 repetitions) equal the n-fold recursion,          *)
(*    also when the counters wrap (Wrap = 8 in Diag_MC_Wrap8.cfg stands for 65536);                        *)
(*  - one call of WrXErrorPos writes at most one line, counts it in exactly the counter of its class, or   *)
(*    is consumed / suppressed without any trace;                                                          *)
(*  - -Werror leaves no way to count a warning; a fatal or "too many errors" stop is flagged exactly once. *)
EXTENDS Diag, TLC
CONSTANT MaxN
VARIABLE x

Opts == {[werror |-> w, maxerr |-> m, suppw |-> s, codeout |-> c, throw |-> FALSE] : w \in BOOLEAN, m \in 0..3, s \in BOOLEAN, c \in BOOLEAN}
Ds == {[InitD EXCEPT !.err = Cnt(e), !.warn = Cnt(w), !.emE = e, !.emW = w] : e \in 0..2, w \in 0..2}
Nums == {NumNullResMem, NumUnknownInstr, NumOpeningFile}
Live(o, d) == o.maxerr = 0 \/ d.err < o.maxerr

ClosedIsRepeat == \A o \in Opts, d \in Ds, num \in Nums, n \in 0..MaxN :
                     Live(o, d) => Repeat(o, d, num, n) = RepeatClosed(o, d, num, n)
UserClosedIsRepeat == \A o \in Opts, d \in Ds, n \in 0..MaxN :
                     Live(o, d) => RepeatUserW(o, d, n) = RepeatClosed([o EXCEPT !.suppw = FALSE], d, NumNullResMem, n)

OneLineOneCount ==
  \A o \in Opts, d \in Ds, num \in Nums : Live(o, d) =>
    LET d2 == WrXErrorPos(o, d, num)
        written == (d2.emE - d.emE) + (d2.emW - d.emW)
    IN /\ written \in {0, 1}
       /\ written = 0 => (d2.err = d.err /\ d2.warn = d.warn /\ ~d2.fatal)
       /\ (written = 1 /\ Classify(o, num) = "warning") => (d2.emW = d.emW + 1 /\ d2.warn = Cnt(d.warn + 1) /\ d2.err = d.err)
       /\ (written = 1 /\ Classify(o, num) # "warning") => (d2.emE = d.emE + 1 /\ d2.err = Cnt(d.err + 1) /\ d2.warn = d.warn)
       /\ d2.fatal <=> (written = 1 /\ (IsFatalNum(num) \/ (o.maxerr > 0 /\ d2.err >= o.maxerr)))
       /\ d2.emF = (IF d2.fatal THEN 1 ELSE 0)

WerrorCountsNoWarning ==
  \A o \in Opts, d \in Ds, num \in Nums : (o.werror /\ Live(o, d)) =>
     WrXErrorPos(o, d, num).warn = d.warn /\ UserWARNING(o, d).warn = d.warn

\* an expected error is consumed before -w and before counting, and only once
ExpectConsumes ==
  \A o \in Opts, d \in Ds, num \in Nums : Live(o, d) =>
    LET d1 == CodeEXPECT(o, d, <<num>>)
        d2 == WrXErrorPos(o, d1, num)
        d3 == WrXErrorPos(o, d2, num)
    IN /\ d2 = [d1 EXCEPT !.exp = <<>>, !.taken = 1]
       /\ d3 = [WrXErrorPos(o, d, num) EXCEPT !.inexp = TRUE, !.taken = 1]

Init == x = 0
Next == x' = x
Spec == Init /\ [][Next]_x
=============================================================================
