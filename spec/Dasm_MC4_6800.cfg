\* thorough: 6800, all images of 4 cells
CONSTANTS IsaName = "6800" Cpu = "6800" N = 4 Org = 4096 MaxEntries = 2 EntrySpan = 5 AllFirst = FALSE
  FirstBytes = {1, 32, 38, 141, 57, 126, 189, 110, 134, 206, 183, 0}
  OtherBytes = {16, 0, 1, 2, 254, 57, 32}
  VecAddrs = {4098}
SPECIFICATION Spec
INVARIANTS TerminatesWithin InvInside InvSound InvComplete InvDisjoint InvRoundTrip InvRunAgrees
PROPERTY Terminates
CHECK_DEADLOCK FALSE
