CONSTANTS MaxPieces = 4 LongLens = {0} Emit = FALSE SmallBufs = TRUE
INIT Init
NEXT Next
INVARIANTS ReadsAsText NextLineIntact SameAsLF
CHECK_DEADLOCK FALSE
