CONSTANTS MaxArgs = 1 Rich = FALSE Product = TRUE
SPECIFICATION Spec
INVARIANTS Immaterial CanonSplitsExactly CommentCut
CHECK_DEADLOCK FALSE
