CONSTANTS MaxArgs = 2 Rich = FALSE Product = TRUE
SPECIFICATION Spec
INVARIANTS Immaterial CanonSplitsExactly CommentCut
CHECK_DEADLOCK FALSE
