\* (thorough) 1..3 files x 0..2 items, two CPU kinds, two filters
CONSTANTS MaxFiles = 3 MaxItems = 2 Starts = {0, 300} ByteLens = {0, 2} EntryAddrs = {4660}
  CpuSegGran <- CSG_Two Forms <- Forms_Both Filters <- F_Two Creators <- Cr_One
SPECIFICATION Spec
INVARIANTS Conforms StepRunAgrees PrefixOK RoundTrip HeaderRule
PROPERTY Monotone
CHECK_DEADLOCK FALSE
