\* (thorough) 1..4 files x 0..1 items (the property's "sequences of 1..4 code files"), two CPU kinds, two filters
CONSTANTS MaxFiles = 4 MaxItems = 1 Starts = {300} ByteLens = {0, 2} EntryAddrs = {4660}
  CpuSegGran <- CSG_Two Forms <- Forms_Both Filters <- F_Two Creators <- Cr_One Quiets <- Q_No Dev <- D_None
SPECIFICATION Spec
INVARIANTS Conforms StepRunAgrees PrefixOK RoundTrip HeaderRule
PROPERTY Monotone
CHECK_DEADLOCK FALSE
