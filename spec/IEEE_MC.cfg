\* every 12-bit significand x exponents -30..20 (half); single precision at its rounding boundaries
CONSTANTS MantBits = 12 ExpLoNeg = 30 ExpHi = 20 WithSingle = TRUE
SPECIFICATION Spec
INVARIANTS EncoderIsNearestEven ExactStaysExact SignBit DoubleLayout CodeDeviatesOnlyInSubnormalRange FixedCodeIsIEEE
CHECK_DEADLOCK FALSE
