\* 1..2 files x 1 record; <= 1 patch (offset 1, names a/bb, types L8 B16 -L16) and <= 1 export (a/bb = 4660) per record,
\* records without relocation info included; the code WITHOUT the named deviations
CONSTANTS MaxFiles = 2 MaxRecs = 1 Starts = {256} Rels <- R_Abs POffs = {1} PNames <- N_ab PTypes <- T_3 MaxP = 1
  XNames <- N_ab XFlags = {0} XVals = {4660} MaxX = 1 Dev <- D_None
SPECIFICATION Spec
INVARIANTS Conforms StepRunAgrees NoCrash PrefixOK Aligned RoundTrip OneForOne
CHECK_DEADLOCK FALSE
