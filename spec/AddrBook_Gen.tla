----------------------------- MODULE AddrBook_Gen -----------------------------
(* Statement sequences for replay into the real assembler; every step records what the specification   *)
(* predicts (active segment, load and execution address before the statement, values of labels, field   *)
(* offsets and structure lengths).  Structures nest two levels deep.  ORG while a PHASE offset is in     *)
(* force follows the implemented reading (argument = execution address, see AddrBook.Org).             *)
EXTENDS AddrBook, TLC, Json
CONSTANTS MaxLen, Lim,     \* Lim: exclusive upper bound of addresses used
          Small,          \* TRUE: one or two representative arguments per statement (for the transition cover)
          Mode            \* "all" | "stack" (segments, phases, SAVE/RESTORE) | "struct": statement mix of the simulation

VARIABLES b, hist
vars == <<b, hist>>

Init == b = [InitB("code") EXCEPT !.used = [s \in AllSegs |-> FALSE]] /\ hist = <<>>

Ok(nb) == \A s \in AllSegs : nb.pc[s] \in 0..(Lim - 1) /\ nb.pc[s] + nb.ph[s] \in 0..(Lim - 1)

Rec(k, f, nb) == [k |-> k, seg |-> b.act, load |-> Load(b), exec |-> Exec(b), aseg |-> nb.act,
                  aload |-> Load(nb), aexec |-> Exec(nb)] @@ f

InMode(k) == \/ Mode = "all"
             \/ Mode = "stack" /\ k \in {"EMIT", "READPC", "SEGMENT", "PHASE", "DEPHASE", "SAVE", "RESTORE", "LABEL", "RORG", "CPU"}
             \/ Mode = "struct" /\ k \in {"EMIT", "RESERVE", "FIELD", "STRUCT", "ENDSTRUCT", "ALIGN", "LABEL", "ORG", "RORG"}
Do(k, f, nb) == InMode(k) /\ Ok(nb) /\ b' = nb /\ hist' = Append(hist, Rec(k, f, nb))

Ordinary == ~InStruct(b)

Next ==
  /\ Len(hist) < MaxLen
  /\ \/ \E c \in (IF Small THEN {1, 2} ELSE {1, 2, 3, 5}) : Ordinary /\ Do("EMIT", [n |-> c], MarkUsed(Advance(b, c)))
     \/ ~Small /\ Ordinary /\ Do("READPC", [n |-> 1, val |-> Exec(b)], MarkUsed(Advance(b, 1)))
     \/ \E c \in (IF Small THEN {0, 3} ELSE {0, 1, 2, 7}) : Do(IF Ordinary THEN "RESERVE" ELSE "FIELD", [n |-> c, val |-> FieldValue(b)], MarkUsed(Advance(b, c)))
     \/ \E a \in (IF Small THEN {16, Load(b) + 3} ELSE {0, 16, 100, 1000, Load(b) + 3, Load(b)}) :
           \* also inside STRUCT / UNION bodies; in a STRUCT body only forwards: the code takes the length of a structure as
           \* max(final counter, largest element offset), and what "total size" means after stepping back is left open
           (Ordinary \/ InUnion(b) \/ a >= Load(b)) /\ Do("ORG", [a |-> a], MarkUsed(OrgStmt(b, a)))
     \/ \E d \in (IF Small THEN {4} ELSE {1, 4, 32}) : Do("RORG", [d |-> d], MarkUsed(RorgStmt(b, d)))
     \/ \E a \in (IF Small THEN {4} ELSE {2, 4, 8, 16}) : Do("ALIGN", [a |-> a, gap |-> AlignGap(b, a)], MarkUsed(Align(b, a)))
     \/ \E s \in Segs : Ordinary /\ s # b.act /\ Do("SEGMENT", [s |-> s], MarkUsed(Segment(b, s, 0)))
     \/ \E a \in (IF Small THEN {512, Exec(b) + 64} ELSE {0, 512, 2000, Exec(b) + 64}) : Ordinary /\ Len(b.phStk[b.act]) < 3 /\ Do("PHASE", [a |-> a], MarkUsed(Phase(b, a)))
     \/ Ordinary /\ Do("DEPHASE", <<>>, MarkUsed(Dephase(b)))
     \/ \E c \in {0, 1} : Ordinary /\ c # b.cpu /\ Do("CPU", [c |-> c], MarkUsed(Cpu(b, c, "code", 0)))
     \/ Ordinary /\ Len(b.saveStk) < 3 /\ Do("SAVE", <<>>, MarkUsed(Save(b)))
     \/ Ordinary /\ CanRestore(b) /\ Do("RESTORE", <<>>, MarkUsed(Restore(b)))
     \/ \E u \in BOOLEAN : (Ordinary \/ Len(b.stStk) < 2) /\ Do("STRUCT", [u |-> u, nested |-> ~Ordinary, val |-> FieldValue(b)], BeginStruct(b, u))
     \/ ~Ordinary /\ Do("ENDSTRUCT", [len |-> StructLen(b)], MarkUsed(EndStruct(b)))
     \/ ~Small /\ Ordinary /\ Do("LABEL", [val |-> Exec(b)], MarkUsed(b))

View == b
\* transition cover: the behaviour up to and including this transition + where an observer statement placed
\* right after it must land (segment, load address) and what it must read as execution address
TCover == PrintT(<<"TR", ToJson([h |-> hist', seg |-> b'.act, load |-> Load(b'), exec |-> Exec(b'), instruct |-> InStruct(b'), field |-> FieldValue(b'),
                                   saves |-> Len(b'.saveStk), structs |-> Len(b'.stStk)])>>)
Complete == b.stStk = <<>> /\ b.saveStk = <<>>
Dump == (Complete /\ Len(hist) >= 6 /\ (Len(hist) = MaxLen \/ Len(hist) % 5 = 0)) => PrintT(<<"BEH", ToJson(hist)>>)
=============================================================================
