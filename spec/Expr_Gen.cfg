\* quick: every operator x 20 x 20 boundary operands, all function domains, aliases
CONSTANTS Level = 1 MaxDepth = 0
SPECIFICATION Spec
INVARIANT Emit
CHECK_DEADLOCK FALSE
