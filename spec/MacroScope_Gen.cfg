CONSTANTS Alphabet <- AGen
 MaxLen = 3
 MaxSects = 2
 MaxDepth = 2
 Fixed = {}
INIT Init
NEXT Next
INVARIANTS Dump
CHECK_DEADLOCK FALSE
