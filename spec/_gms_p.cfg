CONSTANTS Families = {"gen"}
 Family <- QuickFamily
 MaxSects = 2
 MaxDepth = 2
 Fixed = {}
INIT Init
NEXT Next
INVARIANTS InvAgrees
CHECK_DEADLOCK FALSE
