\* one file with a record of every processor family of headids.c
CONSTANTS MaxItems = 0 Starts = {} ByteLens = {} EntryAddrs = {}
  CpuSegGran <- CSG_List Forms <- Forms_Both Creators <- Cr_One Dev <- D_None
SPECIFICATION FamSpec
CHECK_DEADLOCK FALSE
