CONSTANTS
  Places <- PlacesExh
  Elems = {4, 8, 16}
  Kinds = {"res"}
  Counts <- CountsExh
  MaxDepth = 2 MaxTok = 6 MaxStmts = 1 MaxDS = 1
  Dev = "emptygroup" Weight = 1
INIT GInit
NEXT GNext
INVARIANT Dump
CHECK_DEADLOCK FALSE
