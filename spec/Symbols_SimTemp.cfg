CONSTANTS LOCSYMSIGHT = 3
          MaxLen = 26 FreeLen = 12 MaxDepth = 2 Mode = "temp" CaseModes = {TRUE, FALSE} EveryState = FALSE
INIT Init
NEXT SimNext
INVARIANT Dump
CHECK_DEADLOCK FALSE
