------------------------------- MODULE SymScope -------------------------------
(* C16, file-level rewrite "wrap the text in a parameterless macro that is invoked once": the SYMBOL side. *)
(* The manual: "Labels defined in macros always are regarded as being local, unless GLOBALSYMBOLS was      *)
(* used in the macro's definition" (the same control parameter exists for IRP IRPN IRPC REPT, and the code  *)
(* accepts it for WHILE).  A plain wrapper `name MACRO` therefore turns every label of the wrapped text     *)
(* into a local symbol of the wrapper's expansion, and the text stays the same program only because a      *)
(* reference written in a NESTED expansion (REPT / IRP / IRPN / IRPC / WHILE body, call of a macro the text *)
(* defines) still finds the labels of all the expansions around it.                                        *)
(*                                                                                                         *)
(* Part 1  the local symbol spaces of asmpars.c: MomLocHandle, the stack FirstLocHandle (PushLocHandle /    *)
(*         PopLocHandle / GetLocHandle), EnterIntSymbol's choice local / global, FindLocNode's search       *)
(*         (own space, then the stack entries from the top until one holds -1) and the fallback FindNode.   *)
(*         as.c *_Processor: every repetition of a body without GLOBALSYMBOLS runs in a fresh space.        *)
(* Part 2  the same meaning stated without handles and stacks: every executed statement lies in a chain of  *)
(*         expansion instances; a reference denotes the definition of its name in the NEAREST instance      *)
(*         of that chain (file level last).                                                                *)
(* Part 3  scoped programs: a chain of up to three nested constructs, a label defined at one level and      *)
(*         referenced at the same or a deeper level (distance 0..3 expansion levels, +1 with the wrapper),  *)
(*         by value / IFDEF / DEFINED() / SYMTYPE() / IFUSED, behind or ahead of the definition, before or  *)
(*         after a nested expansion, with or without a definition of the same name further out.            *)
EXTENDS Integers, Sequences, FiniteSets

CONSTANT SkipNearest      \* FALSE = the code as it is.  TRUE = a named deviation for demonstration: FindLocNode starts
                          \* its walk at the second stack entry (the directly enclosing expansion is not searched)

------------------------------------------------------------------------------------------------------
(* items: one record shape for all;  k = LEAF (db n) | DEF (name:) | REF (name, how) | a construct kind      *)
Item(k, n, g, name, how, body) == [k |-> k, n |-> n, g |-> g, name |-> name, how |-> how, body |-> body]
Leaf(n)        == Item("LEAF", n, "", "", "", <<>>)
Def(name)      == Item("DEF", 0, "", name, "", <<>>)
Ref(name, how) == Item("REF", 0, "", name, how, <<>>)
ConstructKinds == {"MACRO", "IRP", "IRPN", "IRPC", "REPT", "WHILE"}
Modes          == {"default", "global", "noglobal"}      \* nothing / {GLOBALSYMBOLS} / {NOGLOBALSYMBOLS}
RefHows        == {"val", "ifdef", "defined", "symtype", "ifused"}
OwnSpace(g)    == g # "global"

------------------------------------------------------------------------------------------------------
(* Part 1: asmpars.c.  tab = FirstLocSymbol (h >= 0) and the global tree (h = -1) as one set of entries     *)
Push(S, h) == [S EXCEPT !.stack = <<S.mom>> \o S.stack, !.mom = h]           \* PushLocHandle: Cont = the OLD handle
Pop(S)     == [S EXCEPT !.mom = Head(S.stack), !.stack = Tail(S.stack)]       \* PopLocHandle
PushNew(S) == Push([S EXCEPT !.cnt = S.cnt + 1], S.cnt)                        \* PushLocHandle(GetLocHandle())

\* a label: EnterIntSymbol(.., MayChange = False): local to MomLocHandle unless that is -1
Enter(S, name, addr) == [S EXCEPT !.tab = @ \cup {[name |-> name, h |-> S.mom, addr |-> addr]}]

At(S, name, h) == {e \in S.tab : e.name = name /\ e.h = h}
RECURSIVE Walk(_, _, _)
Walk(S, name, st) ==                                                          \* while (Run && Run->Cont != -1)
  IF st = <<>> \/ Head(st) = -1 THEN {}
  ELSE LET hit == At(S, name, Head(st)) IN IF hit # {} THEN hit ELSE Walk(S, name, Tail(st))
FindLocNode(S, name) ==
  IF S.mom = -1 THEN {}
  ELSE LET own == At(S, name, S.mom)
       IN  IF own # {} THEN own
           ELSE Walk(S, name, IF SkipNearest /\ S.stack # <<>> THEN Tail(S.stack) ELSE S.stack)
Find(S, name) == LET l == FindLocNode(S, name) IN IF l # {} THEN l ELSE At(S, name, -1)   \* then FindNode()

Emit(S, b) == [S EXCEPT !.out = Append(@, b)]
ExecRef(S, it) ==
  LET hit   == Find(S, it.name)
      found == hit # {}
  IN  CASE it.how = "val"     -> IF found THEN [Emit(S, (CHOOSE e \in hit : TRUE).addr % 256) EXCEPT !.used = @ \cup hit]
                                 ELSE [Emit(S, 0) EXCEPT !.unk = TRUE]       \* forward assumption, asks for a pass
        [] it.how = "ifdef"   -> Emit(S, IF found THEN 1 ELSE 0)                \* IsSymbolDefined
        [] it.how = "defined" -> Emit(S, IF found THEN 1 ELSE 0)
        [] it.how = "symtype" -> Emit(S, IF found THEN 1 ELSE 255)              \* GetSymbolType: code segment / -1
        [] it.how = "ifused"  -> Emit(S, IF found /\ hit \subseteq S.used THEN 1 ELSE 0)   \* IsSymbolUsed

RECURSIVE ExecSeq(_, _, _), ExecItem(_, _), ExecIter(_, _, _)
ExecSeq(S, items, k) == IF k > Len(items) THEN S ELSE ExecSeq(ExecItem(S, items[k]), items, k + 1)
\* as.c MACRO_/IRP_/IRPC_/REPT_/WHILE_Processor at the first line of a repetition:
\*     if (!GlobalSymbols) { if (!First) PopLocHandle(); PushLocHandle(GetLocHandle()); }
ExecIter(S, it, i) ==
  IF i > it.n THEN S
  ELSE LET S1 == IF OwnSpace(it.g) THEN PushNew(IF i > 1 THEN Pop(S) ELSE S) ELSE S
       IN  ExecIter(ExecSeq(S1, it.body, 1), it, i + 1)
ExecItem(S, it) ==
  CASE it.k = "LEAF" -> Emit(S, it.n)
    [] it.k = "DEF"  -> Enter(S, it.name, Len(S.out))
    [] it.k = "REF"  -> ExecRef(S, it)
    [] OTHER         -> LET T == ExecIter(S, it, 1) IN IF OwnSpace(it.g) /\ it.n > 0 THEN Pop(T) ELSE T   \* ..._Cleanup

\* one pass over the text; the symbol table survives the passes, the handle counter restarts (as.c InitPass)
RunPass(items, tab) ==
  ExecSeq([mom |-> -1, stack |-> <<>>, cnt |-> 0, tab |-> tab, used |-> {}, out |-> <<>>, unk |-> FALSE], items, 1)
Failed == <<-1>>                                                             \* "symbol undefined": no code
Expand(items) ==
  LET p1 == RunPass(items, {}) IN
  IF ~p1.unk THEN p1.out
  ELSE LET p2 == RunPass(items, p1.tab) IN IF p2.unk THEN Failed ELSE p2.out

------------------------------------------------------------------------------------------------------
(* Part 2: the meaning, without handles.  An executed statement = an event with its scope: the chain of the  *)
(* expansion instances WITH A SPACE OF THEIR OWN around it, outermost first; an instance is named by its      *)
(* dynamic path <<position in the parent's body, repetition>>...                                            *)
RECURSIVE FlatSeq(_, _, _, _), FlatItem(_, _, _, _), FlatIter(_, _, _, _, _)
FlatSeq(items, k, path, scope) ==
  IF k > Len(items) THEN <<>> ELSE FlatItem(items[k], k, path, scope) \o FlatSeq(items, k + 1, path, scope)
FlatIter(it, pos, i, path, scope) ==
  IF i > it.n THEN <<>>
  ELSE LET p2 == Append(path, <<pos, i>>)
       IN  FlatSeq(it.body, 1, p2, IF OwnSpace(it.g) THEN Append(scope, p2) ELSE scope) \o FlatIter(it, pos, i + 1, path, scope)
FlatItem(it, pos, path, scope) ==
  IF it.k \in {"LEAF", "DEF", "REF"} THEN <<[k |-> it.k, n |-> it.n, name |-> it.name, how |-> it.how, scope |-> scope]>>
  ELSE FlatIter(it, pos, 1, path, scope)
Events(items) == FlatSeq(items, 1, <<>>, <<>>)

IsPrefix(a, b) == Len(a) <= Len(b) /\ SubSeq(b, 1, Len(a)) = a
AddrOf(ev, i) == Cardinality({j \in 1..(i - 1) : ev[j].k # "DEF"})            \* ORG 0, every LEAF / REF is one byte
\* the definitions a reference can mean: same name, in an instance around the reference (or at file level)
Candidates(ev, i, ahead) ==
  {j \in 1..Len(ev) : ev[j].k = "DEF" /\ ev[j].name = ev[i].name /\ IsPrefix(ev[j].scope, ev[i].scope) /\ (ahead \/ j < i)}
Nearest(ev, i, ahead) ==
  LET C == Candidates(ev, i, ahead) IN {j \in C : \A j2 \in C : Len(ev[j2].scope) <= Len(ev[j].scope)}
NoDoubleDef(ev) ==
  \A i, j \in 1..Len(ev) : (i # j /\ ev[i].k = "DEF" /\ ev[j].k = "DEF" /\ ev[i].name = ev[j].name) => ev[i].scope # ev[j].scope
\* a value may be written ahead of the definition (further pass); the tests look at what is defined so far
Meaning(ev, i) ==
  LET how == ev[i].how
      D   == Nearest(ev, i, how = "val")
  IN  CASE how = "val"     -> IF D = {} THEN -1 ELSE AddrOf(ev, CHOOSE j \in D : TRUE) % 256
        [] how = "ifdef"   -> IF D = {} THEN 0 ELSE 1
        [] how = "defined" -> IF D = {} THEN 0 ELSE 1
        [] how = "symtype" -> IF D = {} THEN 255 ELSE 1
        [] how = "ifused"  -> IF D # {} /\ \E j \in 1..(i - 1) : ev[j].k = "REF" /\ ev[j].how = "val" /\ Nearest(ev, j, TRUE) = D
                              THEN 1 ELSE 0
RECURSIVE MeanFrom(_, _)
MeanFrom(ev, i) ==
  IF i > Len(ev) THEN <<>>
  ELSE (CASE ev[i].k = "LEAF" -> <<ev[i].n>> [] ev[i].k = "REF" -> <<Meaning(ev, i)>> [] OTHER -> <<>>) \o MeanFrom(ev, i + 1)
Meant(items) ==
  LET ev == Events(items)
      m  == MeanFrom(ev, 1)
  IN  IF \E k \in 1..Len(m) : m[k] = -1 THEN Failed ELSE m

------------------------------------------------------------------------------------------------------
(* the wrap: the text as the body of a macro without parameters that is called once                        *)
Wrappers == {"plain", "include", "macro", "macro-global", "macro-noglobal"}
WrapMode(w) == CASE w = "macro" -> "default" [] w = "macro-global" -> "global" [] w = "macro-noglobal" -> "noglobal"
Wrapped(items, w) == IF w \in {"plain", "include"} THEN items ELSE <<Item("MACRO", 1, WrapMode(w), "", "", items)>>

------------------------------------------------------------------------------------------------------
(* Part 3: scoped programs.  P = [chain, d, r, how, dir, pos, shadow]                                       *)
(*   chain   constructs C1 > C2 > .. > Cn (n <= 3), each [k, g]; level 0 = the text itself, level i = body   *)
(*           of Ci.   d = level of the definition,  r >= d = level of the reference (distance r - d)         *)
(*   dir     "back": the definition is written before the reference;  "fwd": behind it (value only)         *)
(*   pos     "pre" / "post": the reference stands before / behind the nested construct of its level          *)
(*   shadow  the name is defined at level 0 as well (d >= 1): the nearer definition is meant                 *)
LabelName == "qlab"
\* repetitions of Ci: 2, but 1 where a second run would define a label or a macro twice
Reps(P, i) ==
  LET n == Len(P.chain) IN
  IF P.chain[i].k = "MACRO" THEN 1
  ELSE IF (~OwnSpace(P.chain[i].g) /\ i <= P.d) \/ (\E j \in (i + 1)..n : P.chain[j].k = "MACRO") THEN 1 ELSE 2
RECURSIVE LevelBody(_, _)
LevelBody(P, i) ==
  LET n    == Len(P.chain)
      here == P.r = i
      ref  == <<Ref(LabelName, P.how)>>
      def  == <<Def(LabelName)>> \o (IF P.how = "ifused" THEN <<Ref(LabelName, "val")>> ELSE <<>>)
  IN  <<Leaf(10 + i)>>
      \o (IF P.shadow /\ i = 0 THEN <<Def(LabelName)>> ELSE <<>>)
      \o (IF P.d = i /\ P.dir = "back" THEN def ELSE <<>>)
      \o (IF here /\ P.pos = "pre" THEN ref ELSE <<>>)
      \o (IF i < n THEN <<Item(P.chain[i + 1].k, Reps(P, i + 1), P.chain[i + 1].g, "", "", LevelBody(P, i + 1))>> ELSE <<>>)
      \o (IF here /\ P.pos = "post" THEN ref ELSE <<>>)
      \o (IF P.d = i /\ P.dir = "fwd" THEN def ELSE <<>>)
      \o <<Leaf(20 + i)>>
      \o (IF i = 0 /\ P.d >= 1 THEN <<Ref(LabelName, "ifdef")>> ELSE <<>>)     \* probe: is the label visible outside?
Program(P) == LevelBody(P, 0)

WellFormed(P) ==
  LET n == Len(P.chain) IN
  /\ P.d \in 0..n /\ P.r \in P.d..n
  /\ (P.dir = "fwd" => P.how = "val" /\ ~P.shadow)
  /\ (P.pos = "post" => P.r < n)
  /\ (P.shadow => P.d >= 1 /\ \E i \in 1..P.d : OwnSpace(P.chain[i].g))
\* what the manual does not describe: control parameters of WHILE -> a difference there is SPEC-DRIFT only
Described(P) == \A i \in 1..Len(P.chain) : P.chain[i].k = "WHILE" => P.chain[i].g = "default"
===============================================================================
