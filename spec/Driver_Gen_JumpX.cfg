\* C02 cover of EXPECT blocks around jump errors (see Driver_MC_JumpX.cfg): one file x <= 3 line classes x -Y x -maxerrors {0,2}
CONSTANTS MaxLines = 3 MaxFiles = 1 Wrap = 0 Leaky = {} MaxLater = 3 BigFirst = TRUE HistView = TRUE
CONSTANTS Kinds <- KindsJumpX OptSpace <- OptsJumpX
INIT GInit
NEXT GNext
VIEW GViewText
ACTION_CONSTRAINT TCover
CHECK_DEADLOCK FALSE
