CONSTANTS Tier = 1 EmitOut = TRUE SkipNearest = FALSE
INIT Init
NEXT Next
INVARIANTS ScopeAgree WrapImmaterial ProgramValid Dump
CHECK_DEADLOCK FALSE
