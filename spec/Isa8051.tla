------------------------------- MODULE Isa8051 -------------------------------
(* Intel MCS-51 (8051 / 8052) instruction set, written from the manufacturer's instruction-set definition (MCS-51     *)
(* Programmer's Guide and Instruction Set: instruction descriptions + "Instruction opcodes in hexadecimal order"),     *)
(* NOT from /repo/code51.c.  The 80C251 / DS80C390 extensions are not part of this table.                              *)
(*                                                                                                                     *)
(* Operand notation of the manufacturer:                                                                               *)
(*   A accumulator, Rn = R0..R7 (opcode bits 2..0), @Ri = @R0 / @R1 (opcode bit 0), direct = 8-bit internal address    *)
(*   (RAM 00..7F, SFR 80..FF), #data = 8-bit constant, #data16 = 16-bit constant (HIGH byte first), bit = 8-bit bit     *)
(*   address, /bit = the complement of that bit, rel = signed 8-bit displacement counted from the first byte of the    *)
(*   FOLLOWING instruction, addr16 = 16-bit destination (HIGH byte first), addr11 = destination in the 2K page of the   *)
(*   first byte of the FOLLOWING instruction (a10..a8 are opcode bits 7..5, a7..a0 the second byte), DPTR, @A+DPTR,    *)
(*   @A+PC, C (carry), AB.                                                                                              *)
(* Opcode map: columns 8..F are the Rn forms, 6 / 7 the @Ri forms, 5 the direct forms, 4 the #data / accumulator forms, *)
(* 1 AJMP (even rows) / ACALL (odd rows); 255 of the 256 opcodes are defined, A5 is not.  111 instructions (49 of one   *)
(* byte, 46 of two, 16 of three by the map).  MOV direct,direct stores the SOURCE address first (85 src dest).          *)
(*                                                                                                                     *)
(* Two statements of the instruction set stand side by side and are compared by TLC (Isa8051_Gen):                      *)
(*   Forms     the instructions by operand form, as the instruction descriptions give them (encoder: IsaCommon!Encode)  *)
(*   MnTab / LenTab   the opcode map 00..FF by rows of 16, as the "hexadecimal order" table gives it                    *)
(* plus the hardware reading of a control transfer (HwTarget: what the CPU does with the bytes).                        *)
EXTENDS IsaCommon

AddrMax == 65535
UnitBits == 8
All == {"8051", "8051:a", "8051:b", "8051:c", "8051:d", "8052"}

\* ------------------------------------------------------------------------------------------------ operand fields
Rn   == FEnum(<< <<"R0",0>>, <<"R1",1>>, <<"R2",2>>, <<"R3",3>>, <<"R4",4>>, <<"R5",5>>, <<"R6",6>>, <<"R7",7>> >>, 3)
Ri   == FEnum(<< <<"@R0",0>>, <<"@R1",1>> >>, 1)
Dir  == FUns(8)          \* direct address 00..FF
Imm  == FUns(8)          \* #data
Imm16 == FUns(16)        \* #data16
BitA == FUns(8)          \* bit address 00..FF
A16  == FUns(16)         \* addr16
A11  == FPage(11, 2)     \* addr11: same 2K page as the instruction that follows the 2-byte AJMP / ACALL
Rel(len) == FRel(8, len) \* rel: counted from the instruction that follows (len = length of this one)

B(id, mn, args, flds, enc, flow, tf) ==
  [id |-> id, mn |-> mn, cpus |-> All, args |-> args, flds |-> flds, enc |-> enc, flow |-> flow, tf |-> tf,
   alias |-> FALSE]
Byte(f) == U(0, <<P(f, 0, 8, 0)>>)
Hi(f)   == U(0, <<P(f, 8, 8, 0)>>)
Acc == Lit("A")
Cy  == Lit("C")
Im(f) == Arg("#", f, "")

\* one-byte instructions without operand field
Fix(id, mn, args, code, flow) == B(id, mn, args, <<>>, <<U(code, <<>>)>>, flow, 0)
\* <mn> A,<src>: Rn = base+8+n, direct = base+5, @Ri = base+6+i, #data = base+4
AccSrc(mn, base) ==
  { B(mn \o " A,Rn",     mn, <<Acc, Op(1)>>, <<Rn>>,  <<U(base + 8, <<P(1, 0, 3, 0)>>)>>, "next", 0),
    B(mn \o " A,direct", mn, <<Acc, Op(1)>>, <<Dir>>, <<U(base + 5, <<>>), Byte(1)>>, "next", 0),
    B(mn \o " A,@Ri",    mn, <<Acc, Op(1)>>, <<Ri>>,  <<U(base + 6, <<P(1, 0, 1, 0)>>)>>, "next", 0),
    B(mn \o " A,#data",  mn, <<Acc, Im(1)>>, <<Imm>>, <<U(base + 4, <<>>), Byte(1)>>, "next", 0) }
\* <mn> direct,A = base+2; <mn> direct,#data = base+3
DirDst(mn, base) ==
  { B(mn \o " direct,A",     mn, <<Op(1), Acc>>,   <<Dir>>,      <<U(base + 2, <<>>), Byte(1)>>, "next", 0),
    B(mn \o " direct,#data", mn, <<Op(1), Im(2)>>, <<Dir, Imm>>, <<U(base + 3, <<>>), Byte(1), Byte(2)>>, "next", 0) }
\* INC / DEC: A = base+4, direct = base+5, @Ri = base+6+i, Rn = base+8+n
IncDec(mn, base) ==
  { Fix(mn \o " A", mn, <<Acc>>, base + 4, "next"),
    B(mn \o " direct", mn, <<Op(1)>>, <<Dir>>, <<U(base + 5, <<>>), Byte(1)>>, "next", 0),
    B(mn \o " @Ri",    mn, <<Op(1)>>, <<Ri>>,  <<U(base + 6, <<P(1, 0, 1, 0)>>)>>, "next", 0),
    B(mn \o " Rn",     mn, <<Op(1)>>, <<Rn>>,  <<U(base + 8, <<P(1, 0, 3, 0)>>)>>, "next", 0) }
\* conditional jumps on flags: opcode rel
CondRel(mn, code) == B(mn \o " rel", mn, <<Op(1)>>, <<Rel(2)>>, <<U(code, <<>>), Byte(1)>>, "cond", 1)
\* conditional jumps on a bit: opcode bit rel
BitRel(mn, code) == B(mn \o " bit,rel", mn, <<Op(1), Op(2)>>, <<BitA, Rel(3)>>, <<U(code, <<>>), Byte(1), Byte(2)>>, "cond", 2)
\* one bit operand: opcode bit
BitOp(id, mn, args, code) == B(id, mn, args, <<BitA>>, <<U(code, <<>>), Byte(1)>>, "next", 0)
\* AJMP / ACALL: a10 a9 a8 t 0001, a7..a0
Abs11(mn, t, flow) ==
  B(mn \o " addr11", mn, <<Op(1)>>, <<A11>>, <<U(t * 16 + 1, <<P(1, 8, 3, 5)>>), U(0, <<P(1, 0, 8, 0)>>)>>, flow, 1)
Abs16(mn, code, flow) == B(mn \o " addr16", mn, <<Op(1)>>, <<A16>>, <<U(code, <<>>), Hi(1), Byte(1)>>, flow, 1)

Forms ==
  \* ---- arithmetic (24)
  AccSrc("ADD", 32) \cup AccSrc("ADDC", 48) \cup AccSrc("SUBB", 144)
  \cup IncDec("INC", 0) \cup IncDec("DEC", 16)
  \cup { Fix("INC DPTR", "INC", <<Lit("DPTR")>>, 163, "next"),
         Fix("MUL AB", "MUL", <<Lit("AB")>>, 164, "next"), Fix("DIV AB", "DIV", <<Lit("AB")>>, 132, "next"),
         Fix("DA A", "DA", <<Acc>>, 212, "next") }
  \* ---- logic (25)
  \cup AccSrc("ORL", 64) \cup AccSrc("ANL", 80) \cup AccSrc("XRL", 96)
  \cup DirDst("ORL", 64) \cup DirDst("ANL", 80) \cup DirDst("XRL", 96)
  \cup { Fix("CLR A", "CLR", <<Acc>>, 228, "next"), Fix("CPL A", "CPL", <<Acc>>, 244, "next"),
         Fix("RL A", "RL", <<Acc>>, 35, "next"), Fix("RLC A", "RLC", <<Acc>>, 51, "next"),
         Fix("RR A", "RR", <<Acc>>, 3, "next"), Fix("RRC A", "RRC", <<Acc>>, 19, "next"),
         Fix("SWAP A", "SWAP", <<Acc>>, 196, "next") }
  \* ---- data transfer (28)
  \cup { B("MOV A,Rn", "MOV", <<Acc, Op(1)>>, <<Rn>>, <<U(232, <<P(1, 0, 3, 0)>>)>>, "next", 0),
         B("MOV A,direct", "MOV", <<Acc, Op(1)>>, <<Dir>>, <<U(229, <<>>), Byte(1)>>, "next", 0),
         B("MOV A,@Ri", "MOV", <<Acc, Op(1)>>, <<Ri>>, <<U(230, <<P(1, 0, 1, 0)>>)>>, "next", 0),
         B("MOV A,#data", "MOV", <<Acc, Im(1)>>, <<Imm>>, <<U(116, <<>>), Byte(1)>>, "next", 0),
         B("MOV Rn,A", "MOV", <<Op(1), Acc>>, <<Rn>>, <<U(248, <<P(1, 0, 3, 0)>>)>>, "next", 0),
         B("MOV Rn,direct", "MOV", <<Op(1), Op(2)>>, <<Rn, Dir>>, <<U(168, <<P(1, 0, 3, 0)>>), Byte(2)>>, "next", 0),
         B("MOV Rn,#data", "MOV", <<Op(1), Im(2)>>, <<Rn, Imm>>, <<U(120, <<P(1, 0, 3, 0)>>), Byte(2)>>, "next", 0),
         B("MOV direct,A", "MOV", <<Op(1), Acc>>, <<Dir>>, <<U(245, <<>>), Byte(1)>>, "next", 0),
         B("MOV direct,Rn", "MOV", <<Op(1), Op(2)>>, <<Dir, Rn>>, <<U(136, <<P(2, 0, 3, 0)>>), Byte(1)>>, "next", 0),
         \* destination first in the source text, SOURCE first in the code
         B("MOV direct,direct", "MOV", <<Op(1), Op(2)>>, <<Dir, Dir>>, <<U(133, <<>>), Byte(2), Byte(1)>>, "next", 0),
         B("MOV direct,@Ri", "MOV", <<Op(1), Op(2)>>, <<Dir, Ri>>, <<U(134, <<P(2, 0, 1, 0)>>), Byte(1)>>, "next", 0),
         B("MOV direct,#data", "MOV", <<Op(1), Im(2)>>, <<Dir, Imm>>, <<U(117, <<>>), Byte(1), Byte(2)>>, "next", 0),
         B("MOV @Ri,A", "MOV", <<Op(1), Acc>>, <<Ri>>, <<U(246, <<P(1, 0, 1, 0)>>)>>, "next", 0),
         B("MOV @Ri,direct", "MOV", <<Op(1), Op(2)>>, <<Ri, Dir>>, <<U(166, <<P(1, 0, 1, 0)>>), Byte(2)>>, "next", 0),
         B("MOV @Ri,#data", "MOV", <<Op(1), Im(2)>>, <<Ri, Imm>>, <<U(118, <<P(1, 0, 1, 0)>>), Byte(2)>>, "next", 0),
         B("MOV DPTR,#data16", "MOV", <<Lit("DPTR"), Im(1)>>, <<Imm16>>, <<U(144, <<>>), Hi(1), Byte(1)>>, "next", 0),
         Fix("MOVC A,@A+DPTR", "MOVC", <<Acc, Lit("@A+DPTR")>>, 147, "next"),
         Fix("MOVC A,@A+PC", "MOVC", <<Acc, Lit("@A+PC")>>, 131, "next"),
         B("MOVX A,@Ri", "MOVX", <<Acc, Op(1)>>, <<Ri>>, <<U(226, <<P(1, 0, 1, 0)>>)>>, "next", 0),
         Fix("MOVX A,@DPTR", "MOVX", <<Acc, Lit("@DPTR")>>, 224, "next"),
         B("MOVX @Ri,A", "MOVX", <<Op(1), Acc>>, <<Ri>>, <<U(242, <<P(1, 0, 1, 0)>>)>>, "next", 0),
         Fix("MOVX @DPTR,A", "MOVX", <<Lit("@DPTR"), Acc>>, 240, "next"),
         B("PUSH direct", "PUSH", <<Op(1)>>, <<Dir>>, <<U(192, <<>>), Byte(1)>>, "next", 0),
         B("POP direct", "POP", <<Op(1)>>, <<Dir>>, <<U(208, <<>>), Byte(1)>>, "next", 0),
         B("XCH A,Rn", "XCH", <<Acc, Op(1)>>, <<Rn>>, <<U(200, <<P(1, 0, 3, 0)>>)>>, "next", 0),
         B("XCH A,direct", "XCH", <<Acc, Op(1)>>, <<Dir>>, <<U(197, <<>>), Byte(1)>>, "next", 0),
         B("XCH A,@Ri", "XCH", <<Acc, Op(1)>>, <<Ri>>, <<U(198, <<P(1, 0, 1, 0)>>)>>, "next", 0),
         B("XCHD A,@Ri", "XCHD", <<Acc, Op(1)>>, <<Ri>>, <<U(214, <<P(1, 0, 1, 0)>>)>>, "next", 0) }
  \* ---- boolean variable manipulation (17)
  \cup { Fix("CLR C", "CLR", <<Cy>>, 195, "next"), BitOp("CLR bit", "CLR", <<Op(1)>>, 194),
         Fix("SETB C", "SETB", <<Cy>>, 211, "next"), BitOp("SETB bit", "SETB", <<Op(1)>>, 210),
         Fix("CPL C", "CPL", <<Cy>>, 179, "next"), BitOp("CPL bit", "CPL", <<Op(1)>>, 178),
         BitOp("ANL C,bit", "ANL", <<Cy, Op(1)>>, 130), BitOp("ANL C,/bit", "ANL", <<Cy, Arg("/", 1, "")>>, 176),
         BitOp("ORL C,bit", "ORL", <<Cy, Op(1)>>, 114), BitOp("ORL C,/bit", "ORL", <<Cy, Arg("/", 1, "")>>, 160),
         BitOp("MOV C,bit", "MOV", <<Cy, Op(1)>>, 162), BitOp("MOV bit,C", "MOV", <<Op(1), Cy>>, 146),
         CondRel("JC", 64), CondRel("JNC", 80),
         BitRel("JB", 32), BitRel("JNB", 48), BitRel("JBC", 16) }
  \* ---- program branching (17)
  \cup { Abs11("ACALL", 1, "call"), Abs16("LCALL", 18, "call"),
         Fix("RET", "RET", <<>>, 34, "ret"), Fix("RETI", "RETI", <<>>, 50, "ret"),
         Abs11("AJMP", 0, "jump"), Abs16("LJMP", 2, "jump"),
         B("SJMP rel", "SJMP", <<Op(1)>>, <<Rel(2)>>, <<U(128, <<>>), Byte(1)>>, "jump", 1),
         Fix("JMP @A+DPTR", "JMP", <<Lit("@A+DPTR")>>, 115, "stop"),
         CondRel("JZ", 96), CondRel("JNZ", 112),
         B("CJNE A,direct,rel", "CJNE", <<Acc, Op(1), Op(2)>>, <<Dir, Rel(3)>>, <<U(181, <<>>), Byte(1), Byte(2)>>, "cond", 2),
         B("CJNE A,#data,rel", "CJNE", <<Acc, Im(1), Op(2)>>, <<Imm, Rel(3)>>, <<U(180, <<>>), Byte(1), Byte(2)>>, "cond", 2),
         B("CJNE Rn,#data,rel", "CJNE", <<Op(1), Im(2), Op(3)>>, <<Rn, Imm, Rel(3)>>,
           <<U(184, <<P(1, 0, 3, 0)>>), Byte(2), Byte(3)>>, "cond", 3),
         B("CJNE @Ri,#data,rel", "CJNE", <<Op(1), Im(2), Op(3)>>, <<Ri, Imm, Rel(3)>>,
           <<U(182, <<P(1, 0, 1, 0)>>), Byte(2), Byte(3)>>, "cond", 3),
         B("DJNZ Rn,rel", "DJNZ", <<Op(1), Op(2)>>, <<Rn, Rel(2)>>, <<U(216, <<P(1, 0, 3, 0)>>), Byte(2)>>, "cond", 2),
         B("DJNZ direct,rel", "DJNZ", <<Op(1), Op(2)>>, <<Dir, Rel(3)>>, <<U(213, <<>>), Byte(1), Byte(2)>>, "cond", 2),
         Fix("NOP", "NOP", <<>>, 0, "next") }

FormById(id) == CHOOSE f \in Forms : f.id = id

\* ------------------------------------------------------------------------------------------------ the opcode map
\* "Instruction opcodes in hexadecimal order": mnemonic and number of bytes of every opcode, rows 0x .. Fx of 16 columns
\* ("" / 0: A5, the one undefined opcode)
Tail8(mn) == <<mn, mn, mn, mn, mn, mn, mn, mn>>
MnRows ==
  << <<"NOP",  "AJMP",  "LJMP",  "RR",   "INC",  "INC",  "INC",  "INC">>  \o Tail8("INC"),
     <<"JBC",  "ACALL", "LCALL", "RRC",  "DEC",  "DEC",  "DEC",  "DEC">>  \o Tail8("DEC"),
     <<"JB",   "AJMP",  "RET",   "RL",   "ADD",  "ADD",  "ADD",  "ADD">>  \o Tail8("ADD"),
     <<"JNB",  "ACALL", "RETI",  "RLC",  "ADDC", "ADDC", "ADDC", "ADDC">> \o Tail8("ADDC"),
     <<"JC",   "AJMP",  "ORL",   "ORL",  "ORL",  "ORL",  "ORL",  "ORL">>  \o Tail8("ORL"),
     <<"JNC",  "ACALL", "ANL",   "ANL",  "ANL",  "ANL",  "ANL",  "ANL">>  \o Tail8("ANL"),
     <<"JZ",   "AJMP",  "XRL",   "XRL",  "XRL",  "XRL",  "XRL",  "XRL">>  \o Tail8("XRL"),
     <<"JNZ",  "ACALL", "ORL",   "JMP",  "MOV",  "MOV",  "MOV",  "MOV">>  \o Tail8("MOV"),
     <<"SJMP", "AJMP",  "ANL",   "MOVC", "DIV",  "MOV",  "MOV",  "MOV">>  \o Tail8("MOV"),
     <<"MOV",  "ACALL", "MOV",   "MOVC", "SUBB", "SUBB", "SUBB", "SUBB">> \o Tail8("SUBB"),
     <<"ORL",  "AJMP",  "MOV",   "INC",  "MUL",  "",     "MOV",  "MOV">>  \o Tail8("MOV"),
     <<"ANL",  "ACALL", "CPL",   "CPL",  "CJNE", "CJNE", "CJNE", "CJNE">> \o Tail8("CJNE"),
     <<"PUSH", "AJMP",  "CLR",   "CLR",  "SWAP", "XCH",  "XCH",  "XCH">>  \o Tail8("XCH"),
     <<"POP",  "ACALL", "SETB",  "SETB", "DA",   "DJNZ", "XCHD", "XCHD">> \o Tail8("DJNZ"),
     <<"MOVX", "AJMP",  "MOVX",  "MOVX", "CLR",  "MOV",  "MOV",  "MOV">>  \o Tail8("MOV"),
     <<"MOVX", "ACALL", "MOVX",  "MOVX", "CPL",  "MOV",  "MOV",  "MOV">>  \o Tail8("MOV") >>
LenRows ==
  << <<1, 2, 3, 1, 1, 2, 1, 1>> \o Tail8(1),
     <<3, 2, 3, 1, 1, 2, 1, 1>> \o Tail8(1),
     <<3, 2, 1, 1, 2, 2, 1, 1>> \o Tail8(1),
     <<3, 2, 1, 1, 2, 2, 1, 1>> \o Tail8(1),
     <<2, 2, 2, 3, 2, 2, 1, 1>> \o Tail8(1),
     <<2, 2, 2, 3, 2, 2, 1, 1>> \o Tail8(1),
     <<2, 2, 2, 3, 2, 2, 1, 1>> \o Tail8(1),
     <<2, 2, 2, 1, 2, 3, 2, 2>> \o Tail8(2),
     <<2, 2, 2, 1, 1, 3, 2, 2>> \o Tail8(2),
     <<3, 2, 2, 1, 2, 2, 1, 1>> \o Tail8(1),
     <<2, 2, 2, 1, 1, 0, 2, 2>> \o Tail8(2),
     <<2, 2, 2, 1, 3, 3, 3, 3>> \o Tail8(3),
     <<2, 2, 2, 1, 1, 2, 1, 1>> \o Tail8(1),
     <<2, 2, 2, 1, 1, 3, 1, 1>> \o Tail8(2),
     <<1, 2, 1, 1, 1, 2, 1, 1>> \o Tail8(1),
     <<1, 2, 1, 1, 1, 2, 1, 1>> \o Tail8(1) >>
MnTab(x)  == MnRows[(x \div 16) + 1][(x % 16) + 1]
LenTab(x) == LenRows[(x \div 16) + 1][(x % 16) + 1]
Undefined == {165}
Defined == (0..255) \ Undefined

\* ------------------------------------------------------------------------------------------------ decoder
\* forms an opcode byte can start (table sanity demands exactly one for a defined opcode, none for A5)
FormsAt(x) == FormsMatching(Forms, x, UnitBits)
\* Decode(bytes at pc) = the instruction: form + operand values (PC-relative / in-page operands as TARGET ADDRESSES)
\* (no instruction: a record too, TLC does not compare a record with a string)
NoInstr == [id |-> "", len |-> 0, ops |-> <<>>]
DecodeWith(cands, units, pc) ==
  LET S == {f \in cands : Matches(f, units, pc, AddrMax)} IN
    IF Cardinality(S) # 1 THEN NoInstr
    ELSE LET f == CHOOSE g \in S : TRUE IN [id |-> f.id, len |-> Len(f.enc), ops |-> Extract(f, units, pc)]
Decode(units, pc) == IF units = <<>> THEN NoInstr ELSE DecodeWith(FormsAt(units[1]), units, pc)

\* ------------------------------------------------------------------------------------------------ hardware reading
\* where the CPU continues when the branch of the instruction (bytes at pc) is taken: the manual's operation
\* descriptions  (PC) <- (PC) + length;  SJMP / Jcc / CJNE / DJNZ: (PC) <- (PC) + rel (rel = LAST byte, two's complement);
\* AJMP / ACALL: (PC10-0) <- page address, the upper five bits stay those of the INCREMENTED PC;  LJMP / LCALL: (PC) <- addr16
HwNext(units, pc) == pc + LenTab(units[1])
HwTarget(units, pc) ==
  LET x == units[1]  m == MnTab(x) IN
    IF m \in {"AJMP", "ACALL"} THEN (HwNext(units, pc) \div 2048) * 2048 + (x \div 32) * 256 + units[2]
    ELSE IF m \in {"LJMP", "LCALL"} THEN units[2] * 256 + units[3]
    ELSE IF m \in {"SJMP", "JC", "JNC", "JZ", "JNZ", "JB", "JNB", "JBC", "CJNE", "DJNZ"}
         THEN HwNext(units, pc) + SignExt(units[LenTab(x)], 8)
    ELSE -1

\* ------------------------------------------------------------------------------------------------ bit addresses
\* The bit-addressable locations (hardware description, memory organisation): the 16 bytes 20H..2FH of the internal
\* RAM hold bits 00H..7FH (bit b of byte 20H + n is bit address 8n + b); bit addresses 80H..FFH belong to the special
\* function registers whose address is divisible by 8 (80H, 88H, ... F8H): bit b of SFR s is bit address s + b.
BitRamBytes == 32..47
BitSfrBytes == {s \in 128..255 : s % 8 = 0}
BitAddressable(byte) == byte \in BitRamBytes \cup BitSfrBytes
\* bit address of "byte.b" (-1: there is no such bit)
BitAddrOf(byte, b) ==
  IF b \notin 0..7 THEN -1
  ELSE IF byte \in BitRamBytes THEN (byte - 32) * 8 + b
  ELSE IF byte \in BitSfrBytes THEN byte + b
  ELSE -1
\* the declarative inverse: which byte / bit a bit address names
ByteOfBit(a) == IF a < 128 THEN 32 + a \div 8 ELSE (a \div 8) * 8
NoOfBit(a) == a % 8

After(cpu, prev, form, units) == units
Skipped(cpu, form, ops) == FALSE
Unjudged(cpu, form, ops) == FALSE
=============================================================================
