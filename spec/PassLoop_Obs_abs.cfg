\* verdict on decoded layouts, abs class
CONSTANTS
  VarMode = "abs8"
  VarShort = 2
  VarLong = 3
  Padding = FALSE
  Labels = {"la", "lb", "lc"}
  Fills = {}
  AbsWidths = {2, 4}
  EquOffs = {}
  SelfKinds = {}
  Pages = {}
INIT OInit
NEXT ONext
POSTCONDITION Accepted
CHECK_DEADLOCK FALSE
