----------------------------- MODULE IntMode_MC -----------------------------
(* Histories of setting statements: an initial `CPU f0`, then up to MaxLen statements of Stmts (the last one of a  *)
(* history of full length is taken from Stmts3, a subset in the quick tier), then constants in every notation.    *)
(* Every history is a state; TLC checks on each that the code's list is the manual's function of (native,        *)
(* relaxed, plus, minus), that statement verdicts agree, that every literal with a definite reading is read alike *)
(* by the transcription of ConstIntVal - and prints the history with the expected outcome of every literal for    *)
(* replay into the real asl (Emit).                                                                              *)
EXTENDS IntMode, TLC, Json, SequencesExt
CONSTANTS Fams0, MaxLen, Quick

Stmts ==
  {StCpu(f) : f \in Fams} \cup {StRelaxed(TRUE), StRelaxed(FALSE)} \cup
  {StIntSyntax({}, {"0bbin"}),            \* one more notation (native on C targets)
   StIntSyntax({"octo"}, {}),             \* remove an Intel notation
   StIntSyntax({}, {"$hex"}),             \* add a Motorola notation
   StIntSyntax({"$hex"}, {}),             \* remove it (native on Motorola targets, a no-op elsewhere)
   StIntSyntax({"hexh"}, {"x'hex'"}),     \* two arguments
   StIntSyntax({"0oct"}, {"0hex"}),       \* the manual's example
   StIntSyntax({}, {"0oct"})}             \* contradicts an enabled 0hex
Stmts3 == IF Quick THEN {StCpu("Intel"), StRelaxed(TRUE), StRelaxed(FALSE), StIntSyntax({}, {"0bbin"}),
                         StIntSyntax({"0oct"}, {"0hex"})}
          ELSE Stmts

\* constants in every notation of the table: 10 and 77 (010 = 8 / 16 / 10, 077 = 63 / 119 / 77, 77b is no number)
DigitLists == {<<1, 0>>, <<7, 7>>}
LitSeq == SetToSeq({Spell(Notations[k], ds) : k \in 1..NNot, ds \in DigitLists})
Radix == 10

VARIABLES f0, hist
vars == <<f0, hist>>
Init == f0 \in Fams0 /\ hist = <<>>
Next == /\ Len(hist) < MaxLen
        /\ \E s \in (IF Len(hist) = MaxLen - 1 /\ MaxLen > 2 THEN Stmts3 ELSE Stmts) : hist' = Append(hist, s)
        /\ UNCHANGED f0
Spec == Init /\ [][Next]_vars

RECURSIVE DocRun(_, _), CodeRun(_, _)
DocRun(d, h) == IF h = <<>> THEN d ELSE DocRun(DocStep(d, Head(h)), Tail(h))
CodeRun(c, h) == IF h = <<>> THEN c ELSE CodeRun(CodeStep(c, Head(h)), Tail(h))
DocAt(n) == DocRun(DocInit(f0), SubSeq(hist, 1, n))
CodeAt(n) == CodeRun(CodeInit(f0), SubSeq(hist, 1, n))
D == DocAt(Len(hist))
C == CodeAt(Len(hist))

\* (1) the list is the documented function of the three, after every history
ListIsFunctionOfSettings == Agree(D, C)
\* (2) a statement is rejected by the code exactly when the manual forbids it (0oct together with 0hex)
VerdictsAgree == \A n \in 1..Len(hist) :
  LET d == DocAt(n - 1) v == DocVerdict(d, hist[n]) IN
  (~d.open /\ v # "open") => (CodeOk(CodeAt(n - 1), hist[n]) <=> v = "ok")
\* (3) literals: wherever the manual's reading is definite the transcription of ConstIntVal over the code's list agrees
LiteralsAgree == \A i \in DOMAIN LitSeq :
  LET doc == DocLitIn(LitSeq[i], Radix, D) IN
  doc.k # "unspec" => (CodeLit(LitSeq[i], Radix, C.list) = doc \/ DevLetterFirst(LitSeq[i], Radix, C.list))
\* the function is not vacuous: it depends on each of the three
Verdict(n) == LET d == DocAt(n - 1) IN IF d.open THEN "open" ELSE DocVerdict(d, hist[n])

Emit ==
  PrintT(<<"OUT", ToJson([f0 |-> f0, hist |-> hist, verdicts |-> [n \in 1..Len(hist) |-> Verdict(n)],
                          relaxed |-> D.relaxed, open |-> D.open, accepted |-> DocIn(D), undecided |-> DocOpen(D),
                          radix |-> Radix,
                          lits |-> [i \in DOMAIN LitSeq |->
                                     LET doc == DocLitIn(LitSeq[i], Radix, D) IN
                                     [cs |-> LitSeq[i],
                                      o |-> IF doc.k = "val" THEN [k |-> "int", b |-> BytesOf(doc.v)]
                                            ELSE IF doc.k = "unspec" THEN [k |-> "unspec"]
                                            ELSE [k |-> "error"]]]])>>)
=============================================================================
