CONSTANTS MaxLen = 9 MaxDepth = 3 Vals = {"v1", "v2"} OnlyWF = FALSE
INIT Init
NEXT Next
VIEW View
ACTION_CONSTRAINT TCover
CHECK_DEADLOCK FALSE
