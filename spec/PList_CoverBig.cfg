\* replayed exhaustively: one record of (almost) maximal length
CONSTANTS MaxItems = 1 Starts = {300} ByteLens = {65532, 32768} EntryAddrs = {4660}
  CpuSegGran <- CSG_List Forms <- Forms_Both Creators <- Cr_One Dev <- D_None
SPECIFICATION CoverSpec
CHECK_DEADLOCK FALSE
