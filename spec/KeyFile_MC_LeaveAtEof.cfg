\* the reader variant LeaveAtEof against the text: expected to FAIL (an unterminated last line is lost)
CONSTANTS Fixed = {} Prog = "asl" MaxOcc = 1 Alphabet = "all" KThin = 1
SPECIFICATION SpecK
INVARIANTS InvLeaveAtEof
CHECK_DEADLOCK FALSE
