\* the same with counters modulo 8 (stands for the 16-bit Word) and up to 20 repetitions: the closed form also
\* describes the wrap-around
CONSTANTS Wrap = 8 MaxN = 20
SPECIFICATION Spec
INVARIANTS ClosedIsRepeat UserClosedIsRepeat
