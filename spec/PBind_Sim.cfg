\* random wide cases (constants of the bounded space unused): see SimNext
CONSTANTS MaxFiles = 1 MaxItems = 0 Starts = {} ByteLens = {} EntryAddrs = {}
  CpuSegGran <- CSG_Two Forms <- Forms_Both Filters <- F_Two Creators <- Cr_One Quiets <- Q_No Dev <- D_None
SPECIFICATION SimSpec
INVARIANT SimDump
CHECK_DEADLOCK FALSE
