\* the scanner AS CODED against the manual: expected to FAIL (shows the named deviations inside the bound)
CONSTANTS Fixed = {} Prog = "asl" MaxOcc = 3 Alphabet = "core"
SPECIFICATION SpecMC
INVARIANTS CodedIsFold
CHECK_DEADLOCK FALSE
