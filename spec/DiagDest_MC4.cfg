\* C02 diagdest: one file, every sequence of <= 4 line classes out of 10 (KindsDest4) (diagnostics of every class, two-pass lines,
\* LISTING OFF/ON/NOSKIPPED/PURECODE, SAVE, RESTORE) x listing destination {none, -l, -L, -L -olist} x -Werror x -maxerrors {0,2};
\* every run is also printed for replay (TCover)
CONSTANTS MaxLines = 4 MaxFiles = 1 MaxLater = 0 Wrap = 0 Leaky = {} DestRule = "coded"
CONSTANTS Kinds <- KindsDest4 OptSpace <- OptsDest
SPECIFICATION Spec
INVARIANT Claims
ACTION_CONSTRAINT TCover
CHECK_DEADLOCK FALSE
