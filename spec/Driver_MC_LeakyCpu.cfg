\* SetCPUCore() forgetting SwitchIsOccupied: EXPECTED to violate Independent (a file after one that visited the OLMS-50
\* target loses its SWITCH statement)
CONSTANTS MaxLines = 2 MaxFiles = 2 Wrap = 0 Leaky = {"switchocc"}
CONSTANTS Kinds <- KindsHist OptSpace <- OptsTwo
SPECIFICATION Spec
INVARIANTS Independent
CHECK_DEADLOCK FALSE
