\* Dev = {total_format}: TLC must report Conforms violated
CONSTANTS MaxItems = 1 Starts = {300} ByteLens = {4} EntryAddrs = {}
  CpuSegGran <- CSG_List Forms <- Forms_Both Creators <- Cr_One Dev <- D_Total
SPECIFICATION Spec
INVARIANTS Conforms
CHECK_DEADLOCK FALSE
