----------------------------- MODULE Driver_Gen -----------------------------
(* Behaviour export for replay into the real asl (C02, C18).                                              *)
(* A reduced machine - only "append a line class to the current file" and "start the next file" - whose    *)
(* state graph (VIEW: options, counters, open constructs, leaked flags, did-an-earlier-file-fail) is       *)
(* covered transition by transition.  For every AddLine transition TLC prints the run consisting of the    *)
(* finished files plus the current file ending right there, together with the complete expectation         *)
(* Outcome(opts, files) computed by the operators of Driver.tla: exit status, and per file passes, kept     *)
(* code file, summary counts and lines on the error channel.                                                *)
EXTENDS Driver_MC, Json

CONSTANT MaxLater,     \* lines of the files after the first one (<= MaxLines)
         BigFirst,     \* TRUE: bursts of more than 3 repetitions only as the first line of a file
         HistView      \* TRUE: the view also distinguishes what earlier files did (flags set, constructs left
                       \* open, failed) although the ideal model forgets it - that is what C18 replays

\* the variables of Driver_MC are reused: opts, done, cur, st (pass 1), carry, globErr; the others stay as initialised
Idle == UNCHANGED <<acc, pcar, pass, li, results, status, pc>>

GInit == Init

GAdd(ln) == /\ Len(cur) < (IF done = <<>> THEN MaxLines ELSE MaxLater) /\ ~st.d.fatal /\ ~Opened(st.c) /\ BurstOK(st, ln)
            /\ (BigFirst /\ ln.n > 3) => cur = <<>>
            /\ cur' = Append(cur, ln)
            /\ st' = LineStep(opts, st, ln, 1)
            /\ UNCHANGED <<opts, done, carry, globErr>> /\ Idle

GNextFile == /\ cur # <<>> /\ Len(done) + 1 < MaxFiles
             /\ LET r == AsmFile(opts, cur, carry)
                IN /\ ~r.fatal
                   /\ carry' = (carry \ JmpTokens) \cup r.left
                   /\ globErr' = (globErr \/ r.failed)
                   /\ st' = Fresh((carry \ JmpTokens) \cup r.left)
             /\ done' = Append(done, cur) /\ cur' = <<>>
             /\ UNCHANGED opts /\ Idle

LateKinds == {"undef", "shrink"} \cup JumpKinds
GNext == (\E ln \in Kinds : GAdd(ln)) \/ GNextFile
\* what a finished file did to the assembler, as far as a leak could matter
Did(lines) == [flags |-> {lines[i].f : i \in {j \in 1..Len(lines) : lines[j].k = "flag"}},
               opens |-> {lines[i].t : i \in {j \in 1..Len(lines) : lines[j].k = "open"}},
               exp   |-> \E i \in 1..Len(lines) : lines[i].k = "expect",
               err   |-> \E i \in 1..Len(lines) : lines[i].k = "err",
               \* lines whose effect only shows in later passes (pass 1, the only one this cover steps through, treats
               \* them alike): their kinds in order
               late  |-> [i \in 1..Len(SelectSeq(lines, LAMBDA l : l.k \in LateKinds)) |->
                            LET l == SelectSeq(lines, LAMBDA m : m.k \in LateKinds)[i] IN [k |-> l.k, t |-> l.t]]]
GView == <<opts, Len(done), Len(cur), st.d, [st.c EXCEPT !.code = <<>>], carry, globErr,
           IF HistView THEN <<[i \in 1..Len(done) |-> Did(done[i])], Did(cur)>> ELSE <<>>>>

\* the view of the covers whose line classes all differ in what they do in later passes (where labels stand matters
\* there: Driver.tla Discover): the text itself
GViewText == <<opts, done, cur, carry, globErr>>

Run(fs) == [o |-> opts, files |-> fs, exp |-> Outcome(opts, fs)]
TCover == (cur' # cur /\ cur' # <<>>) => PrintT(<<"TR", ToJson(Run(Append(done', cur')))>>)
=============================================================================
