CONSTANTS Fixed = {} HasAttrs = FALSE MaxNum = 700
INIT TInit
NEXT TNext
POSTCONDITION Accepted
CHECK_DEADLOCK FALSE
