CONSTANTS LOCSYMSIGHT = 3 PopVIntoConstant = FALSE NamedTmpByLastGlobal = FALSE EmptyMacroPopsOuter = FALSE
          MaxLen = 4 MaxDepth = 3 Focus = "scope2" CaseModes = {FALSE}
SPECIFICATION Spec
INVARIANTS LookupAgreesWithManual ExtraPassAgrees ConvergesInTwo StackMirrorsText
PROPERTIES ConstNeverChanges RedefIsError
CHECK_DEADLOCK FALSE
