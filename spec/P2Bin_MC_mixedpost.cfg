\* MIXED GRANULARITY x post-processing and several files: <= 2 records of 4 units at 0, 3 (units of 1 / 2 bytes), split over
\* two files with (offset) 2, x -S none / L2 / B3 x -s x -l 90 x -e x window 1-4 / automatic x ALL / ODD
CONSTANTS
  Dev = {}
  MaxRecs = 2
  Starts = {0, 3}
  UnitLens = {4}
  GranSet = {1, 2}
  EntryAddrs = {}
  Offsets = {2}
  FillSet = {90}
  SumOpts = {TRUE, FALSE}
  SegOpts = {1}
  CpuSegs <- CS_One
  Ranges <- R_MixedPost
  LaneSet <- L_Two
  FiltSet <- F_None
  ESet <- E_Mixed
  HdrSet <- H_MixedPost
SPECIFICATION Spec
INVARIANTS Conforms ConformsMixed StepRunAgrees ChunkListOK WindowStableMixed MeasureSoundMixed
CHECK_DEADLOCK FALSE
