--------------------------- MODULE SourceLine_Trace ---------------------------
(* (V) Every line the real SplitLine() processed (hook event `split`) is split by the transcription     *)
(* into exactly the logged fields, under the parameters the active code generator had installed.        *)
(* Events (reformatted only; strings as character-code arrays):                                         *)
(*   [a |-> "SPLIT", raw, p |-> [div, attrchars, hasattrs, cmt, qq], lab, op, attr, args]               *)
(*   [a |-> "PAIR",  raw, orig, p, lab, op, attr, args, nest, fin, fin0]   raw = a rewritten spelling of orig:   *)
(*                   additionally both spellings must be the same statement (SameStatement; NestOK for a  *)
(*                   statement with a compound parameter)                                                *)
(*   [a |-> "FILE",  data, lines]   whole file and the logical lines delivered (reader: ReadLnCont)       *)
(*   [a |-> "RESET"]                                                                                    *)
EXTENDS SourceLine, TLC, Json, IOUtils

VARIABLES l
TraceLog == ndJsonDeserialize(IOEnv.TRACE)

Logged(e) == [lab |-> e.lab, op |-> e.op, attr |-> e.attr, args |-> e.args]
\* e.p.qq is the LIST of quote qualifications the target may have (pinned tree / repaired tree, see
\* AposRegisterOpensQuote): the hook does not log the function pointer.
PWith(e, q) == [div |-> e.p.div, attrchars |-> e.p.attrchars, hasattrs |-> e.p.hasattrs, cmt |-> e.p.cmt, qq |-> q]
SplitOK(e) == \E k \in 1..Len(e.p.qq) : Fields(Split(e.raw, PWith(e, e.p.qq[k]))) = Logged(e)
\* e.nest = "": an ordinary statement.  Otherwise the statement has a compound parameter (SourceLine.tla Part 4)
\* and e.nest names its secondary splitter: the two spellings must RE-SPLIT into the same statement, and what the
\* code generator finally assembled (stmt hook: e.fin = [op, argc] of the rewritten line, e.fin0 of the original)
\* must be that statement's mnemonic and parameter count
ResplitKinds == {"rpt", "c6x", "op", "dct", "pref", "brbit", "bit"}
NestOK(e, PP) ==
  LET r0 == ResplitLine(e.nest, e.orig, PP)
      r1 == ResplitLine(e.nest, e.raw, PP)
  IN  /\ UpStr(Split(e.orig, PP).lab) = UpStr(Split(e.raw, PP).lab)
      /\ NormR(r0) = NormR(r1)
      /\ e.fin = e.fin0
      /\ e.nest \in ResplitKinds => (r1.ok /\ UpStr(e.fin.op) = UpStr(r1.op) /\ e.fin.argc = Len(r1.args))
PairOK(e)  == \E k \in 1..Len(e.p.qq) : /\ Fields(Split(e.raw, PWith(e, e.p.qq[k]))) = Logged(e)
                                         /\ IF e.nest = "" THEN SameStatement(e.orig, e.raw, PWith(e, e.p.qq[k]))
                                            ELSE NestOK(e, PWith(e, e.p.qq[k]))

\* [a |-> "FILE", data, lines]: the characters of a whole source file and the logical lines the assembler
\* delivered for it in pass 1 (`line` hook events): ReadLnCont() applied again and again (buffer capacity carried
\* along) yields exactly these lines; a file whose last line has no line end may be followed by one empty line
FileOK(e) == LET fl == FileLines(e.data) IN e.lines = fl \/ e.lines = Append(fl, <<>>)

TInit == l = 1
TNext == /\ l <= Len(TraceLog)
         /\ LET e == TraceLog[l] IN
              CASE e.a = "RESET" -> TRUE
                [] e.a = "SPLIT" -> SplitOK(e)
                [] e.a = "PAIR"  -> PairOK(e)
                [] e.a = "FILE"  -> FileOK(e)
                [] OTHER -> FALSE
         /\ l' = l + 1
Accepted == TLCGet("stats").diameter - 1 = Len(TraceLog)
=============================================================================
