--------------------------- MODULE SourceLine_Trace ---------------------------
(* (V) Every line the real SplitLine() processed (hook event `split`) is split by the transcription     *)
(* into exactly the logged fields, under the parameters the active code generator had installed.        *)
(* Events (reformatted only; strings as character-code arrays):                                         *)
(*   [a |-> "SPLIT", raw, p |-> [div, attrchars, hasattrs, cmt, qq], lab, op, attr, args]               *)
(*   [a |-> "PAIR",  raw, orig, p, lab, op, attr, args]   raw = a rewritten spelling of orig: additionally *)
(*                   both spellings must be the same statement (SameStatement)                          *)
(*   [a |-> "FILE",  data, lines]   whole file and the logical lines delivered (reader: ReadLnCont)       *)
(*   [a |-> "RESET"]                                                                                    *)
EXTENDS SourceLine, TLC, Json, IOUtils

VARIABLES l
TraceLog == ndJsonDeserialize(IOEnv.TRACE)

Logged(e) == [lab |-> e.lab, op |-> e.op, attr |-> e.attr, args |-> e.args]
\* e.p.qq is the LIST of quote qualifications the target may have (pinned tree / repaired tree, see
\* AposRegisterOpensQuote): the hook does not log the function pointer.
PWith(e, q) == [div |-> e.p.div, attrchars |-> e.p.attrchars, hasattrs |-> e.p.hasattrs, cmt |-> e.p.cmt, qq |-> q]
SplitOK(e) == \E k \in 1..Len(e.p.qq) : Fields(Split(e.raw, PWith(e, e.p.qq[k]))) = Logged(e)
PairOK(e)  == \E k \in 1..Len(e.p.qq) : /\ Fields(Split(e.raw, PWith(e, e.p.qq[k]))) = Logged(e)
                                         /\ SameStatement(e.orig, e.raw, PWith(e, e.p.qq[k]))

\* [a |-> "FILE", data, lines]: the characters of a whole source file and the logical lines the assembler
\* delivered for it in pass 1 (`line` hook events): ReadLnCont() applied again and again (buffer capacity carried
\* along) yields exactly these lines; a file whose last line has no line end may be followed by one empty line
FileOK(e) == LET fl == FileLines(e.data) IN e.lines = fl \/ e.lines = Append(fl, <<>>)

TInit == l = 1
TNext == /\ l <= Len(TraceLog)
         /\ LET e == TraceLog[l] IN
              CASE e.a = "RESET" -> TRUE
                [] e.a = "SPLIT" -> SplitOK(e)
                [] e.a = "PAIR"  -> PairOK(e)
                [] e.a = "FILE"  -> FileOK(e)
                [] OTHER -> FALSE
         /\ l' = l + 1
Accepted == TLCGet("stats").diameter - 1 = Len(TraceLog)
=============================================================================
