\* replayed exhaustively: 1..2 files x 0..1 items + PBind_Cover1: one file x 0..2 items
CONSTANTS MaxFiles = 2 MaxItems = 1 Starts = {300} ByteLens = {0, 2} EntryAddrs = {4660}
  CpuSegGran <- CSG_Small Forms <- Forms_Both Filters <- F_Small Creators <- Cr_One Quiets <- Q_No Dev <- D_None
SPECIFICATION CoverSpec
CHECK_DEADLOCK FALSE
