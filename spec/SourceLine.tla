------------------------------ MODULE SourceLine ------------------------------
(* C16 - the source line of AS:  [label[:]] mnemonic[.attr] [param,...] [;comment]                      *)
(*                                                                                                     *)
(* Part 1  the reader and the splitter as the code has them, over sequences of character codes:        *)
(*           ReadLnCont strutil.c ReadLnCont()  (physical lines, chunked fgets, LF / CR / ^Z stripping,      *)
(*                      backslash continuation; ReadLine = one logical line)                           *)
(*           QPos       asmsub.c  QuotPosCore() (first match outside quotes, parentheses and brackets)  *)
(*           Qualify    codepseudo.c QualifyQuote_SingleQuoteConstant(), codez80.c QualifyQuote_Z80()   *)
(*           Split      as.c      SplitLine()   (comment cut, label, opcode, attribute, arguments)      *)
(*         The per-target parameters (DivideChars, AttrChars, HasAttrs, pCommentLeadIn, QualifyQuote)   *)
(*         are arguments (record P), so one transcription serves every code generator.                  *)
(* Part 2  the manual's line grammar as an abstract value and Render(line, choice): all spellings the   *)
(*         manual calls equivalent (case, blanks/tabs, comment, CR-LF, optional colon).                 *)
(* Part 3  the property:  Norm(Split(ReadLine(Render(L, c)), P)) = Norm(L) for every choice c.          *)
(* Part 4  compound operand fields: the secondary splitters of the code generators (FirstBlank & co.)   *)
(*         and the immateriality of the white space between the INNER fields (blank/tab/mixed).         *)
(*                                                                                                     *)
(* Deliberate deviations of the code are kept and named (CRSplitFromLF, NegativeBracket, LastDividerOnly, *)
(* DeadColonStrip, NulIsDivider); lengths are assumed < STRINGSIZE (no truncation modelled).            *)
EXTENDS Integers, Sequences, FiniteSets

------------------------------------------------------------------------------------------------------
(* characters                                                                                          *)
TAB == 9      LF == 10      CR == 13     CTRLZ == 26   SPC == 32    DQUOTE == 34   SQUOTE == 39
LPAR == 40    RPAR == 41    COMMA == 44  DOT == 46     COLON == 58  SEMI == 59     LBRK == 91
BSLASH == 92  RBRK == 93

IsSpace(c)  == c \in {9, 10, 11, 12, 13, 32}                     \* isspace() in the C locale
IsDigit(c)  == c \in 48..57
IsUpper(c)  == c \in 65..90
IsLower(c)  == c \in 97..122
IsAlnum(c)  == IsDigit(c) \/ IsUpper(c) \/ IsLower(c)
IsXDigit(c) == IsDigit(c) \/ c \in 65..70 \/ c \in 97..102
Up(c)       == IF IsLower(c) THEN c - 32 ELSE c
Lo(c)       == IF IsUpper(c) THEN c + 32 ELSE c

At(s, i)    == IF i >= 1 /\ i <= Len(s) THEN s[i] ELSE 0          \* C string: NUL behind the last character
Cut(s, a, b) == IF b < a THEN <<>> ELSE SubSeq(s, a, b)
MinOf(S)    == CHOOSE x \in S : \A y \in S : x <= y
UpStr(s)    == [i \in 1..Len(s) |-> Up(s[i])]
LoStr(s)    == [i \in 1..Len(s) |-> Lo(s[i])]

RECURSIVE TrimR(_)
TrimR(s) == IF Len(s) > 0 /\ IsSpace(s[Len(s)]) THEN TrimR(SubSeq(s, 1, Len(s) - 1)) ELSE s   \* KillPostBlanks

------------------------------------------------------------------------------------------------------
(* strutil.c ReadLnCont(): the source file is a sequence of characters; one call delivers one LOGICAL    *)
(* line = physical lines joined where a physical line ends in a backslash.  Every physical line may end  *)
(* in LF or CR-LF independently (or in nothing: last line of the file).  The code reads a physical line  *)
(* in chunks: fgets() into what is left of the line buffer (capacity grows by 128 whenever fewer than    *)
(* 128 characters are left and is kept from line to line), so a long physical line - or a continued      *)
(* one, whose later parts find a partly filled buffer - arrives in several chunks.                        *)
(*   B = [cap, low, grow]  buffer state: capacity, reallocation threshold, growth (real: 1024.., 128, 128) *)
RealBuf == [cap |-> 1024, low |-> 128, grow |-> 128]      \* OneLine starts with STRINGSIZE = 1024 (datatypes.h)

\* fgets(n): at most n-1 characters from position pos, stopping behind the first LF
RECURSIVE FgetsEnd(_, _, _)
FgetsEnd(file, j, last) == IF j >= last \/ file[j] = LF THEN j ELSE FgetsEnd(file, j + 1, last)
Fgets(file, pos, n) ==            \* precondition pos <= Len(file), n >= 2
  LET last == IF pos + n - 2 <= Len(file) THEN pos + n - 2 ELSE Len(file) IN SubSeq(file, pos, FgetsEnd(file, pos, last))

\* the inner loop: chunks of one physical line appended to acc (= the logical line so far).
\* CR is stripped only from the chunk that carries the LF (Terminated), and only if that chunk still has a
\* character in front of the LF.  CRSplitFromLF: if the buffer ends exactly between CR and LF, the LF arrives as
\* a chunk of its own and the CR stays in the line (flag crsplit) - kept as in the code.
RECURSIVE ReadPhys(_, _, _, _, _)
ReadPhys(file, pos, B, acc, crsplit) ==
  LET cap2 == IF B.cap - Len(acc) < B.low THEN B.cap + B.grow ELSE B.cap
      B2   == [B EXCEPT !.cap = cap2]
  IN  IF pos > Len(file) THEN [text |-> acc, pos |-> pos, B |-> B2, eof |-> TRUE, crsplit |-> crsplit]     \* fgets() = NULL
      ELSE LET ch   == Fgets(file, pos, cap2 - Len(acc))
               term == ch[Len(ch)] = LF
               c1   == IF term THEN SubSeq(ch, 1, Len(ch) - 1) ELSE ch
               c2   == IF term /\ Len(c1) > 0 /\ c1[Len(c1)] = CR THEN SubSeq(c1, 1, Len(c1) - 1) ELSE c1
               cs   == crsplit \/ (term /\ Len(c1) = 0 /\ Len(acc) > 0 /\ acc[Len(acc)] = CR)
           IN  IF term THEN [text |-> acc \o c2, pos |-> pos + Len(ch), B |-> B2, eof |-> FALSE, crsplit |-> cs]
               ELSE ReadPhys(file, pos + Len(ch), B2, acc \o c2, cs)

\* the outer loop: ^Z stripping and backslash continuation.  Result [text, pos, B, used, crsplit]
RECURSIVE ReadLog(_, _, _, _, _, _)
ReadLog(file, pos, B, acc, used, crsplit) ==
  LET r == ReadPhys(file, pos, B, acc, crsplit)
      t == IF Len(r.text) > 0 /\ r.text[Len(r.text)] = CTRLZ THEN SubSeq(r.text, 1, Len(r.text) - 1) ELSE r.text
  IN  IF Len(t) > 0 /\ t[Len(t)] = BSLASH /\ ~r.eof
      THEN ReadLog(file, r.pos, r.B, SubSeq(t, 1, Len(t) - 1), used + 1, r.crsplit)
      ELSE [text |-> IF Len(t) > 0 /\ t[Len(t)] = BSLASH THEN SubSeq(t, 1, Len(t) - 1) ELSE t,     \* "\" at end of file
            pos |-> r.pos, B |-> r.B, used |-> used + 1, crsplit |-> r.crsplit]
ReadLnCont(file, pos, B) == ReadLog(file, pos, B, <<>>, 0, FALSE)

\* all logical lines of a file, the buffer capacity carried from call to call
RECURSIVE ReadAll(_, _, _, _)
ReadAll(file, pos, B, acc) ==
  IF pos > Len(file) THEN acc
  ELSE LET r == ReadLnCont(file, pos, B) IN ReadAll(file, r.pos, r.B, Append(acc, r.text))
FileLines(file) == ReadAll(file, 1, RealBuf, <<>>)

RECURSIVE Flatten(_, _)
Flatten(phys, k) == IF k > Len(phys) THEN <<>> ELSE phys[k] \o Flatten(phys, k + 1)
\* phys: the physical lines (with their line ends) of ONE logical line
ReadLine(phys) == ReadLnCont(Flatten(phys, 1), 1, RealBuf).text

(* declarative side: a logical line written as a chain of pieces.  piece = [t, eol]: text (no CR/LF, not  *)
(* ending in backslash or ^Z) and its line end; every piece but the last is followed by a backslash.      *)
RECURSIVE ChainFile(_, _)
ChainFile(ch, k) == IF k > Len(ch) THEN <<>>
                    ELSE ch[k].t \o (IF k < Len(ch) THEN <<BSLASH>> ELSE <<>>) \o ch[k].eol \o ChainFile(ch, k + 1)
RECURSIVE ChainText(_, _)
ChainText(ch, k) == IF k > Len(ch) THEN <<>> ELSE ch[k].t \o ChainText(ch, k + 1)
\* line ends are immaterial for every physical line: the logical line is the concatenation of the pieces
ChainReadsAsText(ch, B) == LET r == ReadLnCont(ChainFile(ch, 1), 1, B) IN
                           r.crsplit \/ (r.text = ChainText(ch, 1) /\ r.used = Len(ch) /\ r.pos = Len(ChainFile(ch, 1)) + 1)

------------------------------------------------------------------------------------------------------
(* quote qualification: is the apostrophe at s[i] the start of a character string?  st = scan start     *)
QQ_NONE == 0   QQ_SQCONST == 1   QQ_Z80 == 2   QQ_Z80X == 3   QQ_75K0 == 4

ValidDigit(c, base) == CASE base = 16 -> IsXDigit(c)
                         [] base = 8  -> IsDigit(c) /\ c < 56
                         [] base = 2  -> IsDigit(c) /\ c < 50
                         [] OTHER     -> FALSE
RECURSIVE DigitsEnd(_, _, _)
DigitsEnd(s, j, base) == IF j <= Len(s) /\ ValidDigit(s[j], base) THEN DigitsEnd(s, j + 1, base) ELSE j

QualifySQConst(s, st, i) ==             \* TRUE: ordinary quote;  FALSE: lead-in of H'1F / X'1F / B'01 / O'17
  IF i = st THEN TRUE
  ELSE LET p    == Up(s[i - 1])
           base == CASE p = 66 -> 2 [] p = 79 -> 8 [] p \in {72, 88} -> 16 [] OTHER -> 0
       IN  IF base = 0 THEN TRUE
           ELSE LET e == DigitsEnd(s, i + 1, base) IN
                IF e <= i + 1 THEN TRUE
                ELSE IF At(s, e) = SQUOTE THEN TRUE              \* the harmless x'..' form
                ELSE IsAlnum(At(s, e))

QualifyZ80(s, st, i) == ~(i >= st + 2 /\ Up(s[i - 2]) = 65 /\ Up(s[i - 1]) = 70)       \* AF' is no quote

(* AposRegisterOpensQuote (finding C16-apostrophe-register-comment): the pinned tree knows only AF'.  The    *)
(* Z380's EX r,r' (A B C D E H L BC DE HL IX IY) and the 75K0's shadow pairs XA' BC' DE' HL' open a "string"  *)
(* that swallows a comment behind them.  QQ_Z80X / QQ_75K0 are the repaired qualifiers (proposed fix): the   *)
(* apostrophe is no quote when the identifier that ends right in front of it is such a register.             *)
RECURSIVE IdentStart(_, _, _)
IdentStart(s, st, i) == IF i > st /\ IsAlnum(s[i - 1]) THEN IdentStart(s, st, i - 1) ELSE i
IdentBefore(s, st, i) == UpStr(Cut(s, IdentStart(s, st, i), i - 1))
Z80AltRegs == {<<65>>, <<66>>, <<67>>, <<68>>, <<69>>, <<72>>, <<76>>, <<65, 70>>, <<66, 67>>, <<68, 69>>, <<72, 76>>,
               <<73, 88>>, <<73, 89>>}                              \* A B C D E H L AF BC DE HL IX IY
K75AltRegs == {<<88, 65>>, <<66, 67>>, <<68, 69>>, <<72, 76>>}      \* XA BC DE HL
QualifyZ80X(s, st, i) == IdentBefore(s, st, i) \notin Z80AltRegs
Qualify75K0(s, st, i) == IdentBefore(s, st, i) \notin K75AltRegs

Qualify(qq, s, st, i) == CASE qq = QQ_SQCONST -> QualifySQConst(s, st, i)
                           [] qq = QQ_Z80     -> QualifyZ80(s, st, i)
                           [] qq = QQ_Z80X    -> QualifyZ80X(s, st, i)
                           [] qq = QQ_75K0    -> Qualify75K0(s, st, i)
                           [] OTHER           -> TRUE

------------------------------------------------------------------------------------------------------
(* asmsub.c QuotPosCore(): pats = list of non-empty search strings (SearchMultString; a single          *)
(* character c is <<<<c>>>>).  Returns the first index >= st where a pattern starts outside quotes,      *)
(* parentheses and brackets, 0 for NULL.  NegativeBracket: an unmatched ')' drives the counter below     *)
(* zero and thereby protects the rest of the string - kept as in the code.                              *)
MatchAt(s, i, pats) ==
  \E k \in 1..Len(pats) : LET p == pats[k] IN
     /\ Len(p) > 0 /\ i + Len(p) - 1 <= Len(s)
     /\ \A j \in 1..Len(p) : s[i + j - 1] = p[j]

\* quote/bracket state after consuming character s[i]  (q = [br, ab, sq, dq, esc])
QStep(s, st, qq, i, q) ==
  LET c == s[i]
      clr == ~q.dq /\ ~q.sq
  IN  CASE c = DQUOTE -> [q EXCEPT !.dq = IF ~q.sq /\ ~q.esc THEN ~q.dq ELSE q.dq, !.esc = FALSE]
        [] c = SQUOTE -> [q EXCEPT !.sq = IF ~q.dq /\ ~q.esc /\ (q.sq \/ Qualify(qq, s, st, i)) THEN ~q.sq ELSE q.sq,
                                   !.esc = FALSE]
        [] c = BSLASH -> [q EXCEPT !.esc = (q.sq \/ q.dq) /\ ~q.esc]
        [] c = LPAR   -> [q EXCEPT !.br = IF q.ab = 0 /\ clr THEN q.br + 1 ELSE q.br, !.esc = FALSE]
        [] c = RPAR   -> [q EXCEPT !.br = IF q.ab = 0 /\ clr THEN q.br - 1 ELSE q.br, !.esc = FALSE]
        [] c = LBRK   -> [q EXCEPT !.ab = IF q.br = 0 /\ clr THEN q.ab + 1 ELSE q.ab, !.esc = FALSE]
        [] c = RBRK   -> [q EXCEPT !.ab = IF q.br = 0 /\ clr THEN q.ab - 1 ELSE q.ab, !.esc = FALSE]
        [] OTHER      -> [q EXCEPT !.esc = FALSE]
Q0 == [br |-> 0, ab |-> 0, sq |-> FALSE, dq |-> FALSE, esc |-> FALSE]
Clear(q) == q.ab = 0 /\ q.br = 0 /\ ~q.sq /\ ~q.dq

RECURSIVE QScan(_, _, _, _, _, _)
QScan(s, st, pats, qq, i, q) ==
  IF i > Len(s) THEN 0
  ELSE IF Clear(q) /\ MatchAt(s, i, pats) THEN i
  ELSE QScan(s, st, pats, qq, i + 1, QStep(s, st, qq, i, q))
QPos(s, st, pats, qq) == QScan(s, st, pats, qq, st, Q0)

------------------------------------------------------------------------------------------------------
(* as.c SplitLine().  P = [div, attrchars, hasattrs, cmt, qq];  result [lab, op, attr, args]            *)
InChars(chars, c) == \E k \in 1..Len(chars) : chars[k] = c
StrChr(chars, c)  == c = 0 \/ InChars(chars, c)              \* NulIsDivider: strchr() finds the terminator

RECURSIVE SkipSp(_, _, _)
SkipSp(s, i, e) == IF i < e /\ IsSpace(s[i]) THEN SkipSp(s, i + 1, e) ELSE i
RECURSIVE SkipNonSp(_, _, _)
SkipNonSp(s, i, e) == IF i < e /\ ~IsSpace(s[i]) THEN SkipNonSp(s, i + 1, e) ELSE i
RECURSIVE ScanLab(_, _, _)
ScanLab(s, i, e) == IF i < e /\ ~IsSpace(s[i]) /\ s[i] # COLON THEN ScanLab(s, i + 1, e) ELSE i

\* "Opcode & Argument trennen": e = index of the comment (exclusive end), run = current position
RECURSIVE OpLoop(_, _, _, _, _)
OpLoop(raw, e, run, lab, div) ==
  LET r == SkipSp(raw, run, e)
      p == SkipNonSp(raw, r, e)
  IN  IF StrChr(div, At(raw, r))
      THEN [lab |-> lab, op |-> <<>>, arg |-> Cut(raw, r, e - 1)]
      ELSE LET op == Cut(raw, r, p - 1)
               nr == IF p < e THEN p + 1 ELSE e
           IN  IF lab = <<>> /\ Len(op) > 0 /\ op[Len(op)] = COLON
               THEN OpLoop(raw, e, nr, SubSeq(op, 1, Len(op) - 1), div)      \* "name:" not in column 1
               ELSE [lab |-> lab, op |-> op, arg |-> Cut(raw, nr, e - 1)]

FirstOf(op, chars) == LET S == {i \in 1..Len(op) : InChars(chars, op[i])} IN IF S = {} THEN 0 ELSE MinOf(S)
RECURSIVE AttrSplit(_, _, _)
AttrSplit(op, chars, tries) ==
  LET a == FirstOf(op, chars) IN
  IF a = 0 THEN [op |-> op, attr |-> <<>>]
  ELSE LET at == Cut(op, a + 1, Len(op))
           o  == Cut(op, 1, a - 1)
       IN  IF o = <<>> /\ at # <<>>                   \* ".instr.attr": the dot-prefixed name is the opcode
           THEN IF tries + 1 < 2 THEN AttrSplit(at, chars, tries + 1) ELSE [op |-> at, attr |-> <<>>]
           ELSE [op |-> o, attr |-> at]

RECURSIVE SkipSpZ(_, _)
SkipSpZ(s, i) == IF i <= Len(s) /\ IsSpace(s[i]) THEN SkipSpZ(s, i + 1) ELSE i

ArgCntMax == 476
\* "Argumente zerteilen": a = ArgPart without trailing blanks.  LastDividerOnly: the loop condition looks
\* at the search result for the *last* divide character only.
RECURSIVE ArgLoop(_, _, _, _, _)
ArgLoop(a, run, lastdiv, P, acc) ==
  LET e == Len(a) + 1 IN
  IF ~(run < e \/ lastdiv # 0) THEN acc
  ELSE LET r     == SkipSpZ(a, run)
           pos   == [k \in 1..Len(P.div) |-> QPos(a, r, << <<P.div[k]>> >>, P.qq)]
           cands == {pos[k] : k \in 1..Len(P.div)} \ {0}
           dv    == IF cands = {} THEN e ELSE MinOf(cands)
           last  == IF Len(P.div) = 0 THEN lastdiv ELSE pos[Len(P.div)]
       IN  IF Len(acc) >= ArgCntMax THEN acc                                  \* error "too many arguments"
           ELSE ArgLoop(a, IF dv < e THEN dv + 1 ELSE e, last, P, Append(acc, TrimR(Cut(a, r, dv - 1))))

Split(raw, P) ==
  LET n      == Len(raw)
      cp     == QPos(raw, 1, P.cmt, P.qq)
      e      == IF cp = 0 THEN n + 1 ELSE cp
      hasLab == e > 1 /\ ~IsSpace(raw[1])
      lp     == IF hasLab THEN ScanLab(raw, 1, e) ELSE 1
      lab0   == IF hasLab THEN Cut(raw, 1, lp - 1) ELSE <<>>
      lab1   == IF Len(lab0) > 0 /\ lab0[Len(lab0)] = COLON THEN SubSeq(lab0, 1, Len(lab0) - 1) ELSE lab0  \* DeadColonStrip
      run0   == IF ~hasLab THEN 1 ELSE IF lp >= e THEN e ELSE lp + 1
      o      == OpLoop(raw, e, run0, lab1, P.div)
      opd    == Len(o.op) > 0 /\ InChars(P.div, o.op[Len(o.op)])
      op1    == IF opd THEN SubSeq(o.op, 1, Len(o.op) - 1) ELSE o.op
      pre    == IF opd THEN << <<>> >> ELSE <<>>              \* trailing separator on OpPart: empty argument
      oa     == IF P.hasattrs THEN AttrSplit(op1, P.attrchars, 0) ELSE [op |-> op1, attr |-> <<>>]
      ap     == TrimR(o.arg)
  IN  [lab |-> o.lab, op |-> oa.op, attr |-> oa.attr,
       args |-> IF ap = <<>> THEN pre ELSE ArgLoop(ap, 1, 0, P, pre),
       cmt |-> IF cp = 0 THEN <<>> ELSE Cut(raw, cp, n)]

Fields(f) == [lab |-> f.lab, op |-> f.op, attr |-> f.attr, args |-> f.args]

------------------------------------------------------------------------------------------------------
(* Part 2: the manual's grammar.  An abstract line L = [lab, op, attr, args] (fields without blanks at  *)
(* their ends; arguments are balanced with respect to quotes, parentheses and brackets and contain no   *)
(* top-level divider or comment lead-in).  A rendering choice                                           *)
(*   c = [lform, lead, sep1, sep2, pre, post, dtab, trail, cmt, eol, case]                              *)
(* fixes every degree of freedom the manual leaves open.                                                *)

\* apply f to the characters of s that are outside quotes as QuotPosCore sees them
RECURSIVE MapOutside(_, _, _, _, _, _)
MapOutside(s, qq, up, i, q, acc) ==
  IF i > Len(s) THEN acc
  ELSE LET q2 == QStep(s, 1, qq, i, q)
           inq == q.sq \/ q.dq \/ q2.sq \/ q2.dq         \* the quote characters themselves are not letters
           ch  == CASE up = "upper" -> Up(s[i]) [] up = "lower" -> Lo(s[i])
                    [] up = "alt" -> IF i % 2 = 1 THEN Up(s[i]) ELSE Lo(s[i])                    \* representative of an
                                                           \* arbitrary per-letter assignment (the replay draws one per line)
                    [] OTHER -> IF IsLower(s[i]) THEN Up(s[i]) ELSE Lo(s[i])                     \* "swap"
       IN  MapOutside(s, qq, up, i + 1, q2, Append(acc, IF inq THEN s[i] ELSE ch))
UpOutside(s, qq) == MapOutside(s, qq, "upper", 1, Q0, <<>>)
LoOutside(s, qq) == MapOutside(s, qq, "lower", 1, Q0, <<>>)
SwapOutside(s, qq) == MapOutside(s, qq, "swap", 1, Q0, <<>>)
AltOutside(s, qq) == MapOutside(s, qq, "alt", 1, Q0, <<>>)

CaseOf(s, mode, qq) == CASE mode = "upper" -> UpOutside(s, qq)
                         [] mode = "lower" -> LoOutside(s, qq)
                         [] mode = "swap"  -> SwapOutside(s, qq)
                         [] mode = "alt"   -> AltOutside(s, qq)
                         [] OTHER          -> s

RECURSIVE JoinArgs(_, _, _)
JoinArgs(args, k, glue) == IF k > Len(args) THEN <<>>
                           ELSE (IF k > 1 THEN glue ELSE <<>>) \o args[k] \o JoinArgs(args, k + 1, glue)

Render(L, c, P) ==
  LET K(s)  == CaseOf(s, c.case, P.qq)
      lab   == IF L.lab = <<>> THEN c.lead
               ELSE CASE c.lform = "col1"      -> K(L.lab) \o c.sep1
                      [] c.lform = "col1colon" -> K(L.lab) \o <<COLON>> \o c.sep1
                      [] OTHER                 -> c.lead \o K(L.lab) \o <<COLON>> \o c.sep1     \* "indcolon"
      op    == K(L.op) \o (IF L.attr = <<>> THEN <<>> ELSE <<P.attrchars[1]>> \o K(L.attr))
      glue  == c.pre \o <<IF c.dtab /\ P.div[1] = SPC THEN TAB ELSE P.div[1]>> \o c.post   \* "blanks or tabulators"
      args  == IF L.args = <<>> THEN <<>>
               ELSE c.sep2 \o JoinArgs([k \in 1..Len(L.args) |-> K(L.args[k])], 1, glue)
  IN  lab \o op \o args \o c.trail \o c.cmt \o c.eol

\* the normal form in which spelling no longer shows: case folded outside quotes
Norm(f, P) == [lab |-> UpStr(f.lab), op |-> UpStr(f.op), attr |-> UpStr(f.attr),
               args |-> [k \in 1..Len(f.args) |-> UpOutside(f.args[k], P.qq)]]

(* Part 3: the property for one line, one choice, one parameter set                                    *)
SpellingImmaterial(L, c, P) == Norm(Fields(Split(ReadLine(<<Render(L, c, P)>>), P)), P) = Norm(L, P)

\* two concrete spellings of one statement split into the same fields (used on recorded lines)
SameStatement(raw1, raw2, P) == Norm(Fields(Split(raw1, P)), P) = Norm(Fields(Split(raw2, P)), P)

------------------------------------------------------------------------------------------------------
(* Part 4: compound operand fields - the SECOND field split.                                            *)
(*                                                                                                     *)
(* Some statements carry further white-space separated fields inside ONE comma-delimited parameter:     *)
(*   MSP430X     rptc #5 addx.w r4,r7      multiplier, mnemonic.attr and first operand of the repeated   *)
(*               rptz r6 rrcx r7           statement                    (codemsp.c DecodeRPT)            *)
(*   TMS320C6x   || [b0] add.l1 a0,a1,a5   parallel bars / condition in front of the statement          *)
(*                                                                      (code3206x.c ReiterateOpPart)   *)
(*   uPD772x     op mov @a,b               (code7720.c DecodeOP)                                         *)
(*   SH-DSP      dct <statement>           (code7000.c DecodeDCT_DCF; generates no code in this tree)     *)
(*   Rabbit      altd inc iy               ALTD / IOI / IOE prefixes    (codez80.c StripPref)            *)
(*   68HC11/12   brclr $20 #$40 *          blank separated operands     (code68.c, code6812.c Try2Split) *)
(*   uPD77230    mov wr0,psw1 jnzrp target sub-instructions of one word (code77230.c SplitArgs/DiscardArgs) *)
(*   preprocessor  #define NAME text       (asmmac.c Preprocess; not described in the manual)             *)
(* as.c SplitLine() hands such a parameter over unchanged (inner white space included, only the ends    *)
(* trimmed); the code generator splits it again with one of the SECONDARY SPLITTERS transcribed here.   *)
(* The manual (Format of the Input Files): "To separate the individual components you may also use      *)
(* tabulators instead of spaces" - amount and KIND of white space (blanks, tabs, mixtures of both in any  *)
(* order) between the inner fields is as immaterial as between label, mnemonic and parameters.          *)
(* This dimension was missing: a changed asmsub.c FirstBlank() that takes the LATER of the first blank   *)
(* and the first tab (instead of the earlier) passes every golden test and every rewrite of the top-     *)
(* level field boundaries, but rejects `rptc #5<TAB>addx.w r4,r7` and drops `rptz r6<TAB>addx.w r4,r7`.  *)

MaxOf(S) == CHOOSE x \in S : \A y \in S : x >= y
StrChr1(s, ch) == LET S == {i \in 1..Len(s) : s[i] = ch} IN IF S = {} THEN 0 ELSE MinOf(S)      \* strchr, 0 = NULL
StrRChr1(s, ch) == LET S == {i \in 1..Len(s) : s[i] = ch} IN IF S = {} THEN 0 ELSE MaxOf(S)     \* strrchr

\* asmsub.c FirstBlank(): Min = NULL; the first blank, then the first tab, each taken if (!Min || h < Min)
FirstBlank(s) ==
  LET hb   == StrChr1(s, SPC)
      min1 == hb                                     \* (!Min) holds: the blank, if any, is taken
      ht   == StrChr1(s, TAB)
  IN  IF ht # 0 /\ (min1 = 0 \/ ht < min1) THEN ht ELSE min1

RECURSIVE KillPref(_)
KillPref(s) == IF Len(s) > 0 /\ IsSpace(s[1]) THEN KillPref(Tail(s)) ELSE s                      \* strutil.c KillPrefBlanks
FirstSpace(s) == LET S == {i \in 1..Len(s) : IsSpace(s[i])} IN IF S = {} THEN 0 ELSE MinOf(S)
RightOf(s, p) == Cut(s, p + 1, Len(s))
LeftOf(s, p)  == Cut(s, 1, p - 1)
OpAttrAt(s, p) == IF p = 0 THEN [op |-> s, attr |-> <<>>] ELSE [op |-> LeftOf(s, p), attr |-> RightOf(s, p)]

(* A statement as SplitLine() leaves it: st = [op, attr, args].  Every re-split yields                  *)
(*   [ok, pre, op, attr, args]:  pre = the prefix fields consumed, [op, attr, args] = the statement that *)
(* is assembled afterwards (mnemonics upper-cased as the code does); ok = FALSE: rejected.               *)
Rejected == [ok |-> FALSE, pre |-> <<>>, op |-> <<>>, attr |-> <<>>, args |-> <<>>]

\* codemsp.c DecodeRPT(): "#n|Rn <blank> mnemonic[.attr] <blank> operand": two FirstBlank() cuts, both required
\* (RPTNeedsOperand: a repeated statement without operand cannot be written - kept as in the code)
MspRPT(st) ==
  IF st.args = <<>> \/ st.attr # <<>> THEN Rejected
  ELSE LET a1 == st.args[1]
           p1 == FirstBlank(a1)
       IN  IF p1 = 0 THEN Rejected                                        \* ErrNum_CannotSplitArg
           ELSE LET r1 == KillPref(RightOf(a1, p1))
                    p2 == FirstBlank(r1)
                IN  IF p2 = 0 THEN Rejected
                    ELSE LET o  == UpStr(LeftOf(r1, p2))
                             oa == OpAttrAt(o, StrRChr1(o, DOT))
                         IN  [ok |-> TRUE, pre |-> <<st.op, LeftOf(a1, p1)>>, op |-> oa.op, attr |-> oa.attr,
                              args |-> <<KillPref(RightOf(r1, p2))>> \o Tail(st.args)]

\* code3206x.c ReiterateOpPart() / code7720.c DecodeOP() / code7000.c DecodeDCT_DCF(): the first field of the
\* first parameter becomes the mnemonic.  dot: the C6x cuts the unit off at the first "."; trim / up: the SH-DSP
\* variant neither removes the blanks in front of the remaining operand nor folds the case of the new mnemonic
\* (DCTKeepsBlanks); noarg: without any parameter the uPD772x OP statement stands for itself, the others are rejected
Reiterate(st, dot, trim, up, noarg) ==
  IF st.args = <<>> THEN (IF noarg THEN [ok |-> TRUE, pre |-> <<st.op>>, op |-> <<>>, attr |-> <<>>, args |-> <<>>] ELSE Rejected)
  ELSE LET a1 == st.args[1]
           p  == FirstBlank(a1)
           o0 == IF p = 0 THEN a1 ELSE LeftOf(a1, p)
           o  == IF up THEN UpStr(o0) ELSE o0
           oa == IF dot THEN OpAttrAt(o, StrChr1(o, DOT)) ELSE [op |-> o, attr |-> <<>>]
           r  == IF p = 0 THEN <<>> ELSE <<IF trim THEN KillPref(RightOf(a1, p)) ELSE RightOf(a1, p)>>
       IN  [ok |-> TRUE, pre |-> <<st.op>>, op |-> oa.op, attr |-> oa.attr, args |-> r \o Tail(st.args)]

\* code3206x.c MakeCode_3206X(): "||" as mnemonic, then "[cond]" as mnemonic, each re-iterated once
C6xPrefixes(st) ==
  LET s1 == IF st.op = <<124, 124>> THEN Reiterate(st, TRUE, TRUE, TRUE, FALSE) ELSE [ok |-> TRUE, pre |-> <<>>, op |-> st.op, attr |-> st.attr, args |-> st.args]
      s2 == IF s1.ok /\ Len(s1.op) > 0 /\ s1.op[1] = LBRK
            THEN LET r == Reiterate([op |-> s1.op, attr |-> s1.attr, args |-> s1.args], TRUE, TRUE, TRUE, FALSE)
                 IN  [r EXCEPT !.pre = s1.pre \o r.pre]
            ELSE s1
  IN  s2

\* codez80.c StripPref(): ALTD / IOI / IOE: the mnemonic ends at the first isspace() character, the operand
\* starts at the next character that is none
RabbitPref(st) ==
  IF st.args = <<>> THEN [ok |-> TRUE, pre |-> <<st.op>>, op |-> <<>>, attr |-> <<>>, args |-> <<>>]
  ELSE LET a1 == st.args[1]
           p  == FirstSpace(a1)
           o  == UpStr(IF p = 0 THEN a1 ELSE LeftOf(a1, p))
           r  == IF p = 0 THEN <<>> ELSE KillPref(RightOf(a1, p))
       IN  [ok |-> TRUE, pre |-> <<st.op>>, op |-> o, attr |-> st.attr,
            args |-> (IF r = <<>> THEN <<>> ELSE <<r>>) \o Tail(st.args)]

\* code68.c / code6812.c Try2Split(Src): the parameter is cut at its LAST isspace() character (which must not
\* be its first character: code68.c tests p > start, code6812.c p >= start; no difference behind KillPrefBlanks)
SplitLast(a) ==
  LET b == TrimR(KillPref(a))
      S == {i \in 2..Len(b) : IsSpace(b[i])}
  IN  IF S = {} THEN <<b>> ELSE <<TrimR(LeftOf(b, MaxOf(S))), KillPref(RightOf(b, MaxOf(S)))>>
Try2Split(args, src) ==
  IF src < 1 \/ src > Len(args) THEN args
  ELSE SubSeq(args, 1, src - 1) \o SplitLast(args[src]) \o SubSeq(args, src + 1, Len(args))
\* DecodeBrBit / DecodeBRxx (BRSET BRCLR) and DecodeBit (BSET BCLR): which parameters are tried
HC12BrBit(st) ==
  LET n  == Len(st.args)
      a1 == IF n = 1 THEN Try2Split(Try2Split(st.args, 1), 1)
            ELSE IF n = 2 THEN LET x == Try2Split(st.args, 2) IN Try2Split(x, 2) ELSE st.args
  IN  [ok |-> TRUE, pre |-> <<>>, op |-> UpStr(st.op), attr |-> st.attr, args |-> a1]
HC12Bit(st) ==
  LET n == Len(st.args) IN
  [ok |-> TRUE, pre |-> <<>>, op |-> UpStr(st.op), attr |-> st.attr,
   args |-> IF n \in {1, 2} THEN Try2Split(st.args, n) ELSE st.args]

\* code77230.c SplitArgs(Count) + DiscardArgs(): the Count-th parameter ends at the first blank or tab outside
\* quotes and parentheses (QuotPos of each, the earlier one); the next sub-instruction's mnemonic is the following
\* token, its first parameter whatever follows the next run of white space
Chain77230(a) ==
  LET b  == KillPref(a)
      p1 == QPos(b, 1, << <<SPC>> >>, QQ_NONE)
      p2 == QPos(b, 1, << <<TAB>> >>, QQ_NONE)
      d  == IF p1 = 0 \/ (p2 # 0 /\ p2 < p1) THEN p2 ELSE p1
  IN  IF d = 0 THEN [own |-> b, op |-> <<>>, rest |-> <<>>]
      ELSE LET r == KillPref(RightOf(b, d))
               e == FirstSpace(r)
           IN  [own |-> LeftOf(b, d), op |-> UpStr(IF e = 0 THEN r ELSE LeftOf(r, e)),
                rest |-> IF e = 0 THEN <<>> ELSE KillPref(RightOf(r, e))]

\* asmmac.c Preprocess(): h = the text behind "#": command, (for DEFINE) name and replacement text
PreprocFields(h) ==
  LET p  == FirstBlank(h)
      c  == IF p = 0 THEN h ELSE LeftOf(h, p)
      r  == TrimR(KillPref(IF p = 0 THEN <<>> ELSE RightOf(h, p)))
      p2 == FirstBlank(r)
  IN  IF p2 = 0 THEN <<UpStr(c), r>> ELSE <<UpStr(c), LeftOf(r, p2), KillPref(RightOf(r, p2))>>

Resplit(kind, st) == CASE kind = "rpt"   -> MspRPT(st)
                       [] kind = "c6x"   -> C6xPrefixes(st)
                       [] kind = "op"    -> Reiterate(st, FALSE, TRUE, TRUE, TRUE)
                       [] kind = "dct"   -> Reiterate(st, FALSE, FALSE, FALSE, FALSE)
                       [] kind = "pref"  -> RabbitPref(st)
                       [] kind = "brbit" -> HC12BrBit(st)
                       [] kind = "bit"   -> HC12Bit(st)
                       [] OTHER          -> [ok |-> TRUE, pre |-> <<>>, op |-> UpStr(st.op), attr |-> st.attr, args |-> st.args]

(* declarative side.  A compound field is a sequence of components (non-empty, free of white space);   *)
(* it is WRITTEN as the components joined by gaps, a gap being any non-empty sequence of blanks and     *)
(* tabulators.  Reading is independent of the secondary splitters: the maximal runs of non-space        *)
(* characters.                                                                                          *)
RECURSIVE JoinGaps(_, _, _)
JoinGaps(comps, gaps, k) == IF k > Len(comps) THEN <<>>
                            ELSE (IF k > 1 THEN gaps[((k - 2) % Len(gaps)) + 1] ELSE <<>>) \o comps[k] \o JoinGaps(comps, gaps, k + 1)
RECURSIVE WsTokens(_)
WsTokens(s) == LET b == KillPref(s) IN
               IF b = <<>> THEN <<>>
               ELSE LET e == FirstSpace(b) IN IF e = 0 THEN <<b>> ELSE <<LeftOf(b, e)>> \o WsTokens(RightOf(b, e))
RECURSIVE FlatTokens(_, _)
FlatTokens(parts, k) == IF k > Len(parts) THEN <<>> ELSE WsTokens(parts[k]) \o FlatTokens(parts, k + 1)

\* a secondary splitter cuts at component boundaries only, loses nothing and takes exactly one component
CutsOneFirst(s, head, rest) == WsTokens(s) # <<>> /\ head = WsTokens(s)[1] /\ WsTokens(rest) = Tail(WsTokens(s))
CutsOneLast(s, parts) == LET t == WsTokens(s) IN
                         IF Len(t) <= 1 THEN parts = t
                         ELSE Len(parts) = 2 /\ parts[2] = t[Len(t)] /\ WsTokens(parts[1]) = SubSeq(t, 1, Len(t) - 1)

\* the normal form of a re-split statement: case folded, the white space that is left INSIDE an operand
\* (behind the last cut) reduced to its components
NormR(r) == [ok |-> r.ok, pre |-> [k \in 1..Len(r.pre) |-> UpStr(r.pre[k])], op |-> UpStr(r.op), attr |-> UpStr(r.attr),
             args |-> [k \in 1..Len(r.args) |-> [j \in 1..Len(WsTokens(r.args[k])) |-> UpStr(WsTokens(r.args[k])[j])]]]

(* A compound statement CS = [lab, op, comps, more]: the first parameter consists of comps, `more` are   *)
(* the further comma-separated parameters.  It is rendered like every line (Render) with the first       *)
(* parameter written as JoinGaps(comps, g); g = the gap choice, the new rendering dimension.             *)
CompoundLine(CS, g) == [lab |-> CS.lab, op |-> CS.op, attr |-> <<>>, args |-> <<JoinGaps(CS.comps, g, 1)>> \o CS.more]
RenderC(CS, c, g, P) == Render(CompoundLine(CS, g), c, P)
StmtOf(f) == [op |-> f.op, attr |-> f.attr, args |-> f.args]
ResplitLine(kind, raw, P) == Resplit(kind, StmtOf(Split(raw, P)))

\* the property for one compound statement: whatever gaps (and whatever top-level spelling) are chosen, the
\* statement that is finally assembled is the one the single-blank spelling yields
OneBlank == << <<SPC>> >>
GapsImmaterial(kind, CS, c, g, cref, P) ==
  NormR(ResplitLine(kind, ReadLine(<<RenderC(CS, c, g, P)>>), P)) = NormR(ResplitLine(kind, RenderC(CS, cref, OneBlank, P), P))

\* ... and, for the prefix forms, that statement is the one the text behind the prefix is ON A LINE OF ITS OWN
\* (from: index of the component that is the inner mnemonic)
InnerAlone(CS, from, cref, P) ==
  LET txt   == cref.lead \o JoinGaps(SubSeq(CS.comps, from, Len(CS.comps)), OneBlank, 1)
               \o (IF CS.more = <<>> THEN <<>> ELSE <<P.div[1]>> \o JoinArgs(CS.more, 1, <<P.div[1]>>))
  IN  StmtOf(Split(txt, P))
PrefixIsTransparent(kind, CS, from, c, g, cref, P) ==
  LET r == NormR(ResplitLine(kind, ReadLine(<<RenderC(CS, c, g, P)>>), P))
      a == InnerAlone(CS, from, cref, P)
      n == NormR([ok |-> TRUE, pre |-> <<>>, op |-> a.op, attr |-> a.attr, args |-> a.args])
  IN  r.ok /\ r.op = n.op /\ r.attr = n.attr /\ r.args = n.args
===============================================================================
