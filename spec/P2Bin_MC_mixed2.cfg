\* MIXED GRANULARITY, thorough: <= 2 records of 0 / 1 / 4 units at 0, 1, 3, 6 in units of 1, 2, 4 bytes x 12 windows x 7 lanes
CONSTANTS
  Dev = {}
  MaxRecs = 2
  Starts = {0, 1, 3, 6}
  UnitLens = {0, 1, 4}
  GranSet = {1, 2, 4}
  EntryAddrs = {}
  Offsets = {}
  FillSet = {255}
  SumOpts = {FALSE}
  SegOpts = {1}
  CpuSegs <- CS_One
  Ranges <- R_Mixed3
  LaneSet <- L_Mixed3
  FiltSet <- F_None
  ESet <- E_None
  HdrSet <- H_None
SPECIFICATION Spec
INVARIANTS Conforms ConformsMixed StepRunAgrees ChunkListOK WindowStable WindowStableMixed MeasureSound MeasureSoundMixed UsedIsCoverage
CHECK_DEADLOCK FALSE
