\* DOTTEDSTRUCTS surviving AssembleFile_InitPass (the tree as originally pinned): EXPECTED to violate Independent
CONSTANTS MaxLines = 2 MaxFiles = 2 Wrap = 0 Leaky = {"dotted"}
CONSTANTS Kinds <- KindsHist OptSpace <- OptsTwo
SPECIFICATION Spec
INVARIANTS Independent
CHECK_DEADLOCK FALSE
