\* the pinned tree's DOTTEDSTRUCTS flag survives AssembleFile_InitPass: EXPECTED to violate FreshStart / Independent
CONSTANTS MaxLines = 2 MaxFiles = 2 Wrap = 0 Leaky = {"dotted"}
CONSTANTS Kinds <- KindsHist OptSpace <- OptsTwo
SPECIFICATION Spec
INVARIANTS Independent
CHECK_DEADLOCK FALSE
