CONSTANTS LOCSYMSIGHT = 3
INIT TInit
NEXT TNext
POSTCONDITION Accepted
CHECK_DEADLOCK FALSE
