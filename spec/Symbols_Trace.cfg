CONSTANTS LOCSYMSIGHT = 3 PopVIntoConstant = TRUE NamedTmpByLastGlobal = TRUE EmptyMacroPopsOuter = TRUE
INIT TInit
NEXT TNext
POSTCONDITION Accepted
CHECK_DEADLOCK FALSE
