------------------------------ MODULE DiagPos ------------------------------
(***************************************************************************)
(* C20: where a diagnostic is attributed, and the EXPECT / ENDEXPECT       *)
(* accounting of asmerr.c.                                                 *)
(*                                                                         *)
(* The POSITION of a diagnostic is a function of the input-tag chain at    *)
(* the moment the statement is assembled (as.c GetErrorPos and the         *)
(* *_GetPos functions).  MacroProc keeps that function with every          *)
(* delivered statement (machine side: PosOf(tags), read from the tag       *)
(* counters the way the code does; declarative side: DPos, the place the   *)
(* program text puts the statement), so this module only has to say which  *)
(* statements raise a message and what EXPECT does with it.                *)
(*                                                                         *)
(* Conventions of the pinned tree, transcribed (they are the reference):   *)
(*   native  file(L) M1(b) REPT k(b) IRP:arg(b) IRPN:a,b(b) IRPC:'c'(b)    *)
(*           WHILE k/b          L = line last read from the innermost file *)
(*           (the CALL line of a macro, the closing ENDM of a loop),       *)
(*           b = body line; only the innermost file is named               *)
(*   gnu     "In file included from f:L" for every enclosing file, then    *)
(*           file:L (no construct chain: documented loss)                  *)
(*   a continued line counts all its physical lines: L is its last one     *)
(*   no input tag at all (end of pass): INTERNAL                           *)
(***************************************************************************)
EXTENDS MacroProg

\* self-contained faulty statements: the op of the token line names the message it raises
FaultOps == {"F1200", "F1110", "F1320", "F1010", "W60"}
FaultNum(op) == CASE op = "F1200" -> 1200     \* unknown instruction
                  [] op = "F1110" -> 1110     \* wrong number of operands
                  [] op = "F1320" -> 1320     \* range overflow
                  [] op = "F1010" -> 1010     \* symbol undefined (reported in the pass after the first)
                  [] OTHER -> 60              \* warning: distance 0 for a short jump
ClassOf(num) == IF num < 1000 THEN "warning" ELSE IF num >= 10000 THEN "fatal" ELSE "error"
NumExpectedError == 2130   NumNoNestExpect == 2140   NumMissingENDEXPECT == 2150   NumMissingEXPECT == 2160
NumWrongArgCnt == 1110
Internal == [native |-> <<>>, gnu |-> <<>>]          \* GetErrorPos() without any input tag: "INTERNAL"

(***************************************************************************)
(* EXPECT machine (asmerr.c): pending = pExpectErrors (head first)         *)
(***************************************************************************)
XInit == [pending |-> <<>>, inExp |-> FALSE, out |-> <<>>, log |-> <<>>]      \* log: every message raised, hidden or not

\* FindAndTakeExpectError: first entry with that number, unlinked
TakeFirst(p, n) == LET i == FirstIdx(p, n) IN SubSeq(p, 1, i - 1) \o SubSeq(p, i + 1, Len(p))

\* WrXErrorPos: an announced number is consumed silently, anything else is reported
Report(x, num, pos) ==
  IF num \in Range(x.pending) THEN [x EXCEPT !.pending = TakeFirst(x.pending, num), !.log = Append(@, [num |-> num, hid |-> TRUE])]
  ELSE [x EXCEPT !.out = Append(@, [num |-> num, cls |-> ClassOf(num), pos |-> pos]), !.log = Append(@, [num |-> num, hid |-> FALSE])]

RECURSIVE AddAll(_, _)        \* AddExpectError for every argument in turn: each new entry goes in front
AddAll(p, nums) == IF nums = <<>> THEN p ELSE AddAll(<<Head(nums)>> \o p, Tail(nums))

CodeEXPECT(x, nums, pos) ==
  IF nums = <<>> THEN Report(x, NumWrongArgCnt, pos)
  ELSE IF x.inExp THEN Report(x, NumNoNestExpect, pos)
  ELSE [x EXCEPT !.pending = AddAll(@, nums), !.inExp = TRUE]

RECURSIVE DrainPending(_, _)  \* one "expected error did not occur" per leftover (itself subject to the list)
DrainPending(x, pos) ==
  IF x.pending = <<>> THEN x
  ELSE DrainPending(Report([x EXCEPT !.pending = Tail(@)], NumExpectedError, pos), pos)

CodeENDEXPECT(x, nargs, pos) ==
  IF nargs # 0 THEN Report(x, NumWrongArgCnt, pos)
  ELSE IF ~x.inExp THEN Report(x, NumMissingEXPECT, pos)
  ELSE [DrainPending(x, pos) EXCEPT !.inExp = FALSE]

\* AsmErrPassExit
PassExit(x) == LET y == IF x.inExp THEN Report(x, NumMissingENDEXPECT, Internal) ELSE x
               IN [y EXCEPT !.pending = <<>>, !.inExp = FALSE]

\* one delivered statement
NumsOf(l) == [i \in DOMAIN ArgsOf(l) |-> IF Len(ArgsOf(l)[i]) = 1 /\ IsNumTok(ArgsOf(l)[i][1]) THEN NumVal(ArgsOf(l)[i][1]) ELSE 0]
XStep(x, e, pass) ==
  LET op == OpOf(e.l)
  IN CASE op = "EXPECT" -> CodeEXPECT(x, NumsOf(e.l), e.pos)
       [] op = "ENDEXPECT" -> CodeENDEXPECT(x, Len(ArgsOf(e.l)), e.pos)
       [] op \in FaultOps -> IF op = "F1010" => pass > 1 THEN Report(x, FaultNum(op), e.pos) ELSE x
       [] OTHER -> x

RECURSIVE XRun(_, _, _, _)
XRun(x, flat, i, pass) == IF i > Len(flat) THEN PassExit(x) ELSE XRun(XStep(x, flat[i], pass), flat, i + 1, pass)

\* the machine states after every statement of a pass (the pending list is explicit state)
RECURSIVE XStates(_, _, _, _)
XStates(x, flat, i, pass) == IF i > Len(flat) THEN <<PassExit(x)>> ELSE <<XStep(x, flat[i], pass)>> \o XStates(XStep(x, flat[i], pass), flat, i + 1, pass)
\* outside an EXPECT block nothing is pending: ENDEXPECT and the end of the pass leave the list empty, so an
\* announcement that was not met cannot swallow a message that occurs later outside any block
PendingOnlyInsideBlock(flat, pass) ==
  LET xs == XStates(XInit, flat, 1, pass) IN \A i \in DOMAIN xs : ~xs[i].inExp => xs[i].pending = <<>>

\* messages of one pass over the delivered statements; the passes asl makes: a second one iff the first one is
\* free of errors and met an undefined symbol (forward reference assumed)
PassDiags(flat, pass) == XRun(XInit, flat, 1, pass).out
HasErr(ds) == \E i \in DOMAIN ds : ds[i].cls # "warning"
NeedsPass2(flat) == \E i \in DOMAIN flat : OpOf(flat[i].l) = "F1010"
AllDiags(flat) ==
  LET p1 == PassDiags(flat, 1)
  IN IF ~HasErr(p1) /\ NeedsPass2(flat) THEN p1 \o PassDiags(flat, 2) ELSE p1

(***************************************************************************)
(* Declarative meaning of EXPECT (the manual): inside EXPECT n1..nk ...    *)
(* ENDEXPECT every announced number hides one occurrence of that message   *)
(* (the earliest ones); announced numbers without an occurrence are each   *)
(* reported once at ENDEXPECT.  Defined for well-formed use (blocks closed,*)
(* not nested, numbers announced), by counting - no list is walked.        *)
(***************************************************************************)
Raises(e, pass) == LET op == OpOf(e.l) IN op \in FaultOps /\ (op = "F1010" => pass > 1)
\* index of the EXPECT that governs statement i (0: none)
Governing(flat, i) ==
  LET O == {j \in 1..(i - 1) : OpOf(flat[j].l) = "EXPECT" /\ ArgsOf(flat[j].l) # <<>>
                                /\ \A k \in (j + 1)..(i - 1) : ~(OpOf(flat[k].l) = "ENDEXPECT" /\ ArgsOf(flat[k].l) = <<>>)}
  IN IF O = {} THEN 0 ELSE CHOOSE j \in O : \A k \in O : k <= j
WellFormedExpect(flat) ==
  /\ \A i \in DOMAIN flat : OpOf(flat[i].l) = "EXPECT" => Governing(flat, i) = 0 /\ ArgsOf(flat[i].l) # <<>>
                                                         /\ \E j \in (i + 1)..Len(flat) : OpOf(flat[j].l) = "ENDEXPECT"
  /\ \A i \in DOMAIN flat : OpOf(flat[i].l) = "ENDEXPECT" => Governing(flat, i) # 0 /\ ArgsOf(flat[i].l) = <<>>
  /\ \A i \in DOMAIN flat : OpOf(flat[i].l) = "EXPECT" => \A z \in DOMAIN NumsOf(flat[i].l) : NumsOf(flat[i].l)[z] \notin {0, NumExpectedError}
Announced(flat, g, n) == IF g = 0 THEN 0 ELSE Cardinality({z \in DOMAIN NumsOf(flat[g].l) : NumsOf(flat[g].l)[z] = n})
\* is the message of statement i shown?  it is iff at least Announced earlier occurrences were already hidden
ShownDecl(flat, i, pass) ==
  LET g == Governing(flat, i)
      n == FaultNum(OpOf(flat[i].l))
      earlier == Cardinality({j \in (g + 1)..(i - 1) : g # 0 /\ Raises(flat[j], pass) /\ FaultNum(OpOf(flat[j].l)) = n})
  IN Raises(flat[i], pass) /\ earlier >= Announced(flat, g, n)
\* number of "expected error did not occur" at the ENDEXPECT at index i
MissingDecl(flat, i, pass) ==
  LET g == Governing(flat, i)
      occ(n) == Cardinality({j \in (g + 1)..(i - 1) : Raises(flat[j], pass) /\ FaultNum(OpOf(flat[j].l)) = n})
      S == {NumsOf(flat[g].l)[z] : z \in DOMAIN NumsOf(flat[g].l)}
      RECURSIVE Sum(_)
      Sum(T) == IF T = {} THEN 0 ELSE LET n == CHOOSE n \in T : TRUE
                                      IN (IF Announced(flat, g, n) > occ(n) THEN Announced(flat, g, n) - occ(n) ELSE 0) + Sum(T \ {n})
  IN Sum(S)
\* the machine's output for one pass, restricted to what the manual fixes
ExpectAccountingOK(flat, pass) ==
  LET out == PassDiags(flat, pass)
      shown == SelectSeq([i \in DOMAIN flat |-> [i |-> i, e |-> flat[i]]], LAMBDA r : ShownDecl(flat, r.i, pass))
      faults == SelectSeq(out, LAMBDA d : d.num # NumExpectedError)
  IN /\ Len(faults) = Len(shown)
     /\ \A k \in DOMAIN shown : faults[k].num = FaultNum(OpOf(shown[k].e.l)) /\ faults[k].pos = shown[k].e.pos
     /\ \A i \in DOMAIN flat : OpOf(flat[i].l) = "ENDEXPECT" =>
          Cardinality({k \in DOMAIN out : out[k].num = NumExpectedError /\ out[k].pos = flat[i].pos}) >= MissingDecl(flat, i, pass)
     /\ Len(out) - Len(faults) = LET E == {i \in DOMAIN flat : OpOf(flat[i].l) = "ENDEXPECT"}
                                     RECURSIVE Tot(_)
                                     Tot(T) == IF T = {} THEN 0 ELSE LET i == CHOOSE i \in T : TRUE IN MissingDecl(flat, i, pass) + Tot(T \ {i})
                                 IN Tot(E)

(***************************************************************************)
(* Placement families: a faulty line at a chosen place                     *)
(***************************************************************************)
FLT(op) == L(<<>>, op, <<>>)
Clean(i) == DB(N(i))
\* k clean lines; line at carries j continuation breaks (physical lines are counted, not logical ones)
ContLine(j) == <<SP, "DB", SP, "1">> \o Flatten([i \in 1..j |-> <<COMMA, CONT, SP, ToString(i + 1)>>])

\* wrap the faulty line into loop / macro constructs, outermost first; `pre` clean body lines before it, `post` after it
RECURSIVE Wrap(_, _, _, _, _)
Wrap(kinds, d, pre, post, fault) ==
  IF kinds = <<>> THEN [defs |-> <<>>, body |-> [i \in 1..pre |-> Clean(i)] \o <<fault>>]
  ELSE LET inner == Wrap(Tail(kinds), d + 1, pre, post, fault)
           k == Head(kinds)
           x == "X" \o ToString(d)
           before == [i \in 1..pre |-> Clean(20 + i)]
           after == [i \in 1..post |-> Clean(9)]        \* post = 0: the nested construct / the faulty line ends the body
           in == before \o inner.body \o after
       IN CASE k = "REPT" -> [defs |-> inner.defs, body |-> <<L(<<>>, "REPT", N(2))>> \o in \o <<ENDM>>]
            [] k = "IRP" -> [defs |-> inner.defs, body |-> <<L(<<>>, "IRP", Cs(<<<<x>>, N(4), N(5)>>))>> \o in \o <<ENDM>>]
            [] k = "IRPN" -> [defs |-> inner.defs, body |-> <<L(<<>>, "IRPN", Cs(<<N(2), <<x>>, <<"Y" \o ToString(d)>>, N(4), N(5), N(6)>>))>> \o in \o <<ENDM>>]
            [] k = "IRPC" -> [defs |-> inner.defs, body |-> <<L(<<>>, "IRPC", Cs(<<<<x>>, <<QUOTE, "4", "5", QUOTE>>>>))>> \o in \o <<ENDM>>]
            [] k = "WHILE" -> [defs |-> inner.defs,
                               body |-> <<L(<<"C" \o ToString(d)>>, "SET", N(2)), L(<<>>, "WHILE", <<"C" \o ToString(d)>>)>> \o in
                                        \o <<L(<<"C" \o ToString(d)>>, "SET", <<"C" \o ToString(d), "-", "1">>), ENDM>>]
            [] OTHER -> [defs |-> inner.defs \o <<L(<<"M" \o ToString(d)>>, "MACRO", <<>>)>> \o in \o <<ENDM>>,
                         body |-> <<L(<<>>, "M" \o ToString(d), <<>>), L(<<>>, "M" \o ToString(d), <<>>)>>]

Kinds == {"REPT", "IRP", "IRPN", "IRPC", "WHILE", "MACRO"}
\* placement in the main file: `lead` clean lines (one of them continued over 1 + cont lines), then the construct nest
MainProg(kinds, pre, post, lead, cont, fault) ==
  LET w == Wrap(kinds, 1, pre, post, FLT(fault))
  IN [f \in {"a.asm"} |-> [i \in 1..lead |-> Clean(i)] \o (IF cont > 0 THEN <<ContLine(cont)>> ELSE <<>>) \o w.defs \o w.body \o <<Clean(8)>>]
\* placement in an include file of depth dep (every level has lead lines, a continued line, then the include)
InclFault(dep, kinds, pre, post, cont, fault) ==
  LET inc(i) == "I" \o ToString(i) \o ".INC"
      arg(i) == <<"I" \o ToString(i), ".", "INC">>
      w == Wrap(kinds, 1, pre, post, FLT(fault))
      head(i) == [j \in 1..i |-> Clean(j)] \o (IF cont > 0 THEN <<ContLine(cont)>> ELSE <<>>)
  IN [f \in {"a.asm"} \cup {inc(i) : i \in 1..dep} |->
        IF f = "a.asm" THEN head(1) \o <<L(<<>>, "INCLUDE", arg(1)), Clean(7)>>
        ELSE LET i == CHOOSE i \in 1..dep : inc(i) = f
             IN IF i < dep THEN head(i + 1) \o <<L(<<>>, "INCLUDE", arg(i + 1)), Clean(7)>>
                ELSE head(i) \o w.defs \o w.body \o <<Clean(8)>>]
\* an include file read from inside a construct: only the file is named natively
InclInside(kind, fault) ==
  LET w == Wrap(<<kind>>, 1, 0, 1, L(<<>>, "INCLUDE", <<"I1", ".", "INC">>))
  IN [f \in {"a.asm", "I1.INC"} |-> IF f = "a.asm" THEN <<Clean(1)>> \o w.defs \o w.body ELSE <<Clean(2), FLT(fault), Clean(3)>>]

\* a faulty line AFTER a construct has completed: the line counter of the file must be what it was (MomLineCounter
\* is saved in the FILE tag by ExpandINCLUDE_Core and restored by INCLUDE_Restorer; tag.startLine / st.momLine in
\* MacroProc).  inc: the innermost body line is an INCLUDE (read from inside the construct nest), else a clean line;
\* where = "main": everything in the main file; "inc": the construct nest and a faulty line live in I2.INC, a second
\* faulty line follows the INCLUDE of I2.INC in the main file (after nested includes have returned).
AfterProg(kinds, inc, pre, post, cont, fault, where) ==
  LET innermost == IF inc THEN L(<<>>, "INCLUDE", <<"I1", ".", "INC">>) ELSE Clean(5)
      w == Wrap(kinds, 1, pre, post, innermost)
      tail == (IF cont > 0 THEN <<ContLine(cont)>> ELSE <<>>) \o <<FLT(fault), Clean(8)>>
      nest == <<Clean(1)>> \o w.defs \o w.body \o tail
  IN [f \in {"a.asm", "I1.INC", "I2.INC"} |->
        IF f = "I1.INC" THEN <<Clean(2), ContLine(1), Clean(3)>>
        ELSE IF where = "main" THEN (IF f = "a.asm" THEN nest ELSE <<Clean(4)>>)
        ELSE IF f = "I2.INC" THEN nest
        ELSE <<Clean(6), L(<<>>, "INCLUDE", <<"I2", ".", "INC">>), FLT(fault), Clean(7)>>]

(***************************************************************************)
(* Family `linelen`: the LENGTHS and LINE ENDS of the physical lines.      *)
(* The line number of a message is the number of physical lines read from  *)
(* the file so far (MacroProc.FileProc: 1 + the continuation breaks of the *)
(* logical line) - whatever their lengths and line ends are.  The code     *)
(* gets this number from ReadLnCont(), which sees fgets() chunks of a      *)
(* buffer whose free room depends on the text joined so far and on every   *)
(* earlier line (spec/LineReader.tla).  So a program line here carries the *)
(* length of each of its physical lines, a file its line-end style and the *)
(* way it ends; the faulty line stands BEHIND the shaped statement.        *)
(*   ns        characters in front of the backslash / the line end, per    *)
(*             physical line (the renderer pads with blanks up to them)    *)
(*   eol       "lf" | "crlf" for every line of every file of the job       *)
(*   last      "nl": line end behind the last line, "nonl": none,          *)
(*             "ctrlz": a lone ^Z behind the last line end (DOS),          *)
(*             "zonline": ^Z directly behind the text of the last line     *)
(***************************************************************************)
LR == INSTANCE LineReader
ShortLen == 40                                            \* every physical line that is not shaped has this length
Plain(l) == [l |-> l, ns |-> [k \in 1..(1 + Count(l, CONT)) |-> ShortLen]]
ShapedStmt(ns) == [l |-> ContLine(Len(ns) - 1), ns |-> ns]          \* a data statement over Len(ns) physical lines
PhysOf(sl, eol, last) ==
  LET ps == Flatten([j \in DOMAIN sl |-> [k \in DOMAIN sl[j].ns |-> [n |-> sl[j].ns[k], bs |-> k < Len(sl[j].ns), z |-> FALSE, eol |-> eol]]])
  IN CASE last = "nonl" -> [ps EXCEPT ![Len(ps)].eol = "none"]
       [] last = "ctrlz" -> ps \o <<[n |-> 0, bs |-> FALSE, z |-> TRUE, eol |-> "none"]>>
       [] last = "zonline" -> [ps EXCEPT ![Len(ps)].eol = "none", ![Len(ps)].z = TRUE]
       [] OTHER -> ps
\* the lengths the reader distinguishes are derived from its buffer constants: with t characters joined so far
\* (8 continued lines, none of them long) a physical line of LR!Fit bytes is the longest that arrives in one chunk;
\* d = 0 fits exactly, 1: the LF (CR | LF) is a chunk of its own, 2..: text in the next chunk, grow..: more chunks
JoinedPrefix(t) == [i \in 1..8 |-> IF i < 8 THEN t \div 8 ELSE t - 7 * (t \div 8)]
LineShape(kind, t, d, eol) ==
  LET fit == LR!Fit(LR!RealBuf, t, IF eol = "crlf" THEN 2 ELSE 1)
  IN CASE kind = "alone" -> <<fit + d>>                            \* one long line
       [] kind = "first" -> <<fit + d - 1, ShortLen>>              \* long first part: the backslash is the byte in front of the line end
       [] kind = "behind" -> JoinedPrefix(t) \o <<fit + d>>        \* the part behind t joined characters
       [] OTHER -> [i \in 1..(t + 1) |-> ShortLen]                 \* "short": t continuation breaks, nothing long
\* where = "main": statement and faulty line in the main file; "inc": in I1.INC, a second faulty line behind the
\* INCLUDE; "both": also the same statement behind the INCLUDE in the main file (the buffer has grown by then).
\* twice: the statement and the faulty line a second time in the same file; tailclean: a clean line ends the file
\* (else the faulty line is the last line).
LineLenProg(ns, where, fault, tailclean, twice, eol, last) ==
  LET stmt == ShapedStmt(ns)
      flt == Plain(FLT(fault))
      body == <<Plain(Clean(1)), stmt, flt>> \o (IF twice THEN <<stmt, flt>> ELSE <<>>) \o (IF tailclean THEN <<Plain(Clean(8))>> ELSE <<>>)
      outer == <<Plain(Clean(6)), Plain(L(<<>>, "INCLUDE", <<"I1", ".", "INC">>))>> \o (IF where = "both" THEN <<stmt>> ELSE <<>>)
               \o <<flt>> \o (IF tailclean THEN <<Plain(Clean(7))>> ELSE <<>>)
      sl == [f \in (IF where = "main" THEN {"a.asm"} ELSE {"a.asm", "I1.INC"}) |-> IF where = "main" \/ f = "I1.INC" THEN body ELSE outer]
  IN [files |-> [f \in DOMAIN sl |-> [j \in DOMAIN sl[f] |-> sl[f][j].l]],
      phys |-> [f \in DOMAIN sl |-> PhysOf(sl[f], eol, last)]]
\* capacities the line buffer can have when a file of the job is opened (history: other files, the first pass)
LineCaps(phys) == LR!Caps(LR!RealBuf, 4 * LR!RealBuf.cap)
\* MacroProc.FileProc takes 1 + Count(raw, CONT) as what ReadLnCont() returns and the end-of-file read as one more
\* line: that is what the reader of LineReader delivers for every capacity (unless CrSplitFromLf breaks a statement)
ReaderAgrees(files, phys) ==
  \A f \in DOMAIN files : \A B \in LineCaps(phys) :
     LET rs == LR!ReadFile(phys[f], B)
         src == FileSrc(files[f])
     IN /\ LR!WellShaped(phys[f])
        /\ LR!CountsPhysical(phys[f], rs)
        /\ LR!NoSplitDev(rs) =>
             /\ Len(rs) \in {Len(files[f]), Len(files[f]) + 1} /\ rs[Len(rs)].last /\ LR!Brief(rs) = LR!DeclReads(phys[f])
             /\ \A j \in DOMAIN files[f] : rs[j].count = 1 + Count(files[f][j], CONT) /\ rs[j].lineZ = src.phys[j]
             /\ \A j \in DOMAIN rs : j > Len(files[f]) => (rs[j].count = 1 /\ rs[j].len = 0)
\* lines whose statement the as-coded reader can break (CrSplitFromLf, for some capacity): the manual allows no
\* composed line of that length (256), what is said about these lines is not judged
UnjudgedLines(phys) ==
  UNION {{[file |-> f, line |-> k] : k \in UNION {LR!DevLines(phys[f], LR!ReadFile(phys[f], B)) : B \in LineCaps(phys)}} : f \in DOMAIN phys}
ChunkedIn(phys) == \E f \in DOMAIN phys : LR!Chunked(LR!ReadFile(phys[f], LR!RealBuf))

(***************************************************************************)
(* -E targets over ONE invocation with SEVERAL sources.                    *)
(* "asl [options] s1 s2 s3" assembles the sources one after the other      *)
(* (as.c main() -> AssembleGroup -> AssembleFile); where the messages of   *)
(* a source go is a function of -E and of that source's name (manual,      *)
(* assembler-usage: "-E [file]": redirected to a file, !0..!2 the standard *)
(* handles, default !2, without a name <source>.LOG).  The code keeps ONE  *)
(* handle for the whole invocation and opens it lazily:                    *)
(*   path  ErrorPath   "" = -E without name                                *)
(*   name  ErrorName   the file the NEXT open creates                      *)
(*   file  ErrorFile   "" = NULL; a standard handle; the name the handle   *)
(*                     was opened under; Orphan = open, name removed       *)
(*   fs    the files written in the working directory, ch the handles      *)
(* The operators are the five places of the code that touch these.         *)
(***************************************************************************)
StdHandles == {"!0", "!1", "!2"}
DefaultErrorPath == "!2"                                  \* as.c main(): strcpy(ErrorPath, "!2")
Orphan == "(unlinked)"
NoFiles == [x \in {} |-> <<>>]
FPut(fs, n, v) == [x \in DOMAIN fs \cup {n} |-> IF x = n THEN v ELSE fs[x]]
FDel(fs, n) == [x \in DOMAIN fs \ {n} |-> fs[x]]
\* <source>.log: the generator's sources are x.asm (KillSuffix / AddSuffix LogSuffix)
LogOf(src) == CASE src = "a.asm" -> "a.log" [] src = "b.asm" -> "b.log" [] src = "c.asm" -> "c.log" [] OTHER -> "x.log"

SinkInit(path) == [path |-> path, name |-> "", file |-> "", fs |-> NoFiles, ch |-> [h \in StdHandles |-> <<>>]]
SinkUnlink(s, n) == [s EXCEPT !.fs = FDel(@, n), !.file = IF @ = n THEN Orphan ELSE @]
CloseIfOpen(s) == [s EXCEPT !.file = ""]                                              \* stdhandl.c
\* as.c main(), before the first source: if (ErrorPath[0]) { strcpy(ErrorName, ErrorPath); unlink(ErrorName); }
SinkMainBegin(s) == IF s.path # "" THEN SinkUnlink([s EXCEPT !.name = s.path], s.path) ELSE s
\* as.c AssembleFile(), head: if (!*ErrorPath) { ErrorName = <source>.log; unlink(ErrorName); }
SinkFileBegin(s, src) == IF s.path = "" THEN SinkUnlink([s EXCEPT !.name = LogOf(src)], LogOf(src)) ELSE s
\* asmerr.c WrErrorString(): if (!ErrorFile) OpenWithStandard(&ErrorFile, ErrorName) - fopen(.., "w") creates / empties
SinkOpen(s) == IF s.file # "" THEN s
               ELSE IF s.name \in StdHandles THEN [s EXCEPT !.file = s.name]
               ELSE [s EXCEPT !.file = s.name, !.fs = FPut(@, s.name, <<>>)]
SinkWrite(s, m) == LET t == SinkOpen(s)
                   IN IF t.file \in StdHandles THEN [t EXCEPT !.ch[t.file] = Append(@, m)]
                      ELSE IF t.file = Orphan THEN t
                      ELSE [t EXCEPT !.fs[t.file] = Append(@, m)]
\* as.c AssembleFile(), tail: if (!*ErrorPath) CloseIfOpen(&ErrorFile);   (the per-source log is complete)
SinkFileEnd(s) == IF s.path = "" THEN CloseIfOpen(s) ELSE s
\* as.c main(), behind the last source: if (*ErrorPath) CloseIfOpen(&ErrorFile);
SinkMainEnd(s) == IF s.path # "" THEN CloseIfOpen(s) ELSE s

RECURSIVE SinkWriteAll(_, _)
SinkWriteAll(s, ms) == IF ms = <<>> THEN s ELSE SinkWriteAll(SinkWrite(s, Head(ms)), Tail(ms))
RECURSIVE SinkSources(_, _, _, _)
SinkSources(s, srcs, msgs, k) ==
  IF k > Len(srcs) THEN s ELSE SinkSources(SinkFileEnd(SinkWriteAll(SinkFileBegin(s, srcs[k]), msgs[k])), srcs, msgs, k + 1)
\* the invocation: msgs[k] = the messages source k raises, in the order it raises them
SinkRun(path, srcs, msgs) == SinkMainEnd(SinkSources(SinkMainBegin(SinkInit(path)), srcs, msgs, 1))
\* what a place (a file name or a standard handle) holds at the end
SinkHolds(s, T) == IF T \in StdHandles THEN s.ch[T] ELSE IF T \in DOMAIN s.fs THEN s.fs[T] ELSE <<>>

\* Declarative meaning of -E (the manual's sentence, no handle): the option set sends the messages of a source to ONE
\* place, and a place holds the messages of all sources sent there, each source's in the order raised, the sources in
\* command-line order - nothing is lost, nothing lands elsewhere.
TargetOf(path, src) == IF path = "" THEN LogOf(src) ELSE path
HeldDecl(path, srcs, msgs, T) == Flatten([k \in DOMAIN srcs |-> IF TargetOf(path, srcs[k]) = T THEN msgs[k] ELSE <<>>])
DistinctLogs(srcs) == \A i, j \in DOMAIN srcs : i # j => LogOf(srcs[i]) # LogOf(srcs[j])
SinkAgreesWithDecl(path, srcs, msgs, places) ==
  LET s == SinkRun(path, srcs, msgs)
  IN /\ s.file = ""                                                   \* the handle is closed when the invocation ends
     /\ \A T \in places \cup DOMAIN s.fs \cup StdHandles : SinkHolds(s, T) = HeldDecl(path, srcs, msgs, T)

\* --- the sources of such an invocation: source i is SrcName(i), its faulty lines stand at places that depend on i
\* (so that the same shape in two sources is told apart by file AND line); I1.INC is shared by all sources that
\* include it, N<i>.INC (which includes I1.INC) belongs to source i
SrcName(i) == CASE i = 1 -> "a.asm" [] i = 2 -> "b.asm" [] OTHER -> "c.asm"
NestInc(i) == "N" \o ToString(i) \o ".INC"
SrcShapes == {"clean", "main", "incl", "macro", "late", "warn", "nest", "rept", "cont2"}
SrcLines(i, shape) ==
  LET lead == [j \in 1..i |-> Clean(j)]
  IN CASE shape = "clean" -> lead \o <<Clean(8)>>
       [] shape = "main" -> lead \o <<FLT("F1200"), Clean(8)>>
       [] shape = "incl" -> lead \o <<L(<<>>, "INCLUDE", <<"I1", ".", "INC">>), FLT("F1320"), Clean(8)>>
       [] shape = "macro" -> LET w == Wrap(<<"MACRO">>, 1, 1, 0, FLT("F1200")) IN lead \o w.defs \o w.body \o <<Clean(8)>>
       [] shape = "late" -> lead \o <<Clean(7), FLT("F1010")>>                   \* complains in the second pass, last line
       [] shape = "warn" -> lead \o <<FLT("W60"), Clean(8), FLT("W60")>>         \* warnings only: the source assembles
       [] shape = "nest" -> lead \o <<ContLine(1), L(<<>>, "INCLUDE", <<"N" \o ToString(i), ".", "INC">>), Clean(8)>>
       [] shape = "rept" -> LET w == Wrap(<<"REPT">>, 1, 0, 1, FLT("F1110")) IN lead \o w.body \o <<FLT("F1200")>>
       [] OTHER -> lead \o <<ContLine(2), FLT("F1200"), Clean(8), FLT("F1320")>>
MultiFiles(shapes) ==
  LET n == Len(shapes)
      incs == (IF \E i \in 1..n : shapes[i] \in {"incl", "nest"} THEN {"I1.INC"} ELSE {})
              \cup {NestInc(i) : i \in {j \in 1..n : shapes[j] = "nest"}}
  IN [f \in {SrcName(i) : i \in 1..n} \cup incs |->
        IF f = "I1.INC" THEN <<Clean(2), FLT("F1110"), Clean(3)>>
        ELSE IF \E i \in 1..n : f = NestInc(i) THEN <<Clean(4), L(<<>>, "INCLUDE", <<"I1", ".", "INC">>), FLT("F1200")>>
        ELSE LET i == CHOOSE i \in 1..n : SrcName(i) = f IN SrcLines(i, shapes[i])]

\* EXPECT blocks: announced numbers A (sequence), occurring faults O (sequence of fault ops)
ExpectProg(A, O, closed, nested) ==
  [f \in {"a.asm"} |->
     <<Clean(1), L(<<>>, "EXPECT", Cs([i \in DOMAIN A |-> N(A[i])]))>>
     \o (IF nested THEN <<L(<<>>, "EXPECT", N(1200))>> ELSE <<>>)
     \o Flatten([i \in DOMAIN O |-> <<FLT(O[i]), Clean(i)>>])
     \o (IF closed THEN <<L(<<>>, "ENDEXPECT", <<>>)>> ELSE <<>>) \o <<Clean(2)>>]
\* histories: messages before a block, a block (announcements A1, occurring O1), messages between / after blocks,
\* an optional second block (A2 = <<>>: none).  An announcement that is not met must not outlive its ENDEXPECT.
ExpectHistory(pre, A1, O1, mid, A2, O2, post) ==
  LET F(S) == [i \in DOMAIN S |-> FLT(S[i])]
      blk(A, O) == <<L(<<>>, "EXPECT", Cs([i \in DOMAIN A |-> N(A[i])]))>> \o F(O) \o <<L(<<>>, "ENDEXPECT", <<>>)>>
  IN [f \in {"a.asm"} |-> <<Clean(1)>> \o F(pre) \o blk(A1, O1) \o <<Clean(2)>> \o F(mid)
                           \o (IF A2 = <<>> THEN <<>> ELSE blk(A2, O2)) \o F(post) \o <<Clean(3)>>]

\* EXPECT in a macro body, the faults in the expansion
ExpectInMacro(A, O) ==
  [f \in {"a.asm"} |->
     <<L(<<"M1">>, "MACRO", <<>>), L(<<>>, "EXPECT", Cs([i \in DOMAIN A |-> N(A[i])]))>> \o [i \in DOMAIN O |-> FLT(O[i])]
     \o <<L(<<>>, "ENDEXPECT", <<>>), ENDM, L(<<>>, "M1", <<>>), L(<<>>, "M1", <<>>), L(<<>>, "ENDEXPECT", <<>>)>>]
=============================================================================
