----------------------------- MODULE P2Bin_Trace -----------------------------
(* (V) Judging observed runs of the real p2bin.  The harness writes one JSON line per run              *)
(*        {"id": n, "c": case, "obs": {"rc":..,"bytes":[..],"warn":..}, "known": [deviation names]}    *)
(* (records tokenised by the independent code-file reader, options as given on the command line) and   *)
(* TLC evaluates P2Bin!Verdict on each: one step per case, one OUT line per case.                      *)
EXTENDS P2Bin, Json, IOUtils

VARIABLE l
Cases == ndJsonDeserialize(IOEnv.CASES)
TInit == l = 1
TNext == /\ l <= Len(Cases)
         /\ LET v == Verdict(Cases[l].c, Cases[l].obs, Range(Cases[l].known))
                \* one output the specification allows, shown when the observation is rejected
                model == IF v.ok THEN [rc |-> 0, bytes |-> <<>>, warn |-> FALSE] ELSE Run({}, Cases[l].c)
            IN PrintT(<<"OUT", ToJson([id |-> Cases[l].id, model |-> model] @@ v)>>)
         /\ l' = l + 1
TSpec == TInit /\ [][TNext]_l
AllJudged == TLCGet("stats").diameter - 1 = Len(Cases)
=============================================================================
