----------------------------- MODULE Listing_Trace -----------------------------
(* (V) Reports of real assembler runs, tokenised into abstract rows / entries, are judged by TLC against *)
(* the emission trace of the final pass (hook events emit/reserve/retract, a neutral witness that needs  *)
(* no per-target endianness table) and the parsed code file.  One step per event:                        *)
(*  CASE     [emits, recs, syms, radix, W]    context of one assembler run (kept in the log, state = index) *)
(*  ROW      [line, addr, cont, units, at]     listing row; units = <<[size, shown]>>, shown = the bytes of  *)
(*                                             the printed number, most significant first; at = index of    *)
(*                                             the emission the harness proposes (TLC verifies it); a row   *)
(*                                             without units is rejected if `at` names the code it ought to *)
(*                                             show (Withheld: an extra text stands where the code belongs) *)
(*  ENDROWS                                    end of the listing body: the open group must be complete     *)
(*  SYM      [src, name, val, fmt]             a symbol report line (listing table, MAP, NoICE, share file);  *)
(*                                             val = canonical hexadecimal text of the 64-bit value,         *)
(*                                             fmt = number format of a share line ("" otherwise)            *)
(*  MAPLINE  [seg, line, addr, at]             MAP / NoICE / Atmel line-address entry                        *)
(*  EMITS                                      every emission of the final pass is in the code file          *)
(*  RESET                                                                                                   *)
EXTENDS Listing, TLC, Json, IOUtils

VARIABLES l, ci, ep, g, bad, skip
vars == <<l, ci, ep, g, bad, skip>>
TraceLog == ndJsonDeserialize(IOEnv.TRACE)
Ctx == TraceLog[ci]

NoGroup == [q |-> 0, off |-> 0, big |-> "?", line |-> 0]
GroupDone == IF g.q = 0 THEN TRUE ELSE g.off = Len(Ctx.emits[g.q].bytes)

Em(q) == [line |-> Ctx.emits[q].line, seg |-> Ctx.emits[q].seg, gran |-> Ctx.emits[q].gran, addr |-> Ctx.emits[q].addr,
          ph |-> Ctx.emits[q].ph, bytes |-> Ctx.emits[q].bytes]

\* byte order of a shown unit relative to the file bytes: "BE", "LE", "both" (palindrome / single byte) or "none"
Order(shown, fb) == IF shown = fb THEN (IF shown = Reverse(fb) THEN "both" ELSE "BE")
                    ELSE IF shown = Reverse(fb) THEN "LE" ELSE "none"
Agree(big, o) == o # "none" /\ (big = "?" \/ o = "both" \/ o = big)
Upd(big, o) == IF big = "?" /\ o \in {"BE", "LE"} THEN o ELSE big

\* the units of a row, starting at emission q / byte offset off; a source line whose code was written by
\* several WriteBytes() calls continues in the next emission (same line, contiguous address)
RECURSIVE UnitsOK(_, _, _, _, _)
UnitsOK(units, k, q, off, big) ==
  IF k > Len(units) THEN [ok |-> TRUE, q |-> q, off |-> off, big |-> big]
  ELSE IF off >= Len(Ctx.emits[q].bytes)
       THEN IF q < Len(Ctx.emits) /\ Ctx.emits[q + 1].k = "emit" /\ Ctx.emits[q + 1].line = Ctx.emits[q].line
                /\ Ctx.emits[q + 1].seg = Ctx.emits[q].seg
                /\ Ctx.emits[q + 1].addr = AddI(Ctx.emits[q].addr, Len(Ctx.emits[q].bytes) \div Ctx.emits[q].gran)
            THEN UnitsOK(units, k, q + 1, 0, big)
            ELSE [ok |-> FALSE, q |-> q, off |-> off, big |-> big]
       ELSE LET u  == units[k]
                fb == IF off + u.size <= Len(Ctx.emits[q].bytes) THEN SubSeq(Ctx.emits[q].bytes, off + 1, off + u.size) ELSE <<>>
                o  == Order(u.shown, fb)
            IN  IF Agree(big, o) THEN UnitsOK(units, k + 1, q, off + u.size, Upd(big, o))
                ELSE [ok |-> FALSE, q |-> q, off |-> off, big |-> big]

RowOK(e, q, off, big) ==
  /\ q >= 1 /\ q <= Len(Ctx.emits) /\ Ctx.emits[q].k = "emit" /\ Ctx.emits[q].line = e.line
  /\ LET q0  == IF off >= Len(Ctx.emits[q].bytes) /\ q < Len(Ctx.emits) THEN q + 1 ELSE q      \* row starts in the next emission
         of0 == IF q0 = q THEN off ELSE 0
     IN  /\ OnBoundary(Em(q0), of0)
         /\ e.addr = ExecAddr(Em(q0), of0)                      \* the shown address is the execution address
         /\ UnitsOK(e.units, 1, q, off, big).ok

\* RetractWords(): a later line took back the last words of emission q (TI DSP parallel instructions); those
\* bytes are listed with the earlier line but are not in the file any more
Retracted(q, R) ==
  \E j \in R : /\ j > q /\ Ctx.emits[j].seg = Ctx.emits[q].seg
               /\ LET d  == SmallDiff(Ctx.emits[j].addr, Ctx.emits[q].addr)
                      d2 == SmallDiff(Ctx.emits[q].addr, Ctx.emits[j].addr)
                  IN  (d >= 0 /\ d * Ctx.emits[q].gran < Len(Ctx.emits[q].bytes))
                      \/ (d2 >= 0 /\ d2 * Ctx.emits[q].gran < Ctx.emits[j].n)

\* line-address entries of the Atmel object file: one per code word, so the address lies in the line's code
Covers(q, seg, line, addr) ==
  /\ Ctx.emits[q].seg = seg /\ Ctx.emits[q].line = line
  /\ Ctx.emits[q].k \in {"emit", "reserve"}
  /\ LET d == SmallDiff(addr, Ctx.emits[q].addr) IN d >= 0 /\ d < Ctx.emits[q].units      \* units = address units of the line

\* a row without units that stands for a line which produced code: the harness names the emission (at, found by
\* aligning the rows with the hook's statement records: same line, same address, same operation, in order); it is a
\* witness if it is an emission of that line, not listed yet, whose code the row ought to show (LineShown)
Withheld(e) ==
  /\ e.at >= ep /\ e.at >= 1 /\ e.at <= Len(Ctx.emits)
  /\ Ctx.emits[e.at].k = "emit" /\ Ctx.emits[e.at].line = e.line
  /\ ~LineShown([addr |-> e.addr, units |-> e.units], Em(e.at))

TInit == l = 1 /\ ci = 0 /\ ep = 1 /\ g = NoGroup /\ bad = <<>> /\ skip = FALSE

\* is event e what the specification allows in the current state?
OK(e) ==
  CASE e.a = "CASE"  -> e.W = WidthsOf(e.radix)
    [] e.a = "ROW"   ->
         IF e.units = <<>> THEN GroupDone /\ ~Withheld(e)
         ELSE IF e.cont THEN (IF g.q = 0 THEN FALSE ELSE g.line = e.line /\ RowOK(e, g.q, g.off, g.big))
         ELSE GroupDone /\ e.at >= ep /\ RowOK(e, e.at, 0, "?")        \* rows and emissions come in the same order
    [] e.a = "ENDROWS" -> GroupDone
    [] e.a = "SYM"   -> IF e.name \in DOMAIN Ctx.syms THEN Ctx.syms[e.name] = e.val /\ e.fmt \in ShareFormats(e.src) ELSE FALSE
    [] e.a = "MAPLINE" -> IF e.at >= 1 /\ e.at <= Len(Ctx.emits)
                          THEN Ctx.emits[e.at].k \in {"emit", "reserve"}
                               /\ MapEntryJustified([seg |-> e.seg, line |-> e.line, addr |-> e.addr], <<Em(e.at)>>)
                          ELSE FALSE
    [] e.a = "OBJLINE" -> IF e.at >= 1 /\ e.at <= Len(Ctx.emits) THEN Covers(e.at, e.seg, e.line, e.addr) ELSE FALSE
    [] e.a = "EMITS" -> LET R == {j \in 1..Len(Ctx.emits) : Ctx.emits[j].k = "retract"} IN
                          \A q \in 1..Len(Ctx.emits) :
                             (Ctx.emits[q].k = "emit" /\ ~Retracted(q, R)) => InFile(Ctx.recs, Em(q))
    [] OTHER -> FALSE

\* state update of an accepted event
Upd3(e) ==
  CASE e.a = "CASE" -> ci' = l /\ ep' = 1 /\ g' = NoGroup
    [] e.a = "ROW" /\ e.units = <<>> -> g' = NoGroup /\ UNCHANGED <<ci, ep>>
    [] e.a = "ROW" /\ e.units # <<>> /\ e.cont ->
         /\ LET r == UnitsOK(e.units, 1, g.q, g.off, g.big) IN g' = [q |-> r.q, off |-> r.off, big |-> r.big, line |-> e.line]
         /\ UNCHANGED <<ci, ep>>
    [] e.a = "ROW" /\ e.units # <<>> /\ ~e.cont ->
         /\ LET r == UnitsOK(e.units, 1, e.at, 0, "?") IN g' = [q |-> r.q, off |-> r.off, big |-> r.big, line |-> e.line]
         /\ ep' = e.at + 1 /\ UNCHANGED ci
    [] e.a = "ENDROWS" -> g' = NoGroup /\ UNCHANGED <<ci, ep>>
    [] OTHER -> UNCHANGED <<ci, ep, g>>

\* Every event is consumed; a case (one assembler run) with an event the specification does not allow is
\* recorded in `bad`; after a rejected ROW the remaining rows of that listing are skipped (they would fail for
\* the same reason), every other event is judged on its own, so that one TLC run judges a whole batch of runs.
TNext ==
  /\ l <= Len(TraceLog)
  /\ l' = l + 1
  /\ LET e == TraceLog[l] IN
       IF e.a = "RESET" THEN ci' = 0 /\ ep' = 1 /\ g' = NoGroup /\ skip' = FALSE /\ UNCHANGED bad
       ELSE IF skip /\ e.a \in {"ROW", "ENDROWS"} THEN UNCHANGED <<ci, ep, g, bad>> /\ skip' = (e.a = "ROW")
       ELSE IF (e.a # "CASE" /\ ci = 0) THEN UNCHANGED <<ci, ep, g, skip>> /\ bad' = Append(bad, l)
       ELSE IF OK(e) THEN Upd3(e) /\ skip' = FALSE /\ UNCHANGED bad
       ELSE /\ bad' = Append(bad, l) /\ skip' = (e.a = "ROW" /\ e.units # <<>>)      \* rows behind a rejected row are not
                                                                                  \* judged (a row that withholds its code
                                                                                  \* does not disturb the order)
            /\ IF e.a = "CASE" THEN ci' = l /\ ep' = 1 /\ g' = NoGroup ELSE g' = NoGroup /\ UNCHANGED <<ci, ep>>
Consumed == TLCGet("stats").diameter - 1 = Len(TraceLog)
Report == IF l > Len(TraceLog) THEN PrintT(<<"OUT", ToJson([bad |-> bad, n |-> Len(TraceLog)])>>) ELSE TRUE
Accepted == Consumed
=============================================================================
