\* quick: every history of <= 4 statements over OpsTiny (14 statements), without the backward reading
CONSTANTS Codes <- MCCodes
 FileTabs <- MCFileTabs
 Ops <- OpsTiny
 MaxLen = 4
 CheckBackward = FALSE
 CaseModes = {FALSE, TRUE}
 Dev = {}
 DevSourceChecked = TRUE
INIT Init
NEXT Next
CHECK_DEADLOCK FALSE
INVARIANTS MachineIsFold FoldIsFold WellFormed RestoreReestablishes CopyAtCreation OnlyActiveWritten ErrorsInert BackwardIsFold
