\* page layout as coded, page length > 0: every physical line fits the width, every page that was not ended by a
\* chapter break holds exactly the page length
CONSTANTS Mode = "page" MaxSteps = 7 MaxAddr = 1 MaxLen = 1 Gran = 1 RetractMode = "none"
  Keys = {"a"} MainFile = "m" IncFiles = {} MaxLineNo = 1 SectNames = {"X"} MaxDepth = 1
  PageLens = {2, 3} PageWidths = {0, 3, 4} MaxLine = 9 HeaderLen = 7 Fixed = FALSE
SPECIFICATION Spec
INVARIANTS LinesFit PagesFull
CHECK_DEADLOCK FALSE
