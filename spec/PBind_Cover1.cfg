\* replayed exhaustively: one file x 0..2 items
CONSTANTS MaxFiles = 1 MaxItems = 2 Starts = {300} ByteLens = {0, 2} EntryAddrs = {4660}
  CpuSegGran <- CSG_Small Forms <- Forms_Both Filters <- F_Small Creators <- Cr_One Quiets <- Q_Both Dev <- D_None
SPECIFICATION CoverSpec
CHECK_DEADLOCK FALSE
