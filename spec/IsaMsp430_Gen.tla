---------------------------- MODULE IsaMsp430_Gen ----------------------------
EXTENDS IsaMsp430
CONSTANTS Cpu, K, Salt, Step
VARIABLES form, ops, pc
INSTANCE IsaGen
ASSUME \A f \in Forms : FormWellFormed(f, UnitBits)
ASSUME \A f, g \in Forms : f.id = g.id => f = g
ASSUME FormsDistinct(FormsOfCpu, UnitBits)
\* (emulated instructions are aliases of core forms that the reduced form selection does not always contain)
=============================================================================
