----------------------------- MODULE Isa4004_Gen -----------------------------
EXTENDS Isa4004
CONSTANTS Cpu, K, Salt, Step
VARIABLES form, ops, pc
INSTANCE IsaGen
ASSUME TableSane
ASSUME Cardinality(DefinedOpcodes(FormsOfCpu, UnitBits)) = DefinedCount(Cpu)
=============================================================================
