\* C03 thorough tier, DASL target family 87C00: every combination of (pre, flow class, target routine, target position) over
\* two routines + the uniform programs of 1..4 routines over EVERY form with a target operand, the first / all routines as entries,
\* load addresses 0 and 256; the unfolded run is compared with Dasm!Run and with the reachability closure
CONSTANTS IsaName = "87C00" KFree = 2 KUni = 4 Gaps = {0, 1} Orgs = {0, 256} Modes = {"direct", "vector"} FreeModes = {"vector"}
  AllForms = TRUE AllEntrySets = FALSE
INIT Init
NEXT Next
INVARIANTS StepsBounded InvDone InvFiller InvRunAgrees InvSound InvOnItems Dump
CHECK_DEADLOCK FALSE
