\* C15 thorough tier, DASL target 87C00: sole-edge images - every control-transfer variant x 0..1 NOPs in front x target
\* routine behind / before x every closer x every end of the target routine, at every load address where the image is legal
CONSTANTS IsaName = "87C00" Orgs = {512, 65280} OrgMode = "all" Pres = {0, 1} AllTerms = TRUE AllVals = TRUE
INIT Init
NEXT Next
INVARIANTS InvDone InvComplete InvTargetTraced InvOnItems InvLostWithoutEdge Dump
CHECK_DEADLOCK FALSE
