\* (G) random wide source-level link sets (TLC -simulate, depth 14)
CONSTANTS MaxRecLenW = 65535
SPECIFICATION SimSpec
INVARIANTS SimDump
CHECK_DEADLOCK FALSE
