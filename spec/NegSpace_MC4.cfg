CONSTANTS
  MCOps = {"IF", "ELSE", "ENDIF", "SWITCH", "ENDCASE", "REPT", "IRPN", "WHILE", "MACRO", "ENDM", "EXITM", "CALLM1",
           "STRUCT", "ENDSTRUCT", "SECTION", "ENDSECTION", "PHASE", "DEPHASE", "SAVE", "RESTORE", "ALIGN", "FATAL",
           "END", "DATA", "SUBSTR"}
  MCClasses = {"m1", "h31"}
  MaxLen = 3
SPECIFICATION Spec
INVARIANTS TypeOK Total ExitDocumented ExitZeroBalanced WorkBounded
PROPERTIES StepRule ErrsMonotone ClosersNeverUnderflow StrayIfClosers ArgCountIsErrorStep SkippedInert RecordedInert
CHECK_DEADLOCK FALSE
