CONSTANTS ResetRule = "any" Full = FALSE PerProg = 14
INIT GInit
NEXT GNext
INVARIANT Dump
CHECK_DEADLOCK FALSE
