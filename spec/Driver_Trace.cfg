\* counters unbounded (what C02 needs), no leaking flags
CONSTANTS Wrap = 0 Leaky = {}
INIT TInit
NEXT TNext
POSTCONDITION Accepted
CHECK_DEADLOCK FALSE
