---------------------------- MODULE PassModes_MC ----------------------------
(* (M) every program of <= MaxLen statements over the modes: the readings of the last pass are the declarative  *)
(* ones (PassModes_MC.cfg: Leaky = {}); with the pinned tree's deviation (PassModes_MC_dev.cfg, Leaky = radix,  *)
(* outradix) TLC must refute the invariant.  (G) PassModes_Gen.cfg prints every program with its expectation.  *)
EXTENDS PassModes
MCModes == {"radix", "outradix", "relaxed"}
MCLeaky == {"radix", "outradix"}
Dump == PrintT(<<"PM", ToJson([prog |-> prog, two |-> NeedsSecondPass(prog),
                               exp |-> [i \in 1..Len(prog) |-> IF prog[i].k = "probe" THEN Reading(prog, i) ELSE "-"]])>>)
=============================================================================
