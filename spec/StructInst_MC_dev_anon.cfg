\* _dev_anon6
CONSTANTS MaxLen = 8 MaxDepth = 2 MaxInst = 1 MaxDefs = 1 SubNames = {"N"} Sizes = {1}
          EndForms = "plain" Moves = FALSE Errors = FALSE Strict = TRUE FixAnon = FALSE Segs = {"code"} StructSeg = "struct"
CONSTANTS OptSets <- Opt_plain SubOptSets <- Opt_plain DimSets <- Dim_none
SPECIFICATION Spec
INVARIANTS InstanceIsPromise
CHECK_DEADLOCK FALSE
