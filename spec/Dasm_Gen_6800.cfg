\* TLC -simulate: MaxItems items per program, Orgs = load addresses (incl. one straddling a page / near the top of
\* memory), WithVectors = 2-byte big-endian vectors as indirect entries (6800), MaxEntries direct entry addresses
CONSTANTS IsaName = "6800" Cpu = "6800" MaxItems = 12 Orgs = {256, 4096, 60000} WithVectors = TRUE MaxEntries = 4
INIT Init
NEXT Next
INVARIANT Dump
