CONSTANTS IsaName = "6800" Cpu = "6800" MaxItems = 12 Orgs = {256, 4096, 60000} WithVectors = TRUE MaxEntries = 4
INIT Init
NEXT Next
INVARIANT Dump
