--------------------------- MODULE PassLoop_Trace ---------------------------
(***************************************************************************)
(* (V) C01 observed inside the implementation: a monitor over the hook     *)
(* events of real assembler runs (any program: golden corpus, generated).  *)
(*                                                                         *)
(* Events (reformatted only: symbol (name, section) pairs numbered 1..n    *)
(* per execution, values as strings because TLC integers are 32 bit,       *)
(* constants only - SET variables are outside C01 -, identical sym_ref     *)
(* records of one pass collapsed):                                         *)
(*   [a |-> "RESET", x, n]            new execution x with n symbols       *)
(*   [a |-> "begin", pass]            as.c: pass_begin                     *)
(*   [a |-> "def", k, v, out]         asmpars.c SymbolAdder                *)
(*   [a |-> "mod", k, v]              asmpars.c ChangeSymbol (LabelModify) *)
(*   [a |-> "ref", k, v, out]         asmpars.c LookupSymbol               *)
(*   [a |-> "end", pass, repass, errs] as.c: bottom of the do-while        *)
(*   [a |-> "extra"]                  hook forced one more pass            *)
(*   [a |-> "cap"]                    hook stopped a run at the pass cap   *)
(*   [a |-> "fend"]                   file_end                             *)
(*                                                                         *)
(* What is required (the same statements PassLoop.tla proves of its pass   *)
(* loop, here over the variables of the real one):                         *)
(*  loop      a pass follows a pass iff that one ended with Repass and     *)
(*            without errors (or the hook forced it); the file ends        *)
(*            otherwise                                   (AssembleFile)   *)
(*  repass    a pass in which a constant was re-entered with a different   *)
(*            value (SymbolAdder) or an unknown symbol was looked up       *)
(*            (LookupSymbol) is never the last clean pass                  *)
(*  fixpoint  in the last clean pass every reference to a constant got     *)
(*            exactly the value the constant has at the end of that pass   *)
(*  stutter   in a forced extra pass no constant is re-entered with a      *)
(*            different value, and it ends clean and without Repass        *)
(*  capped    the run was not stopped by the pass cap                      *)
(* The monitor never blocks: it collects the names of the requirements an  *)
(* execution broke and prints them when the execution ends.                *)
(***************************************************************************)
EXTENDS Naturals, Sequences, FiniteSets, TLC, Json, IOUtils

TraceLog == ndJsonDeserialize(IOEnv.TRACE)

VARIABLES l, x, stage, pno, tab, refv, multi, unk, chg, extraPending, inExtra, last, bad
tvars == <<l, x, stage, pno, tab, refv, multi, unk, chg, extraPending, inExtra, last, bad>>

None == "~"
NoEnd == [repass |-> 0, errs |-> 0]
Continues(e) == e.repass = 1 /\ e.errs = 0      \* while ((ErrorCount == 0) && Repass)

TInit == /\ l = 1 /\ x = 0 /\ stage = "idle" /\ pno = 0 /\ tab = <<>> /\ refv = <<>> /\ multi = {}
         /\ unk = FALSE /\ chg = FALSE /\ extraPending = FALSE /\ inExtra = FALSE /\ last = NoEnd /\ bad = {}

Report == PrintT(<<"OUT", ToJson([x |-> x, bad |-> bad, passes |-> pno])>>)

Flag(c, name) == IF c THEN {} ELSE {name}

TNext ==
  /\ l <= Len(TraceLog)
  /\ l' = l + 1
  /\ LET e == TraceLog[l] IN
     CASE e.a = "RESET" ->
            /\ (x # 0 => Report)
            /\ x' = e.x /\ stage' = "idle" /\ pno' = 0
            /\ tab' = [k \in 1..e.n |-> None] /\ refv' = [k \in 1..e.n |-> None]
            /\ multi' = {} /\ unk' = FALSE /\ chg' = FALSE /\ extraPending' = FALSE /\ inExtra' = FALSE
            /\ last' = NoEnd /\ bad' = {}
       [] e.a = "begin" ->
            /\ bad' = bad \cup Flag(IF stage = "idle" THEN e.pass = 1
                                    ELSE stage = "between" /\ e.pass = pno + 1 /\ (Continues(last) \/ extraPending),
                                    "loop")
            /\ stage' = "inpass" /\ pno' = e.pass
            /\ refv' = [k \in DOMAIN refv |-> None] /\ multi' = {} /\ unk' = FALSE /\ chg' = FALSE
            /\ inExtra' = extraPending /\ extraPending' = FALSE
            /\ UNCHANGED <<x, tab, last>>
       [] e.a = "def" ->
            /\ tab' = [tab EXCEPT ![e.k] = e.v]
            /\ chg' = (chg \/ (stage = "inpass" /\ e.out = "changed"))
            /\ bad' = bad \cup Flag(~(stage = "inpass" /\ inExtra /\ e.out = "changed"), "stutter")
            /\ UNCHANGED <<x, stage, pno, refv, multi, unk, extraPending, inExtra, last>>
       [] e.a = "mod" ->
            /\ tab' = [tab EXCEPT ![e.k] = e.v]
            /\ UNCHANGED <<x, stage, pno, refv, multi, unk, chg, extraPending, inExtra, last, bad>>
       [] e.a = "ref" ->
            /\ IF e.out = "unknown"
               THEN unk' = TRUE /\ UNCHANGED <<refv, multi>>
               ELSE /\ unk' = unk
                    /\ IF refv[e.k] = None THEN refv' = [refv EXCEPT ![e.k] = e.v] /\ multi' = multi
                       ELSE refv' = refv /\ multi' = (IF refv[e.k] = e.v THEN multi ELSE multi \cup {e.k})
            /\ UNCHANGED <<x, stage, pno, tab, chg, extraPending, inExtra, last, bad>>
       [] e.a = "end" ->
            LET clean == e.repass = 0 /\ e.errs = 0 IN
            /\ bad' = bad \cup Flag(stage = "inpass" /\ e.pass = pno, "loop")
                          \cup Flag((chg \/ unk) => ~clean, "repass")
                          \cup Flag(clean => (multi = {} /\ \A k \in DOMAIN refv : refv[k] = None \/ refv[k] = tab[k]),
                                    "fixpoint")
                          \cup Flag(inExtra => clean, "stutter")
            /\ stage' = "between" /\ last' = [repass |-> e.repass, errs |-> e.errs]
            /\ UNCHANGED <<x, pno, tab, refv, multi, unk, chg, extraPending, inExtra>>
       [] e.a = "extra" ->
            /\ bad' = bad \cup Flag(stage = "between" /\ ~Continues(last) /\ last.errs = 0, "loop")
            /\ extraPending' = TRUE
            /\ UNCHANGED <<x, stage, pno, tab, refv, multi, unk, chg, inExtra, last>>
       [] e.a = "cap" ->
            /\ bad' = bad \cup {"capped"}
            /\ UNCHANGED <<x, stage, pno, tab, refv, multi, unk, chg, extraPending, inExtra, last>>
       [] e.a = "fend" ->
            /\ bad' = bad \cup Flag(stage = "between" /\ ~Continues(last) /\ ~extraPending, "loop")
            /\ stage' = "ended"
            /\ UNCHANGED <<x, pno, tab, refv, multi, unk, chg, extraPending, inExtra, last>>
       [] e.a = "END" ->
            /\ Report
            /\ UNCHANGED <<x, stage, pno, tab, refv, multi, unk, chg, extraPending, inExtra, last, bad>>

Accepted == TLCGet("stats").diameter - 1 = Len(TraceLog)
=============================================================================
