---------------------------- MODULE NegSpace_Gen ----------------------------
(* (G) case generation for replay: TLC enumerates the finite case graph                                   *)
(*       Init --Enter(ctx)--> in context --Test(stmt)--> after --Finish--> done                           *)
(* and prints one case per Test transition (transition cover: VIEW hides the history, the case record is  *)
(* printed from the ACTION_CONSTRAINT).  A case carries everything the specification decides:             *)
(*   pre / mid    context statements around the test statement                                           *)
(*   closers      statements that balance the optimistic outcome (what a well-formed file would add)      *)
(*   allowed      set of exit statuses over ALL outcomes the model admits for this input                  *)
(*   heavy        the input describes >= 2^31 iterations of a non-empty body: no time bound is claimed    *)
(*   live         the test statement reaches a handler (not skipped / not swallowed by a recorder)        *)
EXTENDS NegSpace, Json

CONSTANTS GenOps,      \* op names to enumerate
          GenCtx,      \* contexts
          GenClasses,  \* classes for the varied argument (without "ok")
          AllClasses,  \* classes used when EVERY argument gets the class (pos = 99)
          MaxPos,      \* vary positions 1..MaxPos
          BigCounts,   \* extra argument counts (129, 257, 476, 477, 600 ...)
          GenCounts    \* classes of the size / count argument of CountOps and of PAGE

VARIABLES m, stage, ctx, hist
vars == <<m, stage, ctx, hist>>

S0(op, argc) == Stmt(op, argc, 0, "ok")

\* context = statements before the test statement and between it and the closers
Pre(c) == CASE c = "skip"   -> <<Stmt("IF", 1, 1, "0")>>
            [] c = "rec"    -> <<S0("MACRO", 0)>>
            [] c = "mac"    -> <<S0("MACRO", 0)>>
            [] c = "rept"   -> <<S0("REPT", 1)>>
            [] c = "struct" -> <<S0("STRUCT", 0)>>
            [] c = "sect"   -> <<S0("SECTION", 1)>>
            \* listing contexts (asl -L): default page, a page 5 columns wide, a page 5 lines long; a user function
            \* is defined so that the function list is printed besides the symbol table
            [] c = "ltop"    -> <<S0("FUNCTION", 2)>>
            [] c = "lnarrow" -> <<Stmt("PAGE", 2, 2, "c5"), S0("FUNCTION", 2)>>
            [] c = "lshort"  -> <<Stmt("PAGE", 1, 1, "c5"), S0("FUNCTION", 2)>>
            [] OTHER        -> <<>>                      \* "top", "open"
ListingCtx == {"ltop", "lnarrow", "lshort"}
Opts(c) == IF c \in ListingCtx THEN <<"-L">> ELSE <<>>     \* command line options of the run (besides -q)
Mid(c) == CASE c = "mac"  -> <<S0("ENDM", 0), S0("CALLM1", 0)>>
            [] c = "rept" -> <<S0("ENDM", 0)>>
            [] OTHER      -> <<>>

\* the successful outcome of a context statement
Succ(x, s) == CHOOSE o \in Outcomes(x, s) : o.errs = x.errs
RECURSIVE RunSucc(_, _)
RunSucc(x, q) == IF q = <<>> THEN x ELSE RunSucc(Succ(x, Head(q)), Tail(q))

\* argument counts worth a case: around both ChkArgCnt bounds, a few small ones, and the big ones
ArgCounts(o) ==
  LET small == {k \in {o.lo - 1, o.lo, o.lo + 1, o.hi - 1, o.hi, o.hi + 1} : k >= 0 /\ k <= 4}
  IN small \cup (IF o.hi = AMAX THEN BigCounts ELSE {k \in BigCounts : k > AMAX})
CtxOf(o) == IF o.g \in {"fn", "bo"} THEN GenCtx \cap {"top", "mac", "skip", "lnarrow"} ELSE GenCtx
TestStmts(c) ==
  UNION { IF c \notin CtxOf(Op(n)) \/ (c = "open" /\ Op(n).e \notin {"rec", "if+", "sw+", "st+", "se+", "ph+", "sv+", "ex+"})
          THEN {}
          ELSE UNION { IF k > 4 THEN {S0(n, k)} \cup {Stmt(n, k, 99, cl) : cl \in AllClasses \cap {"h31", "lstr", "empty"}}
                       ELSE {S0(n, k)} \cup (IF k = Op(n).lo THEN {Stmt(n, k, 98, "ok")} ELSE {})
                            \cup {Stmt(n, k, p, cl) : p \in 1..(IF k < MaxPos THEN k ELSE MaxPos), cl \in GenClasses}
                            \cup (IF k >= 2 THEN {Stmt(n, k, 99, cl) : cl \in AllClasses} ELSE {})
                       : k \in ArgCounts(Op(n)) }
               \cup (IF n \in CountOps
                     THEN {Stmt(n, k, 1, cl) : cl \in GenCounts \cup {"0", "1", "m1", "h31"},
                                               k \in {Op(n).lo, IF n = "ALIGN" THEN 2 ELSE Op(n).lo, IF n \in {"DDUP", "DREP"} THEN 2 ELSE Op(n).lo}}
                     ELSE IF n = "PAGE" THEN {Stmt(n, k, p, cl) : cl \in GenCounts, k \in {1, 2}, p \in {1, 2}} \ {Stmt(n, 1, 2, cl) : cl \in GenCounts}
                     ELSE {})
          : n \in GenOps }

\* outcome preferred for computing the closers: fewest errors, then most constructs open
Rank(x) == (2 - x.errs) * 100 + Len(x.open) * 2 + (IF x.rec.on THEN 1 ELSE 0)
Optimistic(X) == CHOOSE o \in X : \A p \in X : Rank(o) >= Rank(p)

\* a statement that opens a recorder is followed by one harmless body line, so that a repetition has work to do
Body(s) == IF Op(s.op).e = "rec" THEN <<S0("ALIGN", 1)>> ELSE <<>>
CaseOf(x, c, s) ==
  LET outs    == RunSeq({x}, <<s>> \o Body(s) \o Mid(c))
      opt     == Optimistic(outs)
      closers == IF c = "open" THEN <<>> ELSE Closers(opt)
      cstm    == [i \in 1..Len(closers) |-> S0(closers[i], 0)]
      finals  == {EndOfFile(f) : f \in RunSeq(outs, cstm)}
  IN [ctx |-> c, s |-> s, g |-> Op(s.op).g, pre |-> Pre(c), mid |-> Body(s) \o Mid(c), closers |-> closers,
      opts |-> Opts(c),
      allowed |-> {Exit(f) : f \in finals},
      heavy |-> \E f \in finals : f.heavy,
      live |-> x.ifasm /\ ~x.rec.on,
      work |-> Optimistic(finals).work]

Init == m = InitM /\ stage = "init" /\ ctx = "none" /\ hist = <<>>

Enter == /\ stage = "init"
         /\ \E c \in GenCtx : ctx' = c /\ m' = RunSucc(InitM, Pre(c))
         /\ stage' = "ctx" /\ hist' = <<>>
Test  == /\ stage = "ctx"
         /\ \E s \in TestStmts(ctx) :
              LET outs == RunSeq({m}, <<s>> \o Body(s) \o Mid(ctx)) IN
              /\ m' \in outs
              /\ hist' = [c |-> CaseOf(m, ctx, s), first |-> m' = Optimistic(outs)]
         /\ stage' = "after" /\ UNCHANGED ctx
Finish == /\ stage = "after"
          /\ m' = EndOfFile(IF ctx = "open" THEN m ELSE Optimistic(RunSeq({m}, CloserStmts(m))))
          /\ stage' = "done" /\ UNCHANGED <<ctx, hist>>
Next == Enter \/ Test \/ Finish

View == <<m, stage, ctx>>
TCover == (stage = "ctx" /\ stage' = "after" /\ hist'.first) => PrintT(<<"TR", ToJson(hist'.c)>>)

ExitDocumented == stage = "done" => Exit(m) \in DocumentedExit
\* the verdict-bearing set of exit statuses, printed once for the harness
ASSUME PrintT(<<"OUT", ToJson([documented |-> DocumentedExit])>>)
=============================================================================
