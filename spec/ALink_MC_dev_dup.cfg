\* the code as it is (double definitions inside one relocation-info record pass): TLC must find the accepted link set
CONSTANTS MaxFiles = 1 MaxRecs = 1 Starts = {256} Rels <- R_Abs POffs = {1} PNames <- N_a PTypes <- T_1 MaxP = 0
  XNames <- N_a XFlags = {0} XVals = {1, 2} MaxX = 2 Dev <- D_Dup
SPECIFICATION Spec
INVARIANTS Conforms
CHECK_DEADLOCK FALSE
