CONSTANTS MaxLen = 60 Lim = 20000 Segs = {"code", "data"} StructSeg = "struct" Small = FALSE Mode = "stack"
INIT Init
NEXT Next
INVARIANT Dump
CHECK_DEADLOCK FALSE
