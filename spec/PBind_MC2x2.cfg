\* (thorough) 1..2 files x 0..2 items; items: long/short header, empty record, entry record, 4 CPU/segment/granularity
\* combinations (one with cpu >= $80); 3 filter lists
CONSTANTS MaxFiles = 2 MaxItems = 2 Starts = {300} ByteLens = {0, 2} EntryAddrs = {4660}
  CpuSegGran <- CSG_Small Forms <- Forms_Both Filters <- F_Small Creators <- Cr_One Quiets <- Q_No Dev <- D_None
SPECIFICATION Spec
INVARIANTS Conforms StepRunAgrees PrefixOK RoundTrip HeaderRule
PROPERTY Monotone
CHECK_DEADLOCK FALSE
