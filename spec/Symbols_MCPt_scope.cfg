CONSTANTS LOCSYMSIGHT = 3
          MaxLen = 4 MaxDepth = 2 Focus = "scope" Devs = {"popv_const", "dd_same_name", "empty_macro_nested"} CaseModes = {FALSE}
SPECIFICATION Spec
INVARIANTS LookupAgreesWithManual ExtraPassAgrees ConvergesInTwo StackMirrorsText
PROPERTIES RedefIsError
CHECK_DEADLOCK FALSE
