----------------------------- MODULE MacroProg -----------------------------
(***************************************************************************)
(* Program families over the token model of MacroProc, used by the model   *)
(* checker (all members are explored) and by the generator for replay.     *)
(* A block is [defs, body]: macro definitions are hoisted in front of the  *)
(* program, body is the line sequence at the place of use.                 *)
(***************************************************************************)
EXTENDS MacroProc

L(lab, op, args) == lab \o <<SP, op>> \o (IF args = <<>> THEN <<>> ELSE <<SP>> \o args)
Cs(seqs) == JoinWith(seqs, COMMA)                      \* argument list from argument token sequences
N(i) == <<ToString(i)>>
ENDM == L(<<>>, "ENDM", <<>>)
DW(v) == L(<<>>, "DW", v)
DB(v) == L(<<>>, "DB", v)
GS == <<"{", "GLOBALSYMBOLS", "}">>

NoBlk == [defs |-> <<>>, body |-> <<>>]
SeqsUpTo(S, n) == {q \in UNION {[1..k -> S] : k \in 0..n} : \A i, j \in DOMAIN q : i # j => q[i] # q[j]}

(***************************************************************************)
(* Exhaustive nesting family: every body is  pre* construct? post*  with   *)
(* atoms that use the visible parameters, a label with a reference to it,  *)
(* one nested construct at most, nesting <= maxd.                          *)
(***************************************************************************)
\* atoms over the visible names V (sequence, innermost last): before the nested construct a label that refers
\* to itself, after it a statement that uses a visible parameter (rich: any of them, an expression, a global)
PreAtoms(V, d) == {L(<<"LA" \o ToString(d)>>, "DW", <<"LA" \o ToString(d)>>)}
PostAtoms(V, d, rich) ==
  (IF V = <<>> THEN {DW(<<"1">>)} ELSE {DW(<<V[Len(V)]>>)})
  \cup (IF rich THEN {DW(<<V[i]>>) : i \in DOMAIN V} \cup {DW(<<"G1", "+", V[i]>>) : i \in {Len(V)} \cap DOMAIN V}
        ELSE {})

\* loop headers at depth d: [pre, line, tail, names]; counts 0..3
LoopHeads(d, cnts, rich) ==
  LET x == "X" \o ToString(d)  y == "Y" \o ToString(d)  c == "C" \o ToString(d)
  IN {[pre |-> <<>>, line |-> L(<<>>, "REPT", N(n)), tail |-> <<>>, names |-> <<>>] : n \in cnts}
     \cup {[pre |-> <<>>, line |-> L(<<>>, "IRP", Cs(<<<<x>>>> \o [i \in 1..n |-> N(4 + i)])), tail |-> <<>>, names |-> <<x>>]
             : n \in cnts \ {0}}
     \cup {[pre |-> <<>>, line |-> L(<<>>, "IRPC", Cs(<<<<x>>, <<QUOTE>> \o [i \in 1..n |-> ToString(i)] \o <<QUOTE>>>>)),
            tail |-> <<>>, names |-> <<x>>] : n \in cnts}
     \cup {[pre |-> <<L(<<c>>, "SET", N(n))>>, line |-> L(<<>>, "WHILE", <<c>>), tail |-> <<L(<<c>>, "SET", <<c, "-", "1">>)>>,
            names |-> <<>>] : n \in cnts}
     \cup (IF rich
           THEN {[pre |-> <<>>, line |-> L(<<>>, "IRPN", Cs(<<N(2), <<x>>, <<y>>>> \o [i \in 1..n |-> N(4 + i)])), tail |-> <<>>,
                  names |-> <<x, y>>] : n \in {2, 3}}
                \cup {[pre |-> <<>>, line |-> L(<<>>, "REPT", Cs(<<N(2), GS>>)), tail |-> <<>>, names |-> <<>>],
                      [pre |-> <<>>, line |-> L(<<>>, "IRP", Cs(<<<<x>>, <<>>, N(6), GS>>)), tail |-> <<>>, names |-> <<x>>]}
           ELSE {})

\* macro specifications at depth d: [params (argument token sequences of the MACRO line), names, calls]
MacSpecs(d, rich) ==
  LET a == "A" \o ToString(d)  b == "B" \o ToString(d)
  IN {[params |-> <<>>, names |-> <<>>, call |-> <<>>],
      [params |-> <<<<a>>>>, names |-> <<a>>, call |-> <<N(7)>>],
      [params |-> <<<<a>>, <<b, "=", "9">>>>, names |-> <<a, b>>, call |-> <<N(7)>>],
      [params |-> <<<<a>>, <<b, "=", "9">>>>, names |-> <<a, b>>, call |-> <<<<>>, N(8)>>],
      [params |-> <<<<a>>, <<b, "=", "9">>>>, names |-> <<a, b>>, call |-> <<N(7), <<>>, N(6)>>]}
     \cup (IF rich
           THEN {[params |-> <<<<a>>, <<b, "=", "9">>>>, names |-> <<a, b>>, call |-> <<<<b, "=", "3">>>>],
                 [params |-> <<<<a>>, <<b, "=", "9">>>>, names |-> <<a, b>>, call |-> <<N(1), N(2), N(3)>>],
                 [params |-> <<<<a>>, GS>>, names |-> <<a>>, call |-> <<N(7)>>],
                 [params |-> <<<<a>>>>, names |-> <<a>>, call |-> <<>>]}
           ELSE {})

RECURSIVE Blk(_, _, _, _, _), Constructs(_, _, _, _, _)
\* blocks at depth d (the lines inside a construct of depth d), V = visible names, nat = max atoms each side
Blk(d, V, maxd, cnts, prof) ==
  LET Pres == IF d = 0 THEN {<<>>} ELSE SeqsUpTo(PreAtoms(V, d), prof.npre)
      Posts == IF d = 0 THEN {<<>>} ELSE SeqsUpTo(PostAtoms(V, d, prof.rich), prof.npost)
      inner == {NoBlk} \cup (IF d < maxd THEN Constructs(d + 1, V, maxd, cnts, prof) ELSE {})
  IN {[defs |-> c.defs, body |-> pre \o c.body \o post] : pre \in Pres, post \in Posts, c \in inner}

Constructs(d, V, maxd, cnts, prof) ==
  UNION {{[defs |-> b.defs, body |-> h.pre \o <<h.line>> \o b.body \o h.tail \o <<ENDM>>] : b \in Blk(d, V \o h.names, maxd, cnts, prof)}
           : h \in LoopHeads(d, cnts, prof.rich)}
  \cup
  UNION {{[defs |-> b.defs \o <<L(<<"M" \o ToString(d)>>, "MACRO", Cs(s.params))>> \o b.body \o <<ENDM>>,
           body |-> <<L(<<>>, "M" \o ToString(d), Cs(s.call))>>] : b \in Blk(d, s.names, maxd, cnts, prof)}
           : s \in MacSpecs(d, prof.rich)}

Prog(b) == [f \in {"a.asm"} |-> <<L(<<"G1">>, "DB", <<"1">>)>> \o b.defs \o b.body]
NestPrograms(maxd, cnts, prof) == {Prog(b) : b \in Blk(0, <<>>, maxd, cnts, prof)}

(***************************************************************************)
(* Focused families (macro features that need several cooperating lines)   *)
(***************************************************************************)
P(i) == "P" \o ToString(i)
Params(n) == [i \in 1..n |-> <<P(i)>>]

\* argument binding: n formals with defaults on the even ones, k arguments of a given shape
ArgShape(shape, k, n) ==
  CASE shape = "pos"     -> [i \in 1..k |-> N(10 + i)]
    [] shape = "holes"   -> [i \in 1..k |-> IF i % 2 = 1 THEN <<>> ELSE N(10 + i)]
    [] shape = "dholes"  -> [i \in 1..k |-> IF i % 2 = 0 /\ i < k THEN <<>> ELSE N(10 + i)]        \* empty where a default exists
    [] shape = "key"     -> [i \in 1..Min(k, n) |-> <<P(n + 1 - i), "=">> \o N(20 + i)]           \* keywords, reversed order
    [] shape = "mixed"   -> [i \in 1..Min(k, n) |-> IF i <= k \div 2 THEN N(10 + i) ELSE <<P(i), "=">> \o N(20 + i)]
    [] shape = "keyempty"-> [i \in 1..Min(k, n) |-> <<P(i), "=">>]
    [] shape = "expr"    -> [i \in 1..k |-> <<"G1", "+", ToString(i)>>]
    [] shape = "names"   -> [i \in 1..k |-> <<P(((i) % Max(n, 1)) + 1)>>]                          \* arguments spelled like other parameters
    [] OTHER             -> <<>>
Shapes == {"pos", "holes", "dholes", "key", "mixed", "keyempty", "expr", "names"}

\* body: per listed parameter a guarded reference (IFNB), plain and in \name\ form; ARGCOUNT on request
BindProg(n, shape, k, refs, cnt) ==
  LET defs == [i \in 1..n |-> IF i % 2 = 0 THEN <<P(i), "=">> \o N(30 + i) ELSE <<P(i)>>]
      ref(j) == <<L(<<>>, "IFNB", <<P(refs[j])>>),
                  IF j % 2 = 0 THEN DW(<<"0", "+", BS, P(refs[j]), BS, "+", "0">>) ELSE DW(<<P(refs[j])>>),
                  L(<<>>, "ELSE", <<>>), DB(<<"250">>), L(<<>>, "ENDIF", <<>>)>>
      body == Flatten([j \in DOMAIN refs |-> ref(j)]) \o (IF cnt THEN <<DB(<<"ARGCOUNT">>)>> ELSE <<>>)
  IN [f \in {"a.asm"} |->
        <<L(<<"G1">>, "DB", <<"1">>)>> \o [i \in 1..n |-> L(<<P(i)>>, "SET", N(60 + i))]
        \o <<L(<<"M1">>, "MACRO", Cs(defs))>> \o body \o <<ENDM, L(<<>>, "M1", Cs(ArgShape(shape, k, n)))>>]

\* the manual's concatenation example: part1_part2 (the underscore separates names)
ConcatProg(a, b) ==
  [f \in {"a.asm"} |->
     <<L(<<"MODULE", "_", "FUNCTION">>, "SET", N(5)), L(<<"MODULEFUNCTION">>, "SET", N(6)), L(<<"PART1", "_", "PART2">>, "SET", N(7)),
       L(<<"XPART1">>, "SET", N(8)), L(<<"PART12">>, "SET", N(9)), L(<<"PART2", "_", "PART1">>, "SET", N(10)), L(<<"PART2PART1">>, "SET", N(11)),
       L(<<"M1">>, "MACRO", <<"PART1", ",", "PART2">>), DW(<<"PART1", "_", "PART2">>), DW(<<BS, "PART1", BS, BS, "PART2", BS, "+", "0">>),
       DW(<<"XPART1", "+", "PART12">>), ENDM, L(<<>>, "M1", Cs(<<a, b>>))>>]

\* adjacent parameters  \Pi\\Pj\  (the second example of the manual)
AdjProg(n, i, j) ==
  [f \in {"a.asm"} |->
     <<L(<<"M1">>, "MACRO", Cs(Params(n))), DW(<<"1", BS, P(i), BS, BS, P(j), BS, "+", "0">>), ENDM,
       L(<<>>, "M1", Cs([z \in 1..n |-> N(z % 10)]))>>]

\* the manual's SHIFT idiom: recursion over ALLARGS, guarded by IFNB
RecProg(k, extra) ==
  [f \in {"a.asm"} |->
     <<L(<<"M1">>, "MACRO", Cs(Params(1 + extra))), L(<<>>, "IFNB", <<P(1)>>), DW(<<P(1)>>), L(<<>>, "SHIFT", <<>>),
       L(<<>>, "M1", <<"ALLARGS">>), L(<<>>, "ENDIF", <<>>), ENDM, L(<<>>, "M1", Cs([i \in 1..k |-> N(i)]))>>]

\* SHIFT moving excess arguments into the formals; ARGCOUNT and ALLARGS afterwards
ShiftProg(n, k, s) ==
  [f \in {"a.asm"} |->
     <<L(<<"M2">>, "MACRO", <<>>), DB(<<"ARGCOUNT">>), L(<<>>, "IRP", <<"Q", ",", "0", ",", "ALLARGS">>), DW(<<"0", BS, "Q", BS, "+", "0">>), ENDM, ENDM,
       L(<<"M1">>, "MACRO", Cs(Params(n)))>> \o [i \in 1..s |-> L(<<>>, "SHIFT", <<>>)]
     \o [i \in 1..n |-> DW(<<"0", BS, P(i), BS, "+", "0">>)] \o <<DB(<<"ARGCOUNT">>), L(<<>>, "M2", <<"ALLARGS">>), ENDM,
       L(<<>>, "M1", Cs([i \in 1..k |-> N(i)]))>>]

\* the argument list as a positional sequence that SHIFT walks through: k formals, e excess arguments of which each
\* one independently is empty (mask[j] = FALSE) or not; after s SHIFTs the body uses every formal that still has a
\* place in the list, ARGCOUNT and ALLARGS (shown by M2: its own ARGCOUNT and one DW per element).  An empty excess
\* argument must keep its place: `m 1,2,,4` with two formals gives <> for the second formal after one SHIFT.
ShiftHoleProg(k, mask, s) ==
  LET e == Len(mask)
      args == [i \in 1..(k + e) |-> IF i <= k THEN N(i) ELSE IF mask[i - k] THEN N(10 + i - k) ELSE <<>>]
      live == Min(k, Max(k + e - s, 0))
  IN [f \in {"a.asm"} |->
        <<L(<<"M2">>, "MACRO", <<>>), DB(<<"ARGCOUNT">>), L(<<>>, "IRP", <<"Q", ",", "0", ",", "ALLARGS">>), DW(<<"0", BS, "Q", BS, "+", "0">>), ENDM, ENDM,
          L(<<"M1">>, "MACRO", Cs(Params(k)))>> \o [i \in 1..s |-> L(<<>>, "SHIFT", <<>>)]
        \o [i \in 1..live |-> DW(<<"0", BS, P(i), BS, "+", "0">>)] \o <<DB(<<"ARGCOUNT">>), L(<<>>, "M2", <<"ALLARGS">>), ENDM,
          L(<<>>, "M1", Cs(args))>>]
Masks(n) == UNION {[1..e -> BOOLEAN] : e \in 1..n}

\* SHIFT issued from INSIDE a repetition nested in the macro body (once per iteration): the lines of the repetition
\* were substituted when it was collected, so formals / ARGCOUNT / ALLARGS inside it show the binding before the
\* loop, while the macro's own lines AFTER the loop must see the list as the SHIFTs left it.  k formals, a arguments,
\* n iterations.
ShiftLoopProg(kind, k, a, n) ==
  LET inside == [i \in 1..k |-> DW(<<"0", BS, P(i), BS, "+", "0">>)] \o <<L(<<>>, "SHIFT", <<>>), DB(<<"ARGCOUNT">>), L(<<>>, "M2", <<"ALLARGS">>)>>
      loop == CASE kind = "REPT"  -> <<L(<<>>, "REPT", N(n))>> \o inside \o <<ENDM>>
                [] kind = "IRP"   -> <<L(<<>>, "IRP", Cs(<<<<"X9">>>> \o [i \in 1..Max(n, 1) |-> N(20 + i)]))>> \o inside \o <<ENDM>>
                [] kind = "IRPN"  -> <<L(<<>>, "IRPN", Cs(<<N(2), <<"X9">>, <<"Y9">>>> \o [i \in 1..(2 * Max(n, 1)) |-> N(20 + i)]))>> \o inside \o <<ENDM>>
                [] kind = "IRPC"  -> <<L(<<>>, "IRPC", Cs(<<<<"X9">>, <<QUOTE>> \o [i \in 1..n |-> ToString(i)] \o <<QUOTE>>>>))>> \o inside \o <<ENDM>>
                [] OTHER          -> <<L(<<"C9">>, "SET", N(n)), L(<<>>, "WHILE", <<"C9">>)>> \o inside \o <<L(<<"C9">>, "SET", <<"C9", "-", "1">>), ENDM>>
      iters == IF kind \in {"IRP", "IRPN"} THEN Max(n, 1) ELSE n
      live == Min(k, Max(a - iters, 0))
  IN [f \in {"a.asm"} |->
        <<L(<<"M2">>, "MACRO", <<>>), DB(<<"ARGCOUNT">>), L(<<>>, "IRP", <<"Q", ",", "0", ",", "ALLARGS">>), DW(<<"0", BS, "Q", BS, "+", "0">>), ENDM, ENDM,
          L(<<"M1">>, "MACRO", Cs(Params(k)))>> \o loop
        \o [i \in 1..live |-> DW(<<"0", BS, P(i), BS, "+", "0">>)] \o <<DB(<<"ARGCOUNT">>), L(<<>>, "M2", <<"ALLARGS">>), ENDM,
          L(<<>>, "M1", Cs([i \in 1..a |-> N(i)]))>>]
LoopKinds == {"REPT", "IRP", "IRPN", "IRPC", "WHILE"}

\* EXITM inside IF inside a macro / loop; the statements after it must not appear, the IF stack must be cut
ExitProg(kind, n, at) ==
  LET guard == <<L(<<>>, "IF", <<"C1", ">", ToString(at)>>), DW(<<"C1">>), L(<<>>, "EXITM", <<>>), DW(<<"99">>), L(<<>>, "ENDIF", <<>>)>>
      step == <<L(<<"C1">>, "SET", <<"C1", "+", "1">>), DW(<<"C1">>)>>
      body == step \o guard \o <<DW(<<"77">>)>>
      hd == CASE kind = "REPT" -> <<L(<<>>, "REPT", N(n))>> \o body \o <<ENDM>>
              [] kind = "IRP" -> <<L(<<>>, "IRP", Cs(<<<<"X1">>>> \o [i \in 1..Max(n, 1) |-> N(i)]))>> \o body \o <<ENDM>>
              [] kind = "WHILE" -> <<L(<<>>, "WHILE", <<"C1", "<", ToString(n)>>)>> \o body \o <<ENDM>>
              [] kind = "MACRO" -> <<L(<<"M1">>, "MACRO", <<>>)>> \o body \o <<ENDM>> \o [i \in 1..n |-> L(<<>>, "M1", <<>>)]
              [] OTHER -> <<L(<<"M1">>, "MACRO", <<>>), L(<<>>, "REPT", N(n))>> \o body \o <<ENDM, DW(<<"55">>), ENDM, L(<<>>, "M1", <<>>)>>
  IN [f \in {"a.asm"} |-> <<L(<<"C1">>, "SET", N(0))>> \o hd \o <<DW(<<"C1">>)>>]

\* labels: private per expansion, GLOBALSYMBOLS, nested scopes (inner refers to the label of the outer expansion)
LabelProg(glob, n, inner) ==
  [f \in {"a.asm"} |->
     <<L(<<"M1">>, "MACRO", IF glob THEN GS ELSE <<>>), L(<<"LA">>, "DW", <<"LA">>)>>
     \o (IF inner = "REPT" THEN <<L(<<>>, "REPT", N(2)), L(<<"LI">>, "DW", <<"LA">>), DW(<<"LI">>), ENDM>>
         ELSE IF inner = "EMPTY" THEN <<L(<<>>, "M0", <<>>), L(<<"LC">>, "DW", <<"LC">>)>>
         ELSE IF inner = "EMPTYREPT" THEN <<L(<<>>, "REPT", N(2)), ENDM, L(<<"LC">>, "DW", <<"LC">>)>>
         ELSE <<>>)
     \o <<DW(<<"LA">>), ENDM, L(<<"M0">>, "MACRO", <<>>), ENDM>> \o [i \in 1..(IF glob THEN 1 ELSE n) |-> L(<<>>, "M1", <<>>)]
     \o (IF glob THEN <<>> ELSE <<L(<<"LA">>, "DW", <<"LA">>)>>)]

\* features with one fixed shape each: INTLABEL / __LABEL__, ALLARGS handed to IRP (the manual's pushlist), a macro
\* that defines a macro, a GLOBALSYMBOLS macro whose label is used outside, ATTRIBUTE (targets with attributes)
SpecialProg(kind) ==
  [f \in {"a.asm"} |->
     CASE kind = "intlabel" ->
            <<L(<<"M1">>, "MACRO", <<"{", "INTLABEL", "}">>), L(<<LABELTOK>>, "DW", <<"1">>), DW(<<"2">>), ENDM,
              L(<<"LX">>, "M1", <<>>), L(<<>>, "M1", <<>>)>>
       [] kind = "nointlabel" ->
            <<L(<<"M1">>, "MACRO", <<>>), L(<<LABELTOK>>, "DW", <<"1">>), ENDM, L(<<"LX">>, "M1", <<>>), L(<<"LY">>, "M1", <<>>), DW(<<"LX", "+", "LY">>)>>
       [] kind = "pushlist" ->
            <<L(<<"S1">>, "SET", N(11)), L(<<"S2">>, "SET", N(12)), L(<<"S3">>, "SET", N(13)),
              L(<<"M1">>, "MACRO", <<"REG">>), L(<<>>, "IRP", <<"REG", ",", "ALLARGS">>), DW(<<"REG">>), ENDM, ENDM,
              L(<<>>, "M1", <<"S1", ",", "S2", ",", "S3">>), L(<<>>, "M1", <<"S2">>)>>
       [] kind = "macinmac" ->
            <<L(<<"M1">>, "MACRO", <<"A">>), L(<<"M2">>, "MACRO", <<"B">>), DW(<<"A", "+", "B">>), L(<<"LI">>, "DW", <<"LI">>), ENDM,
              L(<<>>, "M2", <<"5">>), L(<<>>, "M2", <<"6">>), ENDM, L(<<>>, "M1", <<"3">>), L(<<>>, "M2", <<"7">>)>>
       [] kind = "globmac" ->
            <<L(<<"M1">>, "MACRO", <<"A", ",", "{", "GLOBALSYMBOLS", "}">>), L(<<"LG">>, "DW", <<"A">>), ENDM,
              L(<<>>, "M1", <<"7">>), DW(<<"LG">>)>>
       [] OTHER ->     \* "attr"
            <<L(<<"M1">>, "MACRO", <<"OP">>), <<SP, "DC", ".", "ATTRIBUTE", SP, "OP">>, ENDM,
              <<SP, "M1", ".", "W", SP, "5">>, <<SP, "M1", ".", "B", SP, "6">>, <<SP, "M1", ".", "B", SP, "7">>,
              <<"LQ", SP, "M1", ".", "L", SP, "LQ">>>>]

\* the private symbol space ACROSS a nested construct: the outer body defines a label before the nested construct
\* (pre), the nested body refers to it, and after the nested construct has ended the outer body refers to it again
\* and defines another label; the outer construct is expanded twice and a global label of the same name exists, so
\* a reference that loses its scope silently binds to the global one.  Every outer x inner pair, inner count n.
ScopeInner(kind, n) ==
  LET ib == <<L(<<"LI">>, "DW", <<"LI">>), DW(<<"LA">>)>>
  IN CASE kind = "REPT"  -> <<L(<<>>, "REPT", N(n))>> \o ib \o <<ENDM>>
       [] kind = "IRP"   -> <<L(<<>>, "IRP", Cs(<<<<"X2">>>> \o [i \in 1..Max(n, 1) |-> N(i)]))>> \o ib \o <<DW(<<"X2">>), ENDM>>
       [] kind = "IRPN"  -> <<L(<<>>, "IRPN", Cs(<<N(2), <<"X2">>, <<"Y2">>>> \o [i \in 1..(2 * Max(n, 1)) |-> N(i)]))>> \o ib \o <<DW(<<"Y2">>), ENDM>>
       [] kind = "IRPC"  -> <<L(<<>>, "IRPC", Cs(<<<<"X2">>, <<QUOTE>> \o [i \in 1..n |-> ToString(i)] \o <<QUOTE>>>>))>> \o ib \o <<ENDM>>
       [] kind = "WHILE" -> <<L(<<"C2">>, "SET", N(n)), L(<<>>, "WHILE", <<"C2">>)>> \o ib \o <<L(<<"C2">>, "SET", <<"C2", "-", "1">>), ENDM>>
       [] kind = "CALL"  -> <<L(<<>>, "M9", N(n))>>
       [] kind = "CALL0" -> <<L(<<>>, "M8", <<>>)>>
       [] OTHER          -> <<L(<<>>, "INCLUDE", <<"I1", ".", "INC">>)>>
ScopeInners == {"REPT", "IRP", "IRPN", "IRPC", "WHILE", "CALL", "CALL0", "INCL"}
ScopeOuters == {"REPT", "IRP", "IRPN", "IRPC", "WHILE", "MACRO"}
ScopeProg(outer, inner, n, pre) ==
  LET body == (IF pre THEN <<L(<<"LA">>, "DW", <<"LA">>)>> ELSE <<>>) \o ScopeInner(inner, n)
              \o <<L(<<"LB">>, "DW", <<"LA">>), DW(<<"LB">>)>>
      defs == <<L(<<"M8">>, "MACRO", <<>>), ENDM, L(<<"M9">>, "MACRO", <<"A">>), L(<<"LI">>, "DW", <<"LI">>), DW(<<"LA">>), DW(<<"A">>), ENDM>>
      use == CASE outer = "REPT"  -> <<L(<<>>, "REPT", N(2))>> \o body \o <<ENDM>>
               [] outer = "IRP"   -> <<L(<<>>, "IRP", Cs(<<<<"X1">>, N(5), N(6)>>))>> \o body \o <<ENDM>>
               [] outer = "IRPN"  -> <<L(<<>>, "IRPN", Cs(<<N(2), <<"X1">>, <<"Y1">>, N(5), N(6), N(7)>>))>> \o body \o <<ENDM>>
               [] outer = "IRPC"  -> <<L(<<>>, "IRPC", Cs(<<<<"X1">>, <<QUOTE, "5", "6", QUOTE>>>>))>> \o body \o <<ENDM>>
               [] outer = "WHILE" -> <<L(<<"C1">>, "SET", N(2)), L(<<>>, "WHILE", <<"C1">>)>> \o body \o <<L(<<"C1">>, "SET", <<"C1", "-", "1">>), ENDM>>
               [] OTHER           -> <<L(<<"M1">>, "MACRO", <<>>)>> \o body \o <<ENDM, L(<<>>, "M1", <<>>), L(<<>>, "M1", <<>>)>>
  IN [f \in {"a.asm", "I1.INC"} |->
        IF f = "a.asm" THEN <<L(<<"LA">>, "DB", N(9))>> \o defs \o use \o <<DW(<<"LA">>)>>
        ELSE <<DW(<<"LA">>), DB(N(3))>>]

(***************************************************************************)
(* REFERENCE DEPTH.  "Labels defined in a macro or repetition body are     *)
(* private to each expansion": a name used in a body means the label of    *)
(* the INNERMOST enclosing expansion that defines it - however many        *)
(* expansions lie between the use and that definition - and the global     *)
(* symbol of that name only when no enclosing expansion defines it.        *)
(* (asmpars.c FindLocNode walks MomLocHandle and then the whole stack of   *)
(* saved handles down to the first -1; the families above use a label at   *)
(* its own level or one level further in only.)                            *)
(* A member c of the family is a chain of Len(c.ks) nested constructs      *)
(*   ks    kind of the construct at every level (MACRO = a macro defined   *)
(*         in front and CALLED from the enclosing body: macro -> macro ->  *)
(*         macro is the dynamic chain, loops are nested textually)         *)
(*   D     the levels whose body DEFINES the label LA (several: the inner  *)
(*         definition shadows the outer one for everything further in)     *)
(*   gs    the levels expanded with GLOBALSYMBOLS: their labels belong to  *)
(*         the enclosing expansion (or are global), and they add no link   *)
(*         to the chain                                                    *)
(*   fwd   definition after the nested construct and uses before it        *)
(*         (forward references) or definition first (backward)             *)
(*   decoy a GLOBAL label LA in front of (PRE) / behind (POST) everything  *)
(*   via   the name is written in every body (FALSE) or handed down from   *)
(*         level to level as a macro argument / IRP / IRPN operand (TRUE)  *)
(* EVERY level from which a definition (or the decoy) is visible uses the  *)
(* name (value + level number), so one program has references of every     *)
(* depth 0 .. Len(ks) - min(D); the outermost construct and every level    *)
(* without GLOBALSYMBOLS is expanded twice.                                *)
(***************************************************************************)
RefKindSeq == <<"MACRO", "REPT", "IRP", "IRPN", "IRPC", "WHILE">>
\* the level whose symbol space receives a label defined at level d (0: the global table)
RefLand(c, d) == LET ng == {e \in 1..d : e \notin c.gs} IN IF ng = {} THEN 0 ELSE CHOOSE e \in ng : \A f \in ng : f <= e
\* no two definitions may land in the same symbol space (that would be a double definition in P and in E alike)
RefValid(c) == /\ c.D # {} /\ c.D \subseteq 1..Len(c.ks) /\ c.gs \subseteq 1..Len(c.ks)
               /\ \A d1, d2 \in c.D : d1 # d2 => RefLand(c, d1) # RefLand(c, d2)
               /\ (c.decoy # "NONE" => \A d \in c.D : RefLand(c, d) # 0)
RefCnt(c, i) == IF i \in c.gs THEN 1 ELSE 2
RefHasPar(c, i) == c.via /\ c.ks[i] \in {"MACRO", "IRP", "IRPN"}
RECURSIVE RefTok(_, _)       \* how the body of level i spells the name
RefTok(c, i) == IF i = 0 THEN "LA" ELSE IF RefHasPar(c, i) THEN "LAQ" \o ToString(i) ELSE RefTok(c, i - 1)
RefAt(c, i) == c.decoy # "NONE" \/ \E d \in c.D : RefLand(c, d) <= i            \* something of that name is visible at level i
RefUse(c, i) == DW(<<RefTok(c, i), "+", ToString(i)>>)
RefDef(c, i) == L(<<"LA">>, "DB", N(40 + i))
RefFill(c, i) == DB(<<IF c.ks[i] = "IRPC" \/ (c.ks[i] = "IRP" /\ ~c.via) THEN "X" \o ToString(i)
                      ELSE IF c.ks[i] = "IRPN" THEN "Y" \o ToString(i) ELSE ToString(i)>>)
RefPre(c, i) == (IF i = 0 THEN <<>> ELSE <<RefFill(c, i)>>) \o (IF c.fwd /\ RefAt(c, i) THEN <<RefUse(c, i)>> ELSE <<>>)
                \o (IF ~c.fwd /\ i \in c.D THEN <<RefDef(c, i)>> ELSE <<>>)
RefPost(c, i) == (IF c.fwd /\ i \in c.D THEN <<RefDef(c, i)>> ELSE <<>>) \o (IF ~c.fwd /\ RefAt(c, i) THEN <<RefUse(c, i)>> ELSE <<>>)
RefHead(c, i) ==       \* opening and closing lines of a loop at level i
  LET n == RefCnt(c, i)   t == RefTok(c, i - 1)   g == IF i \in c.gs THEN <<GS>> ELSE <<>>
      x == "X" \o ToString(i)   y == "Y" \o ToString(i)   q == "LAQ" \o ToString(i)   cc == "C" \o ToString(i)
  IN CASE c.ks[i] = "REPT" -> [open |-> <<L(<<>>, "REPT", Cs(<<N(n)>> \o g))>>, close |-> <<ENDM>>]
       [] c.ks[i] = "IRP"  -> [open |-> <<L(<<>>, "IRP", Cs((IF c.via THEN <<<<q>>>> \o [k \in 1..n |-> <<t>>]
                                                             ELSE <<<<x>>>> \o [k \in 1..n |-> N(k)]) \o g))>>, close |-> <<ENDM>>]
       [] c.ks[i] = "IRPN" -> [open |-> <<L(<<>>, "IRPN", Cs(<<N(2), <<IF c.via THEN q ELSE x>>, <<y>>>>
                                                              \o [k \in 1..(2 * n) |-> IF k % 2 = 0 THEN N(4 + k \div 2)
                                                                                       ELSE IF c.via THEN <<t>> ELSE N((k + 1) \div 2)] \o g))>>,
                               close |-> <<ENDM>>]
       [] c.ks[i] = "IRPC" -> [open |-> <<L(<<>>, "IRPC", Cs(<<<<x>>, <<QUOTE>> \o [k \in 1..n |-> ToString(k)] \o <<QUOTE>>>> \o g))>>,
                               close |-> <<ENDM>>]
       [] OTHER            -> [open |-> <<L(<<cc>>, "SET", N(n)), L(<<>>, "WHILE", Cs(<<<<cc>>>> \o g))>>,
                               close |-> <<L(<<cc>>, "SET", <<cc, "-", "1">>), ENDM>>]
RECURSIVE RefBlk(_, _)
RefBlk(c, i) ==
  LET inner == IF i < Len(c.ks) THEN RefBlk(c, i + 1) ELSE NoBlk
      bd == RefPre(c, i) \o inner.body \o RefPost(c, i)
      g == IF i \in c.gs THEN <<GS>> ELSE <<>>
      m == "M" \o ToString(i)
  IN IF c.ks[i] = "MACRO"
     THEN [defs |-> inner.defs \o <<L(<<m>>, "MACRO", Cs((IF c.via THEN <<<<"LAQ" \o ToString(i)>>>> ELSE <<>>) \o g))>> \o bd \o <<ENDM>>,
           body |-> [k \in 1..RefCnt(c, i) |-> L(<<>>, m, IF c.via THEN <<RefTok(c, i - 1)>> ELSE <<>>)]]
     ELSE LET h == RefHead(c, i) IN [defs |-> inner.defs, body |-> h.open \o bd \o h.close]
RefDepthProg(c) ==
  LET b == RefBlk(c, 1)
      dec == L(<<"LA">>, "DB", N(9))
  IN [f \in {"a.asm"} |->
        <<DB(N(7))>> \o (IF c.decoy = "PRE" THEN <<dec>> ELSE <<>>) \o b.defs \o RefPre(c, 0) \o b.body \o RefPost(c, 0)
        \o (IF c.decoy = "POST" THEN <<dec>> ELSE <<>>)]

(***************************************************************************)
(* What the manual does NOT decide about such references (section FORWARD: *)
(* "Forward references may lead to situations where AS accesses a symbol   *)
(* from a higher section in the first pass.  This is not a disaster by     *)
(* itself as long as the correct symbol is used in the second pass, but    *)
(* accidents ... may happen ... The second pass will not be started"):     *)
(* a use that comes BEFORE the definition it means while a symbol of the   *)
(* same name further out (an enclosing expansion's, or the global one) is  *)
(* already defined takes that one in the first pass, and whether a second  *)
(* pass corrects it depends on the rest of the program.  flat = the        *)
(* unresolved statement list [l, sc, pos] of ExpandDecl (field raw).       *)
(***************************************************************************)
PassDependent(flat) ==
  LET dj == {j \in DOMAIN flat : IsLabelDef(flat[j])}
      own(j) == IF flat[j].sc = <<>> THEN <<0, 0>> ELSE flat[j].sc[1]
      nm(j) == LabName(flat[j].l)
      multi == {nm(a) : a \in {a \in dj : \E b \in dj : nm(a) = nm(b) /\ own(a) # own(b)}}
  IN multi # {} /\
     \E i \in DOMAIN flat : \E x \in DOMAIN flat[i].l :
        LET t == flat[i].l[x]
            chain == flat[i].sc \o <<<<0, 0>>>>                   \* private spaces innermost first, then the global table
            defsIn(k) == {j \in dj : nm(j) = t /\ own(j) = chain[k]}
            hits == {k \in DOMAIN chain : defsIn(k) # {}}
        IN /\ t \in multi /\ ~(i \in dj /\ x = 1) /\ hits # {}
           /\ LET k0 == CHOOSE k \in hits : \A k2 \in hits : k <= k2
              IN (\A j \in defsIn(k0) : j > i) /\ (\E k \in hits : k > k0 /\ \E j \in defsIn(k) : j < i)

\* INCLUDE of generated files (nested up to 3), the included file uses the constructs of the including one
InclProg(depth, viaMacro) ==
  LET inc(i) == "I" \o ToString(i) \o ".INC"
      arg(i) == <<"I" \o ToString(i), ".", "INC">>
      body(i) == <<DW(N(i))>> \o (IF i < depth THEN <<L(<<>>, "INCLUDE", arg(i + 1))>> ELSE <<L(<<>>, "M1", N(i))>>) \o <<DW(N(10 + i))>>
  IN [f \in {"a.asm"} \cup {inc(i) : i \in 1..depth} |->
        IF f = "a.asm"
        THEN <<L(<<"M1">>, "MACRO", <<"A">>), L(<<"LB">>, "DW", <<"A">>), ENDM>>
             \o (IF viaMacro THEN <<L(<<"M2">>, "MACRO", <<>>), L(<<>>, "INCLUDE", arg(1)), DW(<<"44">>), ENDM, L(<<>>, "M2", <<>>), L(<<>>, "M2", <<>>)>>
                 ELSE <<L(<<>>, "REPT", N(2)), L(<<>>, "INCLUDE", arg(1)), ENDM>>)
        ELSE body(CHOOSE i \in 1..depth : inc(i) = f)]

\* BINCLUDE windows
BinProg(size, ofs, len) ==
  [f \in {"a.asm"} |-> <<DB(<<"1">>), L(<<"LB">>, "BINCLUDE", Cs(<<<<QUOTE, "B", ".", "BIN", QUOTE>>>> \o (IF ofs < 0 THEN <<>> ELSE <<N(ofs)>> \o (IF len < 0 THEN <<>> ELSE <<N(len)>>)))),
                         L(<<>>, "DW", <<"LB">>)>>]
BinFile(size) == [f \in {"B.BIN"} |-> [i \in 1..size |-> (i * 7 + 3) % 256]]

(***************************************************************************)
(* TARGETS.  The constructs are "valid for all processors" (manual), and   *)
(* the hand expansion of a construct is the same text on every target:     *)
(* BINCLUDE lays the bytes of its window down one by one in file order     *)
(* (DataLine("DB", w)), whatever order the target uses for its words, and  *)
(* it leaves no trace: every statement AFTER it - in the same body, after  *)
(* the enclosing construct has ended, in the including file - means what   *)
(* it means in the hand expansion.  What the code distinguishes per target *)
(* (set by the CPU switch function; read by WriteBytes / DreheCodes and the *)
(* data pseudo ops; TurnWords saved + cleared + restored by CodeBINCLUDE): *)
(*   turn  TurnWords: the code buffer holds host-order units that          *)
(*         WriteBytes swaps on the way to the code file (Motorola order)   *)
(*   lgran ListGran (1, 2, 4): width of the unit DreheCodes swaps; Intel   *)
(*         style data statements override it to 1 (never swapped), machine *)
(*         instructions and Motorola style DC.x use the target's value     *)
(*   big   order in which the target's data statements store a word        *)
(*   pad   word/long data on an odd address is preceded by a pad byte      *)
(*   sizes statements the target has: B byte, W word, L long data,         *)
(*         I a machine instruction of more than one byte                   *)
(* Only byte-addressed targets: the manual counts BINCLUDE in bytes and is *)
(* silent about targets whose address unit is wider.                       *)
(***************************************************************************)
Tgt(n, turn, lgran, big, pad, sizes) == [name |-> n, turn |-> turn, lgran |-> lgran, big |-> big, pad |-> pad, sizes |-> sizes]
BWLI == {"B", "W", "L", "I"}
BWI == {"B", "W", "I"}
TargetsQuick ==
  {Tgt("z80", FALSE, 1, FALSE, FALSE, BWLI), Tgt("68hc12", FALSE, 1, TRUE, FALSE, BWLI),
   Tgt("msp430", FALSE, 2, FALSE, TRUE, BWI), Tgt("80960", FALSE, 4, FALSE, FALSE, BWLI),
   Tgt("m16c", TRUE, 1, FALSE, FALSE, BWLI),
   Tgt("68000", TRUE, 2, TRUE, TRUE, BWLI), Tgt("tms9900", TRUE, 2, TRUE, TRUE, BWI), Tgt("sh7000", TRUE, 2, TRUE, FALSE, BWLI),
   Tgt("z8001", TRUE, 2, TRUE, FALSE, BWLI),
   Tgt("am29000", TRUE, 4, TRUE, FALSE, BWLI), Tgt("ppc403", TRUE, 4, FALSE, FALSE, BWLI)}
TargetsAll ==
  TargetsQuick \cup
  {Tgt("8086", FALSE, 1, FALSE, FALSE, BWLI), Tgt("8051", FALSE, 1, FALSE, FALSE, BWLI), Tgt("8096", FALSE, 1, FALSE, FALSE, BWLI),
   Tgt("st7", FALSE, 1, TRUE, FALSE, BWLI), Tgt("80c166", FALSE, 1, FALSE, FALSE, BWLI),
   Tgt("hd6475328", TRUE, 1, TRUE, FALSE, BWLI), Tgt("ns32016", TRUE, 1, TRUE, FALSE, BWLI),
   Tgt("68008", TRUE, 2, TRUE, TRUE, BWLI), Tgt("h8/300", TRUE, 2, TRUE, FALSE, BWLI), Tgt("m16", TRUE, 2, FALSE, FALSE, BWLI)}
\* WriteBytes distinguishes TurnWords x ListGran: every combination that occurs among the byte-addressed targets of
\* the pinned tree is in the quick set already
TargetClass(t) == <<t.turn, t.lgran>>
TargetsCovered == {TargetClass(t) : t \in TargetsQuick} = BOOLEAN \X {1, 2, 4}
                  /\ {TargetClass(t) : t \in TargetsAll} = BOOLEAN \X {1, 2, 4}

\* data statement of a size, with the i-th value of that size (bytes of a value all different); I: the target's
\* sample instruction (an ordinary statement without operands for the macro processor; spelled by the renderer)
DL(v) == L(<<>>, "DL", v)
INSN == L(<<>>, "INSN", <<>>)
DataVal(sz, i) == CASE sz = "B" -> (IF i = 1 THEN "18" ELSE IF i = 2 THEN "52" ELSE "86")
                    [] sz = "W" -> (IF i = 1 THEN "4660" ELSE IF i = 2 THEN "22136" ELSE "39612")
                    [] OTHER    -> (IF i = 1 THEN "305419896" ELSE IF i = 2 THEN "1432778632" ELSE "591751049")
Data(sz, v) == CASE sz = "B" -> DB(v) [] sz = "W" -> DW(v) [] sz = "L" -> DL(v) [] OTHER -> INSN

\* BINCLUDE in a context, FOLLOWED by data: `inner` (N = nothing, B, W, L, I) right after it in the same body, `after`
\* (B, W, L, I) once the enclosing construct has ended, a word before everything and a label that depends on all
\* lengths at the end.  Window (ofs, len) as in BinProg; contexts that take the offset from a parameter use the
\* window one byte further in their second expansion (ofs + 1 + len must fit the file).
BinCtxs == {"TOP", "MACRO", "REPT", "IRP", "WHILE", "MREPT", "INCL", "RINCL"}
BinCtxProg(ctx, ofs, len, inner, after) ==
  LET file == <<QUOTE, "B", ".", "BIN", QUOTE>>
      bin(o) == L(<<>>, "BINCLUDE", Cs(<<file>> \o (IF ofs < 0 THEN <<>> ELSE <<o>> \o (IF len < 0 THEN <<>> ELSE <<N(len)>>))))
      dat(x) == IF inner = "N" THEN <<>> ELSE <<Data(inner, x)>>
      v(i) == <<DataVal(IF inner \in {"N", "I"} THEN "B" ELSE inner, i)>>
      o1 == N(Max(ofs, 0))   o2 == N(Max(ofs, 0) + 1)
      use ==
        CASE ctx = "TOP"   -> <<bin(o1)>> \o dat(v(1))
          [] ctx = "MACRO" -> <<L(<<"M1">>, "MACRO", <<"OFS", ",", "VAL">>), bin(<<"OFS">>)>> \o dat(<<"VAL">>)
                              \o <<ENDM, L(<<>>, "M1", Cs(<<o1, v(1)>>)), L(<<>>, "M1", Cs(<<o2, v(2)>>))>>
          [] ctx = "REPT"  -> <<L(<<>>, "REPT", N(2)), bin(o1)>> \o dat(v(1)) \o <<ENDM>>
          [] ctx = "IRP"   -> <<L(<<>>, "IRP", Cs(<<<<"OFS">>, o1, o2>>)), bin(<<"OFS">>)>> \o dat(v(1)) \o <<ENDM>>
          [] ctx = "WHILE" -> <<L(<<"C1">>, "SET", N(2)), L(<<>>, "WHILE", <<"C1">>), bin(o1)>> \o dat(v(1))
                              \o <<L(<<"C1">>, "SET", <<"C1", "-", "1">>), ENDM>>
          [] ctx = "MREPT" -> <<L(<<"M1">>, "MACRO", <<"OFS", ",", "VAL">>), L(<<>>, "REPT", N(2)), bin(<<"OFS">>)>> \o dat(<<"VAL">>)
                              \o <<ENDM>> \o dat(<<"VAL">>) \o <<ENDM, L(<<>>, "M1", Cs(<<o1, v(1)>>)), L(<<>>, "M1", Cs(<<o2, v(2)>>))>>
          [] ctx = "INCL"  -> <<L(<<>>, "INCLUDE", <<"I1", ".", "INC">>)>>
          [] OTHER         -> <<L(<<>>, "REPT", N(2)), L(<<>>, "INCLUDE", <<"I1", ".", "INC">>), ENDM>>
  IN [f \in {"a.asm", "I1.INC"} |->
        IF f = "a.asm" THEN <<DW(<<DataVal("W", 3)>>)>> \o use \o <<Data(after, <<DataVal(after, 3)>>), L(<<"LE">>, "DW", <<"LE">>)>>
        ELSE <<bin(o1)>> \o dat(v(1))]
BinCtxSizes(inner, after) == {"B", "W"} \cup {after} \cup (IF inner = "N" THEN {} ELSE {inner})
=============================================================================
