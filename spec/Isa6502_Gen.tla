----------------------------- MODULE Isa6502_Gen -----------------------------
EXTENDS Isa6502
CONSTANTS Cpu, K, Salt, Step
VARIABLES form, ops, pc
INSTANCE IsaGen
ASSUME TableSane
ASSUME Cardinality(DefinedOpcodes(FormsOfCpu, UnitBits)) = DefinedCount(Cpu)
=============================================================================
