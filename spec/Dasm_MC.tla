------------------------------- MODULE Dasm_MC -------------------------------
(* Exhaustive check of the worklist on all small images: cell 0 ranges over FirstBytes (all 256 byte   *)
(* values in the opcode-coverage configuration), the other cells over OtherBytes; every non-empty set   *)
(* of at most MaxEntries entry addresses from EntryAddrs (addresses inside and just outside the image). *)
(* The image sits at Org so that relative / in-page targets stay meaningful.                          *)
EXTENDS Integers, Sequences, FiniteSets, TLC
CONSTANTS IsaName, Cpu, N, Org, FirstBytes, AllFirst, OtherBytes, MaxEntries, EntrySpan, VecAddrs

I4 == INSTANCE Isa4004
I8 == INSTANCE Isa6800
Forms == IF IsaName = "4004" THEN I4!Forms ELSE I8!Forms
AddrMax == IF IsaName = "4004" THEN I4!AddrMax ELSE I8!AddrMax
FormsOfCpu == {f \in Forms : Cpu \in f.cpus}
OpTable == [x \in 0..255 |-> I4!FormsMatching(FormsOfCpu, x, 8)]
INSTANCE Dasm

VARIABLES img, ents0, st
vars == <<img, ents0, st>>

Addrs == Org..(Org + N - 1)
EntryAddrs == Org..(Org + EntrySpan - 1)        \* EntrySpan = N + 1 includes the address just behind the image
FB == IF AllFirst THEN 0..255 ELSE FirstBytes
Vecs == {{}} \cup {{<<v, 2>>} : v \in VecAddrs}

Init == /\ \E b0 \in FB : \E rest \in [Addrs \ {Org} -> OtherBytes] :
             img = [a \in Addrs |-> IF a = Org THEN b0 ELSE rest[a]]
        /\ ents0 \in {E \in SUBSET EntryAddrs : Cardinality(E) \in 1..MaxEntries}
        /\ \E vs \in Vecs : st = InitState(ents0, vs)

Next == /\ ~Done(st)
        /\ st' = Step(img, st)
        /\ UNCHANGED <<img, ents0>>

Spec == Init /\ [][Next]_vars /\ WF_vars(Next)

Terminates == <>Done(st)
TerminatesWithin == st.steps <= 2 * N + 2
\* code only grows, so the safety properties of the marked areas are checked on the finished runs
InvInside == Done(st) => InsideImage(img, st)
InvSound == Done(st) => CodeSound(img, ents0, st)
InvComplete == CodeComplete(img, ents0, st)
InvDisjoint == Done(st) => CodeDataDisjoint(img, ents0, st)
InvRoundTrip == Done(st) => \A a \in Addrs : RoundTripAt(img, a)
\* without the premise the worklist is NOT the closure (SkipTargetInsideCode): expected to fail, kept as a probe
ProbeCompleteWithoutPremise == Done(st) => st.code = ReachBytes(img, ents0)
\* the recursive run (used by the generator to predict the listed areas) is the machine
InvRunAgrees == Done(st) => Run(img, InitState(ents0, {})).code = st.code
=============================================================================
