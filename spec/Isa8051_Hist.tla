----------------------------- MODULE Isa8051_Hist -----------------------------
(* HISTORY dimension of C14 on the MCS-51 table: every leaf of the Isa8051_Gen case graph is printed together with a   *)
(* context statement (IsaHist.tla).  The context table (IsaCtxTab.tla) is computed ONCE, when TLC checks the       *)
(* assumption below, and kept in TLC register 14 (see Isa8080_Hist).                                                 *)
EXTENDS Isa8051_Gen
Ctx == INSTANCE IsaCtxTab
HasRep(f, p) == Ctx!HasRep(f, p)
CtxOps(f, p) == Ctx!RepOps(f, p)
ASSUME TLCSet(14, Ctx!MkCtxTab)
CtxTab == TLCGet(14)
INSTANCE IsaHist
=============================================================================
