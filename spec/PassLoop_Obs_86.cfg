\* verdict on decoded layouts, 86 class
CONSTANTS
  VarMode = "rel8"
  VarShort = 2
  VarLong = 3
  Padding = FALSE
  Labels = {"la", "lb", "lc"}
  Fills = {}
  AbsWidths = {2, 4}
  EquOffs = {}
  SelfKinds = {}
  Pages = {}
INIT OInit
NEXT ONext
POSTCONDITION Accepted
CHECK_DEADLOCK FALSE
