---------------------------- MODULE PassLoop_Obs ----------------------------
(* Verdict on observed layouts.  The harness assembles a rendered program with the real asl, decodes   *)
(* the code file item by item (marker bytes after each label, opcode tables for the references) and    *)
(* writes one JSON object per case  {id, prog, org, lay}  into the file named by the environment        *)
(* variable OBS.  TLC evaluates the declarative predicate of the specification on each of them and      *)
(* prints the verdict; the harness only reports what is printed here.                                   *)
EXTENDS PassLayout, TLC, Json, IOUtils

Cases == ndJsonDeserialize(IOEnv.OBS)

VARIABLE c
OInit == c = 1
\* definite: the program has a definite outcome by the manual (PassLayout!ScopeSafe); only then is `valid` a verdict
Verdict(x) == [id |-> x.id, valid |-> Valid(x.prog, x.org, x.lay), definite |-> ScopeSafe(x.prog),
               problems |-> IF Len(x.lay) # Len(x.prog) THEN {<<0, "length">>}
                            ELSE UNION {{<<j, q>> : q \in Problems(x.prog, x.org, x.lay, j)} : j \in 1..Len(x.prog)}]
ONext == /\ c <= Len(Cases)
         /\ PrintT(<<"OUT", ToJson(Verdict(Cases[c]))>>)
         /\ c' = c + 1
Accepted == TLCGet("stats").diameter - 1 = Len(Cases)
=============================================================================
