CONSTANTS LOCSYMSIGHT = 3
          MaxLen = 34 FreeLen = 16 MaxDepth = 4 Mode = "stack" CaseModes = {TRUE, FALSE} EveryState = FALSE
INIT Init
NEXT SimNext
INVARIANT Dump
CHECK_DEADLOCK FALSE
