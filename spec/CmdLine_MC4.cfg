\* core alphabet of asl (14 templates), <= 4 occurrences
CONSTANTS Fixed = {} Prog = "asl" MaxOcc = 4 Alphabet = "core"
SPECIFICATION SpecMC
INVARIANTS ScanIsFold DeviationsAreNamed PlaceNeverMatters EnvBeforeArgv ErrorIsFinal
CHECK_DEADLOCK FALSE
