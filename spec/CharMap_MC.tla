----------------------------- MODULE CharMap_MC -----------------------------
(***************************************************************************************************************)
(* (M) Bounded model of spec/CharMap.tla: every history of <= MaxLen statements over the alphabet Ops, with and  *)
(* without -U (case-sensitive names).  The code-shaped machine m is run next to the declarative fold d (and the  *)
(* other reading of SAVE/RESTORE a); ms / ds / as are the snapshots behind every statement, errs the machine's   *)
(* error verdicts.  Window: Codes = {1, 'A','B','C', 'a','b','c', 200}; statements whose result would leave the   *)
(* window are not followed (MClosed).                                                                             *)
(*                                                                                                                 *)
(* Invariants                                                                                                      *)
(*   MachineIsFold        abstraction of the heap = declarative fold, statement by statement, errors included      *)
(*   FoldIsFold           the incremental declarative state = DFold(history)                                        *)
(*   WellFormed           list sorted strictly, cur / saved pointers inside the list, no table shared               *)
(*   RestoreReestablishes RESTORE makes the page active that was active at the matching SAVE, with that page's     *)
(*                        PRESENT contents; = the saved table exactly when nobody edited that page in between      *)
(*   CopyAtCreation       a page created by CODEPAGE new[,old] equals old's table of that moment, and keeps it      *)
(*                        until a CHARSET is executed while `new` is active - later edits of old do not leak       *)
(*   OnlyActiveWritten    no statement changes the contents of a page that is not active                           *)
(*   ErrorsInert          an erroneous statement changes nothing                                                    *)
(*   BackwardIsFold       (CheckBackward) the demand-driven reading BValue = the fold, for every position and code *)
(* Configurations: CharMap_MC.cfg (quick: OpsQuick, length 2, + OpsTiny length 4 in CharMap_MC_tiny.cfg with the   *)
(* backward reading), CharMap_MC_full.cfg (thorough), CharMap_MC_dev_*.cfg (one named deviation of the code side   *)
(* each - TLC must refute every one).                                                                              *)
(***************************************************************************************************************)
EXTENDS CharMap, TLC, Json

CONSTANTS Ops, MaxLen, CheckBackward, CaseModes

VARIABLES vm, vd, va, hist, errs, vms, vds, vas, cs
vars == <<vm, vd, va, hist, errs, vms, vds, vas, cs>>

(* ---- the window and the alphabets ------------------------------------------------------------------------- *)
MCCodes == {1, 65, 66, 67, 97, 98, 99, 200}
ProbeStr == <<97, 98, 99, 65, 66, 67, 1, 200>>
Over(t, f) == [z \in MCCodes |-> IF z \in DOMAIN f THEN f[z] ELSE t[z]]
IdT == [z \in MCCodes |-> z]
MCFileTabs == << Over(IdT, (97 :> 98) @@ (98 :> 97) @@ (65 :> 200)),
                 Over(IdT, (97 :> 65) @@ (98 :> 66) @@ (99 :> 67) @@ (200 :> 1)) >>

C(v) == [sp |-> "chr", v |-> v]
N(v) == [sp |-> "num", v |-> v]
Nm(i, l) == [id |-> i, lc |-> l]
nAL == Nm(1, FALSE)   nAl == Nm(1, TRUE)          \* ALPHA  alpha
nST == Nm(2, FALSE)   nSt == Nm(2, TRUE)          \* STANDARD standard
nZE == Nm(3, FALSE)   nZe == Nm(3, TRUE)          \* ZETA  zeta

OpsTiny == {Reset, One(C(97), C(65)), One(C(97), N(98)), One(N(98), C(97)), Range(C(97), C(99), C(65)),
            Str(C(97), <<98, 97>>), File(1), CP1(nAL), CP1(nST), CP2(nZE, nST), CP2(nAL, nZE), CP1(nZe), Save, Restore}

ArgI == {C(97), C(98), N(97), N(65), N(200)}
ArgV == {C(65), C(98), N(1), N(200), N(98), N(256)}
Spans == {<<C(97), C(99)>>, <<N(97), N(99)>>, <<C(97), C(98)>>, <<N(65), N(66)>>, <<C(99), C(97)>>, <<N(97), C(99)>>,
          <<N(98), N(99)>>}
ArgR == {C(65), N(65), N(97), C(97)}
OneOps == {One(x, y) : x \in ArgI, y \in ArgV}
RangeOps == {Range(x[1], x[2], y) : x \in Spans, y \in ArgR}
StrOps == {Str(x, s) : x \in {C(97), N(97), N(65), C(98)}, s \in {<<65, 66>>, <<98, 97>>, <<98>>, <<67, 65, 66>>}}
             \cup {Str(N(255), <<65, 66>>)}
CPOps == {CP1(n) : n \in {nAL, nAl, nST, nSt, nZE, nZe}} \cup {CP2(n, q) : n \in {nAL, nZe, nST, nZE}, q \in {nST, nAl, nZE, nSt}}
OpsQuick == OneOps \cup RangeOps \cup StrOps \cup CPOps \cup {File(1), File(2), Reset, Save, Restore}
\* pages x SAVE/RESTORE x few edits: the interplay needs three or four statements (edit a page, create another from a
\* named source, come back) - enumerated exhaustively by CharMap_Gen3p.cfg / CharMap_Gen4p.cfg
OpsPages == {One(C(97), C(65)), One(N(98), N(1)), Reset, File(1), CP1(nAL), CP1(nST), CP1(nZe), CP2(nZE, nST), CP2(nAL, nZE),
             CP2(nZE, nAl), Save, Restore}
\* the shortest alphabet on which a wrong copy source and a RESTORE without effect are visible (four statements: SAVE,
\* switch, edit, RESTORE resp. switch, edit, create from a named source) - CharMap_Gen4s.cfg, exhaustive in the quick tier
OpsStack == {One(C(97), C(65)), CP1(nAL), CP1(nST), CP2(nZE, nST), Save, Restore}
CapOps == {Cap(TRUE, 97), Cap(FALSE, 97), Cap(TRUE, 98), Cap(FALSE, 65)}
OpsGen == OpsQuick \cup CapOps

\* thorough: every argument spelled both ways over more codes
ArgAll == {C(v) : v \in {65, 66, 97, 98, 99}} \cup {N(v) : v \in {1, 65, 97, 98, 99, 200}}
OpsFull == OpsQuick \cup {One(x, y) : x \in ArgAll, y \in ArgAll}
                    \cup {Range(x, y, z) : x \in {C(97), N(97), C(65), N(98)}, y \in {C(99), N(99), C(98), N(66)}, z \in ArgAll}
                    \cup {Str(x, s) : x \in ArgAll, s \in {<<65, 66>>, <<98, 97>>, <<98>>, <<67, 65, 66>>, <<99, 99>>}}
                    \cup {CP2(n, q) : n \in {nAL, nAl, nST, nSt, nZE, nZe}, q \in {nAL, nAl, nST, nSt, nZE, nZe}}
OpsFullGen == OpsFull \cup CapOps

(* ---- behaviour --------------------------------------------------------------------------------------------- *)
Init == /\ cs \in CaseModes
        /\ vm = MInit /\ vd = DInit /\ va = AInit /\ hist = <<>> /\ errs = <<>>
        /\ vms = <<MAbs(MInit)>> /\ vds = <<DInit>> /\ vas = <<AInit>>

Step(op) == LET r == MStep(vm, op, cs) IN
            /\ Len(hist) < MaxLen
            /\ MClosed(r.m)
            /\ vm' = r.m /\ errs' = Append(errs, r.err) /\ hist' = Append(hist, op)
            /\ vd' = DStep(vd, op, cs) /\ va' = AStep(va, op, cs)
            /\ vms' = Append(vms, MAbs(r.m)) /\ vds' = Append(vds, DStep(vd, op, cs)) /\ vas' = Append(vas, AStep(va, op, cs))
            /\ UNCHANGED cs
Next == \E op \in Ops : Step(op)
\* simulation (-simulate): ONE random statement per step, so that every trace is one history (TLC's simulator would
\* otherwise evaluate the Dump invariant on all successors of the last state).  Two-stage choice: a statement class,
\* then a statement of that class, among the statements that are not an error in the present state (erroneous
\* statements are enumerated exhaustively by CharMap_Gen2.cfg; an assembly with an error writes no code file).
ClassOf(op) == IF op.k = "cp" THEN (IF op.q = NoName THEN "cp1" ELSE "cp2") ELSE op.k
GoodOps == {op \in Ops : ~DErr(vd, op, cs)}       \* (a statement that leaves the window ends the trace early)
NextSim == \E g \in {GoodOps} :                                                          \* bound: evaluated once
             \E cl \in {RandomElement({ClassOf(op) : op \in g})} :
               \E op \in {RandomElement({x \in g : ClassOf(x) = cl})} : Step(op)

(* ---- invariants -------------------------------------------------------------------------------------------- *)
L == Len(hist)
MachineIsFold == /\ vms = vds
                 /\ \A i \in 1..L : errs[i] = DErr(vds[i], hist[i], cs)
FoldIsFold == vds[L + 1] = DFold(hist, cs) /\ vd = vds[L + 1]
WellFormed == MWellFormed(vm)

Effective(k) == ~errs[k]
\* no CHARSET was executed on page p by the statements j..n
NoEdit(p, j, n) == \A k \in j..n : ~(IsCharset(hist[k]) /\ Effective(k) /\ vms[k].active = p)

RestoreReestablishes ==
  \A n \in 1..L : (hist[n].k = "restore" /\ Effective(n)) =>
     LET j == BMatch(hist, n - 1, 0)
         p == vms[j].active IN
     /\ j \in 1..(n - 1) /\ hist[j].k = "save"
     /\ vms[n + 1].active = p
     /\ DTab(vms[n + 1]) = vms[n].pages[p]
     /\ NoEdit(p, j, n) => DTab(vms[n + 1]) = DTab(vms[j])

CopyAtCreation ==
  \A j \in 1..L : (hist[j].k = "cp" /\ Effective(j) /\ Norm(hist[j].n, cs) \notin DOMAIN vms[j].pages) =>
     LET p == Norm(hist[j].n, cs)
         src == IF hist[j].q = NoName THEN vms[j].active ELSE Norm(hist[j].q, cs) IN
     /\ vms[j + 1].pages[p] = vms[j].pages[src]
     /\ vms[j + 1].active = p
     /\ \A n \in (j + 1)..L : NoEdit(p, j + 1, n) => vms[n + 1].pages[p] = vms[j].pages[src]

OnlyActiveWritten ==
  \A n \in 1..L : \A p \in DOMAIN vms[n].pages : p # vms[n].active => vms[n + 1].pages[p] = vms[n].pages[p]

ErrorsInert == \A n \in 1..L : errs[n] => vms[n + 1] = vms[n]

BackwardIsFold ==
  CheckBackward => \A z \in Codes : BValue(hist, L, z, cs) = DTab(vd)[z]

(* ---- generator (CharMap_Gen*.cfg): histories + probes with the expected element values ------------------------ *)
Rot(k) == ProbeStr[(k % Len(ProbeStr)) + 1]
ProbesAt(p, t) ==
  LET same == {x \in (MCCodes \X MCCodes) : x[1] < x[2] /\ t[x[1]] = t[x[2]]}
      pair == IF same = {} THEN <<Rot(p), Rot(p + 3)>> ELSE CHOOSE x \in same : TRUE
  IN \* (order: even sizes first, so that word data and instructions stay aligned on word-oriented targets)
     << Probe("str", ProbeStr), Probe("multi", <<Rot(p + 1), Rot(p + 2)>>), Probe("insn", <<Rot(p + 1)>>),
        Probe("chr", <<Rot(p)>>), Probe("expr", <<Rot(p + 2)>>), Probe("cmp", pair), Probe("cmp", <<Rot(p), Rot(p)>>) >>

EncArg(x) == <<x.sp, x.v>>
EncStmt(s) == <<s.k, EncArg(s.a), EncArg(s.b), EncArg(s.c), s.s, <<s.n.id, s.n.lc>>, <<s.q.id, s.q.lc>>>>
IsCap(s) == s.k \in {"capE", "capL"}

Record ==
  [cs   |-> cs,
   h    |-> [i \in 1..L |-> EncStmt(hist[i])],
   err  |-> errs,
   open |-> Len(vds[L + 1].stack),            \* SAVE frames still open at the end (a source must close them)
   pos  |-> [n \in 1..(L + 1) |->
               LET t == DTab(vds[n])
                   ps == ProbesAt(n - 1, t) IN
               [amb |-> DTab(vds[n]) # DTab(vas[n]),
                pr  |-> [i \in 1..Len(ps) |-> <<ps[i].f, ps[i].cs, ProbeVal(ps[i], t)>>]]],
   caps |-> [i \in 1..L |->
               IF ~IsCap(hist[i]) THEN <<>>
               ELSE LET n == IF hist[i].k = "capE" THEN i ELSE L + 1 IN
                    <<DTab(vds[n])[hist[i].a.v], DTab(vds[n]) # DTab(vas[n])>>]]

\* the contents of the table files, once per run (the harness writes the files from it)
ASSUME PrintT(<<"CMF", ToJson([i \in 1..Len(MCFileTabs) |-> [z \in MCCodes |-> MCFileTabs[i][z]]])>>)

Dump == (L = MaxLen) => PrintT(<<"CM", ToJson(Record)>>)
=============================================================================
