\* (M)+(G) thorough: sections + FORWARD, 8086 class
CONSTANTS
  VarMode = "rel8"
  VarShort = 2
  VarLong = 3
  Padding = FALSE
  RelFpuOK = FALSE
  RefKinds = {"var"}
  Sects = {"s"}
  Quals = {8}
  Alias = {{"la", "LA"}}
  CaseSens = FALSE
  Pages = {}
  PageReset = TRUE
  SelfKinds = {}
  Labels = {"la", "LA"}
  MaxItems = 5
  Fills = {126}
  AbsWidths = {2}
  EquOffs = {}
  Orgs = {0}
  Fixed = TRUE
  ThrowErrors = FALSE
  ThrowMaxPass = 3
  WithExtra = TRUE
  AllowIllFormed = FALSE
  Complete = FALSE
SPECIFICATION GSpec
CHECK_DEADLOCK FALSE
INVARIANTS TypeOK Fixpoint ExtraPassIsStutter NoSpuriousError CleanMeansSolvable IllFormedRejected
PROPERTY Termination
ACTION_CONSTRAINT OnDone
