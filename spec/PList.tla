-------------------------------- MODULE PList --------------------------------
(* PLIST: list the records of a code file.  Property C07 (second half).                                *)
(*                                                                                                     *)
(* Operational part transcribed from plist.c (ProcessSingle, summary loop of main); declarative part   *)
(* from the property and doc/utility-programs.md "PLIST": one line per record with code type, segment, *)
(* start address, length in bytes and end address (= start + length - 1 in units of the granularity),  *)
(* and a summarized code length per segment.                                                           *)
(* A case: [file |-> bytes of the code file].   An observation (stdout tokenised by the harness):      *)
(*   [rc, rows |-> << [fam, seg, start, len, last] >>, entries |-> <<addr>>, creator |-> "text",       *)
(*    totals |-> << [n, seg] >>  (n = -1 when the count is not a decimal number), junk |-> #other lines]*)
(* Hexadecimal columns are read as signed 32-bit numbers (FFFFFFFF = -1, the end address of an empty   *)
(* record at address 0).  Single-file invocation; addresses < 2^30.                                    *)
EXTENDS CodeFileBytes, TLC

Devs == {"total_format"}       \* printf(PRIu32, Sums[z]) lacks the '%': the total is printed as the letter "u"

\* headids.c Descrs[]: <<HeaderID, name>> (name as printed, blanks trimmed); all ids are rows of the manual's
\* table "Header Bytes for the Different Processor Families" except $34
FamilyTable == <<
  <<1, "680x0">>, <<9, "DSP56000">>, <<5, "MPC601">>, <<3, "M-CORE">>, <<4, "XGATE">>, <<97, "68xx">>, 
  <<98, "6805/HC08">>, <<99, "6809">>, <<102, "68HC12">>, <<69, "S12Z">>, <<101, "68HC16">>, <<94, "68RS08">>, 
  <<104, "H8/300(H}">>, <<105, "H8/500">>, <<64, "H16">>, <<108, "SH7x00">>, <<80, "HMCS400">>, <<17, "65xx">>, 
  <<25, "MELPS-7700">>, <<18, "MELPS-4500">>, <<19, "M16">>, <<20, "M16C">>, <<33, "MCS-48">>, 
  <<49, "MCS-(2)51">>, <<57, "MCS-96/196">>, <<63, "4004/4040">>, <<62, "8008">>, <<65, "8080/8085">>, 
  <<66, "8086">>, <<42, "i960">>, <<58, "8X30x">>, <<55, "2650">>, <<60, "XA">>, <<59, "AVR">>, 
  <<61, "AVR(CSEG8)">>, <<41, "29xxx">>, <<76, "80C166/167">>, <<81, "Zx80">>, <<121, "Z8">>, <<53, "Super8">>, 
  <<89, "eZ8">>, <<52, "Z8000">>, <<107, "KCPSM">>, <<91, "KCPSM3">>, <<92, "Mico8">>, <<82, "TLCS-900">>, 
  <<83, "TLCS-90">>, <<84, "TLCS-870">>, <<87, "TLCS-870/C">>, <<85, "TLCS-47xx">>, <<86, "TLCS-9000">>, 
  <<90, "TC9331">>, <<112, "16C8x">>, <<113, "16C5x">>, <<114, "17C4x">>, <<120, "ST6">>, <<51, "ST7">>, 
  <<50, "ST9">>, <<100, "6804">>, <<116, "TMS3201x">>, <<117, "TMS3202x">>, <<118, "TMS320C3x/C4x">>, 
  <<119, "TMS320C5x">>, <<75, "TMS320C54x">>, <<71, "TMS320C6x">>, <<72, "TMS9900">>, <<115, "TMS7000">>, 
  <<73, "TMS370xx">>, <<74, "MSP430">>, <<7, "TMS1000">>, <<110, "SC/MP">>, <<106, "807x">>, <<95, "COP4">>, 
  <<111, "COP8">>, <<109, "SC14XXX">>, <<8, "NS32000">>, <<103, "ACE">>, <<68, "F8">>, <<93, "75xx">>, 
  <<122, "78(C)xx">>, <<123, "75K0">>, <<124, "78K0">>, <<96, "78K2">>, <<88, "78K3">>, <<70, "78K4">>, 
  <<125, "7720">>, <<126, "7725">>, <<127, "77230">>, <<37, "SYM53C8xx">>, <<21, "F2MC8">>, <<22, "F2MC16">>, 
  <<54, "MN161x">>, <<78, "OLMS-40">>, <<77, "OLMS-50">>, <<56, "1802">>, <<67, "SX20">>, <<39, "KENBAK">>, 
  <<2, "ATARI_VECTOR">>, <<6, "XCore">>, <<26, "PDK13">>, <<27, "PDK14">>, <<28, "PDK15">>, <<29, "PDK16">>, 
  <<79, "1750">>, <<10, "CP1600">>
>>
FamilyIds == {FamilyTable[i][1] : i \in 1..Len(FamilyTable)}
FamilyName(cpu) == FamilyTable[CHOOSE i \in 1..Len(FamilyTable) : FamilyTable[i][1] = cpu /\
                                 \A j \in 1..Len(FamilyTable) : FamilyTable[j][1] = cpu => i <= j][2]
\* addrspace.c SegNames[]
SegNameTable == <<"NOTHING", "CODE", "DATA", "IDATA", "XDATA", "YDATA", "BITDATA", "IO", "REG", "ROMDATA", "EEDATA">>
SegName(seg) == SegNameTable[seg + 1]
SegCount == 11

(***************************************************************************)
(* operational: ProcessSingle folds the records into rows and Sums[]       *)
(***************************************************************************)
P0 == [rows |-> <<>>, entries |-> <<>>, sums |-> [z \in 0..(SegCount - 1) |-> 0]]
ListItem(p, it) ==
  IF IsEntry(it) THEN [p EXCEPT !.entries = Append(@, it.addr)]
  ELSE LET fam  == IF it.cpu \in FamilyIds THEN FamilyName(it.cpu) ELSE "???=81"      \* prints the record type
           last == IF Len(it.data) # 0 THEN it.start + (Len(it.data) \div it.gran) - 1 ELSE it.start - 1
       IN [p EXCEPT !.rows = Append(@, [fam |-> fam, seg |-> SegName(it.seg), start |-> it.start,
                                        len |-> Len(it.data), last |-> last]),
                    !.sums[it.seg] = @ + Len(it.data)]
\* summary: the CODE line always, other segments when non-empty
SumLines(D, sums) ==
  LET segs == SelectSeq([z \in 1..SegCount |-> z - 1], LAMBDA z : z = SegCode \/ sums[z] # 0)
  IN [i \in 1..Len(segs) |-> [n |-> IF "total_format" \in D THEN -1 ELSE sums[segs[i]], seg |-> SegName(segs[i])]]
Chars(bytes) == bytes         \* the creator is compared as a sequence of character codes
Run(D, c) ==
  LET d == Decode(c.file) IN
  IF ~d.ok THEN [rc |-> 3, rows |-> <<>>, entries |-> <<>>, creator |-> <<>>, totals |-> <<>>, junk |-> 0]
  ELSE LET p == FoldLeft(LAMBDA q, it : ListItem(q, it), P0, d.items)
       IN [rc |-> 0, rows |-> p.rows, entries |-> p.entries, creator |-> Chars(d.creator),
           totals |-> SumLines(D, p.sums), junk |-> 0]

(***************************************************************************)
(* declarative                                                             *)
(***************************************************************************)
Definite(c) == WellFormedBytes(c.file)
Recs(c) == LET its == Decode(c.file).items IN SelectSeq(its, LAMBDA it : IsData(it))
SumLen(c, segname) == LET R == Recs(c) IN FoldLeft(LAMBDA a, r : IF SegName(r.seg) = segname THEN a + Len(r.data) ELSE a, 0, R)
RowTrue(r, row) ==
  /\ r.cpu \in FamilyIds => row.fam = FamilyName(r.cpu)       \* "code type: the processor family"
  /\ row.seg = SegName(r.seg)
  /\ row.start = r.start
  /\ row.len = Len(r.data)                                    \* "length of this code chunk in bytes"
  /\ row.last = LastAddr(r)                                   \* "last address of this code chunk"
Truthful(c, obs) ==
  LET R == Recs(c) IN
  /\ obs.rc = 0
  /\ Len(obs.rows) = Len(R)                                                       \* exactly one line per record
  /\ \A i \in 1..Len(R) : RowTrue(R[i], obs.rows[i])
  /\ \A i \in 1..Len(obs.totals) : obs.totals[i].n = SumLen(c, obs.totals[i].seg)  \* a printed total is the sum
  /\ \A i, j \in 1..Len(obs.totals) : i # j => obs.totals[i].seg # obs.totals[j].seg
  /\ \A i \in 1..Len(R) : Len(R[i].data) > 0 => \E j \in 1..Len(obs.totals) : obs.totals[j].seg = SegName(R[i].seg)

Verdict(c, obs) ==
  LET def  == Definite(c)
      ok   == ~def \/ Truthful(c, obs)
      fits == {D \in SUBSET Devs : Run(D, c) = obs}
      best == CHOOSE D \in fits : \A E \in fits : Cardinality(D) <= Cardinality(E)
  IN [definite |-> def, ok |-> ok,
      fit |-> IF Run({}, c) = obs THEN <<>> ELSE IF fits = {} THEN <<"none">> ELSE SetToSeq(best)]
=============================================================================
