\* (thorough) selection with more lengths, lanes and filters
CONSTANTS
  Dev = {}
  MaxRecs = 2
  Starts = {0, 2}
  UnitLens = {0, 1, 2}
  GranSet = {1, 2}
  EntryAddrs = {}
  Offsets = {}
  FillSet = {255}
  SumOpts = {FALSE}
  SegOpts = {1, 2}
  CpuSegs <- CS_Mixed
  Ranges <- R_Small
  LaneSet <- L_Three
  FiltSet <- F_Mixed5
  ESet <- E_None
  HdrSet <- H_None
SPECIFICATION Spec
INVARIANTS Conforms ConformsMixed StepRunAgrees ChunkListOK WindowStable MeasureSound UsedIsCoverage
CHECK_DEADLOCK FALSE
