CONSTANTS MaxLen = 8 MaxSave = 1 FamDialects = {"8051", "c25", "pic", "c30"}
INIT FInit
NEXT FNext
VIEW FamViewQ
ACTION_CONSTRAINT TCover
CHECK_DEADLOCK FALSE
