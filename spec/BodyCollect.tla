------------------------------ MODULE BodyCollect ------------------------------
(* C16, file-level rewrites "wrap the text in a parameterless macro that is invoked once" / "move it into *)
(* an INCLUDE file": what the wrap requires of the wrapped text, and what the constructs in it mean.      *)
(*                                                                                                       *)
(* Part 1  the body collector of as.c: while a MACRO / IRP / IRPN / IRPC / REPT / WHILE body is being     *)
(*         collected (MACRO_OutProcessor, IRP_OutProcessor, REPT_OutProcessor, WHILE_OutProcessor,        *)
(*         WaitENDM_Processor ...), every line only moves a nesting counter:                              *)
(*             MacroStart(): the mnemonic opens a collected block   -> NestLevel + 1                      *)
(*             MacroEnd():   ENDM or ENDR                            -> NestLevel - 1                      *)
(*         and the body ends with the line that takes the counter to -1.  Nothing else is looked at      *)
(*         (no conditional assembly, no strings), the mnemonic is compared upper-cased.                   *)
(* Part 2  the precondition of the macro wrap: the wrapped lines are balanced for the collector (and for  *)
(*         the paired statements that a macro expansion must not leave open: IF/SWITCH, STRUCT/UNION,     *)
(*         SECTION).  TLC checks that this is exactly the condition under which the collector ends the    *)
(*         wrapper's body at the wrapper's own ENDM.                                                      *)
(* Part 3  small programs built from the constructs (one and two levels deep) with their meaning as a     *)
(*         byte sequence (Expand) - the expectation for the replay plain / macro-wrapped / include-wrapped. *)
EXTENDS Integers, Sequences, FiniteSets

------------------------------------------------------------------------------------------------------
Opens  == {"MACRO", "IRP", "IRPN", "IRPC", "REPT", "WHILE"}          \* as.c MacroStart()
Closes == {"ENDM", "ENDR"}                                            \* as.c MacroEnd()

CollectStep(level, op) == IF op \in Opens THEN level + 1 ELSE IF op \in Closes THEN level - 1 ELSE level

\* index of the line that ends a body whose first line is ops[from] (collector started at level 0), 0 if none
RECURSIVE BodyEnd(_, _, _)
BodyEnd(ops, k, level) ==
  IF k > Len(ops) THEN 0
  ELSE LET l2 == CollectStep(level, ops[k]) IN IF l2 = -1 THEN k ELSE BodyEnd(ops, k + 1, l2)

\* nesting profile of a statement sequence for one family of paired statements
RECURSIVE Profile(_, _, _, _, _)
Profile(ops, k, level, O, C) ==          \* [min, last]
  IF k > Len(ops) THEN [min |-> level, last |-> level]
  ELSE LET l2 == IF ops[k] \in O THEN level + 1 ELSE IF ops[k] \in C THEN level - 1 ELSE level
           r  == Profile(ops, k + 1, l2, O, C)
       IN  [min |-> IF level < r.min THEN level ELSE r.min, last |-> r.last]
BalancedFor(ops, O, C) == LET p == Profile(ops, 1, 0, O, C) IN p.min >= 0 /\ p.last = 0

CollectorBalanced(ops) == BalancedFor(ops, Opens, Closes)

IfOpens   == {"IF", "IFDEF", "IFNDEF", "IFUSED", "IFNUSED", "IFEXIST", "IFNEXIST", "IFB", "IFNB", "SWITCH", "SELECT"}
IfCloses  == {"ENDIF", "ENDC", "ENDCASE"}
StructOpens == {"STRUCT", "STRUC", "UNION"}
StructCloses == {"ENDSTRUCT", "ENDSTRUC", "ENDS", "ENDUNION"}
SectOpens == {"SECTION"}
SectCloses == {"ENDSECTION"}

\* what may be wrapped: balanced for the collector (syntactically, line by line - the collector does not know
\* about skipped branches) and for the paired statements
Wrappable(ops) == /\ CollectorBalanced(ops)
                  /\ BalancedFor(ops, IfOpens, IfCloses)
                  /\ BalancedFor(ops, StructOpens, StructCloses)
                  /\ BalancedFor(ops, SectOpens, SectCloses)

\* The wrap with a plain `vwrap MACRO` (no control parameter) makes the labels of the wrapped lines local to the
\* wrapper's expansion (manual: "Labels defined in macros always are regarded as being local, unless GLOBALSYMBOLS
\* was used"; what that means for references from nested expansions: SymScope.tla).  It is the same program only if
\* nothing outside the wrapped lines refers to their labels - the WHOLE main file is wrapped - and if no statement of
\* the run, at any depth (include files, expansions), opens a SECTION: "the locality of labels inside macros is not
\* influenced by sections", i.e. section-local symbols of the same name would collapse / be shadowed.
\*   ops = the main file's statements, run = the set of statement names executed anywhere in the run
LocalWrappable(ops, run) == Wrappable(ops) /\ run \cap SectOpens = {}

\* the wrap:  vwrap MACRO {GLOBALSYMBOLS} / lines / ENDM / vwrap      (LocalWrappable: vwrap MACRO / lines / ENDM / vwrap)
Wrap(ops) == <<"MACRO">> \o ops \o <<"ENDM", "CALL">>
\* the collector, started behind the wrapper's MACRO line, ends the body exactly at the wrapper's ENDM
WrapperCollectsExactly(ops) == BodyEnd(Wrap(ops), 2, 0) = Len(ops) + 2

------------------------------------------------------------------------------------------------------
(* Part 3: construct trees.  item = [k, n, args, body]                                                   *)
(*   LEAF  n = byte emitted (n >= 0) or -j: the j-th parameter of the innermost parameterised construct     *)
(*   REPT  n copies        IRP  one copy per argument, parameter 1 = the argument                          *)
(*   IRPN  n parameters, one copy per group of n arguments        IRPC one copy per character (digit)      *)
(*   WHILE n iterations (counter symbol)    MACRO defined, then called once    IF n = condition (0 / 1)     *)
(*   SECTION                                                                                              *)
Leaf(n) == [k |-> "LEAF", n |-> n, args |-> <<>>, body |-> <<>>]

RECURSIVE ExpandSeq(_, _, _), ExpandItem(_, _), Times(_, _, _), PerGroup(_, _, _, _)
ExpandSeq(items, k, env) == IF k > Len(items) THEN <<>> ELSE ExpandItem(items[k], env) \o ExpandSeq(items, k + 1, env)
Times(n, body, env) == IF n <= 0 THEN <<>> ELSE ExpandSeq(body, 1, env) \o Times(n - 1, body, env)
PerGroup(args, k, n, body) ==
  IF k + n - 1 > Len(args) THEN <<>> ELSE ExpandSeq(body, 1, SubSeq(args, k, k + n - 1)) \o PerGroup(args, k + n, n, body)
ExpandItem(it, env) ==
  CASE it.k = "LEAF"    -> IF it.n >= 0 THEN <<it.n>> ELSE <<env[-it.n]>>
    [] it.k = "REPT"    -> Times(it.n, it.body, env)
    [] it.k = "WHILE"   -> Times(it.n, it.body, env)
    [] it.k = "IRP"     -> PerGroup(it.args, 1, 1, it.body)
    [] it.k = "IRPC"    -> PerGroup(it.args, 1, 1, it.body)
    [] it.k = "IRPN"    -> PerGroup(it.args, 1, it.n, it.body)
    [] it.k = "MACRO"   -> ExpandSeq(it.body, 1, env)
    [] it.k = "IF"      -> IF it.n = 1 THEN ExpandSeq(it.body, 1, env) ELSE <<>>
    [] it.k = "SECTION" -> ExpandSeq(it.body, 1, env)
    [] OTHER            -> <<>>
Expand(items) == ExpandSeq(items, 1, <<>>)

\* the statement names of the rendered program, line by line (what the collector sees)
RECURSIVE OpsSeq(_, _), OpsItem(_)
OpsSeq(items, k) == IF k > Len(items) THEN <<>> ELSE OpsItem(items[k]) \o OpsSeq(items, k + 1)
OpsItem(it) ==
  CASE it.k = "LEAF"    -> <<"DB">>
    [] it.k = "WHILE"   -> <<"SET", "WHILE">> \o OpsSeq(it.body, 1) \o <<"SET", "ENDM">>
    [] it.k = "MACRO"   -> <<"MACRO">> \o OpsSeq(it.body, 1) \o <<"ENDM", "CALL">>
    [] it.k = "IF"      -> <<"IF">> \o OpsSeq(it.body, 1) \o <<"ENDIF">>
    [] it.k = "SECTION" -> <<"SECTION">> \o OpsSeq(it.body, 1) \o <<"ENDSECTION">>
    [] OTHER            -> <<it.k>> \o OpsSeq(it.body, 1) \o <<"ENDM">>          \* REPT IRP IRPN IRPC
ProgramOps(items) == OpsSeq(items, 1)
===============================================================================
