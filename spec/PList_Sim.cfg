\* random wide files (constants of the bounded space unused): see SimNext
CONSTANTS MaxItems = 0 Starts = {} ByteLens = {} EntryAddrs = {}
  CpuSegGran <- CSG_List Forms <- Forms_Both Creators <- Cr_One Dev <- D_None
SPECIFICATION SimSpec
INVARIANT SimDump
CHECK_DEADLOCK FALSE
