---------------------------- MODULE ListingModes_MC ----------------------------
(* (M) The listing-mode operators of ListingModes.tla (MakeList's ThisDoLst, IFListMask, the ListLine        *)
(* protocol of ProcessFile / MakeList, NextDoLst / OrigDoLst of the macro processor) against the manual, on    *)
(* every program of MaxTop top-level statements out of TopStatements (LISTING 0..3, MACEXP_DFT / MACEXP_OVR /   *)
(* MACEXP with set and clear modifiers, SAVE / RESTORE, IF / ELSEIF / ELSE / ENDIF two deep, macro definitions  *)
(* with control parameters, calls with a true and a false argument, nested calls, REPT at top level and inside   *)
(* a macro, data lines, SET).  Invariants, for every processed line:                                            *)
(*   CodeShown        a listed line that produced code shows its code (the property)                            *)
(*   TextOwn          an extra text stands only on the line of the statement that wrote it                       *)
(*   ListedAsManual   where the manual is definite, the line is listed <=> the manual says so                    *)
(* ListingModes_MC_stale.cfg (Stale = TRUE: ListLine cleared only by a listed line) must be REFUTED by TLC.      *)
EXTENDS ListingModes, TLC

\* alphabets of the configurations (a cfg file cannot hold tuples)
QModLists == {<<>>, <<"OFF">>, <<"NOIF">>, <<"OFF", "REST">>}
QCtlLists == {<<>>, <<"NOIF">>, <<"REST">>}
QIds == {1}   QBodies == {3, 4}
FIds == {1, 2, 3}

Spec == MInit /\ [][MNext]_mvars

CodeShown == ShowsItsCode(out)
TextOwn == TextIsOwn(out)
ListedAsManual == out.judged => (out.listed = out.manual)
Sane == /\ liston \in 0..3 /\ dolst \subseteq Parts /\ Len(ifs) <= 4 /\ Len(inp) <= 4
        /\ (ifs = <<>> => ifasm) /\ (ifasm => \A i \in 1..Len(ifs) : ifs[i].save)
        /\ (inp = <<>> => dolst = Parts)                  \* every expansion gives DoLst back (MACRO_Restorer)

\* named deviations, exhibited on the operators
\* SkippedNeedsRest: the manual files a skipped line under "conditional assembly" (listed with the If part);
\* MakeList() asks for the Rest part as well
ASSUME ManualClass(D(1, 1), FALSE, FALSE, TRUE) = "if" /\ ~ThisDoLst("rest", FALSE, {"if", "macro"})
\* CallCountsAsMacro: {NOEXPMACRO} hides a call inside the expansion, which the manual counts among the remaining lines
ASSUME ManualClass(L("call", 1, 1, <<>>), FALSE, TRUE, TRUE) = "rest" /\ ~ThisDoLst("macro", TRUE, {"if", "rest"})
\* PURECODE / NOSKIPPED as the manual words them
ASSUME \A a, i \in BOOLEAN : IFListMask(0, a, i) /\ ~IFListMask(1, a, i)
ASSUME ~IFListMask(2, TRUE, FALSE) /\ IFListMask(2, FALSE, FALSE) /\ IFListMask(3, TRUE, TRUE) /\ ~IFListMask(3, FALSE, TRUE)
\* a later modifier wins
ASSUME ApplyMods(Parts, <<"OFF", "REST">>) = {"rest"} /\ ApplyMods(Parts, <<"NOIF", "ON">>) = Parts
       /\ ApplyMods({"rest"}, <<"IF", "NOREST">>) = {"if"}
=============================================================================
