\* _def6
CONSTANTS MaxLen = 5 MaxDepth = 2 MaxInst = 0 MaxDefs = 1 SubNames = {"N"} Sizes = {1, 2}
          EndForms = "all" Moves = FALSE Errors = FALSE Strict = FALSE FixAnon = FALSE Segs = {"code"} StructSeg = "struct"
CONSTANTS OptSets <- Opt_all SubOptSets <- Opt_dots DimSets <- Dim_none
SPECIFICATION Spec
INVARIANTS Shape FieldIsOffset SubIsOffset LenIsSize TotIsStructLen DefinitionIsPromise InstanceIsPromise InstanceOccupiesLen
           InstanceInBody BodyEmitsNothing RefusedChangesNothing SymbolsSingleValued
CHECK_DEADLOCK FALSE
