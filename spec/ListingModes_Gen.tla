---------------------------- MODULE ListingModes_Gen ----------------------------
(* (G) Programs for the replay of the dimension "listing modes": behaviours of ListingModes (same MNext)       *)
(* recorded with what the specification expects the listing to hold for every processed line (source lines,      *)
(* lines of macro / REPT expansions, lines being recorded): listed or not, and what the code column of a listed   *)
(* line shows - the rows MakeListRows() (Listing.tla) yields for the line's code under the behaviour's target      *)
(* (granularity, list granularity) and list radix, an extra text, or nothing.  `hot` counts the places where a     *)
(* statement that writes an extra text is kept out of the listing and the next listed line is code-bearing (the    *)
(* places where a ListLine that is not reset per line would replace code).  Simulated, dumped when Done.          *)
EXTENDS ListingModes, Listing, TLC, Json
CONSTANTS Radices
VARIABLES tgt, radix, prog, hist, fin, cat
gvars == <<liston, dflt, ovr, dolst, ifs, ifasm, activeif, saves, inp, macs, meff, listline, pc, line, top, out,
           tgt, radix, prog, hist, fin, cat>>

GModLists == AllModLists   GCtlLists == AllCtlLists   GIds == {1, 2, 3}

Pat(k, i) == (k * 37 + i * 11 + 1) % 256                              \* code bytes of a data line with pattern tag k
Code(k, len) == [i \in 1..len |-> Pat(k, i)]
WithBytes(ln) == [k |-> ln.k, a |-> ln.a, n |-> ln.n, s |-> ln.s,
                  bytes |-> IF ln.k = "data" THEN Code(ln.a, ln.n * tgt.gran) ELSE <<>>]

GInit == /\ MInit
         /\ tgt \in {[gran |-> 1, lgran |-> 1], [gran |-> 1, lgran |-> 2], [gran |-> 2, lgran |-> 2]}
         /\ radix \in Radices
         /\ prog = <<>> /\ hist = <<>> /\ fin = FALSE /\ cat = "def"

Expect(o) == [k |-> o.k, line |-> o.line, depth |-> o.depth, cls |-> o.cls, listed |-> o.listed, shows |-> o.shows,
              text |-> o.text, len |-> o.len, pc |-> o.pc, judged |-> o.judged,
              rows |-> IF o.shows = "code"
                       THEN MakeListRows(Code(o.tag, o.len * tgt.gran), tgt.gran, tgt.lgran, WidthsOf(radix), <<0, o.pc>>, FALSE)
                       ELSE <<>>]

\* (the simulator evaluates invariants on every candidate successor: the closing step makes the dump unique)
\* the simulator picks uniformly among the successors, which would fill the programs with the many variants of
\* the mode statements: the kind of the next top-level statement is drawn first (weights by repetition)
Cats == <<"code", "code", "code", "cond", "cond", "cond", "mode", "mode", "exp", "exp", "def", "def",
          "call", "call", "call", "call">>
CatOf(st) == CASE st.k \in {"data", "set"} -> "code"
               [] st.k \in {"if", "elseif", "else", "endif"} -> "cond"
               [] st.k = "listing" -> "mode"
               [] st.k \in {"macro", "rept"} -> "def"
               [] st.k = "call" -> "call"
               [] OTHER -> "exp"
Narrowed == LET S == {st \in TopStatements : CatOf(st) = cat} IN
            IF \E st \in S : Offered(st) THEN S ELSE TopStatements

GNext == \/ /\ MNextOf(Narrowed)
            /\ \E i \in {RandomElement(1..Len(Cats))} : cat' = Cats[i]
            /\ UNCHANGED <<tgt, radix, fin>>
            /\ hist' = IF out'.k = "-" THEN hist ELSE Append(hist, Expect(out'))
            /\ prog' = IF top' # top THEN Append(prog, WithBytes(out')) ELSE prog
         \/ /\ Done /\ ~fin /\ fin' = TRUE
            /\ UNCHANGED <<liston, dflt, ovr, dolst, ifs, ifasm, activeif, saves, inp, macs, meff, listline, pc, line, top, out,
                           tgt, radix, prog, hist, cat>>

\* exposure to an extra text that outlives its line
RECURSIVE Hot(_, _, _)
Hot(h, i, pending) ==
  IF i > Len(h) THEN 0
  ELSE IF h[i].listed THEN (IF pending /\ h[i].len > 0 THEN 1 ELSE 0) + Hot(h, i + 1, FALSE)
  ELSE Hot(h, i + 1, pending \/ h[i].text)

Dump == fin => PrintT(<<"BEH", ToJson([tgt |-> tgt, radix |-> radix, prog |-> prog,
                                        bodies |-> [b \in 1..7 |-> [i \in 1..Len(BodyOf(b)) |-> WithBytes(BodyOf(b)[i])]],
                                        steps |-> hist, hot |-> Hot(hist, 1, FALSE)])>>)
=============================================================================
