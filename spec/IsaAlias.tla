------------------------------ MODULE IsaAlias ------------------------------
(* REGISTER-SYMBOL dimension of C14 (instantiated by Isa*_Alias on top of the ISA table and of IsaGen).         *)
(*                                                                                                            *)
(* doc/assembler-usage.md "Register Symbols" (valid for ... 4004/4040, AVR, MSP430(X) ...): a register may be  *)
(* given a symbolic name; register symbols "may be defined or re-defined with EQU or SET, and there is a         *)
(* specialized REG instruction"; "myreg2 reg myreg ; myreg2 -> r17"; doc/pseudo-instructions.md: "=" may be       *)
(* written for EQU, ":=" for SET resp. EVAL, and targets that have a SET machine instruction use EVAL.            *)
(* Consequence for the property: a machine statement whose register operand is written through a register       *)
(* symbol is THE SAME INSTRUCTION as the statement with the register literal the symbol denotes - same units,     *)
(* and if the denoted register is none the instruction form has, an error and no units.                          *)
(*                                                                                                            *)
(* The case is a HISTORY, not a single statement: definition statements executed earlier build a symbol table,   *)
(* the machine statement reads it.  State: prog = the definition statements executed so far (text), sym = the    *)
(* symbol table they built (operational: Define, shaped like the assembler's EnterRegSymbol: the right-hand side *)
(* is evaluated WHEN the definition is executed, a name bound to another symbol gets a copy of its value),       *)
(* form / ops / pc = the machine statement; its register operand plan.i is resolved through sym by the last       *)
(* step (AUse).  The declarative side (Denotes) reads the meaning of a name off the program TEXT alone.          *)
(*                                                                                                            *)
(* Case space (TLC explores it completely):                                                                    *)
(*   every form of the CPU that has a register field x every register field position of it                     *)
(*   x every register literal the field lists (all spellings: PC/SP/SR and R0/R1/R2, RA and R10, R0R1 and R0P)  *)
(*     + where the table lists ALL registers an instruction takes (FieldsComplete): every other register        *)
(*       literal of the CPU (other registers of the class, registers of another size class) -> must be rejected *)
(*   x definition scenario (ScenDefs: REG, EQU, =, SET/EVAL, :=, alias of an alias by REG and by EQU, re-definition,*)
(*     snapshot = a copy taken before the original is re-defined); ScenMode "all": every scenario, "rotate":     *)
(*     one scenario per (form, position, register), rotating so that every register and every form meets every   *)
(*     scenario.  The other operands of the statement are IsaGen's representative legal operands.               *)
EXTENDS IsaCommon, TLC, Json
CONSTANTS AddrMax, Cpu, Salt,
          HasPc(_), SeqPC, RepOps(_, _),   \* IsaGen: PC-dependent form, statement address, representative legal operands
          LitTab,            \* sequence of [l |-> register literal, c |-> size class of register symbols]: every literal
                             \* of the CPU's tables
          Lits,              \* the set of these literals
          FldTab,            \* sequence of [fld |-> register field, names |-> set of the literals it lists]
          FormTab,           \* sequence of [f |-> form with a register field, p |-> sequence of its register field positions]
                             \* (LitTab, Lits, FldTab, FormTab: IsaAliasTab, evaluated once by the instantiating module)
          VarDef,            \* mnemonic that defines a re-definable symbol on this target ("SET", or "EVAL")
          FieldsComplete,    \* TRUE: a register field lists every register the instruction takes
          ScenMode           \* "all" | "rotate"
VARIABLES form, ops, pc,     \* the machine statement (as in IsaGen); ops[plan.i] = -1 until the operand is resolved
          prog,              \* definition statements executed so far: sequence of [label, mn, rhs]
          sym,               \* symbol table: set of [name, lit (register literal), const (defined by REG / EQU / =)]
          plan               \* what this behaviour is going to do (fixed by AInit)

\* ---- the register literals of the CPU (tables built once by IsaAliasTab) ---------------------------------------
NamesOf(fld) == {fld.names[j][1] : j \in 1..Len(fld.names)}
\* the spellings of different classes are disjoint
LitsSane == /\ \A s, t \in 1..Len(LitTab) : LitTab[s].l = LitTab[t].l => s = t
            /\ Lits = {LitTab[t].l : t \in 1..Len(LitTab)}
\* a different literal of the same class (seed-dependent); the literal itself if the class has only one
Other(t) ==
  LET S == SelectSeq([k \in 1..Len(LitTab) |-> k], LAMBDA k : LitTab[k].c = LitTab[t].c /\ k # t)
  IN IF S = <<>> THEN LitTab[t].l ELSE LitTab[S[((Salt * 31 + t * 7) % Len(S)) + 1]].l

\* ---- definition statements and the symbol table ----------------------------------------------------------------
D(label, mn, rhs) == [label |-> label, mn |-> mn, rhs |-> rhs]
Constant(mn) == mn \in {"REG", "EQU", "="}
Variable(mn) == mn \in {VarDef, ":="}
\* the symbol table is a set of entries [name, lit, const], at most one per name
Defined(st, x) == \E e \in st : e.name = x
Entry(st, x) == CHOOSE e \in st : e.name = x
\* value of a right-hand side at the moment the definition is executed: a literal, or a copy of a symbol's value
Eval(st, rhs) == IF Defined(st, rhs) THEN Entry(st, rhs).lit ELSE rhs
CanDefine(st, d) ==
  /\ (d.rhs \in Lits \/ Defined(st, d.rhs))               \* no forward references
  /\ d.label \notin Lits
  /\ IF ~Defined(st, d.label) THEN TRUE
     ELSE Variable(d.mn) /\ ~Entry(st, d.label).const      \* only SET / EVAL / := re-define, and never a constant
Define(st, d) ==
  {e \in st : e.name # d.label} \cup {[name |-> d.label, lit |-> Eval(st, d.rhs), const |-> Constant(d.mn)]}

\* declarative: the register literal a name denotes after the first k statements of program text p ("" = none)
RECURSIVE Denotes(_, _, _)
Denotes(p, name, k) ==
  IF name \in Lits THEN name
  ELSE IF k = 0 THEN ""
  ELSE IF p[k].label = name THEN Denotes(p, p[k].rhs, k - 1)
  ELSE Denotes(p, name, k - 1)

\* ---- scenarios: definitions with symbol names a, b that make a name denote register literal lit ---------------
\* (oth = another literal of the same class); ScenUse = the name the machine statement is written with
ScenNames == <<"REG", "EQU", "VAR", "REG-of-REG", "REDEF", "=", "SNAPSHOT", ":=", "EQU-of-VAR">>
ScenDefs(s, a, b, lit, oth) ==
  CASE s = "REG"        -> <<D(a, "REG", lit)>>
    [] s = "EQU"        -> <<D(a, "EQU", lit)>>
    [] s = "="          -> <<D(a, "=", lit)>>
    [] s = "VAR"        -> <<D(a, VarDef, lit)>>
    [] s = "REG-of-REG" -> <<D(a, "REG", lit), D(b, "REG", a)>>                      \* myreg2 reg myreg
    [] s = "EQU-of-VAR" -> <<D(a, VarDef, lit), D(b, "EQU", a)>>
    [] s = "REDEF"      -> <<D(a, VarDef, oth), D(a, VarDef, lit)>>                  \* the last definition counts
    [] s = ":="         -> <<D(a, ":=", oth), D(a, ":=", lit)>>
    [] s = "SNAPSHOT"   -> <<D(a, VarDef, lit), D(b, "REG", a), D(a, VarDef, oth)>>  \* b keeps the value it copied
ScenUse(s, a, b) == IF s \in {"REG-of-REG", "EQU-of-VAR", "SNAPSHOT"} THEN b ELSE a

\* ---- behaviours ------------------------------------------------------------------------------------------------
NS == Len(ScenNames)
Num(x) == ToString(x)
ScenOk(n, i, t, s, inset) ==
  IF ScenMode = "all" /\ inset THEN TRUE ELSE s = ((Salt + n + 2 * i + t) % NS) + 1

\* targets of a register field: the literals it lists (FldTab[q].names); if the table is complete also every literal
\* it does not list
AInit ==
  \E n \in 1..Len(FormTab) : \E k \in 1..Len(FormTab[n].p) : \E q \in 1..Len(FldTab) :
    /\ FldTab[q].fld = FormTab[n].f.flds[FormTab[n].p[k]]
    /\ \E t \in {x \in 1..Len(LitTab) : FieldsComplete \/ LitTab[x].l \in FldTab[q].names} : \E s \in 1..NS :
        LET f   == FormTab[n].f
            i   == FormTab[n].p[k]
            id  == Num(n) \o "_" \o Num(i) \o "_" \o Num(t) \o "_" \o Num(s)
            a   == "QA" \o id
            b   == "QB" \o id
        IN /\ ScenOk(n, i, t, s, LitTab[t].l \in FldTab[q].names)
           /\ form = f
           /\ pc = IF HasPc(f) THEN SeqPC ELSE 0
           /\ ops = [RepOps(f, IF HasPc(f) THEN SeqPC ELSE 0) EXCEPT ![i] = -1]
           /\ prog = <<>>
           /\ sym = {}
           /\ plan = [i |-> i, lit |-> LitTab[t].l, scen |-> ScenNames[s],
                      defs |-> ScenDefs(ScenNames[s], a, b, LitTab[t].l, Other(t)), use |-> ScenUse(ScenNames[s], a, b)]

\* index of a register literal in the field's list (0: the instruction form does not have this register)
IndexOf(fld, lit) ==
  LET S == {j \in 1..Len(fld.names) : fld.names[j][1] = lit} IN IF S = {} THEN 0 ELSE CHOOSE j \in S : TRUE

\* one definition statement is executed
ADef == /\ Len(prog) < Len(plan.defs)
        /\ LET d == plan.defs[Len(prog) + 1] IN
             /\ CanDefine(sym, d)
             /\ sym' = Define(sym, d)
             /\ prog' = Append(prog, d)
        /\ UNCHANGED <<form, ops, pc, plan>>
\* the machine statement: its register operand is written plan.use and read from the symbol table
AUse == /\ Len(prog) = Len(plan.defs) /\ ops[plan.i] = -1
        /\ Defined(sym, plan.use)
        /\ ops' = [ops EXCEPT ![plan.i] = IndexOf(form.flds[plan.i], Entry(sym, plan.use).lit)]
        /\ UNCHANGED <<form, pc, prog, sym, plan>>
ANext == ADef \/ AUse

ALeaf == ops[plan.i] >= 0
Known == ops[plan.i] > 0           \* the denoted register is one the form has
AV == IF ~ALeaf THEN "" ELSE IF Known /\ AllLegal(form, ops, pc, AddrMax) THEN "units" ELSE "reject"
AUnits == EncodeRaw(form, ops, pc)
\* the statement text: operand plan.i is spelled with the symbol name
Spelled == [form EXCEPT !.flds[plan.i] = FEnum(<< <<plan.use, 0>> >>, form.flds[plan.i].w)]
AliasOut == [id |-> form.id \o " <" \o plan.scen \o ">", mn |-> form.mn, args |-> RenderArgs(Spelled, [ops EXCEPT ![plan.i] = 1]),
             pc |-> IF HasPc(form) THEN pc ELSE -1, exp |-> AV, units |-> IF AV = "units" THEN AUnits ELSE <<>>,
             ops |-> ops, len |-> Len(form.enc),
             pre |-> [k \in 1..Len(prog) |-> [label |-> prog[k].label, mn |-> prog[k].mn, args |-> <<prog[k].rhs>>]],
             scen |-> plan.scen, reg |-> plan.lit, pos |-> plan.i]

\* ---- checked by TLC --------------------------------------------------------------------------------------------
\* operational symbol table = declarative meaning of the program text, at every state
SymMeaning == /\ \A e \in sym : e.lit = Denotes(prog, e.name, Len(prog))
              /\ \A e, g \in sym : e.name = g.name => e = g
              /\ \A k \in 1..Len(prog) : Defined(sym, prog[k].label)
\* every planned definition is executable (no behaviour gets stuck before its machine statement)
PlanRuns == /\ Len(prog) < Len(plan.defs) => CanDefine(sym, plan.defs[Len(prog) + 1])
            /\ (Len(prog) = Len(plan.defs)) => Defined(sym, plan.use)
\* the scenario does what it is meant to: after all definitions the used name denotes the planned register
PlanMeaning == (Len(prog) = Len(plan.defs)) => Denotes(prog, plan.use, Len(prog)) = plan.lit
\* a register symbol is transparent: the units are those of the statement written with the denoted literal,
\* and the declarative decoder finds the denoted register in them
Transparent ==
  (ALeaf /\ AV = "units") =>
     LET lit == Denotes(prog, plan.use, Len(prog))
         lo  == [ops EXCEPT ![plan.i] = IndexOf(form.flds[plan.i], lit)]
     IN /\ AUnits = EncodeRaw(form, lo, pc)
        /\ DupFree(form) => Extract(form, AUnits, pc)[plan.i] = Canon(form.flds[plan.i], IndexOf(form.flds[plan.i], lit))
\* a register the form does not have never has an encoding
UnknownIsError == (ALeaf /\ ~Known) => AV = "reject" /\ plan.lit \notin NamesOf(form.flds[plan.i])
ADump == ALeaf => PrintT(<<"OUT", ToJson(AliasOut)>>)
=============================================================================
