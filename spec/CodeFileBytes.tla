---------------------------- MODULE CodeFileBytes ----------------------------
(* Byte level of AS code files: the grammar of doc/file-formats.md as a decoder (Decode) and an encoder*)
(* (Encode); P2Bin works on the abstract items of CodeFile, PBind/PList are judged on real bytes.      *)
(*   file  = $89 $14 record* $00 creator-chars                                                         *)
(*   $80 addr:4                                          entry point                                   *)
(*   $81 cpu seg gran start:4 len:2 data:len             data record, long header                      *)
(*   $01..$7f (= cpu) start:4 len:2 data:len             data record, short header: CODE segment,      *)
(*                                                       granularity implied by the CPU                *)
(* Multi-byte values little endian.  Headers $82..$85 (relocatable records, written by asl only for    *)
(* relocatable segments) are not described by the manual: Decode reports them as outside the grammar.  *)
(* TLC integers are 32 bit: addresses >= 2^30 are reported as outside the model, not decoded.          *)
EXTENDS CodeFile, SequencesExt

Magic == <<137, 20>>
LE2(v) == <<v % 256, (v \div 256) % 256>>
LE4(v) == <<v % 256, (v \div 256) % 256, (v \div 65536) % 256, (v \div 16777216) % 256>>
RdLE2(b, p) == b[p] + 256 * b[p + 1]
RdLE4(b, p) == b[p] + 256 * b[p + 1] + 65536 * b[p + 2] + 16777216 * b[p + 3]      \* caller checks b[p+3] < 64

\* granularity implied by a short header.  The manual only says "implicitly given by the processor type"; the one
\* table in the sources is toolutils.c Granularity(), used by every tool that reads or writes short headers.
ImplicitGran(cpu, seg) ==
  CASE cpu \in {9, 118, 125} -> 4                                        \* $09 $76 $7d
    [] cpu \in {54, 112, 113, 114, 116, 117, 119, 18, 109} -> 2          \* $36 $70 $71 $72 $74 $75 $77 $12 $6d
    [] cpu \in {59, 26, 27, 28, 29} -> IF seg = SegCode THEN 2 ELSE 1    \* $3b AVR, $1a..$1d PDK
    [] OTHER -> 1

\* ---- encoder: items carry a BOOLEAN field `short` chosen by whoever writes the file
CanShort(it) == it.seg = SegCode /\ it.cpu < 128 /\ it.cpu > 0 /\ it.gran = ImplicitGran(it.cpu, it.seg)
EncItem(it) ==
  IF IsEntry(it) THEN <<128>> \o LE4(it.addr)
  ELSE (IF it.short THEN <<it.cpu>> ELSE <<129, it.cpu, it.seg, it.gran>>) \o LE4(it.start) \o LE2(Len(it.data)) \o it.data
Encode(items, creator) == Magic \o FoldLeft(LAMBDA acc, it : acc \o EncItem(it), <<>>, items) \o <<0>> \o creator

\* ---- decoder: [ok, why, items (with `short`), creator]
Bad(why, items) == [ok |-> FALSE, why |-> why, items |-> items, creator |-> <<>>]
RECURSIVE DecodeFrom(_, _, _)
DecodeFrom(b, p, acc) ==
  LET n == Len(b) IN
  IF p > n THEN Bad("no creator record", acc)
  ELSE LET h == b[p] IN
    IF h = 0 THEN [ok |-> TRUE, why |-> "", items |-> acc, creator |-> SubSeq(b, p + 1, n)]
    ELSE IF h = 128 THEN
      IF p + 4 > n THEN Bad("truncated entry record", acc)
      ELSE IF b[p + 4] >= 64 THEN Bad("address outside the model", acc)
      ELSE DecodeFrom(b, p + 5, Append(acc, [k |-> "E", addr |-> RdLE4(b, p + 1)]))
    ELSE IF h = 129 \/ h < 128 THEN
      LET q == IF h = 129 THEN p + 4 ELSE p + 1           \* position of the start address
      IN IF q + 5 > n THEN Bad("truncated record header", acc)
         ELSE IF b[q + 3] >= 64 THEN Bad("address outside the model", acc)
         ELSE LET ln == RdLE2(b, q + 4)
                  cpu == IF h = 129 THEN b[p + 1] ELSE h
                  seg == IF h = 129 THEN b[p + 2] ELSE SegCode
                  gran == IF h = 129 THEN b[p + 3] ELSE ImplicitGran(h, SegCode)
              IN IF q + 5 + ln > n THEN Bad("record longer than the file", acc)
                 ELSE DecodeFrom(b, q + 6 + ln,
                                 Append(acc, [k |-> "D", cpu |-> cpu, seg |-> seg, gran |-> gran, start |-> RdLE4(b, q),
                                              data |-> SubSeq(b, q + 6, q + 5 + ln), short |-> h # 129]))
    ELSE Bad("header byte not described by the manual", acc)

Decode(b) == IF Len(b) < 2 \/ SubSeq(b, 1, 2) # Magic THEN Bad("bad magic", <<>>) ELSE DecodeFrom(b, 3, <<>>)

\* the abstract item (header form forgotten)
Abs(it) == IF IsEntry(it) THEN [k |-> "E", addr |-> it.addr]
           ELSE [k |-> "D", cpu |-> it.cpu, seg |-> it.seg, gran |-> it.gran, start |-> it.start, data |-> it.data]
AbsSeq(items) == [i \in 1..Len(items) |-> Abs(items[i])]

\* a well-formed code file: the grammar above and every record as the manual allows it
WellFormedBytes(b) == LET d == Decode(b) IN d.ok /\ WellFormed(d.items)
=============================================================================
