---------------------------- MODULE NegSpace_MC ----------------------------
(* (M) exhaustive check of the statement machine of NegSpace.tla against the declarative rules of the      *)
(* negative space, for every statement sequence up to MaxLen over a reduced alphabet.                       *)
EXTENDS NegSpace

CONSTANTS MCOps,       \* op names of the alphabet
          MCClasses,   \* argument classes of the varied argument
          MaxLen       \* statements per program

VARIABLES m, n, last, stuck
vars == <<m, n, last, stuck>>

ArgcSet(o) == {k \in {o.lo - 1, o.lo, o.hi + 1, AMAX + 1} : k >= 0 /\ (k <= 3 \/ k = AMAX + 1)} \cup {o.lo}
Alphabet ==
  UNION { UNION { {Stmt(o, k, 0, "ok")} \cup (IF k >= 1 /\ k <= 3 THEN {Stmt(o, k, 1, c) : c \in MCClasses} ELSE {})
                  : k \in ArgcSet(Op(o)) } : o \in MCOps }

Live(x) == x.ifasm /\ ~x.rec.on /\ ~x.fatal /\ ~x.ended /\ ~x.exited

Init == m = InitM /\ n = 0 /\ last = Stmt("ALIGN", 1, 0, "ok") /\ stuck = FALSE
Next == /\ n < MaxLen /\ ~stuck
        /\ \E s \in Alphabet :
             LET O == Outcomes(m, s) IN
               /\ last' = s
               /\ IF O = {} THEN stuck' = TRUE /\ m' = m ELSE stuck' = FALSE /\ m' \in O
        /\ n' = n + 1
Spec == Init /\ [][Next]_vars

(* ---- invariants -------------------------------------------------------------------------------- *)
TypeOK == /\ m.errs \in 0..2 /\ m.work \in 0..MaxWork /\ m.ifasm \in BOOLEAN /\ m.inmac \in 0..8
          /\ \A i \in 1..Len(m.open) : m.open[i].k \in {"if", "sw", "st", "se", "ph", "sv", "ex"}
          /\ m.rec.on => m.rec.nest >= 1

\* the design has no "crash" state: every statement of the alphabet has an outcome in every reachable state
Total == ~stuck

\* the process ends by exit with a documented status, whatever the open constructs are
ExitDocumented == Exit(EndOfFile(m)) \in DocumentedExit

\* status 0 is only possible for a balanced program (declarative: nothing that must be closed is open)
ExitZeroBalanced == Exit(EndOfFile(m)) = 0 => ~m.rec.on /\ \A i \in 1..Len(m.open) : m.open[i].k \in {"ph", "ex"}

\* time proportional to the work the input describes: without a 2^31-fold repetition the number of lines
\* delivered to Produce_Code stays below the saturation bound for every program of the explored size
WorkBounded == m.heavy \/ m.work < MaxWork

(* ---- action properties: the rules of the negative space, checked on every transition (m, last', m') ---- *)
Running(x) == ~x.fatal /\ ~x.ended /\ ~x.exited
S == last'
\* closer without opener: an ErrorStep that is reported; nothing underflows
StrayKinds(s) == CloserKinds(Op(s.op).e) \ {"ph"}      \* DEPHASE without PHASE is accepted by the code
ClosersNeverUnderflow ==
  [][(Live(m) /\ S.argc <= AMAX /\ StrayKinds(S) # {} /\ ~HasOpen(m, StrayKinds(S))) => m' = Err(Tick(m))]_vars
StrayIfClosers ==
  [][(~m.rec.on /\ Running(m) /\ S.argc <= AMAX /\ Op(S.op).e \in {"else", "case", "if-", "sw-"}
      /\ ~HasOpen(m, {"if", "sw"})) => m' = Err(Tick(m))]_vars
\* wrong argument count of a live pseudo / data / function statement: ErrorStep, exactly one more error
ArgCountIsErrorStep ==
  [][(Live(m) /\ S.argc <= AMAX /\ ArgcBad(S) /\ (Op(S.op).g \in {"ps", "da"} \/ (Op(S.op).g = "fn" /\ S.argc > 0)))
       => m' = Err(Tick(m))]_vars
\* a skipped statement outside the IF / macro machinery has no effect at all, whatever its arguments are
SkippedInert ==
  [][(~m.ifasm /\ ~m.rec.on /\ Running(m) /\ S.argc <= AMAX
      /\ Op(S.op).g \in {"ps", "da", "fn", "bo", "call", "me"}) => m' = Tick(m)]_vars
\* a line swallowed by a recorder reports nothing and touches no stack
RecordedInert ==
  [][(m.rec.on /\ Running(m) /\ S.argc <= AMAX /\ ~IsMacroEnd(S))
       => m'.open = m.open /\ m'.errs = m.errs /\ m'.rec.on]_vars
\* a single (non expanding) step either is an ErrorStep or changes the nesting state by the statement's
\* defined effect: at most one push, or the removal of one construct, or the recorder / flags
OneEffect(a, b) ==
  \/ Len(b.open) = Len(a.open) + 1 /\ SubSeq(b.open, 1, Len(a.open)) = a.open
  \/ Len(b.open) = Len(a.open) - 1 /\ \E i \in 1..Len(a.open) : b.open = RemoveAt(a.open, i)
  \/ b.open = a.open
StepRule == [][(m'.work = m.work + 1 /\ ~m.rec.on /\ S.argc <= AMAX) => (ErrorStep(Tick(m), m') \/ OneEffect(m, m'))]_vars
ErrsMonotone == [][m'.errs >= m.errs]_vars
=============================================================================
