\* Reference configuration (family "main", quick, repaired design).  checks/c20.py runs every family
\* ("main", "incl", "after", "expect", "expecthist") twice: Fixed = all six names (invariants only) and Fixed = {} with Dump (expectations
\* for the replay; the invariants then hold for every job without a fired deviation).
\* MaxNum = 2200: message numbers appear as number tokens in EXPECT statements.
CONSTANTS Fixed = {"EmptyBodyPop", "IrpcEmptyOnce", "TokenStraddle", "ShiftExcess", "IrpPosNext", "IrpDoubleCleanup", "AllArgsLeadingEmpty"}
          HasAttrs = FALSE MaxNum = 2200 Family = "main" Tier = "quick"
INIT Init
NEXT Next
INVARIANTS PositionIsPlanted NoCleanLineNamed PositionsIdentify ExpectExact ExpectProtocol PendingEmptyOutside
CHECK_DEADLOCK FALSE
