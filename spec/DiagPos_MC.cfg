CONSTANTS Fixed = {"EmptyBodyPop", "IrpcEmptyOnce", "TokenStraddle", "ShiftExcess", "IrpPosNext", "IrpDoubleCleanup"}
          HasAttrs = FALSE MaxNum = 2200 Family = "main" Tier = "quick"
INIT Init
NEXT Next
INVARIANTS PositionIsPlanted NoCleanLineNamed PositionsIdentify ExpectExact ExpectProtocol
CHECK_DEADLOCK FALSE
