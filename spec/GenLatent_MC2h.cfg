\* the tree as it is: XChanged (cur) is never reset by InitCode_166, N_XChanged (nxt) and the modes are
CONSTANTS
 Haz = {"cp", "sp"}
 Fams = {"a", "b"}
 Leak = {"cur"}
 MaxFiles = 2
 MaxLen = 2
INIT Init
NEXT Next
INVARIANT Indep
INVARIANT ExitOK
INVARIANT TailHead
CHECK_DEADLOCK FALSE
