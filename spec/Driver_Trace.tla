---------------------------- MODULE Driver_Trace ----------------------------
(* Trace validation of real assembler runs against Diag.tla / Driver.tla.                                   *)
(*                                                                                                          *)
(* Events (hook records of as.c / asmerr.c, reformatted only; one execution = one process):                 *)
(*   RUN      [werror, maxerr, suppw]          the options the harness started the process with            *)
(*   FILE     [ifasm, ifd, tagd, rec, svd, std, sed]   file_begin snapshot (taken BEFORE InitPass)          *)
(*   PASS     [pass, seg, pc, ifasm, cpu]      pass_begin (after AssembleFile_InitPass)                     *)
(*   DIAG     [num, cls, errs, warns]          diag: WrXErrorPos after EXPECT / -w filtering, counters      *)
(*                                             *before* counting; cls = "expected" for a consumed one      *)
(*   USER     [op, errs]                       a WARNING/ERROR/FATAL statement was executed (stmt event;    *)
(*                                             these bypass WrXErrorPos and have no diag record), errs =    *)
(*                                             ErrorCount after the statement                              *)
(*   LAST     [rec, std, sed]                  projection of the last stmt event of the pass                *)
(*   PASSEND  [pass, repass, errs, warns, ifd, tagd]                                                        *)
(*   FILEEND  [passes, errs, warns, kept]                                                                   *)
(*   EXIT     [rc, kept]                       wait status and, per FILE event, whether its code file       *)
(*                                             exists after the process ended (observed from outside)      *)
(*                                                                                                          *)
(* The specification replays the counter protocol with *unbounded* counters (Wrap = 0) and accepts the      *)
(* trace iff every logged counter, class, loop decision, keep/unlink decision and the exit status are the   *)
(* ones Diag/Driver prescribe.  Freshness (C18): every PASS event of a process shows the state of the       *)
(* first one; a FILE snapshot shows ifasm = 1, no SAVE stack, no input tag, and in the stale pointers       *)
(* exactly what the previous file left behind (StaleUntilInitPass).                                         *)
EXTENDS Driver, TLC, Json, IOUtils

VARIABLES l, ph, o, d, glob, keptq, cur, pass1, lastpe, resid, lastst, prevdiag
vars == <<l, ph, o, d, glob, keptq, cur, pass1, lastpe, resid, lastst, prevdiag>>

TraceLog == ndJsonDeserialize(IOEnv.TRACE)

NoPass == [seg |-> 0, pc |-> 0, ifasm |-> 0, cpu |-> 0, set |-> FALSE]
NoLast == [rec |-> 0, std |-> 0, sed |-> 0]
DefaultOpts == [werror |-> FALSE, maxerr |-> 0, suppw |-> FALSE, codeout |-> TRUE, throw |-> FALSE]

TInit == /\ l = 1 /\ ph = "idle" /\ o = DefaultOpts /\ d = InitD /\ glob = FALSE /\ keptq = <<>> /\ cur = 0
         /\ pass1 = NoPass /\ lastpe = [repass |-> FALSE, ifd |-> 0] /\ resid = NoResidue /\ lastst = NoLast
         /\ prevdiag = FALSE

Keep == UNCHANGED <<o, d, glob, keptq, cur, pass1, lastpe, resid, lastst>>

Reset == /\ ph' = "idle" /\ o' = DefaultOpts /\ d' = InitD /\ glob' = FALSE /\ keptq' = <<>> /\ cur' = 0
         /\ pass1' = NoPass /\ lastpe' = [repass |-> FALSE, ifd |-> 0] /\ resid' = NoResidue /\ lastst' = NoLast
         /\ prevdiag' = FALSE

Run(e) == /\ ph = "idle" /\ ph' = "run"
          /\ o' = [werror |-> e.werror, maxerr |-> e.maxerr, suppw |-> e.suppw, codeout |-> TRUE, throw |-> FALSE]
          /\ prevdiag' = FALSE
          /\ UNCHANGED <<d, glob, keptq, cur, pass1, lastpe, resid, lastst>>

\* AssembleFile entry: AsmDefInit / AsmParsInit / AsmIFInit have run, AssembleFile_InitPass has not
File(e) == /\ ph = "run" /\ ph' = "file"
           /\ e.ifasm = 1 /\ e.svd = 0 /\ e.tagd = 0
           /\ e.ifd = resid.ifd /\ e.rec = resid.rec /\ e.std = resid.std /\ e.sed = resid.sed
           /\ cur' = cur + 1 /\ keptq' = Append(keptq, FALSE) /\ prevdiag' = FALSE
           /\ UNCHANGED <<o, d, glob, pass1, lastpe, resid, lastst>>

\* AssembleFile_InitPass + AsmErrPassInit: everything starts from the state of a fresh process
Pass(e) == /\ ph \in {"file", "passend"}
           /\ ph = "passend" => (lastpe.repass /\ d.err = 0)         \* the do-while condition held
           /\ ph' = "pass" /\ d' = PassInit
           /\ IF pass1.set THEN /\ e.seg = pass1.seg /\ e.pc = pass1.pc /\ e.ifasm = pass1.ifasm /\ e.cpu = pass1.cpu
                                /\ pass1' = pass1
              ELSE /\ e.ifasm = 1 /\ e.pc = 0
                   /\ pass1' = [seg |-> e.seg, pc |-> e.pc, ifasm |-> e.ifasm, cpu |-> e.cpu, set |-> TRUE]
           /\ keptq' = [keptq EXCEPT ![cur] = TRUE]                   \* OpenFile() created the code file
           /\ lastst' = NoLast /\ prevdiag' = FALSE
           /\ UNCHANGED <<o, glob, cur, lastpe, resid>>

Dead(dd) == IF dd.fatal THEN "dead" ELSE "pass"

Diagn(e) == /\ ph = "pass"
            /\ IF e.cls = "expected" THEN d' = d /\ ph' = ph
               ELSE /\ ~(o.suppw /\ IsWarnNum(e.num))                  \* -w returns before the hook
                    /\ e.cls = Classify(o, e.num)
                    /\ e.errs = d.err /\ e.warns = d.warn              \* counters before counting, unbounded
                    /\ d' = WrErrorString(o, d, IsWarnNum(e.num), IsFatalNum(e.num))
                    /\ ph' = Dead(d')
            /\ prevdiag' = TRUE
            /\ UNCHANGED <<o, glob, keptq, cur, pass1, lastpe, resid, lastst>>

UserOp(e) == /\ ph = "pass"
             /\ \E c \in ({CASE e.op = "WARNING" -> UserWARNING(o, d)
                             [] e.op = "ERROR"   -> UserERROR(o, d)
                             [] e.op = "FATAL"   -> UserFATAL(o, d)}
                          \cup (IF prevdiag THEN {d} ELSE {})) :       \* the statement itself was faulty
                   /\ c.err = e.errs /\ d' = c /\ ph' = Dead(c)
             /\ prevdiag' = FALSE
             /\ UNCHANGED <<o, glob, keptq, cur, pass1, lastpe, resid, lastst>>

Last(e) == /\ ph = "pass" /\ lastst' = [rec |-> e.rec, std |-> e.std, sed |-> e.sed] /\ ph' = ph /\ prevdiag' = prevdiag
           /\ UNCHANGED <<o, d, glob, keptq, cur, pass1, lastpe, resid>>

PassEnd(e) == /\ ph = "pass" /\ ph' = "passend"
              /\ e.errs = d.err /\ e.warns = d.warn /\ e.tagd = 0
              /\ lastpe' = [repass |-> e.repass = 1, ifd |-> e.ifd] /\ prevdiag' = FALSE
              /\ UNCHANGED <<o, d, glob, keptq, cur, pass1, resid, lastst>>

FileEnd(e) == /\ ph = "passend" /\ ~(lastpe.repass /\ d.err = 0) /\ ph' = "run"
              /\ e.errs = d.err /\ e.warns = d.warn
              /\ e.kept = (IF d.err = 0 THEN 1 ELSE 0)
              /\ glob' = (glob \/ d.err # 0)
              /\ keptq' = [keptq EXCEPT ![cur] = (d.err = 0)]
              /\ resid' = [ifd |-> lastpe.ifd, rec |-> lastst.rec, std |-> lastst.std, sed |-> lastst.sed]
              /\ prevdiag' = FALSE
              /\ UNCHANGED <<o, d, cur, pass1, lastpe, lastst>>

\* the process ended: status and code files as C02 demands
\* (SilentUserFatal: a FATAL statement, or an ERROR statement reaching -maxerrors, exits inside the statement, so
\*  neither a diag nor a stmt record exists for it: an EXIT with status 3 directly from inside a pass is allowed)
Exit(e) == /\ ph \in {"run", "dead", "pass"} /\ ph' = "exited"
           /\ IF ph \in {"dead", "pass"} THEN /\ e.rc = 3
                                  /\ e.kept = [keptq EXCEPT ![cur] = FALSE]    \* EmergencyStop unlinks it
              ELSE /\ e.rc = (IF glob THEN 2 ELSE 0) /\ e.kept = keptq
           /\ prevdiag' = FALSE /\ Keep

TNext == /\ l <= Len(TraceLog) /\ l' = l + 1
         /\ LET e == TraceLog[l] IN
              CASE e.a = "RESET"   -> Reset
                [] e.a = "RUN"     -> Run(e)
                [] e.a = "FILE"    -> File(e)
                [] e.a = "PASS"    -> Pass(e)
                [] e.a = "DIAG"    -> Diagn(e)
                [] e.a = "USER"    -> UserOp(e)
                [] e.a = "LAST"    -> Last(e)
                [] e.a = "PASSEND" -> PassEnd(e)
                [] e.a = "FILEEND" -> FileEnd(e)
                [] e.a = "EXIT"    -> Exit(e)

TSpec == TInit /\ [][TNext]_vars
Accepted == TLCGet("stats").diameter - 1 = Len(TraceLog)
=============================================================================
