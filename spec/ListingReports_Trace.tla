------------------------- MODULE ListingReports_Trace -------------------------
(* (V) The report sections of real listings, tokenised (vlib/listreports.py), judged against the hook trace of   *)
(* the same run.  The first part of a run's events replays what the assembler did - one event per hook record,  *)
(* all passes - through the operators of ListingReports.tla, exactly as the code keeps its books:                *)
(*   CASE    [strict, L, W]                    a new run; strict = a generated program (every look-up is a hook    *)
(*                                             event, no NEWPAGE); L, W = page length / width in force (-1: no    *)
(*                                             page judgement)                                                    *)
(*   PASS                                      pass_begin: usage, references, include list, macros restart          *)
(*                                             (ClearUseList / ClearCrossList / ...), definition sites stay        *)
(*   LINE    [d]                               a line was fetched at input-tag depth d: deeper tags have ended      *)
(*   STMT    [op, lab, arg, tagd, rec0, ifasm, derr]   a statement ran (split + stmt hook): INCLUDE pushes a file   *)
(*                                             tag, SECTION / ENDSECTION / MACRO / FUNCTION keep their lists;        *)
(*                                             also closes the statement: overlap warnings seen = overlaps          *)
(*   DEF     [name, sect, line, typ, val, mod] sym_def / sym_mod: first site (file from the tag stack, line)        *)
(*   REF     [name, sect, line]                sym_ref: AddRef at (current file, line)                              *)
(*   CHUNK   [kind, seg, addr, n]              emit / reserve / retract in address units                            *)
(*   (decl = the integer values of the symbols a pass defines: SFR, PORT ... book their address, CodeEquate())       *)
(*   WARN90                                    diag event number 90 "overlapping memory usage"                     *)
(* and the second part are the reports, each judged against the state reached (OK below):                          *)
(*   SYMTAB [names]   USE [seg, items]  USEEND   IMAGE [seg, items] (parsed code file)                               *)
(*   XSYM [name, sect, dfile, dline, val]  XREF [file, line, n]  XEND                                               *)
(*   SECTS [lines]  MACROS [names, count]  FUNCS [names]  REGS [names]  INCS [lines]  PAGES [pages]                 *)
(* A verdict is "ok", "bad" (the manual / the property states the opposite), "drift" (the model's finer            *)
(* prediction differs where the manual is silent) or "extra" (more uses listed than look-ups recorded: IFDEF,       *)
(* DEFINED() and friends reference a symbol without the hooked look-up; counted, not judged).                       *)
EXTENDS ListingReports, TLC, Json, IOUtils

VARIABLES l, cs, tags, files, defs, refs, use, usee, decl, pend, sl, macs, funs, incs, rec0, xcur, xseen, xdone, shown, symtab, bad
vars == <<l, cs, tags, files, defs, refs, use, usee, decl, pend, sl, macs, funs, incs, rec0, xcur, xseen, xdone, shown, symtab, bad>>
TraceLog == ndJsonDeserialize(IOEnv.TRACE)

NSEG == 12
EmptyF == [x \in {} |-> 0]
NoKey == <<"", -9>>
Pend0 == [warn |-> 0, ov |-> 0]
TInit == /\ l = 1 /\ cs = [strict |-> FALSE, L |-> -1, W |-> -1, on |-> FALSE] /\ tags = <<>> /\ files = <<>>
         /\ defs = EmptyF /\ refs = EmptyF /\ use = [s \in 1..NSEG |-> <<>>] /\ usee = [s \in 1..NSEG |-> <<>>] /\ decl = {}
         /\ pend = Pend0 /\ sl = Sect0 /\ macs = {} /\ funs = {} /\ incs = <<>> /\ rec0 = 0
         /\ xcur = NoKey /\ xseen = {} /\ xdone = {} /\ shown = [s \in 1..NSEG |-> <<>>] /\ symtab = {} /\ bad = <<>>

\* ---- bookkeeping ---------------------------------------------------------------------------------------------
CurFile == LET F == {i \in 1..Len(tags) : tags[i] # ""} IN
           IF F = {} THEN "INTERNAL" ELSE tags[CHOOSE i \in F : \A j \in F : j <= i]
FileDepth == Cardinality({i \in 1..Len(tags) : tags[i] # ""})
PopTo(d) == IF d < Len(tags) THEN SubSeq(tags, 1, d) ELSE tags
Executed(e) == e.rec0 = 0 /\ e.ifasm = 1 /\ e.derr = 0
MacName(e) == IF e.lab # "" THEN e.lab ELSE e.arg
Put(f, k, v) == IF k \in DOMAIN f THEN [f EXCEPT ![k] = v] ELSE f @@ (k :> v)
Get(f, k, d) == IF k \in DOMAIN f THEN f[k] ELSE d

DoPass(e) == /\ tags' = <<e.file>> /\ files' = AddFile(files, e.file)
             /\ refs' = EmptyF /\ use' = [s \in 1..NSEG |-> <<>>] /\ usee' = [s \in 1..NSEG |-> <<>>] /\ pend' = Pend0 /\ decl' = {}
             /\ sl' = [sl EXCEPT !.mom = -1, !.stk = <<>>] /\ macs' = {} /\ funs' = {} /\ incs' = <<[d |-> 0, f |-> e.file]>>
             /\ rec0' = 0 /\ UNCHANGED <<defs>>
DoStmt(e) ==
  LET ex == Executed(e) IN
  /\ tags' = IF e.tagd > Len(tags) THEN Append(tags, IF e.op = "INCLUDE" /\ ex THEN e.arg ELSE "") ELSE tags
  /\ files' = IF e.op = "INCLUDE" /\ ex /\ e.tagd > Len(tags) THEN AddFile(files, e.arg) ELSE files
  /\ incs' = IF e.op = "INCLUDE" /\ ex /\ e.tagd > Len(tags) THEN Append(incs, [d |-> FileDepth, f |-> e.arg]) ELSE incs
  /\ sl' = IF ~ex THEN sl ELSE IF e.op = "SECTION" THEN SectEnter(sl, e.arg) ELSE IF e.op = "ENDSECTION" THEN SectLeave(sl) ELSE sl
  /\ macs' = IF ex /\ e.op = "MACRO" THEN macs \cup {[n |-> MacName(e), s |-> SectName(sl, sl.mom)]} ELSE macs
  /\ funs' = IF ex /\ e.op = "FUNCTION" THEN funs \cup {e.lab} ELSE funs
  /\ rec0' = e.rec /\ pend' = Pend0
  /\ UNCHANGED <<defs, refs, use, usee, decl>>
DoDef(e) ==
  LET k == <<e.name, e.sect>>
      site == [f |-> CurFile, l |-> e.line]
      old == Get(defs, k, [first |-> site, sites |-> {}, val |-> "", typ |-> 0])
  IN /\ decl' = IF e.ival >= 0 THEN decl \cup {e.ival} ELSE decl           \* SFR, PORT, ...: CodeEquate() books the address
     /\ defs' = Put(defs, k, [first |-> old.first, sites |-> IF e.mod = 1 THEN old.sites ELSE old.sites \cup {site},     \* sym_mod: value only
                              val |-> e.val, typ |-> e.typ])
DoRef(e) == LET k == <<e.name, e.sect>> IN
            refs' = Put(refs, k, AddRef(Get(refs, k, <<>>), FileNum(files, CurFile), e.line))
DoChunk(e) ==
  IF e.kind = "retract"
  THEN /\ use' = [use EXCEPT ![e.seg] = DeleteChunkFixed(@, e.addr, e.n)]       \* what is true, not what chunks.c keeps
       /\ usee' = [usee EXCEPT ![e.seg] = DeleteChunkFixed(@, e.addr, e.n)] /\ UNCHANGED pend
  ELSE LET r == AddChunk(use[e.seg], e.addr, e.n, e.seg = 1) IN
       /\ use' = [use EXCEPT ![e.seg] = r.cl]
       /\ usee' = IF e.kind = "emit" THEN [usee EXCEPT ![e.seg] = AddChunk(@, e.addr, e.n, FALSE).cl] ELSE usee
       /\ pend' = [pend EXCEPT !.ov = @ + (IF r.res THEN 1 ELSE 0)]

\* ---- judgement ---------------------------------------------------------------------------------------------
V(sev, why) == [sev |-> sev, why |-> why]
Fine == V("ok", "")
Pair(q) == <<q[1], q[2]>>
Items(js) == [i \in 1..Len(js) |-> Pair(js[i])]
RefN(rl, f, ln) == LET k == FirstIdx({i \in 1..Len(rl) : rl[i].f = f /\ rl[i].l = ln}) IN IF k = 0 THEN 0 ELSE rl[k].n
CloseSym == xcur = NoKey \/ \A i \in 1..Len(refs[xcur]) : <<refs[xcur][i].f, refs[xcur][i].l>> \in xseen
IsGlobal(k) == cs.strict \/ <<k[1], SectName(sl, k[2])>> \in symtab
XKeys(e) == {k \in DOMAIN refs : k[1] = e.name /\ SectName(sl, k[2]) = e.sect /\ k \notin xdone /\ refs[k] # <<>>
                                 /\ (e.sect # "" => k[2] >= 0) /\ (e.sect = "" => k[2] = -1)}
XKey(e) == IF XKeys(e) = {} THEN NoKey ELSE CHOOSE k \in XKeys(e) : \A j \in XKeys(e) : k[2] <= j[2]

JudgeStmt == IF pend.warn = pend.ov THEN Fine
             ELSE IF pend.warn < pend.ov THEN V("bad", "a statement occupies an address that is occupied already, no warning 90")
             ELSE V("bad", "warning 90 (overlapping memory usage) but the statement meets no occupied address")
\* a..b lies in the union of the ascending areas xs
RECURSIVE CoveredBy(_, _, _)
CoveredBy(a, b, xs) == LET J == {j \in 1..Len(xs) : xs[j][1] <= a /\ a <= xs[j][2]} IN
                       IF J = {} THEN FALSE
                       ELSE LET j == CHOOSE j \in J : TRUE IN IF xs[j][2] >= b THEN TRUE ELSE CoveredBy(xs[j][2] + 1, b, xs)
AllCovered(xs, ys) == \A i \in 1..Len(xs) : CoveredBy(xs[i][1], xs[i][2], ys)
\* some address of the listed areas is neither occupied by an emission / reservation of the final pass nor declared
\* (an area reaching more than 65536 addresses beyond the occupied ones counts as not explained)
Unexplained(it, all) ==
  \E i \in 1..Len(it) : /\ ~CoveredBy(it[i][1], it[i][2], all)
                         /\ \/ it[i][2] - it[i][1] > 65536
                            \/ \E x \in it[i][1]..it[i][2] : x \notin decl /\ ~CoveredBy(x, x, all)
JudgeUse(e) ==
  LET it == Items(e.items) all == UsageItems(use[e.seg]) em == UsageItems(usee[e.seg]) IN
  IF it = all THEN Fine
  ELSE IF ~Ascending(it) THEN V("bad", "usage list: areas not ascending")
  ELSE IF ~AllCovered(em, it) THEN V("bad", "usage list: an address that holds code is not listed as occupied")
  ELSE IF Unexplained(it, all) THEN V("bad", "usage list: an address is listed as occupied that no statement occupies or declares")
  ELSE IF ~AllCovered(all, it) THEN V("drift", "usage list: a reserved area is not listed (the statement does no BookKeeping)")
  ELSE IF \E i \in 1..(Len(it) - 1) : it[i][2] + 1 = it[i + 1][1] THEN V("drift", "usage list: adjacent areas are not merged")
  ELSE Fine                    \* plus addresses declared by SFR / PORT ... (codepseudo.c CodeEquate books them)
JudgeUseEnd ==
  IF \E s \in 1..NSEG : usee[s] # <<>> /\ shown[s] = <<>> THEN V("bad", "usage list: a segment that holds code has no list")
  ELSE IF \E s \in 1..NSEG : use[s] # <<>> /\ shown[s] = <<>> THEN V("drift", "usage list: a segment with reservations only has no list")
  ELSE Fine
JudgeImage(e) ==
  LET it == Items(e.items) IN
  IF it # UsageItems(usee[e.seg]) THEN V("bad", "code file: the addresses its records hold differ from the emissions of the final pass")
  ELSE IF ~AllCovered(it, shown[e.seg]) THEN V("bad", "usage list: the code file holds code at an address that is not listed as occupied")
  ELSE Fine
JudgeXSym(e) ==
  IF ~CloseSym THEN V("bad", "cross reference: a use of the previous symbol is not listed")
  ELSE LET k == XKey(e) IN
       IF k = NoKey THEN (IF cs.strict THEN V("bad", "cross reference: lists a symbol that was never looked up") ELSE V("extra", "symbol without recorded look-up"))
       ELSE IF k \notin DOMAIN defs THEN V("drift", "cross reference: no definition recorded for the symbol")
       ELSE LET d == defs[k] site == [f |-> e.dfile, l |-> e.dline] IN
            IF site \notin d.sites THEN V("bad", "cross reference: the definition site is not a place where the symbol is defined")
            ELSE IF e.val # "" /\ d.typ = 1 /\ d.val # "" /\ e.val # d.val THEN V("bad", "cross reference: value differs from the symbol's final value")
            ELSE IF site # d.first THEN V("drift", "cross reference: definition site is not the first definition")
            ELSE Fine
JudgeXRef(e) ==
  IF xcur = NoKey THEN (IF cs.strict THEN V("bad", "cross reference: use listed for a symbol that was never looked up") ELSE V("extra", ""))
  ELSE LET c == RefN(refs[xcur], FileNum(files, e.file), e.line) IN
       IF e.n = c THEN Fine
       ELSE IF e.n < c THEN V("bad", "cross reference: fewer uses listed than look-ups in that line")
       ELSE IF cs.strict THEN V("bad", "cross reference: more uses listed than look-ups in that line")
       ELSE V("extra", "")
JudgeXEnd ==
  IF ~CloseSym THEN V("bad", "cross reference: a use of the last symbol is not listed")
  ELSE IF \E k \in DOMAIN refs : refs[k] # <<>> /\ k \notin xdone /\ IsGlobal(k)
       THEN V("bad", "cross reference: a symbol that was used is missing") ELSE Fine
SLines(js) == [i \in 1..Len(js) |-> [ind |-> js[i][1], name |-> js[i][2]]]
JudgeSects(e) ==
  LET ls == SLines(e.lines) IN
  IF PathsOfLines(ls) # {SectPath(sl.list, h) : h \in 0..(Len(sl.list) - 1)}
  THEN V("bad", "section list: the indented list is not the tree of the sections the program opened")
  ELSE IF ls # SectionLines(sl) THEN V("drift", "section list: order differs from PrintSectionList") ELSE Fine
NameSet(js) == {js[i][1] : i \in 1..Len(js)}
\* "?" = a name built by {symbol} expansion, which the statement text does not show: then only the readable names are required
JudgeMacros(e) ==
  LET known == {x.n : x \in macs} \ {"?"} IN
  IF "?" \in {x.n : x \in macs} THEN (IF known \subseteq NameSet(e.names) /\ Len(e.names) >= Cardinality({x.n : x \in macs})
                                      THEN Fine ELSE V("bad", "macro list: a macro the program defines is missing"))
  ELSE IF NameSet(e.names) # known THEN V("bad", "macro list: not the macros the program defines")
  ELSE IF e.count # Len(e.names) THEN V("bad", "macro list: the count line contradicts the list")
  ELSE IF {<<e.names[i][1], e.names[i][2]>> : i \in 1..Len(e.names)} # {<<x.n, x.s>> : x \in macs} THEN V("drift", "macro list: section attribute differs")
  ELSE Fine
JudgeFuncs(e) == IF "?" \in funs THEN (IF (funs \ {"?"}) \subseteq SeqToSet(e.names) THEN Fine ELSE V("bad", "function list: a function the program defines is missing"))
                 ELSE IF SeqToSet(e.names) # funs THEN V("bad", "function list: not the functions the program defines") ELSE Fine
RegKeys == {k \in DOMAIN defs : defs[k].typ = 8}
JudgeRegs(e) ==
  IF NameSet(e.names) # {k[1] : k \in RegKeys} THEN V("bad", "register symbol list: not the register symbols the program defines") ELSE Fine
JudgeIncs(e) ==
  IF [i \in 1..Len(e.lines) |-> [d |-> e.lines[i][1], f |-> e.lines[i][2]]] # incs
  THEN V("drift", "include nesting list differs from the INCLUDE statements executed") ELSE Fine
JudgePages(e) ==
  LET ps == e.pages IN
  IF cs.L < 0 THEN Fine
  ELSE IF cs.W > 0 /\ \E p \in 1..Len(ps) : ps[p].maxw > cs.W THEN V("bad", "page layout: a line is wider than the page width")
  ELSE IF cs.L > 0 /\ \E p \in 1..Len(ps) : ps[p].n > cs.L THEN V("bad", "page layout: a page holds more lines than the page length")
  ELSE IF cs.strict /\ cs.L > 0 /\ \E p \in 1..(Len(ps) - 1) : ~ps[p].forced /\ ps[p].n # cs.L
       THEN V("bad", "page layout: form feed before the page is full")
  ELSE IF cs.L = 0 /\ \E p \in 1..(Len(ps) - 1) : ~ps[p].forced THEN V("bad", "page layout: automatic form feed with page length 0")
  ELSE Fine

Judge(e) ==
  CASE e.a = "STMT" -> JudgeStmt
    [] e.a = "USE" -> JudgeUse(e) [] e.a = "USEEND" -> JudgeUseEnd [] e.a = "IMAGE" -> JudgeImage(e)
    [] e.a = "XSYM" -> JudgeXSym(e) [] e.a = "XREF" -> JudgeXRef(e) [] e.a = "XEND" -> JudgeXEnd
    [] e.a = "SECTS" -> JudgeSects(e) [] e.a = "MACROS" -> JudgeMacros(e) [] e.a = "FUNCS" -> JudgeFuncs(e)
    [] e.a = "REGS" -> JudgeRegs(e) [] e.a = "INCS" -> JudgeIncs(e) [] e.a = "PAGES" -> JudgePages(e)
    [] OTHER -> Fine

Known == {"RESET", "CASE", "PASS", "LINE", "STMT", "DEF", "REF", "CHUNK", "WARN90", "SYMTAB", "USE", "USEEND", "IMAGE",
          "XSYM", "XREF", "XEND", "SECTS", "MACROS", "FUNCS", "REGS", "INCS", "PAGES"}
TNext ==
  /\ l <= Len(TraceLog) /\ l' = l + 1
  /\ LET e == TraceLog[l] v == IF e.a \in Known /\ (cs.on \/ e.a \in {"RESET", "CASE"}) THEN Judge(e) ELSE V("bad", "event out of protocol") IN
     /\ bad' = IF v.sev = "ok" THEN bad ELSE Append(bad, [l |-> l, sev |-> v.sev, why |-> v.why])
     /\ CASE e.a = "RESET" ->
               /\ cs' = [cs EXCEPT !.on = FALSE] /\ tags' = <<>> /\ files' = <<>> /\ defs' = EmptyF /\ refs' = EmptyF
               /\ use' = [s \in 1..NSEG |-> <<>>] /\ usee' = [s \in 1..NSEG |-> <<>>] /\ decl' = {} /\ pend' = Pend0 /\ sl' = Sect0
               /\ macs' = {} /\ funs' = {} /\ incs' = <<>> /\ rec0' = 0 /\ xcur' = NoKey /\ xseen' = {} /\ xdone' = {}
               /\ shown' = [s \in 1..NSEG |-> <<>>] /\ symtab' = {}
          [] e.a = "CASE" -> /\ cs' = [strict |-> e.strict, L |-> e.L, W |-> e.W, on |-> TRUE]
                             /\ UNCHANGED <<tags, files, defs, refs, use, usee, decl, pend, sl, macs, funs, incs, rec0, xcur, xseen, xdone, shown, symtab>>
          [] e.a = "PASS" -> DoPass(e) /\ UNCHANGED <<cs, xcur, xseen, xdone, shown, symtab>>
          [] e.a = "LINE" -> tags' = PopTo(e.d) /\ UNCHANGED <<cs, files, defs, refs, use, usee, decl, pend, sl, macs, funs, incs, rec0, xcur, xseen, xdone, shown, symtab>>
          [] e.a = "STMT" -> DoStmt(e) /\ UNCHANGED <<cs, xcur, xseen, xdone, shown, symtab>>
          [] e.a = "DEF" -> DoDef(e) /\ UNCHANGED <<cs, tags, files, refs, use, usee, pend, sl, macs, funs, incs, rec0, xcur, xseen, xdone, shown, symtab>>
          [] e.a = "REF" -> DoRef(e) /\ UNCHANGED <<cs, tags, files, defs, use, usee, decl, pend, sl, macs, funs, incs, rec0, xcur, xseen, xdone, shown, symtab>>
          [] e.a = "CHUNK" -> DoChunk(e) /\ UNCHANGED <<cs, tags, files, defs, refs, decl, sl, macs, funs, incs, rec0, xcur, xseen, xdone, shown, symtab>>
          [] e.a = "WARN90" -> pend' = [pend EXCEPT !.warn = @ + 1] /\ UNCHANGED <<cs, tags, files, defs, refs, use, usee, decl, sl, macs, funs, incs, rec0, xcur, xseen, xdone, shown, symtab>>
          [] e.a = "SYMTAB" -> symtab' = {<<e.names[i][1], e.names[i][2]>> : i \in 1..Len(e.names)}
                               /\ UNCHANGED <<cs, tags, files, defs, refs, use, usee, decl, pend, sl, macs, funs, incs, rec0, xcur, xseen, xdone, shown>>
          [] e.a = "USE" -> shown' = [shown EXCEPT ![e.seg] = Items(e.items)]
                            /\ UNCHANGED <<cs, tags, files, defs, refs, use, usee, decl, pend, sl, macs, funs, incs, rec0, xcur, xseen, xdone, symtab>>
          [] e.a = "XSYM" -> /\ xcur' = XKey(e) /\ xseen' = {} /\ xdone' = IF XKey(e) = NoKey THEN xdone ELSE xdone \cup {XKey(e)}
                             /\ UNCHANGED <<cs, tags, files, defs, refs, use, usee, decl, pend, sl, macs, funs, incs, rec0, shown, symtab>>
          [] e.a = "XREF" -> /\ xseen' = xseen \cup {<<FileNum(files, e.file), e.line>>}
                             /\ UNCHANGED <<cs, tags, files, defs, refs, use, usee, decl, pend, sl, macs, funs, incs, rec0, xcur, xdone, shown, symtab>>
          [] e.a = "XEND" -> /\ xcur' = NoKey /\ xseen' = {}
                             /\ UNCHANGED <<cs, tags, files, defs, refs, use, usee, decl, pend, sl, macs, funs, incs, rec0, xdone, shown, symtab>>
          [] OTHER -> UNCHANGED <<cs, tags, files, defs, refs, use, usee, decl, pend, sl, macs, funs, incs, rec0, xcur, xseen, xdone, shown, symtab>>
Consumed == TLCGet("stats").diameter - 1 = Len(TraceLog)
Report == IF l > Len(TraceLog) THEN PrintT(<<"OUT", ToJson([bad |-> bad, n |-> Len(TraceLog)])>>) ELSE TRUE
Accepted == Consumed
View == l
=============================================================================
