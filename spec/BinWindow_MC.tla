---------------------------- MODULE BinWindow_MC ----------------------------
(* (M) BinWindow_MC.cfg: every case of the grid (file sizes 0 1 6 255 256 257 600 1030; offset omitted, 0, 1, n-1,   *)
(* n, n+1, -1, 256; length omitted, 0, 1, 2, up to the end -1/0/+1, n, 255..257, 513, -1, -2; statement at address 0 *)
(* or 1): operator = declarative where the manual is definite, EmptyWindowAtZero the only deviation, chunks <= 256,  *)
(* consistent with MacroProc.BinWindow.  BinWindow_MC_fixed.cfg: with the repair no deviation.  BinWindow_MC_dev.cfg: *)
(* TLC must refute NoDeviation (also shown by the witness W0 below).  (G) the same run prints (Dump) every case with the code image the manual promises and *)
(* the one the code as it is produces, for a byte target (Z80) and a word-granular target (TMS32010).                *)
EXTENDS BinWindow, Json

LE16(v) == <<v % 256, (v \div 256) % 256>>
\* test program on the byte target:  [db 1] / lb: binclude ... / dw lb / dw $
ImageB(pc, bytes, adv) == (IF pc = 1 THEN <<1>> ELSE <<>>) \o bytes \o LE16(pc) \o LE16(pc + adv + 2)
\* on the TMS32010 (address unit = 16-bit word):  [nop] / lb: binclude ... / data lb,$
ImageW(pc, m) == (IF pc = 1 THEN <<128, 127>> ELSE <<>>) \o Stored(m.bytes, m.recs, 2) \o LE16(pc) \o LE16(pc + m.adv)

Side(err, img) == [rej |-> err # "none", err |-> err, image |-> IF err # "none" THEN <<>> ELSE img]
Dump == LET c == case   m == CodedOf(c)   d == DeclOf(c) IN
  PrintT(<<"BW", ToJson([n |-> c.n, ofs |-> c.ofs, len |-> c.len, pc |-> c.pc, indef |-> d.indef,
                         dev |-> Deviates(c.n, c.ofs, c.len, c.pc),
                         exp |-> Side(d.err, ImageB(c.pc, d.bytes, d.adv)),
                         coded |-> Side(m.err, ImageB(c.pc, m.bytes, m.adv)),
                         codedW |-> Side(m.err, ImageW(c.pc, m))])>>)
\* witness: the deviation is in the code as it is (and gone with the repair) - an empty file included at address 0
W0 == [n |-> 0, ofs |-> NoArg, len |-> NoArg, pc |-> 0]
ASSUME (CodedOf(W0).err = "AdrOverflow") = ("EmptyWindowAtZero" \notin Fixed)
ASSUME DeclOf(W0) = [indef |-> FALSE, err |-> "none", bytes |-> <<>>, adv |-> 0]
ASSUME CodedOf([W0 EXCEPT !.pc = 1]).err = "none"
=============================================================================
