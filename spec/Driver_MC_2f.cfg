\* C02 + C18: two files of <= 2 line classes, 16 diagnostic option combinations
CONSTANTS MaxLines = 2 MaxFiles = 2 Wrap = 0 Leaky = {}
CONSTANTS Kinds <- KindsSmall OptSpace <- OptsDiag
SPECIFICATION Spec
INVARIANTS StatusZeroIffNoError ZeroKeepsAll ErrorsDropCode ErrorStatus SummaryAgrees WerrorLeavesNoWarnings
           WarningsHarmless MachineIsOutcome AgreesWithText FreshStart Independent
CHECK_DEADLOCK FALSE
