CONSTANTS Stale = FALSE MaxTop = 3
  ModLists <- QModLists CtlLists <- QCtlLists MacroIds <- QIds MacroBodies <- QBodies
SPECIFICATION Spec
INVARIANTS CodeShown TextOwn ListedAsManual Sane
CHECK_DEADLOCK FALSE
