------------------------------ MODULE NegSpace ------------------------------
(***************************************************************************)
(* The negative space of the assembler's statement layer (property C03).   *)
(*                                                                         *)
(* A statement is [op, argc, pos, cls]: mnemonic, number of arguments and  *)
(* the *class* of one varied argument (all other arguments are the         *)
(* statement's benign form "ok").  The model does not evaluate             *)
(* expressions; it models what Produce_Code (as.c) does *around* them:     *)
(*                                                                         *)
(*   SplitLine      > ArgCntMax arguments: error, list cut to ArgCntMax,   *)
(*                  the statement is still executed                        *)
(*   Produce_Code   dispatch order of as.c:                                *)
(*       1. FirstOutputTag->Processor()   a macro/REPT/IRP body is being   *)
(*                                        recorded: the line is swallowed, *)
(*                                        only MacroStart/MacroEnd count   *)
(*       2. IRP IRPN IRPC REPT WHILE      open a recorder even if skipped  *)
(*                                        or erroneous (WaitENDM)          *)
(*       3. CodeIFs()                     IF family, processed even when   *)
(*                                        IfAsm = FALSE                    *)
(*       4. MACRO EXITM SHIFT INCLUDE                                      *)
(*       5. macro call / pseudo op (asmallg.c Pseudos[], SAVE RESTORE ..)  *)
(*          / data pseudo op / expression  -- only when IfAsm              *)
(*   end of pass    AsmPassEnd checks: open IF / SAVE / SECTION / STRUCT / *)
(*                  recorder => one error each                             *)
(*                                                                         *)
(* Rule of the negative space (DESIGN 3/C03): a statement either has its   *)
(* defined effect on the nesting state or is an ErrorStep:                 *)
(*     errs' >= errs /\ all other modelled state unchanged                 *)
(* It never "crashes": Outcomes is total, and the process ends by exit     *)
(* with a status in {0, 2, 3}.                                             *)
(*                                                                         *)
(* Deliberate coarseness (named, not idealised away):                      *)
(*   - the IF stack keeps only kind (if/sw) and the saved IfAsm; branch    *)
(*     selection itself is property C12 (CondAsm.tla)                      *)
(*   - whether a value of class cls is accepted by a given handler is not  *)
(*     decided: such statements have BOTH outcomes {Effect, ErrorStep};    *)
(*     only the definite cases (argument count outside ChkArgCnt bounds,   *)
(*     closer without opener, statement outside its context) are           *)
(*     deterministic errors                                                *)
(*   - one macro name (M1); bodies of at most a few lines                  *)
(***************************************************************************)
EXTENDS Naturals, Sequences, FiniteSets, TLC

AMAX == 476           \* asmdef.h ArgCntMax
MaxWork == 60         \* saturation of the work counter (lines delivered to Produce_Code)

(* ---------------------------------------------------------------------- *)
(* Statement table.  g = dispatcher group, lo..hi = ChkArgCnt bounds,      *)
(* e = effect on the nesting state when the statement succeeds.            *)
(* ---------------------------------------------------------------------- *)
R(n, g, lo, hi, e) == [n |-> n, g |-> g, lo |-> lo, hi |-> hi, e |-> e]

MacroOps ==     \* as.c: MacroStart() / case 'I' 'R' 'W' / ReadMacro / MacroEnd()
  { R("IRP", "mo", 2, AMAX, "rec"), R("IRPN", "mo", 3, AMAX, "rec"), R("IRPC", "mo", 2, AMAX, "rec"),
    R("REPT", "mo", 1, 1, "rec"), R("WHILE", "mo", 1, 1, "rec"), R("MACRO", "md", 0, AMAX, "rec"),
    R("ENDM", "me", 0, 0, "endm"), R("ENDR", "me", 0, 0, "endm"),
    R("EXITM", "mc", 0, 0, "exitm"), R("SHIFT", "mc", 0, 0, "shift"), R("INCLUDE", "inc", 1, 1, "none"),
    R("CALLM1", "call", 0, AMAX, "call") }

IfOps ==        \* asmif.c
  { R("IF", "if", 1, 1, "if+"), R("IFDEF", "if", 1, 1, "if+"), R("IFNDEF", "if", 1, 1, "if+"),
    R("IFUSED", "if", 1, 1, "if+"), R("IFNUSED", "if", 1, 1, "if+"), R("IFEXIST", "if", 1, 1, "if+"),
    R("IFNEXIST", "if", 1, 1, "if+"), R("IFB", "if", 0, AMAX, "if+"), R("IFNB", "if", 0, AMAX, "if+"),
    R("ELSE", "if", 0, 0, "else"), R("ELSEIF", "if", 0, 1, "else"), R("ENDIF", "if", 0, 0, "if-"),
    R("SWITCH", "if", 1, 1, "sw+"), R("CASE", "if", 1, AMAX, "case"), R("ELSECASE", "if", 0, 0, "case"),
    R("ENDCASE", "if", 0, 0, "sw-") }

PseudoOps ==    \* asmallg.c Pseudos[] + CodeGlobalPseudo specials + errmsg/section helpers
  { R("ALIGN", "ps", 1, 2, "none"), R("ASEG", "ps", 0, 0, "none"), R("ASSUME", "ps", 1, AMAX, "none"),
    R("BINCLUDE", "ps", 1, 3, "mfatal"), R("CHARSET", "ps", 0, 3, "mfatal"), R("CODEPAGE", "ps", 1, 2, "none"),
    R("CPU", "ps", 1, 1, "none"), R("DEPHASE", "ps", 0, 0, "ph-"), R("END", "ps", 0, 1, "end"),
    R("ENDEXPECT", "ps", 0, 0, "ex-"), R("ENDS", "ps", 0, 1, "st-"), R("ENDSECTION", "ps", 0, 1, "se-"),
    R("ENDSTRUC", "ps", 0, 1, "st-"), R("ENDSTRUCT", "ps", 0, 1, "st-"), R("ENDUNION", "ps", 0, 1, "st-"),
    R("ENUM", "ps", 1, AMAX, "none"), R("ENUMCONF", "ps", 1, 2, "none"), R("EQU", "ps", 1, 2, "none"),
    R("ERROR", "ps", 1, 1, "none"), R("EXPECT", "ps", 1, AMAX, "ex+"), R("EXPORT_SYM", "ps", 1, AMAX, "none"),
    R("EXTERN_SYM", "ps", 1, AMAX, "none"), R("FATAL", "ps", 1, 1, "fatal"), R("FUNCTION", "ps", 2, AMAX, "none"),
    R("INTSYNTAX", "ps", 1, AMAX, "none"), R("LABEL", "ps", 1, 1, "none"), R("LISTING", "ps", 1, 1, "none"),
    R("MESSAGE", "ps", 1, 1, "none"), R("NEWPAGE", "ps", 0, 1, "none"), R("NESTMAX", "ps", 1, 1, "none"),
    R("NEXTENUM", "ps", 1, AMAX, "none"), R("ORG", "ps", 1, 1, "none"), R("OUTRADIX", "ps", 1, 1, "none"),
    R("PHASE", "ps", 1, 1, "ph+"), R("POPV", "ps", 2, AMAX, "none"), R("PRSET", "ps", 0, AMAX, "none"),
    R("PRTINIT", "ps", 1, 1, "none"), R("PRTEXIT", "ps", 1, 1, "none"), R("TITLE", "ps", 1, 1, "none"),
    R("PUSHV", "ps", 2, AMAX, "none"), R("RADIX", "ps", 1, 1, "none"), R("READ", "ps", 1, 2, "none"),
    R("RELAXED", "ps", 1, 1, "none"), R("MACEXP", "ps", 1, AMAX, "none"), R("MACEXP_DFT", "ps", 1, AMAX, "none"),
    R("MACEXP_OVR", "ps", 0, AMAX, "none"), R("RORG", "ps", 1, 1, "none"), R("RSEG", "ps", 0, 0, "none"),
    R("SECTION", "ps", 1, 1, "se+"), R("SEGMENT", "ps", 1, 1, "none"), R("SHARED", "ps", 0, AMAX, "none"),
    R("STRUC", "ps", 0, AMAX, "st+"), R("STRUCT", "ps", 0, AMAX, "st+"), R("UNION", "ps", 0, AMAX, "st+"),
    R("WARNING", "ps", 1, 1, "none"), R("=", "ps", 1, 2, "none"), R(":=", "ps", 1, 2, "none"),
    R("SET", "ps", 1, 2, "none"), R("EVAL", "ps", 1, 2, "none"), R("SAVE", "ps", 0, 0, "sv+"),
    R("RESTORE", "ps", 0, 0, "sv-"), R("PAGE", "ps", 1, 2, "none"), R("FORWARD", "ps", 1, AMAX, "none"),
    R("PUBLIC", "ps", 1, AMAX, "none"), R("GLOBAL", "ps", 1, AMAX, "none"),
    R("DOTTEDSTRUCTS", "ps", 1, 1, "none"), R("REG", "ps", 1, 1, "none"), R("NAMEREG", "ps", 2, 2, "none") }

DataOps ==      \* data pseudo ops of the CPU families (intpseudo.c motpseudo.c tipseudo.c fourpseudo.c natpseudo.c and the
                \* private ones in code*.c); the concrete mnemonics a CPU accepts are discovered by the harness
  { R("DATA", "da", 1, AMAX, "none"),      \* DB DW DC.x BYT FCB WORD LONG STRING FLOAT DATA ...
    R("DRES", "da", 1, 1, "none"),         \* DS RMB RES BSS DFS ZERO BLKB SPACE ...      <count>
    R("DFILL", "da", 2, 2, "none"),        \* FB FW DCB DS n,v ...                       <count>,<value>
    R("DDUP", "da", 1, AMAX, "none"),      \* Intel data statement with  <count> DUP (<value>)  as an argument
    R("DREP", "da", 1, AMAX, "none") }     \* Motorola data statement with  [<count>]<value>   as an argument
\* statements whose FIRST argument is a size / count / repetition factor that sizes the code buffer
CountOps == {"DRES", "DFILL", "DDUP", "DREP", "ALIGN"}
\* listing layout and listing content statements (only observable with the listing switched on, -L)
ListOps == {"PAGE", "NEWPAGE", "TITLE", "PRTINIT", "PRTEXIT", "LISTING", "MACEXP", "MACEXP_DFT", "MACEXP_OVR"}

FuncOps ==      \* function.c Functions[] + the built-ins of asmpars.c; argument-count bounds from the table
  { R("SUBSTR", "fn", 3, 3, "none"), R("STRSTR", "fn", 2, 2, "none"), R("CHARFROMSTR", "fn", 2, 2, "none"),
    R("EXPRTYPE", "fn", 1, 1, "none"), R("UPSTRING", "fn", 1, 1, "none"), R("LOWSTRING", "fn", 1, 1, "none"),
    R("STRLEN", "fn", 1, 1, "none"), R("VAL", "fn", 1, 1, "none"), R("TOUPPER", "fn", 1, 1, "none"),
    R("TOLOWER", "fn", 1, 1, "none"), R("BITCNT", "fn", 1, 1, "none"), R("FIRSTBIT", "fn", 1, 1, "none"),
    R("LASTBIT", "fn", 1, 1, "none"), R("BITPOS", "fn", 1, 1, "none"), R("ABS", "fn", 1, 1, "none"),
    R("SGN", "fn", 1, 1, "none"), R("INT", "fn", 1, 1, "none"), R("SQRT", "fn", 1, 1, "none"),
    R("SIN", "fn", 1, 1, "none"), R("COS", "fn", 1, 1, "none"), R("TAN", "fn", 1, 1, "none"),
    R("COT", "fn", 1, 1, "none"), R("ASIN", "fn", 1, 1, "none"), R("ACOS", "fn", 1, 1, "none"),
    R("ATAN", "fn", 1, 1, "none"), R("ACOT", "fn", 1, 1, "none"), R("EXP", "fn", 1, 1, "none"),
    R("ALOG", "fn", 1, 1, "none"), R("ALD", "fn", 1, 1, "none"), R("SINH", "fn", 1, 1, "none"),
    R("COSH", "fn", 1, 1, "none"), R("TANH", "fn", 1, 1, "none"), R("COTH", "fn", 1, 1, "none"),
    R("LN", "fn", 1, 1, "none"), R("LOG", "fn", 1, 1, "none"), R("LD", "fn", 1, 1, "none"),
    R("ASINH", "fn", 1, 1, "none"), R("ACOSH", "fn", 1, 1, "none"), R("ATANH", "fn", 1, 1, "none"),
    R("ACOTH", "fn", 1, 1, "none"), R("DEFINED", "fn", 0, 100000, "none"), R("SYMTYPE", "fn", 0, 100000, "none"),
    R("ASSUMEDVAL", "fn", 0, 100000, "none") }    \* the last three take the whole argument text as a symbol name

BinOps ==       \* operator.c Operators[]: the varied argument is an operand
  { R("B+", "bo", 2, 2, "none"), R("B-", "bo", 2, 2, "none"), R("B*", "bo", 2, 2, "none"),
    R("B/", "bo", 2, 2, "none"), R("B#", "bo", 2, 2, "none"), R("B^", "bo", 2, 2, "none"),
    R("B<<", "bo", 2, 2, "none"), R("B>>", "bo", 2, 2, "none"), R("B><", "bo", 2, 2, "none"),
    R("B&", "bo", 2, 2, "none"), R("B|", "bo", 2, 2, "none"), R("B!", "bo", 2, 2, "none"),
    R("B&&", "bo", 2, 2, "none"), R("B||", "bo", 2, 2, "none"), R("B!!", "bo", 2, 2, "none"),
    R("B=", "bo", 2, 2, "none"), R("B==", "bo", 2, 2, "none"), R("B<", "bo", 2, 2, "none"),
    R("B<=", "bo", 2, 2, "none"), R("B>", "bo", 2, 2, "none"), R("B>=", "bo", 2, 2, "none"),
    R("B<>", "bo", 2, 2, "none"), R("U-", "bo", 1, 1, "none"), R("U~", "bo", 1, 1, "none"),
    R("U~~", "bo", 1, 1, "none") }

OpTab == MacroOps \cup IfOps \cup PseudoOps \cup DataOps \cup FuncOps \cup BinOps
OpNames == {o.n : o \in OpTab}
OpF == [n \in OpNames |-> CHOOSE o \in OpTab : o.n = n]
Op(n) == OpF[n]

\* sizes / counts around the powers of two at which a code buffer of 256 (MaxCodeLen_Ini), 512, 1024 bytes overflows
\* for 1-, 2- and 4-byte elements, the page layout limits, and the 16-bit limits ("cN" = the number N)
CountClasses == {"c4", "c5", "c6", "c127", "c128", "c129", "c255", "c256", "c257", "c511", "c512", "c513", "c1000",
                 "c5000", "c32767", "c65536"}
(* argument classes: "ok" is the benign form; the others are the erroneous half of the value space *)
Classes == {"ok", "empty", "0", "1", "m1", "h31", "h32", "h63", "m63", "str", "lstr", "chr", "float",
            "hfloat", "undef", "fwd", "unterm", "paren"} \cup CountClasses
ZeroLike  == {"0", "m1", "m63"}                 \* count <= 0
HugeLike  == {"h31", "h32", "h63"}              \* count >= 2^31
NonNum    == {"empty", "str", "lstr", "float", "hfloat", "undef", "fwd", "unterm", "paren"}

Stmt(op, argc, pos, cls) == [op |-> op, argc |-> argc, pos |-> pos, cls |-> cls]
\* class of argument i: pos = 0: all benign; pos = 99: every argument has class cls;
\* pos = 98: all benign but the label field is flipped (missing where the statement needs one, present otherwise)
ArgCls(s, i) == IF s.pos = 99 \/ s.pos = i THEN s.cls ELSE "ok"

(* ---------------------------------------------------------------------- *)
(* Machine state                                                           *)
(* ---------------------------------------------------------------------- *)
NoRec == [on |-> FALSE, kind |-> "none", n |-> 0, nest |-> 0, body |-> <<>>]

InitM == [open  |-> <<>>,     \* open constructs, innermost last: [k |-> "if"|"sw"|"st"|"se"|"ph"|"sv"|"ex", save |-> IfAsm before]
          ifasm |-> TRUE,     \* IfAsm
          rec   |-> NoRec,    \* FirstOutputTag: recorder of a MACRO/REPT/IRP/WHILE body (or WaitENDM)
          macdef |-> FALSE, macbody |-> <<>>,   \* macro M1
          inmac |-> 0,        \* depth of FirstInputTag entries with IsMacro
          exited |-> FALSE,   \* EXITM hit in the innermost expansion: its remaining lines are dropped
          errs  |-> 0,        \* ErrorCount, saturating at 2
          fatal |-> FALSE, ended |-> FALSE,
          work  |-> 0, heavy |-> FALSE]

Sat(n) == IF n >= 2 THEN 2 ELSE n
Err(m) == [m EXCEPT !.errs = Sat(@ + 1)]
Tick(m) == [m EXCEPT !.work = IF @ >= MaxWork THEN MaxWork ELSE @ + 1]

Depth(m, k) == Cardinality({i \in 1..Len(m.open) : m.open[i].k = k})
LastIdx(m, K) == CHOOSE i \in 1..Len(m.open) : m.open[i].k \in K /\ \A j \in (i+1)..Len(m.open) : m.open[j].k \notin K
HasOpen(m, K) == \E i \in 1..Len(m.open) : m.open[i].k \in K
RemoveAt(q, i) == SubSeq(q, 1, i - 1) \o SubSeq(q, i + 1, Len(q))
Push(m, k) == [m EXCEPT !.open = Append(@, [k |-> k, save |-> m.ifasm])]
\* the real stacks are separate per kind: a closer pops the innermost construct of ITS kind
PopKind(m, K) == [m EXCEPT !.open = RemoveAt(@, LastIdx(m, K))]

IsMacroStart(s) == s.op \in {"MACRO", "IRP", "IRPN", "IRPC", "REPT", "WHILE"}
IsMacroEnd(s)   == s.op \in {"ENDM", "ENDR"}

\* function arguments and the operands of a binary operator form ONE statement argument (the renderer joins
\* them inside an EVAL); the "arguments" of a unary operator are separated by real commas
OneArgument(s) == Op(s.op).g = "fn" \/ (Op(s.op).g = "bo" /\ s.op \notin {"U-", "U~", "U~~"})
\* SplitLine: a single empty argument is no argument at all (`<tab>aseg<tab>`)
\*            an unterminated string / an open parenthesis swallows the commas behind it
EffArgc(s) == IF s.argc = 1 /\ s.pos \in {1, 99} /\ s.cls = "empty" THEN 0
              ELSE IF s.cls \in {"unterm", "paren"} /\ s.pos >= 1 /\ s.argc >= 1
                   THEN (IF s.pos = 99 THEN 1 ELSE IF s.pos <= s.argc THEN s.pos ELSE s.argc)
              ELSE s.argc
ArgcBad(s) == LET o == Op(s.op) IN EffArgc(s) < o.lo \/ EffArgc(s) > o.hi

(* ---------------------------------------------------------------------- *)
(* Outcomes: the set of states one statement may lead to                   *)
(* ---------------------------------------------------------------------- *)
RECURSIVE RunSeq(_, _), Outcomes(_, _), Times(_, _)

\* body repeated n times
Times(body, n) == IF n = 0 THEN <<>> ELSE body \o Times(body, n - 1)

\* what a recorder does when its body is complete
CloseRec(m) ==
  LET r  == m.rec
      m0 == [m EXCEPT !.rec = NoRec]
  IN CASE r.kind = "macro" -> {IF m.ifasm THEN [m0 EXCEPT !.macdef = TRUE, !.macbody = r.body] ELSE m0}
       [] r.kind = "rept"  -> IF m.ifasm /\ r.n > 0 /\ r.body # <<>>
                              THEN {[x EXCEPT !.inmac = m.inmac, !.exited = m.exited] :
                                      x \in RunSeq({[m0 EXCEPT !.inmac = @ + 1, !.exited = FALSE]}, Times(r.body, r.n))}
                              ELSE {m0}
       [] r.kind = "heavy" -> {[m0 EXCEPT !.heavy = r.body # <<>>]}     \* count >= 2^31 with a non-empty body
       [] OTHER            -> {m0}                                        \* "wait": WaitENDM/WaitENDR discard

\* 1. FirstOutputTag->Processor(): the line is swallowed
RecStep(m, s) ==
  LET nest == IF IsMacroStart(s) THEN m.rec.nest + 1 ELSE IF IsMacroEnd(s) THEN m.rec.nest - 1 ELSE m.rec.nest
  IN IF nest = 0 THEN CloseRec(m)
     ELSE {[m EXCEPT !.rec.nest = nest,
                     !.rec.body = IF Len(@) < 4 THEN Append(@, s) ELSE @]}

OpenRec(m, kind, n) == [m EXCEPT !.rec = [on |-> TRUE, kind |-> kind, n |-> n, nest |-> 1, body |-> <<>>]]

\* 2. IRP IRPN IRPC REPT WHILE: a recorder is opened in every case
CountKind(s) ==      \* iteration count described by the statement
  LET c == ArgCls(s, 1) IN
  CASE s.op = "REPT"  -> IF c \in ZeroLike THEN [k |-> "rept", n |-> 0]
                         ELSE IF c = "1" THEN [k |-> "rept", n |-> 1]
                         ELSE IF c = "ok" THEN [k |-> "rept", n |-> 2]
                         ELSE IF c \in HugeLike \cup {"str", "chr"} THEN [k |-> "heavy", n |-> 0]   \* "abc" is the integer $616263
                         ELSE [k |-> "wait", n |-> 0]
    [] s.op = "IRPN"  -> \* irpn count,params..,args..: count must be >= 1 and leave >= 1 argument group
                         IF c \in {"ok", "1"} /\ s.argc >= 3 THEN [k |-> "rept", n |-> 1] ELSE [k |-> "wait", n |-> 0]
    [] s.op = "WHILE" -> \* termination of WHILE is outside the property: only a constant-false condition is bounded
                         IF c \in {"ok", "0"} THEN [k |-> "wait", n |-> 0] ELSE [k |-> "heavy", n |-> 0]
    [] OTHER          -> IF s.pos = 0 THEN [k |-> "rept", n |-> 1] ELSE [k |-> "either", n |-> 1]  \* IRP / IRPC
MacOpen(m, s) ==
  IF ~m.ifasm THEN {OpenRec(m, "wait", 0)}
  ELSE IF ArgcBad(s) THEN {OpenRec(Err(m), "wait", 0)}
  ELSE LET ck == CountKind(s) IN
       CASE ck.k = "wait" /\ s.op # "WHILE" -> {OpenRec(Err(m), "wait", 0)}
         [] ck.k = "wait"                   -> {OpenRec(m, "wait", 0), OpenRec(Err(m), "wait", 0)}
         [] ck.k = "heavy"                  -> {OpenRec(m, "heavy", 0), OpenRec(Err(m), "wait", 0)}
         [] ck.k = "either"                 -> {OpenRec(m, "rept", 1), OpenRec(Err(m), "wait", 0)}
         [] OTHER                           -> {OpenRec(m, ck.k, ck.n)}

\* truth value of `IF <arg>` where the class of the argument decides it
IfVal(s) == LET c == ArgCls(s, 1) IN
            IF c \in {"ok", "1", "m1", "h31", "h32", "m63", "chr"} THEN "T" ELSE IF c = "0" THEN "F" ELSE "?"

\* 3. CodeIFs(): processed even while skipping; closers on an empty stack are errors, nothing underflows
IfStep(m, s) ==
  LET o == Op(s.op) IN
  CASE o.e = "if+" -> IF ~m.ifasm THEN {Push(m, "if")}                       \* condition not evaluated
                      ELSE IF ArgcBad(s) THEN {Push(Err(m), "if"), [Push(Err(m), "if") EXCEPT !.ifasm = FALSE]}
                      ELSE IF s.op = "IF" /\ IfVal(s) = "T" THEN {Push(m, "if")}
                      ELSE IF s.op = "IF" /\ IfVal(s) = "F" THEN {[Push(m, "if") EXCEPT !.ifasm = FALSE]}
                      ELSE {Push(m, "if"), [Push(m, "if") EXCEPT !.ifasm = FALSE],
                            Push(Err(m), "if"), [Push(Err(m), "if") EXCEPT !.ifasm = FALSE]}
    [] o.e = "sw+" -> IF ~m.ifasm THEN {Push(m, "sw")}
                      ELSE {[Push(m, "sw") EXCEPT !.ifasm = FALSE], [Push(Err(m), "sw") EXCEPT !.ifasm = FALSE]}
    [] o.e = "else" -> IF ~HasOpen(m, {"if"}) \/ m.open[LastIdx(m, {"if", "sw"})].k # "if" THEN {Err(m)}
                       ELSE LET sv == m.open[LastIdx(m, {"if"})].save IN
                            IF ~sv THEN {m} ELSE {[m EXCEPT !.ifasm = b] : b \in BOOLEAN} \cup {Err(m)}
    [] o.e = "case" -> IF ~HasOpen(m, {"sw"}) \/ m.open[LastIdx(m, {"if", "sw"})].k # "sw" THEN {Err(m)}
                       ELSE LET sv == m.open[LastIdx(m, {"sw"})].save IN
                            IF ~sv THEN {m} ELSE {[m EXCEPT !.ifasm = b] : b \in BOOLEAN} \cup {Err(m), [Err(m) EXCEPT !.ifasm = FALSE]}
    [] o.e = "if-" -> IF ~HasOpen(m, {"if", "sw"}) \/ m.open[LastIdx(m, {"if", "sw"})].k # "if" \/ ArgcBad(s) THEN {Err(m)}
                      ELSE {[PopKind(m, {"if"}) EXCEPT !.ifasm = m.open[LastIdx(m, {"if"})].save]}
    [] o.e = "sw-" -> IF ~HasOpen(m, {"if", "sw"}) \/ m.open[LastIdx(m, {"if", "sw"})].k # "sw" \/ ArgcBad(s) THEN {Err(m)}
                      ELSE {[PopKind(m, {"sw"}) EXCEPT !.ifasm = m.open[LastIdx(m, {"sw"})].save],
                            [PopKind(Err(m), {"sw"}) EXCEPT !.ifasm = m.open[LastIdx(m, {"sw"})].save]}   \* "no CASE matched" is a warning/error
    [] OTHER -> {m}

\* 4. MACRO / EXITM / SHIFT / INCLUDE
ReadMacro(m, s) ==   \* a definition error still opens a (discarding) recorder
  IF ~m.ifasm THEN {OpenRec(m, "wait", 0), OpenRec(Err(m), "wait", 0)}    \* the macro name is checked even when skipping
  ELSE {OpenRec(m, "macro", 0), OpenRec(Err(m), "wait", 0)}
MacCtl(m, s) ==      \* argument count and "outside macro" are diagnosed even in a skipped branch
  IF ArgcBad(s) \/ m.inmac = 0 THEN {Err(m)}
  ELSE IF ~m.ifasm THEN {m}
  ELSE IF s.op = "EXITM" THEN {[m EXCEPT !.exited = TRUE]} ELSE {m}
Include(m, s) == IF ~m.ifasm THEN {m} ELSE {Err(m), m, [m EXCEPT !.fatal = TRUE]}   \* unreadable include file is fatal

\* 5. statements that only run when IfAsm
CloserKinds(e) == CASE e = "st-" -> {"st"} [] e = "se-" -> {"se"} [] e = "ph-" -> {"ph"}
                    [] e = "sv-" -> {"sv"} [] e = "ex-" -> {"ex"} [] OTHER -> {}
OpenerKind(e)  == CASE e = "st+" -> "st" [] e = "se+" -> "se" [] e = "ph+" -> "ph"
                    [] e = "sv+" -> "sv" [] e = "ex+" -> "ex" [] OTHER -> "none"
Pseudo(m, s) ==
  LET o == Op(s.op) IN
  IF ArgcBad(s) /\ (o.g \in {"ps", "da"} \/ (o.g = "fn" /\ EffArgc(s) > 0))   \* ChkArgCnt: error, nothing else
  THEN {Err(m)}                                       \* (`tan()` is silently accepted: deviation of the code)
  ELSE CASE o.e = "ph-" /\ ~HasOpen(m, {"ph"}) -> {m}      \* deviation of the code: DEPHASE without PHASE is silently accepted
         [] CloserKinds(o.e) # {} -> IF ~HasOpen(m, CloserKinds(o.e)) THEN {Err(m)}          \* closer without opener
                                     ELSE {PopKind(m, CloserKinds(o.e)), Err(m)}
         [] OpenerKind(o.e) # "none" -> {Push(m, OpenerKind(o.e)), Err(m)}
         [] o.e = "fatal" -> {[m EXCEPT !.fatal = TRUE], Err(m)}
         [] o.e = "mfatal" \/ o.g = "fn" -> {m, Err(m), [m EXCEPT !.fatal = TRUE]}   \* unreadable file / a type mismatch of a
                                                                                  \* function argument ends as "internal error" (fatal)
         [] o.e = "end"   -> {[m EXCEPT !.ended = TRUE], [Err(m) EXCEPT !.ended = TRUE], Err(m)}
         [] OTHER -> {m, Err(m)}

Call(m, s) ==   \* macro call: expand the recorded body (self recursion is outside the termination claim)
  IF ~m.macdef THEN {Err(m)}                      \* unknown instruction
  ELSE IF m.inmac >= 2 THEN {[Err(m) EXCEPT !.heavy = TRUE]}   \* self recursion: cut by NESTMAX in the code (error);
                                                               \* exponential in general, so no time bound is claimed
  ELSE {[x EXCEPT !.inmac = m.inmac, !.exited = m.exited] :
          x \in RunSeq({[m EXCEPT !.inmac = @ + 1, !.exited = FALSE]}, m.macbody)}

\* SplitLine + Produce_Code
Dispatch(m, s) ==
  LET o == Op(s.op) IN
  IF m.rec.on THEN RecStep(m, s)
  ELSE IF o.g = "mo" THEN MacOpen(m, s)
  ELSE IF o.g = "if" THEN IfStep(m, s)
  ELSE IF o.g = "md" THEN ReadMacro(m, s)
  ELSE IF o.g = "mc" THEN MacCtl(m, s)
  ELSE IF o.g = "inc" THEN Include(m, s)
  ELSE IF ~m.ifasm THEN {m}
  ELSE IF o.g = "call" THEN Call(m, s)
  ELSE IF o.g = "me" THEN {Err(m)}               \* ENDM without recorder: unknown instruction
  ELSE Pseudo(m, s)

Outcomes(m, s) ==
  IF m.fatal \/ m.ended \/ m.exited THEN {m}      \* nothing is processed after FATAL / END / (in this expansion) EXITM
  ELSE LET t == Tick(m) IN
       IF s.argc > AMAX /\ ~OneArgument(s)                                 \* (operands of an expression are one argument)
       THEN Dispatch(Err(t), [s EXCEPT !.argc = AMAX])                      \* TooManyArgs, list truncated
       ELSE Dispatch(t, s)

RunSeq(S, q) == IF q = <<>> THEN S ELSE RunSeq(UNION {Outcomes(x, Head(q)) : x \in S}, Tail(q))

(* ---------------------------------------------------------------------- *)
(* End of pass and exit status                                             *)
(* ---------------------------------------------------------------------- *)
\* AsmPassEnd / ProcessFile tail: every construct still open is one error
EndOfFile(m) ==
  IF m.fatal THEN m
  ELSE LET e1 == IF m.rec.on THEN 1 ELSE 0
           e2 == IF HasOpen(m, {"if", "sw", "sv", "se", "st"}) THEN 1 ELSE 0
       IN [m EXCEPT !.errs = Sat(@ + e1 + e2)]
Exit(m) == IF m.fatal THEN 3 ELSE IF m.errs > 0 THEN 2 ELSE 0
DocumentedExit == {0, 2, 3}      \* doc/assembler-usage.md; 1 and 4 concern the command line only

\* closers that balance state m (innermost first) -- what a well-formed continuation of the file would contain
CloserFor(k) == CASE k = "if" -> "ENDIF" [] k = "sw" -> "ENDCASE" [] k = "st" -> "ENDSTRUCT" [] k = "se" -> "ENDSECTION"
                  [] k = "ph" -> "DEPHASE" [] k = "sv" -> "RESTORE" [] k = "ex" -> "ENDEXPECT"
RECURSIVE RevClosers(_)
RevClosers(q) == IF q = <<>> THEN <<>> ELSE <<CloserFor(q[Len(q)].k)>> \o RevClosers(SubSeq(q, 1, Len(q) - 1))
Closers(m) == (IF m.rec.on THEN <<"ENDM">> ELSE <<>>) \o RevClosers(m.open)
CloserStmts(m) == [i \in 1..Len(Closers(m)) |-> Stmt(Closers(m)[i], 0, 0, "ok")]

(* ---------------------------------------------------------------------- *)
(* Declarative side: what the rule of the negative space means             *)
(* ---------------------------------------------------------------------- *)
\* ErrorStep: nothing but the counters changed
ErrorStep(a, b) == b.errs >= a.errs /\ [b EXCEPT !.errs = a.errs, !.work = a.work] = a
\* a statement that is not live (skipped or being recorded) only moves the nesting machinery
Inert(a, b) == b.open = a.open \/ b.rec # a.rec
=============================================================================
