\* 87C800 displacement field-limit cases (checks/c15.py): one initial state per (field kind, displacement class)
INIT Init
NEXT Next
INVARIANTS AllEncodable DecodeInverts LimitsPresent Dump
CHECK_DEADLOCK FALSE
