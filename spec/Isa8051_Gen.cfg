\* default constants of the MCS-51 case generator (checks/ext_isa8051.py writes per-run copies: Cpu = CPU + slice of the
\* statement addresses, K = 1 quick / 8 thorough = branch distances enumerated around both displacement limits, Salt =
\* seed-derived number selecting the interior representatives).  The whole finite case graph is explored (exhaustive).
CONSTANTS Cpu = "8051" K = 1 Salt = 1 Step = 1
INIT SliceInit
NEXT Next
INVARIANTS UnitsTyped DecodeInverts OutOfRangeIsError DecodeRoundTrip LengthAsPublished TargetReached Dump
CHECK_DEADLOCK FALSE
