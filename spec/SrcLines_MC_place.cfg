CONSTANTS IncSave = "reader" LoopLineBy = "place" Kinds = {"rept", "irp", "irpc", "while"} Counts = {1, 2} Deep = TRUE Pairs = FALSE Cont = TRUE
SPECIFICATION Spec
INVARIANTS Final Sane
CHECK_DEADLOCK FALSE
