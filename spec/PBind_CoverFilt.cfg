\* replayed exhaustively: every -f / +f operation sequence of FilterList!FPatterns and BigPatterns (command line and BINDCMD)
CONSTANTS MaxFiles = 2 MaxItems = 1 Starts = {300} ByteLens = {0, 2} EntryAddrs = {4660}
  CpuSegGran <- CSG_Small Forms <- Forms_Both Filters <- F_Small Creators <- Cr_One Quiets <- Q_No Dev <- D_None
SPECIFICATION FiltSpec
CHECK_DEADLOCK FALSE
