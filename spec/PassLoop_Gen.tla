---------------------------- MODULE PassLoop_Gen ----------------------------
(* (G) export for replay into the real assembler.  The state graph of PassLoop is a tree of program    *)
(* prefixes ("append one item") with one deterministic assembly run hanging off every well-formed      *)
(* program, so a breadth-first run visits every program up to the bound exactly once.  When a run      *)
(* reaches "done" the ACTION_CONSTRAINT prints the program together with what the specification        *)
(* expects: the passes (Repass, errors, symbol values at the end of each), error or not, the final layout (address, size, padding, encoded value    *)
(* per item), the final symbol values, whether a label was moved by LabelModify (patched) and whether  *)
(* the program has a resolved layout at all (solvable).  The harness renders prog for the dialects of  *)
(* the target class, runs asl and sends the decoded layout back to PassLoop_Obs for the verdict.       *)
(* With -simulate the same constraint samples longer programs.                                         *)
EXTENDS PassLoop, Json

\* hist: one entry per finished pass (what the pass_end / sym_def events of a real run show)
VARIABLE hist
gvars == <<vars, hist>>

PassSummary == [repass |-> m.repass, errs |-> m.errs, vals |-> Vals(m)]
GInit == Init /\ hist = <<>>
GNext == /\ Next
         /\ hist' = IF Running /\ i > Len(prog) THEN Append(hist, PassSummary) ELSE hist
GSpec == GInit /\ [][GNext]_gvars /\ WF_gvars(GNext /\ Run)

\* passes: what a run without the forced extra pass needs (hist also lists the extra pass when WithExtra)
Export == [prog |-> prog, org |-> org, errs |-> m.errs,
           passes |-> Len(hist') - (IF snap # NoSnap THEN 1 ELSE 0), hist |-> hist',
           \* the layout a run WITHOUT the forced extra pass ends with (for definite programs the extra pass
           \* reproduces it: ExtraPassIsStutter)
           lay |-> IF snap # NoSnap THEN snap.lay ELSE m.lay,
           vals |-> Vals(m), patched |-> m.patched, solvable |-> Solvable(prog, org),
           equback |-> EquBackward(prog),
           \* definite: C01 gives the program a definite outcome (no undeclared forward reference to a section-
           \* local name that an outer scope also has); ufree: every name has one spelling, so the program means
           \* the same with option -U
           \* csens: the program is written for option -U (spellings are names)
           \* accident: the program has no definite outcome AND the modelled assembler ends with an unresolved layout
           \* (what the manual describes under FORWARD; the harness expects to see it reproduced by the model)
           \* shadow: a name is used where two scopes of its path define it (the harness keeps all of these)
           definite |-> ScopeSafe(prog), ufree |-> CaseFree(prog), csens |-> CaseSens, shadow |-> Shadowed(prog),
           accident |-> IF ScopeSafe(prog) THEN FALSE
                        ELSE m.errs = 0 /\ ~Valid(prog, org, IF snap # NoSnap THEN snap.lay ELSE m.lay)]
OnDone == (phase # "done" /\ phase' = "done") => PrintT(<<"OUT", ToJson(Export)>>)
=============================================================================
