------------------------------- MODULE CmdLine -------------------------------
(* The command-line / option layer shared by the assembler and the utilities (cmdarg.c ProcessCMD and the                         *)
(* CMD_* callbacks of as.c, p2bin.c, plist.c, toolutils.c), extension of check C17.                                               *)
(*                                                                                                                                *)
(* MACHINE SIDE (operators shaped like the C code)                                                                                *)
(*   ParamSwitch / ParamInLine / ParamInArgv = ProcessParam():  classification of one word by its first                           *)
(*       character, the `#` / `~` case prefixes, whole-word match (upper-cased, identifiers longer than one                       *)
(*       letter) before the letter-by-letter loop (case sensitive, CMDArg sticky, stops at the first CMDErr),                     *)
(*       the look-ahead word handed to every callback (blanked when it starts with - + @).                                        *)
(*   DecodeLine  = DecodeLine():  one line of the environment variable / of a key file; CMDArg skips the next                     *)
(*       token, plain tokens go to FileArgList, a key reference is refused (AllowLink = False).                                   *)
(*   ProcessFile = ProcessFile(): every line of a key file through DecodeLine; missing file = ErrProc.                            *)
(*   ProcessCMD  = ProcessCMD():  environment first (a leading @ makes the WHOLE value a key file name), then                     *)
(*       argv[1..] with the Unprocessed[] mask; key files referenced from argv are processed on the spot.                         *)
(*   Call        = the callbacks, transcribed for a representative part of each option table.                                     *)
(*   ErrProc     = exit(): modelled by the field `exit`; once set nothing else happens.                                           *)
(* Named deviations of the code as it is (field `devs` of the scanner state; {} = repaired behaviour):                            *)
(*   QuietCounter    asl: -q counts 0..2 and +q counts down (-q -q +q stays quiet); manual: silent                                *)
(*   DefFirstWins    asl: AddDefSymbol() ignores a second -D of a name (first definition wins); manual: silent                    *)
(*   IncRemoveWipes  asl: RemoveIncludeList() copies an uninitialised buffer over the list: +i <dir> empties the                  *)
(*                   whole include path instead of removing <dir>  (defect, proposed_fixes: C17-remove-include-path)              *)
(*   EmptyNumberOK   p2bin -l / -e, p2hex -R / -e: ConstLongInt("") is a valid 0 and the callback answers CMDArg, so a            *)
(*                   missing argument is accepted and the parameter behind the switch is dropped (p2bin src dst -l -s             *)
(*                   writes no checksum, exit 0)  (defect, proposed_fixes: C17-tool-missing-number)                               *)
(*   MaskOverflow    ProcessCMD writes Unprocessed[0..argc-1] into an array of MAXPARAM + 1 = 257 entries without a bound:        *)
(*                   more than 256 parameters (a shell-expanded wildcard) overwrite what lies behind it - undefined               *)
(*                   behaviour, p2bin with 1500 parameters dies with SIGSEGV (proposed_fixes: C17-too-many-parameters)            *)
(*   BlankBeforeTab  DecodeLine splits a line at its first BLANK and only if there is none at its first TAB: in a line            *)
(*                   with both, words separated by a tab stay glued together (`-q<TAB>-L -x` is the unknown switch                *)
(*                   "-q<TAB>-L"); manual: silent about tabs                                                                      *)
(*   ToolFilesArgv   utilities take their file arguments from argv only (Unprocessed[]); file names in the                        *)
(*                   environment variable or in a key file land in FileArgList, which no utility reads                            *)
(*                                                                                                                                *)
(* DECLARATIVE SIDE (doc/assembler-usage.md "Start-Up Command, Parameters", doc/utility-programs.md)                              *)
(*   Flatten : the ordered word sequence the manual defines: environment first, then the command line, a key                      *)
(*             file referenced from the command line "as if written out in place of the reference"; the end of                    *)
(*             the environment value, of a key-file line ("switches and argument have to be written in the same                   *)
(*             line") and a key reference are BARRIERS for an option's argument.                                                  *)
(*   Parse   : the grammar: a word starting with - or + is a switch (whole word, any case, else every letter a                    *)
(*             switch of its own, only for switches without argument); the argument of a switch is the next                       *)
(*             plain word; optional arguments swallow a following plain word ("as -g test.asm ... of course                       *)
(*             fails"); plain words are file specifications; unknown switch / missing argument / bad value /                      *)
(*             key reference inside a key file = parameter error.                                                                 *)
(*   Meaning : the fold of the documented meaning over the occurrences in order: last one wins for scalars,                       *)
(*             accumulation / removal for the lists (-D, -i, -o, -f), counters for -x.                                            *)
(*   Spec(I) = Meaning(Parse(Flatten(I))) - independent of WHERE an occurrence stands except for order/barriers.                  *)
(* The program-level consequences (RunAsl: which files are assembled under which names with which target, symbol                  *)
(* values and include file; status 4 resp. 1 and nothing done after a parameter error) are one function applied                   *)
(* to either side's configuration.                                                                                                *)
EXTENDS Integers, Sequences, FiniteSets, SequencesExt, TLC

LOCAL FL == INSTANCE FilterList             \* the -f list of the utilities (C05/C07): FAdd / FCancel

AllDevs == {"QuietCounter", "DefFirstWins", "IncRemoveWipes", "ToolFilesArgv", "EmptyNumberOK", "MaskOverflow", "BlankBeforeTab"}      \* the code as pinned

\* ---- characters and words --------------------------------------------------------------------------------------
LC == <<"a","b","c","d","e","f","g","h","i","j","k","l","m","n","o","p","q","r","s","t","u","v","w","x","y","z">>
UC == <<"A","B","C","D","E","F","G","H","I","J","K","L","M","N","O","P","Q","R","S","T","U","V","W","X","Y","Z">>
UpF  == [c \in {LC[i] : i \in 1..26} |-> UC[CHOOSE i \in 1..26 : LC[i] = c]]
LowF == [c \in {UC[i] : i \in 1..26} |-> LC[CHOOSE i \in 1..26 : UC[i] = c]]
ToUpper(c) == IF c \in DOMAIN UpF THEN UpF[c] ELSE c                      \* as_toupper
ToLower(c) == IF c \in DOMAIN LowF THEN LowF[c] ELSE c                    \* as_tolower
UpSeq(s)  == [i \in 1..Len(s) |-> ToUpper(s[i])]
LowSeq(s) == [i \in 1..Len(s) |-> ToLower(s[i])]

\* a word: lead = first character class ("-" "+" "@" ";" or "" for anything else), pfx = "#" | "~" | "" directly
\* behind the sign, body = the letters of a switch, or <<atom>> (an opaque text) for plain words / key names
Sw(lead, pfx, body) == [lead |-> lead, pfx |-> pfx, body |-> body]
Plain(a)  == [lead |-> "",  pfx |-> "", body |-> <<a>>]
KeyRef(k) == [lead |-> "@", pfx |-> "", body |-> <<k>>]
Comment   == [lead |-> ";", pfx |-> "", body |-> <<"remark">>]
NoWord    == [lead |-> "",  pfx |-> "", body |-> <<>>]            \* "" behind the last token / argument
IsPlain(w) == w.lead = "" /\ w.body # <<>>
AtomOf(w)  == IF w.body = <<>> THEN "" ELSE w.body[1]
\* ProcessParam: `if (*Next is one of - + @) *Next = '\0'`
NextArg(w) == IF w.lead \in {"-", "+", "@"} THEN "" ELSE AtomOf(w)

\* ---- what the argument texts used in the bounded model mean to the callbacks ----------------------------------
\* -D: parts separated by commas, name[=expression]; "zz" stands for an expression using a symbol (refused)
BadVal == 998                   \* marks an expression CMD_DefSymbol refuses (it uses a symbol)
Ambiguous == 999                \* two definitions that differ only in case, read in case-insensitive mode
DefParts(a) == CASE a = "A"     -> <<[n |-> "A", v |-> 1]>>
                 [] a = "A=2"   -> <<[n |-> "A", v |-> 2]>>
                 [] a = "B=7"   -> <<[n |-> "B", v |-> 7]>>
                 [] a = "a=5"   -> <<[n |-> "a", v |-> 5]>>
                 [] a = "A,B=7" -> <<[n |-> "A", v |-> 1], [n |-> "B", v |-> 7]>>
                 [] a = "A=zz"  -> <<[n |-> "A", v |-> BadVal]>>
                 [] a = "p1:p2" -> <<[n |-> "?", v |-> 1]>>                 \* not a symbol name (ChkSymbName fails)
                 [] OTHER       -> <<[n |-> a, v |-> 1]>>                   \* s2, o1, Z80 ... are valid names
UpName(n) == IF n = "a" THEN "A" ELSE n                                     \* UpString on the names used here
\* -i: directories separated by DIRSEP
PathParts(a) == IF a = "p1:p2" THEN <<"p1", "p2">> ELSE <<a>>
KnownCPU == {"Z80", "8051"}                                                 \* LookupCPUDefByName (upper-cased)
DebugFormats == {"MAP", "NOICE", "ATMEL"}
SourceFiles == {"s1", "s2"}                                                 \* <name>.asm exists
IncDirs == {"p1", "p2"}                                                     \* directories holding inc.inc
\* utilities: numbers (ConstLongInt), ranges, filter ids
NumOK(a)  == a \in {"0", "0xaa", "$51", "0x31"}
NumVal(a) == CASE a = "0" -> 0 [] a = "0xaa" -> 170 [] a = "$51" -> 81 [] a = "0x31" -> 49 [] OTHER -> 0
Ranges == {"0x10-0x1f", "0x12-0x19"}

\* ---- configurations -------------------------------------------------------------------------------------------
InitCfg(prog, devs) ==
  CASE prog = "asl"   -> [devs |-> devs, quiet |-> 0, list |-> 0, x |-> 0, U |-> FALSE, u |-> FALSE, defs |-> <<>>,
                          inc |-> <<>>, out |-> <<>>, cpu |-> "", g |-> "none"]
    [] prog = "p2bin" -> [devs |-> devs, quiet |-> 0, fill |-> 255, range |-> "auto", cks |-> FALSE, filt |-> <<>>]
    [] OTHER          -> [devs |-> devs, quiet |-> 0]                                                    \* plist

Res(r, c) == [r |-> r, cfg |-> c]

\* ---- callbacks (as.c CMD_*, toolutils.c, p2bin.c) ---------------------------------------------------------------
CutFirst(s, x) == IF \E i \in 1..Len(s) : s[i] = x
                     THEN LET k == CHOOSE i \in 1..Len(s) : s[i] = x /\ \A j \in 1..(i - 1) : s[j] # x
                          IN SubSeq(s, 1, k - 1) \o SubSeq(s, k + 1, Len(s))
                     ELSE s                                                                    \* RemoveStringList
HasDef(defs, n) == \E i \in 1..Len(defs) : defs[i].n = n
DropDef(defs, n) == SelectSeq(defs, LAMBDA d : d.n # n)

CB_Quiet(prog, neg, arg, c) ==
  IF prog = "asl" /\ "QuietCounter" \in c.devs
  THEN Res("OK", [c EXCEPT !.quiet = IF neg /\ @ > 0 THEN @ - 1 ELSE IF ~neg /\ @ < 2 THEN @ + 1 ELSE @])
  ELSE Res("OK", [c EXCEPT !.quiet = IF neg THEN 0 ELSE 1])                    \* toolutils.c: QuietMode = !Negate
CB_ListFile(neg, arg, c)    == Res("OK", [c EXCEPT !.list = IF ~neg THEN 2 ELSE IF @ = 2 THEN 0 ELSE @])
CB_ListConsole(neg, arg, c) == Res("OK", [c EXCEPT !.list = IF ~neg THEN 1 ELSE IF @ = 1 THEN 0 ELSE @])
CB_Extend(neg, arg, c) == Res("OK", [c EXCEPT !.x = IF neg /\ @ > 0 THEN @ - 1 ELSE IF ~neg /\ @ < 2 THEN @ + 1 ELSE @])
CB_Case(neg, arg, c) == Res("OK", [c EXCEPT !.U = ~neg])
CB_Use(neg, arg, c)  == Res("OK", [c EXCEPT !.u = ~neg])

\* CMD_DefSymbol: parts left to right; a refused part ends the option with CMDErr
RECURSIVE DefLoop(_, _, _, _)
DefLoop(parts, i, neg, c) ==
  IF i > Len(parts) THEN Res("Arg", c)
  ELSE LET n == IF c.U THEN parts[i].n ELSE UpName(parts[i].n)
       IN IF n = "?" THEN Res("Err", c)
          ELSE IF neg THEN DefLoop(parts, i + 1, neg, [c EXCEPT !.defs = DropDef(@, n)])
          ELSE IF parts[i].v = BadVal THEN Res("Err", c)
          ELSE DefLoop(parts, i + 1, neg,
                       [c EXCEPT !.defs = IF HasDef(@, n)
                                          THEN IF "DefFirstWins" \in c.devs THEN @
                                               ELSE Append(DropDef(@, n), [n |-> n, v |-> parts[i].v])
                                          ELSE Append(@, [n |-> n, v |-> parts[i].v])])
CB_Def(neg, arg, c) == IF arg = "" THEN Res("Err", c) ELSE DefLoop(DefParts(arg), 1, neg, c)

\* CMD_IncludeList: parts from the RIGHT (strrchr); AddIncludeList puts a new directory in FRONT of the list
RECURSIVE IncLoop(_, _, _, _)
IncLoop(parts, i, neg, c) ==
  IF i = 0 THEN Res("Arg", c)
  ELSE IncLoop(parts, i - 1, neg,
               [c EXCEPT !.inc = IF neg THEN (IF "IncRemoveWipes" \in c.devs THEN <<>> ELSE SelectSeq(@, LAMBDA d : d # parts[i]))
                                 ELSE IF \E k \in 1..Len(@) : @[k] = parts[i] THEN @ ELSE <<parts[i]>> \o @])
CB_Inc(neg, arg, c) == IF arg = "" THEN Res("Err", c) ELSE IncLoop(PathParts(arg), Len(PathParts(arg)), neg, c)

CB_Out(neg, arg, c) == IF arg = "" THEN (IF neg THEN Res("OK", [c EXCEPT !.out = <<>>]) ELSE Res("Err", c))
                       ELSE Res("Arg", [c EXCEPT !.out = IF neg THEN CutFirst(@, arg) ELSE Append(@, arg)])
CB_Cpu(neg, arg, c) == IF neg THEN Res("OK", [c EXCEPT !.cpu = ""])
                       ELSE IF arg = "" THEN Res("Err", c)
                       ELSE IF arg \in KnownCPU THEN Res("Arg", [c EXCEPT !.cpu = arg])
                       ELSE Res("Err", [c EXCEPT !.cpu = ""])
CB_Debug(neg, arg, c) == IF neg THEN (IF arg # "" THEN Res("Err", c) ELSE Res("OK", [c EXCEPT !.g = "none"]))
                         ELSE IF arg = "" THEN Res("OK", [c EXCEPT !.g = "MAP"])
                         ELSE IF arg \in DebugFormats THEN Res("Arg", [c EXCEPT !.g = arg])
                         ELSE Res("Err", c)
\* p2bin.c
\* CMD_FillVal: Negate unused; ConstLongInt("") is a valid 0, so a missing argument is accepted AND, since the
\* callback answers CMDArg, the scanner drops the parameter that follows
CB_Fill(neg, arg, c)  == IF arg = "" THEN (IF "EmptyNumberOK" \in c.devs THEN Res("Arg", [c EXCEPT !.fill = 0]) ELSE Res("Err", c))
                         ELSE IF ~NumOK(arg) THEN Res("Err", c) ELSE Res("Arg", [c EXCEPT !.fill = NumVal(arg)])
CB_Range(neg, arg, c) == IF neg THEN Res("OK", [c EXCEPT !.range = IF @ = "auto" THEN "auto" ELSE "0-0x7fff"])
                         ELSE IF arg \in Ranges THEN Res("Arg", [c EXCEPT !.range = arg]) ELSE Res("Err", c)
CB_Cks(neg, arg, c)   == Res("OK", [c EXCEPT !.cks = ~neg])
CB_Filter(neg, arg, c) == IF ~NumOK(arg) THEN Res("Err", c)                      \* toolutils.c CMD_FilterList
                          ELSE Res("Arg", [c EXCEPT !.filt = IF neg THEN FL!FCancel(@, NumVal(arg)) ELSE FL!FAdd(@, NumVal(arg))])

Call(prog, cb, neg, arg, c) ==
  CASE cb = "Quiet" -> CB_Quiet(prog, neg, arg, c)
    [] cb = "ListFile" -> CB_ListFile(neg, arg, c)   [] cb = "ListConsole" -> CB_ListConsole(neg, arg, c)
    [] cb = "Extend" -> CB_Extend(neg, arg, c)       [] cb = "Case" -> CB_Case(neg, arg, c)
    [] cb = "Use" -> CB_Use(neg, arg, c)             [] cb = "Def" -> CB_Def(neg, arg, c)
    [] cb = "Inc" -> CB_Inc(neg, arg, c)             [] cb = "Out" -> CB_Out(neg, arg, c)
    [] cb = "Cpu" -> CB_Cpu(neg, arg, c)             [] cb = "Debug" -> CB_Debug(neg, arg, c)
    [] cb = "Fill" -> CB_Fill(neg, arg, c)           [] cb = "Range" -> CB_Range(neg, arg, c)
    [] cb = "Cks" -> CB_Cks(neg, arg, c)             [] cb = "Filter" -> CB_Filter(neg, arg, c)

\* ---- option tables (CMDRec arrays; the part of ASParams / P2BINParams / PListParams the model covers) ------------
Rec(id, cb) == [ident |-> id, cb |-> cb]
AslRecs   == << Rec(<<"C","P","U">>, "Cpu"), Rec(<<"D">>, "Def"), Rec(<<"g">>, "Debug"), Rec(<<"i">>, "Inc"),
                Rec(<<"L">>, "ListFile"), Rec(<<"l">>, "ListConsole"), Rec(<<"o">>, "Out"), Rec(<<"q">>, "Quiet"),
                Rec(<<"Q","U","I","E","T">>, "Quiet"), Rec(<<"u">>, "Use"), Rec(<<"U">>, "Case"), Rec(<<"x">>, "Extend") >>
P2binRecs == << Rec(<<"f">>, "Filter"), Rec(<<"r">>, "Range"), Rec(<<"s">>, "Cks"), Rec(<<"l">>, "Fill"),
                Rec(<<"q">>, "Quiet"), Rec(<<"Q","U","I","E","T">>, "Quiet") >>
PlistRecs == << Rec(<<"q">>, "Quiet"), Rec(<<"Q","U","I","E","T">>, "Quiet") >>
Recs(prog) == CASE prog = "asl" -> AslRecs [] prog = "p2bin" -> P2binRecs [] OTHER -> PlistRecs

\* ---- ProcessParam ------------------------------------------------------------------------------------------------
\* scanner state: cfg, files = FileArgList, exit = "none" | "env" (ErrProc(True,..)) | "arg" (ErrProc(False,..)),
\* unproc = the Unprocessed[] mask over argv positions
RECURSIVE Letters(_, _, _, _, _, _, _)
Letters(prog, body, z, neg, arg, temp, c) ==            \* for (z = Start; z < strlen(Param); z++) if (TempRes != CMDErr) ...
  IF z > Len(body) \/ temp = "Err" THEN Res(temp, c)
  ELSE LET R == Recs(prog)
           hit == {k \in 1..Len(R) : Len(R[k].ident) = 1 /\ R[k].ident[1] = body[z]}
       IN IF hit = {} THEN Res("Err", c)
          ELSE LET r == Call(prog, R[Min(hit)].cb, neg, arg, c)
               IN Letters(prog, body, z + 1, neg, arg,
                          IF r.r = "Err" THEN "Err" ELSE IF r.r = "Arg" THEN "Arg" ELSE temp, r.cfg)

ParamSwitch(prog, param, arg, c) ==
  LET neg  == param.lead = "+"
      body == IF param.pfx = "#" THEN UpSeq(param.body) ELSE IF param.pfx = "~" THEN LowSeq(param.body) ELSE param.body
      s    == UpSeq(body)
      R    == Recs(prog)
      whole == {k \in 1..Len(R) : Len(R[k].ident) > 1 /\ R[k].ident = s}
  IN IF whole # {} THEN Call(prog, R[Min(whole)].cb, neg, arg, c)
     ELSE Letters(prog, body, 1, neg, arg, "OK", c)

\* AllowLink = False (a token of the environment variable or of a key file)
ParamInLine(prog, param, next, c) ==
  IF param.lead = "@" THEN Res("Err", c)                                  \* ErrMsgNoKeyInFile
  ELSE IF param.lead \in {"-", "+"} THEN ParamSwitch(prog, param, NextArg(next), c)
  ELSE Res("File", c)

RECURSIVE DL(_, _, _, _)
DL(prog, ws, z, st) ==
  IF st.exit # "none" \/ z > Len(ws) THEN st
  ELSE LET r == ParamInLine(prog, ws[z], IF z + 1 <= Len(ws) THEN ws[z + 1] ELSE NoWord, st.cfg)
       IN CASE r.r = "File" -> DL(prog, ws, z + 1, [st EXCEPT !.cfg = r.cfg, !.files = Append(@, AtomOf(ws[z]))])
            [] r.r = "Err"  -> [st EXCEPT !.cfg = r.cfg, !.exit = "env"]
            [] r.r = "Arg"  -> DL(prog, ws, z + 2, [st EXCEPT !.cfg = r.cfg])
            [] OTHER        -> DL(prog, ws, z + 1, [st EXCEPT !.cfg = r.cfg])
\* the text of a line: its words, separated by blanks unless the marker TabSep stands between two of them.
\* DecodeLine: p = strchr(start, ' '); if (!p) p = strchr(start, '\t');  - the first BLANK of the rest of the line ends the
\* token, a TAB only when no blank follows anywhere; the blanks and tabs behind the split are skipped
TabSep == [lead |-> "\t", pfx |-> "", body |-> <<>>]
IsTabSep(w) == w.lead = "\t"
WordsOf(ws) == SelectSeq(ws, LAMBDA w : ~IsTabSep(w))
RECURSIVE Pairs(_, _)
Pairs(ws, i) == IF i > Len(ws) THEN <<>>
                ELSE IF IsTabSep(ws[i]) THEN Pairs(ws, i + 1)
                ELSE <<[w |-> ws[i], sep |-> IF i + 1 <= Len(ws) /\ IsTabSep(ws[i + 1]) THEN "\t"
                                             ELSE IF i + 1 <= Len(ws) THEN " " ELSE ""]>> \o Pairs(ws, i + 1)
Glue(ps, a, b) == IF a = b THEN ps[a].w            \* several words and the tabs between them taken for one token
                  ELSE [ps[a].w EXCEPT !.body = IF ps[a].w.lead = "" THEN <<AtomOf(ps[a].w) \o "<TAB>...">> ELSE @ \o <<"\t", "...">>]
RECURSIVE Tok(_, _)
Tok(ps, s) == IF s > Len(ps) THEN <<>>
              ELSE LET sp == {j \in s..Len(ps) : ps[j].sep = " "}
                       tb == {j \in s..Len(ps) : ps[j].sep = "\t"}
                       j  == IF sp # {} THEN Min(sp) ELSE IF tb # {} THEN Min(tb) ELSE Len(ps)
                   IN <<Glue(ps, s, j)>> \o Tok(ps, j + 1)
Tokens(ws, devs) == IF \A i \in 1..Len(ws) : ~IsTabSep(ws[i]) THEN ws
                    ELSE IF "BlankBeforeTab" \in devs THEN Tok(Pairs(ws, 1), 1) ELSE WordsOf(ws)
DecodeLine(prog, ws, st) == LET ts == Tokens(ws, st.cfg.devs)
                            IN IF ts = <<>> \/ ts[1].lead = ";" THEN st ELSE DL(prog, ts, 1, st)

\* keys: key file name -> sequence of lines (a line = sequence of words)
RECURSIVE PF(_, _, _, _)
PF(prog, lines, i, st) == IF i > Len(lines) \/ st.exit # "none" THEN st
                          ELSE PF(prog, lines, i + 1, DecodeLine(prog, lines[i], st))
ProcessFile(prog, keys, k, st) == IF k \notin DOMAIN keys THEN [st EXCEPT !.exit = "env"]      \* ErrMsgKeyFileNotFound
                                  ELSE PF(prog, keys[k], 1, st)

ParamInArgv(prog, keys, param, next, st) ==                               \* AllowLink = True
  IF param.lead = "@" THEN [r |-> "OK", st |-> ProcessFile(prog, keys, AtomOf(param), st)]
  ELSE IF param.lead \in {"-", "+"}
       THEN LET r == ParamSwitch(prog, param, NextArg(next), st.cfg) IN [r |-> r.r, st |-> [st EXCEPT !.cfg = r.cfg]]
       ELSE [r |-> "File", st |-> st]

RECURSIVE AV(_, _, _, _, _)
AV(prog, keys, argv, z, st) ==
  IF st.exit # "none" \/ z > Len(argv) THEN st
  ELSE IF ~st.unproc[z] THEN AV(prog, keys, argv, z + 1, st)
  ELSE LET r == ParamInArgv(prog, keys, argv[z], IF z + 1 <= Len(argv) THEN argv[z + 1] ELSE NoWord, st)
       IN IF r.st.exit # "none" THEN r.st
          ELSE CASE r.r = "Err"  -> [r.st EXCEPT !.exit = "arg"]
                 [] r.r = "OK"   -> AV(prog, keys, argv, z + 1, [r.st EXCEPT !.unproc[z] = FALSE])
                 [] r.r = "Arg"  -> AV(prog, keys, argv, z + 1,            \* Unprocessed[z] = Unprocessed[z + 1] = False
                                       [r.st EXCEPT !.unproc = [y \in DOMAIN @ |-> IF y \in {z, z + 1} THEN FALSE ELSE @[y]]])
                 [] OTHER        -> AV(prog, keys, argv, z + 1, [r.st EXCEPT !.files = Append(@, AtomOf(argv[z]))])

\* an input: env = words of the environment variable (<<>> = unset), keys, argv = argv[1..]
MAXPARAM == 256                      \* typedef Boolean CMDProcessed[MAXPARAM + 1], indexed by argv position
ProcessCMD(prog, I, devs) ==
  IF Len(I.argv) > MAXPARAM              \* for (z = 0; z < argc; z++) Unprocessed[z] = ... : no bound in the code as pinned
  THEN [cfg |-> InitCfg(prog, devs), files |-> <<>>, exit |-> IF "MaskOverflow" \in devs THEN "overflow" ELSE "arg", unproc |-> <<>>]
  ELSE
  LET st0 == [cfg |-> InitCfg(prog, devs), files |-> <<>>, exit |-> "none", unproc |-> [z \in 1..Len(I.argv) |-> TRUE]]
      st1 == IF I.env # <<>> /\ I.env[1].lead = "@"                       \* if (EnvLine[0] == '@') ProcessFile(EnvLine + 1)
             THEN ProcessFile(prog, I.keys, IF Len(I.env) = 1 THEN AtomOf(I.env[1]) ELSE "<rest of the line>", st0)
             ELSE DecodeLine(prog, I.env, st0)
  IN AV(prog, I.keys, I.argv, 1, st1)

\* what the program sees afterwards: parameter error or (configuration, file arguments in order)
Unprocessed(I, st) == [k \in 1..Cardinality({z \in 1..Len(I.argv) : st.unproc[z]}) |->
                         AtomOf(I.argv[CHOOSE z \in 1..Len(I.argv) : st.unproc[z] /\ Cardinality({y \in 1..z : st.unproc[y]}) = k])]
Scan(prog, I, devs) ==
  LET st == ProcessCMD(prog, I, devs)
  IN IF st.exit = "overflow" THEN [err |-> TRUE, undef |-> TRUE]         \* memory behind the mask overwritten: anything may follow
     ELSE IF st.exit # "none" THEN [err |-> TRUE]
     ELSE [err |-> FALSE,                                \* QuietMode is only ever tested for zero / non-zero
           cfg |-> [f \in DOMAIN st.cfg \ {"devs"} |-> IF f = "quiet" THEN (IF st.cfg[f] > 0 THEN 1 ELSE 0) ELSE st.cfg[f]],
           files |-> IF prog = "asl" \/ "ToolFilesArgv" \notin devs THEN st.files ELSE Unprocessed(I, st)]

\* =================================================================================================================
\* DECLARATIVE SIDE
\* =================================================================================================================
BAR == [lead |-> "|", pfx |-> "", body |-> <<>>]            \* no argument may be taken from beyond this point
BADKEY == [lead |-> "!", pfx |-> "", body |-> <<>>]         \* reference to a key file that does not exist

Flat(seqs) == FoldLeft(LAMBDA a, b : a \o b, <<>>, seqs)
KeyWords(keys, k) == IF k \notin DOMAIN keys THEN <<BADKEY>>
                     ELSE Flat([i \in 1..Len(keys[k]) |-> IF keys[k][i] # <<>> /\ keys[k][i][1].lead = ";" THEN <<>>
                                                             ELSE WordsOf(keys[k][i]) \o <<BAR>>])
Flatten(I) ==
  LET e == IF I.env # <<>> /\ I.env[1].lead = "@"
           THEN (IF Len(I.env) = 1 THEN KeyWords(I.keys, AtomOf(I.env[1])) ELSE <<BADKEY>>)
           ELSE IF I.env # <<>> /\ I.env[1].lead = ";" THEN <<>> ELSE I.env
  IN e \o <<BAR>> \o Flat([z \in 1..Len(I.argv) |-> IF I.argv[z].lead = "@" THEN <<BAR>> \o KeyWords(I.keys, AtomOf(I.argv[z]))
                                                        ELSE <<I.argv[z]>>])

\* the manual's list of switches: spelling, argument of the plain and of the negated form ("none" | "req" | "opt")
QuietOpt == [id |-> "q", names |-> {<<"q">>, <<"Q","U","I","E","T">>}, arg |-> "none", narg |-> "none"]
AslDoc ==
  { QuietOpt,
    [id |-> "L", names |-> {<<"L">>}, arg |-> "none", narg |-> "none"],
    [id |-> "l", names |-> {<<"l">>}, arg |-> "none", narg |-> "none"],
    [id |-> "x", names |-> {<<"x">>}, arg |-> "none", narg |-> "none"],
    [id |-> "U", names |-> {<<"U">>}, arg |-> "none", narg |-> "none"],
    [id |-> "u", names |-> {<<"u">>}, arg |-> "none", narg |-> "none"],
    [id |-> "D", names |-> {<<"D">>}, arg |-> "req", narg |-> "req"],
    [id |-> "i", names |-> {<<"i">>}, arg |-> "req", narg |-> "req"],
    [id |-> "o", names |-> {<<"o">>}, arg |-> "req", narg |-> "opt"],      \* "A negation without a name erases the whole list"
    [id |-> "cpu", names |-> {<<"C","P","U">>}, arg |-> "req", narg |-> "none"],
    [id |-> "g", names |-> {<<"g">>}, arg |-> "opt", narg |-> "opt"] }
P2binDoc ==
  { QuietOpt,
    [id |-> "s", names |-> {<<"s">>}, arg |-> "none", narg |-> "none"],
    [id |-> "l", names |-> {<<"l">>}, arg |-> "req", narg |-> "req"],
    [id |-> "r", names |-> {<<"r">>}, arg |-> "req", narg |-> "none"],
    [id |-> "f", names |-> {<<"f">>}, arg |-> "req", narg |-> "req"] }
DocOpts(prog) == CASE prog = "asl" -> AslDoc [] prog = "p2bin" -> P2binDoc [] OTHER -> {QuietOpt}

\* a switch word resolves to the options it names: the whole word in any case, else letter by letter (exact case);
\* `#` / `~` force the case of what follows.  id "?" = not a switch of this program
Resolve(prog, w) ==
  LET body == IF w.pfx = "#" THEN UpSeq(w.body) ELSE IF w.pfx = "~" THEN LowSeq(w.body) ELSE w.body
      whole == {o \in DocOpts(prog) : \E n \in o.names : Len(n) > 1 /\ n = UpSeq(body)}
      One(ch) == LET m == {o \in DocOpts(prog) : <<ch>> \in o.names} IN IF m = {} THEN [id |-> "?", names |-> {}, arg |-> "none", narg |-> "none"] ELSE (CHOOSE o \in m : TRUE)
  IN IF whole # {} THEN <<CHOOSE o \in whole : TRUE>> ELSE [i \in 1..Len(body) |-> One(body[i])]

\* is the text a legal argument of the option (manual: list of CPUs, formats MAP / NOICE / ATMEL, symbol names and
\* expressions without symbols, 8-bit fill value ...)
GoodArg(prog, id, neg, a) ==
  CASE prog = "asl" /\ id = "D" -> \A i \in 1..Len(DefParts(a)) : DefParts(a)[i].n # "?" /\ (neg \/ DefParts(a)[i].v # BadVal)
    [] prog = "asl" /\ id = "cpu" -> a \in KnownCPU
    [] prog = "asl" /\ id = "g" -> ~neg /\ a \in DebugFormats
    [] prog = "p2bin" /\ id = "l" -> NumOK(a)
    [] prog = "p2bin" /\ id = "f" -> NumOK(a)
    [] prog = "p2bin" /\ id = "r" -> a \in Ranges
    [] OTHER -> TRUE

\* items: [k |-> "occ", id, neg, arg ("" = none)] | [k |-> "file", f] | [k |-> "err"] | [k |-> "unspec"]
RECURSIVE Parse(_, _, _)
Parse(prog, ws, i) ==
  IF i > Len(ws) THEN <<>>
  ELSE LET w == ws[i]
           nx == IF i + 1 <= Len(ws) THEN ws[i + 1] ELSE BAR
       IN CASE w.lead = "|" -> Parse(prog, ws, i + 1)
            [] w.lead \in {"!", "@"} -> <<[k |-> "err"]>>           \* missing key file; key reference that was not spliced
            [] w.lead = "" -> <<[k |-> "file", f |-> AtomOf(w)]>> \o Parse(prog, ws, i + 1)
            [] OTHER ->
               LET os  == Resolve(prog, w)
                   neg == w.lead = "+"
               IN IF \E j \in 1..Len(os) : os[j].id = "?" THEN <<[k |-> "err"]>>
                  ELSE IF Len(os) = 0 THEN <<[k |-> "unspec"]>>
                  ELSE IF Len(os) > 1
                  THEN IF \A j \in 1..Len(os) : (IF neg THEN os[j].narg ELSE os[j].arg) = "none"
                       THEN [j \in 1..Len(os) |-> [k |-> "occ", id |-> os[j].id, neg |-> neg, arg |-> ""]] \o Parse(prog, ws, i + 1)
                       ELSE <<[k |-> "unspec"]>>                    \* several switches at one time only without arguments
                  ELSE LET o  == os[1]
                           ar == IF neg THEN o.narg ELSE o.arg
                       IN CASE ar = "none" -> <<[k |-> "occ", id |-> o.id, neg |-> neg, arg |-> ""]>> \o Parse(prog, ws, i + 1)
                            [] ar = "req" -> IF IsPlain(nx) /\ GoodArg(prog, o.id, neg, AtomOf(nx))
                                             THEN <<[k |-> "occ", id |-> o.id, neg |-> neg, arg |-> AtomOf(nx)]>> \o Parse(prog, ws, i + 2)
                                             ELSE <<[k |-> "err"]>>
                            [] OTHER -> IF IsPlain(nx)
                                        THEN IF GoodArg(prog, o.id, neg, AtomOf(nx))
                                             THEN <<[k |-> "occ", id |-> o.id, neg |-> neg, arg |-> AtomOf(nx)]>> \o Parse(prog, ws, i + 2)
                                             ELSE <<[k |-> "err"]>>
                                        ELSE <<[k |-> "occ", id |-> o.id, neg |-> neg, arg |-> ""]>> \o Parse(prog, ws, i + 1)

\* the documented meaning of one occurrence (c has no devs field here)
Sat(v, d) == IF v + d < 0 THEN 0 ELSE IF v + d > 2 THEN 2 ELSE v + d
DefFold(defs, parts, neg, U) ==
  FoldLeft(LAMBDA d, p : LET n == IF U THEN p.n ELSE UpName(p.n)
                          IN IF neg THEN DropDef(d, n) ELSE Append(DropDef(d, n), [n |-> n, v |-> p.v]), defs, parts)
IncFold(inc, parts, neg) ==                 \* searched first: the directory given last (order: manual silent)
  FoldLeft(LAMBDA l, p : IF neg THEN SelectSeq(l, LAMBDA d : d # p) ELSE IF p \in Range(l) THEN l ELSE <<p>> \o l,
           inc, Reverse(parts))
Apply(prog, c, o) ==
  CASE o.id = "q" -> [c EXCEPT !.quiet = IF o.neg THEN 0 ELSE 1]
    [] o.id = "L" -> [c EXCEPT !.list = IF ~o.neg THEN 2 ELSE IF @ = 2 THEN 0 ELSE @]
    [] o.id = "x" -> [c EXCEPT !.x = Sat(@, IF o.neg THEN -1 ELSE 1)]
    [] o.id = "U" -> [c EXCEPT !.U = ~o.neg]
    [] o.id = "u" -> [c EXCEPT !.u = ~o.neg]
    [] o.id = "D" -> [c EXCEPT !.defs = DefFold(@, DefParts(o.arg), o.neg, c.U)]
    [] o.id = "i" -> [c EXCEPT !.inc = IncFold(@, PathParts(o.arg), o.neg)]
    [] o.id = "o" -> [c EXCEPT !.out = IF ~o.neg THEN Append(@, o.arg) ELSE IF o.arg = "" THEN <<>> ELSE CutFirst(@, o.arg)]
    [] o.id = "cpu" -> [c EXCEPT !.cpu = IF o.neg THEN "" ELSE o.arg]
    [] o.id = "g" -> [c EXCEPT !.g = IF o.neg THEN "none" ELSE IF o.arg = "" THEN "MAP" ELSE o.arg]
    [] o.id = "s" -> [c EXCEPT !.cks = ~o.neg]
    [] o.id = "r" -> [c EXCEPT !.range = IF o.neg THEN (IF @ = "auto" THEN "auto" ELSE "0-0x7fff") ELSE o.arg]
    [] o.id = "f" -> [c EXCEPT !.filt = IF o.neg THEN FL!FCancel(@, NumVal(o.arg)) ELSE FL!FAdd(@, NumVal(o.arg))]
    [] o.id = "l" -> IF prog = "p2bin" THEN [c EXCEPT !.fill = NumVal(o.arg)]
                     ELSE [c EXCEPT !.list = IF ~o.neg THEN 1 ELSE IF @ = 1 THEN 0 ELSE @]

\* what the manual leaves open about an occurrence sequence (the scanner's answer is then only recorded)
Open(prog, items) ==
  \/ \E i \in 1..Len(items) : items[i].k = "unspec"
  \/ prog = "p2bin" /\ \E i \in 1..Len(items) : items[i].k = "occ" /\ items[i].id = "l" /\ items[i].neg      \* negated fill value

Meaning(prog, items) ==
  LET bad == {i \in 1..Len(items) : items[i].k \in {"err", "unspec"}}
      c0  == InitCfg(prog, {})
  IN IF bad # {} THEN [err |-> TRUE]
     ELSE [err |-> FALSE,
           cfg |-> LET full == FoldLeft(LAMBDA c, it : IF it.k = "occ" THEN Apply(prog, c, it) ELSE c, c0, items)
                   IN [f \in DOMAIN full \ {"devs"} |-> full[f]],
           files |-> LET fs == SelectSeq(items, LAMBDA it : it.k = "file") IN [j \in 1..Len(fs) |-> fs[j].f]]

\* the manual names no limit for the number of parameters; beyond the implementation's 256 nothing is promised
Items(prog, I) == IF Len(I.argv) > MAXPARAM THEN <<[k |-> "unspec"]>> ELSE Parse(prog, Flatten(I), 1)
Spec(prog, I)  == Meaning(prog, Items(prog, I))
Specified(prog, I) == ~Open(prog, Items(prog, I))

\* =================================================================================================================
\* THE PROGRAMS BEHIND THE OPTION LAYER (the same function for either side's result)
\* =================================================================================================================
\* asl main(): exit(4) from ParamError; else every file argument in order through AssembleGroup/AssembleFile, the
\* -o names handed out one per file (GetFromOutList).  The probe source shows: target = code-file header, the
\* symbols A, a, B as it sees them, which inc.inc it found.
Lookup(c, name) ==
  LET hits == {i \in 1..Len(c.defs) : IF c.U THEN c.defs[i].n = name ELSE UpName(c.defs[i].n) = UpName(name)}
  IN IF hits = {} THEN 0 ELSE IF Cardinality(hits) > 1 THEN Ambiguous ELSE c.defs[CHOOSE i \in hits : TRUE].v
IncWinner(c) == LET ok == {i \in 1..Len(c.inc) : c.inc[i] \in IncDirs} IN IF ok = {} THEN "none" ELSE c.inc[Min(ok)]
RECURSIVE Outputs(_, _, _)
Outputs(c, files, out) ==
  IF files = <<>> THEN <<>>
  ELSE IF Head(files) \notin SourceFiles THEN <<[src |-> Head(files), missing |-> TRUE]>>     \* fatal: cannot open, run ends
  ELSE <<[src |-> Head(files), missing |-> FALSE, name |-> IF out = <<>> THEN "<default>" ELSE Head(out),
          cpu |-> IF c.cpu = "" THEN "68008" ELSE c.cpu, A |-> Lookup(c, "A"), a |-> Lookup(c, "a"), B |-> Lookup(c, "B"),
          inc |-> IncWinner(c)]>> \o Outputs(c, Tail(files), IF out = <<>> THEN <<>> ELSE Tail(out))
Undefined == 99                     \* status marker: undefined behaviour, nothing is predicted
RunAsl(r) ==
  IF "undef" \in DOMAIN r THEN [status |-> Undefined]
  ELSE IF r.err THEN [status |-> 4, outs |-> <<>>]
  ELSE LET outs == Outputs(r.cfg, r.files, r.cfg.out)
           fatal == \E i \in 1..Len(outs) : outs[i].missing
           done  == SelectSeq(outs, LAMBDA o : ~o.missing)
           some  == done # <<>>                           \* listing, debug file and messages need an assembled file to show
       IN [status |-> IF fatal THEN 3 ELSE 0, outs |-> done, banner |-> r.cfg.quiet = 0,
           list |-> IF some THEN r.cfg.list ELSE 0, x |-> IF some THEN r.cfg.x ELSE 0, g |-> IF some THEN r.cfg.g ELSE "none",
           incboth |-> {"p1", "p2"} \subseteq Range(r.cfg.inc)]
\* utilities: exit(1) from ParamError; p2bin: the last file argument is the target, the others are sources
RunTool(prog, r) ==
  IF "undef" \in DOMAIN r THEN [status |-> Undefined]
  ELSE IF r.err THEN [status |-> 1]
  ELSE [status |-> 0, cfg |-> r.cfg, files |-> r.files]           \* 0 = no parameter error; what follows is the tool's work

Run(prog, r) == IF prog = "asl" THEN RunAsl(r) ELSE RunTool(prog, r)

\* main(): if (argc <= 1) the help text and exit(1), before ProcessCMD - the environment variable is not even read
\* (manual: "1  The assembler displayed only its command-line parameters and terminated immediately afterwards";
\* utilities: 1 = error in command line parameters).  plist asks for the file name instead (not modelled).
NoParams(prog) == IF prog = "asl" THEN [status |-> 1, outs |-> <<>>, banner |-> TRUE] ELSE [status |-> 1]
Outcome(prog, I, devs) == IF I.argv = <<>> /\ prog # "plist" THEN NoParams(prog) ELSE Run(prog, Scan(prog, I, devs))
DocOutcome(prog, I)    == IF I.argv = <<>> /\ prog # "plist" THEN NoParams(prog) ELSE Run(prog, Spec(prog, I))
=============================================================================
