----------------------------- MODULE CmdLine_MC -----------------------------
(* (M) Exhaustive check of the option layer: every sequence of <= MaxOcc occurrence templates of program Prog      *)
(* (Alphabet = "all" | "core"), in every placement of CmdLineCases: command line with the file arguments first or    *)
(* last, environment variable, key file named on the command line / in the variable (one occurrence per line, after  *)
(* a remark and an empty line), key file of one line with blanks / with tabs / with a tab and then blanks, split      *)
(* environment | command line at every position, every single occurrence moved into a key file in place.             *)
(*   ScanIsFold          the scanner without the named deviations computes Spec = Meaning(Parse(Flatten(I))) on      *)
(*                       every input the manual decides (not Open)                                                   *)
(*   DeviationsAreNamed  wherever the scanner AS CODED differs from Spec, one of the named deviations is live         *)
(*   PlaceNeverMatters   the scanner as coded gives equal results for any two placements of a sequence that parse    *)
(*                       to the same occurrences (C17: the place an option is given never alters the outcome);       *)
(*                       the deviations ToolFilesArgv, EmptyNumberOK, BlankBeforeTab are place-sensitive by nature    *)
(*                       and are taken out (NoFileDev)                                                               *)
(*   EnvBeforeArgv       as coded: moving the leading occurrences of a command line into the environment variable     *)
(*                       changes nothing                                                                             *)
(*   ErrorIsFinal        a parameter error leaves nothing to run (status 4 / 1, no outputs)                          *)
(* Measured (4 workers): asl all 42 templates <= 2: 1 807 states 7 s; <= 3: 75 895 states 4 min; asl core 14          *)
(* templates <= 4: 41 371 states 3.5 min; p2bin 21 templates <= 3: 9 724 states; plist 10 templates <= 4: 11 111.     *)
(* CmdLine_MC_Coded.cfg (invariant CodedIsFold, expected to FAIL) shows that the deviations are observable inside     *)
(* the bound: TLC reports e.g. -q -D A in a key file line `-q<TAB>-D A`, -q -q +q, -D A -D A=2, -i p1 +i p2.            *)
EXTENDS CmdLineCases

CONSTANTS Prog, MaxOcc, Alphabet

VARIABLE seq
Idx == IF Alphabet = "core" THEN Core(Prog) ELSE 1..Len(Templates(Prog))
Init == seq = <<>>
Next == /\ Len(seq) < MaxOcc
        /\ \E i \in Idx : seq' = Append(seq, i)
SpecMC == Init /\ [][Next]_seq

Inputs == {Place(Prog, seq, pl) : pl \in Placements(Len(seq))}
NoFileDev == Devs \ {"ToolFilesArgv", "EmptyNumberOK", "BlankBeforeTab"}       \* these make the place matter
\* everything the invariants need about one input, computed once
Facts(I) == LET it == Items(Prog, I)
                sd == Scan(Prog, I, Devs)
            IN [I |-> I, it |-> it, open |-> Open(Prog, it), sp |-> Meaning(Prog, it), s0 |-> Scan(Prog, I, {}), sd |-> sd,
                sn |-> IF Prog = "asl" /\ ~HasTab(I) THEN sd ELSE Scan(Prog, I, NoFileDev)]    \* asl: only the tab rule is place-sensitive
AllFacts == {Facts(I) : I \in Inputs}

ScanIsFold  == \A f \in AllFacts : ~f.open => f.s0 = f.sp
CodedIsFold == \A f \in AllFacts : ~f.open => f.sd = f.sp
DeviationsAreNamed == \A f \in AllFacts : ~f.open /\ f.sd # f.sp => LiveDevs(Prog, f.I) # {}
PlaceNeverMatters == \A f, g \in AllFacts : ~f.open /\ f.it = g.it => f.sn = g.sn
EnvBeforeArgv ==
  \A j \in 1..Len(seq) :
     LET n == Len(seq)
         I == [env |-> TW(Prog, seq, 1, j), keys |-> "kd" :> FixedKey(Prog), argv |-> Main(Prog) \o TW(Prog, seq, j + 1, n)]
         J == [env |-> <<>>, keys |-> "kd" :> FixedKey(Prog), argv |-> Main(Prog) \o TW(Prog, seq, 1, n)]
         it == Items(Prog, I)
     IN ~Open(Prog, it) /\ it = Items(Prog, J) => Scan(Prog, I, NoFileDev) = Scan(Prog, J, NoFileDev)
ErrorIsFinal == \A f \in AllFacts : f.sd.err => Run(Prog, f.sd) = (IF Prog = "asl" THEN [status |-> 4, outs |-> <<>>] ELSE [status |-> 1])
=============================================================================
