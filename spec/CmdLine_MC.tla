----------------------------- MODULE CmdLine_MC -----------------------------
(* (M) Exhaustive check of the option layer: every sequence of <= MaxOcc occurrence templates of program Prog      *)
(* (Alphabet = "all" | "core"), in every placement of CmdLineCases (command line, file first or last, environment   *)
(* variable, key file from the command line / from the variable / one line, split environment | command line, one    *)
(* occurrence moved into a key file in place).                                                                      *)
(*   ScanIsFold          the scanner without the named deviations computes Spec = Meaning(Parse(Flatten(I))) on      *)
(*                       every input the manual decides (Specified)                                                  *)
(*   PlaceNeverMatters   the scanner AS CODED gives equal results for any two placements of a sequence that parse    *)
(*                       to the same occurrences (C17: the place an option is given never alters the outcome)        *)
(*   EnvBeforeArgv       as coded: moving the occurrences from the command line into the environment variable in     *)
(*                       front of a sequence is the same as writing them first                                        *)
(*   ErrorIsFinal        a parameter error leaves nothing to run (status 4 / 1, no outputs)                          *)
(*   DeviationsAreNamed  wherever the scanner as coded differs from Spec, one of the named deviations is live         *)
(* CmdLine_MC_Coded.cfg (invariant CodedIsFold, expected to FAIL) shows that the deviations are observable inside     *)
(* the bound: TLC reports e.g. -q -q +q, -D A -D A=2, -i p1 +i p2.                                                    *)
EXTENDS CmdLineCases

CONSTANTS Prog, MaxOcc, Alphabet

VARIABLE seq
Idx == IF Alphabet = "core" THEN Core(Prog) ELSE 1..Len(Templates(Prog))
Init == seq = <<>>
Next == /\ Len(seq) < MaxOcc
        /\ \E i \in Idx : seq' = Append(seq, i)
SpecMC == Init /\ [][Next]_seq

Inputs == {Place(Prog, seq, pl) : pl \in Placements(Len(seq))}
NoFileDev == Devs \ {"ToolFilesArgv", "EmptyNumberOK"}       \* these two make the place matter (utilities only)
\* everything the invariants need about one input, computed once
Facts(I) == LET it == Items(Prog, I)
                sd == Scan(Prog, I, Devs)
            IN [I |-> I, it |-> it, open |-> Open(Prog, it), sp |-> Meaning(Prog, it), s0 |-> Scan(Prog, I, {}), sd |-> sd,
                sn |-> IF Prog = "asl" THEN sd ELSE Scan(Prog, I, NoFileDev)]
AllFacts == {Facts(I) : I \in Inputs}

ScanIsFold  == \A f \in AllFacts : ~f.open => f.s0 = f.sp
CodedIsFold == \A f \in AllFacts : ~f.open => f.sd = f.sp
DeviationsAreNamed == \A f \in AllFacts : ~f.open /\ f.sd # f.sp => LiveDevs(Prog, f.I) # {}
PlaceNeverMatters == \A f, g \in AllFacts : ~f.open /\ f.it = g.it => f.sn = g.sn
EnvBeforeArgv ==
  \A j \in 1..Len(seq) :
     LET n == Len(seq)
         I == [env |-> TW(Prog, seq, 1, j), keys |-> "kd" :> FixedKey(Prog), argv |-> Main(Prog) \o TW(Prog, seq, j + 1, n)]
         J == [env |-> <<>>, keys |-> "kd" :> FixedKey(Prog), argv |-> Main(Prog) \o TW(Prog, seq, 1, n)]
         it == Items(Prog, I)
     IN ~Open(Prog, it) /\ it = Items(Prog, J) => Scan(Prog, I, NoFileDev) = Scan(Prog, J, NoFileDev)
ErrorIsFinal == \A f \in AllFacts : f.sd.err => Run(Prog, f.sd) = (IF Prog = "asl" THEN [status |-> 4, outs |-> <<>>] ELSE [status |-> 1])
=============================================================================
