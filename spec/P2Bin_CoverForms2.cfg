\* replayed exhaustively (thorough): the space of P2Bin_MC_formsseg.cfg
CONSTANTS
  Dev = {}
  MaxRecs = 3
  Starts = {0, 3}
  UnitLens = {2}
  GranSet = {}
  EntryAddrs = {}
  Offsets = {}
  FillSet = {255}
  SumOpts = {FALSE}
  SegOpts = {1, 2, 7}
  CpuSegs <- CS_FormsSeg
  Ranges <- R_Forms
  LaneSet <- L_Forms
  FiltSet <- F_None
  ESet <- E_None
  HdrSet <- H_None
SPECIFICATION FormCoverSpec
CHECK_DEADLOCK FALSE
