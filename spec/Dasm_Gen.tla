------------------------------- MODULE Dasm_Gen -------------------------------
(* Generator of valid instruction streams for the DASL round trip (C15), run with TLC -simulate.       *)
(* A program is a sequence of MaxItems items:                                                         *)
(*   [k = "ins", f = form of the ISA table, ops]   operands are drawn from the legal operand pool of    *)
(*        each field; the control-flow target operand (f.tf) is the INDEX of another item and is       *)
(*        resolved to that item's address once the layout is known                                    *)
(*   [k = "data", bytes]   embedded data: only directly behind an instruction that never falls through *)
(*   [k = "vec", tgt]      a 2-byte big-endian vector holding the address of instruction item tgt      *)
(*                          (6800 only), given to DASL as an indirect entry address                    *)
(* The last item is always an instruction that does not fall through.  A finished program is a VALID    *)
(* instruction stream iff all operands are legal at their addresses, all targets are instruction items,*)
(* and, by the Dasm reachability closure, control flow from the entries stays inside instructions of    *)
(* the image without overlaps and never runs into data.  Only valid streams are printed, together with  *)
(* the image (Encode), the entries, and the code/data areas the Dasm worklist model marks.             *)
EXTENDS Integers, Sequences, FiniteSets, TLC, Json
CONSTANTS IsaName, Cpu, MaxItems, Orgs, WithVectors, MaxEntries

I4 == INSTANCE Isa4004
I8 == INSTANCE Isa6800
Forms == IF IsaName = "4004" THEN I4!Forms ELSE I8!Forms
AddrMax == IF IsaName = "4004" THEN I4!AddrMax ELSE I8!AddrMax
FormsOfCpu == {f \in Forms : Cpu \in f.cpus}
FormsG == {f \in FormsOfCpu : ~f.alias}
OpTable == [x \in 0..255 |-> I4!FormsMatching(FormsOfCpu, x, 8)]
INSTANCE Dasm

VARIABLES prog, org
vars == <<prog, org>>

NoFall(f) == f.flow \in {"jump", "ret", "stop"}

\* legal operand pool of a non-target field: limits, midpoint, characteristic bit patterns, one random value
Pool(fld) ==
  IF fld.k = "enum" THEN {RandomElement(1..Len(fld.names))}
  ELSE {v \in {fld.lo, fld.hi, (fld.lo + fld.hi) \div 2, 0, 1, 18, 127, 128, 255, 256, 4660, 43981, 65535,
               RandomElement(fld.lo..fld.hi)} : fld.lo <= v /\ v <= fld.hi}

RECURSIVE OpsChoices(_, _)
\* set of operand tuples for form f, fields i..n; the target field gets an item index
OpsChoices(f, i) ==
  IF i > Len(f.flds) THEN {<<>>}
  ELSE LET heads == IF i = f.tf THEN 1..MaxItems ELSE {RandomElement(Pool(f.flds[i]))}
       IN {<<h>> \o t : h \in heads, t \in OpsChoices(f, i + 1)}

Items(S) == UNION {{[k |-> "ins", f |-> f, ops |-> o, bytes |-> <<>>, tgt |-> 0] : o \in OpsChoices(f, 1)} : f \in S}
DataItems == {[k |-> "data", f |-> [id |-> "data"], ops |-> <<>>, bytes |-> [i \in 1..n |-> RandomElement(0..255)], tgt |-> 0] : n \in 1..4}
VecItems == IF WithVectors THEN {[k |-> "vec", f |-> [id |-> "vec"], ops |-> <<>>, bytes |-> <<>>, tgt |-> j] : j \in 1..MaxItems} ELSE {}

PrevNoFall == Len(prog) > 0 /\ prog[Len(prog)].k = "ins" /\ NoFall(prog[Len(prog)].f)
PrevIsData == Len(prog) > 0 /\ prog[Len(prog)].k # "ins"

Init == prog = <<>> /\ org \in Orgs

\* one random item per step (TLC -simulate draws the random numbers).  A category is drawn first so that data,
\* vectors, terminators and branches/calls are frequent enough; inside a category every form of the table has
\* the same weight per operand tuple, a branch form one tuple per possible target item.
NoFallForms == {f \in FormsG : NoFall(f)}
FlowForms == {f \in FormsG : f.flow \in {"cond", "call"}}
Choices ==
  LET c == RandomElement(1..20) IN
  IF Len(prog) = MaxItems - 1 THEN Items(NoFallForms)
  ELSE IF (PrevNoFall \/ PrevIsData) /\ c <= 8 THEN (IF c <= 4 \/ ~WithVectors THEN DataItems ELSE VecItems)
  ELSE IF c <= 10 THEN Items(NoFallForms)
  ELSE IF c <= 13 THEN Items(FlowForms)
  ELSE Items(FormsG)

Next == /\ Len(prog) < MaxItems
        /\ prog' = Append(prog, RandomElement(Choices))
        /\ UNCHANGED org

\* ---------------------------------------------------------------------------------- layout and image
LenOf(it) == CASE it.k = "ins" -> Len(it.f.enc) [] it.k = "data" -> Len(it.bytes) [] OTHER -> 2
RECURSIVE AddrOf(_)
AddrOf(i) == IF i = 1 THEN org ELSE AddrOf(i - 1) + LenOf(prog[i - 1])
IsIns(j) == j \in 1..Len(prog) /\ prog[j].k = "ins"
Resolved(i) == LET it == prog[i] IN
  [x \in 1..Len(it.ops) |-> IF x = it.f.tf THEN (IF IsIns(it.ops[x]) THEN AddrOf(it.ops[x]) ELSE -1) ELSE it.ops[x]]
ItemOK(i) == LET it == prog[i] IN
  CASE it.k = "ins" -> AllLegal(it.f, Resolved(i), AddrOf(i), AddrMax)
    [] it.k = "vec" -> IsIns(it.tgt)
    [] OTHER -> TRUE
BytesOfItem(i) == LET it == prog[i] IN
  CASE it.k = "ins" -> EncodeRaw(it.f, Resolved(i), AddrOf(i))
    [] it.k = "data" -> it.bytes
    [] OTHER -> <<AddrOf(it.tgt) \div 256, AddrOf(it.tgt) % 256>>
RECURSIVE Concat(_)
Concat(i) == IF i > Len(prog) THEN <<>> ELSE BytesOfItem(i) \o Concat(i + 1)

ImageSeq == Concat(1)
Img == [a \in org..(org + Len(ImageSeq) - 1) |-> ImageSeq[a - org + 1]]
InsStarts == {AddrOf(i) : i \in {j \in 1..Len(prog) : prog[j].k = "ins"}}
DataCells == UNION {AddrOf(i)..(AddrOf(i) + LenOf(prog[i]) - 1) : i \in {j \in 1..Len(prog) : prog[j].k # "ins"}}
Vecs == {<<AddrOf(i), 2>> : i \in {j \in 1..Len(prog) : prog[j].k = "vec"}}
VecList == {<<AddrOf(i), AddrOf(prog[i].tgt)>> : i \in {j \in 1..Len(prog) : prog[j].k = "vec"}}

\* direct entries: the first instruction + up to MaxEntries - 1 random instruction starts
Entries == {org} \cup {RandomElement(InsStarts) : n \in 1..RandomElement(0..(MaxEntries - 1))}
AllEntries(E) == E \cup {v[2] : v \in VecList}

Finished == Len(prog) = MaxItems
WellFormed == prog[1].k = "ins" /\ \A i \in 1..Len(prog) : ItemOK(i)
ValidStream(E) ==
  /\ FlowStaysInside(Img, AllEntries(E))
  /\ NoOverlap(Img, AllEntries(E))
  /\ ReachStarts(Img, AllEntries(E)) \subseteq InsStarts
  /\ ReachBytes(Img, AllEntries(E)) \cap DataCells = {}

Out(E) ==
  LET fin == Run(Img, InitState(AllEntries(E), Vecs)) IN
  [isa |-> IsaName, cpu |-> Cpu, org |-> org, bytes |-> ImageSeq, entries |-> E, vecs |-> VecList,
   code |-> fin.code, data |-> fin.data, reach |-> ReachBytes(Img, AllEntries(E)),
   ids |-> [i \in 1..Len(prog) |-> IF prog[i].k = "ins" THEN prog[i].f.id ELSE prog[i].k],
   starts |-> ReachStarts(Img, AllEntries(E)),
   \* <<address, target>> of every reachable instruction with a control-flow target operand, decoded by the ISA table
   \* (in-page / relative rules applied to the instruction's own address): the label a disassembler must print
   targets |-> {<<a, DecodeAt(Img, a).tgt>> : a \in {s \in ReachStarts(Img, AllEntries(E)) : DecodeAt(Img, s).tgt >= 0}},
   \* addresses directly behind reachable indirect jumps (flow "stop"): a tracer must not continue there
   stopends |-> {a + DecodeAt(Img, a).len : a \in {s \in ReachStarts(Img, AllEntries(E)) : DecodeAt(Img, s).flow = "stop"}}]

Dump == Finished =>
          (IF WellFormed THEN LET E == Entries IN (IF ValidStream(E) THEN PrintT(<<"BEH", ToJson(Out(E))>>) ELSE TRUE)
           ELSE TRUE)
=============================================================================
