\* sensitivity of the case space: with the reset of the per-argument file offset taken out of RemoveOffset()
\* (a source file named WITHOUT "(offset)" inherits the offset of the argument handled before it, also from the
\* MeasureFile walk into the ProcessFile walk) the public verdict is EXPECTED to fail on some case (otherwise the
\* case space cannot see state that leaks from one source argument / one walk of the file list into the next)
SPECIFICATION Spec
CONSTANTS
  Starts = {0}
  UnitLens = {5}
  Grans = {1}
  LineLens = {5}
  Relocs = {0}
  Fmts = {"INTEL"}
  Devs = {"CarryOffset"}
  Full = FALSE
INVARIANTS InvVerdict
CHECK_DEADLOCK FALSE
