\* quick tier: repaired model, reduced option space
SPECIFICATION GSpec
CONSTANTS
  Starts = {0, 65533, 1048573, 16777213}
  UnitLens = {5}
  Grans = {1, 2}
  LineLens = {2, 5}
  Relocs = {0, 65536}
  Fmts = {"MOTO", "INTEL", "INTEL16", "INTEL32", "MOS", "TEK", "ATMEL", "C"}
  Devs = {}
  Full = FALSE
INVARIANTS InvLinesValid InvVerdict InvDecodeEquiv InvEmit InvLineLen InvBank InvWholeUnits InvGroupReset InvArgOffsets
CHECK_DEADLOCK FALSE
