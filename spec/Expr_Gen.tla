----------------------------- MODULE Expr_Gen -----------------------------
(* Case generation for replay into the real assembler: every state is one formula, the invariant Emit   *)
(* prints its character sequence together with the result computed by Expr!EvalT.                       *)
(*   mode "bin"  : every operator x every pair of operands of the boundary alphabet (+ one-operand ops) *)
(*   mode "fun"  : the built-in functions over their small domains (incl. negative / oversized indices, *)
(*                 wrong argument types and counts)                                                     *)
(*   mode "alias": the operator spellings the manual lists as aliases                                   *)
(*   mode "sim"  : random growth of formula trees up to depth MaxDepth (TLC -simulate)                   *)
(* Atoms are described, not spelled: the renderer writes an integer atom from its digit list in the     *)
(* notation of the target, a float atom as the exact decimal expansion of m*2^e, a string atom in        *)
(* quotes; the values below are computed from the same descriptions.                                    *)
EXTENDS Expr, TLC, Json
CONSTANTS Level,        \* 1 = quick alphabet, 2 = full alphabet
          MaxDepth      \* bound for "sim"

\* ---- atom descriptions --------------------------------------------------------------------------------
IntAtom(ds, b) == [ty |-> "int", digits |-> ds, base |-> b]
FltAtom(s, m, e) == [ty |-> "flt", s |-> s, m |-> m, e |-> e]
StrAtom(cs) == [ty |-> "str", cs |-> cs]
F15 == <<15, 15, 15, 15, 15, 15, 15, 15, 15, 15, 15, 15, 15, 15, 15>>

AtomDefs ==
  [i0 |-> IntAtom(<<0>>, 10), i1 |-> IntAtom(<<1>>, 10), i2 |-> IntAtom(<<2>>, 10), i3 |-> IntAtom(<<3>>, 10),
   i5 |-> IntAtom(<<5>>, 10), i6 |-> IntAtom(<<6>>, 10), i7 |-> IntAtom(<<7>>, 10), i8 |-> IntAtom(<<8>>, 10),
   i12 |-> IntAtom(<<1, 2>>, 10), i31 |-> IntAtom(<<3, 1>>, 10), i32 |-> IntAtom(<<3, 2>>, 10), i33 |-> IntAtom(<<3, 3>>, 10),
   i63 |-> IntAtom(<<6, 3>>, 10), i64 |-> IntAtom(<<6, 4>>, 10), i65 |-> IntAtom(<<6, 5>>, 10), i90 |-> IntAtom(<<9, 0>>, 10),
   i91 |-> IntAtom(<<9, 1>>, 10), i96 |-> IntAtom(<<9, 6>>, 10), i97 |-> IntAtom(<<9, 7>>, 10), i122 |-> IntAtom(<<1, 2, 2>>, 10),
   i123 |-> IntAtom(<<1, 2, 3>>, 10), i127 |-> IntAtom(<<1, 2, 7>>, 10), i200 |-> IntAtom(<<2, 0, 0>>, 10),
   i255 |-> IntAtom(<<15, 15>>, 16), i256 |-> IntAtom(<<1, 0, 0>>, 16), i1000 |-> IntAtom(<<1, 0, 0, 0>>, 10),
   h5a |-> IntAtom(<<5, 10, 5, 10>>, 16),
   i4 |-> IntAtom(<<4>>, 10), p32p1 |-> IntAtom(<<1, 0, 0, 0, 0, 0, 0, 0, 1>>, 16), p32p3 |-> IntAtom(<<1, 0, 0, 0, 0, 0, 0, 0, 3>>, 16),
   p32p97 |-> IntAtom(<<1, 0, 0, 0, 0, 0, 0, 6, 1>>, 16),
   p31 |-> IntAtom(<<8, 0, 0, 0, 0, 0, 0, 0>>, 16), p31m |-> IntAtom(<<7, 15, 15, 15, 15, 15, 15, 15>>, 16),
   p32 |-> IntAtom(<<1, 0, 0, 0, 0, 0, 0, 0, 0>>, 16), p32m |-> IntAtom(<<15, 15, 15, 15, 15, 15, 15, 15>>, 16),
   p62 |-> IntAtom(<<4, 0, 0, 0, 0, 0, 0, 0, 0, 0, 0, 0, 0, 0, 0, 0>>, 16),
   mx |-> IntAtom(<<7>> \o F15, 16), dmx |-> IntAtom(<<9, 2, 2, 3, 3, 7, 2, 0, 3, 6, 8, 5, 4, 7, 7, 5, 8, 0, 7>>, 10),
   f0 |-> FltAtom(0, 0, 0), fh |-> FltAtom(0, 1, 0 - 1), fq |-> FltAtom(0, 1, 0 - 2), f1 |-> FltAtom(0, 1, 0), f15 |-> FltAtom(0, 3, 0 - 1),
   f2 |-> FltAtom(0, 1, 1), f25 |-> FltAtom(0, 5, 0 - 1), f225 |-> FltAtom(0, 9, 0 - 2), f3 |-> FltAtom(0, 3, 0), f4 |-> FltAtom(0, 1, 2),
   f8 |-> FltAtom(0, 1, 3), f10 |-> FltAtom(0, 5, 1), f100 |-> FltAtom(0, 25, 2), fbig |-> FltAtom(0, 1, 29), f1025 |-> FltAtom(0, 1025, 0),
   se |-> StrAtom(<<>>), sa |-> StrAtom(<<97>>), sb |-> StrAtom(<<98>>), sab |-> StrAtom(<<97, 98>>), sba |-> StrAtom(<<98, 97>>),
   sAb |-> StrAtom(<<65, 98>>), sabab |-> StrAtom(<<97, 98, 97, 98>>), sabcd |-> StrAtom(<<97, 98, 99, 100>>),
   s5 |-> StrAtom(<<97, 98, 99, 100, 101>>), sZz |-> StrAtom(<<90, 122, 64, 91, 96, 123>>)]

AtomValue(d) ==
  CASE d.ty = "int" -> IV(DigitsVal(d.digits, d.base, Zero))
    [] d.ty = "flt" -> FV(Dy(d.s, d.m, d.e))
    [] OTHER -> SV(d.cs)

A(tok) == Atom(tok)
NegT(x) == Un("neg", x)
MinIntT == Bin("-", NegT(A("mx")), A("i1"))        \* (-7FFF...F - 1): the only way to write -2^63 inside the domain

\* VAL: a string atom whose characters are the spelling of a formula (the renderer spells it)
ValSrc == [v1 |-> Bin("+", A("i1"), Bin("*", A("i2"), A("i3"))),
           v2 |-> Bin("-", A("i7"), Bin("-", A("i2"), A("i1"))),
           v3 |-> Bin("*", A("f15"), A("i2")),
           v4 |-> Fun("BITCNT", <<A("i255")>>),
           v5 |-> Bin("/", A("i1"), A("i0"))]

Atoms == [val |-> [tok \in DOMAIN AtomDefs |-> AtomValue(AtomDefs[tok])], valsrc |-> ValSrc]

Ev(t) == EvalT(t, Atoms)

\* ---- operand alphabets --------------------------------------------------------------------------------
IntOpsQ == {A("i0"), A("i1"), A("i3"), NegT(A("i1")), A("p31"), A("p32"), A("mx"), MinIntT, A("i63"), A("i64"), NegT(A("i5")), A("i32")}
IntOpsT == IntOpsQ \cup {A("i2"), A("i7"), A("i33"), A("i255"), A("p31m"), A("p32m"), A("p62"), NegT(A("p31")), A("h5a"),
                         NegT(A("i2")), A("i65"), A("dmx")}
FltOpsQ == {A("f0"), A("f15"), A("f2"), NegT(A("f2")), A("f3"), A("fh")}
FltOpsT == FltOpsQ \cup {A("f1"), NegT(A("f15")), A("f25"), A("f4"), NegT(A("f3")), A("fbig"), A("f1025")}
StrOpsQ == {A("sa"), A("sab"), A("s5")}
StrOpsT == StrOpsQ \cup {A("se"), A("sb"), A("sAb")}
Operands == IF Level = 1 THEN IntOpsQ \cup FltOpsQ \cup StrOpsQ ELSE IntOpsT \cup FltOpsT \cup StrOpsT

\* static type of an operand of the alphabet (atoms, negated atoms, MinIntT)
RECURSIVE OperandTypeOf(_)
OperandTypeOf(x) == IF x.k = "A" THEN (CASE AtomDefs[x.a].ty = "int" -> "I" [] AtomDefs[x.a].ty = "flt" -> "F" [] OTHER -> "S")
                    ELSE IF x.k = "U" THEN OperandTypeOf(x.x) ELSE "I" 

\* ---- function domains ---------------------------------------------------------------------------------
Idx == {NegT(A("i2")), NegT(A("i1")), A("i0"), A("i1"), A("i2"), A("i3"), A("i5"), A("i7")}
Strs == {A("se"), A("sa"), A("sabcd")}
Strs2 == {A("se"), A("sa"), A("sb"), A("sab"), A("sba"), A("sabab")}
BitArgs == {A("i0"), A("i1"), A("i2"), A("i3"), A("i5"), A("i6"), A("i8"), A("i12"), A("i64"), A("i255"), A("p31"), A("p32"), A("p62"),
            A("mx"), MinIntT, NegT(A("i1")), NegT(A("i2")), A("h5a"), A("p31m")}
CharArgs == {NegT(A("i1")), A("i0"), A("i64"), A("i65"), A("i90"), A("i91"), A("i96"), A("i97"), A("i122"), A("i123"), A("i127"),
             A("i200"), A("i255"), A("i256"), A("p32")}
NumArgs == {A("i0"), A("i1"), NegT(A("i1")), A("i5"), NegT(A("i5")), A("mx"), MinIntT, A("f0"), A("f15"), NegT(A("f15")), A("f2"), NegT(A("f2")),
            A("fh"), NegT(A("fh")), A("fbig"), A("f25"), NegT(A("f25")), A("f1025")}
SqrtArgs == {A("f0"), A("f1"), A("f4"), A("f225"), A("f2"), NegT(A("f1")), NegT(A("f4")), A("i0"), A("i1"), A("i8"), Bin("*", A("i3"), A("i3")),
             A("f100"), A("fq")}
TrArgs == {A("f0"), A("f1"), NegT(A("f1")), A("f2"), NegT(A("f2")), A("fh"), A("f8"), A("f4"), A("i0"), A("i1"), A("i2"), A("f10"), A("f100")}
TrFuns == {"SIN", "COS", "TAN", "COT", "ASIN", "ACOS", "ATAN", "ACOT", "EXP", "ALOG", "ALD", "SINH", "COSH", "TANH", "COTH", "LN", "LOG",
           "LD", "ASINH", "ACOSH", "ATANH", "ACOTH"}
AnyArgs == {A("i1"), A("f15"), A("sa"), A("se"), NegT(A("i1")), Bin("+", A("i1"), A("f15")), Bin("+", A("sa"), A("sb")), Bin("=", A("f15"), A("f15"))}

\* every integer parameter of every built-in function at the 64-bit boundary classes: 0, +-1, len-1, len, len+1 (of "abcd"),
\* 2^31-1, 2^31, 2^32-1, 2^32, 2^32+1, 2^32+small, 2^63-1, -2^31, -2^32, -2^63
BigIdx == {A("i0"), A("i1"), NegT(A("i1")), A("i3"), A("i4"), A("i5"), A("p31m"), A("p31"), A("p32m"), A("p32"), A("p32p1"), A("p32p3"),
           A("p32p97"), A("mx"), NegT(A("p31")), NegT(A("p32")), MinIntT}
BoundaryFunCases ==
  {Fun("SUBSTR", <<s, i, n>>) : s \in {A("sabcd"), A("sa")}, i \in BigIdx, n \in {A("i0"), A("i1"), A("i3"), A("i7")}}
  \cup {Fun("SUBSTR", <<A("sabcd"), i, n>>) : i \in {A("i0"), A("i1"), A("i3")}, n \in BigIdx}
  \cup {Fun("CHARFROMSTR", <<s, i>>) : s \in {A("sabcd"), A("sa")}, i \in BigIdx}
  \cup {Fun(f, <<x>>) : f \in {"TOUPPER", "TOLOWER", "BITCNT", "FIRSTBIT", "LASTBIT", "BITPOS", "ABS", "SGN", "EXPRTYPE"}, x \in BigIdx}
  \* the right operand of the mirror operator and the shifts is such a parameter as well
  \cup {Bin(o, A("h5a"), x) : o \in {"><", "<<", ">>"}, x \in BigIdx}
  \* where a float is expected an integer argument is converted first
  \cup {Fun(f, <<x>>) : f \in {"INT", "SQRT"}, x \in {A("i0"), A("i1"), A("i4"), A("p31"), A("p32"), NegT(A("i1")), NegT(A("p32"))}}

FunCases ==
  BoundaryFunCases \cup
  {Fun("SUBSTR", <<s, i, n>>) : s \in Strs, i \in Idx, n \in Idx}
  \cup {Fun("STRSTR", <<h, n>>) : h \in Strs2, n \in Strs2}
  \cup {Fun("CHARFROMSTR", <<s, i>>) : s \in Strs, i \in Idx}
  \cup {Fun(f, <<s>>) : f \in {"UPSTRING", "LOWSTRING", "STRLEN"}, s \in Strs2 \cup {A("sAb"), A("sZz"), A("s5")}}
  \cup {Fun("VAL", <<A(v)>>) : v \in DOMAIN ValSrc}
  \cup {Fun(f, <<c>>) : f \in {"TOUPPER", "TOLOWER"}, c \in CharArgs}
  \cup {Fun(f, <<b>>) : f \in {"BITCNT", "FIRSTBIT", "LASTBIT", "BITPOS"}, b \in BitArgs}
  \cup {Fun(f, <<x>>) : f \in {"ABS", "SGN", "INT"}, x \in NumArgs}
  \cup {Fun("SQRT", <<x>>) : x \in SqrtArgs}
  \cup {Fun(f, <<x>>) : f \in TrFuns, x \in TrArgs}
  \cup {Fun("EXPRTYPE", <<x>>) : x \in AnyArgs}
  \* ill-typed arguments and wrong argument counts
  \cup {Fun(f, <<x>>) : f \in {"STRLEN", "UPSTRING", "BITCNT", "INT", "SQRT", "SGN", "TOUPPER", "VAL"}, x \in {A("i1"), A("f15"), A("sa")}}
  \cup {Fun("SUBSTR", <<A("sa"), A("i1")>>), Fun("STRLEN", <<A("sa"), A("sb")>>), Fun("BITCNT", <<A("i1"), A("i2")>>),
        Fun("FOO", <<A("i1")>>), Fun("SUBSTR", <<A("i1"), A("i2"), A("i3")>>), Fun("SUBSTR", <<A("sa"), A("f15"), A("i1")>>),
        Fun("STRSTR", <<A("sa"), A("i1")>>), Fun("CHARFROMSTR", <<A("sa"), A("sb")>>)}


\* the alias spellings are unparsed by hand: they are exactly what the manual promises and operator.c may lack
Canon(o) == IF o = "!=" THEN "<>" ELSE IF o = "==" THEN "=" ELSE o
AliasChars(tt) == Unparse(tt.l, TRUE, FALSE) \o <<" ">> \o (IF tt.o = "!=" THEN <<"!", "=">> ELSE <<"=", "=">>) \o <<" ">> \o Unparse(tt.r, TRUE, FALSE)

RECURSIVE FlatSeq(_, _)
FlatSeq(os, as) == IF os = <<>> THEN <<Head(as)>> ELSE <<Head(as)>> \o OpByName(Head(os)).id \o FlatSeq(Tail(os), Tail(as))
FlatCase(os, as) == [k |-> "X", cs |-> FlatSeq(os, as), tree |-> Parse(FlatSeq(os, as))]
FlatOperands == {<<"i7", "i2", "i3">>, <<"i12", "i5", "i2">>, <<"i3", "i7", "i5">>}

CaseOf(md, tt) ==
  IF md = "flat"
  THEN [src |-> md, op |-> tt.tree.o, cs |-> tt.cs, csp |-> tt.cs, o |-> Observable(Ev(tt.tree)), depth |-> Depth(tt.tree),
        dev |-> Devs(tt.tree, Atoms)]
  ELSE IF md = "alias"
  THEN [src |-> md, op |-> tt.o, cs |-> AliasChars(tt), o |-> Observable(ApplyBin(Canon(tt.o), Ev(tt.l), Ev(tt.r))), depth |-> 2,
        dev |-> IF tt.o = "!=" THEN {"alias_noteq"} ELSE {}]
  ELSE [src |-> md, op |-> IF tt.k \in {"B", "U"} THEN tt.o ELSE IF tt.k = "F" THEN tt.f ELSE "atom",
        cs |-> Unparse(tt, FALSE, FALSE), csp |-> Unparse(tt, TRUE, FALSE), o |-> Observable(Ev(tt)), depth |-> Depth(tt),
        dev |-> Devs(tt, Atoms)]

KeyOf(c) == IF c.k = "F" THEN c.f ELSE c.o
\* ---- state machine --------------------------------------------------------------------------------------
VARIABLES mode, sel, t
vars == <<mode, sel, t>>
None == [k |-> "none"]
Modes == IF MaxDepth > 0 THEN {"sim"} ELSE {"bin", "fun", "alias", "flat"}

Init == \/ "bin" \in Modes /\ mode = "bin" /\ sel \in BinOpNames \cup UnOpNames /\ t = None
        \/ "fun" \in Modes /\ mode = "fun" /\ sel \in {KeyOf(c) : c \in FunCases} /\ t = None
        \/ "alias" \in Modes /\ mode = "alias" /\ sel \in {"!=", "=="} /\ t = None
        \/ "flat" \in Modes /\ mode = "flat" /\ sel \in BinOpNames /\ t = None
        \/ "sim" \in Modes /\ mode = "sim" /\ sel = "-" /\ t \in Operands

Wrappers == {"ABS", "SGN", "INT", "BITCNT", "LASTBIT", "FIRSTBIT", "STRLEN", "UPSTRING", "EXPRTYPE", "SQRT"}
Next ==
  \/ /\ mode = "bin" /\ t = None
     /\ t' \in IF sel \in BinOpNames THEN {Bin(sel, l, r) : l \in Operands, r \in Operands} ELSE {Un(sel, x) : x \in Operands}
     /\ UNCHANGED <<mode, sel>>
  \/ /\ mode = "fun" /\ t = None
     /\ t' \in {c \in FunCases : KeyOf(c) = sel}
     /\ UNCHANGED <<mode, sel>>
  \/ /\ mode = "alias" /\ t = None
     /\ t' \in {Bin(sel, l, r) : l \in {A("i3"), A("f15"), A("sa")}, r \in {A("i3"), A("i5"), A("f15"), A("sb")}}
     /\ UNCHANGED <<mode, sel>>
  \/ /\ mode = "flat" /\ t = None      \* parenthesis-free formulas: the grouping is the manual's rank table (Expr_MC: FlatObeysRanks)
     /\ t' \in {FlatCase(<<sel, o2>>, tr) : o2 \in BinOpNames, tr \in FlatOperands}
               \cup (IF Level >= 2 THEN {FlatCase(<<sel, o2, o3>>, <<"i12", "i5", "i7", "i2">>) : o2 \in BinOpNames, o3 \in BinOpNames} ELSE {})
     /\ UNCHANGED <<mode, sel>>
  \/ /\ mode = "sim"
     /\ PrintT(<<"OUT", ToJson(CaseOf(mode, t))>>)                  \* once per visited state (the simulator evaluates
     /\ Depth(t) < MaxDepth                                         \* invariants on every candidate successor instead)
     /\ \E ty \in {Ev(t).t} :  \* grow type-correctly (run-time errors such as /0 still end a walk)
        ty \in {"I", "F", "S"} /\
        LET okL(o, x) == Typing(OpByName(o), ty, OperandTypeOf(x))[1] # 255
            okR(o, x) == Typing(OpByName(o), OperandTypeOf(x), ty)[1] # 255
        IN t' \in {Bin(p[1], t, p[2]) : p \in {q \in BinOpNames \X Operands : okL(q[1], q[2])}}
                   \cup {Bin(p[1], p[2], t) : p \in {q \in BinOpNames \X Operands : okR(q[1], q[2])}}
                   \cup {Un(o, t) : o \in {u \in UnOpNames : Typing(OpByName(u), "I", ty)[1] # 255}}
                   \cup {Fun(f, <<t>>) : f \in {w \in Wrappers : ty \in FArgTypes(w)[1] \/ (ty = "I" /\ "F" \in FArgTypes(w)[1])}}
                   \cup (IF ty = "S" THEN {Fun("SUBSTR", <<t, i, n>>) : i \in {A("i0"), A("i1")}, n \in {A("i0"), A("i2")}} ELSE {})
     /\ UNCHANGED <<mode, sel>>
Spec == Init /\ [][Next]_vars

Emit == (t # None /\ mode # "sim") => PrintT(<<"OUT", ToJson(CaseOf(mode, t))>>)
EmitAtoms == PrintT(<<"OUT", ToJson([atoms |-> AtomDefs, valsrc |-> [v \in DOMAIN ValSrc |-> Unparse(ValSrc[v], FALSE, FALSE)]])>>)
ASSUME EmitAtoms
=============================================================================
