------------------------------ MODULE PendLabel_MC ------------------------------
(* (M) The label memory of the assembler (PendLabel.tla: LabelHandle / LabelModify / LabelReset, InsertPadding,   *)
(* CodeSHARED's snapshot, two passes when a symbol is referenced in front of its definition) against the          *)
(* declarative side, one TLC state per source statement, on every program                                         *)
(*     [SHARED of the label in front of everything]  block  [second block]        x target 68000 / MSP430          *)
(* block = a label alone on its line at an even / odd address, every sequence of at most MaxMids intervening       *)
(* statements (SHARED of that label / of another one, PUBLIC, GLOBAL, EQU / SET using the label, one data byte,    *)
(* empty or comment line, LISTING, call of an empty macro, call of a macro that expands to SHARED of the label),    *)
(* one following statement (aligned instruction, DC.W, DC.B, DS.W, ALIGN, or END).  Pairs adds every pair of       *)
(* blocks with at most one intervening statement each.                                                            *)
(* Invariant Final, when the last pass is over:                                                                   *)
(*   ShareFinal    every line of the share file gives the symbol's final value           (the property)           *)
(*   CodeFinal     every word of the reference table holds the symbol's final value                               *)
(*   FinalAsText   the label's final value = address of the following code iff the label line is still pending     *)
(*                 when that statement is padded (manual, PADDING), = address of the label line otherwise         *)
(*   MovedIff, CopiesFinal, LayoutSane                                                                             *)
(* PendLabel_MC_dev.cfg (ResetRule = "labelled-or-code": a bare declaration between the label and its instruction  *)
(* leaves the label pending) must be REFUTED by TLC: label at an odd address, SHARED label, aligned statement ->    *)
(* the share file states the address of the pad byte, every other report the address behind it.                   *)
EXTENDS PendLabel
CONSTANTS MaxMids, Pairs
VARIABLES prog, items, i, pass, s
vars == <<prog, items, i, pass, s>>

MidSet == Range(MidKinds)
MidSeqs(n) == UNION {[1..q -> MidSet] : q \in 0..n}
Blocks(n, fols) == [odd : BOOLEAN, mids : MidSeqs(n), fol : fols]
Fols == Range(FolKinds)
Programs == {[blocks |-> <<b>>, fwd |-> f, tgt |-> t] : b \in Blocks(MaxMids, Fols \cup {"end"}), f \in BOOLEAN, t \in Targets}
            \cup (IF Pairs THEN {[blocks |-> <<b1, b2>>, fwd |-> f, tgt |-> t] :
                                  b1 \in Blocks(1, Fols), b2 \in Blocks(1, Fols \cup {"end"}), f \in BOOLEAN, t \in Targets}
                  ELSE {})

Items == items
Names == DOMAIN s.val
MCInit == /\ prog \in Programs /\ items = Flatten(prog) /\ i = 1 /\ pass = 1
          /\ s = S0(NamesOf(Flatten(prog)), NoValues(NamesOf(Flatten(prog))))
Done == i > Len(Items) /\ (pass = 2 \/ ~s.fwd)
MCNext == \/ /\ i <= Len(Items)
             /\ s' = Statement(s, i, Items[i]) /\ i' = i + 1 /\ UNCHANGED <<prog, items, pass>>
          \/ /\ i > Len(Items) /\ pass = 1 /\ s.fwd                      \* one more pass: values kept, nothing pending
             /\ s' = S0(Names, s.val) /\ i' = 1 /\ pass' = 2 /\ UNCHANGED <<prog, items>>
Spec == MCInit /\ [][MCNext]_vars

Final == Done => /\ ShareFinal(s) /\ CodeFinal(s) /\ FinalAsText(prog, s) /\ MovedIff(prog, s)
                 /\ CopiesFinal(prog, s) /\ LayoutSane(Items, s)
                 /\ \A n \in Names : s.val[n] = Assemble(Items, Names).val[n]      \* the recursive form used by _Gen / _Trace
ShareStatesFinal == Done => ShareFinal(s)          \* the property alone (PendLabel_MC_dev.cfg: refuted)
Sane == /\ s.pend # "" => s.val[s.pend] = s.pendv
        /\ (pass = 1 /\ ~s.fwd) => ShareFinal(s)        \* within a pass without forward references the share file is never ahead

\* the seeded shape, both rules
ASSUME LET P  == [blocks |-> <<[odd |-> TRUE, mids |-> <<"shself">>, fol |-> "insn"]>>, fwd |-> FALSE, tgt |-> "68k"]
           it == Flatten(P)
           r  == Assemble(it, NamesOf(it))
       IN  /\ r.share[1].name = "L1" /\ r.share[1].val = Base + Span + 1
           /\ (ResetRule = "any" => r.val["L1"] = Base + Span + 1 /\ ShareFinal(r))
           /\ (ResetRule = "labelled-or-code" => r.val["L1"] = Base + Span + 2 /\ ~ShareFinal(r) /\ CodeFinal(r))
=============================================================================
