\* pinned algorithm: every non-terminating run has moved a label after padding
CONSTANTS
  VarMode = "rel8"
  VarShort = 2
  VarLong = 4
  Padding = TRUE
  RelFpuOK = TRUE
  RefKinds = {"abs", "var", "rel"}
  Sects = {}
  Quals = {8}
  Alias = {}
  CaseSens = FALSE
  Pages = {}
  PageReset = TRUE
  SelfKinds = {}
  Labels = {"la", "lb"}
  MaxItems = 4
  Fills = {1}
  AbsWidths = {4}
  EquOffs = {1}
  Orgs = {0}
  Fixed = FALSE
  ThrowErrors = FALSE
  ThrowMaxPass = 3
  WithExtra = TRUE
  AllowIllFormed = FALSE
  Complete = FALSE
SPECIFICATION Spec
CHECK_DEADLOCK FALSE
INVARIANTS TypeOK Fixpoint
PROPERTIES LivelockOnlyWhenPatched
