------------------------------- MODULE PList_MC -------------------------------
(* (M) plist.c as a step machine (one record listed per step) over every code file of a bounded space; *)
(* (G) the same space / random wide files printed with the expected rows and totals for replay.        *)
EXTENDS PList, CodeFileGen, Json

CONSTANTS Dev

VARIABLES c, ii, p, pc
vars == <<c, ii, p, pc>>

Init == c \in {[file |-> f] : f \in FileSpace} /\ ii = 1 /\ p = P0 /\ pc = "list"
Items == Decode(c.file).items
Step ==
  /\ pc = "list" /\ UNCHANGED c
  /\ IF ii <= Len(Items) THEN p' = ListItem(p, Items[ii]) /\ ii' = ii + 1 /\ UNCHANGED pc
     ELSE pc' = "done" /\ UNCHANGED <<p, ii>>
Spec == Init /\ [][Step]_vars

Result == [rc |-> 0, rows |-> p.rows, entries |-> p.entries, creator |-> Decode(c.file).creator,
           totals |-> SumLines(Dev, p.sums), junk |-> 0]
Conforms      == (pc = "done" /\ Definite(c)) => Truthful(c, Result)
StepRunAgrees == pc = "done" => Result = Run(Dev, c)
\* Sums[] is, at every step, the byte count of the records listed so far, per segment
SumsSound     == \A z \in 0..(SegCount - 1) :
                    p.sums[z] = FoldLeft(LAMBDA a, it : IF IsData(it) /\ it.seg = z THEN a + Len(it.data) ELSE a, 0,
                                         SubSeq(Items, 1, ii - 1))
\* one row or one entry line per item listed so far
OneLinePerItem == Len(p.rows) + Len(p.entries) = ii - 1

\* ---- (G) ------------------------------------------------------------------------------------------
CaseOut(cc) == [c |-> cc, exp |-> Run({}, cc), def |-> Definite(cc), allowed |-> Definite(cc) => Truthful(cc, Run({}, cc))]
CoverInit == c \in {[file |-> f] : f \in FileSpace} /\ ii = 1 /\ p = P0 /\ pc = "gen"
CoverNext == pc = "gen" /\ PrintT(<<"TR", ToJson(CaseOut(c))>>) /\ pc' = "printed" /\ UNCHANGED <<c, ii, p>>
CoverSpec == CoverInit /\ [][CoverNext]_vars

\* random wide files: <= 6 items grown one per step (c.file holds the ITEM LIST until the case is finished)
SimInit == c = [file |-> <<>>] /\ ii = 0 /\ p = P0 /\ pc = "sim"
SimNext ==
  /\ pc = "sim" /\ ii' = ii + 1 /\ UNCHANGED p
  /\ IF ii < 6 THEN UNCHANGED pc /\ (\/ \E sh \in SimShapes : c' = [file |-> Append(c.file, MkItem(sh, ii + 1))]
                                     \/ UNCHANGED c)
     ELSE pc' = "emit" /\ c' = [file |-> Encode(c.file, <<65, 83, 32, 49, 46, 52, 50>>)]
SimSpec == SimInit /\ [][SimNext]_vars
SimDump == pc = "emit" => PrintT(<<"BEH", ToJson(CaseOut(c))>>)

\* all family ids at once: one record per family (checked by TLC against FamilyName in one state)
AllFamiliesFile == Encode([k \in 1..Len(FamilyTable) |->
                             [k |-> "D", cpu |-> FamilyTable[k][1], seg |-> SegCode, gran |-> 1, start |-> k * 16,
                              data |-> <<k>>, short |-> FALSE]], <<65, 83>>)
FamInit == c = [file |-> AllFamiliesFile] /\ ii = 1 /\ p = P0 /\ pc = "gen"
FamSpec == FamInit /\ [][CoverNext]_vars
D_None == {}
D_Total == {"total_format"}
CSG_List == {<<81, 1, 1>>, <<112, 1, 2>>, <<81, 2, 1>>, <<200, 1, 1>>, <<9, 4, 4>>}
=============================================================================
