----------------------------- MODULE IncSearch -----------------------------
(* C17, clause "the working directory ... never alters the code file": the file search behind INCLUDE, BINCLUDE,     *)
(* IFEXIST and IFNEXIST (bpemu.c FSearch / AssembleAndCheck / FExpand, asmallg.c INCLUDE_SearchCore, asmif.c          *)
(* CodeIFEXIST, as.c ExpandINCLUDE_Core) over a small file tree, with the WORKING DIRECTORY AND WHAT LIES IN IT as a  *)
(* configuration variable.                                                                                           *)
(*                                                                                                                   *)
(* The dimension: a file of the looked-up name may lie in any subset of six directories - the directory of the main  *)
(* source (Src), its parent (Root), a directory below it (Deep), two directories of the -i include path (Inc1, Inc2)  *)
(* and an unrelated directory (Else).  The assembler is started in Src, Root, Deep or Else; the source and the       *)
(* include path are spelled relative to the working directory or absolute.  A file of the looked-up name that lies   *)
(* in the working directory without being the directory of the including file or part of the include path is a DECOY: *)
(* by the manual it is never looked at.                                                                              *)
(*                                                                                                                   *)
(* Declarative side (doc/pseudo-instructions.md, INCLUDE / BINCLUDE / IFEXIST): "The assembler primarily tries to    *)
(* open the file in the directory containing the source file with the INCLUDE statement ... a path contained in the  *)
(* file specification is relative to this file's directory, not to the directory the assembler was called from. Via  *)
(* the -i <path list> option, one can specify a list of directories that will automatically be searched ... If the   *)
(* file is not found, a fatal error occurs ... The search list is ignored if the file name itself contains a path     *)
(* specification."  IFEXIST: "The same rules for search paths and syntax apply as for the INCLUDE instruction".       *)
(* DocOutcome never mentions the working directory: that IS the clause of C17.                                        *)
(*                                                                                                                   *)
(* Operational side: FSearch as coded, probing path STRINGS that the operating system resolves against the working   *)
(* directory.  Named deviations of the pinned code (a deviation is live when it is in the set `devs`):               *)
(*   IfExistDot        asmif.c CodeIFEXIST searches "." + DIRSEP + IncludeList: IFEXIST / IFNEXIST look into the       *)
(*                     working directory before the include path (INCLUDE of the same name does not)                 *)
(*   EmptyPathCwd      FSearch walks an EMPTY search path as one empty component, i.e. probes the name as given:      *)
(*                     without any -i the working directory is searched                                              *)
(*   PathNameSearched  a name with a path specification is still looked up along the include path (the manual says    *)
(*                     the list is ignored); independent of the working directory, outside C17                        *)
EXTENDS Naturals, Sequences, FiniteSets

\* ---- the file tree (absolute directories as component sequences below the scratch root) ---------------------------
Root == <<"p">>
Src  == <<"p", "src">>
Deep == <<"p", "src", "deep">>
Inc1 == <<"p", "inc1">>
Inc2 == <<"p", "inc2">>
Else == <<"w">>
Places == {Root, Src, Deep, Inc1, Inc2, Else}          \* where a file of the looked-up name may lie
Cwds   == <<Src, Root, Deep, Else>>                    \* where the assembler may be started
\* one invocation assembles the sources main1.asm, main2.asm ... of Src, one program each
MainNames  == <<"main1.asm", "main2.asm", "main3.asm">>
OuterNames == <<"outer1.inc", "outer2.inc", "outer3.inc">>
MainFile(k) == Src \o <<MainNames[k]>>

\* a path STRING as a program sees it: absolute or relative, components may be "." and ".."; Empty is the empty string
Abs(c) == [abs |-> TRUE, c |-> c]
Rel(c) == [abs |-> FALSE, c |-> c]
Empty  == Rel(<<>>)
Dot    == Rel(<<".">>)
IsEmpty(p) == ~p.abs /\ p.c = <<>>

RECURSIVE Norm(_, _)
Norm(done, rest) ==                                    \* what the operating system makes of "." and ".."
  IF rest = <<>> THEN done
  ELSE LET h == Head(rest) IN
       IF h = "." THEN Norm(done, Tail(rest))
       ELSE IF h = ".." THEN Norm(IF done = <<>> THEN done ELSE SubSeq(done, 1, Len(done) - 1), Tail(rest))
       ELSE Norm(Append(done, h), Tail(rest))
Resolve(cwd, p) == Norm(<<>>, IF p.abs THEN p.c ELSE cwd \o p.c)

RECURSIVE Common(_, _)
Common(a, b) == IF a = <<>> \/ b = <<>> \/ Head(a) # Head(b) THEN 0 ELSE 1 + Common(Tail(a), Tail(b))
RelTo(cwd, target) ==                                  \* the spelling of `target` relative to `cwd`
  LET k == Common(cwd, target)
      r == [i \in 1..(Len(cwd) - k) |-> ".."] \o SubSeq(target, k + 1, Len(target))
  IN Rel(IF r = <<>> THEN <<".">> ELSE r)
Spell(how, cwd, target) == IF how = "abs" THEN Abs(target) ELSE RelTo(cwd, target)

\* ---- names, files, contents ------------------------------------------------------------------------------------
Forms == {"plain", "noext", "sub", "up", "abs"}
NameOf(form) ==                                        \* the file specification as written in the source
  CASE form = "plain" -> Rel(<<"x.inc">>)
    [] form = "noext" -> Rel(<<"x">>)                  \* AddSuffix makes it x.inc
    [] form = "sub"   -> Rel(<<"sub", "x.inc">>)
    [] form = "up"    -> Rel(<<"..", "x.inc">>)
    [] form = "abs"   -> Abs(Inc2 \o <<"x.inc">>)
AddSuffix(p) == IF p.c[Len(p.c)] = "x" THEN [p EXCEPT !.c[Len(p.c)] = "x.inc"] ELSE p      \* asmallg.c: IncSuffix
HasPathSpec(p) == p.abs \/ Len(p.c) > 1
\* "directory d holds the file": the file this name denotes when it is taken relative to d
FileIn(d, form) == Norm(<<>>, d \o (IF form = "abs" THEN <<"x.inc">> ELSE AddSuffix(NameOf(form)).c))
FS(has, form) == {FileIn(d, form) : d \in has}
DirOfFile(f) == SubSeq(f, 1, Len(f) - 1)

\* every file has its own content: the text "\tdb\t<tag>\n", the tag names the directory the file lies in
AllDirs == <<<<>>, Root, Src, Deep, Inc1, Inc2, Else, Root \o <<"sub">>, Src \o <<"sub">>, Deep \o <<"sub">>,
             Inc1 \o <<"sub">>, Inc2 \o <<"sub">>, Else \o <<"sub">>>>
TagOf(f) == 20 + (CHOOSE i \in 1..Len(AllDirs) : AllDirs[i] = DirOfFile(f))
Content(f) == LET t == TagOf(f) IN <<9, 100, 98, 9, 48 + (t \div 10), 48 + (t % 10), 10>>

AllDevs == {"IfExistDot", "EmptyPathCwd", "PathNameSearched"}
CwdDevs == {"IfExistDot", "EmptyPathCwd"}              \* the deviations that let the working directory in

\* ---- bpemu.c FSearch --------------------------------------------------------------------------------------------
NotFound == Rel(<<"?">>)
\* AssembleAndCheck: pDest = prefix [+ "/"] + name; "dir//abs/name" is dir/abs/name to the operating system
Assemble(prefix, name) == IF IsEmpty(prefix) THEN name ELSE [abs |-> prefix.abs, c |-> prefix.c \o name.c]
\* strrchr(pCurrFileName, '/'): the text in front of the last separator, the empty string if there is none
DirPart(file) == IF Len(file.c) <= 1 /\ ~file.abs THEN Empty ELSE [file EXCEPT !.c = SubSeq(file.c, 1, Len(file.c) - 1)]

\* name: file specification (suffix added); curr: CurrFileName as a path string; path: sequence of search path components
\* (strings); cwd, fs: what the operating system answers with.  Result: the path string found, or NotFound.
FSearch(name, curr, path, cwd, fs, devs) ==
  LET first  == IF ~name.abs THEN Assemble(DirPart(curr), name) ELSE name
      walk   == IF "PathNameSearched" \in devs \/ ~HasPathSpec(name) THEN path ELSE <<>>
      probes == <<first>> \o [i \in 1..Len(walk) |-> Assemble(walk[i], name)]
      hits   == {i \in 1..Len(probes) : Resolve(cwd, probes[i]) \in fs}
  IN IF hits = {} THEN NotFound ELSE probes[CHOOSE i \in hits : \A j \in hits : i <= j]

\* the components of the string IncludeList: an empty list is walked as ONE empty component (while (True) ... break)
Components(list, devs) == IF list = <<>> THEN (IF "EmptyPathCwd" \in devs THEN <<Empty>> ELSE <<>>) ELSE list
IncludePathOf(op, list, devs) ==
  IF op \in {"IFEXIST", "IFNEXIST"}
  THEN (IF "IfExistDot" \in devs THEN <<Dot>> ELSE <<>>) \o Components(list, devs)
  ELSE Components(list, devs)

\* ---- a run: statements of the file `curr` -------------------------------------------------------------------------
\* outcome: status "ok" (code file with these data bytes) | "fatal" (exit status 3, no code file)
Ops == {"INCLUDE", "BINCLUDE", "IFEXIST", "IFNEXIST"}
\* the probe source answers a conditional with one data byte: <<byte of the THEN branch, byte of the ELSE branch>>
Branch == [IFEXIST |-> <<1, 2>>, IFNEXIST |-> <<3, 4>>]
Fatal == [status |-> "fatal", bytes |-> <<>>]
Step(acc, op, name, curr, list, cwd, fs, devs) ==
  IF acc.status # "ok" THEN acc
  ELSE LET hit == FSearch(AddSuffix(name), curr, IncludePathOf(op, list, devs), cwd, fs, devs)
           f   == Resolve(cwd, hit)
       IN CASE op = "IFEXIST"  -> [acc EXCEPT !.bytes = Append(@, Branch[op][IF hit # NotFound THEN 1 ELSE 2])]
            [] op = "IFNEXIST" -> [acc EXCEPT !.bytes = Append(@, Branch[op][IF hit = NotFound THEN 1 ELSE 2])]
            [] op = "INCLUDE"  -> IF hit = NotFound THEN Fatal ELSE [acc EXCEPT !.bytes = Append(@, TagOf(f))]   \* db <tag> assembled
            [] op = "BINCLUDE" -> IF hit = NotFound THEN Fatal ELSE [acc EXCEPT !.bytes = @ \o Content(f)]       \* the file as it is
RECURSIVE RunOps(_, _, _, _, _, _, _, _)
RunOps(acc, ops, name, curr, list, cwd, fs, devs) ==
  IF ops = <<>> THEN acc
  ELSE RunOps(Step(acc, Head(ops), name, curr, list, cwd, fs, devs), Tail(ops), name, curr, list, cwd, fs, devs)

\* a group: everything but the working directory and the spellings that depend on it
\*   progs the programs (statement sequences, all on the same name), one source file each, assembled by ONE invocation
\*         `asl [-i list] main1.asm main2.asm`: a fatal error ends the invocation, later sources are not assembled
\*   form  how the name is written
\*   nest  "main": the statements stand in the main source; "inc": in outer<k>.inc, which the main source includes and
\*         which lies in the LAST directory of the include path only (directory of the including file = that one)
\*   has   the directories holding a file of that name   ipath  the include path in search order
OuterFile(g, k) == g.ipath[Len(g.ipath)] \o <<OuterNames[k]>>
\* a variant: cwd, sform / iform: main sources / include path spelled "rel"ative to cwd or "abs"olute
OutcomeOf(g, k, v, devs) ==
  LET fs    == FS(g.has, g.form)
      main  == Spell(v.sform, v.cwd, MainFile(k))                \* CurrFileName of the main source: as spelled
      list  == [i \in 1..Len(g.ipath) |-> Spell(v.iform, v.cwd, g.ipath[i])]
      start == [status |-> "ok", bytes |-> <<>>]
  IN IF g.nest = "main" THEN RunOps(start, g.progs[k], NameOf(g.form), main, list, v.cwd, fs, devs)
     ELSE LET o == FSearch(Rel(<<OuterNames[k]>>), main, Components(list, devs), v.cwd, {OuterFile(g, k)}, devs)
          IN IF o = NotFound THEN Fatal
             \* ExpandINCLUDE_Core: CurrFileName = FExpand(found name) - absolute
             ELSE RunOps(start, g.progs[k], NameOf(g.form), Abs(Resolve(v.cwd, o)), list, v.cwd, fs, devs)
NotRun == [status |-> "notrun", bytes |-> <<>>]
RECURSIVE Session(_, _, _, _, _)
Session(done, g, k, v, run) ==                          \* run(k): the outcome of source k assembled on its own
  IF k > Len(g.progs) THEN done
  ELSE IF done # <<>> /\ done[Len(done)].status # "ok" THEN Session(Append(done, NotRun), g, k + 1, v, run)
  ELSE Session(Append(done, run[k]), g, k + 1, v, run)
Outcome(g, v, devs) == Session(<<>>, g, 1, v, [k \in 1..Len(g.progs) |-> OutcomeOf(g, k, v, devs)])

\* ---- the manual ---------------------------------------------------------------------------------------------------
\* directories looked at, in order: the one of the including file, then the -i list - unless the name has a path
\* specification (then only relative to the including file, or as it is when absolute)
DocFind(name, currdir, ipath, fs) ==
  LET n     == AddSuffix(name)
      cands == IF n.abs THEN <<Norm(<<>>, n.c)>>
               ELSE <<Norm(<<>>, currdir \o n.c)>> \o (IF HasPathSpec(n) THEN <<>> ELSE [i \in 1..Len(ipath) |-> Norm(<<>>, ipath[i] \o n.c)])
      hits  == {i \in 1..Len(cands) : cands[i] \in fs}
  IN IF hits = {} THEN <<>> ELSE cands[CHOOSE i \in hits : \A j \in hits : i <= j]
RECURSIVE DocOps(_, _, _, _, _, _)
DocOps(acc, ops, name, currdir, ipath, fs) ==
  IF ops = <<>> \/ acc.status # "ok" THEN acc
  ELSE LET f  == DocFind(name, currdir, ipath, fs)
           op == Head(ops)
           nx == CASE op = "IFEXIST"  -> [acc EXCEPT !.bytes = Append(@, Branch[op][IF f # <<>> THEN 1 ELSE 2])]
                   [] op = "IFNEXIST" -> [acc EXCEPT !.bytes = Append(@, Branch[op][IF f = <<>> THEN 1 ELSE 2])]
                   [] op = "INCLUDE"  -> IF f = <<>> THEN Fatal ELSE [acc EXCEPT !.bytes = Append(@, TagOf(f))]
                   [] op = "BINCLUDE" -> IF f = <<>> THEN Fatal ELSE [acc EXCEPT !.bytes = @ \o Content(f)]
       IN DocOps(nx, Tail(ops), name, currdir, ipath, fs)
DocOutcomeOf(g, k) == DocOps([status |-> "ok", bytes |-> <<>>], g.progs[k], NameOf(g.form),
                             IF g.nest = "main" THEN Src ELSE DirOfFile(OuterFile(g, k)), g.ipath, FS(g.has, g.form))
DocOutcome(g) == Session(<<>>, g, 1, <<>>, [k \in 1..Len(g.progs) |-> DocOutcomeOf(g, k)])

\* ---- the input space ------------------------------------------------------------------------------------------------
\* the statements of one program all look up the same name.  A failed INCLUDE / BINCLUDE ends the run without a code
\* file, so IFEXIST / IFNEXIST (whose answers differ exactly where the INCLUDE would fail) get a source of their own,
\* assembled first.
Programs == [exist |-> <<"IFEXIST", "IFNEXIST">>, incl |-> <<"BINCLUDE", "INCLUDE">>,
             mixed |-> <<"IFNEXIST", "INCLUDE", "IFEXIST", "BINCLUDE">>]
Sessions == [two |-> <<Programs.exist, Programs.incl>>, three |-> <<Programs.exist, Programs.mixed, Programs.incl>>,
             swapped |-> <<Programs.incl, Programs.exist>>]
IPaths == {<<>>, <<Inc1>>, <<Inc1, Inc2>>, <<Inc2, Inc1>>}
\* spellings: "rr" source and include path relative to the working directory, "aa" both absolute, "ra", "ar" mixed
SpellingOf == [rr |-> <<"rel", "rel">>, aa |-> <<"abs", "abs">>, ra |-> <<"rel", "abs">>, ar |-> <<"abs", "rel">>]
Variants(spellings) == {[cwd |-> Cwds[i], sform |-> SpellingOf[s][1], iform |-> SpellingOf[s][2]] : i \in 1..Len(Cwds), s \in spellings}
=============================================================================
