------------------------------ MODULE Dasm_Cover ------------------------------
(* Systematic opcode coverage for the DASL round trip: one image per opcode high nibble containing EVERY         *)
(* falling-through instruction variant of the table (every form x every register / condition value, one          *)
(* representative value for the other operands; conditional branches and calls point at the final return) plus    *)
(* one image per non-falling-through variant (jump / return / indirect jump behind a NOP).  Complements the       *)
(* random streams of Dasm_Gen: every opcode of Isa4004 / Isa6800 is disassembled and re-assembled at least once.   *)
EXTENDS Dasm_Gen

CanonIdx(fld) == {i \in 1..Len(fld.names) : EnumIndex(fld, fld.names[i][2]) = i}
Rep(fld) == IF fld.lo <= 18 /\ 18 <= fld.hi THEN 18 ELSE fld.hi
T == -7                                   \* placeholder of the control-flow target, replaced by an item index

RECURSIVE VarOps(_, _)
VarOps(f, i) ==
  IF i > Len(f.flds) THEN {<<>>}
  ELSE LET heads == IF i = f.tf THEN {T}
                    ELSE IF f.flds[i].k = "enum" THEN CanonIdx(f.flds[i]) ELSE {Rep(f.flds[i])}
       IN {<<h>> \o t : h \in heads, t \in VarOps(f, i + 1)}
Variants == UNION {{[k |-> "ins", f |-> f, ops |-> o, bytes |-> <<>>, tgt |-> 0] : o \in VarOps(f, 1)} : f \in FormsG}

\* opcode byte of a variant (operands without influence on the first unit are irrelevant here)
OpByte(v) == EncodeRaw(v.f, [i \in 1..Len(v.ops) |-> IF v.ops[i] = T THEN 256 ELSE v.ops[i]], 256)[1]
WithTarget(v, j) == [v EXCEPT !.ops = [i \in 1..Len(v.ops) |-> IF v.ops[i] = T THEN j ELSE v.ops[i]]]

RECURSIVE ToSeq(_)
ToSeq(S) == IF S = {} THEN <<>> ELSE LET x == CHOOSE y \in S : \A z \in S : OpByte(y) <= OpByte(z) IN <<x>> \o ToSeq(S \ {x})

Nop == CHOOSE v \in Variants : v.f.id = (IF IsaName = "4004" THEN "NOP" ELSE "NOP inh")
Ret == CHOOSE v \in Variants : v.f.id = (IF IsaName = "4004" THEN "BBL" ELSE "RTS inh")

GroupProg(g) ==
  LET S == {v \in Variants : ~NoFall(v.f) /\ OpByte(v) \div 16 = g}
      s == ToSeq(S)
  IN [i \in 1..Len(s) |-> WithTarget(s[i], Len(s) + 1)] \o <<Ret>>
SingleProgs == {<<Nop, WithTarget(v, 1)>> : v \in {w \in Variants : NoFall(w.f)}}
CoverProgs == {GroupProg(g) : g \in {h \in 0..15 : \E v \in Variants : ~NoFall(v.f) /\ OpByte(v) \div 16 = h}} \cup SingleProgs

CInit == org = 256 /\ prog \in CoverProgs
CNext == UNCHANGED vars
CDump == IF WellFormed /\ ValidStream({org}) THEN PrintT(<<"BEH", ToJson(Out({org}))>>)
         ELSE PrintT(<<"BAD", ToJson([ids |-> [i \in 1..Len(prog) |-> prog[i].f.id]])>>)

\* ---------------------------------------------------------------------------------- page-edge images
\* Every instruction whose target computation depends on its own address (4004: JCN, ISZ with the in-page rule of the
\* address of the NEXT instruction, FIN/JIN; 6800: all relative branches and BSR) is placed with its first byte at page
\* offsets FC, FD, FE, FF and 00 of a page boundary (4004: 1FC..200 and EFC..F00; 6800: 01FC..0200 and, for BRA / BSR /
\* BNE, FEFC..FF00), between NOPs, once per target item before and behind it.  Only the combinations the ISA table
\* calls legal are images (e.g. an ISZ at xFE may only point into the FOLLOWING page).  A single-chunk image cannot
\* wrap from $FFFF to $0000, so the wrap-around of 6800 branches is not generated.
PcSensitive == {f \in FormsG : (f.tf # 0 /\ f.flds[f.tf].k \in {"rel", "page", "relw"}) \/ f.id \in {"FIN", "JIN"}}
FirstVariant(f) == CHOOSE v \in Variants : v.f = f /\ \A w \in Variants : w.f = f => OpByte(v) <= OpByte(w)
EdgeProg(f, j) == <<Nop, Nop, WithTarget(FirstVariant(f), j), Nop, Nop, Nop, Nop, Ret>>
Main3 == {"BRA rel", "BSR rel", "BNE rel"}
EdgeBases(f) == IF IsaName = "4004" THEN {256, 3584} ELSE IF f.id \in Main3 THEN {256, 65024} ELSE {256}
EdgeTargets(f) == IF f.tf = 0 THEN {1}
                  ELSE IF IsaName = "4004" THEN {1, 2, 4, 5, 6, 7, 8}
                  ELSE IF f.id \in Main3 THEN {1, 4, 7} ELSE {2, 5}
EdgeOffsets == {252, 253, 254, 255, 256}

EInit == \E f \in PcSensitive : \E b \in EdgeBases(f) : \E o \in EdgeOffsets : \E j \in EdgeTargets(f) :
           /\ org = b + o - 2
           /\ prog = EdgeProg(f, j)
EDump == (WellFormed /\ ValidStream({org})) => PrintT(<<"BEH", ToJson(Out({org}))>>)
=============================================================================
