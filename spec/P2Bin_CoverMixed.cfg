\* replayed exhaustively: MIXED GRANULARITY, <= 2 records of 4 units at 0, 1, 4 in units of 1, 2, 4 bytes x the 7 windows of
\* R_Mixed x ALL / ODD / WORD1
CONSTANTS
  Dev = {}
  MaxRecs = 2
  Starts = {0, 1, 4}
  UnitLens = {4}
  GranSet = {1, 2, 4}
  EntryAddrs = {}
  Offsets = {}
  FillSet = {255}
  SumOpts = {FALSE}
  SegOpts = {1}
  CpuSegs <- CS_One
  Ranges <- R_Mixed
  LaneSet <- L_Mixed
  FiltSet <- F_None
  ESet <- E_None
  HdrSet <- H_None
SPECIFICATION CoverSpec
CHECK_DEADLOCK FALSE
