CONSTANTS MaxLen = 12
INIT Init
NEXT Next
INVARIANT Dump
CHECK_DEADLOCK FALSE
