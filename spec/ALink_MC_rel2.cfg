\* 1..2 files x 1 record, absolute and relocatable, start 0 / 16, names a and "$$$", relative and absolute exports
CONSTANTS MaxFiles = 2 MaxRecs = 1 Starts = {0, 16} Rels <- R_Both POffs = {2} PNames <- N_abS PTypes <- T_1 MaxP = 1
  XNames <- N_a XFlags = {0, 1} XVals = {3} MaxX = 1 Dev <- D_None
SPECIFICATION Spec
INVARIANTS Conforms StepRunAgrees NoCrash PrefixOK Aligned RoundTrip OneForOne
CHECK_DEADLOCK FALSE
