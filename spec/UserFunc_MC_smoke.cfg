\* four programs, no export
CONSTANTS ArgPrint = "decimal" StrEscape = "dec3" RecursionGuard = TRUE ArgParen = TRUE WholeIdent = TRUE
          Level = 0 MaxDefs = 3 EmitCases = FALSE ExcludeKnown = TRUE
SPECIFICATION Spec
INVARIANTS Agreement DefAgreement TokenRoundTrip
CHECK_DEADLOCK FALSE
