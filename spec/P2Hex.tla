------------------------------- MODULE P2Hex -------------------------------
(***************************************************************************************************)
(* P2HEX (p2hex.c of Alfred Arnold's AS) - property C06.                                           *)
(*                                                                                                 *)
(* Part 1  PUBLIC DEFINITIONS of the hex formats as predicates and decoders over *tokenised* lines *)
(*         (a token = the fields of a text line as small integers; no arithmetic done outside).    *)
(*         Motorola S-record, Intel HEX 8/16/32, MOS Technology, Tektronix, Atmel generic, C array;*)
(*         TI-DSK and Mico8 structurally only (no public checksum definition at hand offline).     *)
(* Part 2  Selected(case): what must come out, straight from the manual (doc/utility-programs.md): *)
(*         -f filter, -segment, -r window, -a relative, -R relocation, -m lanes, SEVERAL SOURCE    *)
(*         FILES per call with a per-file "name(offset)" suffix.                                   *)
(* Part 3  Verdict(case): every line valid, file structure valid, Decode(lines) = Selected(case).  *)
(* Part 4  OPERATIONAL MODEL transcribed from p2hex.c ProcessFile()/main(): group prologue, line   *)
(*         loop (TransLen, Intel-32 bank split, running ChkSum), epilogue, terminators.  Places    *)
(*         where the pinned code deviates from the public definition / the manual are NAMED        *)
(*         deviations; Emit(case, D) models the code with the deviations in D switched on.         *)
(*         PinnedDevs = behaviour of the pinned tree, {} = behaviour after the proposed repairs.   *)
(*                                                                                                 *)
(* All addresses are kept below 2^30 (TLC integers are 32 bit): residual stated in the manifest.   *)
(***************************************************************************************************)
EXTENDS Integers, Sequences, FiniteSets, SequencesExt, TLC

\* ------------------------------------------------------------------------------------------------
\* arithmetic helpers
\* ------------------------------------------------------------------------------------------------
Lo(x) == x % 256
Hi(x) == (x \div 256) % 256
Byte3(x) == (x \div 65536) % 256
Byte4(x) == (x \div 16777216) % 256
Word16(x) == x % 65536
Min2(a, b) == IF a < b THEN a ELSE b
Max2(a, b) == IF a > b THEN a ELSE b
SumSeq(s) == FoldLeft(LAMBDA a, b : a + b, 0, s)
BE(s) == FoldLeft(LAMBDA a, b : a * 256 + b, 0, s)          \* big-endian value of a byte string
NibSum(s) == FoldLeft(LAMBDA a, b : a + (b \div 16) + (b % 16), 0, s)   \* sum of the hex digits
IsByteSeq(s) == \A i \in 1..Len(s) : s[i] \in 0..255
SetMin(S) == CHOOSE x \in S : \A y \in S : x <= y
SetMax(S) == CHOOSE x \in S : \A y \in S : x >= y
BigAddr == 1073741824        \* 2^30: all modelled addresses stay below
\* values read from an observed text may be larger: they saturate at BigAddr instead of overflowing TLC's integers
BEsat(s) == IF Len(s) = 4 /\ s[1] >= 64 THEN BigAddr ELSE BE(s)
MulSat(a, mul) == IF a >= BigAddr \div mul THEN BigAddr ELSE a * mul

Formats == {"MOTO", "INTEL", "INTEL16", "INTEL32", "MOS", "TEK", "ATMEL", "C", "DSK", "MICO8"}

\* default format per processor family (headids.c Descrs[]; manual: "S-Records for Motorola CPUs, Hitachi and
\* TLCS-900, MOS for 65xx/MELPS, DSK for the 16 bit signal processors from Texas, Atmel Generic for the AVRs,
\* and Intel Hex for the rest")
MotoIds == {1, 3, 4, 5, 6, 9, 55, 64, 69, 80, 82, 86, 94, 97, 98, 99, 100, 101, 102, 104, 105, 108}
MosIds == {17, 25}
Intel32Ids == {19, 41, 42, 71, 118}
Intel16Ids == {60, 66, 70, 76, 96}
AtmelIds == {59, 61}
DskIds == {75, 116, 117, 119}
IntelIds == {2, 7, 8, 10, 18, 20, 21, 22, 26, 27, 28, 29, 33, 37, 39, 49, 50, 51, 52, 53, 54, 56, 57, 58, 62, 63,
             65, 67, 68, 72, 73, 74, 77, 78, 79, 81, 83, 84, 85, 87, 88, 89, 90, 91, 92, 93, 95, 103, 106, 107, 109,
             110, 111, 112, 113, 114, 115, 120, 121, 122, 123, 124, 125, 126, 127}
KnownIds == MotoIds \cup MosIds \cup Intel32Ids \cup Intel16Ids \cup AtmelIds \cup DskIds \cup IntelIds
DefaultFormat(cpu) ==
  CASE cpu \in MotoIds -> "MOTO" [] cpu \in MosIds -> "MOS" [] cpu \in Intel32Ids -> "INTEL32"
    [] cpu \in Intel16Ids -> "INTEL16" [] cpu \in AtmelIds -> "ATMEL" [] cpu \in DskIds -> "DSK"
    [] cpu \in IntelIds -> "INTEL" [] OTHER -> "NONE"

\* ================================================================================================
\* Part 1: public definitions
\* ================================================================================================
\* ---- Motorola S-record: S<t><count><address><data><checksum>; count = number of bytes that follow it;
\*      checksum = one's complement of the low byte of the sum of count, address and data bytes.
\*      token: [k |-> "S", t |-> 0..9, b |-> <<count, address bytes, data bytes, checksum>>]
SAddrLen(t) == CASE t \in {0, 1, 5, 9} -> 2 [] t \in {2, 6, 8} -> 3 [] OTHER -> 4
SRecShape(ln) == ln.k = "S" /\ ln.t \in {0, 1, 2, 3, 5, 7, 8, 9} /\ IsByteSeq(ln.b) /\ Len(ln.b) >= SAddrLen(ln.t) + 2
SRecValid(ln) ==
  /\ SRecShape(ln)
  /\ ln.b[1] = Len(ln.b) - 1                          \* count field
  /\ SumSeq(ln.b) % 256 = 255                          \* count + address + data + checksum = $FF
  /\ (ln.t \in {5, 7, 8, 9} => Len(ln.b) = SAddrLen(ln.t) + 2)   \* no data field
SRecAddr(ln) == BEsat(SubSeq(ln.b, 2, 1 + SAddrLen(ln.t)))
SRecData(ln) == SubSeq(ln.b, 2 + SAddrLen(ln.t), Len(ln.b) - 1)
SIsData(ln) == ln.k = "S" /\ ln.t \in {1, 2, 3}

\* ---- Intel HEX: :LLAAAATT<data>CC; LL = number of data bytes; the sum of all bytes including CC is 0 mod 256
\*      (two's complement).  TT: 00 data, 01 end of file, 02 extended segment address (:02000002SSSS),
\*      03 start segment address (CS:IP), 04 extended linear address (:02000004UUUU), 05 start linear address.
\*      token: [k |-> "I", b |-> <<LL, AH, AL, TT, data.., CC>>]
IRecShape(ln) == ln.k = "I" /\ IsByteSeq(ln.b) /\ Len(ln.b) >= 4
IRecValid(ln) ==
  /\ ln.k = "I" /\ IsByteSeq(ln.b) /\ Len(ln.b) >= 5
  /\ ln.b[1] = Len(ln.b) - 5
  /\ SumSeq(ln.b) % 256 = 0
  /\ ln.b[4] \in 0..5
  /\ (ln.b[4] = 1 => ln.b[1] = 0)
  /\ (ln.b[4] \in {2, 4} => ln.b[1] = 2 /\ ln.b[2] = 0 /\ ln.b[3] = 0)
  /\ (ln.b[4] \in {3, 5} => ln.b[1] = 4 /\ ln.b[2] = 0 /\ ln.b[3] = 0)
IType(ln) == ln.b[4]
IAddr(ln) == ln.b[2] * 256 + ln.b[3]
IData(ln) == SubSeq(ln.b, 5, Len(ln.b) - 1)
\* The manual documents three spellings of the last line (-i 0|1|2); 1 and 2 are deliberate, documented
\* departures from the Intel definition (no checksum / a type-00 record), kept as named variants.
IntelEofVariant1 == <<0, 0, 0, 1>>          \* ":00000001"
IntelEofVariant2 == <<0, 0, 0, 0, 0>>       \* ":0000000000"
IIsEof(ln, variant) ==
  CASE variant = 0 -> IRecValid(ln) /\ IType(ln) = 1
    [] variant = 1 -> ln.k = "I" /\ ln.b = IntelEofVariant1
    [] OTHER       -> ln.k = "I" /\ ln.b = IntelEofVariant2

\* ---- MOS Technology: ;LLAAAA<data>CCCC; CCCC = 16-bit sum of LL, both address bytes and the data bytes OF THAT
\*      LINE; last record ;00NNNNCCCC with NNNN = number of data records in the file and CCCC = its own sum.
\*      token: [k |-> "M", b |-> <<LL, AH, AL, data.., CH, CL>>]
MRecShape(ln) == ln.k = "M" /\ IsByteSeq(ln.b) /\ Len(ln.b) >= 5
MRecValid(ln) ==
  /\ MRecShape(ln)
  /\ ln.b[1] = Len(ln.b) - 5
  /\ ln.b[Len(ln.b) - 1] * 256 + ln.b[Len(ln.b)] = SumSeq(SubSeq(ln.b, 1, Len(ln.b) - 2)) % 65536
MCount(ln) == ln.b[1]
MAddr(ln) == ln.b[2] * 256 + ln.b[3]
MData(ln) == SubSeq(ln.b, 4, Len(ln.b) - 2)

\* ---- Tektronix hexadecimal: /AAAALLHH<data>DD; HH = sum of the six hex DIGITS of address and count,
\*      DD = sum of the hex DIGITS of the data, both modulo 256 (Data I/O format 86; srecord implements the
\*      same).  token: [k |-> "T", b |-> <<AH, AL, LL, HH, data.., DD>>]
TRecShape(ln) == ln.k = "T" /\ IsByteSeq(ln.b) /\ Len(ln.b) >= 6
TRecValid(ln) ==
  /\ TRecShape(ln)
  /\ ln.b[3] = Len(ln.b) - 5 /\ ln.b[3] >= 1
  /\ ln.b[4] = NibSum(SubSeq(ln.b, 1, 3)) % 256
  /\ ln.b[Len(ln.b)] = NibSum(SubSeq(ln.b, 5, Len(ln.b) - 1)) % 256
\* termination block /AAAA00HH (transfer address, count 0): p2hex does not write one; accepted as the last line
TTermValid(ln) == ln.k = "T" /\ IsByteSeq(ln.b) /\ Len(ln.b) = 4 /\ ln.b[3] = 0 /\ ln.b[4] = NibSum(SubSeq(ln.b, 1, 3)) % 256
TAddr(ln) == ln.b[1] * 256 + ln.b[2]
TData(ln) == SubSeq(ln.b, 5, Len(ln.b) - 1)

\* ---- Atmel generic: AAAAAA:DDDD (word address, one 16-bit word per line); -avrlen 2 shortens the address.
\*      token: [k |-> "A", a |-> <<address bytes>>, b |-> <<DH, DL>>]
ARecValid(ln, avrlen) == ln.k = "A" /\ IsByteSeq(ln.a) /\ IsByteSeq(ln.b) /\ Len(ln.a) = avrlen /\ Len(ln.b) = 2
AAddr(ln) == BE(ln.a)

\* ---- C array (defined by the manual only): per block #defines <name>[_n]_start/_len/_end and an array
\*      <name>[_n]_data[]; tokens  [k |-> "CD", n |-> "start"|"len"|"end"|"entry", blk, v |-> <<4 bytes>>, sfx],
\*      [k |-> "CA", blk, b |-> <<bytes>>], [k |-> "CSYN", ok |-> BOOLEAN] (verdict of a C
\*      compiler's syntax check of the whole text, an independent oracle for "syntactically valid").
CKinds == {"CD", "CA", "CSYN"}

\* ---- line validity by format ----------------------------------------------------------------------
KindOf(fmt) == CASE fmt = "MOTO" -> {"S"} [] fmt \in {"INTEL", "INTEL16", "INTEL32"} -> {"I"} [] fmt = "MOS" -> {"M"}
                 [] fmt = "TEK" -> {"T"} [] fmt = "ATMEL" -> {"A"} [] fmt = "C" -> CKinds
                 [] fmt = "DSK" -> {"D", "DE", "DH", "DT"} [] OTHER -> {"X"}

IntelTypes(fmt) == CASE fmt = "INTEL" -> {0, 1} [] fmt = "INTEL16" -> {0, 1, 2, 3} [] OTHER -> {0, 1, 2, 3, 4, 5}

\* DSK / Mico8: structural only
DRecValid(ln) ==
  CASE ln.k = "D"  -> /\ Len(ln.a) = 2 /\ IsByteSeq(ln.a) /\ Len(ln.w) >= 1
                      /\ \A i \in 1..Len(ln.w) : Len(ln.w[i]) = 3 /\ ln.w[i][1] \in {0, 1} /\ IsByteSeq(Tail(ln.w[i]))
                      /\ Len(ln.c) = 2 /\ IsByteSeq(ln.c)
    [] ln.k = "DE" -> Len(ln.a) = 2 /\ ln.a = ln.c
    [] ln.k \in {"DH", "DT"} -> TRUE
    [] OTHER -> FALSE
XRecValid(ln) == ln.k = "X" /\ Len(ln.d) = 5 /\ \A i \in 1..5 : ln.d[i] \in 0..15

LineValid(fmt, ln, o, isLast) ==
  /\ ln.k \in KindOf(fmt)
  /\ CASE fmt = "MOTO" -> SRecValid(ln)
       [] fmt \in {"INTEL", "INTEL16", "INTEL32"} ->
            IF isLast THEN IIsEof(ln, o.i) ELSE IRecValid(ln) /\ IType(ln) \in IntelTypes(fmt) \ {1}
       [] fmt = "MOS" -> MRecValid(ln)
       [] fmt = "TEK" -> IF isLast /\ Len(ln.b) = 4 THEN TTermValid(ln) ELSE TRecValid(ln)
       [] fmt = "ATMEL" -> ARecValid(ln, o.avrlen)
       [] fmt = "C" -> (ln.k = "CSYN" => ln.ok)
       [] fmt = "DSK" -> DRecValid(ln)
       [] fmt = "MICO8" -> XRecValid(ln)
       [] OTHER -> FALSE

\* well enough formed for the decoders to be applied (everything but counts and checksums)
LineShape(fmt, ln, o) ==
  /\ ln.k \in KindOf(fmt)
  /\ CASE fmt = "MOTO" -> SRecShape(ln) [] fmt \in {"INTEL", "INTEL16", "INTEL32"} -> IRecShape(ln)
       [] fmt = "MOS" -> MRecShape(ln) [] fmt = "TEK" -> (TRecShape(ln) \/ TTermValid(ln)) [] fmt = "ATMEL" -> ARecValid(ln, o.avrlen)
       [] fmt = "DSK" -> DRecValid(ln) [] fmt = "MICO8" -> XRecValid(ln) [] OTHER -> TRUE

BadLines(fmt, lines, o) == {i \in 1..Len(lines) : ~LineValid(fmt, lines[i], o, i = Len(lines))}

\* ---- decoders -------------------------------------------------------------------------------------------
\* A data line decodes to one "run" [a |-> key of its first byte, d |-> its data bytes]; key = line address * mul
\* + index (mul = bytes per address unit of the format).  Decode = the set of <<key, byte>> of all runs.
Run(a, d) == [a |-> a, d |-> d]
Pairs(r) == {<<r.a + i - 1, r.d[i]>> : i \in 1..Len(r.d)}

\* Intel: the base in force at line i (extended segment / linear address records honoured)
\*   segment base: byte j goes to SBA*16 + ((offset + j) mod 64K);  linear: (ULBA*64K + offset + j)
IntelBases(lines) ==
  FoldLeft(LAMBDA acc, ln :
             LET cur == IF acc = <<>> THEN [mode |-> "seg", base |-> 0] ELSE acc[Len(acc)]
                 nxt == IF ln.k = "I" /\ Len(ln.b) = 7 /\ ln.b[4] = 2
                          THEN [mode |-> "seg", base |-> (ln.b[5] * 256 + ln.b[6]) * 16]
                        ELSE IF ln.k = "I" /\ Len(ln.b) = 7 /\ ln.b[4] = 4
                          THEN [mode |-> "lin", base |-> MulSat(ln.b[5] * 256 + ln.b[6], 65536)]
                        ELSE cur
             IN Append(acc, nxt),
           <<>>, lines)
\* a segment-mode line that crosses offset $FFFF wraps to the start of the segment: two runs
IntelRuns(ln, st) ==
  LET d == IData(ln)  a == IAddr(ln)  n == Len(d) IN
  IF st.mode = "seg" /\ a + n > 65536
  THEN {Run(st.base + a, SubSeq(d, 1, 65536 - a)), Run(st.base, SubSeq(d, 65536 - a + 1, n))}
  ELSE {Run(st.base + a, d)}

CBlocks(lines) == {ln.blk : ln \in {lines[i] : i \in {j \in 1..Len(lines) : lines[j].k = "CA"}}}
CDef(lines, name, blk) == {BEsat(lines[i].v) : i \in {j \in 1..Len(lines) : lines[j].k = "CD" /\ lines[j].n = name /\ lines[j].blk = blk}}
CArr(lines, blk) == {lines[i].b : i \in {j \in 1..Len(lines) : lines[j].k = "CA" /\ lines[j].blk = blk}}

Runs(fmt, lines, mul) ==
  LET N == Len(lines) IN
  CASE fmt = "MOTO" -> {Run(MulSat(SRecAddr(lines[i]), mul), SRecData(lines[i])) : i \in {j \in 1..N : SIsData(lines[j])}}
    [] fmt \in {"INTEL", "INTEL16", "INTEL32"} ->
         LET bs == IntelBases(lines) IN
         UNION {IntelRuns(lines[i], bs[i]) : i \in {j \in 1..N : lines[j].k = "I" /\ Len(lines[j].b) >= 6 /\ lines[j].b[4] = 0}}
    [] fmt = "MOS" -> {Run(MAddr(lines[i]) * mul, MData(lines[i])) : i \in {j \in 1..N : lines[j].k = "M" /\ MCount(lines[j]) > 0}}
    [] fmt = "TEK" -> {Run(TAddr(lines[i]) * mul, TData(lines[i])) : i \in {j \in 1..N : lines[j].k = "T" /\ Len(lines[j].b) >= 6}}
    [] fmt = "ATMEL" -> {Run(AAddr(lines[i]) * 2, <<lines[i].b[2], lines[i].b[1]>>) : i \in {j \in 1..N : lines[j].k = "A"}}
    [] fmt = "C" -> UNION {{Run(MulSat(st, mul), a) : st \in CDef(lines, "start", blk), a \in CArr(lines, blk)} : blk \in CBlocks(lines)}
    [] fmt = "DSK" -> {Run(BE(lines[i].a) * 2, [j \in 1..(2 * Len(lines[i].w)) |-> lines[i].w[(j + 1) \div 2][IF j % 2 = 1 THEN 3 ELSE 2]])
                         : i \in {j \in 1..N : lines[j].k = "D"}}
    [] OTHER -> {}

Decode(fmt, lines, mul) == UNION {Pairs(r) : r \in Runs(fmt, lines, mul)}

\* ================================================================================================
\* Part 2: what must come out (declarative, from the manual)
\* case c = [recs |-> <<[cpu, seg, gran, start, data]>>, files |-> <<[n, sfx, ofs, nota, fentry]>>, o |-> options]
\* options o = [fmt, l, M, rec5, sep, i, m, rel, reloc, rstart, rstop, e, avrlen, seg, filt, cfmt]
\* ================================================================================================
\* ---- the source files of one call ("BIND ... regards all command line arguments that do not start with +, - or /
\*      as file specifications, of which the last one must designate the destination file"; P2HEX "uses the same
\*      conventions for file names").  c.files lists the source arguments in command-line order; file i holds the
\*      next c.files[i].n records of c.recs (c.recs = the records of all files, concatenated in that order):
\*        sfx    TRUE: the argument is written "name(offset)", FALSE: just "name"
\*        ofs    the number between the parentheses (0 when sfx = FALSE)
\*        nota   how the renderer spells that number ("$" hex, "0x" hex, "dec"): no meaning for the expectation
\*        fentry the address of the file's entry record, -1 if it has none
\*      Manual: "By using an offset, it is possible to move a file's contents to an arbitrary position.  This offset
\*      is simply appended to a file's name, surrounded with parentheses."  The offset belongs to THAT name: a file
\*      named without one is not moved, whatever was written behind another name of the same call and wherever in
\*      the list the names stand.
FileIdx(c) == 1..Len(c.files)
RECURSIVE FileBase(_, _)
FileBase(c, i) == IF i <= 1 THEN 0 ELSE FileBase(c, i - 1) + c.files[i - 1].n       \* records before file i
FileOf(c, k) == CHOOSE i \in FileIdx(c) : FileBase(c, i) < k /\ k <= FileBase(c, i) + c.files[i].n
FileStart(c, k) == \E i \in FileIdx(c) : c.files[i].n > 0 /\ FileBase(c, i) + 1 = k   \* k = first record of a file
FilesWellFormed(c) == /\ Len(c.files) >= 1 /\ FileBase(c, Len(c.files) + 1) = Len(c.recs)
                      /\ \A i \in FileIdx(c) : c.files[i].n >= 0 /\ c.files[i].ofs >= 0 /\ (~c.files[i].sfx => c.files[i].ofs = 0)
DeclOfs(f) == IF f.sfx THEN f.ofs ELSE 0
FilterOK(o, cpu) == o.filt = <<>> \/ \E i \in 1..Len(o.filt) : o.filt[i] = cpu
SelSeg(o) == IF o.seg = 0 THEN 1 ELSE o.seg                   \* -segment, default CODE
RecIdx(c) == 1..Len(c.recs)
RStart(c, k) == c.recs[k].start + DeclOfs(c.files[FileOf(c, k)])   \* file(offset) is added to every address OF THAT FILE
RUnits(c, k) == Len(c.recs[k].data) \div c.recs[k].gran
Picked(c) == {k \in RecIdx(c) : FilterOK(c.o, c.recs[k].cpu) /\ c.recs[k].seg = SelSeg(c.o)}

\* the format in force: explicit -F or the default of the processor family of the picked records
FmtOf(c, k) == IF c.o.fmt = "DEFAULT" THEN DefaultFormat(c.recs[k].cpu) ELSE c.o.fmt
FmtSet(c) == {FmtOf(c, k) : k \in Picked(c)}
GranSet(c) == {c.recs[k].gran : k \in Picked(c)}

\* -r start-stop; "$"/"0x" (coded -1) = lowest / highest address found among the picked records
WinLo(c) == IF c.o.rstart # -1 THEN c.o.rstart ELSE SetMin({RStart(c, k) : k \in Picked(c)})
WinHi(c) == IF c.o.rstop # -1 THEN c.o.rstop ELSE SetMax({RStart(c, k) + RUnits(c, k) - 1 : k \in Picked(c)})

\* address written for unit address a: -a makes it relative to the window start, -R adds an offset
OutAddr(c, a) == a - (IF c.o.rel THEN WinLo(c) ELSE 0) + c.o.reloc

\* byte-level content.  m (-m, Intel/PIC only): 0 = bytes in file order, byte addresses = unit address * gran;
\* 1 = bytes of every unit reversed; 2/3 = only byte lane 0 / 1 of every unit at the unit address.
RecPairs(c, k) ==
  LET r == c.recs[k]  G == r.gran  s == RStart(c, k)
      lo == Max2(WinLo(c), s)  hi == Min2(WinHi(c), s + RUnits(c, k) - 1)  m == c.o.m
  IN IF hi < lo THEN {}
     ELSE IF m < 2 THEN {<<OutAddr(c, a) * G + j, r.data[(a - s) * G + (IF m = 1 THEN G - 1 - j ELSE j) + 1]>> : a \in lo..hi, j \in 0..(G - 1)}
     ELSE {<<OutAddr(c, a), r.data[(a - s) * G + (m - 2) + 1]>> : a \in lo..hi}
Selected(c) == IF Picked(c) = {} THEN {} ELSE UNION {RecPairs(c, k) : k \in Picked(c)}

\* -e overrides the code files' entry records ("If such a command line parameter is missing, P2HEX will search a
\* corresponding entry in the code file"); several files with different entries: the manual does not say which one
\* counts (Definite), the code takes the first one it meets (operational model)
FileEntries(c) == {i \in FileIdx(c) : c.files[i].fentry # -1}
ExpEntry(c) == IF c.o.e # -1 THEN c.o.e
               ELSE IF FileEntries(c) = {} THEN -1 ELSE c.files[SetMin(FileEntries(c))].fentry

\* largest key the format can carry (the manual: longer addresses are reported and truncated)
FmtMaxKey(fmt, o) == CASE fmt \in {"INTEL", "MOS", "TEK"} -> 65535
                       [] fmt = "INTEL16" -> 1048575             \* manual: "reaches 4 bits further" (the code warns only above $ffff0+$ffff)
                       [] fmt = "ATMEL" -> IF o.avrlen = 2 THEN 131071 ELSE 33554431
                       [] fmt = "DSK" -> 131071
                       [] OTHER -> BigAddr - 1
\* the multiplier between line addresses and keys
MulOf(c, fmt) == IF fmt \in {"INTEL", "INTEL16", "INTEL32", "ATMEL", "DSK"} THEN 1 ELSE SetMax(GranSet(c))
TheGranOf(c) == CHOOSE g \in GranSet(c) : TRUE
\* clipped unit range of picked record k and the keys it is written to
ClipLo(c, k) == Max2(WinLo(c), RStart(c, k))
ClipHi(c, k) == Min2(WinHi(c), RStart(c, k) + RUnits(c, k) - 1)
KeyLo(c, k) == IF c.o.m < 2 THEN OutAddr(c, ClipLo(c, k)) * c.recs[k].gran ELSE OutAddr(c, ClipLo(c, k))
KeyHi(c, k) == IF c.o.m < 2 THEN OutAddr(c, ClipHi(c, k)) * c.recs[k].gran + c.recs[k].gran - 1 ELSE OutAddr(c, ClipHi(c, k))
Live(c) == {k \in Picked(c) : ClipLo(c, k) <= ClipHi(c, k)}
Representable(c, fmt) ==
  LET top == IF fmt \in {"INTEL", "INTEL16", "INTEL32", "ATMEL", "DSK"} \/ FmtMaxKey(fmt, c.o) >= BigAddr - 1 THEN FmtMaxKey(fmt, c.o)
             ELSE (FmtMaxKey(fmt, c.o) + 1) * MulOf(c, fmt) - 1
  IN \A k \in Live(c) : KeyLo(c, k) >= 0 /\ KeyHi(c, k) <= top

\* ---- the same comparison without building the two sets (used on large inputs; TLC checks on the bounded model
\*      that it is equivalent to Decode = Selected): every decoded byte is the selected byte of its key, and the
\*      decoded keys cover as many keys as are selected
SelKeys(c) == UNION {KeyLo(c, k)..KeyHi(c, k) : k \in Live(c)}
SelCount(c) == Cardinality(SelKeys(c))
\* per-case constants of the inverse mapping key -> selected byte
SelCtx(c) == [G |-> TheGranOf(c), m |-> c.o.m, shift |-> (IF c.o.rel THEN WinLo(c) ELSE 0) - c.o.reloc,
              live |-> {[k |-> k, lo |-> ClipLo(c, k), hi |-> ClipHi(c, k), s |-> RStart(c, k)] : k \in Live(c)}]
SelByteAtX(c, x, key) ==
  LET u == IF x.m < 2 THEN key \div x.G ELSE key
      j == IF x.m < 2 THEN key % x.G ELSE x.m - 2
      a == u + x.shift
      ks == {e \in x.live : e.lo <= a /\ a <= e.hi}
  IN IF ks = {} THEN -1
     ELSE LET e == CHOOSE e \in ks : TRUE IN c.recs[e.k].data[(a - e.s) * x.G + (IF x.m = 1 THEN x.G - 1 - j ELSE j) + 1]
SelByteAt(c, key) == SelByteAtX(c, SelCtx(c), key)
RunWrongX(c, x, r) == {i \in 1..Len(r.d) : SelByteAtX(c, x, r.a + i - 1) # r.d[i]}
RunWrong(c, r) == RunWrongX(c, SelCtx(c), r)
DecodeMatches(c, runs) ==
  LET x == SelCtx(c) IN
  /\ \A r \in runs : \A i \in 1..Len(r.d) : SelByteAtX(c, x, r.a + i - 1) = r.d[i]
  /\ Cardinality(UNION {r.a..(r.a + Len(r.d) - 1) : r \in runs}) = SelCount(c)

\* the case has a definite outcome under the manual
Definite(c) ==
  /\ FilesWellFormed(c)
  /\ (c.o.e # -1 \/ Cardinality({c.files[i].fentry : i \in FileEntries(c)}) <= 1)
  /\ Picked(c) # {}
  /\ Cardinality(FmtSet(c)) = 1 /\ Cardinality(GranSet(c)) = 1
  /\ "NONE" \notin FmtSet(c)
  /\ \A k \in Picked(c) : Len(c.recs[k].data) > 0 /\ Len(c.recs[k].data) % c.recs[k].gran = 0
  /\ Live(c) # {}                                      \* something is selected
  /\ (c.o.m >= 1 => \A k \in Picked(c) : c.recs[k].gran \in {2, 4} /\ FmtOf(c, k) \in {"INTEL", "INTEL16", "INTEL32"})
  /\ (c.o.m >= 2 => \A k \in Picked(c) : FmtOf(c, k) = "INTEL")     \* INHX8L/INHX8H are 8-bit formats
  /\ \A k \in Picked(c) : FmtOf(c, k) \in {"ATMEL", "DSK"} => c.recs[k].gran = 2
  /\ \A k \in Picked(c) : FmtOf(c, k) = "MICO8" => c.recs[k].gran = 4
  /\ \A k1, k2 \in Live(c) : k1 # k2 => (ClipHi(c, k1) < ClipLo(c, k2) \/ ClipHi(c, k2) < ClipLo(c, k1))   \* no overlapping records
TheFmt(c) == CHOOSE f \in FmtSet(c) : TRUE
TheGran(c) == CHOOSE g \in GranSet(c) : TRUE

\* ================================================================================================
\* Part 3: verdict on an observed output
\* ================================================================================================
\* --- file structure per format (terminators, counts, entry) -----------------------------------------
SDataAfter(lines, i) ==       \* number of S1/S2/S3 records of the block that S5 record i announces
  LET N == Len(lines)
      stop == IF \E j \in (i + 1)..N : ~SIsData(lines[j]) THEN SetMin({j \in (i + 1)..N : ~SIsData(lines[j])}) ELSE N + 1
  IN stop - i - 1
EntryFits(e, t) == e >= 0 /\ (SAddrLen(t) = 4 \/ e < (IF SAddrLen(t) = 2 THEN 65536 ELSE 16777216))

MotoStructure(c, lines) ==
  LET N == Len(lines) e == ExpEntry(c) IN
  /\ N >= 2 /\ lines[1].k = "S" /\ lines[1].t = 0
  /\ \A i \in 1..N : lines[i].k = "S" /\ lines[i].t = 5 /\ SRecValid(lines[i]) => SRecAddr(lines[i]) = SDataAfter(lines, i)
  /\ lines[N].k = "S" /\ lines[N].t \in {7, 8, 9}
  /\ (~c.o.sep => /\ \A i \in 1..(N - 1) : lines[i].t \notin {7, 8, 9}
                  /\ SRecValid(lines[N]) => (IF e = -1 THEN SRecAddr(lines[N]) = 0
                                            ELSE EntryFits(e, lines[N].t) => SRecAddr(lines[N]) = e))

IntelStructure(c, fmt, lines) ==
  LET N == Len(lines) e == ExpEntry(c)
      starts == {i \in 1..(N - 1) : lines[i].k = "I" /\ Len(lines[i].b) = 9 /\ lines[i].b[4] \in {3, 5}}
  IN
  /\ N >= 1
  /\ \A i \in 1..(N - 1) : lines[i].k = "I" /\ Len(lines[i].b) >= 5 => lines[i].b[4] # 1      \* nothing after EOF
  /\ IF e = -1 THEN starts = {} /\ (c.o.i = 0 /\ IRecValid(lines[N]) => IAddr(lines[N]) = 0)
     ELSE CASE fmt = "INTEL" -> starts = {} /\ (c.o.i = 0 /\ IRecValid(lines[N]) /\ e < 65536 => IAddr(lines[N]) = e)
            [] fmt = "INTEL16" -> /\ Cardinality(starts) = 1
                                  /\ \A i \in starts : lines[i].b[4] = 3 /\
                                       (e < 1048576 => (lines[i].b[5] * 256 + lines[i].b[6]) * 16 + lines[i].b[7] * 256 + lines[i].b[8] = e)
            [] OTHER -> /\ Cardinality(starts) = 1
                        /\ \A i \in starts : lines[i].b[4] = 5 /\ (e < BigAddr => BEsat(SubSeq(lines[i].b, 5, 8)) = e)

MosStructure(c, lines) ==
  LET N == Len(lines) IN
  /\ N >= 1 /\ lines[N].k = "M" /\ MCount(lines[N]) = 0
  /\ \A i \in 1..(N - 1) : lines[i].k = "M" => MCount(lines[i]) > 0
  /\ (Len(lines[N].b) = 5 => MAddr(lines[N]) = N - 1)            \* NNNN = number of data records

CStructure(c, lines) ==
  LET e == ExpEntry(c) IN
  /\ CBlocks(lines) # {}
  /\ \A blk \in CBlocks(lines) :
       /\ Cardinality(CArr(lines, blk)) = 1
       /\ \A a \in CArr(lines, blk) : \A n \in CDef(lines, "len", blk) : n = Len(a)      \* count field
  /\ (e # -1 /\ e < BigAddr => CDef(lines, "entry", 0) = {e})
  /\ (e = -1 => CDef(lines, "entry", 0) = {})

Structure(c, fmt, lines) ==
  CASE fmt = "MOTO" -> MotoStructure(c, lines)
    [] fmt \in {"INTEL", "INTEL16", "INTEL32"} -> IntelStructure(c, fmt, lines)
    [] fmt = "MOS" -> MosStructure(c, lines)
    [] fmt = "C" -> CStructure(c, lines)
    [] OTHER -> TRUE

\* data bytes carried by one line (for the -l diagnostic)
LineData(fmt, ln) ==
  CASE fmt = "MOTO" /\ SIsData(ln) -> Len(ln.b) - SAddrLen(ln.t) - 2
    [] fmt \in {"INTEL", "INTEL16", "INTEL32"} /\ ln.k = "I" /\ Len(ln.b) >= 5 /\ ln.b[4] = 0 -> Len(ln.b) - 5
    [] fmt = "MOS" /\ ln.k = "M" -> Len(ln.b) - 5
    [] fmt = "TEK" /\ ln.k = "T" -> Len(ln.b) - 5
    [] OTHER -> 0
MaxLineData(fmt, lines) == IF lines = <<>> THEN 0 ELSE SetMax({LineData(fmt, lines[i]) : i \in 1..Len(lines)})

\* the verdict the harness reports: all judgement is made here
Verdict(c, lines) ==
  IF ~Definite(c) THEN [definite |-> FALSE, ok |-> TRUE]
  ELSE
  LET fmt == TheFmt(c)
      bad == BadLines(fmt, lines, c.o)
      structOK == Structure(c, fmt, lines)
      rep == Representable(c, fmt)
      shaped == \A i \in 1..Len(lines) : LineShape(fmt, lines[i], c.o)
      runs == IF shaped THEN Runs(fmt, lines, MulOf(c, fmt)) ELSE {}
      decodeOK == ~rep \/ ~shaped \/ DecodeMatches(c, runs)
      wrong == IF decodeOK THEN {} ELSE {r \in runs : RunWrong(c, r) # {}}
      first == IF wrong = {} THEN <<>>
               ELSE LET r == CHOOSE r \in wrong : \A q \in wrong : r.a <= q.a
                        i == CHOOSE i \in RunWrong(c, r) : \A j \in RunWrong(c, r) : i <= j
                    IN <<r.a + i - 1, r.d[i], SelByteAt(c, r.a + i - 1)>>
  IN [definite |-> TRUE, fmt |-> fmt, ok |-> bad = {} /\ structOK /\ decodeOK,
      valid |-> bad = {}, badlines |-> IF bad = {} THEN <<>> ELSE <<SetMin(bad)>>, nbad |-> Cardinality(bad),
      structure |-> structOK, representable |-> rep, decode |-> decodeOK,
      \* first differing key: <<key, byte decoded, byte selected (-1: nothing selected there)>>; ncovered vs nsel
      firstdiff |-> first,
      ncovered |-> IF shaped THEN Cardinality(UNION {r.a..(r.a + Len(r.d) - 1) : r \in runs}) ELSE -1,
      nsel |-> SelCount(c), maxline |-> MaxLineData(fmt, lines), nlines |-> Len(lines),
      \* observations that are not part of the verdict
      tek_term |-> fmt = "TEK" => (lines # <<>> /\ TTermValid(lines[Len(lines)])),
      c_end |-> fmt = "C" => \A blk \in CBlocks(lines) : \A st \in CDef(lines, "start", blk) : \A n \in CDef(lines, "len", blk) :
                                \A e \in CDef(lines, "end", blk) : e = st + n \div TheGran(c) - 1]

\* ================================================================================================
\* Part 4: operational model of p2hex.c
\* ================================================================================================
\* Named deviations of the pinned code (each is a reproduced defect, see proposed_fixes/C06-*.md):
\*  "MosRunningSum"        ChkSum += in the MOS line prologue is never reset: the sum runs over all lines so far
\*  "MosTerm4"             the MOS terminator is the constant ;0000040004 (record count always 4)
\*  "TekByteSums"          both Tektronix checksums are sums of bytes instead of sums of hex digits
\*  "Intel32UnitBank"      the Intel-32 bank logic works in address units, not bytes: wrong for granularity > 1
\*  "MotoTypeUnrelocated"  S1/S2/S3 is chosen from the address BEFORE -a/-R are applied
\*  "Intel16NoRebase"      Intel-16 offsets beyond $FFFF inside one record group are truncated
\*  "RangeOnlyCode"        -r sets the window of the CODE segment only; other segments keep 0..$7fff/$1fff
\*  "LineSplitsUnits"      the line length is not rounded to whole address units: for granularity 4/8 and -l not
\*                         a multiple of it, lines end inside a unit and ErgStart += TransLen / Gran loses the rest
\*                         (with -m 1 DSwap() then runs off the buffer: the program crashes)
\*  "MotoLineOverflow"     S-record lines may carry up to 254 data bytes although count = data + 3..5 is one byte
\* Deviation from the manual that is not a defect of the property: -l odd is rounded UP (manual: down).
\*
\* PER-GROUP STATE.  FirstBank, IntOffset, HSeg, ChkSum, MotRecType, RecCnt and GrpLineLen are locals of
\* ProcessFile(): they live across the record groups of one code file and are only right because the group
\* prologue sets them again for every record.  They are explicit emitter state here (st.loc, copied into the group
\* state g by GroupOf and written back by GroupEnd); the prologue's re-initialisations are separate, named steps
\* that the "Carry..." switches take out (no tree is known to have these defects: they are the sensitivity
\* mutants of the model, P2Hex_MCcarry*.cfg must find a violation for each observable one):
\*  "CarryFirstBank"   Intel-32 prologue without `FirstBank = False`: a record that ENDS exactly on a 64 KiB
\*                     boundary leaves the "bank switch pending" flag set and the next record gets a spurious
\*                     :02000004 for bank + 1
\*  "CarryRecCnt"      RecCnt (S5 count) not recomputed for a later group
\*  "CarryMotRecType"  MotRecType never lowered again (`else MotRecType = 0` missing): wider records than needed,
\*                     still valid and decoding right - not observable by the property
\*  "CarryGrpLineLen"  GrpLineLen (incl. the S-record cap) kept from the previous group - not observable either
\*
\* PER-ARGUMENT STATE.  main() hands every source argument to ProcessGroup(), which lets RemoveOffset() (toolutils.c)
\* split "name(offset)" and store the number in the STATIC CurrOffset that the callback passes on to MeasureFile() /
\* ProcessFile().  The list of source arguments is walked TWICE when a window end is automatic (StartAuto/StopAuto:
\* MeasureFile walk, then ProcessFile walk) and once otherwise; CurrOffset lives across the arguments of a walk and
\* from the first walk into the second, and is only right because RemoveOffset() begins with `*Offset = 0`.
\*  "CarryOffset"      RemoveOffset() without that reset: an argument WITHOUT "(offset)" is handled with the offset
\*                     of the argument handled before it - the previous name of the same walk or, for the first name
\*                     of the ProcessFile walk, the last name of the MeasureFile walk
\* The locals of ProcessFile() start from their initialisers again for every source file (AtFile).
CarryDevs == {"CarryFirstBank", "CarryRecCnt", "CarryMotRecType", "CarryGrpLineLen", "CarryOffset"}
PinnedDevs == {"MosRunningSum", "MosTerm4", "TekByteSums", "Intel32UnitBank", "MotoTypeUnrelocated",
               "Intel16NoRebase", "RangeOnlyCode", "LineSplitsUnits", "MotoLineOverflow"}

EffLineLen(o) == o.l + (o.l % 2)                  \* CMD_LineLen: LineLen += LineLen & 1
\* data bytes per line of one record group (GrpLineLen of the repaired code; plain LineLen in the pinned code)
GrpLL(o, G, fmt, mt, D) ==
  LET LL == EffLineLen(o)
      a == IF "LineSplitsUnits" \in D THEN LL ELSE IF LL - (LL % G) = 0 THEN G ELSE LL - (LL % G)
  IN IF fmt = "MOTO" /\ "MotoLineOverflow" \notin D /\ a + 3 + mt > 255 THEN (252 - mt) - ((252 - mt) % G) ELSE a

\* ---- ProcessGroup()/RemoveOffset(): the offset each walk hands to the file functions -------------------
ArgOfs(f, cur, D) == IF f.sfx THEN f.ofs ELSE IF "CarryOffset" \in D THEN cur ELSE 0      \* `*Offset = 0;` first
RECURSIVE CurrOfsAfter(_, _, _, _)        \* CurrOffset after the arguments 1..i of a walk that began with cur0
CurrOfsAfter(c, i, cur0, D) == IF i <= 0 THEN cur0 ELSE ArgOfs(c.files[i], CurrOfsAfter(c, i - 1, cur0, D), D)
MeasWalk(c) == c.o.rstart = -1 \/ c.o.rstop = -1                                         \* StartAuto || StopAuto
MeasOfs(c, i, D) == CurrOfsAfter(c, i, 0, D)                      \* a static: 0 when the program starts
ProcOfs(c, i, D) == CurrOfsAfter(c, i, IF MeasWalk(c) THEN CurrOfsAfter(c, Len(c.files), 0, D) ELSE 0, D)
MStart(c, k, D) == c.recs[k].start + MeasOfs(c, FileOf(c, k), D)     \* MeasureFile(): Adr += Offset
PStart(c, k, D) == c.recs[k].start + ProcOfs(c, FileOf(c, k), D)     \* ProcessFile(): InpStart += Offset

\* window as main()/MeasureFile()/CMD_AdrRange compute it for segment S
MeasSegs(o) == IF o.seg # 0 THEN {o.seg} ELSE {1, 2}
Meas(c, S) == {k \in RecIdx(c) : FilterOK(c.o, c.recs[k].cpu) /\ c.recs[k].seg \in MeasSegs(c.o) /\ c.recs[k].seg = S}
DefStop(S) == IF S = 2 THEN 8191 ELSE 32767
CodeWinLo(c, S, D) ==
  IF c.o.rstart = -1 THEN (IF Meas(c, S) = {} THEN BigAddr ELSE SetMin({MStart(c, k, D) : k \in Meas(c, S)}))
  ELSE IF S = 1 \/ ("RangeOnlyCode" \notin D /\ S = c.o.seg) THEN c.o.rstart ELSE 0
CodeWinHi(c, S, D) ==
  IF c.o.rstop = -1 THEN (IF Meas(c, S) = {} THEN 0 ELSE SetMax({MStart(c, k, D) + RUnits(c, k) - 1 : k \in Meas(c, S)}))
  ELSE IF S = 1 \/ ("RangeOnlyCode" \notin D /\ S = c.o.seg) THEN c.o.rstop ELSE DefStop(S)
\* main(): "automatic range setting failed" -> exit 1, nothing written
AutoFails(c, D) == (c.o.rstart = -1 \/ c.o.rstop = -1) /\ CodeWinLo(c, SelSeg(c.o), D) > CodeWinHi(c, SelSeg(c.o), D)

ValidSegs(o, fmt) == IF o.seg # 0 THEN {o.seg} ELSE IF fmt = "DSK" THEN {1, 2} ELSE {1}

\* ---- token constructors (same shape as the harness' tokeniser) ------------------------------------
SLine(t, body) == [k |-> "S", t |-> t, b |-> body]
ILine(body) == [k |-> "I", b |-> body]
MLine(body) == [k |-> "M", b |-> body]
TLine(body) == [k |-> "T", b |-> body]
ALine(a, w) == [k |-> "A", a |-> a, b |-> w]
Long4(v) == <<Byte4(v), Byte3(v), Hi(v), Lo(v)>>

\* :02000002SSSSCC / :02000004UUUUCC  (ChkSum = 4|6 + Lo + Hi; Lo(0x100 - ChkSum))
IntelExt(ty, hseg) == ILine(<<2, 0, 0, ty, Hi(hseg), Lo(hseg), (256 - ((2 + ty + Hi(hseg) + Lo(hseg)) % 256)) % 256>>)

\* emitter state: out = lines written, chk = the C variable ChkSum of ProcessFile (a Word), occ = FormatOccured,
\* maxMoto/maxIntel, ncb = NumCBlocks, ndata = data lines written (used by the repaired MOS terminator)
\* loc = the ProcessFile() locals that survive a record group: FirstBank, IntOffset, HSeg, MotRecType, RecCnt,
\*       GrpLineLen (ChkSum is st.chk); values as initialised at the top of ProcessFile()
InitLoc == [fb |-> FALSE, io |-> 0, hseg |-> 0, mt |-> 0, reccnt |-> 0, gll |-> 0]
InitSt == [out |-> <<>>, chk |-> 0, occ |-> {}, maxMoto |-> 0, maxIntel |-> 0, ncb |-> 0, ndata |-> 0, loc |-> InitLoc]
\* ProcessFile() is entered anew for every source file: its locals start from their initialisers again; the statics
\* of main() (FormatOccured, MaxMoto, MaxIntel, MOSRecCnt, NumCBlocks, EntryAdr) go on across the files
AtFile(c, k, st) == IF FileStart(c, k) THEN [st EXCEPT !.loc = InitLoc] ELSE st

\* --- group prologue ("Kopf einer Datenzeilengruppe") -------------------------------------------------
\* g = group state: es ErgStart (already relative/relocated), el ErgLen in bytes, pos = bytes consumed,
\*     stop = ErgStop (NOT relocated, as in the code), io IntOffset, fb FirstBank, mt MotRecType
Scale(c, G) == IF c.o.m < 2 THEN G ELSE 1
GroupOfL(c, k, loc, D) ==
  LET r == c.recs[k]  G == r.gran  S == r.seg  s == PStart(c, k, D)
      lo == CodeWinLo(c, S, D)  hi == CodeWinHi(c, S, D)
      es0 == Max2(lo, s)  stop == Min2(hi, s + RUnits(c, k) - 1)
  IN IF ~(FilterOK(c.o, r.cpu) /\ S \in ValidSegs(c.o, FmtOf(c, k))) THEN [doit |-> FALSE] ELSE
     [k |-> k, fmt |-> FmtOf(c, k), gran |-> G, seg |-> S,
      doit |-> stop >= es0,
      es |-> es0 - (IF c.o.rel THEN lo ELSE 0) + c.o.reloc,
      el |-> (stop + 1 - es0) * G, pos |-> (es0 - s) * G, stop |-> stop,
      pos0 |-> (es0 - s) * G, el0 |-> (stop + 1 - es0) * G,
      \* carried over from the previous group of the file until the prologue sets them
      io |-> loc.io, fb |-> loc.fb, hseg |-> loc.hseg, mt |-> loc.mt, reccnt |-> loc.reccnt, gll |-> loc.gll]
GroupOf(c, k, D) == GroupOfL(c, k, InitLoc, D)       \* window / selection part only (doit, el0, ...)
\* what the group leaves behind for the next one
GroupEnd(g, st) == [st EXCEPT !.loc = [fb |-> g.fb, io |-> g.io, hseg |-> g.hseg, mt |-> g.mt, reccnt |-> g.reccnt, gll |-> g.gll]]

Prologue(c, g0, st, D) ==
  LET fmt == g0.fmt  G == g0.gran
      first == st.loc.gll = 0                      \* nothing has been converted yet in this file
      \* "Statistik, Anzahl Datenzeilen ausrechnen": GrpLineLen and RecCnt are set for every group of every format
      gllN == GrpLL(c.o, G, fmt, 0, D)
      gll0 == IF "CarryGrpLineLen" \in D /\ ~first THEN g0.gll ELSE gllN
      g == [g0 EXCEPT !.gll = gll0,
                      !.reccnt = IF "CarryRecCnt" \in D /\ ~first THEN g0.reccnt ELSE (g0.el + gll0 - 1) \div gll0]
      outStop == g.es + (g.el \div G) - 1
      tyAddr == IF "MotoTypeUnrelocated" \in D THEN g.stop ELSE outStop
  IN
  CASE fmt = "MOTO" ->
         LET mt0 == IF tyAddr \div 16777216 # 0 THEN 2 ELSE IF tyAddr \div 65536 # 0 THEN 1 ELSE 0
             \* MotRecType = 2 / 1 / 0: the last branch is the reset of the previous group's type
             mt1 == IF "CarryMotRecType" \in D /\ mt0 = 0 THEN g.mt ELSE mt0
             mt == Max2(mt1, c.o.M - 1)
             \* the count field is a single byte: GrpLineLen capped, RecCnt recomputed (repaired code)
             capped == GrpLL(c.o, G, fmt, mt, D) # GrpLL(c.o, G, fmt, 0, D)
             LL == IF capped /\ ~("CarryGrpLineLen" \in D /\ ~first) THEN GrpLL(c.o, G, fmt, mt, D) ELSE g.gll
             reccnt == IF capped /\ ~("CarryRecCnt" \in D /\ ~first) THEN (g.el + LL - 1) \div LL ELSE g.reccnt
             s0 == IF "MOTO" \notin st.occ \/ c.o.sep THEN <<SLine(0, <<3, 0, 0, 252>>)>> ELSE <<>>
             s5 == IF c.o.rec5 THEN <<SLine(5, <<3, Hi(reccnt), Lo(reccnt), 255 - ((Lo(reccnt) + Hi(reccnt) + 3) % 256)>>)>> ELSE <<>>
         IN [g |-> [g EXCEPT !.mt = mt, !.gll = LL, !.reccnt = reccnt],
             st |-> [st EXCEPT !.out = st.out \o s0 \o s5, !.occ = st.occ \cup {"MOTO"}, !.maxMoto = Max2(st.maxMoto, mt),
                               !.chk = IF c.o.rec5 THEN Lo(reccnt) + Hi(reccnt) + 3 ELSE st.chk]]
    [] fmt = "MOS" -> [g |-> g, st |-> [st EXCEPT !.occ = st.occ \cup {"MOS"}]]
    [] fmt = "INTEL" -> [g |-> [g EXCEPT !.io = 0], st |-> [st EXCEPT !.occ = st.occ \cup {"INTEL"}]]
    [] fmt = "INTEL16" ->
         LET b == g.es * G  io == b - (b % 16)  hseg == Word16(io \div 16)
         IN [g |-> [g EXCEPT !.io = io \div G, !.hseg = hseg],
             st |-> [st EXCEPT !.out = Append(st.out, IntelExt(2, hseg)), !.occ = st.occ \cup {"INTEL"},
                               !.maxIntel = Max2(st.maxIntel, 1), !.chk = 4 + Lo(hseg) + Hi(hseg)]]
    [] fmt = "INTEL32" ->
         LET sc == IF "Intel32UnitBank" \in D THEN G ELSE Scale(c, G)
             b == g.es * sc  io == b - (b % 65536)  hseg == Word16(io \div 65536)
         \* `FirstBank = False`: the pending bank switch of the previous group must not leak into this one
         IN [g |-> [g EXCEPT !.io = io \div sc, !.hseg = hseg, !.fb = IF "CarryFirstBank" \in D THEN g.fb ELSE FALSE],
             st |-> [st EXCEPT !.out = Append(st.out, IntelExt(4, hseg)), !.occ = st.occ \cup {"INTEL"},
                               !.maxIntel = Max2(st.maxIntel, 2), !.chk = 6 + Lo(hseg) + Hi(hseg)]]
    [] fmt = "DSK" -> [g |-> g, st |-> [st EXCEPT !.out = IF "DSK" \in st.occ THEN st.out ELSE Append(st.out, [k |-> "DH"]),
                                                  !.occ = st.occ \cup {"DSK"}]]
    [] fmt = "C" ->
         LET has(ch) == \E i \in 1..Len(c.o.cfmt) : c.o.cfmt[i] = ch
             sfx(up, low) == IF has(up) THEN "ul" ELSE "u"
             def(n, up, low, v) == IF has(up) \/ has(low) THEN <<[k |-> "CD", n |-> n, blk |-> st.ncb, v |-> Long4(v), sfx |-> sfx(up, low)]>> ELSE <<>>
         IN [g |-> g,
             st |-> [st EXCEPT !.out = st.out \o def("start", "S", "s", g.es) \o def("len", "L", "l", g.el)
                                              \o def("end", "E", "e", g.es + g.el - 1)]]
    [] OTHER -> [g |-> g, st |-> st]

\* --- one data line ("Datenzeilen selber") -------------------------------------------------------------
\* bytes of the record as they are written: MultiMode 1 reverses every unit (WSwap/DSwap), 2/3 keep one lane
BufOf(c, g, n) ==
  LET r == c.recs[g.k]  G == g.gran  raw == SubSeq(r.data, g.pos + 1, g.pos + n)
      \* (a line that ends inside a unit makes the real DSwap() overrun: modelled as the marker -1, never a byte)
      swi(i) == ((i - 1) \div G) * G + (G - 1 - ((i - 1) % G)) + 1
      sw == IF c.o.m = 1 /\ G \in {2, 4} THEN [i \in 1..n |-> IF swi(i) <= n THEN raw[swi(i)] ELSE -1] ELSE raw
  IN IF c.o.m < 2 THEN sw ELSE SelectSeq([i \in 1..n |-> IF (i - 1) % G = c.o.m - 2 THEN sw[i] ELSE -2], LAMBDA x : x >= -1)

LineStep(c, g0, st0, D) ==
  LET fmt == g0.fmt  G == g0.gran  LL == g0.gll
      \* "evtl. Folgebank fuer Intel32 ausgeben"
      bank == fmt = "INTEL32" /\ g0.fb
      sc == IF "Intel32UnitBank" \in D THEN 1 ELSE Scale(c, G)       \* scale of the 64K test
      io1 == IF bank THEN g0.io + 65536 \div (IF "Intel32UnitBank" \in D THEN G ELSE Scale(c, G)) ELSE g0.io
      hsegB == Word16(IF "Intel32UnitBank" \in D THEN io1 \div 65536 ELSE (io1 * Scale(c, G)) \div 65536)
      \* Intel-16 (repaired code only): start a new segment when the offset would leave the 64K segment
      tl0 == Min2(LL, g0.el)
      rebase16 == fmt = "INTEL16" /\ "Intel16NoRebase" \notin D /\ (g0.es - g0.io) * Scale(c, G) + (tl0 \div G) * Scale(c, G) > 65536
      b16 == g0.es * G  io16 == b16 - (b16 % 16)  hseg16 == Word16(io16 \div 16)
      io == IF rebase16 THEN io16 \div G ELSE io1
      pre == IF bank THEN <<IntelExt(4, hsegB)>> ELSE IF rebase16 THEN <<IntelExt(2, hseg16)>> ELSE <<>>
      \* TransLen
      off == (g0.es * sc) % 65536
      split == fmt = "INTEL32" /\ off + (tl0 \div G) * sc >= 65536
      tl == IF split THEN (G \div sc) * (65536 - off)
            ELSE IF fmt = "ATMEL" THEN Min2(2, tl0) ELSE IF fmt = "MICO8" THEN Min2(4, tl0) ELSE tl0
      g == [g0 EXCEPT !.io = io, !.fb = IF split THEN TRUE ELSE IF bank THEN FALSE ELSE g0.fb,
                      !.hseg = IF bank THEN hsegB ELSE IF rebase16 THEN hseg16 ELSE g0.hseg]
      buf == BufOf(c, g, tl)
      raw == SubSeq(c.recs[g.k].data, g.pos + 1, g.pos + tl)
      es == g.es
      line ==
        CASE fmt = "MOTO" ->
               LET ab == (IF g.mt >= 2 THEN <<Byte4(es)>> ELSE <<>>) \o (IF g.mt >= 1 THEN <<Byte3(es)>> ELSE <<>>) \o <<Hi(es), Lo(es)>>
                   cnt == Lo(tl + 3 + g.mt)
                   sum == tl + 3 + g.mt + SumSeq(ab) + SumSeq(buf)
               IN [ln |-> <<SLine(1 + g.mt, <<cnt>> \o ab \o buf \o <<255 - (sum % 256)>>)>>, chk |-> Word16(sum)]
          [] fmt = "MOS" ->
               LET base == IF "MosRunningSum" \in D THEN st0.chk ELSE 0
                   sum == Word16(base + tl + Lo(es) + Hi(es) + SumSeq(buf))
               IN [ln |-> <<MLine(<<Lo(tl), Hi(es), Lo(es)>> \o buf \o <<Hi(sum), Lo(sum)>>)>>, chk |-> sum]
          [] fmt \in {"INTEL", "INTEL16", "INTEL32"} ->
               LET wtl == IF c.o.m < 2 THEN tl ELSE tl \div G
                   wes == Word16((es - g.io) * Scale(c, G))
                   sum == Lo(wtl) + Hi(wes) + Lo(wes) + SumSeq(buf)
               IN [ln |-> <<ILine(<<Lo(wtl), Hi(wes), Lo(wes), 0>> \o buf \o <<(256 - (sum % 256)) % 256>>)>>, chk |-> Word16(sum)]
          [] fmt = "TEK" ->
               LET hdr == <<Hi(es), Lo(es), Lo(tl)>>
                   h == IF "TekByteSums" \in D THEN Lo(Lo(es) + Hi(es) + tl) ELSE NibSum(hdr) % 256
                   d == IF "TekByteSums" \in D THEN SumSeq(buf) % 256 ELSE NibSum(buf) % 256
               IN [ln |-> <<TLine(hdr \o <<h>> \o buf \o <<d>>)>>, chk |-> Word16(SumSeq(buf))]
          [] fmt = "ATMEL" ->
               LET ab == (IF c.o.avrlen = 3 THEN <<Byte3(es)>> ELSE <<>>) \o <<Hi(es), Lo(es)>>
                   w == IF tl >= 2 THEN <<raw[2], raw[1]>> ELSE <<0, raw[1]>>
               IN [ln |-> <<ALine(ab, w)>>, chk |-> st0.chk]
          [] fmt = "DSK" ->
               LET nw == tl \div 2
                   wv(i) == raw[2 * i] * 256 + raw[2 * i - 1]
                   sum == Word16(FoldLeft(LAMBDA a, i : a + wv(i), 0, [i \in 1..nw |-> i]))
               IN [ln |-> <<[k |-> "D", a |-> <<Hi(es), Lo(es)>>,
                             w |-> [i \in 1..nw |-> <<IF g.seg = 2 \/ (es + i - 1 >= CodeWinLo(c, 2, D) /\ es + i - 1 <= CodeWinHi(c, 2, D)) THEN 1 ELSE 0,
                                                   raw[2 * i], raw[2 * i - 1]>>],
                             c |-> <<Hi(sum), Lo(sum)>>]>>, chk |-> sum]
          [] fmt = "MICO8" ->
               [ln |-> IF tl >= 4 THEN <<[k |-> "X", d |-> <<raw[2] % 16, (raw[3] % 255) \div 16, (raw[3] % 255) % 16, raw[4] \div 16, raw[4] % 16>>]>> ELSE <<[k |-> "X", d |-> <<>>]>>,
                chk |-> st0.chk]
          [] OTHER -> [ln |-> <<>>, chk |-> Word16(st0.chk + SumSeq(buf))]      \* C: bytes are collected per block
  IN [g |-> [g EXCEPT !.el = g.el - tl, !.es = g.es + tl \div G, !.pos = g.pos + tl],
      st |-> [st0 EXCEPT !.out = st0.out \o pre \o line.ln, !.chk = line.chk, !.ndata = st0.ndata + 1],
      tl |-> tl]

\* --- group epilogue ---------------------------------------------------------------------------------
Epilogue(c, g, st, D) ==
  CASE g.fmt = "MOTO" /\ c.o.sep ->
         [st EXCEPT !.out = Append(st.out, SLine(9 - g.mt, <<3 + g.mt>> \o [i \in 1..(2 + g.mt) |-> 0] \o <<255 - 3 - g.mt>>))]
    [] g.fmt = "C" ->
         LET r == c.recs[g.k]
             lc == \E i \in 1..Len(c.o.cfmt) : c.o.cfmt[i] = "d"
             uc == \E i \in 1..Len(c.o.cfmt) : c.o.cfmt[i] = "D"
         IN IF lc \/ uc
            THEN [st EXCEPT !.out = Append(st.out, [k |-> "CA", blk |-> st.ncb,
                                                    b |-> SubSeq(r.data, g.pos0 + 1, g.pos0 + g.el0)]),
                             !.ncb = st.ncb + 1]
            ELSE st
    [] OTHER -> st

\* --- one record group, lines unrolled -------------------------------------------------------------------
RECURSIVE Lines(_, _, _, _)
Lines(c, g, st, D) == IF g.el <= 0 THEN st ELSE LET n == LineStep(c, g, st, D) IN Lines(c, n.g, n.st, D)

\* the group state after its last line (the functional composition needs it for GroupEnd)
RECURSIVE LastG(_, _, _, _)
LastG(c, g, st, D) == IF g.el <= 0 THEN g ELSE LET n == LineStep(c, g, st, D) IN LastG(c, n.g, n.st, D)

Group(c, k, st, D) ==
  LET g0 == GroupOfL(c, k, st.loc, D) IN
  IF ~g0.doit THEN st
  ELSE LET p == Prologue(c, g0, st, D) IN GroupEnd(LastG(c, p.g, p.st, D), Epilogue(c, p.g, Lines(c, p.g, p.st, D), D))

\* --- terminators written by main() ---------------------------------------------------------------------
Finish(c, st, D) ==
  LET ep == ExpEntry(c) # -1
      e == IF ep THEN ExpEntry(c) ELSE 0
      moto == IF "MOTO" \in st.occ /\ ~c.o.sep
              THEN LET mm == st.maxMoto
                       ab == (IF mm >= 2 THEN <<Byte4(e)>> ELSE <<>>) \o (IF mm >= 1 THEN <<Byte3(e)>> ELSE <<>>) \o <<Hi(e), Lo(e)>>
                   IN <<SLine(9 - mm, <<3 + mm>> \o ab \o <<255 - ((3 + mm + SumSeq(ab)) % 256)>>)>>
              ELSE <<>>
      istart == IF "INTEL" \in st.occ /\ ep
                THEN CASE st.maxIntel = 2 -> <<ILine(<<4, 0, 0, 5>> \o Long4(e) \o <<(256 - ((9 + SumSeq(Long4(e))) % 256)) % 256>>)>>
                       [] st.maxIntel = 1 ->
                            LET sg == Word16(e \div 16) of == e % 16
                            IN <<ILine(<<4, 0, 0, 3, Hi(sg), Lo(sg), 0, of, (256 - ((7 + Hi(sg) + Lo(sg) + of) % 256)) % 256>>)>>
                       [] OTHER -> <<>>
                ELSE <<>>
      endadr == IF ep /\ st.maxIntel = 0 THEN Word16(e) ELSE 0
      ieof == IF "INTEL" \in st.occ
              THEN CASE c.o.i = 0 -> <<ILine(<<0, Hi(endadr), Lo(endadr), 1, (256 - ((1 + Hi(endadr) + Lo(endadr)) % 256)) % 256>>)>>
                     [] c.o.i = 1 -> <<ILine(IntelEofVariant1)>>
                     [] OTHER -> <<ILine(IntelEofVariant2)>>
              ELSE <<>>
      mos == IF "MOS" \in st.occ
             THEN IF "MosTerm4" \in D THEN <<MLine(<<0, 0, 4, 0, 4>>)>>
                  ELSE LET n == Word16(st.ndata) s == Hi(n) + Lo(n) IN <<MLine(<<0, Hi(n), Lo(n), Hi(s), Lo(s)>>)>>
             ELSE <<>>
      dsk == IF "DSK" \in st.occ
             THEN (IF ep THEN <<[k |-> "DE", a |-> <<Hi(e), Lo(e)>>, c |-> <<Hi(e), Lo(e)>>]>> ELSE <<>>) \o <<[k |-> "DT"]>>
             ELSE <<>>
      cc == IF c.o.fmt = "C" /\ ep THEN <<[k |-> "CD", n |-> "entry", blk |-> 0, v |-> Long4(e), sfx |-> "ul"]>> ELSE <<>>
  IN [st EXCEPT !.out = st.out \o moto \o istart \o ieof \o mos \o dsk \o cc]

RECURSIVE Groups(_, _, _, _)
Groups(c, k, st, D) == IF k > Len(c.recs) THEN st ELSE Groups(c, k + 1, Group(c, k, AtFile(c, k, st), D), D)

\* the whole text p2hex writes for case c (<<>> if it stops with "automatic range setting failed")
Emit(c, D) == IF AutoFails(c, D) THEN <<>> ELSE Finish(c, Groups(c, 1, InitSt, D), D).out

\* which subsets of the named deviations reproduce an observed text exactly (attribution of a failed verdict)
DevsFor(c, fmt) ==
  (CASE fmt = "MOS" -> {"MosRunningSum", "MosTerm4"} [] fmt = "TEK" -> {"TekByteSums"} [] fmt = "INTEL32" -> {"Intel32UnitBank"}
     [] fmt = "MOTO" -> {"MotoTypeUnrelocated"} [] fmt = "INTEL16" -> {"Intel16NoRebase"} [] OTHER -> {})
  \cup (IF c.o.seg \notin {0, 1} /\ (c.o.rstart # -1 \/ c.o.rstop # -1) THEN {"RangeOnlyCode"} ELSE {})
  \cup (IF EffLineLen(c.o) % TheGran(c) # 0 THEN {"LineSplitsUnits"} ELSE {})
  \cup (IF fmt = "MOTO" /\ EffLineLen(c.o) > 250 THEN {"MotoLineOverflow"} ELSE {})
\* pinned code: -m 1 on granularity 4 with a line that ends inside a unit makes DSwap() overrun (SIGSEGV)
PinnedCrash(c) ==
  /\ c.o.m = 1 /\ TheGran(c) = 4 /\ EffLineLen(c.o) % 4 # 0
  /\ \E k \in Picked(c) : GroupOf(c, k, PinnedDevs).doit /\ GroupOf(c, k, PinnedDevs).el0 > EffLineLen(c.o)
Explains(c, lines, devs) == {D \in SUBSET devs : Emit(c, D) = lines}
=============================================================================
