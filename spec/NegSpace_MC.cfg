CONSTANTS
  MCOps = {"IF", "ENDIF", "REPT", "IRPN", "MACRO", "ENDM", "EXITM", "CALLM1", "STRUCT", "ENDSTRUCT", "ALIGN", "FATAL", "DEPHASE"}
  MCClasses = {"m1"}
  MaxLen = 3
SPECIFICATION Spec
INVARIANTS TypeOK Total ExitDocumented ExitZeroBalanced WorkBounded
PROPERTIES StepRule ErrsMonotone ClosersNeverUnderflow StrayIfClosers ArgCountIsErrorStep SkippedInert RecordedInert
CHECK_DEADLOCK FALSE
