------------------------------ MODULE IntMode ------------------------------
(* Which integer notations are accepted: a state machine over the setting statements CPU / RELAXED / INTSYNTAX.  *)
(*                                                                                                               *)
(* The manual describes the accepted set as a FUNCTION of three things (assembler-usage.md "Integer Constants", *)
(* pseudo-instructions.md INTSYNTAX, RELAXED):                                                                   *)
(*   - the target selects a default (native) set               ("After selection of a CPU target, a certain     *)
(*     default set is selected"),                                                                                *)
(*   - INTSYNTAX adds (+ident) / removes (-ident) notations    ("Independent of this default, there is always   *)
(*     the option to add or delete individual syntax variants"),                                                 *)
(*   - RELAXED is a "global enable switch: in relaxed mode, all notations may be used, independent of the        *)
(*     selected target processor".                                                                               *)
(* The code (intformat.c) keeps a LIST that is rebuilt by each of the three statements from two masks and the    *)
(* flag; that the list always equals the function of (native, relaxed, plus, minus) - whatever the ORDER of the  *)
(* statements - is what IntMode_MC checks on the model and what the replayed histories check on the real asl.    *)
(*                                                                                                               *)
(*   Doc*  : declarative side.  State = [fam, relaxed, plus, minus, open]; the accepted set is DocIn(d), the set *)
(*           the manual does not decide DocOpen(d).                                                              *)
(*   Code* : transcription of intformat.c SetIntConstMode / SetIntConstRelaxedMode / ModifyIntConstModeByMask /  *)
(*           SetIntConstModeByMask and asmallg.c CodeRELAXED / CodeINTSYNTAX.  State = [nat, other, relaxed,     *)
(*           list] (NativeIntConstModeMask, OtherIntConstModeMask, RelaxedMode, IntFormatList).                  *)
EXTENDS IntLit

Fams == {"Intel", "Moto", "C", "IBM"}
NativeOf(f) == Family(f) \cup {"dec"}
OtherOf(f) == AllFamilies \ Family(f)
Lead0 == {"0oct", "0hex"}                     \* "it would not be allowed to enable 0oct and 0hex at the same time"

\* statements (uniform record shape)
StCpu(f) == [op |-> "cpu", fam |-> f, on |-> FALSE, minus |-> {}, plus |-> {}]
StRelaxed(b) == [op |-> "relaxed", fam |-> "", on |-> b, minus |-> {}, plus |-> {}]
StIntSyntax(m, p) == [op |-> "intsyntax", fam |-> "", on |-> FALSE, minus |-> m, plus |-> p]

(* ---- declarative side ------------------------------------------------------------------------------------- *)
DocInit(f) == [fam |-> f, relaxed |-> FALSE, plus |-> {}, minus |-> {}, open |-> FALSE]

\* what the source asked for on top of the target's default
DocRequested(d) == (NativeOf(d.fam) \ d.minus) \cup d.plus
DocAll(d) == DocRequested(d) \cup (IF d.relaxed THEN AllFamilies ELSE {})
\* not decided by the manual: a notation that was explicitly removed while the global enable switch is on; the
\* leading-zero notations when both would be enabled (0hex requested + 0oct through RELAXED)
DocOpen(d) == (IF d.relaxed THEN d.minus ELSE {}) \cup (IF Lead0 \subseteq DocAll(d) THEN Lead0 ELSE {})
DocIn(d) == DocAll(d) \ DocOpen(d)

\* verdict on the statement itself: "ok" | "error" (rejected, nothing changes) | "open"
DocVerdict(d, s) ==
  IF s.op # "intsyntax" THEN "ok"
  ELSE LET d2 == [d EXCEPT !.plus = (d.plus \ s.minus) \cup s.plus, !.minus = (d.minus \cup s.minus) \ s.plus] IN
       IF Lead0 \subseteq DocRequested(d2) THEN "error"
       ELSE IF Lead0 \subseteq DocAll(d2) THEN "open"          \* contradiction only through RELAXED
       ELSE "ok"

DocStep(d, s) ==
  CASE s.op = "cpu" -> [d EXCEPT !.fam = s.fam, !.plus = {}, !.minus = {}, !.open = FALSE]
    [] s.op = "relaxed" -> [d EXCEPT !.relaxed = s.on]
    [] OTHER -> LET v == DocVerdict(d, s) IN
                IF v = "error" THEN d
                ELSE [d EXCEPT !.plus = (d.plus \ s.minus) \cup s.plus, !.minus = (d.minus \cup s.minus) \ s.plus,
                               !.open = d.open \/ v = "open"]

\* reading of a literal in a Doc state: definite only if every resolution of the open notations agrees
DocLitIn(cs, radix, d) ==
  IF d.open THEN [k |-> "unspec"]
  ELSE LET r == DocLit(cs, radix, DocIn(d)) IN
       IF \A S \in SUBSET DocOpen(d) : DocLit(cs, radix, DocIn(d) \cup S) = r THEN r ELSE [k |-> "unspec"]

(* ---- transcription of the code ----------------------------------------------------------------------------- *)
\* as.c start of a pass: RelaxedMode := DefRelaxedMode (off), then the first CPU statement of the source
CodeList(nat, other, relaxed) == nat \cup (IF relaxed THEN other ELSE {})      \* argument of SetIntConstModeByMask
CodeInit(f) == [nat |-> NativeOf(f), other |-> OtherOf(f), relaxed |-> FALSE, list |-> NativeOf(f)]

SetIntConstMode(c, f) ==
  [c EXCEPT !.nat = NativeOf(f), !.other = OtherOf(f), !.list = CodeList(NativeOf(f), OtherOf(f), c.relaxed)]
\* CodeRELAXED: SetFlag(&RelaxedMode, ...); SetIntConstRelaxedMode(NewRelaxed)
CodeRELAXED(c, b) == [c EXCEPT !.relaxed = b, !.list = CodeList(c.nat, c.other, b)]
\* CodeINTSYNTAX -> ModifyIntConstModeByMask(ANDMask, ORMask); BadMask = 0oct and 0hex together
ModifyIntConstModeByMask(c, a, o) ==
  LET new == (c.nat \ a) \cup o IN
  IF Lead0 \subseteq new THEN [ok |-> FALSE, c |-> c]
  ELSE [ok |-> TRUE, c |-> [c EXCEPT !.nat = new, !.list = CodeList(new, c.other, c.relaxed)]]

CodeOk(c, s) == s.op # "intsyntax" \/ ModifyIntConstModeByMask(c, s.minus, s.plus).ok
CodeStep(c, s) ==
  CASE s.op = "cpu" -> SetIntConstMode(c, s.fam)
    [] s.op = "relaxed" -> CodeRELAXED(c, s.on)
    [] OTHER -> ModifyIntConstModeByMask(c, s.minus, s.plus).c

(* ---- the clause: list = function of (native, relaxed, plus, minus) ------------------------------------------ *)
Agree(d, c) == d.open \/ (c.relaxed = d.relaxed /\ DocIn(d) \subseteq c.list /\ c.list \subseteq DocIn(d) \cup DocOpen(d))
=============================================================================
