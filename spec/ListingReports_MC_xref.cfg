\* cross reference list: the RefList printed per file = the count of look-ups per (symbol, file, line); 2 passes
CONSTANTS Mode = "xref" MaxSteps = 6 MaxAddr = 1 MaxLen = 1 Gran = 1 RetractMode = "none"
  Keys = {"a", "b"} MainFile = "m" IncFiles = {"i", "j"} MaxLineNo = 2 SectNames = {"X"} MaxDepth = 1
  PageLens = {0} PageWidths = {0} MaxLine = 0 HeaderLen = 1 Fixed = FALSE
SPECIFICATION Spec
INVARIANTS CrossSaysUses UnusedNotListed
CHECK_DEADLOCK FALSE
