------------------------------ MODULE Symbols ------------------------------
(***************************************************************************)
(* Symbol tables, sections and temporary symbols of AS (asmpars.c,          *)
(* asmallg.c, asmlabel.c, as.c).                                            *)
(*                                                                         *)
(* Part 1  names, spellings and case folding                               *)
(* Part 2  the machine: one operator per critical section of the C code,   *)
(*         pure functions on a record s                                    *)
(*           GetSectionHandle/GetSectionName -> FindSect / SectName         *)
(*           IdentifySection, GetSymSection   -> IdentifySection            *)
(*           CodeSECTION / CodeENDSECTION     -> DoSection / DoEndSection   *)
(*           CodePPSyms (FORWARD/PUBLIC/GLOBAL)-> DoPP                      *)
(*           SymbolAdder                      -> Adder                      *)
(*           EnterSymbol / EnterLocSymbol     -> EnterSymbol / EnterLoc     *)
(*           ChkTmp1/2/3, AddTmpSymLog        -> Stored / TmpDefName /      *)
(*                                               TmpRefName / AddTmpSymLog  *)
(*           FindLocNode, FindNode            -> FindLocNode / FindNode     *)
(*           LookupSymbol                     -> DoLookup                   *)
(*           PushSymbol / PopSymbol           -> DoPushV / DoPopV           *)
(*           MACRO_Processor / MACRO_Restorer, -> DoMacBegin / DeliverLine / *)
(*           PushLocHandle / PopLocHandle        DoMacEnd                    *)
(*           AssembleFile_InitPass/ExitPass   -> NextPass / ExitPass        *)
(*         RunAll = the pass loop of AssembleFile                          *)
(* Part 3  the declarative meaning: the rules of the manual                *)
(*         (doc/pseudo-instructions.md "Local Symbols", "SET, EQU",        *)
(*         "PUSHV and POPV", "MACRO"; doc/assembler-usage.md "Temporary    *)
(*         Symbols", "Symbol Conventions") as position arithmetic on the   *)
(*         program text, without tables, stacks or counters.               *)
(*                                                                         *)
(* Section handles are those of the code: -1 = global, 0.. = index into    *)
(* the section list, -2 = "no section given".                              *)
(*                                                                         *)
(* Named deviations of the pinned tree (kept, not idealised).  The first    *)
(* three contradict the property; they are switchable (field devs of the   *)
(* machine state: PINNED = the code as it is, {} = the code with the       *)
(* proposed repairs) so that both machines can be model-checked:           *)
(*   popv_const  (PopVIntoConstant)      PopSymbol() overwrites EQU         *)
(*                           constants / labels                            *)
(*   dd_same_name  (NamedTmpByLastGlobal)  $$name gets hash(LastGlobSymbol) *)
(*                           appended instead of the documented counter    *)
(*   empty_macro_nested  (EmptyMacroPopsOuter)  MACRO_Restorer() pops a    *)
(*                           local-symbol handle although an expansion     *)
(*                           without body lines never pushed one: the      *)
(*                           enclosing expansion loses its handle          *)
(* The others concern texts about which the manual says nothing:           *)
(*   ForwardOverridesQualifier  FindNode(): a pending FORWARD replaces an  *)
(*                           explicit [section] qualifier (pass 1)         *)
(*   GlobalToSelf            GLOBAL x:PARENT0 enters x twice (double def)  *)
(*   LoneMinusIsZero         "-" with no minus symbol before it is the     *)
(*                           expression "minus nothing" = 0, not an error  *)
(*   a PUBLIC/GLOBAL/FORWARD entry is used up by the next definition only  *)
(*   a stack that is not empty at the end of a pass is a warning           *)
(*                                                                         *)
(* Argument lists ("It is possible to treat multiple symbols with one      *)
(* statement", PUBLIC and GLOBAL): a FORWARD/PUBLIC/GLOBAL statement with  *)
(* several arguments  name[:section], name[:section], ...  is written in   *)
(* the program text as consecutive elements [k, nm, q], one per argument;  *)
(* every element but the first carries cont |-> TRUE ("a further argument  *)
(* of the statement the element before me belongs to").  Each argument has *)
(* its OWN destination: the one after its ':' or, without ':', the global  *)
(* level - never the destination of a neighbour in the list.  CodePPSyms() *)
(* is a loop over the arguments that resets the destination per argument   *)
(* (DoPP is one turn of that loop); the manual treats the list as the      *)
(* single-symbol statements one after the other (Part 3: every element is  *)
(* a declaration of its own at its own position).                          *)
(***************************************************************************)
EXTENDS Integers, Sequences, FiniteSets, TLC

CONSTANTS LOCSYMSIGHT             \* asmpars.c #define LOCSYMSIGHT 3

PINNED == {"popv_const", "dd_same_name", "empty_macro_nested"}
PopVIntoConstant(s) == "popv_const" \in s.devs
NamedTmpByLastGlobal(s) == "dd_same_name" \in s.devs
EmptyMacroPopsOuter(s) == "empty_macro_nested" \in s.devs

GLOB == -1
NOSECT == -2
MaxSymPass == 1                   \* asmdef.c

EmptyF == [x \in {} |-> 0]
Max(S) == CHOOSE x \in S : \A y \in S : y <= x
Min(S) == CHOOSE x \in S : \A y \in S : x <= y

(***************************************************************************)
(* Part 1: names.                                                          *)
(* An abstract name is a record                                            *)
(*   [t |-> "n",   p |-> <<w1,..,wk>>, d |-> ""|w]   w1_.._wk[.w]            *)
(*   [t |-> "dot", p |-> <<>>, d |-> w]              .w   (composed)        *)
(*   [t |-> "dd",  p |-> <<w>>, d |-> ""]            $$w  (named temporary) *)
(* where the w are spellings.  Upper-casing (NLS_UpString) is a            *)
(* homomorphism, so it is applied per spelling.                            *)
(***************************************************************************)
UpPairs == { <<"sym", "SYM">>, <<"Sym", "SYM">>, <<"foo", "FOO">>, <<"Foo", "FOO">>,
             <<"aa", "AA">>, <<"Aa", "AA">>, <<"bb", "BB">>, <<"Bb", "BB">>, <<"cc", "CC">>, <<"Cc", "CC">>,
             <<"dd", "DD">>, <<"Dd", "DD">>, <<"st", "ST">>, <<"St", "ST">>, <<"lp", "LP">>, <<"Lp", "LP">>,
             <<"parent", "PARENT">> }
Upper(w) == IF \E pr \in UpPairs : pr[1] = w THEN (CHOOSE pr \in UpPairs : pr[1] = w)[2] ELSE w
Fold(cs, w) == IF cs THEN w ELSE Upper(w)

RECURSIVE Join(_, _)
Join(ws, sep) == IF ws = <<>> THEN "" ELSE IF Len(ws) = 1 THEN ws[1] ELSE ws[1] \o sep \o Join(Tail(ws), sep)
FoldSeq(cs, ws) == [i \in 1..Len(ws) |-> Fold(cs, ws[i])]

N(w) == [t |-> "n", p |-> <<w>>, d |-> ""]
NP(ws) == [t |-> "n", p |-> ws, d |-> ""]
Full(w, d) == [t |-> "n", p |-> <<w>>, d |-> d]
Dot(d) == [t |-> "dot", p |-> <<>>, d |-> d]
DD(w) == [t |-> "dd", p |-> <<w>>, d |-> ""]

\* text of an "n" name as the symbol table stores it
NameText(cs, nm) ==
  LET base == Join(FoldSeq(cs, nm.p), "_")
  IN IF nm.d = "" THEN base ELSE base \o "." \o Fold(cs, nm.d)

\* qualifiers: NoQ | [t |-> "glob"] ("[]") | [t |-> "parent", d |-> 0..9] | [t |-> "name", n |-> spelling]
NoQ == [t |-> "none"]
QGlob == [t |-> "glob"]
QParent(d) == [t |-> "parent", d |-> d]
QName(n) == [t |-> "name", n |-> n]

\* FORWARD / PUBLIC / GLOBAL elements; Cont(st): st is a further argument of the statement of the element before it
PPKinds == {"FORWARD", "PUBLIC", "GLOBAL"}
Cont(st) == st.k \in PPKinds /\ "cont" \in DOMAIN st /\ st.cont

(***************************************************************************)
(* Part 2: the machine.                                                    *)
(***************************************************************************)
InitS(cs, devs) ==
  [cs |-> cs, devs |-> devs, pass |-> 1, repass |-> FALSE, errs |-> 0, warns |-> 0, ekinds |-> {},
   sects |-> <<>>,              \* FirstSection list: [name, parent]
   mom |-> GLOB,                \* MomSectionHandle
   stk |-> <<>>,                \* SectionStack, head first: [h (saved handle), fwd, pub, glb]
   tab |-> EmptyF,              \* FirstSymbol tree: <<name, section>> -> [val, chg, def]
   loc |-> EmptyF,              \* FirstLocSymbol tree: <<name, loc handle>> -> [val, chg, def]
   momLoc |-> -1, locStk |-> <<>>, locCnt |-> 0,   \* MomLocHandle, FirstLocHandle list (saved handles), LocHandleCnt
   mtags |-> <<>>,              \* open macro expansions (input tags), innermost first: has it pushed its handle yet
   fwdCnt |-> 0, backCnt |-> 0, tlog |-> <<>>, lastGlob |-> <<>>, ddCnt |-> 0,
   stacks |-> EmptyF,           \* FirstStack: name -> sequence of values, head = top
   pc |-> 0,
   out |-> <<>>,                \* words emitted in this pass: [v, how]
   obs |-> <<>>]                \* observations of the current statement (for trace validation)

Err(s, kind) == [s EXCEPT !.errs = @ + 1, !.ekinds = @ \cup {kind}]
Emit(s, v, how) == [s EXCEPT !.out = Append(@, [v |-> v, how |-> how]), !.pc = @ + 2]
Obs(s, o) == [s EXCEPT !.obs = Append(@, o)]

\* ---- section list -----------------------------------------------------------------------------
SectName(s, h) == IF h < 0 \/ h >= Len(s.sects) THEN "" ELSE s.sects[h + 1].name

\* GetSectionHandle(name, AddEmpt = False, parent): name already folded
FindSect(s, name, parent) ==
  LET C == {i \in 1..Len(s.sects) : s.sects[i].name = name /\ s.sects[i].parent = parent}
  IN IF C = {} THEN NOSECT ELSE Min(C) - 1

\* IdentifySection: returns [ok, h]
RECURSIVE ParentWalk(_, _, _, _)
ParentWalk(s, erg, k, depth) ==
  IF depth = 0 \/ erg = NOSECT THEN erg
  ELSE IF k > Len(s.stk) THEN NOSECT
  ELSE ParentWalk(s, s.stk[k].h, k + 1, depth - 1)

IdentifySection(s, q) ==
  CASE q.t = "glob" -> [ok |-> TRUE, h |-> GLOB]
    [] q.t = "parent" -> LET e == ParentWalk(s, s.mom, 1, q.d)
                         IN [ok |-> e # NOSECT, h |-> e]
    [] q.t = "name" ->
         LET nn == Fold(s.cs, q.n) IN
         IF nn = SectName(s, s.mom) THEN [ok |-> TRUE, h |-> s.mom]
         ELSE LET C == {k \in 1..Len(s.stk) : SectName(s, s.stk[k].h) = nn}
              IN IF C = {} THEN [ok |-> FALSE, h |-> NOSECT] ELSE [ok |-> TRUE, h |-> s.stk[Min(C)].h]
    [] OTHER -> [ok |-> TRUE, h |-> NOSECT]          \* NoQ: GetSymSection says "none given"

\* ---- CodeSECTION / CodeENDSECTION --------------------------------------------------------------
DoSection(s, n) ==
  LET nn == Fold(s.cs, n)
      h  == FindSect(s, nn, s.mom)
  IN IF s.pass = 1 /\ h # NOSECT THEN Err(s, "DoubleSection")
     ELSE LET s1 == IF h = NOSECT THEN [s EXCEPT !.sects = Append(@, [name |-> nn, parent |-> s.mom])] ELSE s
              hh == IF h = NOSECT THEN Len(s.sects) ELSE h
          IN [s1 EXCEPT !.stk = <<[h |-> s.mom, fwd |-> {}, pub |-> {}, glb |-> {}]>> \o @, !.mom = hh]

DoEndSection(s, n) ==
  IF s.stk = <<>> THEN Err(s, "NotInSection")
  ELSE IF n # "" /\ FindSect(s, Fold(s.cs, n), s.stk[1].h) # s.mom THEN Err(s, "WrongEndSect")
  ELSE LET top == s.stk[1]
           open == Cardinality(top.fwd) + Cardinality(top.pub) + Cardinality(top.glb)
       IN [s EXCEPT !.stk = Tail(@), !.mom = top.h, !.errs = @ + open,
                    !.ekinds = IF open > 0 THEN @ \cup {"UndefdForward"} ELSE @]

\* ---- CodePPSyms: FORWARD / PUBLIC / GLOBAL ---------------------------------------------------------
Has(list, name) == \E e \in list : e.n = name
Put(list, name, d) == {e \in list : e.n # name} \cup {[n |-> name, d |-> d]}
Drop(list, name) == {e \in list : e.n # name}
DestOf(list, name) == (CHOOSE e \in list : e.n = name).d

\* one turn of the forallargs loop: kind = the statement, (nm, q) = the argument "nm" or "nm:q".  The destination is
\* decided per argument: `*Section = '\0'` in the branch without ':' (q = NoQ -> global), else IdentifySection(q).
\* A name that is already on the list of this kind (SearchSym(*Orig) finds it) gets its destination overwritten.
DoPP(s, kind, nm, q) ==
  IF s.stk = <<>> THEN Err(s, "UnknownInstruction")            \* only decoded inside a section
  ELSE IF kind = "FORWARD" /\ s.pass > MaxSymPass THEN s
  ELSE LET top  == s.stk[1]
           name == NameText(s.cs, nm)
           conflict == CASE kind = "FORWARD" -> Has(top.pub, name) \/ Has(top.glb, name)
                         [] kind = "PUBLIC"  -> Has(top.fwd, name) \/ Has(top.glb, name)
                         [] OTHER            -> Has(top.fwd, name) \/ Has(top.pub, name)
           r  == IF q.t = "none" THEN [ok |-> TRUE, h |-> GLOB] ELSE IdentifySection(s, q)
           nt == CASE kind = "FORWARD" -> [top EXCEPT !.fwd = Put(@, name, r.h)]
                   [] kind = "PUBLIC"  -> [top EXCEPT !.pub = Put(@, name, r.h)]
                   [] OTHER            -> [top EXCEPT !.glb = Put(@, name, r.h)]
           s1 == [s EXCEPT !.stk = <<nt>> \o Tail(@)]
       IN IF conflict THEN Err(s, "ContForward")
          ELSE IF r.ok THEN s1 ELSE Err(s1, "InvSection")

\* ---- SymbolAdder ----------------------------------------------------------------------------------
\* tree = "tab" | "loc"; returns the new state; records the observation the sym_def hook shows
Adder(s, tree, key, val, mayChange) ==
  LET t == IF tree = "tab" THEN s.tab ELSE s.loc
      put(v) == IF tree = "tab" THEN [s EXCEPT !.tab = v] ELSE [s EXCEPT !.loc = v]
      ne == [val |-> val, chg |-> mayChange, def |-> TRUE]
      o(outc) == [e |-> "def", tree |-> tree, name |-> key[1], sect |-> key[2], val |-> val, chg |-> mayChange,
                  out |-> outc]
  IN IF key \notin DOMAIN t THEN Obs(put(t @@ (key :> ne)), o("new"))
     ELSE LET e == t[key] IN
          IF e.def /\ ~e.chg /\ ~mayChange THEN Obs(Err(s, "DoubleDef"), [o("double") EXCEPT !.chg = FALSE])
          ELSE IF e.def /\ mayChange # e.chg THEN Obs(Err(s, "Mix"), o("mix"))
          ELSE LET s1 == put([t EXCEPT ![key] = ne])
                   same == e.val = val
                   s2 == IF ~mayChange /\ ~same THEN [s1 EXCEPT !.repass = TRUE] ELSE s1   \* phase error
               IN Obs(s2, o(IF e.def THEN (IF same THEN "redef_same" ELSE "redef_changed")
                                     ELSE (IF same THEN "same" ELSE "changed")))

\* ---- EnterSymbol / EnterLocSymbol -------------------------------------------------------------------
RECURSIVE CombName(_, _, _, _, _)
CombName(s, name, msect, k, dest) ==
  IF msect # dest /\ k <= Len(s.stk)
  THEN CombName(s, SectName(s, msect) \o "_" \o name, s.stk[k].h, k + 1, dest)
  ELSE name

\* name: text before folding is impossible to carry, so `name` is already folded (EnterSymbol folds first)
EnterSymbol(s, name, val, mayChange, res) ==
  LET attr0 == IF res = NOSECT THEN s.mom ELSE res
  IN IF s.stk # <<>> /\ attr0 = s.mom
     THEN LET top == s.stk[1]
              erg == IF Has(top.fwd, name) THEN 1 ELSE IF Has(top.pub, name) THEN 2
                     ELSE IF Has(top.glb, name) THEN 3 ELSE 0
              attr == IF erg = 2 THEN DestOf(top.pub, name) ELSE attr0
              nt == [top EXCEPT !.fwd = Drop(@, name), !.pub = Drop(@, name), !.glb = Drop(@, name)]
              s1 == IF erg = 3
                    THEN LET d == DestOf(top.glb, name)
                         IN Adder(s, "tab", <<CombName(s, name, s.mom, 1, d), d>>, val, mayChange)
                    ELSE s
              s2 == [s1 EXCEPT !.stk = <<nt>> \o Tail(@)]
          IN Adder(s2, "tab", <<name, attr>>, val, mayChange)
     ELSE Adder(s, "tab", <<name, attr0>>, val, mayChange)

EnterLoc(s, name, val) == Adder(s, "loc", <<name, s.momLoc>>, val, FALSE)

\* ---- temporary symbols (ChkTmp1/2/3) ----------------------------------------------------------------
DDSuffix(s) == IF NamedTmpByLastGlobal(s) THEN "#" \o Join(s.lastGlob, "_") ELSE "#" \o ToString(s.ddCnt)

\* the name FindNode/EnterSymbol finally use (after ChkTmp and folding); for "dd" the hash stands for the suffix
Stored(s, nm) ==
  CASE nm.t = "dot" -> Join(FoldSeq(s.cs, s.lastGlob), "_") \o "." \o Fold(s.cs, nm.d)
    [] nm.t = "dd"  -> Fold(s.cs, nm.p[1]) \o DDSuffix(s)
    [] OTHER        -> NameText(s.cs, nm)

\* ChkTmp3 on a definition: a name that is none of the temporary kinds becomes LastGlobSymbol
NoteGlob(s, nm) == IF nm.t = "n" THEN [s EXCEPT !.lastGlob = nm.p, !.ddCnt = @ + 1] ELSE s

TmpName(s, back, c) ==
  (IF s.cs THEN (IF back THEN "__back" ELSE "__forw") ELSE (IF back THEN "__BACK" ELSE "__FORW")) \o ToString(c)

AddTmpSymLog(s, back, c) ==
  LET l == <<[back |-> back, c |-> c]>> \o s.tlog
  IN [s EXCEPT !.tlog = IF Len(l) > LOCSYMSIGHT THEN SubSeq(l, 1, LOCSYMSIGHT) ELSE l]

\* ChkTmp2 with a symbol source: t in {"-", "+", "/"}: [name, s']
TmpDefName(s, t) ==
  CASE t = "-" -> [name |-> TmpName(s, TRUE, s.backCnt),
                   s |-> [AddTmpSymLog(s, TRUE, s.backCnt) EXCEPT !.backCnt = @ + 1]]
    [] t = "+" -> [name |-> TmpName(s, FALSE, s.fwdCnt), s |-> [s EXCEPT !.fwdCnt = @ + 1]]
    [] OTHER   -> [name |-> TmpName(s, FALSE, s.fwdCnt),
                   s |-> [AddTmpSymLog(s, FALSE, s.fwdCnt) EXCEPT !.fwdCnt = @ + 1]]

\* ChkTmp2 without source (reference): t in {"-", "+"}, c = number of signs: [ok, name]
TmpRefName(s, t, c) ==
  IF t = "-" THEN IF c <= Len(s.tlog) THEN [ok |-> TRUE, name |-> TmpName(s, s.tlog[c].back, s.tlog[c].c)]
                  ELSE [ok |-> FALSE, name |-> ""]
  ELSE IF c <= LOCSYMSIGHT THEN [ok |-> TRUE, name |-> TmpName(s, FALSE, s.fwdCnt + (c - 1))]
       ELSE [ok |-> FALSE, name |-> ""]

\* ---- FindLocNode / FindNode ----------------------------------------------------------------------------
NoKey == <<"", -9>>

FindLocNode(s, name) ==
  IF s.momLoc = -1 THEN NoKey
  ELSE IF <<name, s.momLoc>> \in DOMAIN s.loc THEN <<name, s.momLoc>>
  ELSE LET \* walk FirstLocHandle while Cont # -1
           stop == IF \E k \in 1..Len(s.locStk) : s.locStk[k] = -1
                   THEN Min({k \in 1..Len(s.locStk) : s.locStk[k] = -1}) - 1 ELSE Len(s.locStk)
           C == {k \in 1..stop : <<name, s.locStk[k]>> \in DOMAIN s.loc}
       IN IF C = {} THEN NoKey ELSE <<name, s.locStk[Min(C)]>>

\* returns [key, err]; err = an invalid [section] was reported
FindNode(s, name, q) ==
  LET r == IdentifySection(s, q)
      fwd == s.stk # <<>> /\ s.pass <= MaxSymPass /\ Has(s.stk[1].fwd, name)
      dest == IF fwd THEN s.mom ELSE r.h                 \* ForwardOverridesQualifier
      path == <<s.mom>> \o [k \in 1..Len(s.stk) |-> s.stk[k].h]
  IN IF ~r.ok THEN [key |-> NoKey, err |-> TRUE]
     ELSE IF dest = NOSECT
          THEN LET C == {k \in 1..Len(path) : <<name, path[k]>> \in DOMAIN s.tab}
               IN [key |-> IF C = {} THEN NoKey ELSE <<name, path[Min(C)]>>, err |-> FALSE]
          ELSE [key |-> IF <<name, dest>> \in DOMAIN s.tab THEN <<name, dest>> ELSE NoKey, err |-> FALSE]

\* LookupSymbol for a data word: FindLocNode, then FindNode; emits the word
DoLookup(s, name, q) ==
  LET lk == IF q.t = "none" THEN FindLocNode(s, name) ELSE NoKey     \* "name[..]" never matches a local entry
      fn == FindNode(s, name, q)
      s0 == IF lk = NoKey /\ fn.err THEN Err(s, "InvSection") ELSE s
      key == IF lk # NoKey THEN lk ELSE fn.key
      e  == IF lk # NoKey THEN s.loc[lk] ELSE IF key # NoKey THEN s.tab[key] ELSE [val |-> 0, chg |-> FALSE, def |-> FALSE]
  IN IF key # NoKey
     THEN Obs(Emit(s0, e.val, IF e.def THEN "def" ELSE "fwd"),
              [e |-> "ref", name |-> key[1], sect |-> key[2], val |-> e.val, loc |-> lk # NoKey,
               out |-> IF e.def THEN "defined" ELSE "forward"])
     ELSE IF s.pass <= MaxSymPass
          THEN Obs(Emit([s0 EXCEPT !.repass = TRUE], s.pc, "unk"),
                   [e |-> "ref", name |-> name, sect |-> -3, val |-> s.pc, loc |-> FALSE, out |-> "unknown"])
          ELSE Err(s0, "SymbolUndef")

\* ---- statements ---------------------------------------------------------------------------------------
\* definition through EQU / SET / a label; q = qualifier on the defined name (normally NoQ)
DoDef(s, nm, kind, v) ==
  LET name == Stored(s, nm)
      s1   == NoteGlob(s, nm)
      val  == IF kind = "label" THEN s.pc ELSE v
      s2   == IF kind = "label" /\ s.momLoc # -1
              THEN EnterLoc(s1, name, val)                    \* labels inside a macro body are macro-local
              ELSE EnterSymbol(s1, name, val, kind = "set", NOSECT)   \* SET/EQU: PushLocHandle(-1)
  IN IF kind = "label" THEN Emit(s2, 43690, "fill") ELSE s2

DoTmpDef(s, t) ==
  LET r  == TmpDefName(s, t)
      s2 == IF s.momLoc # -1 THEN EnterLoc(r.s, r.name, s.pc) ELSE EnterSymbol(r.s, r.name, s.pc, FALSE, NOSECT)
  IN Emit(s2, 43690, "fill")

\* LoneMinusIsZero: a single "-" that ChkTmp2 does not replace (empty log) reaches the expression parser, where a
\* minus sign without operand evaluates to 0; "--", "++++" etc. are syntax errors there.
DoTmpRef(s, t, c) ==
  LET r == TmpRefName(s, t, c)
  IN IF r.ok THEN DoLookup(s, r.name, NoQ)
     ELSE IF t = "-" /\ c = 1 THEN Emit(s, 0, "def")
     ELSE Err(s, "BadTmpRef")

StackName(s, st) == IF st = "" THEN "DEFSTACK" ELSE Fold(s.cs, st)

DoPushV(s, st, nm, q) ==
  LET fn == FindNode(s, Stored(s, nm), q)
      sn == StackName(s, st)
  IN IF fn.key = NoKey THEN Err(s, IF fn.err THEN "InvSection" ELSE "SymbolUndef")
     ELSE LET old == IF sn \in DOMAIN s.stacks THEN s.stacks[sn] ELSE <<>>
              new == <<s.tab[fn.key].val>> \o old
          IN [s EXCEPT !.stacks = IF sn \in DOMAIN @ THEN [@ EXCEPT ![sn] = new] ELSE @ @@ (sn :> new)]

DoPopV(s, st, nm, q) ==
  LET fn == FindNode(s, Stored(s, nm), q)
      sn == StackName(s, st)
  IN IF fn.key = NoKey THEN Err(s, IF fn.err THEN "InvSection" ELSE "SymbolUndef")
     ELSE IF sn \notin DOMAIN s.stacks THEN Err(s, "StackEmpty")
     ELSE LET stck == s.stacks[sn]
              rest == Tail(stck)
              nst  == IF rest = <<>> THEN [x \in (DOMAIN s.stacks) \ {sn} |-> s.stacks[x]]
                      ELSE [s.stacks EXCEPT ![sn] = rest]
              e    == s.tab[fn.key]
              keep == ~PopVIntoConstant(s) /\ ~e.chg          \* repaired behaviour: constants are not overwritten
          IN IF keep /\ e.val # stck[1] THEN Err([s EXCEPT !.stacks = nst], "PopVConstant")
             ELSE [s EXCEPT !.stacks = nst, !.tab = [@ EXCEPT ![fn.key].val = stck[1]]]

\* A macro call creates an input tag.  MACRO_Processor pushes a fresh local-symbol handle "before the first line",
\* i.e. when the first body line is delivered; MACRO_Restorer pops when the tag is removed.
DoMacBegin(s) == [s EXCEPT !.mtags = <<FALSE>> \o @]
PushLocHandle(s) == [s EXCEPT !.locStk = <<s.momLoc>> \o @, !.momLoc = s.locCnt, !.locCnt = @ + 1]
PopLocHandle(s) == IF s.locStk = <<>> THEN s ELSE [s EXCEPT !.momLoc = s.locStk[1], !.locStk = Tail(@)]
\* a body line of the innermost open expansion is delivered
DeliverLine(s) == IF s.mtags # <<>> /\ ~s.mtags[1] THEN [PushLocHandle(s) EXCEPT !.mtags = <<TRUE>> \o Tail(@)] ELSE s
DoMacEnd(s) ==
  IF s.mtags = <<>> THEN s
  ELSE LET s1 == [s EXCEPT !.mtags = Tail(@)]
       IN IF s.mtags[1] \/ EmptyMacroPopsOuter(s) THEN PopLocHandle(s1) ELSE s1

Step(s0, st) ==
  LET s == IF st.k = "MACEND" THEN [s0 EXCEPT !.obs = <<>>] ELSE DeliverLine([s0 EXCEPT !.obs = <<>>]) IN
  CASE st.k = "SECTION"    -> DoSection(s, st.n)
    [] st.k = "ENDSECTION" -> DoEndSection(s, st.n)
    [] st.k \in {"FORWARD", "PUBLIC", "GLOBAL"} -> DoPP(s, st.k, st.nm, st.q)
    [] st.k = "DEF"        -> DoDef(s, st.nm, st.kind, st.v)
    [] st.k = "REF"        -> DoLookup(s, Stored(s, st.nm), st.q)
    [] st.k = "TDEF"       -> DoTmpDef(s, st.t)
    [] st.k = "TREF"       -> DoTmpRef(s, st.t, st.c)
    [] st.k = "PUSHV"      -> DoPushV(s, st.st, st.nm, st.q)
    [] st.k = "POPV"       -> DoPopV(s, st.st, st.nm, st.q)
    [] st.k = "MACBEGIN"   -> DoMacBegin(s)
    [] st.k = "MACEND"     -> DoMacEnd(s)
    [] OTHER               -> s

\* AssembleFile_ExitPass: open sections are an error; stacks that are not empty only a warning (ClearStacks)
ExitPass(s) ==
  LET s1 == [s EXCEPT !.stacks = EmptyF, !.warns = @ + Cardinality(DOMAIN s.stacks)]
  IN IF s1.stk # <<>> THEN Err(s1, "MissingEndSect") ELSE s1

\* AssembleFile_InitPass for the next pass: the trees and the section list survive, everything else restarts
NextPass(s) ==
  [s EXCEPT !.pass = @ + 1, !.repass = FALSE, !.mom = GLOB, !.stk = <<>>, !.momLoc = -1, !.locStk = <<>>, !.mtags = <<>>,
            !.locCnt = 0, !.fwdCnt = 0, !.backCnt = 0, !.tlog = <<>>, !.lastGlob = <<>>, !.ddCnt = 0,
            !.stacks = EmptyF, !.pc = 0, !.out = <<>>, !.obs = <<>>,
            !.tab = [k \in DOMAIN @ |-> [@[k] EXCEPT !.def = FALSE]],
            !.loc = [k \in DOMAIN @ |-> [@[k] EXCEPT !.def = FALSE]]]

RECURSIVE RunPass(_, _, _)
RunPass(s, p, i) == IF i > Len(p) THEN ExitPass(s) ELSE RunPass(Step(s, p[i]), p, i + 1)

\* the pass loop: while (ErrorCount == 0 && Repass).  MaxPasses bounds the unrolling (3 is never reached:
\* see invariant ConvergesInTwo of Symbols_MC).
RECURSIVE PassLoop(_, _, _)
PassLoop(s, p, left) ==
  LET e == RunPass(s, p, 1)
  IN IF e.errs > 0 \/ ~e.repass \/ left = 0 THEN e ELSE PassLoop(NextPass(e), p, left - 1)

RunAll(cs, devs, p) == PassLoop(InitS(cs, devs), p, 2)
\* the same with n forced further passes (ASL_VERIF_EXTRA_PASSES): what a later pass would resolve
RunExtra(cs, devs, p) == LET e == RunAll(cs, devs, p) IN IF e.errs > 0 THEN e ELSE RunPass(NextPass(e), p, 1)

(***************************************************************************)
(* Part 3: the declarative meaning (the manual), by position arithmetic    *)
(* on the program text p (a sequence of statements).  Sections are         *)
(* identified by the position of their SECTION statement, 0 = global.      *)
(***************************************************************************)
EqName(cs, a, b) == IF cs THEN a = b ELSE Upper(a) = Upper(b)

\* generic bracket arithmetic: level before position i w.r.t. opener kind ok / closer kind ck
RECURSIVE LevFold(_, _, _, _, _, _)
LevFold(p, ok, ck, i, l, acc) ==
  IF i > Len(p) THEN Append(acc, l)
  ELSE LevFold(p, ok, ck, i + 1,
               IF p[i].k = ok THEN l + 1 ELSE IF p[i].k = ck /\ l > 0 THEN l - 1 ELSE l, Append(acc, l))
Levels(p, ok, ck) == LevFold(p, ok, ck, 1, 0, <<>>)        \* Levels[i] = level before statement i, i in 1..Len+1

\* matching closer of opener o (Len(p)+1 if it stays open)
CloserOf(p, lev, ck, o) ==
  LET C == {c \in (o + 1)..Len(p) : p[c].k = ck /\ lev[c] = lev[o] + 1}
  IN IF C = {} THEN Len(p) + 1 ELSE Min(C)

RECURSIVE SortDesc(_)
SortDesc(S) == IF S = {} THEN <<>> ELSE LET m == Max(S) IN <<m>> \o SortDesc(S \ {m})

\* analysis of a program text: everything below is a function of (cs, p) only
Analyse(cs, p) ==
  LET n == Len(p)
      slev == Levels(p, "SECTION", "ENDSECTION")
      mlev == Levels(p, "MACBEGIN", "MACEND")
      sclose == [o \in 1..n |-> IF p[o].k = "SECTION" THEN CloserOf(p, slev, "ENDSECTION", o) ELSE 0]
      mclose == [o \in 1..n |-> IF p[o].k = "MACBEGIN" THEN CloserOf(p, mlev, "MACEND", o) ELSE 0]
      \* sections / macro expansions enclosing position i, innermost first; sections end with 0 = global
      path == [i \in 1..(n + 1) |->
                 SortDesc({o \in 1..(i - 1) : p[o].k = "SECTION" /\ i <= sclose[o]}) \o <<0>>]
      mpath == [i \in 1..(n + 1) |-> SortDesc({o \in 1..(i - 1) : p[o].k = "MACBEGIN" /\ i <= mclose[o]})]
      \* most recent definition of a non-temporary symbol before i (0 = none)
      lastPlain == [i \in 1..(n + 1) |->
                      LET C == {m \in 1..(i - 1) : p[m].k = "DEF" /\ p[m].nm.t = "n"}
                      IN IF C = {} THEN 0 ELSE Max(C)]
      \* program counter before statement i: two bytes per data word / filler word
      pcs == [i \in 1..(n + 1) |->
                2 * Cardinality({m \in 1..(i - 1) : p[m].k \in {"REF", "TREF", "TDEF"}
                                                     \/ (p[m].k = "DEF" /\ p[m].kind = "label")})]
  IN [cs |-> cs, p |-> p, n |-> n, slev |-> slev, mlev |-> mlev, sclose |-> sclose, path |-> path,
      mpath |-> mpath, lastPlain |-> lastPlain, pcs |-> pcs]

SecNameAt(A, o) == IF o = 0 THEN "" ELSE A.p[o].n

\* ---- structural well-formedness (everything else presupposes it) ---------------------------------------------
StructOK(A) ==
  LET p == A.p IN
  /\ A.slev[A.n + 1] = 0 /\ A.mlev[A.n + 1] = 0
  /\ \A i \in 1..A.n :
       /\ p[i].k = "ENDSECTION" =>
            /\ A.slev[i] > 0
            /\ p[i].n = "" \/ EqName(A.cs, p[i].n, SecNameAt(A, A.path[i][1]))
       /\ p[i].k = "MACEND" => A.mlev[i] > 0
       /\ p[i].k = "SECTION" =>      \* "not more than one section on the same level with the same name"
            ~\E j \in 1..(i - 1) : p[j].k = "SECTION" /\ A.path[j][1] = A.path[i][1] /\ EqName(A.cs, p[j].n, p[i].n)
       /\ p[i].k \in {"FORWARD", "PUBLIC", "GLOBAL"} => A.slev[i] > 0
       /\ Cont(p[i]) => i > 1 /\ p[i - 1].k = p[i].k      \* a further argument needs a statement of its kind before it

\* ---- which section does a qualifier / a PUBLIC target denote (seen from position i); -1 = invalid --------------
Target(A, i, q) ==
  LET path == A.path[i] IN
  CASE q.t = "glob" -> 0
    [] q.t = "none" -> 0
    [] q.t = "parent" -> IF q.d + 1 <= Len(path) THEN path[q.d + 1] ELSE -1
    [] OTHER -> LET C == {k \in 1..Len(path) : path[k] # 0 /\ EqName(A.cs, SecNameAt(A, path[k]), q.n)}
                IN IF C = {} THEN -1 ELSE path[Min(C)]            \* "the lowest level will be taken"

\* ---- names of definitions -------------------------------------------------------------------------------------
\* a name as a pair <<class, text>>; texts are compared with EqName.
\*   plain and composed names live in one class; $$ names carry their region; nameless ones their definition.
RawText(nm) == IF nm.d = "" THEN Join(nm.p, "_") ELSE Join(nm.p, "_") \o "." \o nm.d
\* <<class, region, words, dot-suffix>>: words joined by "_" and the suffix are compared spelling by spelling
DeclName(A, i, nm) ==
  CASE nm.t = "dot" -> <<"n", 0, (IF A.lastPlain[i] = 0 THEN <<>> ELSE A.p[A.lastPlain[i]].nm.p), nm.d>>
    [] nm.t = "dd"  -> <<"dd", A.lastPlain[i], nm.p, "">>     \* one name space per non-temporary definition
    [] OTHER        -> <<"n", 0, nm.p, nm.d>>
SameName(A, a, b) ==
  /\ a[1] = b[1] /\ a[2] = b[2] /\ Len(a[3]) = Len(b[3])
  /\ \A k \in 1..Len(a[3]) : EqName(A.cs, a[3][k], b[3][k])
  /\ EqName(A.cs, a[4], b[4])

IsMacLocalDef(A, j) == A.p[j].k = "DEF" /\ A.p[j].kind = "label" /\ A.mpath[j] # <<>>
IsSectDef(A, j) == A.p[j].k = "DEF" /\ ~IsMacLocalDef(A, j)

\* the FORWARD/PUBLIC/GLOBAL statement that governs a definition/reference of name nmd at position j (0: none):
\* the latest one directly in the same section instance that no definition has used up yet
Pending(A, j, nmd) ==
  LET p == A.p
      C == {d \in 1..(j - 1) :
              /\ p[d].k \in {"FORWARD", "PUBLIC", "GLOBAL"} /\ A.path[d] = A.path[j] /\ A.slev[d] > 0
              /\ SameName(A, DeclName(A, d, p[d].nm), nmd)
              /\ ~\E m \in (d + 1)..(j - 1) : IsSectDef(A, m) /\ A.path[m] = A.path[j]
                                             /\ SameName(A, DeclName(A, m, p[m].nm), nmd)}
  IN IF C = {} THEN 0 ELSE Max(C)

\* ---- symbols a definition creates: set of [name, home, pos, const, copy] -----------------------------------------
\* home = <<"S", section>> or <<"L", macro expansion>>
CombDecl(A, j, target) ==      \* "the complete name path is prepended": the words of the composed name
  LET path == A.path[j]
      k == Min({x \in 1..Len(path) : path[x] = target})
  IN [x \in 1..(k - 1) |-> SecNameAt(A, path[k - x])] \o A.p[j].nm.p

EntriesOf(A, j) ==
  LET p == A.p
      nmd == DeclName(A, j, p[j].nm)
      const == p[j].kind # "set"
  IN IF IsMacLocalDef(A, j)
     THEN {[name |-> nmd, home |-> <<"L", A.mpath[j][1]>>, pos |-> j, const |-> TRUE, copy |-> FALSE]}
     ELSE LET d == Pending(A, j, nmd)
              cur == A.path[j][1]
          IN IF d # 0 /\ p[d].k = "PUBLIC"
             THEN {[name |-> nmd, home |-> <<"S", Target(A, d, p[d].q)>>, pos |-> j, const |-> const, copy |-> FALSE]}
             ELSE IF d # 0 /\ p[d].k = "GLOBAL" /\ Target(A, d, p[d].q) >= 0
             THEN {[name |-> nmd, home |-> <<"S", cur>>, pos |-> j, const |-> const, copy |-> FALSE],
                   [name |-> <<"n", 0, CombDecl(A, j, Target(A, d, p[d].q)), "">>,
                    home |-> <<"S", Target(A, d, p[d].q)>>, pos |-> j, const |-> const, copy |-> TRUE]}
             ELSE {[name |-> nmd, home |-> <<"S", cur>>, pos |-> j, const |-> const, copy |-> FALSE]}

TmpEntry(A, j) == [name |-> <<"t", j, <<>>, "">>, home |-> <<(IF A.mpath[j] # <<>> THEN "L" ELSE "S"),
                                                          (IF A.mpath[j] # <<>> THEN A.mpath[j][1] ELSE A.path[j][1])>>,
                   pos |-> j, const |-> TRUE, copy |-> FALSE]

Entries(A) == UNION {IF A.p[j].k = "DEF" THEN EntriesOf(A, j) ELSE IF A.p[j].k = "TDEF" THEN {TmpEntry(A, j)} ELSE {}
                     : j \in 1..A.n}

SameSym(A, e, f) == SameName(A, e.name, f.name) /\ e.home = f.home

\* ---- the name a reference asks for -----------------------------------------------------------------------------
\* nameless: "-"*c = the c-th last definition with "-" or "/" before i; "+"*c = the c-th next with "+" or "/"
TmpTargetPos(A, i) ==
  LET p == A.p st == p[i]
      B == {m \in 1..(i - 1) : p[m].k = "TDEF" /\ p[m].t \in {"-", "/"}}
      F == {m \in (i + 1)..A.n : p[m].k = "TDEF" /\ p[m].t \in {"+", "/"}}
  IN IF st.c > LOCSYMSIGHT THEN 0
     ELSE IF st.t = "-" THEN (IF Cardinality(B) < st.c THEN 0 ELSE SortDesc(B)[st.c])
     ELSE (IF Cardinality(F) < st.c THEN 0 ELSE SortDesc(F)[Cardinality(F) - st.c + 1])

RefName(A, i) ==
  IF A.p[i].k = "TREF" THEN <<"t", TmpTargetPos(A, i), <<>>, "">> ELSE DeclName(A, i, A.p[i].nm)
RefQual(A, i) == IF A.p[i].k = "TREF" THEN NoQ ELSE A.p[i].q

\* places to look at, in order; <<>> if the qualifier is invalid
Candidates(A, i, nmd, q, withLocals) ==
  LET locs == IF withLocals /\ q.t = "none" THEN [k \in 1..Len(A.mpath[i]) |-> <<"L", A.mpath[i][k]>>] ELSE <<>>
      d == Pending(A, i, nmd)
      sects == IF q.t = "none"
               THEN IF d # 0 /\ A.p[d].k = "FORWARD" THEN <<A.path[i][1]>> ELSE A.path[i]
               ELSE IF Target(A, i, q) < 0 THEN <<>> ELSE <<Target(A, i, q)>>
  IN locs \o [k \in 1..Len(sects) |-> <<"S", sects[k]>>]

\* the symbol (one of its entries) a name denotes at i when only definitions at positions <= upto count
NoEntry == [pos |-> 0]
ResolveUpto(A, E, i, nmd, q, withLocals, upto) ==
  LET cand == Candidates(A, i, nmd, q, withLocals)
      C == {k \in 1..Len(cand) : \E e \in E : e.pos <= upto /\ e.home = cand[k] /\ SameName(A, e.name, nmd)}
  IN IF C = {} THEN NoEntry
     ELSE CHOOSE e \in E : e.pos <= upto /\ e.home = cand[Min(C)] /\ SameName(A, e.name, nmd)
                           /\ \A f \in E : (f.pos <= upto /\ SameSym(A, e, f)) => f.pos <= e.pos

\* ---- stacks: which PUSHV does a POPV take its value from (LIFO = bracket matching per stack) ------------------------
StackEq(A, a, b) == EqName(A.cs, a, b)
RECURSIVE MatchPush(_, _, _, _)
MatchPush(A, st, j, depth) ==
  IF j = 0 THEN 0
  ELSE IF A.p[j].k = "PUSHV" /\ StackEq(A, A.p[j].st, st)
       THEN IF depth = 0 THEN j ELSE MatchPush(A, st, j - 1, depth - 1)
  ELSE IF A.p[j].k = "POPV" /\ StackEq(A, A.p[j].st, st) THEN MatchPush(A, st, j - 1, depth + 1)
  ELSE MatchPush(A, st, j - 1, depth)

\* ---- values --------------------------------------------------------------------------------------------------------
DefValue(A, j) == IF A.p[j].k = "TDEF" \/ A.p[j].kind = "label" THEN A.pcs[j] ELSE A.p[j].v

\* value of symbol `sym` (an entry) just before statement i: constants have their value; a variable has the value
\* of the latest SET / POPV before i (-1: none yet).  A POPV into a constant leaves it alone ("can never change").
RECURSIVE ValueAt(_, _, _, _)
ValueAt(A, E, sym, i) ==
  IF sym.const THEN DefValue(A, sym.pos)
  ELSE IF i <= 1 THEN -1
  ELSE LET m == i - 1 st == A.p[m] IN
       IF \E e \in E : e.pos = m /\ SameSym(A, e, sym) THEN DefValue(A, m)
       ELSE IF st.k = "POPV"
               /\ LET t == ResolveUpto(A, E, m, DeclName(A, m, st.nm), st.q, FALSE, m) IN t.pos # 0 /\ SameSym(A, t, sym)
            THEN LET j == MatchPush(A, st.st, m - 1, 0)
                     src == IF j = 0 THEN NoEntry
                            ELSE ResolveUpto(A, E, j, DeclName(A, j, A.p[j].nm), A.p[j].q, FALSE, j)
                 IN IF j = 0 \/ src.pos = 0 THEN -1 ELSE ValueAt(A, E, src, j)
       ELSE ValueAt(A, E, sym, m)

\* ---- the answer for one reference ------------------------------------------------------------------------------------
\* [found, val, definite]
\* definite = the manual gives a definite answer: what is visible from the definitions before i is nothing or the
\* same symbol as what the whole text says (otherwise "AS accesses a symbol from a higher section in the first
\* pass": pass-dependent), no FORWARD/qualifier clash, and a variable has been assigned before it is read.
RefAnswer(A, E, i) ==
  LET nmd == RefName(A, i)
      q == RefQual(A, i)
      all == ResolveUpto(A, E, i, nmd, q, TRUE, A.n)
      sofar == ResolveUpto(A, E, i, nmd, q, TRUE, i - 1)
      badq == q.t # "none" /\ Target(A, i, q) < 0
      fwdq == q.t # "none" /\ LET d == Pending(A, i, nmd) IN d # 0 /\ A.p[d].k = "FORWARD"
      val == IF all.pos = 0 THEN -1 ELSE ValueAt(A, E, all, i)
  IN [found |-> all.pos # 0 /\ ~badq,
      val |-> val,
      definite |-> /\ ~fwdq /\ (sofar.pos = 0 \/ SameSym(A, sofar, all)) /\ (all.pos # 0 => val >= 0)
                   \* the manual only says that labels of a macro body are local to it; that a nested expansion also sees
                   \* the labels of the expansions around it is the code's choice (FindLocNode walks the handle list)
                   /\ (all.pos # 0 /\ all.home[1] = "L") => all.home[2] = A.mpath[i][1]]

\* ---- errors the manual demands -----------------------------------------------------------------------------------------
DeclErrors(A, E) ==
  LET p == A.p IN
  (IF ~StructOK(A) THEN {"structure"} ELSE {})
  \cup {"double" : e \in {e \in E : \E f \in E : SameSym(A, e, f) /\ e.const /\ f.const
                                               /\ (e.pos # f.pos \/ e.copy # f.copy)}}
  \cup {"mix" : e \in {e \in E : \E f \in E : SameSym(A, e, f) /\ e.const # f.const}}
  \cup {"undefined" : i \in {i \in 1..A.n : p[i].k \in {"REF", "TREF"} /\ ~RefAnswer(A, E, i).found}}
  \cup {"pp" : d \in {d \in 1..A.n : p[d].k \in {"FORWARD", "PUBLIC", "GLOBAL"} /\
          \/ Target(A, d, p[d].q) < 0                                       \* no such parent section
          \/ LET e == Pending(A, d, DeclName(A, d, p[d].nm)) IN e # 0 /\ p[e].k # p[d].k   \* private and public
          \/ ~\E m \in (d + 1)..A.n : IsSectDef(A, m) /\ A.path[m] = A.path[d]           \* never resolved
                                       /\ SameName(A, DeclName(A, m, p[m].nm), DeclName(A, d, p[d].nm))}}
  \cup {"stack" : j \in {j \in 1..A.n :
          \/ p[j].k \in {"PUSHV", "POPV"} /\ ResolveUpto(A, E, j, DeclName(A, j, p[j].nm), p[j].q, FALSE, j - 1).pos = 0
          \/ p[j].k = "POPV" /\ MatchPush(A, p[j].st, j - 1, 0) = 0}}      \* (a value left on a stack: warning only)

\* PUSHV/POPV name their symbol when they are executed: definite only if later definitions do not change that
StackDefinite(A, E) ==
  \A j \in 1..A.n : A.p[j].k \in {"PUSHV", "POPV"} =>
     LET a == ResolveUpto(A, E, j, DeclName(A, j, A.p[j].nm), A.p[j].q, FALSE, A.n)
         b == ResolveUpto(A, E, j, DeclName(A, j, A.p[j].nm), A.p[j].q, FALSE, j - 1)
     IN b.pos # 0 /\ SameSym(A, a, b)

\* POPV onto an EQU constant / label whose value differs from the popped one: "an EQU constant can never change".
\* Reporting an error is as good as leaving the constant alone; changing it is not.
PopsIntoConstant(A, E) ==
  \E m \in 1..A.n : A.p[m].k = "POPV" /\
     LET t == ResolveUpto(A, E, m, DeclName(A, m, A.p[m].nm), A.p[m].q, FALSE, m)
         j == MatchPush(A, A.p[m].st, m - 1, 0)
         src == IF j = 0 THEN NoEntry ELSE ResolveUpto(A, E, j, DeclName(A, j, A.p[j].nm), A.p[j].q, FALSE, j)
     IN t.pos # 0 /\ t.const /\ j # 0 /\ src.pos # 0 /\ ValueAt(A, E, src, j) # DefValue(A, t.pos)

\* places where the manual is silent or the text is outside what this definition covers: no claim at all
Silent(A, E) ==
  LET p == A.p IN
  \/ \E d \in 1..A.n : p[d].k = "GLOBAL" /\ p[d].q.t = "parent" /\ p[d].q.d = 0           \* GlobalToSelf
  \/ \E i \in 1..A.n : p[i].k = "TREF" /\ p[i].t = "-" /\ p[i].c = 1 /\ TmpTargetPos(A, i) = 0   \* LoneMinusIsZero
  \/ \E d \in 1..A.n : p[d].k = "GLOBAL" /\ p[d].q.t = "name" /\ Target(A, d, p[d].q) = A.path[d][1] /\ A.path[d][1] # 0

\* texts on which the pinned tree is known to deviate from the manual (the named deviations at the top)
Deviations(A, E) ==
  LET p == A.p IN
  (IF \E m \in 1..A.n : p[m].k = "POPV" /\
         LET t == ResolveUpto(A, E, m, DeclName(A, m, p[m].nm), p[m].q, FALSE, m) IN t.pos # 0 /\ t.const
   THEN {"popv_const"} ELSE {})
  \cup (IF /\ \E m \in 1..A.n : p[m].k \in {"DEF", "REF"} /\ p[m].nm.t = "dd"
            /\ \E a, b \in 1..A.n : a < b /\ p[a].k = "DEF" /\ p[b].k = "DEF" /\ p[a].nm.t = "n" /\ p[b].nm.t = "n"
                                      /\ RawText(p[a].nm) = RawText(p[b].nm)
         THEN {"dd_same_name"} ELSE {})
  \cup (IF \E m \in 1..(A.n - 1) : p[m].k = "MACBEGIN" /\ p[m + 1].k = "MACEND" /\ A.mpath[m] # <<>>
         THEN {"empty_macro_nested"} ELSE {})

\* the expected observation for a whole program:
\*   err    - an error must be reported;  mayErr - an error may be reported instead of the words below
\*   words  - per emitted word (data words of references, filler words of labels) [v, definite]
Expect(cs, p) ==
  LET A == Analyse(cs, p)
      E == Entries(A)
      errs == DeclErrors(A, E)
      sd == StackDefinite(A, E)
      W == {i \in 1..A.n : p[i].k \in {"REF", "TREF", "TDEF"} \/ (p[i].k = "DEF" /\ p[i].kind = "label")}
      word(i) == IF p[i].k \in {"REF", "TREF"}
                 THEN LET r == RefAnswer(A, E, i) IN [v |-> r.val, definite |-> r.definite /\ sd, pos |-> i]
                 ELSE [v |-> 43690, definite |-> TRUE, pos |-> i]
      ws == SortDesc(W)
  IN [err |-> errs # {}, kinds |-> errs, devs |-> Deviations(A, E), silent |-> Silent(A, E) \/ ~sd, mayErr |-> PopsIntoConstant(A, E),
      words |-> IF errs # {} THEN <<>> ELSE [k \in 1..Len(ws) |-> word(ws[Len(ws) - k + 1])]]
=============================================================================
