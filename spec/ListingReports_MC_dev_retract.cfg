\* usage list = occupied addresses = image of the code file; warning 90 <=> intersection (RetractMode any)
CONSTANTS Modes = {"usage"} StepsUsage = 5 StepsXref = 1 StepsSect = 1 StepsPage = 1 MaxAddr = 3 MaxLen = 1 Gran = 1 RetractMode = "any"
  Keys = {"a"} MainFile = "m" IncFiles = {} MaxLineNo = 1 SectNames = {"X"} MaxDepth = 1
  PageLens = {0} PageWidths = {0} LineLens = {0} HeaderLen = 1 Fixed = FALSE
SPECIFICATION Spec
INVARIANTS UsageSaysOccupied WarnIffIntersect NoStaleIndex ChunksApart UsageEqualsImage
CHECK_DEADLOCK FALSE
