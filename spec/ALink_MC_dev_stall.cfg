\* the code as it is (PartRun not advanced after an undefined symbol): TLC must find the misaligned part pointer
CONSTANTS MaxFiles = 1 MaxRecs = 2 Starts = {256} Rels <- R_Abs POffs = {1} PNames <- N_ab PTypes <- T_1 MaxP = 1
  XNames <- N_a XFlags = {0} XVals = {4660} MaxX = 1 Dev <- D_Stall
SPECIFICATION Spec
INVARIANTS Aligned
CHECK_DEADLOCK FALSE
