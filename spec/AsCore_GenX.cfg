\* EXPECT family: every program of up to 3 source lines over the 14 statements of ExpAlpha (EXPECT with one / two / two
\* equal numbers, ENDEXPECT, the two faulty statements they announce, a user ERROR, IF 0 / ENDIF, data, END, IFDEF CX /
\* IFNDEF CX, CX EQU 1)
CONSTANTS Segs = {1, 2} StructSeg = 11 OffSet = {} OffAt = 0 Family = "exp" BodyLen = 0 MaxLen = 3 MaxSteps = 12
INIT Init
NEXT GenNext
INVARIANTS ForwardIsAllowed ErrCountIsFaultyExecuted ChainMirrorsCounts ImageIsData KeptIffClean
           ConstantsKeepTheirValue SkippedDefinesNothing VariableIsLastSetOrPopped
           ExpectListIsAnnouncedMinusConsumed HiddenIsNeverCounted EndIsFinal
CHECK_DEADLOCK FALSE
