\* expected to FAIL on the pinned ieeefloat.c: the witness is the half precision subnormal defect
CONSTANTS MantBits = 5 ExpLoNeg = 30 ExpHi = 0 WithSingle = FALSE
SPECIFICATION Spec
INVARIANTS CodeIsIEEE
CHECK_DEADLOCK FALSE
