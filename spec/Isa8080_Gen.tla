----------------------------- MODULE Isa8080_Gen -----------------------------
EXTENDS Isa8080
CONSTANTS Cpu, K, Salt, Step
VARIABLES form, ops, pc
INSTANCE IsaGen
ASSUME TableSane
ASSUME Cardinality(DefinedOpcodes(FormsOfCpu, UnitBits)) = DefinedCount(Cpu)
=============================================================================
