---------------------------- MODULE RelocWriter_MC ----------------------------
(* (M) every program of up to MaxStmts statements over a small alphabet (data, references to an external      *)
(* and to a local symbol, one- and two-name fields, label, export, ORG gap, reservation, RSEG/ASEG, CPU)      *)
(* with the record limit scaled down to MaxRecLenW bytes: the relocatable code file the writer produces is    *)
(* Faithful to the program unless one of the four named situations of RelocWriter.tla occurs; each of them    *)
(* is reachable (the *_dev_* configurations must fail).  A state = a program (grown one statement per step).   *)
EXTENDS RelocWriter, TLC
CONSTANT MaxStmts

VARIABLE prog
Ga == <<103, 97>>  L1 == <<108, 49>>
Alphabet == {[op |-> "db", bytes |-> <<1>>], [op |-> "db", bytes |-> <<1, 2, 3>>],
             [op |-> "ref", w |-> 2, opc |-> 144, names |-> <<Ga>>, add |-> 1], [op |-> "ref", w |-> 1, opc |-> 116, names |-> <<Ga>>, add |-> 0],
             [op |-> "ref", w |-> 2, opc |-> 2, names |-> <<L1>>, add |-> 0], [op |-> "ref", w |-> 2, opc |-> 18, names |-> <<Ga, Ga>>, add |-> 0],
             [op |-> "ref", w |-> 2, opc |-> 18, names |-> <<Ga, L1>>, add |-> 0],
             [op |-> "label", name |-> L1], [op |-> "export", names |-> <<L1>>], [op |-> "org", addr |-> 64], [op |-> "res", n |-> 2],
             [op |-> "rseg"], [op |-> "aseg"], [op |-> "cpu"]}
Prologue == <<[op |-> "cpu"], [op |-> "extern", names |-> <<Ga>>]>>
Init == prog = Prologue
Next == Len(prog) < Len(Prologue) + MaxStmts /\ \E st \in Alphabet : prog' = Append(prog, st)
Spec == Init /\ [][Next]_prog

\* a prefix that refers to the label may still get its definition: programs are judged when they are complete
Ok == Accepted(prog) /\ \A i \in 1..Len(prog) : prog[i].op = "org" => PcBefore(prog)[i] <= prog[i].addr
W == Written(prog)
Excused == W.lost \/ W.split \/ Cancels(prog) \/ Leaks(prog)
WFaithful == Ok => (Faithful(prog, W.out) \/ Excused)
\* what each situation costs
LostMeans   == (Ok /\ W.lost /\ ~Leaks(prog) /\ ~W.split /\ ~Cancels(prog)) => ~SameBag(FileExports(W.out), StmtExports(prog))
SplitMeans  == (Ok /\ W.split) => \E r \in 1..Len(W.out) : ~PatchesInside(W.out[r])
CancelMeans == (Ok /\ Cancels(prog)) => ~SameBag(FilePatches(W.out), StmtPatches(prog))
\* structure: the image is always right (C04's statement survives the relocation machinery); a record carries relocation
\* info exactly when its type says so (by construction of HdrByte) and the byte grammar round-trips; no empty records
ImageOK   == Ok => FileImage(W.out) = StmtImage(prog)
RoundTrip == Ok => LET d == RDecode(REncode(W.out, <<65>>)) IN d.ok /\ d.items = W.out
NoEmpty   == Ok => \A r \in 1..Len(W.out) : Len(W.out[r].data) \in 1..MaxRecLenW
\* the relocatable flag of a record is the segment type in force when the record was opened
NeverLost == Ok => ~W.lost
NeverSplit == Ok => ~W.split
NeverCancel == Ok => ~Cancels(prog)
NeverLeak == Ok => ~Leaks(prog)
NeverExcused == Ok => ~Excused
=============================================================================
