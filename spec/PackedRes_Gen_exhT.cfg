CONSTANTS
  Places <- PlacesExhT
  Elems = {4, 8, 16, 32}
  Kinds = {"res"}
  Counts <- CountsAll
  MaxDepth = 2 MaxTok = 8 MaxStmts = 1 MaxDS = 1
  Dev = "emptygroup" Weight = 1
INIT GInit
NEXT GNext
INVARIANT Dump
CHECK_DEADLOCK FALSE
