----------------------------- MODULE DataDef_MC -----------------------------
(* Model check and case generation for DataDef.                                                                 *)
(*  Laws (checked on every generated case): the integer range rule stated as an interval, bytes decode back to   *)
(*  the value modulo 2^(8w), little endian = element-wise reversal of big endian, DUP/[n] = repetition,          *)
(*  reservations emit nothing and advance by count * width, PADDING adds exactly one byte in front of a          *)
(*  multi-byte object at an odd address, mixing data and reservation is an error.                                *)
(*  Emit prints each case for replay: statement, argument descriptions, modes, expected layout.                  *)
EXTENDS DataDef, TLC, Json
CONSTANTS Level        \* 1 quick, 2 thorough (more float mantissas, more argument pairs)

(* ---- argument descriptions (spelled by the renderer, valued here) ------------------------------------------- *)
IntD(neg, ds, b) == [k |-> "int", neg |-> neg, digits |-> ds, base |-> b]
FltD(s, m, e) == [k |-> "flt", s |-> s, m |-> m, e |-> e]
StrD(cs, sq) == [k |-> "str", cs |-> cs, sq |-> sq]
ResD == [k |-> "res"]
DupD(n, as) == [k |-> "dup", n |-> n, args |-> as]
Rep(a, n) == [f \in DOMAIN a \cup {"rep"} |-> IF f = "rep" THEN n ELSE a[f]]

RECURSIVE ArgVal(_)
ArgVal(d) ==
  CASE d.k = "int" -> LET v == DigitsVal(d.digits, d.base, Zero)
                          a == [k |-> "int", v |-> IF d.neg THEN Neg(v) ELSE v]
                      IN IF "rep" \in DOMAIN d THEN Rep(a, d.rep) ELSE a
    [] d.k = "flt" -> LET a == [k |-> "flt", v |-> Dy(d.s, d.m, d.e)] IN IF "rep" \in DOMAIN d THEN Rep(a, d.rep) ELSE a
    [] d.k = "dup" -> [k |-> "dup", n |-> d.n, args |-> [i \in 1..Len(d.args) |-> ArgVal(d.args[i])]]
    [] OTHER -> d

\* boundary integers of a field of w bytes: -2^(8w-1)-1, -2^(8w-1), -1, 0, 1, 2^(8w-1)-1, 2^(8w-1), 2^(8w)-1, 2^(8w)
RECURSIVE Fs(_)
Fs(n) == IF n = 0 THEN <<>> ELSE <<15>> \o Fs(n - 1)
RECURSIVE Zs(_)
Zs(n) == IF n = 0 THEN <<>> ELSE <<0>> \o Zs(n - 1)
Boundary(w) ==
  LET h == 2 * w IN     \* hex digits
  IF w >= 8 THEN {IntD(FALSE, <<0>>, 10), IntD(TRUE, <<1>>, 10), IntD(FALSE, <<7>> \o Fs(15), 16), IntD(TRUE, <<7>> \o Fs(15), 16),
                  IntD(FALSE, <<1, 2, 3, 4, 5, 6, 7, 8, 9, 10, 11, 12, 13, 14, 15, 0>>, 16)}
  ELSE {IntD(TRUE, <<8>> \o Zs(h - 2) \o <<1>>, 16), IntD(TRUE, <<8>> \o Zs(h - 1), 16), IntD(TRUE, <<1>>, 10), IntD(FALSE, <<0>>, 10),
        IntD(FALSE, <<1>>, 10), IntD(FALSE, <<7>> \o Fs(h - 1), 16), IntD(FALSE, <<8>> \o Zs(h - 1), 16), IntD(FALSE, Fs(h), 16),
        IntD(FALSE, <<1>> \o Zs(h), 16), IntD(FALSE, <<1, 2>>, 16)}
IntsFor(w) == IF w \in {10, 12} THEN {IntD(FALSE, <<0>>, 10), IntD(FALSE, <<1>>, 10), IntD(TRUE, <<3>>, 10), IntD(FALSE, <<1, 0, 0, 0>>, 16)}
              ELSE Boundary(w)

HalfMants == IF Level = 1 THEN {m \in 1..127 : m % 2 = 1} \cup {1023, 2047, 2049, 4095} ELSE {m \in 1..4095 : m % 2 = 1}
HalfExps == {0 - e : e \in 10..30} \cup {0 - 1, 0, 4, 5, 6, 15, 16}
HalfFloats == {FltD(0, m, e) : m \in HalfMants, e \in HalfExps} \cup {FltD(1, m, 0 - 25) : m \in {1, 3, 5, 9}}
              \cup {FltD(0, 0, 0), FltD(1, 1, 0), FltD(0, 2047, 5), FltD(0, 4095, 4), FltD(0, 1, 16), FltD(1, 3, 15)}
SingleFloats == {FltD(s, m, e) : s \in {0, 1}, m \in {1, 3, 16777215, 16777217, 33554431, 33554433, 12582913, 1073741823, 536870913},
                                 e \in {0 - 179, 0 - 160, 0 - 152, 0 - 149, 0 - 140, 0 - 127, 0 - 30, 0, 1, 97, 98, 104}}
                \cup {FltD(0, 0, 0), FltD(0, 1, 127), FltD(0, 1, 128), FltD(0, 1023, 118), FltD(0, 511, 119)}
WideFloats == {FltD(s, m, e) : s \in {0, 1}, m \in {1, 3, 1025, 1073741823}, e \in {0 - 40, 0 - 1, 0, 10, 60}} \cup {FltD(0, 0, 0)}
FloatsFor(fmt) == CASE fmt = "half" -> HalfFloats [] fmt = "single" -> SingleFloats [] OTHER -> WideFloats

Strings == {StrD(<<97>>, FALSE), StrD(<<97>>, TRUE), StrD(<<97, 98>>, FALSE), StrD(<<97, 98>>, TRUE), StrD(<<65, 98, 99>>, FALSE),
            StrD(<<97, 98, 99, 100>>, TRUE), StrD(<<97, 98, 99, 100, 101>>, FALSE), StrD(<<122, 48>>, FALSE), StrD(<<200>>, FALSE),
            StrD(<<200, 97>>, TRUE)}

Small == {IntD(FALSE, <<1>>, 10), IntD(FALSE, <<2>>, 10), IntD(TRUE, <<1>>, 10), IntD(FALSE, <<1, 0, 0>>, 16)}
\* argument lists per statement
ArgLists(sname) ==
  LET st == StmtTable[sname]
      ints == IntsFor(st.w)
      flts == IF st.fmt = "none" THEN {FltD(0, 3, 0 - 1)} ELSE FloatsFor(st.fmt)
      one == ints \cup flts \cup Strings \cup {ResD}
      some == CHOOSE x \in Small : TRUE
  IN {<<a>> : a \in one}
     \cup {<<a, b>> : a \in Small \cup {ResD, StrD(<<97, 98>>, FALSE)}, b \in Small \cup {ResD, StrD(<<97, 98, 99>>, FALSE)}}
     \cup (IF st.fam = "intel"
           THEN {<<DupD(n, <<a>>)>> : n \in {1, 3}, a \in Small \cup {ResD, StrD(<<97, 98>>, FALSE)}}
                \cup {<<DupD(2, <<a, DupD(2, <<b>>)>>)>> : a \in Small, b \in Small \cup {ResD}}
                \cup {<<DupD(2, <<a, b>>), c>> : a \in Small, b \in Small, c \in {ResD, some}}
           ELSE {})
     \cup (IF st.fam \in {"moto", "m68"}
           THEN {<<Rep(a, n)>> : n \in {2, 3}, a \in Small \cup {ResD, StrD(<<97, 98>>, FALSE)}}
                \cup {<<Rep(a, 2), b>> : a \in Small, b \in Small \cup {ResD}}
           ELSE {})

ModesFor(sname) ==
  LET st == StmtTable[sname] IN
  \* lg: list granularity of the target that assembles the statement (2: 680x0, code is kept in words; 1: 68xx, in bytes)
  CASE st.fam = "moto" -> {[big |-> TRUE, padding |-> p, pcodd |-> o, cs |-> c, lg |-> 2] : p \in BOOLEAN, o \in BOOLEAN, c \in {"id"}}
                          \cup {[big |-> TRUE, padding |-> TRUE, pcodd |-> FALSE, cs |-> c, lg |-> 2] : c \in {"up", "hi"}}
                          \cup {[big |-> TRUE, padding |-> FALSE, pcodd |-> TRUE, cs |-> "id", lg |-> 1]}
    [] st.fam = "intel" -> {[big |-> b, padding |-> FALSE, pcodd |-> o, cs |-> "id", lg |-> 1] : b \in BOOLEAN, o \in BOOLEAN}
                           \cup {[big |-> FALSE, padding |-> FALSE, pcodd |-> FALSE, cs |-> c, lg |-> 1] : c \in {"up", "hi"}}
    [] OTHER -> {[big |-> st.order = "big", padding |-> FALSE, pcodd |-> o, cs |-> c, lg |-> 1] : o \in BOOLEAN, c \in {"id", "up"}}

VARIABLES sname, md, args
vars == <<sname, md, args>>
None == <<>>
Init == sname \in DOMAIN StmtTable /\ md \in ModesFor(sname) /\ args = None
Next == /\ args = None
        /\ args' \in {al \in ArgLists(sname) :
                        \* the float sweeps and the boundary integers need only one mode each (the other modes use the rest)
                        (Len(al) = 1 /\ al[1].k \in {"flt", "int"} /\ ~(md.cs = "id" /\ ~md.pcodd) /\ ~(StmtTable[sname].fam = "moto" /\ md.lg = 1 /\ Level >= 2))
                           => al[1] \in Small \cup {FltD(0, 3, 0 - 1), FltD(0, 1, 0), FltD(1, 5, 0 - 2)}}
        /\ UNCHANGED <<sname, md>>
Spec == Init /\ [][Next]_vars

St == StmtTable[sname]
Vals == [i \in 1..Len(args) |-> ArgVal(args[i])]
L == Layout(sname, Vals, md)
Big == IF St.order = "mode" THEN md.big ELSE St.order = "big"

(* ---- laws ----------------------------------------------------------------------------------------------------- *)
\* the documented range as an interval, independent of the shift formulation in InRange
Lower(w) == Neg(Shl(One, 8 * w - 1))
Upper(w) == Sub(Shl(One, 8 * w), One)
RangeRuleIsTheInterval ==
  (args # None /\ Len(args) = 1 /\ args[1].k = "int" /\ "rep" \notin DOMAIN args[1] /\ St.ty \in {"int", "both"} /\ St.w < 8) =>
     LET v == Vals[1].v IN
     /\ InRange(v, St.w) <=> (~LtS(v, Lower(St.w)) /\ ~LtS(Upper(St.w), v))
     /\ (L.k = "error") <=> ~InRange(v, St.w)

RECURSIVE BytesToLimbsBE(_, _)
BytesToLimbsBE(bs, acc) == IF bs = <<>> THEN acc ELSE BytesToLimbsBE(Tail(bs), Add(Shl(acc, 8), FromNat(Head(bs))))
IntegerBytesDecodeBack ==
  (args # None /\ Len(args) = 1 /\ args[1].k = "int" /\ "rep" \notin DOMAIN args[1] /\ St.ty \in {"int", "both"} /\ L.k = "data"
     /\ St.fam # "ti") =>
     LET be == IF Big THEN L.b ELSE Reverse(L.b)
         v == Vals[1].v
         mask == IF St.w >= 8 THEN MinusOne ELSE Upper(St.w)
     IN /\ Len(L.b) = St.w
        /\ BytesToLimbsBE(be, Zero) = And(v, mask)

LittleIsReversedBig ==
  (args # None /\ St.order = "mode" /\ Len(args) = 1 /\ args[1].k \in {"int", "flt"} /\ L.k = "data") =>
     Layout(sname, Vals, [md EXCEPT !.big = ~md.big]).b = Reverse(L.b)

RECURSIVE CountElems(_)
CountElems(a) == (IF "rep" \in DOMAIN a THEN a.rep ELSE 1) *
                 (IF a.k = "dup" THEN a.n * (LET RECURSIVE S(_) S(xs) == IF xs = <<>> THEN 0 ELSE CountElems(Head(xs)) + S(Tail(xs)) IN S(a.args))
                  ELSE IF a.k = "str" /\ ~(a.sq /\ Len(a.cs) \in 1..4 /\ Len(a.cs) <= St.w) THEN Len(a.cs) ELSE 1)
RECURSIVE SumElems(_)
SumElems(as) == IF as = <<>> THEN 0 ELSE CountElems(Head(as)) + SumElems(Tail(as))
LengthIsElementsTimesWidth ==
  (args # None /\ L.k \in {"data", "reserve"}) =>
     LET unit == IF St.fam = "ti" /\ St.w = 1 THEN 2 ELSE St.w
         n == SumElems(Vals) * unit
     IN IF L.k = "data" THEN Len(L.b) = n ELSE L.n = n

PaddingRule ==
  (args # None /\ L.k \in {"data", "reserve"}) => (L.pad = 1 <=> (md.padding /\ md.pcodd /\ St.w >= 2 /\ St.fam = "moto"))

RECURSIVE Kinds(_)
Kinds(as) == IF as = <<>> THEN {} ELSE (IF Head(as).k = "dup" THEN Kinds(Head(as).args) ELSE {Head(as).k = "res"}) \cup Kinds(Tail(as))
MixingIsAnError == (args # None /\ Kinds(Vals) = {TRUE, FALSE}) => L.k \in {"error", "unspec"}

FloatLayoutIsTheEncoder ==
  (args # None /\ Len(args) = 1 /\ args[1].k = "flt" /\ L.k = "data" /\ St.fmt = "half") =>
     LET be == IF Big THEN L.b ELSE Reverse(L.b) IN be[1] * 256 + be[2] = HalfBits(Vals[1].v)

Emit == args # None =>
  PrintT(<<"OUT", ToJson([stmt |-> sname, fam |-> St.fam, w |-> St.w, args |-> args, md |-> md, o |-> L, dev |-> Devs(sname, Vals, md)])>>)
=============================================================================
