----------------------------- MODULE DataDef_MC -----------------------------
(* Model check and case generation for DataDef.                                                                 *)
(*  Laws (checked on every generated case): the integer range rule stated as an interval, bytes decode back to   *)
(*  the value modulo 2^(8w), little endian = element-wise reversal of big endian, DUP/[n] = repetition,          *)
(*  reservations emit nothing and advance by count * width, PADDING adds exactly one byte in front of a          *)
(*  multi-byte object at an odd address, mixing data and reservation is an error.                                *)
(*  Emit prints each case for replay: statement, argument descriptions, modes, expected layout.                  *)
EXTENDS DataDef, TLC, Json
CONSTANTS Level        \* 1 quick, 2 thorough (more float mantissas, more argument pairs)

(* ---- argument descriptions (spelled by the renderer, valued here) ------------------------------------------- *)
IntD(neg, ds, b) == [k |-> "int", neg |-> neg, digits |-> ds, base |-> b]
FltD(s, m, e) == [k |-> "flt", s |-> s, m |-> m, e |-> e]
StrD(cs, sq) == [k |-> "str", cs |-> cs, sq |-> sq]
ResD == [k |-> "res"]
DupD(n, as) == [k |-> "dup", n |-> n, args |-> as]
Rep(a, n) == [f \in DOMAIN a \cup {"rep"} |-> IF f = "rep" THEN n ELSE a[f]]

RECURSIVE ArgVal(_)
ArgVal(d) ==
  CASE d.k = "int" -> LET v == DigitsVal(d.digits, d.base, Zero)
                          a == [k |-> "int", v |-> IF d.neg THEN Neg(v) ELSE v]
                      IN IF "rep" \in DOMAIN d THEN Rep(a, d.rep) ELSE a
    [] d.k = "flt" -> LET a == [k |-> "flt", v |-> Dy(d.s, d.m, d.e)] IN IF "rep" \in DOMAIN d THEN Rep(a, d.rep) ELSE a
    [] d.k = "dup" -> [k |-> "dup", n |-> d.n, args |-> [i \in 1..Len(d.args) |-> ArgVal(d.args[i])]]
    [] OTHER -> d

\* boundary integers of a field of w bytes: -2^(8w-1)-1, -2^(8w-1), -1, 0, 1, 2^(8w-1)-1, 2^(8w-1), 2^(8w)-1, 2^(8w)
RECURSIVE Fs(_)
Fs(n) == IF n = 0 THEN <<>> ELSE <<15>> \o Fs(n - 1)
RECURSIVE Zs(_)
Zs(n) == IF n = 0 THEN <<>> ELSE <<0>> \o Zs(n - 1)
Boundary(w) ==
  LET h == 2 * w IN     \* hex digits
  IF w >= 8 THEN {IntD(FALSE, <<0>>, 10), IntD(TRUE, <<1>>, 10), IntD(FALSE, <<7>> \o Fs(15), 16), IntD(TRUE, <<7>> \o Fs(15), 16),
                  IntD(FALSE, <<1, 2, 3, 4, 5, 6, 7, 8, 9, 10, 11, 12, 13, 14, 15, 0>>, 16)}
  ELSE {IntD(TRUE, <<8>> \o Zs(h - 2) \o <<1>>, 16), IntD(TRUE, <<8>> \o Zs(h - 1), 16), IntD(TRUE, <<1>>, 10), IntD(FALSE, <<0>>, 10),
        IntD(FALSE, <<1>>, 10), IntD(FALSE, <<7>> \o Fs(h - 1), 16), IntD(FALSE, <<8>> \o Zs(h - 1), 16), IntD(FALSE, Fs(h), 16),
        IntD(FALSE, <<1>> \o Zs(h), 16), IntD(FALSE, <<1, 2>>, 16)}
IntsFor(w) == IF w \in {10, 12} THEN {IntD(FALSE, <<0>>, 10), IntD(FALSE, <<1>>, 10), IntD(TRUE, <<3>>, 10), IntD(FALSE, <<1, 0, 0, 0>>, 16)}
              ELSE Boundary(w)

HalfMants == IF Level = 1 THEN {m \in 1..127 : m % 2 = 1} \cup {1023, 2047, 2049, 4095} ELSE {m \in 1..4095 : m % 2 = 1}
HalfExps == {0 - e : e \in 10..30} \cup {0 - 1, 0, 4, 5, 6, 15, 16}
HalfFloats == {FltD(0, m, e) : m \in HalfMants, e \in HalfExps} \cup {FltD(1, m, 0 - 25) : m \in {1, 3, 5, 9}}
              \cup {FltD(0, 0, 0), FltD(1, 1, 0), FltD(0, 2047, 5), FltD(0, 4095, 4), FltD(0, 1, 16), FltD(1, 3, 15)}
SingleFloats == {FltD(s, m, e) : s \in {0, 1}, m \in {1, 3, 16777215, 16777217, 33554431, 33554433, 12582913, 1073741823, 536870913},
                                 e \in {0 - 179, 0 - 160, 0 - 152, 0 - 149, 0 - 140, 0 - 127, 0 - 30, 0, 1, 97, 98, 104}}
                \cup {FltD(0, 0, 0), FltD(0, 1, 127), FltD(0, 1, 128), FltD(0, 1023, 118), FltD(0, 511, 119)}
WideFloats == {FltD(s, m, e) : s \in {0, 1}, m \in {1, 3, 1025, 1073741823}, e \in {0 - 40, 0 - 1, 0, 10, 60}} \cup {FltD(0, 0, 0)}
FloatsFor(fmt) == CASE fmt = "half" -> HalfFloats [] fmt = "single" -> SingleFloats [] OTHER -> WideFloats

\* single-quoted strings of every length 0..9: '', 'A', 'Ab', ... 'Abcdefghi' (multi character constant up to the element
\* width, character string beyond it; DataDef.tla Readings for 5..8 characters in 64-bit elements and for '')
SqChars == <<65, 98, 99, 100, 101, 102, 103, 104, 105>>
SqStrings == {StrD(SubSeq(SqChars, 1, n), TRUE) : n \in 0..9}
Strings == {StrD(<<97>>, FALSE), StrD(<<97>>, TRUE), StrD(<<97, 98>>, FALSE), StrD(<<97, 98>>, TRUE), StrD(<<65, 98, 99>>, FALSE),
            StrD(<<97, 98, 99, 100>>, TRUE), StrD(<<97, 98, 99, 100, 101>>, FALSE), StrD(<<122, 48>>, FALSE), StrD(<<200>>, FALSE),
            StrD(<<200, 97>>, TRUE)} \cup SqStrings

Small == {IntD(FALSE, <<1>>, 10), IntD(FALSE, <<2>>, 10), IntD(TRUE, <<1>>, 10), IntD(FALSE, <<1, 0, 0>>, 16)}
(* ---- packed statements: reservations and constants at every sub-unit position, in front of / inside / behind DUP ----- *)
RECURSIVE Times(_, _)
Times(a, n) == IF n = 0 THEN <<>> ELSE <<a>> \o Times(a, n - 1)
PackedLists(sname) ==
  LET st == StmtTable[sname]
      c1 == IntD(FALSE, <<1>>, 10)
      c2 == IntD(FALSE, <<7>>, 10)
      shapes(x, y) == {Times(x, p) \o <<DupD(n, Times(y, b))>> \o Times(x, q) : p \in 0..3, n \in 1..5, b \in 1..3, q \in 0..1}
  IN shapes(ResD, ResD) \cup shapes(c1, c2) \cup shapes(ResD, c2) \cup shapes(c1, ResD)
     \cup {<<DupD(2, <<ResD, DupD(n, <<ResD>>)>>)>> : n \in 1..3} \cup {<<DupD(2, <<c1, DupD(n, <<c2>>), c1>>)>> : n \in 1..3}
     \cup {<<a>> : a \in (IF st.ebits = 4 THEN {IntD(TRUE, <<8>>, 10), IntD(TRUE, <<9>>, 10), IntD(FALSE, <<1, 5>>, 10), IntD(FALSE, <<1, 6>>, 10),
                                                 IntD(TRUE, <<1>>, 10), FltD(0, 3, 0 - 1)}
                           ELSE {IntD(TRUE, <<8, 0>>, 16), IntD(TRUE, <<8, 1>>, 16), IntD(FALSE, <<15, 15>>, 16), IntD(FALSE, <<1, 0, 0>>, 16),
                                 StrD(<<97, 98, 99>>, FALSE), StrD(<<97>>, TRUE), FltD(0, 3, 0 - 1)} \cup SqStrings)}
     \cup {Times(ResD, n) : n \in 1..9} \cup {Times(c2, n) : n \in 1..9}
AvrDataLists ==
  LET items == {IntD(FALSE, <<1>>, 10), IntD(FALSE, <<1, 2, 3, 4>>, 16), IntD(TRUE, <<1>>, 10), IntD(FALSE, <<15, 15>>, 16),
                StrD(<<97, 98, 99>>, FALSE), StrD(<<97, 98>>, FALSE), StrD(<<99>>, FALSE), StrD(<<97, 98, 99, 100, 101>>, FALSE)}
  IN {<<a>> : a \in items \cup {IntD(FALSE, <<1, 0, 0, 0, 0>>, 16), IntD(TRUE, <<8, 0, 0, 1>>, 16), IntD(FALSE, <<15, 15, 15, 15>>, 16),
                                 IntD(TRUE, <<8, 0, 0, 0>>, 16), IntD(TRUE, <<8, 1>>, 16), IntD(FALSE, <<1, 0, 0>>, 16), FltD(0, 3, 0 - 1)}
                                \cup SqStrings}
     \cup {<<a, b>> : a \in items, b \in items} \cup {<<a, b, c>> : a \in {StrD(<<99>>, FALSE), StrD(<<97, 98, 99>>, FALSE), IntD(FALSE, <<1>>, 10)},
                                                              b \in items, c \in {IntD(FALSE, <<1, 2, 3, 4>>, 16), StrD(<<99>>, FALSE)}}

\* argument lists per statement
ArgLists(sname) ==
  IF StmtTable[sname].fam = "packed" THEN PackedLists(sname) ELSE IF StmtTable[sname].fam = "avrdata" THEN AvrDataLists ELSE
  LET st == StmtTable[sname]
      ints == IntsFor(st.w)
      flts == IF st.fmt = "none" THEN {FltD(0, 3, 0 - 1)} ELSE FloatsFor(st.fmt)
      one == ints \cup flts \cup Strings \cup {ResD}
      some == CHOOSE x \in Small : TRUE
  IN {<<a>> : a \in one}
     \cup {<<a, b>> : a \in Small \cup {ResD, StrD(<<97, 98>>, FALSE)}, b \in Small \cup {ResD, StrD(<<97, 98, 99>>, FALSE)}}
     \cup (IF st.fam = "intel"
           THEN {<<DupD(n, <<a>>)>> : n \in {1, 3}, a \in Small \cup {ResD, StrD(<<97, 98>>, FALSE)}}
                \cup {<<DupD(2, <<a, DupD(2, <<b>>)>>)>> : a \in Small, b \in Small \cup {ResD}}
                \cup {<<DupD(2, <<a, b>>), c>> : a \in Small, b \in Small, c \in {ResD, some}}
           ELSE {})
     \cup (IF st.fam \in {"moto", "m68"}
           THEN {<<Rep(a, n)>> : n \in {2, 3}, a \in Small \cup {ResD, StrD(<<97, 98>>, FALSE)}}
                \cup {<<Rep(a, 2), b>> : a \in Small, b \in Small \cup {ResD}}
           ELSE {})

(* ---- CHARSET maps ------------------------------------------------------------------------------------------------ *)
RangeOp(a, b, c) == [k |-> "range", a |-> a, b |-> b, c |-> c]
OneOp(a, c) == [k |-> "one", a |-> a, c |-> c]
StrOp(a, cs) == [k |-> "str", a |-> a, cs |-> cs]
ResetOp == [k |-> "reset"]
Id == <<>>
Up == <<RangeOp(97, 122, 65)>>                    \* CHARSET 'a','z','A'
Hi == <<OneOp(97, 200)>>                          \* a target code above 127
Shift == <<RangeOp(65, 89, 66)>>                  \* A..Y -> B..Z: the image overlaps the domain
Swap == <<OneOp(97, 98), OneOp(98, 97)>>          \* a <-> b
Const == <<StrOp(97, <<88, 88, 88>>)>>            \* a, b, c -> X
SetReset == Shift \o <<ResetOp>>                  \* set, then plain CHARSET: identity again
Twice == Shift \o Shift                           \* assigning the same range twice is not a composition
ResetThenSwap == Shift \o <<ResetOp>> \o Swap
BasicMaps == {Id, Up, Hi}
SweepMaps == {Id, Shift, Swap, Const, SetReset, Twice, ResetThenSwap, Up}

\* strings with mapped and unmapped characters for every map above
SweepStrings == {StrD(<<65, 66>>, FALSE), StrD(<<88, 89, 90, 97>>, FALSE), StrD(<<97, 98, 99, 100>>, FALSE), StrD(<<98, 97, 66, 65, 49>>, FALSE),
                 StrD(<<65, 98>>, TRUE), StrD(<<89>>, TRUE)}
\* every string argument with repeat counts 1..3 in the family's own notation, alone and next to other arguments
StrSweep(sname) ==
  LET st == StmtTable[sname]
      reps(a) == IF st.fam \in {"intel", "packed"} THEN {<<a>>} \cup {<<DupD(n, <<a>>)>> : n \in 1..3} \cup {<<DupD(2, <<a, IntD(FALSE, <<1>>, 10)>>)>>}
                 ELSE IF st.fam \in {"moto", "m68"} THEN {<<a>>} \cup {<<Rep(a, n)>> : n \in 2..3} \cup {<<Rep(a, 2), a>>}
                 ELSE {<<a>>}
  IN IF st.ty = "flt" \/ st.fam = "ti" \/ st.w > 8 \/ (st.fam = "packed" /\ st.ebits # 8) THEN {} ELSE UNION {reps(a) : a \in SweepStrings}

ModesFor(sname) ==
  LET st == StmtTable[sname]
      M(b, p, o, c, l, c2) == [big |-> b, padding |-> p, pcodd |-> o, cs |-> c, lg |-> l, sweep |-> FALSE, cs2 |-> c2, packing |-> FALSE]
  IN
  \* lg: list granularity of the target that assembles the statement (2: 680x0, code is kept in words; 1: 68xx, in bytes)
  \* sweep = TRUE: the string x repeat x CHARSET sweep; cs2 # <<>>: the statement is assembled twice, cs2 in between
  CASE st.fam = "packed" -> {M(FALSE, FALSE, FALSE, Id, 1, <<>>)}
    [] st.fam = "avrdata" -> {[M(FALSE, FALSE, FALSE, Id, 1, <<>>) EXCEPT !.packing = p] : p \in BOOLEAN}
    [] st.fam = "moto" -> {M(TRUE, p, o, Id, 2, <<>>) : p \in BOOLEAN, o \in BOOLEAN}
                          \cup {M(TRUE, TRUE, FALSE, c, 2, <<>>) : c \in {Up, Hi}}
                          \cup {M(TRUE, FALSE, TRUE, Id, 1, <<>>)}
    [] st.fam = "intel" -> {M(b, FALSE, o, Id, 1, <<>>) : b \in BOOLEAN, o \in BOOLEAN}
                           \cup {M(FALSE, FALSE, FALSE, c, 1, <<>>) : c \in {Up, Hi}}
    [] OTHER -> {M(st.order = "big", FALSE, o, c, 1, <<>>) : o \in BOOLEAN, c \in {Id, Up}}
SweepModesFor(sname) ==
  LET st == StmtTable[sname]
      S(b, c, l, c2) == [big |-> b, padding |-> FALSE, pcodd |-> FALSE, cs |-> c, lg |-> l, sweep |-> TRUE, cs2 |-> c2, packing |-> FALSE]
      bigs == IF st.order = "mode" THEN BOOLEAN ELSE {st.order = "big"}
      lgs == IF st.fam = "moto" THEN {1, 2} ELSE {1}
  IN IF StrSweep(sname) = {} THEN {}
     ELSE {S(b, c, l, <<>>) : b \in bigs, c \in SweepMaps, l \in lgs}
          \* CHARSET changes between two copies of the statement: reset, a further assignment, a first assignment
          \cup {S(b, Shift, l, <<ResetOp>>) : b \in bigs, l \in lgs} \cup {S(b, Swap, l, <<OneOp(97, 120)>>) : b \in bigs, l \in lgs}
          \cup {S(b, Id, l, Shift) : b \in bigs, l \in lgs} \cup {S(b, Shift, l, Shift) : b \in bigs, l \in lgs}

VARIABLES sname, md, args
vars == <<sname, md, args>>
None == <<>>
Init == sname \in DOMAIN StmtTable /\ md \in ModesFor(sname) \cup SweepModesFor(sname) /\ args = None
Next == /\ args = None
        /\ args' \in IF md.sweep THEN StrSweep(sname) ELSE
                   {al \in ArgLists(sname) :
                        \* the float sweeps and the boundary integers need only one mode each (the other modes use the rest)
                        (Len(al) = 1 /\ al[1].k \in {"flt", "int"} /\ ~(md.cs = Id /\ ~md.pcodd) /\ ~(StmtTable[sname].fam = "moto" /\ md.lg = 1 /\ Level >= 2))
                           => al[1] \in Small \cup {FltD(0, 3, 0 - 1), FltD(0, 1, 0), FltD(1, 5, 0 - 2)}}
        /\ UNCHANGED <<sname, md>>
Spec == Init /\ [][Next]_vars

St == StmtTable[sname]
Vals == [i \in 1..Len(args) |-> ArgVal(args[i])]
L == IF md.cs2 = <<>> THEN LayoutAlts(sname, Vals, md) ELSE LayoutTwice(sname, Vals, md, md.cs2)
Big == IF St.order = "mode" THEN md.big ELSE St.order = "big"
Plain == St.fam \notin {"packed", "avrdata"}

(* ---- laws ----------------------------------------------------------------------------------------------------- *)
\* the documented range as an interval, independent of the shift formulation in InRange
Lower(w) == Neg(Shl(One, 8 * w - 1))
Upper(w) == Sub(Shl(One, 8 * w), One)
RangeRuleIsTheInterval ==
  (args # None /\ Plain /\ Len(args) = 1 /\ args[1].k = "int" /\ "rep" \notin DOMAIN args[1] /\ St.ty \in {"int", "both"} /\ St.w < 8) =>
     LET v == Vals[1].v IN
     /\ InRange(v, St.w) <=> (~LtS(v, Lower(St.w)) /\ ~LtS(Upper(St.w), v))
     /\ (L.k = "error") <=> ~InRange(v, St.w)

RECURSIVE BytesToLimbsBE(_, _)
BytesToLimbsBE(bs, acc) == IF bs = <<>> THEN acc ELSE BytesToLimbsBE(Tail(bs), Add(Shl(acc, 8), FromNat(Head(bs))))
IntegerBytesDecodeBack ==
  (args # None /\ Plain /\ Len(args) = 1 /\ args[1].k = "int" /\ "rep" \notin DOMAIN args[1] /\ St.ty \in {"int", "both"} /\ L.k = "data"
     /\ St.fam # "ti") =>
     LET be == IF Big THEN L.b ELSE Reverse(L.b)
         v == Vals[1].v
         mask == IF St.w >= 8 THEN MinusOne ELSE Upper(St.w)
     IN /\ Len(L.b) = St.w
        /\ BytesToLimbsBE(be, Zero) = And(v, mask)

LittleIsReversedBig ==
  (args # None /\ St.order = "mode" /\ Len(args) = 1 /\ args[1].k \in {"int", "flt"} /\ L.k = "data") =>
     Layout(sname, Vals, [md EXCEPT !.big = ~md.big]).b = Reverse(L.b)

RECURSIVE CountElems(_)
CountElems(a) == (IF "rep" \in DOMAIN a THEN a.rep ELSE 1) *
                 (IF a.k = "dup" THEN a.n * (LET RECURSIVE S(_) S(xs) == IF xs = <<>> THEN 0 ELSE CountElems(Head(xs)) + S(Tail(xs)) IN S(a.args))
                  ELSE IF a.k = "str" /\ ~(a.sq /\ Len(a.cs) \in 1..4 /\ Len(a.cs) <= St.w) THEN Len(a.cs) ELSE 1)
RECURSIVE SumElems(_)
SumElems(as) == IF as = <<>> THEN 0 ELSE CountElems(Head(as)) + SumElems(Tail(as))
LengthIsElementsTimesWidth ==
  (args # None /\ Plain /\ L.k \in {"data", "reserve"}) =>
     LET unit == IF St.fam = "ti" /\ St.w = 1 THEN 2 ELSE St.w
         n == SumElems(Vals) * unit * (IF md.cs2 = <<>> THEN 1 ELSE 2)     \* assembled twice around a CHARSET change
     IN IF L.k = "data" THEN Len(L.b) = n ELSE L.n = n

PaddingRule ==
  (args # None /\ Plain /\ L.k \in {"data", "reserve"}) => (L.pad = 1 <=> (md.padding /\ md.pcodd /\ St.w >= 2 /\ St.fam = "moto"))

RECURSIVE Kinds(_)
Kinds(as) == IF as = <<>> THEN {} ELSE (IF Head(as).k = "dup" THEN Kinds(Head(as).args) ELSE {Head(as).k = "res"}) \cup Kinds(Tail(as))
MixingIsAnError == (args # None /\ Kinds(Vals) = {TRUE, FALSE}) => L.k \in {"error", "unspec"}

(* ---- packed layouts --------------------------------------------------------------------------------------------------- *)
RECURSIVE NElems(_)
NElems(as) == IF as = <<>> THEN 0
              ELSE (IF Head(as).k = "dup" THEN Head(as).n * NElems(Head(as).args)
                    ELSE IF Head(as).k = "str" /\ ~(Head(as).sq /\ Len(Head(as).cs) = 1) THEN Len(Head(as).cs) ELSE 1) + NElems(Tail(as))
\* "advance the address by the documented amount": ceil(elements / elements-per-unit) units, whatever the DUP structure
PackedAdvance ==
  (args # None /\ St.fam = "packed" /\ md.cs2 = <<>> /\ L.k \in {"data", "reserve"}) =>
     LET E == (8 * St.unit) \div St.ebits
         units == (NElems(Vals) + E - 1) \div E
     IN IF L.k = "data" THEN Len(L.b) = units * St.unit ELSE L.n = units * St.unit
\* element i sits in unit i \div E at bit position ebits * (i % E), least significant first
PackedPositions ==
  (args # None /\ St.fam = "packed" /\ md.cs2 = <<>> /\ L.k = "data") =>
     LET es == PElems(St, Vals, md)
         E == (8 * St.unit) \div St.ebits
         unitval(u) == IF St.unit = 1 THEN L.b[u + 1] ELSE L.b[2 * u + 1] + 256 * L.b[2 * u + 2]
     IN \A i \in 0..(Len(es) - 1) : (unitval(i \div E) \div Pow2(St.ebits * (i % E))) % Pow2(St.ebits) = es[i + 1]
\* AVR DATA keeps every byte: the string characters appear in order, none is lost
RECURSIVE AvrChars(_)
AvrChars(as) == IF as = <<>> THEN <<>> ELSE (IF Head(as).k = "str" THEN MapStr(md.cs, Head(as).cs) ELSE <<>>) \o AvrChars(Tail(as))
RECURSIVE IsSubseq(_, _)
IsSubseq(x, y) == IF x = <<>> THEN TRUE ELSE IF y = <<>> THEN FALSE
                  ELSE IF Head(x) = Head(y) THEN IsSubseq(Tail(x), Tail(y)) ELSE IsSubseq(x, Tail(y))
AvrDataKeepsEveryCharacter ==
  (args # None /\ St.fam = "avrdata" /\ md.cs2 = <<>> /\ L.k = "data") => Len(L.b) % 2 = 0 /\ IsSubseq(AvrChars(Vals), L.b)

(* ---- strings, CHARSET and repetition ------------------------------------------------------------------------------ *)
\* the lazy lookup used by Layout is the function value
LookupIsTheTable == args # None /\ md.sweep => \A c \in {65, 66, 88, 89, 90, 97, 98, 99, 100, 49, 200} : Table(md.cs)[c] = MapChar(md.cs, c)
\* CHARSET statements assign, they do not compose; a plain CHARSET restores the identity
TableFacts ==
  /\ Table(Shift)[65] = 66 /\ Table(Shift)[89] = 90 /\ Table(Shift)[90] = 90 /\ Table(Twice) = Table(Shift)
  /\ Table(Swap)[97] = 98 /\ Table(Swap)[98] = 97 /\ Table(SetReset) = IdTable /\ Table(ResetThenSwap) = Table(Swap)
  /\ Table(Const)[97] = 88 /\ Table(Const)[99] = 88 /\ Table(Const)[100] = 100

\* what one copy of a string argument lays down, said directly: per character Table[c], zero-extended to the element width
ElemOf(code, w, big) == LET be == [i \in 1..w |-> IF i = w THEN code ELSE 0] IN IF big THEN be ELSE Reverse(be)
RECURSIVE CharElems(_, _, _)
CharElems(cs, w, big) == IF cs = <<>> THEN <<>> ELSE ElemOf(Table(md.cs)[Head(cs)], w, big) \o CharElems(Tail(cs), w, big)
ElemsOfInt(v) == LET be == [i \in 1..St.w |-> IF i = St.w THEN v % 256 ELSE IF i = St.w - 1 THEN v \div 256 ELSE 0]
                 IN IF Big THEN be ELSE Reverse(be)
OnceTranslated(a) ==
  IF a.sq /\ Len(a.cs) \in 1..4 /\ Len(a.cs) <= St.w /\ St.ty # "str"
  THEN LET RECURSIVE V(_, _) V(cs, acc) == IF cs = <<>> THEN acc ELSE V(Tail(cs), acc * 256 + Table(md.cs)[Head(cs)])
           v == V(a.cs, 0)                                  \* multi-character constant, at most 2^32 - 1 ... kept to w <= 2 here
       IN IF St.w = 1 THEN <<v>> ELSE IF Len(a.cs) <= 2 THEN ElemsOfInt(v) ELSE <<>>
  ELSE CharElems(a.cs, St.w, Big)
\* every copy is the string translated exactly once
EveryCopyTranslatedOnce ==
  (args # None /\ Plain /\ md.sweep /\ md.cs2 = <<>> /\ Len(args) = 1 /\ L.k = "data") =>
     LET a == args[1] IN
     IF a.k = "str" /\ ~(a.sq /\ Len(a.cs) > 2 /\ Len(a.cs) <= St.w)
     THEN L.b = RepeatSeq(OnceTranslated(a), IF "rep" \in DOMAIN a THEN a.rep ELSE 1)
     ELSE IF a.k = "dup" /\ Len(a.args) = 1 /\ a.args[1].k = "str" /\ ~(a.args[1].sq /\ Len(a.args[1].cs) > 2 /\ Len(a.args[1].cs) <= St.w)
     THEN L.b = RepeatSeq(OnceTranslated(a.args[1]), a.n)
     ELSE TRUE
\* assembled twice with CHARSET statements in between = the two layouts under the two tables, one after the other
TwiceIsBothTables ==
  (args # None /\ md.cs2 # <<>> /\ L.k = "data") =>
     L.b = Layout(sname, Vals, md).b \o Layout(sname, Vals, [md EXCEPT !.cs = md.cs \o md.cs2]).b

\* single-quoted strings of every length, said directly: up to min(4, w) characters one element holding the characters,
\* first one most significant; more than w characters one element per character; 5..8 characters in a 64-bit element
\* either of the two; '' an error or nothing at all
MultiCharReadings ==
  (args # None /\ Plain /\ md.cs2 = <<>> /\ Len(args) = 1 /\ args[1].k = "str" /\ args[1].sq /\ "rep" \notin DOMAIN args[1]
     /\ St.ty \in {"int", "both"} /\ St.fam # "ti" /\ ~(St.pads /\ md.padding /\ md.pcodd)) =>
     LET cs == args[1].cs
         n == Len(cs)
         codes == [i \in 1..n |-> Table(md.cs)[cs[i]]]
         one == [i \in 1..St.w |-> IF i <= St.w - n THEN 0 ELSE codes[i - (St.w - n)]]      \* big endian element
         ord(be) == IF Big THEN be ELSE Reverse(be)
     IN CASE n = 0 -> L.k = "alt" /\ L.alts[1].k = "error" /\ L.alts[2].k = "data" /\ L.alts[2].b = <<>>
          [] n >= 1 /\ n <= St.w /\ n <= 4 -> L.k = "data" /\ L.b = ord(one)
          [] n >= 5 /\ n <= St.w -> L.k = "alt" /\ L.alts[1].k = "data" /\ L.alts[1].b = ord(one)
                                    /\ L.alts[2].k = "data" /\ L.alts[2].b = CharElems(cs, St.w, Big)
          [] OTHER -> L.k = "data" /\ L.b = CharElems(cs, St.w, Big)

FloatLayoutIsTheEncoder ==
  (args # None /\ Len(args) = 1 /\ args[1].k = "flt" /\ L.k = "data" /\ St.fmt = "half") =>
     LET be == IF Big THEN L.b ELSE Reverse(L.b) IN be[1] * 256 + be[2] = HalfBits(Vals[1].v)

Emit == args # None =>
  PrintT(<<"OUT", ToJson([stmt |-> sname, fam |-> St.fam, w |-> St.w, args |-> args, md |-> md, o |-> L, dev |-> Devs(sname, Vals, md)])>>)
ASSUME TableFacts
=============================================================================
