CONSTANTS Fixed = {"EmptyBodyPop", "IrpcEmptyOnce", "TokenStraddle", "ShiftExcess", "IrpPosNext", "IrpDoubleCleanup"}
          HasAttrs = FALSE MaxNum = 99
          MaxD = 2 Cnts = {0, 2} NPre = 1 NPost = 1 Rich = FALSE Focus = TRUE
SPECIFICATION Spec
INVARIANTS Transparent Private Balanced PosAgree NoDevWhenFixed TagsOK
CHECK_DEADLOCK FALSE
