\* Reference configuration (quick tier, repaired design).  checks/c11.py generates its configurations per run:
\*   quick    MaxD = 2  Cnts = {0, 2}  Rich = FALSE  Focus = TRUE   once with Fixed = all six names, once with Fixed = {}
\*            (Fixed = {}: INVARIANTS TransparentUnlessDev Private Balanced PosAgree TagsOK)
\*   thorough MaxD = 3 (Fixed = all, 87 k programs) / MaxD = 2, Rich = TRUE (Fixed = {}, 16 k programs)
\* MaxD   nesting depth of constructs          Cnts   repetition counts / number of IRP arguments / IRPC characters
\* NPre/NPost  statements before / after the nested construct in a body     Rich   IRPN, GLOBALSYMBOLS, keyword / excess
\* arguments, expression atoms            Focus  add the focused families (MacroProc_MC!Small)
CONSTANTS Fixed = {"EmptyBodyPop", "IrpcEmptyOnce", "TokenStraddle", "ShiftExcess", "IrpPosNext", "IrpDoubleCleanup", "AllArgsLeadingEmpty"}
          HasAttrs = FALSE MaxNum = 99
          MaxD = 2 Cnts = {0, 2} NPre = 1 NPost = 1 Rich = FALSE Focus = TRUE
SPECIFICATION Spec
INVARIANTS Transparent Private Balanced PosAgree NoDevWhenFixed TagsOK
CHECK_DEADLOCK FALSE
