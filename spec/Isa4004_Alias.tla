----------------------------- MODULE Isa4004_Alias -----------------------------
(* Register symbols on the 4004 / 4040 (doc/assembler-usage.md "Register Symbols": valid for 4004/4040).  Two  *)
(* size classes: index registers (R0..RF, R10..R15) and register pairs (R0R1.., R0P..); a symbol of one class   *)
(* used where the instruction takes the other is no operand of the instruction and must be rejected             *)
(* (FieldsComplete: Reg4 / RegP list every spelling).  The JCN condition letters are no registers.             *)
EXTENDS Isa4004_Gen
CONSTANTS ScenMode
VARIABLES prog, sym, plan
RegClass(fld) == IF fld = Reg4 THEN "r" ELSE IF fld = RegP THEN "rp" ELSE ""
VarDef == "SET"
FieldsComplete == TRUE
Tab == INSTANCE IsaAliasTab
LitTab == Tab!MkLitTab
Lits == {LitTab[t].l : t \in 1..Len(LitTab)}
FldTab == Tab!MkFldTab
FormTab == Tab!MkFormTab
INSTANCE IsaAlias
ASSUME LitsSane
=============================================================================
