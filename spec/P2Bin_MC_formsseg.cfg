\* header forms x families, thorough (b): the five families whose granularity depends on the segment; <= 3 records each
\* short CODE / long CODE / long DATA / long IO at 0 or 3 x automatic / -r 0-5 x -segment code / data / io x lanes ALL ODD WORD1
CONSTANTS
  Dev = {}
  MaxRecs = 3
  Starts = {0, 3}
  UnitLens = {2}
  GranSet = {}
  EntryAddrs = {}
  Offsets = {}
  FillSet = {255}
  SumOpts = {FALSE}
  SegOpts = {1, 2, 7}
  CpuSegs <- CS_FormsSeg
  Ranges <- R_Forms
  LaneSet <- L_Forms
  FiltSet <- F_None
  ESet <- E_None
  HdrSet <- H_None
SPECIFICATION FormSpec
INVARIANTS Conforms StepRunAgrees ChunkListOK WindowStable MeasureSound UsedIsCoverage ReadAgrees
CHECK_DEADLOCK FALSE
