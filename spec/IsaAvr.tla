------------------------------- MODULE IsaAvr -------------------------------
(* Atmel AVR 8-bit instruction set, written from the "AVR Instruction Set" manual (opcode bit patterns    *)
(* per instruction).  Two device classes are modelled, each with two memory sizes (DEVICE dimension):    *)
(*   AT90S8515  classic core: no MUL*, MOVW, JMP/CALL, LPM Rd, ELPM, SPM, BREAK; 4 K words, SRAM ..025FH   *)
(*   AT90S2313  the same core with 1 K words of flash and 128 bytes of SRAM (..00DFH)                      *)
(*   ATMEGA128  enhanced core with 64 K words of flash: JMP/CALL (22-bit field, device range 0..65535)   *)
(*   ATMEGA16   enhanced core with 8 K words: JMP/CALL range 0..8191, no ELPM (flash <= 64 K bytes);       *)
(*              SRAM ..045FH                                                                            *)
(* The devices of a class have the same instruction words; what changes with the device is the range of   *)
(* program addresses (JMP / CALL operand, RJMP / RCALL / BRxx targets) and of data addresses (LDS / STS).   *)
(* One unit = one 16-bit program word; program addresses are word addresses.                           *)
(*   two-register ops  oooo oord dddd rrrr      (r: bit 9 + bits 3..0, d: bits 8..4)                    *)
(*   immediate ops     oooo KKKK dddd KKKK      (d = R16..R31)                                          *)
(*   one-register ops  1001 010d dddd oooo      PUSH/POP 1001 00xd dddd 1111                            *)
(*   ADIW/SBIW         1001 011o KKdd KKKK      (d = R24,R26,R28,R30; K = 0..63)                        *)
(*   RJMP/RCALL        110o kkkk kkkk kkkk      (signed word distance from pc + 1)                      *)
(*   BRBS/BRBC         1111 0okk kkkk ksss      (signed 7-bit word distance from pc + 1)                *)
(*   JMP/CALL          1001 010k kkkk 11ok  kkkk kkkk kkkk kkkk                                         *)
(*   SBRC/SBRS 1111 11or rrrr 0bbb   BST/BLD 1111 10od dddd 0bbb   SBI/CBI/SBIC/SBIS 1001 10oo AAAA Abbb  *)
(*   IN 1011 0AAd dddd AAAA   OUT 1011 1AAr rrrr AAAA   LDS/STS 1001 00od dddd 0000 + 16-bit address     *)
(*   LD/ST with X, X+, -X, Y+, -Y, Z+, -Z;  LDD/STD 10q0 qqod dddd yqqq (y = 1: Y, 0: Z; q = 0..63)      *)
(* Not judged: CBR (operand is complemented by the assembler), register aliases XL..ZH, device-specific  *)
(* SFR names, the byte-addressed code segment option of the assembler.                                 *)
EXTENDS IsaCommon

\* program memory: AT90S2313 1 K words, AT90S8515 4 K, ATMEGA16 8 K, ATMEGA128 64 K words
AddrMaxOf(cpu) == CASE cpu = "ATMEGA128" -> 65535 [] cpu = "ATMEGA16" -> 8191 [] cpu = "AT90S2313" -> 1023 [] OTHER -> 4095
UnitBits == 16
\* (the added devices: one address in the last two words of the flash, so that the small distances -2..2 of the case
\* generator straddle the END OF THE DEVICE: last word legal, the word behind it must be rejected)
BranchPCsOf(cpu) == CASE cpu = "ATMEGA128" -> {3000, 40000} [] cpu = "ATMEGA16" -> {3000, 8190}
                      [] cpu = "AT90S2313" -> {300, 1022} [] OTHER -> {1000, 2100}

Classic == {"AT90S8515", "AT90S2313"}
Mega == {"ATMEGA128", "ATMEGA16"}
Both == Classic \cup Mega

RegSeq(lo, n, step, code0) == [i \in 1..n |-> <<"R" \o ToString(lo + (i - 1) * step), code0 + (i - 1)>>]
R32   == FEnum(RegSeq(0, 32, 1, 0), 5)
Rhi   == FEnum(RegSeq(16, 16, 1, 0), 4)
R1623 == FEnum(RegSeq(16, 8, 1, 0), 3)
Reven == FEnum(RegSeq(0, 16, 2, 0), 4)
Rw    == FEnum(RegSeq(24, 4, 2, 0), 2)

Base(id, mn, cpus, args, flds, enc) ==
  [id |-> id, mn |-> mn, cpus |-> cpus, args |-> args, flds |-> flds, enc |-> enc, flow |-> "next", tf |-> 0,
   alias |-> FALSE]
Fixed(mn, code, cpus) == Base(mn, mn, cpus, <<>>, <<>>, <<U(code, <<>>)>>)
FixedAlias(mn, code) == [Fixed(mn, code, Both) EXCEPT !.alias = TRUE]

\* field f as destination (bits 8..4) / as source (bit 9, bits 3..0)
DstP(f) == <<P(f, 0, 5, 4)>>
SrcP(f) == <<P(f, 0, 4, 0), P(f, 4, 1, 9)>>

TwoReg(mn, code, cpus) == Base(mn, mn, cpus, <<Op(1), Op(2)>>, <<R32, R32>>, <<U(code, DstP(1) \o SrcP(2))>>)
SameReg(mn, code) == [Base(mn, mn, Both, <<Op(1)>>, <<R32>>, <<U(code, DstP(1) \o SrcP(1))>>) EXCEPT !.alias = TRUE]
ImmOp(id, mn, code) ==
  Base(id, mn, Both, <<Op(1), Op(2)>>, <<Rhi, FUns(8)>>, <<U(code, <<P(1, 0, 4, 4), P(2, 0, 4, 0), P(2, 4, 4, 8)>>)>>)
OneReg(mn, code) == Base(mn, mn, Both, <<Op(1)>>, <<R32>>, <<U(code, DstP(1))>>)
WordImm(mn, code) ==
  Base(mn, mn, Both, <<Op(1), Op(2)>>, <<Rw, FRange(0, 63, 6)>>, <<U(code, <<P(1, 0, 2, 4), P(2, 0, 4, 0), P(2, 4, 2, 6)>>)>>)
RelJmp(mn, code, flow) ==
  [Base(mn, mn, Both, <<Op(1)>>, <<FRel(12, 1)>>, <<U(code, <<P(1, 0, 12, 0)>>)>>) EXCEPT !.flow = flow, !.tf = 1]
CondBr(mn, code) ==
  [Base(mn, mn, Both, <<Op(1), Op(2)>>, <<FAddr(3), FRel(7, 1)>>, <<U(code, <<P(1, 0, 3, 0), P(2, 0, 7, 3)>>)>>)
     EXCEPT !.flow = "cond", !.tf = 2]
CondAlias(mn, code) ==
  [Base(mn, mn, Both, <<Op(1)>>, <<FRel(7, 1)>>, <<U(code, <<P(1, 0, 7, 3)>>)>>) EXCEPT !.flow = "cond", !.tf = 1, !.alias = TRUE]
\* one form per device (ids "JMP" / "CALL" for the ATMEGA128): the operand must lie inside the device's flash, larger
\* values that fit the 22-bit field are convention zone
LongJmpOf(cpu, mn, code, flow) ==
  [Base(IF cpu = "ATMEGA128" THEN mn ELSE mn \o " " \o cpu, mn, {cpu}, <<Op(1)>>, <<FNum(0, AddrMaxOf(cpu), 0, 4194303, 22, FALSE)>>,
        <<U(code, <<P(1, 16, 1, 0), P(1, 17, 5, 4)>>), U(0, <<P(1, 0, 16, 0)>>)>>) EXCEPT !.flow = flow, !.tf = 1]
LongJmp(mn, code, flow) == {LongJmpOf(cpu, mn, code, flow) : cpu \in Mega}
RegBit(mn, code) == Base(mn, mn, Both, <<Op(1), Op(2)>>, <<R32, FAddr(3)>>, <<U(code, <<P(1, 0, 5, 4), P(2, 0, 3, 0)>>)>>)
IoBit(mn, code) == Base(mn, mn, Both, <<Op(1), Op(2)>>, <<FAddr(5), FAddr(3)>>, <<U(code, <<P(1, 0, 5, 3), P(2, 0, 3, 0)>>)>>)
FlagOp(mn, code) == Base(mn, mn, Both, <<Op(1)>>, <<FAddr(3)>>, <<U(code, <<P(1, 0, 3, 4)>>)>>)
IoP(f) == <<P(f, 0, 4, 0), P(f, 4, 2, 9)>>
\* LD / ST with pointer register: second (first) argument is literal
LdPtr(ptr, code, cpus) == Base("LD " \o ptr, "LD", cpus, <<Op(1), Lit(ptr)>>, <<R32>>, <<U(code, DstP(1))>>)
StPtr(ptr, code, cpus) == Base("ST " \o ptr, "ST", cpus, <<Lit(ptr), Op(1)>>, <<R32>>, <<U(code, DstP(1))>>)
QP(f) == <<P(f, 0, 3, 0), P(f, 3, 2, 10), P(f, 5, 1, 13)>>
Ldd(ptr, code) == Base("LDD " \o ptr, "LDD", Both, <<Op(1), Arg(ptr \o "+", 2, "")>>, <<R32, FRange(0, 63, 6)>>,
                       <<U(code, DstP(1) \o QP(2))>>)
Std(ptr, code) == Base("STD " \o ptr, "STD", Both, <<Arg(ptr \o "+", 1, ""), Op(2)>>, <<FRange(0, 63, 6), R32>>,
                       <<U(code, QP(1) \o DstP(2))>>)
\* last data address: 32 registers + 64 (ATMEGA128: 224) I/O registers + SRAM
DataMaxOf(cpu) == CASE cpu = "ATMEGA128" -> 4351 [] cpu = "ATMEGA16" -> 1119 [] cpu = "AT90S2313" -> 223 [] OTHER -> 607
DataAdr(cpu) == FNum(0, DataMaxOf(cpu), -32768, 65535, 16, FALSE)
Lds(cpu) == Base("LDS " \o cpu, "LDS", {cpu}, <<Op(1), Op(2)>>, <<R32, DataAdr(cpu)>>,
                 <<U(36864, DstP(1)), U(0, <<P(2, 0, 16, 0)>>)>>)
Sts(cpu) == Base("STS " \o cpu, "STS", {cpu}, <<Op(1), Op(2)>>, <<DataAdr(cpu), R32>>,
                 <<U(37376, DstP(2)), U(0, <<P(1, 0, 16, 0)>>)>>)

BrAliases == << <<"BRCS", 0, 1>>, <<"BRLO", 0, 1>>, <<"BREQ", 1, 1>>, <<"BRMI", 2, 1>>, <<"BRVS", 3, 1>>, <<"BRLT", 4, 1>>,
                <<"BRHS", 5, 1>>, <<"BRTS", 6, 1>>, <<"BRIE", 7, 1>>,
                <<"BRCC", 0, 0>>, <<"BRSH", 0, 0>>, <<"BRNE", 1, 0>>, <<"BRPL", 2, 0>>, <<"BRVC", 3, 0>>, <<"BRGE", 4, 0>>,
                <<"BRHC", 5, 0>>, <<"BRTC", 6, 0>>, <<"BRID", 7, 0>> >>
FlagAliases == << <<"SEC", 0>>, <<"SEZ", 1>>, <<"SEN", 2>>, <<"SEV", 3>>, <<"SES", 4>>, <<"SEH", 5>>, <<"SET", 6>>, <<"SEI", 7>> >>
ClrAliases  == << <<"CLC", 0>>, <<"CLZ", 1>>, <<"CLN", 2>>, <<"CLV", 3>>, <<"CLS", 4>>, <<"CLH", 5>>, <<"CLT", 6>>, <<"CLI", 7>> >>

Forms ==
  { TwoReg("ADD", 3072, Both), TwoReg("ADC", 7168, Both), TwoReg("SUB", 6144, Both), TwoReg("SBC", 2048, Both),
    TwoReg("AND", 8192, Both), TwoReg("EOR", 9216, Both), TwoReg("OR", 10240, Both), TwoReg("MOV", 11264, Both),
    TwoReg("CP", 5120, Both), TwoReg("CPC", 1024, Both), TwoReg("CPSE", 4096, Both), TwoReg("MUL", 39936, Mega),
    SameReg("LSL", 3072), SameReg("ROL", 7168), SameReg("TST", 8192), SameReg("CLR", 9216),
    ImmOp("CPI", "CPI", 12288), ImmOp("SBCI", "SBCI", 16384), ImmOp("SUBI", "SUBI", 20480), ImmOp("ORI", "ORI", 24576),
    ImmOp("ANDI", "ANDI", 28672), ImmOp("LDI", "LDI", 57344),
    [ImmOp("SBR", "SBR", 24576) EXCEPT !.alias = TRUE],
    [Base("SER", "SER", Both, <<Op(1)>>, <<Rhi>>, <<U(61199, <<P(1, 0, 4, 4)>>)>>) EXCEPT !.alias = TRUE],
    OneReg("COM", 37888), OneReg("NEG", 37889), OneReg("SWAP", 37890), OneReg("INC", 37891), OneReg("ASR", 37893),
    OneReg("LSR", 37894), OneReg("ROR", 37895), OneReg("DEC", 37898), OneReg("PUSH", 37391), OneReg("POP", 36879),
    WordImm("ADIW", 38400), WordImm("SBIW", 38656),
    RelJmp("RJMP", 49152, "jump"), RelJmp("RCALL", 53248, "call"),
    CondBr("BRBS", 61440), CondBr("BRBC", 62464),
    [Fixed("IJMP", 37897, Both) EXCEPT !.flow = "stop"], Fixed("ICALL", 38153, Both),
    [Fixed("RET", 38152, Both) EXCEPT !.flow = "ret"], [Fixed("RETI", 38168, Both) EXCEPT !.flow = "ret"],
    RegBit("SBRC", 64512), RegBit("SBRS", 65024), RegBit("BST", 64000), RegBit("BLD", 63488),
    IoBit("CBI", 38912), IoBit("SBIC", 39168), IoBit("SBI", 39424), IoBit("SBIS", 39680),
    FlagOp("BSET", 37896), FlagOp("BCLR", 38024),
    Base("IN", "IN", Both, <<Op(1), Op(2)>>, <<R32, FAddr(6)>>, <<U(45056, DstP(1) \o IoP(2))>>),
    Base("OUT", "OUT", Both, <<Op(1), Op(2)>>, <<FAddr(6), R32>>, <<U(47104, IoP(1) \o DstP(2))>>),
    LdPtr("X", 36876, Both), LdPtr("X+", 36877, Both), LdPtr("-X", 36878, Both),
    LdPtr("Y+", 36873, Both), LdPtr("-Y", 36874, Both), LdPtr("Z+", 36865, Both), LdPtr("-Z", 36866, Both),
    [LdPtr("Y", 32776, Both) EXCEPT !.alias = TRUE], [LdPtr("Z", 32768, Both) EXCEPT !.alias = TRUE],
    StPtr("X", 37388, Both), StPtr("X+", 37389, Both), StPtr("-X", 37390, Both),
    StPtr("Y+", 37385, Both), StPtr("-Y", 37386, Both), StPtr("Z+", 37377, Both), StPtr("-Z", 37378, Both),
    [StPtr("Y", 33288, Both) EXCEPT !.alias = TRUE], [StPtr("Z", 33280, Both) EXCEPT !.alias = TRUE],
    Ldd("Y", 32776), Ldd("Z", 32768), Std("Y", 33288), Std("Z", 33280),
    Fixed("LPM", 38344, Both), Fixed("ELPM", 38360, {"ATMEGA128"}),
    Base("LPM Z", "LPM", Mega, <<Op(1), Lit("Z")>>, <<R32>>, <<U(36868, DstP(1))>>),
    Base("LPM Z+", "LPM", Mega, <<Op(1), Lit("Z+")>>, <<R32>>, <<U(36869, DstP(1))>>),
    Base("MOVW", "MOVW", Mega, <<Op(1), Op(2)>>, <<Reven, Reven>>, <<U(256, <<P(1, 0, 4, 4), P(2, 0, 4, 0)>>)>>),
    Base("MULS", "MULS", Mega, <<Op(1), Op(2)>>, <<Rhi, Rhi>>, <<U(512, <<P(1, 0, 4, 4), P(2, 0, 4, 0)>>)>>),
    Base("MULSU", "MULSU", Mega, <<Op(1), Op(2)>>, <<R1623, R1623>>, <<U(768, <<P(1, 0, 3, 4), P(2, 0, 3, 0)>>)>>),
    Base("FMUL", "FMUL", Mega, <<Op(1), Op(2)>>, <<R1623, R1623>>, <<U(776, <<P(1, 0, 3, 4), P(2, 0, 3, 0)>>)>>),
    Base("FMULS", "FMULS", Mega, <<Op(1), Op(2)>>, <<R1623, R1623>>, <<U(896, <<P(1, 0, 3, 4), P(2, 0, 3, 0)>>)>>),
    Base("FMULSU", "FMULSU", Mega, <<Op(1), Op(2)>>, <<R1623, R1623>>, <<U(904, <<P(1, 0, 3, 4), P(2, 0, 3, 0)>>)>>),
    Fixed("NOP", 0, Both), Fixed("SLEEP", 38280, Both), Fixed("WDR", 38312, Both), Fixed("BREAK", 38296, Mega),
    Fixed("SPM", 38376, Mega) }
  \cup LongJmp("JMP", 37900, "jump") \cup LongJmp("CALL", 37902, "call")
  \cup {Lds(cpu) : cpu \in Both} \cup {Sts(cpu) : cpu \in Both}
  \cup {CondAlias(BrAliases[i][1], (IF BrAliases[i][3] = 1 THEN 61440 ELSE 62464) + BrAliases[i][2]) : i \in 1..Len(BrAliases)}
  \cup {FixedAlias(FlagAliases[i][1], 37896 + 16 * FlagAliases[i][2]) : i \in 1..8}
  \cup {FixedAlias(ClrAliases[i][1], 38024 + 16 * ClrAliases[i][2]) : i \in 1..8}

After(cpu, prev, form, units) == units
Skipped(cpu, form, ops) == FALSE
Unjudged(cpu, form, ops) == FALSE
=============================================================================
