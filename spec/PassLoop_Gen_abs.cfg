\* (M)+(G) 6809/68HC11/6502 class, every program <= 4 items: check and export
CONSTANTS
  VarMode = "abs8"
  VarShort = 2
  VarLong = 3
  Padding = FALSE
  RelFpuOK = FALSE
  RefKinds = {"abs", "var", "rel"}
  Sects = {}
  Quals = {8}
  Alias = {}
  CaseSens = FALSE
  Pages = {}
  PageReset = TRUE
  SelfKinds = {}
  Labels = {"la", "lb"}
  MaxItems = 4
  Fills = {1, 126}
  AbsWidths = {2}
  EquOffs = {1}
  Orgs = {0, 250}
  Fixed = TRUE
  ThrowErrors = FALSE
  ThrowMaxPass = 3
  WithExtra = TRUE
  AllowIllFormed = FALSE
  Complete = FALSE
SPECIFICATION GSpec
CHECK_DEADLOCK FALSE
INVARIANTS TypeOK Fixpoint ExtraPassIsStutter NoSpuriousError CleanMeansSolvable IllFormedRejected
PROPERTY Termination
ACTION_CONSTRAINT OnDone
