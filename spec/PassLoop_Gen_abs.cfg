\* export: 6809/68HC11/6502 class, every program <= 4 items
CONSTANTS
  VarMode = "abs8"
  VarShort = 2
  VarLong = 3
  Padding = FALSE
  RelFpuOK = FALSE
  Labels = {"la", "lb"}
  MaxItems = 4
  Fills = {1, 2, 126}
  AbsWidths = {2}
  EquOffs = {1}
  Orgs = {0, 250}
  Fixed = TRUE
  ThrowErrors = FALSE
  WithExtra = FALSE
  AllowIllFormed = FALSE
  Complete = FALSE
INIT GInit
NEXT GNext
CHECK_DEADLOCK FALSE
ACTION_CONSTRAINT OnDone
