\* PROBE (not a deviation of the pinned tree): the source skip at the window start counted in units of MaxGran.  TLC must
\* report ConformsMixed violated -- and Conforms (uniform granularity) holds for the whole space: the probe lives only where
\* the selected records differ in granularity and the window starts strictly inside a record of the smaller unit
CONSTANTS
  Dev = {"skip_maxgran"}
  MaxRecs = 2
  Starts = {0, 1, 3, 6}
  UnitLens = {4}
  GranSet = {1, 2}
  EntryAddrs = {}
  Offsets = {}
  FillSet = {255}
  SumOpts = {FALSE}
  SegOpts = {1}
  CpuSegs <- CS_One
  Ranges <- R_Mixed
  LaneSet <- L_Mixed
  FiltSet <- F_None
  ESet <- E_None
  HdrSet <- H_None
SPECIFICATION Spec
INVARIANTS Conforms ConformsMixed
CHECK_DEADLOCK FALSE
