---------------------------- MODULE CodeWriter_MC ----------------------------
(* Exhaustive check of the writer under every interleaving of the statements that reach it             *)
(* (as.c WriteCode): data, reservations, ORG, SEGMENT, CPU switches, word retraction, END.             *)
(* Second machine (SpecFam, CodeWriter_MCFam.cfg): the whole family of statements that change the      *)
(* OUTPUT CONTEXT (segment, CPU/granularity, load address) without being SEGMENT/ORG/CPU - RESTORE      *)
(* after SAVE, RORG, ALIGN (reserving and filling), the STRUCT ... ENDSTRUCT block, BINCLUDE, CPU with *)
(* the current target, SEGMENT with the current segment - each written like its handler: the handler  *)
(* sets ActPC / MomCPU / PCs and the DontPrint flag, as.c WriteCode turns DontPrint into NewRecord.    *)
(* OpenRecordTracksCounter is the record machine's inductive invariant: after EVERY statement the open *)
(* record's header names the current CPU, segment and granularity and start + length is the current   *)
(* load address, i.e. the statement that follows opens a new record exactly when segment, CPU,        *)
(* granularity or the address continuity changed.                                                     *)
EXTENDS CodeWriter, TLC
CONSTANTS MaxStmts, Segs, MaxN, MaxAddr, Cpus   \* Cpus: set of [id, gran] records

VARIABLES w, act, cpu, pc, emitted, nst, closed, entry, stk
vars == <<w, act, cpu, pc, emitted, nst, closed, entry, stk>>

Gran == cpu.gran
MCCpus == {[id |-> 1, gran |-> 1], [id |-> 2, gran |-> 2]}
C0 == CHOOSE c \in Cpus : \A d \in Cpus : c.id <= d.id

Init == /\ act = 1 /\ cpu = C0 /\ pc = [s \in Segs |-> 0]
        /\ w = OpenFile(C0.id, 1, C0.gran, 0)
        /\ emitted = {} /\ nst = 0 /\ closed = FALSE /\ entry = <<>> /\ stk = <<>>

Cells(k, n, g) == [j \in 1..(n * g) |-> [k |-> "d", id |-> <<k, j>>]]

\* data statement: CodeLen = n units, DontPrint = FALSE
Emit(n) ==
  /\ ~closed /\ nst < MaxStmts /\ pc[act] + n <= MaxAddr
  /\ LET k == nst + 1 IN
     /\ w' = WriteBytes(w, Cells(k, n, Gran), cpu.id, act, Gran, pc[act])
     /\ emitted' = emitted \cup {[seg |-> act, addr |-> pc[act] * Gran + j - 1, id |-> <<k, j>>] : j \in 1..(n * Gran)}
     /\ pc' = [pc EXCEPT ![act] = @ + n] /\ nst' = k
  /\ UNCHANGED <<act, cpu, closed, entry, stk>>

\* reservation (DS / RES ...): DontPrint = TRUE, CodeLen = n  => NewRecord(pc + n)
Reserve(n) ==
  /\ ~closed /\ nst < MaxStmts /\ pc[act] + n <= MaxAddr
  /\ w' = NewRecord(w, cpu.id, act, Gran, pc[act] + n)
  /\ pc' = [pc EXCEPT ![act] = @ + n] /\ nst' = nst + 1
  /\ UNCHANGED <<act, cpu, emitted, closed, entry, stk>>

\* ORG a: pc := a, then WriteCode with CodeLen = 0 and DontPrint = TRUE
Org(a) ==
  /\ ~closed /\ nst < MaxStmts
  /\ w' = NewRecord(w, cpu.id, act, Gran, a)
  /\ pc' = [pc EXCEPT ![act] = a] /\ nst' = nst + 1
  /\ UNCHANGED <<act, cpu, emitted, closed, entry, stk>>

Segment(s) ==
  /\ ~closed /\ nst < MaxStmts /\ s # act
  /\ w' = NewRecord(w, cpu.id, s, Gran, pc[s])
  /\ act' = s /\ nst' = nst + 1
  /\ UNCHANGED <<cpu, pc, emitted, closed, entry, stk>>

\* CPU switch (asmallg.c SetCPUCore): new header id / granularity, DontPrint = TRUE; the counters are kept
Cpu(c) ==
  /\ ~closed /\ nst < MaxStmts /\ c # cpu
  /\ w' = NewRecord(w, c.id, act, c.gran, pc[act])
  /\ cpu' = c /\ nst' = nst + 1
  /\ UNCHANGED <<act, pc, emitted, closed, entry, stk>>

\* RetractWords(n) directly after a data statement (parallel instructions): drops the last n units again
RetractLast(n) ==
  /\ ~closed /\ nst < MaxStmts /\ CanRetract(w, n * Gran) /\ pc[act] >= n
  /\ \E k \in 1..nst :
       LET mine == {e \in emitted : e.id[1] = k} IN
       /\ \A e \in emitted : e.id[1] <= k                       \* k is the most recent emitting statement
       /\ Cardinality(mine) >= n * Gran
       /\ \A e \in mine : e.seg = act
       /\ LET top == CHOOSE m \in {e.id[2] : e \in mine} : \A e \in mine : e.id[2] <= m
          IN emitted' = {e \in emitted : ~(e.id[1] = k /\ e.id[2] > top - n * Gran)}
  /\ w' = Retract(w, n * Gran)
  /\ pc' = [pc EXCEPT ![act] = @ - n] /\ nst' = nst + 1
  /\ UNCHANGED <<act, cpu, closed, entry, stk>>

End(e) ==
  /\ ~closed
  /\ w' = [w EXCEPT !.file = CloseFile(w, cpu.id, act, Gran, pc[act], e)]
  /\ entry' = e /\ closed' = TRUE
  /\ UNCHANGED <<act, cpu, pc, emitted, nst, stk>>

Next == \/ \E n \in 1..MaxN : Emit(n)
        \/ \E n \in 0..2 : Reserve(n)
        \/ \E a \in {0, 3, MaxAddr - 2} : Org(a)
        \/ \E s \in Segs : Segment(s)
        \/ \E c \in Cpus : Cpu(c)
        \/ \E n \in 1..2 : RetractLast(n)
        \/ \E e \in {<<>>, <<5>>} : End(e)
Spec == Init /\ [][Next]_vars

\* ---- the property -------------------------------------------------------------------------------
FileWellFormed == closed => WellFormed(w.file)
\* nothing lost, duplicated, reordered or shifted: the records' union is exactly what was handed to the writer
Conservation == closed => LET p == Parse(w.file) IN
                            /\ Image(p.recs) = emitted
                            /\ ImageSize(p.recs) = Cardinality(emitted)       \* no byte twice in the file
EntryKept == closed => Parse(w.file).entries = entry
\* each record's header describes the bytes in it
HeadersTruthful == closed => LET p == Parse(w.file) IN
   \A r \in 1..Len(p.recs) : \A c \in Cpus : p.recs[r].cpu = c.id => p.recs[r].gran = c.gran
\* the writer never lets the open record exceed the length field
LenFits == w.lenSoFar <= MaxRecLen
\* the buffer never reaches its capacity (memcpy into CodeBuffer stays in bounds)
BufInBounds == Len(w.buf) < BufSize
=============================================================================
