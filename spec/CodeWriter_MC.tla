---------------------------- MODULE CodeWriter_MC ----------------------------
(* Exhaustive check of the writer under every interleaving of the statements that reach it             *)
(* (as.c WriteCode): data, reservations, ORG, SEGMENT, CPU switches, word retraction, END.             *)
(* Second machine (SpecFam, CodeWriter_MCFam.cfg): the whole family of statements that change the      *)
(* OUTPUT CONTEXT (segment, CPU/granularity, load address) without being SEGMENT/ORG/CPU - RESTORE      *)
(* after SAVE, RORG, ALIGN (reserving and filling), the STRUCT ... ENDSTRUCT block, BINCLUDE, CPU with *)
(* the current target, SEGMENT with the current segment - each written like its handler: the handler  *)
(* sets ActPC / MomCPU / PCs and the DontPrint flag, as.c WriteCode turns DontPrint into NewRecord.    *)
(* OpenRecordTracksCounter is the record machine's inductive invariant: after EVERY statement the open *)
(* record's header names the current CPU, segment and granularity and start + length is the current   *)
(* load address, i.e. the statement that follows opens a new record exactly when segment, CPU,        *)
(* granularity or the address continuity changed.                                                     *)
EXTENDS CodeWriter, TLC
CONSTANTS MaxStmts, Segs, MaxN, MaxAddr, Cpus   \* Cpus: set of [id, gran] records
CONSTANTS MaxSave, BinChunk, Dev                 \* used by the family machine (SpecFam) only

VARIABLES w, act, cpu, pc, emitted, nst, closed, entry, stk
vars == <<w, act, cpu, pc, emitted, nst, closed, entry, stk>>

Gran == cpu.gran
MCCpus == {[id |-> 1, gran |-> 1], [id |-> 2, gran |-> 2]}
C0 == CHOOSE c \in Cpus : \A d \in Cpus : c.id <= d.id

Init == /\ act = 1 /\ cpu = C0 /\ pc = [s \in Segs |-> 0]
        /\ w = OpenFile(C0.id, 1, C0.gran, 0)
        /\ emitted = {} /\ nst = 0 /\ closed = FALSE /\ entry = <<>> /\ stk = <<>>

Cells(k, n, g) == [j \in 1..(n * g) |-> [k |-> "d", id |-> <<k, j>>]]

\* data statement: CodeLen = n units, DontPrint = FALSE
Emit(n) ==
  /\ ~closed /\ nst < MaxStmts /\ pc[act] + n <= MaxAddr
  /\ LET k == nst + 1 IN
     /\ w' = WriteBytes(w, Cells(k, n, Gran), cpu.id, act, Gran, pc[act])
     /\ emitted' = emitted \cup {[seg |-> act, addr |-> pc[act] * Gran + j - 1, id |-> <<k, j>>] : j \in 1..(n * Gran)}
     /\ pc' = [pc EXCEPT ![act] = @ + n] /\ nst' = k
  /\ UNCHANGED <<act, cpu, closed, entry, stk>>

\* reservation (DS / RES ...): DontPrint = TRUE, CodeLen = n  => NewRecord(pc + n)
Reserve(n) ==
  /\ ~closed /\ nst < MaxStmts /\ pc[act] + n <= MaxAddr
  /\ w' = NewRecord(w, cpu.id, act, Gran, pc[act] + n)
  /\ pc' = [pc EXCEPT ![act] = @ + n] /\ nst' = nst + 1
  /\ UNCHANGED <<act, cpu, emitted, closed, entry, stk>>

\* ORG a: pc := a, then WriteCode with CodeLen = 0 and DontPrint = TRUE
Org(a) ==
  /\ ~closed /\ nst < MaxStmts
  /\ w' = NewRecord(w, cpu.id, act, Gran, a)
  /\ pc' = [pc EXCEPT ![act] = a] /\ nst' = nst + 1
  /\ UNCHANGED <<act, cpu, emitted, closed, entry, stk>>

Segment(s) ==
  /\ ~closed /\ nst < MaxStmts /\ s # act
  /\ w' = NewRecord(w, cpu.id, s, Gran, pc[s])
  /\ act' = s /\ nst' = nst + 1
  /\ UNCHANGED <<cpu, pc, emitted, closed, entry, stk>>

\* CPU switch (asmallg.c SetCPUCore): new header id / granularity, DontPrint = TRUE; the counters are kept
Cpu(c) ==
  /\ ~closed /\ nst < MaxStmts /\ c # cpu
  /\ w' = NewRecord(w, c.id, act, c.gran, pc[act])
  /\ cpu' = c /\ nst' = nst + 1
  /\ UNCHANGED <<act, pc, emitted, closed, entry, stk>>

\* RetractWords(n) directly after a data statement (parallel instructions): drops the last n units again
RetractLast(n) ==
  /\ ~closed /\ nst < MaxStmts /\ CanRetract(w, n * Gran) /\ pc[act] >= n
  /\ \E k \in 1..nst :
       LET mine == {e \in emitted : e.id[1] = k} IN
       /\ \A e \in emitted : e.id[1] <= k                       \* k is the most recent emitting statement
       /\ Cardinality(mine) >= n * Gran
       /\ \A e \in mine : e.seg = act
       /\ LET top == CHOOSE m \in {e.id[2] : e \in mine} : \A e \in mine : e.id[2] <= m
          IN emitted' = {e \in emitted : ~(e.id[1] = k /\ e.id[2] > top - n * Gran)}
  /\ w' = Retract(w, n * Gran)
  /\ pc' = [pc EXCEPT ![act] = @ - n] /\ nst' = nst + 1
  /\ UNCHANGED <<act, cpu, closed, entry, stk>>

End(e) ==
  /\ ~closed
  /\ w' = [w EXCEPT !.file = CloseFile(w, cpu.id, act, Gran, pc[act], e)]
  /\ entry' = e /\ closed' = TRUE
  /\ UNCHANGED <<act, cpu, pc, emitted, nst, stk>>

\* ---- statements that change the output context implicitly (SpecFam) ------------------------------------
\* The handlers below set ActPC / MomCPU / PCs and the DontPrint flag; as.c WriteCode then does
\*   DontPrint => NewRecord(ProgCounter() + CodeLen)      else WriteBytes (nothing when CodeLen = 0).
\* AfterHandler is that tail of WriteCode for a handler that left DontPrint = dp in context (c, s), new counter np.
AfterHandler(dp, c, s, np) == IF dp THEN NewRecord(w, c.id, s, c.gran, np) ELSE w
Stmt == ~closed /\ nst < MaxStmts /\ nst' = nst + 1

\* SAVE: pushes processor type and active segment (asmallg.c CodeSAVE); nothing reaches the writer
Save ==
  /\ Stmt /\ Len(stk) < MaxSave
  /\ stk' = <<[act |-> act, cpu |-> cpu]>> \o stk
  /\ UNCHANGED <<w, act, cpu, pc, emitted, closed, entry>>
\* RESTORE (asmallg.c CodeRESTORE): a different saved segment => ActPC := it, DontPrint := True; a different saved
\* CPU => SetCPUCore (DontPrint := True); the segment is NOT forced back to CODE (unlike the CPU statement).
\* Dev = "restore_noflag" is the deliberately wrong handler (segment restored without the flag) that the invariants
\* must reject (CodeWriter_MCFam_dev_restore.cfg).
RestoreFlag(s) == IF Dev = "restore_noflag" THEN s.cpu # cpu ELSE (s.act # act \/ s.cpu # cpu)
Restore ==
  /\ Stmt /\ stk # <<>>
  /\ LET s == Head(stk) IN
     /\ w' = AfterHandler(RestoreFlag(s), s.cpu, s.act, pc[s.act])
     /\ act' = s.act /\ cpu' = s.cpu
  /\ stk' = Tail(stk)
  /\ UNCHANGED <<pc, emitted, closed, entry>>
\* ORG a (CodeORG_Core): the flag is set only when the address really changes
OrgF(a) ==
  /\ Stmt
  /\ w' = AfterHandler(a # pc[act], cpu, act, a)
  /\ pc' = [pc EXCEPT ![act] = a]
  /\ UNCHANGED <<act, cpu, emitted, closed, entry, stk>>
\* RORG d (CodeRORG): PCs += d, flag always (also for d = 0)
RorgTo(a) ==
  /\ Stmt /\ a <= MaxAddr
  /\ w' = AfterHandler(TRUE, cpu, act, a)
  /\ pc' = [pc EXCEPT ![act] = a]
  /\ UNCHANGED <<act, cpu, emitted, closed, entry, stk>>
\* ALIGN n (CodeALIGN, one argument): CodeLen = gap, DontPrint = (gap # 0)
Gap(n) == (n - (pc[act] % n)) % n
Align(n) ==
  /\ Stmt /\ pc[act] + Gap(n) <= MaxAddr
  /\ w' = AfterHandler(Gap(n) # 0, cpu, act, pc[act] + Gap(n))
  /\ pc' = [pc EXCEPT ![act] = @ + Gap(n)]
  /\ UNCHANGED <<act, cpu, emitted, closed, entry, stk>>
\* ALIGN n, fill: the gap is DATA (memset of the code buffer, DontPrint = False)
AlignFill(n) ==
  /\ Stmt /\ pc[act] + Gap(n) <= MaxAddr
  /\ LET k == nst + 1  g == Gap(n) IN
     /\ w' = WriteBytes(w, Cells(k, g, Gran), cpu.id, act, Gran, pc[act])
     /\ emitted' = emitted \cup {[seg |-> act, addr |-> pc[act] * Gran + j - 1, id |-> <<k, j>>] : j \in 1..(g * Gran)}
     /\ pc' = [pc EXCEPT ![act] = @ + g]
  /\ UNCHANGED <<act, cpu, closed, entry, stk>>
\* name STRUCT / fields / ENDSTRUCT as one step: the body lives in StructSeg (WriteCode: nothing reaches the
\* writer while ActPC = StructSeg); ENDSTRUCT: ActPC := StructSaveSeg, CodeLen := 0, DontPrint := True
StructBlock ==
  /\ Stmt
  /\ w' = AfterHandler(TRUE, cpu, act, pc[act])
  /\ UNCHANGED <<act, cpu, pc, emitted, closed, entry, stk>>
\* BINCLUDE of n bytes (CodeBINCLUDE; byte-granular target): WriteBytes per chunk of at most BinChunk (256 in the
\* code) bytes while PCs advances, then PCs := old, CodeLen := n, DontPrint := True  =>  NewRecord(old + n)
RECURSIVE BinWrite(_, _, _, _, _)
BinWrite(ww, k, done, rest, p) ==
  IF rest = 0 THEN ww
  ELSE LET c == IF rest <= BinChunk THEN rest ELSE BinChunk
           cells == [j \in 1..c |-> [k |-> "d", id |-> <<k, done + j>>]]
       IN BinWrite(WriteBytes(ww, cells, cpu.id, act, 1, p), k, done + c, rest - c, p + c)
Binclude(n) ==
  /\ Stmt /\ Gran = 1 /\ pc[act] + n <= MaxAddr
  /\ LET k == nst + 1 IN
     /\ w' = NewRecord(BinWrite(w, k, 0, n, pc[act]), cpu.id, act, 1, pc[act] + n)
     /\ emitted' = emitted \cup {[seg |-> act, addr |-> pc[act] + j - 1, id |-> <<k, j>>] : j \in 1..n}
     /\ pc' = [pc EXCEPT ![act] = @ + n]
  /\ UNCHANGED <<act, cpu, closed, entry, stk>>
\* CPU c as the statement (CodeCPU): SetCPUCore (flag) and SetNSeg(SegCode) - also for the CPU already selected
CpuStmt(c) ==
  /\ Stmt
  /\ w' = AfterHandler(TRUE, c, 1, pc[1])
  /\ cpu' = c /\ act' = 1
  /\ UNCHANGED <<pc, emitted, closed, entry, stk>>
\* SEGMENT s (SetNSeg) with the segment that is already active (and used): nothing happens
SegmentStmt(s) ==
  /\ Stmt
  /\ w' = AfterHandler(s # act, cpu, s, pc[s])
  /\ act' = s
  /\ UNCHANGED <<cpu, pc, emitted, closed, entry, stk>>

NextFam == \/ \E n \in {1, MaxN} : Emit(n)
           \/ Reserve(1)
           \/ \E a \in {pc[act], pc[act] + 1, 0} : OrgF(a)
           \/ \E a \in {pc[act], pc[act] + 1} \cup (IF pc[act] > 0 THEN {pc[act] - 1} ELSE {}) : RorgTo(a)
           \/ Align(4) \/ AlignFill(4)
           \/ StructBlock
           \/ \E n \in {0, 1, BinChunk + 1} : Binclude(n)
           \/ \E s \in Segs : SegmentStmt(s)
           \/ \E c \in Cpus : CpuStmt(c)
           \/ Save \/ Restore
           \/ \E e \in {<<>>, <<5>>} : End(e)
SpecFam == Init /\ [][NextFam]_vars

Next == \/ \E n \in 1..MaxN : Emit(n)
        \/ \E n \in 0..2 : Reserve(n)
        \/ \E a \in {0, 3, MaxAddr - 2} : Org(a)
        \/ \E s \in Segs : Segment(s)
        \/ \E c \in Cpus : Cpu(c)
        \/ \E n \in 1..2 : RetractLast(n)
        \/ \E e \in {<<>>, <<5>>} : End(e)
Spec == Init /\ [][Next]_vars

\* ---- the property -------------------------------------------------------------------------------
FileWellFormed == closed => WellFormed(w.file)
\* nothing lost, duplicated, reordered or shifted: the records' union is exactly what was handed to the writer
Conservation == closed => LET p == Parse(w.file) IN
                            /\ Image(p.recs) = emitted
                            /\ ImageSize(p.recs) = Cardinality(emitted)       \* no byte twice in the file
EntryKept == closed => Parse(w.file).entries = entry
\* each record's header describes the bytes in it
HeadersTruthful == closed => LET p == Parse(w.file) IN
   \A r \in 1..Len(p.recs) : \A c \in Cpus : p.recs[r].cpu = c.id => p.recs[r].gran = c.gran
\* the record machine: after every statement the open record is the one the NEXT data byte belongs to - its header
\* names the current CPU, segment and granularity, and start + length is the current load address.  Hence the
\* following data statement lands in a fresh record exactly when segment, CPU, granularity or continuity changed.
OpenRecordTracksCounter == ~closed =>
   LET h == w.file[w.recPos]  st == w.file[w.recPos + 1] IN
   /\ h.k = "hdr" /\ h.cpu = cpu.id /\ h.seg = act /\ h.gran = Gran
   /\ st.k = "start" /\ st.v * Gran + w.lenSoFar = pc[act] * Gran
\* the writer never lets the open record exceed the length field
LenFits == w.lenSoFar <= MaxRecLen
\* the buffer never reaches its capacity (memcpy into CodeBuffer stays in bounds)
BufInBounds == Len(w.buf) < BufSize
=============================================================================
