----------------------------- MODULE Options_Gen -----------------------------
(* C17: the configuration space of an assembler invocation and a pairwise-covering sample of it.           *)
(*                                                                                                          *)
(* Factors are the *report-only* options of the property statement plus the places an option can come from, *)
(* the working directory (with and without decoy include files in it), the output path and the message       *)
(* language.  Code-affecting options (-cpu -D -i -U                                                           *)
(* -relaxed -supmode -compmode -alias -G -o target -Werror -w -maxerrors) are NOT factors: they belong to     *)
(* the program under test (a golden test's asflags) and are held fixed across all vectors (Driver.tla:       *)
(* CodeAffecting / ReportOnly; Driver_MC: ReportOptionsDoNotInterfere).                                      *)
(*                                                                                                          *)
(* TLC builds the sample greedily (AETG style): in every step it takes an uncovered pair, draws Cand random  *)
(* vectors (Randomization, seeded by -seed), forces the pair into each and keeps the one covering the most   *)
(* uncovered pairs.  When nothing is left uncovered the invariant PairwiseCovered re-checks the result from  *)
(* scratch (every value pair of every two factors occurs in some chosen vector) and the vectors are printed. *)
EXTENDS Naturals, FiniteSets, Sequences, TLC, Randomization, Json

CONSTANT Cand

F ==
  [ L       |-> {"none", "L", "l", "OLIST"},                 \* -L | -l | -L -OLIST <file>
    u       |-> BOOLEAN,                                     \* usage list
    C       |-> BOOLEAN,                                     \* cross reference
    s       |-> BOOLEAN,                                     \* section list
    I       |-> BOOLEAN,                                     \* include list
    g       |-> {"none", "MAP", "NOICE", "ATMEL"},           \* debug info
    t       |-> {"none", "0", "85", "511"},                  \* listing mask
    x       |-> {0, 1, 2},                                   \* -x, -x -x
    n       |-> BOOLEAN,                                     \* error numbers
    q       |-> BOOLEAN,                                     \* quiet
    A       |-> BOOLEAN,                                     \* balanced symbol tree
    r       |-> BOOLEAN,                                     \* repass messages
    E       |-> {"stderr", "stdout", "file", "log"},         \* error channel
    gnu     |-> BOOLEAN,                                     \* -gnuerrors
    radix   |-> {"none", "8", "10", "2"},                    \* -LISTRADIX
    P       |-> BOOLEAN,                                     \* macro processor output
    M       |-> BOOLEAN,                                     \* macro definitions output
    share   |-> {"none", "c", "p", "a"},                     \* share file for SHARED symbols: C / Pascal / assembler
    h       |-> BOOLEAN,                                     \* lower case hex (dropped for sources using \{...})
    split   |-> {"none", "dot", "colon"},                    \* -SPLITBYTE (dropped for sources using \{...})
    src     |-> {"argv", "ascmd", "keyfile", "ascmdkey"},    \* where the report options are given
    \* working directory relative to the source, and what lies in it: "<dir>_decoy" = the same directory, but it holds a
    \* DECOY file (different content) for every name the source finds through the -i include path only.  By the manual
    \* (INCLUDE: directory of the including file, then the -i list) the working directory is never searched, so the
    \* decoys must not matter.  (No decoy value for "srcdir": there the working directory IS the first directory searched.)
    \* The search itself, with files in every combination of places, is IncSearch.tla.
    cwd     |-> {"srcdir", "parent", "elsewhere", "parent_decoy", "elsewhere_decoy"},
    out     |-> {"default", "otherdir", "renamed"},          \* -o
    lang    |-> {"C", "de_DE", "en_US"},                     \* message language
    langvar |-> {"LANG", "LC_ALL"}                          \* variable carrying it
  ]

Vectors == [ L : F.L, u : F.u, C : F.C, s : F.s, I : F.I, g : F.g, t : F.t, x : F.x, n : F.n, q : F.q, A : F.A, r : F.r, E : F.E, gnu : F.gnu, radix : F.radix, P : F.P, M : F.M, share : F.share, h : F.h, split : F.split, src : F.src, cwd : F.cwd, out : F.out, lang : F.lang, langvar : F.langvar ]

Names == <<"L", "u", "C", "s", "I", "g", "t", "x", "n", "q", "A", "r", "E", "gnu", "radix", "P", "M", "share", "h", "split",
           "src", "cwd", "out", "lang", "langvar">>
NF == Len(Names)

\* a pair = <<i, vi, j, vj>> with i < j (indices into Names); values are tagged by ToString to be comparable
Tag(v) == ToString(v)
IJ == {ij \in (1..NF) \X (1..NF) : ij[1] < ij[2]}
PairsOf(vec) == {<<ij[1], Tag(vec[Names[ij[1]]]), ij[2], Tag(vec[Names[ij[2]]])>> : ij \in IJ}
FactorVals(i) == F[Names[i]]

VARIABLES chosen, uncovered, started, cands
vars == <<chosen, uncovered, started, cands>>

Init == chosen = <<>> /\ uncovered = {} /\ started = FALSE /\ cands = {}

Start == /\ ~started /\ started' = TRUE /\ chosen' = <<>> /\ cands' = {}
         /\ uncovered' = UNION {{<<ij[1], Tag(a), ij[2], Tag(b)>> : a \in FactorVals(ij[1]), b \in FactorVals(ij[2])} : ij \in IJ}

\* draw: Cand random vectors, each forced to contain one (fixed) uncovered pair.  The draw is a step of its own
\* because TLC re-evaluates a RandomSubset expression at every use.
Draw == /\ started /\ uncovered # {} /\ cands = {}
        /\ LET p == CHOOSE q \in uncovered : TRUE
           IN cands' = {[[v EXCEPT ![Names[p[1]]] = CHOOSE a \in FactorVals(p[1]) : Tag(a) = p[2]]
                            EXCEPT ![Names[p[3]]] = CHOOSE b \in FactorVals(p[3]) : Tag(b) = p[4]] :
                           v \in RandomSubset(Cand, Vectors)}
        /\ UNCHANGED <<chosen, uncovered, started>>

\* pick: the candidate covering the most uncovered pairs
Pick == /\ cands # {}
        /\ LET Gain(v) == Cardinality(PairsOf(v) \cap uncovered)
               best == CHOOSE v \in cands : \A w \in cands : Gain(v) >= Gain(w)
           IN /\ chosen' = Append(chosen, best)
              /\ uncovered' = uncovered \ PairsOf(best)
        /\ cands' = {} /\ UNCHANGED started

Next == Start \/ Draw \/ Pick
Spec == Init /\ [][Next]_vars

\* independent re-check of the finished sample
PairwiseCovered ==
  (started /\ uncovered = {}) =>
     \A i \in 1..NF, j \in 1..NF : i < j =>
        \A a \in FactorVals(i), b \in FactorVals(j) :
           \E k \in 1..Len(chosen) : chosen[k][Names[i]] = a /\ chosen[k][Names[j]] = b

---------------------------------------------------------------------------
\* Designs for "every source x every single report option" (quick tier over the whole corpus):
\*  Default   the plain configuration (what `asl <asflags> -q -i include src` means in terms of the factors)
\*  Singles   Default with exactly one factor changed to one of its other values: every option alone
\*  AllOn     every report option switched on at once
\*  Rotation(r)  a small subset of the pairwise sample that starts with its r-th vector and covers every value of
\*            every factor at least once (greedy).  Source number n gets Rotation(n mod Len(chosen)): every (source,
\*            option value) pair is exercised, and over the corpus all vectors of the pairwise sample are used.
Default == [L |-> "none", u |-> FALSE, C |-> FALSE, s |-> FALSE, I |-> FALSE, g |-> "none", t |-> "none", x |-> 0,
            n |-> FALSE, q |-> TRUE, A |-> FALSE, r |-> FALSE, E |-> "stderr", gnu |-> FALSE, radix |-> "none",
            P |-> FALSE, M |-> FALSE, share |-> "none", h |-> FALSE, split |-> "none", src |-> "argv", cwd |-> "parent",
            out |-> "default", lang |-> "C", langvar |-> "LANG"]
AllOn   == [L |-> "L", u |-> TRUE, C |-> TRUE, s |-> TRUE, I |-> TRUE, g |-> "MAP", t |-> "511", x |-> 2,
            n |-> TRUE, q |-> TRUE, A |-> TRUE, r |-> TRUE, E |-> "file", gnu |-> TRUE, radix |-> "8",
            P |-> TRUE, M |-> TRUE, share |-> "c", h |-> TRUE, split |-> "dot", src |-> "ascmdkey", cwd |-> "srcdir",
            out |-> "renamed", lang |-> "de_DE", langvar |-> "LC_ALL"]
Singles == (UNION {{[Default EXCEPT ![Names[i]] = a] : a \in FactorVals(i)} : i \in 1..NF}) \ {Default}

AllVals == UNION {{<<i, Tag(a)>> : a \in FactorVals(i)} : i \in 1..NF}
ValsOf(vec) == {<<i, Tag(vec[Names[i]])>> : i \in 1..NF}
RECURSIVE Greedy(_, _)
Greedy(sel, uncov) ==
  IF uncov = {} THEN sel
  ELSE LET Gain(k) == Cardinality(ValsOf(chosen[k]) \cap uncov)
           best == CHOOSE k \in 1..Len(chosen) : \A j \in 1..Len(chosen) : Gain(k) >= Gain(j)
       IN Greedy(Append(sel, best), uncov \ ValsOf(chosen[best]))
Rotation(r) == Greedy(<<r>>, AllVals \ ValsOf(chosen[r]))
Finished == started /\ uncovered = {} /\ cands = {}

\* every value of every factor occurs in every rotation; every value occurs alone in Singles (or is the default)
RotationsCover == Finished => \A r \in 1..Len(chosen) :
                     LET rot == Rotation(r)
                         have == UNION {ValsOf(chosen[rot[k]]) : k \in 1..Len(rot)}
                     IN rot[1] = r /\ AllVals \subseteq have
SinglesCover == Finished => LET ss == Singles IN
                   \A i \in 1..NF : \A a \in FactorVals(i) :
                      a = Default[Names[i]] \/ \E v \in ss : v[Names[i]] = a /\ \A j \in 1..NF : j # i => v[Names[j]] = Default[Names[j]]
DefaultsInDomain == Finished => (Default \in Vectors /\ AllOn \in Vectors)

Dump == Finished => PrintT(<<"OUT", ToJson([vectors |-> chosen, rotations |-> [r \in 1..Len(chosen) |-> Rotation(r)],
                                             singles |-> Singles, allon |-> AllOn, default |-> Default])>>)
=============================================================================
