-------------------------- MODULE ListingReports_MC --------------------------
(* (M) The report operators of ListingReports.tla against what the manual says, on four small machines     *)
(* (CONSTANT Modes: the initial state picks one of them, the variables of the others stay put):                                       *)
(*  "usage"  an assembler core with two segments (1 = CODE warns, 2 = a data segment does not): emit /      *)
(*           reserve of 1..MaxLen units at the program counter, ORG to any address 0..MaxAddr (backwards    *)
(*           too), SEGMENT, RetractWords of the units just written (RetractMode none / normal = nothing is  *)
(*           occupied right behind the retracted word / any / fixed = any, with DeleteChunkFixed).  The     *)
(*           same statements drive the code-file writer of CodeWriter.tla (buffer and record limits scaled  *)
(*           down), so that the usage list is compared with the parsed code file: UsageEqualsImage.         *)
(*  "xref"   symbols looked up in lines of files that are entered in any order, over several passes          *)
(*  "sect"   SECTION / ENDSECTION nested <= MaxDepth deep over several passes                                *)
(*  "page"   a listing of lines with lengths from LineLens with chapter breaks under PAGE L, W                 *)
EXTENDS ListingReports, TLC
CONSTANTS Modes, StepsUsage, StepsXref, StepsSect, StepsPage,
          MaxAddr, MaxLen, Gran, RetractMode,          \* usage
          Keys, MainFile, IncFiles, MaxLineNo,                  \* xref
          SectNames, MaxDepth,                         \* sect
          PageLens, PageWidths, LineLens, HeaderLen, Fixed     \* page

CW == INSTANCE CodeWriter WITH BufSize <- 3, MaxRecLen <- 4

VARIABLES n, mode,
          seg, pc, use, occ, emitted, lastw, stale, cw, lastEmit, cellId,
          files, cur, refs, uses, pass,
          sl, path, opened,
          pg, forced
vars == <<n, mode, seg, pc, use, occ, emitted, lastw, stale, cw, lastEmit, cellId, files, cur, refs, uses, pass, sl, path, opened, pg, forced>>
uvars == <<seg, pc, use, occ, emitted, lastw, stale, cw, lastEmit, cellId>>
xvars == <<files, cur, refs, uses>>
svars == <<sl, path, opened>>
pvars == <<pg, forced>>

Segs == {1, 2}
CPU == 1
Init ==
  /\ n = 0 /\ pass = 1 /\ mode \in Modes
  /\ seg = 1 /\ pc = [s \in Segs |-> 0] /\ use = [s \in Segs |-> <<>>] /\ occ = [s \in Segs |-> {}]
  /\ emitted = [s \in Segs |-> {}] /\ lastw = [res |-> FALSE, inter |-> FALSE, ov |-> FALSE] /\ stale = FALSE
  /\ cw = CW!OpenFile(CPU, 1, Gran, 0) /\ lastEmit = 0 /\ cellId = 0
  /\ files = <<MainFile>> /\ cur = MainFile /\ refs = [k \in Keys |-> <<>>] /\ uses = <<>>
  /\ sl = Sect0 /\ path = <<>> /\ opened = {}
  /\ IF mode = "page" THEN \E L \in PageLens, W \in PageWidths : pg = NewPg(Pg0(L, W), HeaderLen, FALSE)
     ELSE pg = Pg0(0, 0)
  /\ forced = {}

\* ---- usage ------------------------------------------------------------------------------------------
Cells(len) == [j \in 1..(len * Gran) |-> [k |-> "d", id |-> cellId + j]]
Book(len) ==       \* asmsub.c BookKeeping
  LET r == AddChunk(use[seg], pc[seg], len, seg = 1) IN
  /\ use' = [use EXCEPT ![seg] = r.cl]
  /\ lastw' = [res |-> r.res, inter |-> seg = 1 /\ Intersects(pc[seg], len, occ[seg]), ov |-> Intersects(pc[seg], len, occ[seg])]
  /\ stale' = (stale \/ r.stale)
  /\ occ' = [occ EXCEPT ![seg] = @ \cup AreaSet(pc[seg], len)]
Emit(len) == /\ pc[seg] + len - 1 <= MaxAddr
             /\ Book(len)
             /\ cw' = CW!WriteBytes(cw, Cells(len), CPU, seg, Gran, pc[seg])
             /\ cellId' = cellId + len * Gran
             /\ emitted' = [emitted EXCEPT ![seg] = @ \cup AreaSet(pc[seg], len)]
             /\ pc' = [pc EXCEPT ![seg] = @ + len] /\ lastEmit' = len /\ UNCHANGED seg
Reserve(len) == /\ pc[seg] + len - 1 <= MaxAddr
                /\ Book(len)
                /\ cw' = CW!NewRecord(cw, CPU, seg, Gran, pc[seg] + len)
                /\ pc' = [pc EXCEPT ![seg] = @ + len] /\ lastEmit' = 0 /\ UNCHANGED <<seg, emitted, cellId>>
Org(a) == /\ a # pc[seg] /\ pc' = [pc EXCEPT ![seg] = a] /\ cw' = CW!NewRecord(cw, CPU, seg, Gran, a)
          /\ lastEmit' = 0 /\ lastw' = [res |-> FALSE, inter |-> FALSE, ov |-> FALSE] /\ UNCHANGED <<seg, use, occ, emitted, stale, cellId>>
Segment(s) == /\ s # seg /\ seg' = s /\ cw' = CW!NewRecord(cw, CPU, s, Gran, pc[s])
              /\ lastEmit' = 0 /\ lastw' = [res |-> FALSE, inter |-> FALSE, ov |-> FALSE] /\ UNCHANGED <<pc, use, occ, emitted, stale, cellId>>
\* asmcode.c RetractWords(k) directly behind an instruction (TI DSP parallel instructions)
Retract(k) ==
  /\ RetractMode # "none" /\ lastEmit >= k /\ CW!CanRetract(cw, k * Gran)
  /\ ~lastw.ov                     \* (a word that overlapped older code and is then taken back leaves the older code
                                   \*  in the file but not in a list of areas: out of the model, RetractNotAfterOverlap)
  /\ RetractMode = "normal" => pc[seg] \notin occ[seg]
  /\ use' = [use EXCEPT ![seg] = IF RetractMode = "fixed" THEN DeleteChunkFixed(@, pc[seg] - k, k)
                                  ELSE DeleteChunk(@, pc[seg] - k, k)]
  /\ cw' = CW!Retract(cw, k * Gran)
  /\ occ' = [occ EXCEPT ![seg] = @ \ AreaSet(pc[seg] - k, k)]
  /\ emitted' = [emitted EXCEPT ![seg] = @ \ AreaSet(pc[seg] - k, k)]
  /\ pc' = [pc EXCEPT ![seg] = @ - k] /\ lastEmit' = 0 /\ lastw' = [res |-> FALSE, inter |-> FALSE, ov |-> FALSE]
  /\ UNCHANGED <<seg, stale, cellId>>
UsageNext == /\ \/ \E len \in 1..MaxLen : Emit(len) \/ Reserve(len) \/ Retract(len)
                \/ \E a \in 0..MaxAddr : Org(a)
                \/ \E s \in Segs : Segment(s)
             /\ UNCHANGED <<xvars, svars, pvars, pass>>

\* a retracted word is re-occupied by the statement that took it back, so an overlap judged by sets only counts
\* addresses that are occupied now
UsageSaysOccupied == mode = "usage" => \A s \in Segs : SaysOccupied(UsageItems(use[s]), occ[s])
WarnIffIntersect == mode = "usage" => lastw.res = lastw.inter
NoStaleIndex == ~stale
ChunksApart == mode = "usage" => \A s \in Segs : \A i, j \in 1..Len(use[s]) :
                  i # j => ~Overlap(use[s][i].s, use[s][i].n, use[s][j].s, use[s][j].n)
ImageAddrs(recs, s) == {x.addr : x \in {y \in CW!Image(recs) : y.seg = s}}
UsageEqualsImage ==
  mode = "usage" =>
    LET p == CW!Parse(CW!CloseFile(cw, CPU, seg, Gran, pc[seg], <<>>)) IN
    /\ p.ok
    /\ \A s \in Segs : /\ ImageAddrs(p.recs, s) = {a * Gran + b : a \in emitted[s], b \in 0..(Gran - 1)}
                       /\ emitted[s] \subseteq ItemsCover(UsageItems(use[s]))
                       /\ ItemsCover(UsageItems(use[s])) = occ[s]

\* ---- cross reference -----------------------------------------------------------------------------------
EnterFile(f) == /\ files' = AddFile(files, f) /\ cur' = f /\ UNCHANGED <<refs, uses, pass>>
Lookup(k, l) == /\ refs' = [refs EXCEPT ![k] = AddRef(@, FileNum(files, cur), l)]
                /\ uses' = Append(uses, [key |-> k, f |-> FileNum(files, cur), l |-> l])
                /\ UNCHANGED <<files, cur, pass>>
NextPass == /\ pass < 2 /\ pass' = pass + 1 /\ refs' = [k \in Keys |-> <<>>] /\ uses' = <<>>       \* ClearCrossList
            /\ cur' = MainFile /\ UNCHANGED files
XrefNext == /\ \/ \E f \in IncFiles \cup {MainFile} : EnterFile(f)
               \/ \E k \in Keys, l \in 1..MaxLineNo : Lookup(k, l)
               \/ NextPass
            /\ UNCHANGED <<uvars, svars, pvars>>
CrossSaysUses == mode = "xref" => \A k \in Keys : SaysUses(CrossLines(refs[k], Len(files)), uses, k)
UnusedNotListed == mode = "xref" => \A k \in Keys : (refs[k] = <<>>) = (k \notin UsedKeys(uses))

\* ---- sections -------------------------------------------------------------------------------------------
SEnter(nm) == /\ Len(path) < MaxDepth
              /\ pass = 1 => FindSect(sl, nm, sl.mom) < 0              \* a second one of that name here: error 1483
              /\ pass > 1 => FindSect(sl, nm, sl.mom) >= 0             \* later passes read the same text
              /\ sl' = SectEnter(sl, nm) /\ path' = Append(path, nm) /\ opened' = opened \cup {Append(path, nm)}
              /\ UNCHANGED pass
SLeave == /\ path # <<>> /\ sl' = SectLeave(sl) /\ path' = SubSeq(path, 1, Len(path) - 1) /\ UNCHANGED <<opened, pass>>
SPass == /\ path = <<>> /\ pass < 2 /\ pass' = pass + 1 /\ UNCHANGED <<sl, path, opened>>
SectNext == /\ \/ \E nm \in SectNames : SEnter(nm) \/ SLeave \/ SPass
            /\ UNCHANGED <<uvars, xvars, pvars>>
SectionListSaysNesting == mode = "sect" => PathsOfLines(SectionLines(sl)) = opened
MomIsPath == mode = "sect" => SectPath(sl.list, sl.mom) = path /\ Len(sl.stk) = Len(path)

\* ---- pages ----------------------------------------------------------------------------------------------
PageNo == Cardinality({i \in 1..Len(pg.out) : pg.out[i].ff}) + 1
PLine(len) == pg' = (IF Fixed THEN WrLineFixed(pg, len, HeaderLen) ELSE WrLine(pg, len, HeaderLen)) /\ UNCHANGED forced
PChapter == pg' = NewPg(pg, HeaderLen, TRUE) /\ forced' = forced \cup {PageNo}
PageNext == /\ \/ \E len \in LineLens : PLine(len) \/ PChapter
            /\ UNCHANGED <<uvars, xvars, svars, pass>>
LinesFit == mode = "page" => WidthContract(pg.out, pg.W)
PagesFull == mode = "page" => LengthContract(BodyCounts(pg.out, 0, <<>>), forced, pg.L)

Limit == CASE mode = "usage" -> StepsUsage [] mode = "xref" -> StepsXref [] mode = "sect" -> StepsSect [] OTHER -> StepsPage
Next == /\ n < Limit /\ n' = n + 1 /\ UNCHANGED mode
        /\ CASE mode = "usage" -> UsageNext [] mode = "xref" -> XrefNext [] mode = "sect" -> SectNext
             [] mode = "page" -> PageNext
Spec == Init /\ [][Next]_vars
=============================================================================
