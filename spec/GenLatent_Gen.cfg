\* quick: 2 cut x 2 start slots for every family, all pairs of NKind single-instruction kinds
CONSTANTS
 Haz = {"cp"}
 Fams = {"a", "b"}
 Leak = {"cur"}
 NCut = 2
 NStart = 2
 NKind = 160
 Trailers = {"end", "sym", "open"}
INIT Init
NEXT Next
INVARIANT Dump
INVARIANT AllIndependent
CHECK_DEADLOCK FALSE
