\* p2bin, every template, <= 3 occurrences
CONSTANTS Fixed = {} Prog = "p2bin" MaxOcc = 3 Alphabet = "all"
SPECIFICATION SpecMC
INVARIANTS ScanIsFold DeviationsAreNamed PlaceNeverMatters EnvBeforeArgv ErrorIsFinal
CHECK_DEADLOCK FALSE
