\* -simulate: programs of up to 8 source lines, up to 60 executed statements
CONSTANTS Segs = {1, 2} StructSeg = 11 OffSet = {} OffAt = 0 Family = "flat" BodyLen = 0 MaxLen = 8 MaxSteps = 60
INIT Init
NEXT GenNext
INVARIANTS ForwardIsAllowed ErrCountIsFaultyExecuted ChainMirrorsCounts ImageIsData KeptIffClean
CHECK_DEADLOCK FALSE
