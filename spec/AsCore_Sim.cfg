\* -simulate: programs of up to 8 source lines over Alpha and SymAlpha, up to 60 executed statements
CONSTANTS Segs = {1, 2} StructSeg = 11 OffSet = {} OffAt = 0 Family = "all" BodyLen = 0 MaxLen = 8 MaxSteps = 60
INIT Init
NEXT GenNext
INVARIANTS ForwardIsAllowed ErrCountIsFaultyExecuted ChainMirrorsCounts ImageIsData KeptIffClean
           ConstantsKeepTheirValue SkippedDefinesNothing VariableIsLastSetOrPopped
           ExpectListIsAnnouncedMinusConsumed HiddenIsNeverCounted EndIsFinal
CHECK_DEADLOCK FALSE
