-------------------------- MODULE MacroProc_Trace --------------------------
(* Trace validation of the macro processor: every `line` hook event of a real asl run (text handed out   *)
(* by GetNextLine, depth of the input tag chain after the call, "this tag is now exhausted" flag) must   *)
(* be exactly what the machine operators of MacroProc (code as it is) produce for the same program.      *)
(* Events:  [a |-> "PROG", files, bins]   start of an assembly, program text as token lines              *)
(*          [a |-> "PASS"]                next pass over the same text (macros of pass 1 stay defined)   *)
(*          [a |-> "LINE", toks, depth, empty]                                                           *)
(*          [a |-> "RESET"]               separates executions                                           *)
EXTENDS MacroProc, Json, IOUtils

VARIABLES st, l
vars == <<st, l>>

TraceLog == ndJsonDeserialize(IOEnv.TRACE)
Idle == InitSt(<<>>, <<>>)

NextPass(s) ==
  [Start(s.files, s.bins, "a.asm") EXCEPT !.pass = s.pass + 1,
      !.macros = [m \in DOMAIN s.macros |-> [s.macros[m] EXCEPT !.useCnt = 0]]]

TInit == st = Idle /\ l = 1
TNext ==
  /\ l <= Len(TraceLog)
  /\ l' = l + 1
  /\ LET e == TraceLog[l] IN
       CASE e.a = "RESET" -> st' = Idle
         [] e.a = "PROG"  -> st' = Start(e.files, e.bins, "a.asm")
         [] e.a = "PASS"  -> st' = NextPass(st)
         [] OTHER ->
              LET g == GetNextLine(st)
              IN /\ ~st.crashed
                 /\ g.st.tags # <<>>
                 /\ g.line = e.toks
                 /\ Len(g.st.tags) = e.depth
                 /\ Head(g.st.tags).isEmpty = e.empty
                 /\ st' = ProduceCode(g.st, g.line)
Accepted == TLCGet("stats").diameter - 1 = Len(TraceLog)
=============================================================================
