\* MUST FAIL: argument values pasted without parentheses
CONSTANTS ArgPrint = "decimal" StrEscape = "dec3" RecursionGuard = TRUE ArgParen = FALSE WholeIdent = TRUE
          Level = 0 MaxDefs = 3 EmitCases = FALSE ExcludeKnown = TRUE
SPECIFICATION Spec
INVARIANTS Agreement DefAgreement TokenRoundTrip
CHECK_DEADLOCK FALSE
