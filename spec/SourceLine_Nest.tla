---------------------------- MODULE SourceLine_Nest ----------------------------
(* (M)+(G) The compound-operand dimension of C16 (SourceLine.tla Part 4): the white space between the    *)
(* fields INSIDE a parameter that the code generator splits a second time.                                *)
(*                                                                                                       *)
(* (M) For every concrete compound statement below (one or more per secondary splitter of the code), every *)
(*     gap vector g (each gap any sequence of 1..MaxGap blanks/tabs: blank, tab, blank-tab, tab-blank, ...) *)
(*     and a set of top-level spellings c:  GapsImmaterial, PrefixIsTransparent (prefix forms), and on the   *)
(*     parameter level CutsAtComponents (every splitter cuts at component boundaries only and loses nothing), *)
(*     PreprocSplit (#define).                                                                            *)
(* (G) Dump prints  * every statement x gap vector as a complete source line (kind "cline": reference       *)
(*                    spelling and rewritten spelling; the harness assembles both and compares the code),   *)
(*                  * the gap vectors for the corpus rewrite (kind "gapvec"),                               *)
(*                  * the table of statement forms with a compound parameter (kind "form"): the renderer    *)
(*                    only touches white space inside parameters of statements this table names.            *)
EXTENDS SourceLine, TLC, Json
CONSTANTS MaxGap,        \* longest gap (characters)
          Product,       \* top-level spellings: product of the dimensions / one at a time
          Emit

VARIABLES n
vars == <<n>>

PDefault == [name |-> "default", div |-> <<COMMA>>, attrchars |-> <<>>, hasattrs |-> FALSE, cmt |-> << <<SEMI>> >>, qq |-> QQ_NONE]
PAttr    == [PDefault EXCEPT !.name = "attr.", !.attrchars = <<DOT>>, !.hasattrs = TRUE]
PZ80     == [PDefault EXCEPT !.name = "z80", !.qq = QQ_Z80]

RECURSIVE SeqsOfLen(_, _)
SeqsOfLen(S, k) == IF k = 0 THEN {<<>>} ELSE {Append(r, x) : r \in SeqsOfLen(S, k - 1), x \in S}
GapsUpTo(m) == UNION {SeqsOfLen({SPC, TAB}, k) : k \in 1..m}           \* 2 + 4 + 8 ... spellings of one gap
Gaps    == GapsUpTo(MaxGap)
GapVecs == {<<a, b>> : a \in Gaps, b \in Gaps}                          \* 1st and 2nd gap of a compound parameter

(* concrete compound statements, one group per secondary splitter (all assemble on the pinned tree)      *)
CStmts == {
  \* movb #1 $1000
  [name |-> "hc12_movb", fam |-> "68hc12", cpu |-> <<54, 56, 72, 67, 49, 50>>, p |-> PAttr, rs |-> "mov", from |-> 0, replay |-> TRUE,
   before |-> <<>>, after |-> <<>>,
   lab |-> <<>>, op |-> <<109, 111, 118, 98>>, first |-> <<>>, comps |-> <<<<35, 49>>, <<36, 49, 48, 48, 48>>>>, more |-> <<>>],
  \* rptc #5 addx.w r4,r7
  [name |-> "msp_rptc_imm", fam |-> "msp430x", cpu |-> <<77, 83, 80, 52, 51, 48, 88>>, p |-> PAttr, rs |-> "rpt", from |-> 2, replay |-> TRUE,
   before |-> <<>>, after |-> <<>>,
   lab |-> <<>>, op |-> <<114, 112, 116, 99>>, first |-> <<>>, comps |-> <<<<35, 53>>, <<97, 100, 100, 120, 46, 119>>, <<114, 52>>>>, more |-> <<<<114, 55>>>>],
  \* rptz r6 addx.w r4,r7
  [name |-> "msp_rptz_reg", fam |-> "msp430x", cpu |-> <<77, 83, 80, 52, 51, 48, 88>>, p |-> PAttr, rs |-> "rpt", from |-> 2, replay |-> TRUE,
   before |-> <<>>, after |-> <<>>,
   lab |-> <<>>, op |-> <<114, 112, 116, 122>>, first |-> <<>>, comps |-> <<<<114, 54>>, <<97, 100, 100, 120, 46, 119>>, <<114, 52>>>>, more |-> <<<<114, 55>>>>],
  \* rptc #5 rrcx r7
  [name |-> "msp_rptc_one", fam |-> "msp430x", cpu |-> <<77, 83, 80, 52, 51, 48, 88>>, p |-> PAttr, rs |-> "rpt", from |-> 2, replay |-> TRUE,
   before |-> <<>>, after |-> <<>>,
   lab |-> <<>>, op |-> <<114, 112, 116, 99>>, first |-> <<>>, comps |-> <<<<35, 53>>, <<114, 114, 99, 120>>, <<114, 55>>>>, more |-> <<>>],
  \* l1 rptz #3 rlcx.a r7
  [name |-> "msp_rptz_lab", fam |-> "msp430x", cpu |-> <<77, 83, 80, 52, 51, 48, 88>>, p |-> PAttr, rs |-> "rpt", from |-> 2, replay |-> TRUE,
   before |-> <<>>, after |-> <<>>,
   lab |-> <<108, 49>>, op |-> <<114, 112, 116, 122>>, first |-> <<>>, comps |-> <<<<35, 51>>, <<114, 108, 99, 120, 46, 97>>, <<114, 55>>>>, more |-> <<>>],
  \* [b0] add.l1 a0,a1,a5
  [name |-> "c6x_cond", fam |-> "c6x", cpu |-> <<51, 50, 48, 54, 48>>, p |-> PAttr, rs |-> "c6x", from |-> 1, replay |-> TRUE,
   before |-> <<>>, after |-> <<>>,
   lab |-> <<>>, op |-> <<91, 98, 48, 93>>, first |-> <<>>, comps |-> <<<<97, 100, 100, 46, 108, 49>>, <<97, 48>>>>, more |-> <<<<97, 49>>, <<97, 53>>>>],
  \* [!a1] sub.d1 a1,a2,a3
  [name |-> "c6x_ncond", fam |-> "c6x", cpu |-> <<51, 50, 48, 54, 48>>, p |-> PAttr, rs |-> "c6x", from |-> 1, replay |-> TRUE,
   before |-> <<>>, after |-> <<>>,
   lab |-> <<>>, op |-> <<91, 33, 97, 49, 93>>, first |-> <<>>, comps |-> <<<<115, 117, 98, 46, 100, 49>>, <<97, 49>>>>, more |-> <<<<97, 50>>, <<97, 51>>>>],
  \* || [b0] sub.d1 a1,a2,a3
  [name |-> "c6x_par_cond", fam |-> "c6x", cpu |-> <<51, 50, 48, 54, 48>>, p |-> PAttr, rs |-> "c6x", from |-> 2, replay |-> TRUE,
   before |-> <<<<9, 97, 100, 100, 46, 108, 49, 9, 97, 48, 44, 97, 49, 44, 97, 53>>>>, after |-> <<>>,
   lab |-> <<>>, op |-> <<124, 124>>, first |-> <<>>, comps |-> <<<<91, 98, 48, 93>>, <<115, 117, 98, 46, 100, 49>>, <<97, 49>>>>, more |-> <<<<97, 50>>, <<97, 51>>>>],
  \* || [a1] sub.d1 a1,a2,a3
  [name |-> "c6x_barlab_cond", fam |-> "c6x", cpu |-> <<51, 50, 48, 54, 48>>, p |-> PAttr, rs |-> "c6x", from |-> 1, replay |-> TRUE,
   before |-> <<<<9, 97, 100, 100, 46, 108, 49, 9, 97, 48, 44, 97, 49, 44, 97, 53>>>>, after |-> <<>>,
   lab |-> <<124, 124>>, op |-> <<91, 97, 49, 93>>, first |-> <<>>, comps |-> <<<<115, 117, 98, 46, 100, 49>>, <<97, 49>>>>, more |-> <<<<97, 50>>, <<97, 51>>>>],
  \* op mov @a,b
  [name |-> "upd7720_op", fam |-> "upd772x", cpu |-> <<55, 55, 50, 48>>, p |-> PDefault, rs |-> "op", from |-> 1, replay |-> TRUE,
   before |-> <<>>, after |-> <<>>,
   lab |-> <<>>, op |-> <<111, 112>>, first |-> <<>>, comps |-> <<<<109, 111, 118>>, <<64, 97>>>>, more |-> <<<<98>>>>],
  \* op mov @a,b
  [name |-> "upd7725_op", fam |-> "upd772x", cpu |-> <<55, 55, 50, 53>>, p |-> PDefault, rs |-> "op", from |-> 1, replay |-> TRUE,
   before |-> <<>>, after |-> <<>>,
   lab |-> <<>>, op |-> <<111, 112>>, first |-> <<>>, comps |-> <<<<109, 111, 118>>, <<64, 97>>>>, more |-> <<<<98>>>>],
  \* dct pclr x0
  [name |-> "shdsp_dct", fam |-> "sh-dsp", cpu |-> <<83, 72, 55, 54, 48, 48>>, p |-> PAttr, rs |-> "dct", from |-> 1, replay |-> FALSE,
   before |-> <<<<9, 100, 115, 112, 9, 111, 110>>>>, after |-> <<>>,
   lab |-> <<>>, op |-> <<100, 99, 116>>, first |-> <<>>, comps |-> <<<<112, 99, 108, 114>>, <<120, 48>>>>, more |-> <<>>],
  \* altd inc iy
  [name |-> "rabbit_altd", fam |-> "rabbit", cpu |-> <<82, 65, 66, 66, 73, 84, 50, 48, 48, 48>>, p |-> PZ80, rs |-> "pref", from |-> 1, replay |-> TRUE,
   before |-> <<>>, after |-> <<>>,
   lab |-> <<>>, op |-> <<97, 108, 116, 100>>, first |-> <<>>, comps |-> <<<<105, 110, 99>>, <<105, 121>>>>, more |-> <<>>],
  \* altd ld a,(iy+4)
  [name |-> "rabbit_altd_ld", fam |-> "rabbit", cpu |-> <<82, 65, 66, 66, 73, 84, 50, 48, 48, 48>>, p |-> PZ80, rs |-> "pref", from |-> 1, replay |-> TRUE,
   before |-> <<>>, after |-> <<>>,
   lab |-> <<>>, op |-> <<97, 108, 116, 100>>, first |-> <<>>, comps |-> <<<<108, 100>>, <<97>>>>, more |-> <<<<40, 105, 121, 43, 52, 41>>>>],
  \* brclr $20 #$40 *
  [name |-> "hc12_brclr", fam |-> "68hc12", cpu |-> <<54, 56, 72, 67, 49, 50>>, p |-> PAttr, rs |-> "brbit", from |-> 0, replay |-> TRUE,
   before |-> <<>>, after |-> <<>>,
   lab |-> <<>>, op |-> <<98, 114, 99, 108, 114>>, first |-> <<>>, comps |-> <<<<36, 50, 48>>, <<35, 36, 52, 48>>, <<42>>>>, more |-> <<>>],
  \* brset $20,#$40 *
  [name |-> "hc12_brset2", fam |-> "68hc12", cpu |-> <<54, 56, 72, 67, 49, 50>>, p |-> PAttr, rs |-> "brbit", from |-> 0, replay |-> TRUE,
   before |-> <<>>, after |-> <<>>,
   lab |-> <<>>, op |-> <<98, 114, 115, 101, 116>>, first |-> <<<<36, 50, 48>>>>, comps |-> <<<<35, 36, 52, 48>>, <<42>>>>, more |-> <<>>],
  \* bset $20 #$40
  [name |-> "hc12_bset", fam |-> "68hc12", cpu |-> <<54, 56, 72, 67, 49, 50>>, p |-> PAttr, rs |-> "bit", from |-> 0, replay |-> TRUE,
   before |-> <<>>, after |-> <<>>,
   lab |-> <<>>, op |-> <<98, 115, 101, 116>>, first |-> <<>>, comps |-> <<<<36, 50, 48>>, <<35, 36, 52, 48>>>>, more |-> <<>>],
  \* brclr $20 #$40 *
  [name |-> "hc11_brclr", fam |-> "68hc11", cpu |-> <<54, 56, 49, 49>>, p |-> PDefault, rs |-> "brbit", from |-> 0, replay |-> TRUE,
   before |-> <<>>, after |-> <<>>,
   lab |-> <<>>, op |-> <<98, 114, 99, 108, 114>>, first |-> <<>>, comps |-> <<<<36, 50, 48>>, <<35, 36, 52, 48>>, <<42>>>>, more |-> <<>>],
  \* mov wr0,psw1 jnzrp target
  [name |-> "upd77230_mov_jmp", fam |-> "upd77230", cpu |-> <<55, 55, 50, 51, 48>>, p |-> PDefault, rs |-> "chain", from |-> 0, replay |-> TRUE,
   before |-> <<<<116, 97, 114, 103, 101, 116, 58>>>>, after |-> <<>>,
   lab |-> <<>>, op |-> <<109, 111, 118>>, first |-> <<<<119, 114, 48>>>>, comps |-> <<<<112, 115, 119, 49>>, <<106, 110, 122, 114, 112>>, <<116, 97, 114, 103, 101, 116>>>>, more |-> <<>>],
  \* clrp2 clrp3 ei
  [name |-> "upd77230_ports", fam |-> "upd77230", cpu |-> <<55, 55, 50, 51, 48>>, p |-> PDefault, rs |-> "chain", from |-> 0, replay |-> TRUE,
   before |-> <<>>, after |-> <<>>,
   lab |-> <<>>, op |-> <<99, 108, 114, 112, 50>>, first |-> <<>>, comps |-> <<<<99, 108, 114, 112, 51>>, <<101, 105>>>>, more |-> <<>>]
}

CanonC(cs) == [lform |-> IF cs.lab = <<>> THEN "none" ELSE "col1", lead |-> <<TAB>>, sep1 |-> IF cs.lab = <<>> THEN <<>> ELSE <<SPC>>,
               sep2 |-> <<SPC>>, pre |-> <<>>, post |-> <<>>, dtab |-> FALSE, trail |-> <<>>, cmt |-> <<>>, eol |-> <<>>, case |-> "keep"]
\* top-level spellings combined with the gaps in the model (the corpus replay combines them with all 22680):
\* Product = FALSE: one dimension at a time around the canonical spelling, TRUE: their product
Sep2s == {<<SPC>>, <<TAB>>, <<SPC, TAB>>}
PostsC(cs) == IF cs.first # <<>> \/ cs.more # <<>> THEN {<<>>, <<SPC>>} ELSE {<<>>}
OuterChoices(cs) ==
  LET k == CanonC(cs) IN
  IF Product
  THEN {[k EXCEPT !.sep2 = s2, !.trail = tr, !.cmt = cm, !.case = ca, !.post = po] :
          s2 \in Sep2s, tr \in {<<>>, <<TAB>>}, cm \in {<<>>, <<SEMI, 99>>}, ca \in {"keep", "upper", "alt"}, po \in PostsC(cs)}
  ELSE {[k EXCEPT !.sep2 = s2] : s2 \in Sep2s} \cup {[k EXCEPT !.case = ca] : ca \in {"upper", "alt"}}
       \cup {[k EXCEPT !.trail = <<TAB>>, !.cmt = <<SEMI, 99>>, !.eol = <<CR, LF>>]} \cup {[k EXCEPT !.post = po] : po \in PostsC(cs)}

CSOf(cs) == [lab |-> cs.lab, op |-> cs.op, comps |-> cs.comps, more |-> cs.more]
\* the line: the compound parameter is the one behind `first`
LineOf(cs, g) == [lab |-> cs.lab, op |-> cs.op, attr |-> <<>>, args |-> cs.first \o <<JoinGaps(cs.comps, g, 1)>> \o cs.more]
Text(cs, ch, g) == Render(LineOf(cs, g), ch, cs.p)
Final(cs, raw) == NormR(ResplitLine(cs.rs, raw, cs.p))

GapsOK(cs, ch, g) == Final(cs, ReadLine(<<Text(cs, ch, g)>>)) = Final(cs, Text(cs, CanonC(cs), OneBlank))
TransparentOK(cs, ch, g) ==
  cs.from > 0 => PrefixIsTransparent(cs.rs, CSOf(cs), cs.from, ch, g, CanonC(cs), cs.p)
\* parameter level: the compound parameter as SplitLine() delivers it, cut by the splitter of the form
ParamOf(cs, ch, g) == Split(ReadLine(<<Text(cs, ch, g)>>), cs.p).args[Len(cs.first) + 1]
CutOK(cs, ch, g) ==
  LET a == ParamOf(cs, ch, g)
      p == FirstBlank(a)
  IN  /\ [k \in 1..Len(WsTokens(a)) |-> UpStr(WsTokens(a)[k])] = [k \in 1..Len(cs.comps) |-> UpStr(cs.comps[k])]   \* reading = what was written
      /\ CASE cs.rs \in {"rpt", "c6x", "op", "dct"} -> p # 0 /\ CutsOneFirst(a, LeftOf(a, p), RightOf(a, p))
           [] cs.rs = "pref"  -> LET q == FirstSpace(a) IN q # 0 /\ CutsOneFirst(a, LeftOf(a, q), RightOf(a, q))
           [] cs.rs \in {"brbit", "bit", "mov"} -> CutsOneLast(a, SplitLast(a))
           [] cs.rs = "chain" -> LET x == Chain77230(a) IN
                                 /\ CutsOneFirst(a, x.own, RightOf(KillPref(a), Len(x.own)))
                                 /\ x.op = UpStr(WsTokens(a)[2])
                                 /\ WsTokens(x.rest) = SubSeq(WsTokens(a), 3, Len(WsTokens(a)))
           [] OTHER -> TRUE

\* #define NAME text: command, name and text whatever the two gaps are
DefName == <<118, 97, 108>>      DefText == <<53>>       DefCmd == <<100, 101, 102, 105, 110, 101>>
PreprocOK(g) == PreprocFields(JoinGaps(<<DefCmd, DefName, DefText>>, g, 1)) = <<UpStr(DefCmd), DefName, DefText>>

(* the table of statement forms with a compound parameter: header id(s) of the code generator, mnemonics *)
(* as written (upper case), which parameters are compound, and whether the manual covers the form        *)
(* (level "manual": verdict-bearing;  "silent": the preprocessor is not described - SPEC-DRIFT only).    *)
(* maxgaps: how many white-space runs of the compound parameter(s), counted from the left, are field   *)
(* boundaries (0 = all of them); what follows belongs to the inner statement's first operand.            *)
(* match "resplit": every machine statement of the family - recognisable by the code generator having    *)
(* replaced the mnemonic (the uPD77230 packs several sub-instructions into one word).                     *)
CondsC6x == {"||", "[A1]", "[A2]", "[B0]", "[B1]", "[B2]", "[!A1]", "[!A2]", "[!B0]", "[!B1]", "[!B2]"}
Forms == {
  [kind |-> "form", name |-> "msp430x-rpt",   hdr |-> {74},       match |-> "ops", ops |-> {"RPTC", "RPTZ"},       params |-> "first", rs |-> "rpt",    maxgaps |-> 2, level |-> "manual"],
  [kind |-> "form", name |-> "c6x-prefix",    hdr |-> {71},       match |-> "ops", ops |-> CondsC6x,               params |-> "first", rs |-> "c6x",    maxgaps |-> 2, level |-> "manual"],
  [kind |-> "form", name |-> "upd772x-op",    hdr |-> {125, 126}, match |-> "ops", ops |-> {"OP"},                 params |-> "first", rs |-> "op",     maxgaps |-> 1, level |-> "manual"],
  [kind |-> "form", name |-> "sh-dsp-cond",   hdr |-> {108},      match |-> "ops", ops |-> {"DCT", "DCF"},         params |-> "first", rs |-> "dct",    maxgaps |-> 1, level |-> "manual"],
  [kind |-> "form", name |-> "rabbit-prefix", hdr |-> {81},       match |-> "ops", ops |-> {"ALTD", "IOI", "IOE"}, params |-> "first", rs |-> "pref",   maxgaps |-> 1, level |-> "manual"],
  [kind |-> "form", name |-> "68hc1x-brbit",  hdr |-> {97, 102},  match |-> "ops", ops |-> {"BRSET", "BRCLR"},     params |-> "all",   rs |-> "brbit",  maxgaps |-> 0, level |-> "manual"],
  [kind |-> "form", name |-> "68hc1x-bit",    hdr |-> {97, 102},  match |-> "ops", ops |-> {"BSET", "BCLR"},       params |-> "all",   rs |-> "bit",    maxgaps |-> 0, level |-> "manual"],
  [kind |-> "form", name |-> "68hc12-mov",    hdr |-> {102},      match |-> "ops", ops |-> {"MOVB", "MOVW"},       params |-> "all",   rs |-> "mov",    maxgaps |-> 0, level |-> "manual"],
  [kind |-> "form", name |-> "upd77230-word", hdr |-> {127},      match |-> "resplit", ops |-> {},                 params |-> "all",   rs |-> "chain",  maxgaps |-> 0, level |-> "manual"],
  [kind |-> "form", name |-> "preproc-define", hdr |-> {},        match |-> "preproc", ops |-> {"DEFINE"},         params |-> "first", rs |-> "define",  maxgaps |-> 2, level |-> "silent"]}

Init == n \in {[t |-> "start", cs |-> x] : x \in CStmts} \cup {[t |-> "gapvec", g |-> g] : g \in GapVecs}
               \cup {[t |-> "form", f |-> f] : f \in Forms}
Next == /\ n.t = "start"
        /\ n' \in {[t |-> "case", cs |-> n.cs, c |-> ch, g |-> g] : ch \in OuterChoices(n.cs), g \in GapVecs}
Spec == Init /\ [][Next]_vars

GapsImmaterialInv  == n.t = "case" => GapsOK(n.cs, n.c, n.g)
PrefixTransparent  == n.t = "case" => TransparentOK(n.cs, n.c, n.g)
CutsAtComponents   == n.t = "case" => CutOK(n.cs, n.c, n.g)
PreprocSplit       == n.t = "gapvec" => PreprocOK(n.g)
\* the earlier of blank and tab - stated directly: nothing in front of the cut is a blank or a tab
FirstBlankIsFirst  == n.t = "case" => LET a == ParamOf(n.cs, n.c, n.g)  p == FirstBlank(a) IN
                                      p # 0 /\ a[p] \in {SPC, TAB} /\ \A i \in 1..(p - 1) : a[i] \notin {SPC, TAB}

\* a changed FirstBlank that takes the LATER of the two (the change this dimension was added for) is refuted:
LaterBlank(s) == LET hb == StrChr1(s, SPC)  ht == StrChr1(s, TAB) IN IF ht # 0 /\ (hb = 0 \/ ht > hb) THEN ht ELSE hb
ASSUME LaterBlank(<<35, 53, SPC, 97, TAB, 98>>) = 5 /\ FirstBlank(<<35, 53, SPC, 97, TAB, 98>>) = 3

Canonical(cs, ch) == ch = CanonC(cs)
Dump ==
  Emit =>
    CASE n.t = "case" /\ n.cs.replay /\ Canonical(n.cs, n.c) ->
           PrintT(<<"OUT", ToJson([kind |-> "cline", name |-> n.cs.name, fam |-> n.cs.fam, cpu |-> n.cs.cpu, rs |-> n.cs.rs,
                                    before |-> n.cs.before, after |-> n.cs.after, g |-> n.g,
                                    ref |-> Text(n.cs, CanonC(n.cs), OneBlank), var |-> Text(n.cs, n.c, n.g), level |-> "manual"])>>)
      [] n.t = "gapvec" ->
           /\ PrintT(<<"OUT", ToJson([kind |-> "gapvec", g |-> n.g])>>)
           /\ PrintT(<<"OUT", ToJson([kind |-> "cline", name |-> "preproc_define", fam |-> "preproc", cpu |-> <<90, 56, 48>>, rs |-> "define",
                                       before |-> <<>>, after |-> << <<9, 100, 98, 9, 118, 97, 108>> >>, g |-> n.g,
                                       ref |-> <<35>> \o JoinGaps(<<DefCmd, DefName, DefText>>, OneBlank, 1),
                                       var |-> <<35>> \o JoinGaps(<<DefCmd, DefName, DefText>>, n.g, 1), level |-> "silent"])>>)
      [] n.t = "form" -> PrintT(<<"OUT", ToJson(n.f)>>)
      [] OTHER -> TRUE
=============================================================================
