\* C02, what an EXPECT block announces (error 1200 | warning 290) x -Werror x -w x -maxerrors {0,2}: one file, every
\* sequence of <= 4 line classes out of {ok, warn, err, fwd, expect 1200, expect 290, endexpect}
CONSTANTS MaxLines = 4 MaxFiles = 1 Wrap = 0 Leaky = {}
CONSTANTS Kinds <- KindsExpN OptSpace <- OptsExpN
SPECIFICATION Spec
INVARIANTS StatusZeroIffNoError ZeroKeepsAll ErrorsDropCode ErrorStatus SummaryAgrees WerrorLeavesNoWarnings
           WarningsHarmless MachineIsOutcome FreshStart Independent
CHECK_DEADLOCK FALSE
