\* same deviation: a file differs ONLY through (last machine instruction before it, its first machine instruction)
CONSTANTS
 Haz = {"cp"}
 Fams = {"a", "b"}
 Leak = {"nxt"}
 MaxFiles = 3
 MaxLen = 1
INIT Init
NEXT Next
INVARIANT TailHead
INVARIANT Witness
CHECK_DEADLOCK FALSE
