------------------------------ MODULE HexReader ------------------------------
(* Intel-HEX input of the disassembler (das.c CMD_HexFile), property C03: a line reader                      *)
(*    ':' LL AAAA TT DD*LL CC   -- all fields pairs of hex digits, sum of all bytes = 0 mod 256               *)
(* Lines not starting with ':' are ignored, records of type # 00 are ignored (as das.c does).                 *)
(* Faults enumerated over a small valid file: truncation at every character offset and every single           *)
(* character replaced by a non-hex letter, a colon, a newline, '0' or 'F'.  The file is a sequence of         *)
(* character codes.                                                                                            *)
EXTENDS Naturals, Sequences, FiniteSets, TLC, Json

HexChar(d) == IF d < 10 THEN 48 + d ELSE 55 + d
Hex2(n) == <<HexChar(n \div 16), HexChar(n % 16)>>
RECURSIVE HexBytes(_), SumSeq(_)
HexBytes(q) == IF q = <<>> THEN <<>> ELSE Hex2(Head(q)) \o HexBytes(Tail(q))
SumSeq(q) == IF q = <<>> THEN 0 ELSE Head(q) + SumSeq(Tail(q))
Rec(addr, type, data) ==
  LET body == <<Len(data), addr \div 256, addr % 256, type>> \o data
      cs   == (256 - (SumSeq(body) % 256)) % 256
  IN <<58>> \o HexBytes(body) \o Hex2(cs) \o <<10>>
BaseFile == Rec(0, 0, <<1, 2, 3, 4>>) \o Rec(4, 0, <<182, 7>>) \o Rec(0, 1, <<>>)

\* ---- the reader -------------------------------------------------------------------------------------------
HexVal(c) == IF c \in 48..57 THEN c - 48 ELSE IF c \in 65..70 THEN c - 55 ELSE IF c \in 97..102 THEN c - 87 ELSE 99
IsHex(c) == HexVal(c) < 16
ByteAt(l, i) == 16 * HexVal(l[i]) + HexVal(l[i + 1])
RECURSIVE SplitLines(_, _)
SplitLines(f, cur) == IF f = <<>> THEN (IF cur = <<>> THEN <<>> ELSE <<cur>>)
                      ELSE IF Head(f) = 10 THEN <<cur>> \o SplitLines(Tail(f), <<>>)
                      ELSE SplitLines(Tail(f), Append(cur, Head(f)))
RECURSIVE SumBytes(_, _, _)
SumBytes(l, i, n) == IF n = 0 THEN 0 ELSE ByteAt(l, i) + SumBytes(l, i + 2, n - 1)
LineVerdict(l) ==
  IF l = <<>> \/ l[1] # 58 THEN "skip"
  ELSE IF Len(l) < 9 \/ \E i \in 2..9 : ~IsHex(l[i]) THEN "bad"
  ELSE LET n == ByteAt(l, 2)  t == ByteAt(l, 8) IN
       IF t # 0 THEN "other"
       ELSE IF Len(l) < 11 + 2 * n \/ \E i \in 10..(11 + 2 * n) : ~IsHex(l[i]) THEN "bad"
       ELSE IF SumBytes(l, 2, n + 5) % 256 # 0 THEN "checksum" ELSE "data"
FileVerdict(f) == LET ls == SplitLines(f, <<>>) IN
                  IF \E i \in 1..Len(ls) : LineVerdict(ls[i]) \in {"bad", "checksum"} THEN "Reject" ELSE "Accept"

\* ---- faults -----------------------------------------------------------------------------------------------
Faults == {[k |-> "none", off |-> 0, ch |-> 0]}
          \cup {[k |-> "trunc", off |-> p, ch |-> 0] : p \in 0..(Len(BaseFile) - 1)}
          \cup {[k |-> "subst", off |-> p, ch |-> c] : p \in 0..(Len(BaseFile) - 1), c \in {71, 58, 10, 48, 70}}
Apply(ft) == CASE ft.k = "trunc" -> SubSeq(BaseFile, 1, ft.off)
               [] ft.k = "subst" -> [BaseFile EXCEPT ![ft.off + 1] = ft.ch]
               [] OTHER -> BaseFile

VARIABLES fault, file, verdict
vars == <<fault, file, verdict>>
Init == \E ft \in Faults : fault = ft /\ file = Apply(ft) /\ verdict = "?"
Next == verdict = "?" /\ verdict' = FileVerdict(file) /\ UNCHANGED <<fault, file>>
Spec == Init /\ [][Next]_vars

BaseAccepted == (fault.k = "none" /\ verdict # "?") => verdict = "Accept"
\* a non-hex letter anywhere inside a type-00 record is a rejection
LetterRejected == (fault.k = "subst" /\ fault.ch = 71 /\ verdict # "?" /\ fault.off < 32
                     /\ BaseFile[fault.off + 1] \notin {58, 10}) => verdict = "Reject"
Dump == verdict # "?" => PrintT(<<"OUT", ToJson([fault |-> fault, bytes |-> file, verdict |-> verdict])>>)
=============================================================================
