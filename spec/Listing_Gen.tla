------------------------------ MODULE Listing_Gen ------------------------------
(* (G) Programs for the replay: behaviours of the Listing_MC core (same Emit / ORG / PHASE / SEGMENT      *)
(* actions) recorded with what the specification expects the reports to say for each line: the emission  *)
(* (segment, load address, phase, bytes), the listing rows MakeListRows() yields under the behaviour's   *)
(* list radix, and the label value (= execution address).  Simulated (-simulate), dumped at MaxStmts.    *)
EXTENDS Listing_MC, Json
VARIABLES hist
gvars == <<tgt, radix, seg, pcs, phs, img, last, n, line, hist>>

GStarts == {<<0, 0>>, <<0, 256>>}
GInit == /\ tgt \in {[gran |-> 1, lgran |-> 1], [gran |-> 1, lgran |-> 2], [gran |-> 2, lgran |-> 2]}
         /\ radix \in Radices
         /\ seg = 1 /\ pcs = [s \in Segs |-> N0] /\ phs = [s \in Segs |-> N0]
         /\ img = {} /\ last = [e |-> None, rows |-> <<>>, info |-> None, dontprint |-> FALSE]
         /\ n = 0 /\ line = 0 /\ hist = <<>>

GLens == {k \in 1..MaxLen : k % tgt.gran = 0}
Rec(k, len, a) == [k |-> k, len |-> len, a |-> a, seg |-> seg', e |-> last'.e, rows |-> last'.rows,
                   lab |-> AddN(pcs[seg], phs[seg])]
GNext ==
  /\ n < MaxStmts /\ n' = n + 1 /\ line' = line + 1 /\ UNCHANGED <<tgt, radix>>
  /\ \/ \E len \in GLens : seg = 1 /\ Emit(len, FALSE) /\ hist' = Append(hist, Rec("data", len, N0))
     \/ \E len \in GLens : Emit(len, TRUE) /\ hist' = Append(hist, Rec("res", len, N0))
     \/ \E a \in {<<0, 16>>, <<0, 512>>, <<0, 4096>>} :
           /\ phs[seg] = N0                                  \* ORG inside PHASE is C10's subject, not replayed here
           /\ pcs' = [pcs EXCEPT ![seg] = a] /\ NoCode /\ UNCHANGED <<seg, phs, img>>
           /\ hist' = Append(hist, Rec("org", 0, a))
     \/ \E a \in PhaseTargets : /\ seg = 1 /\ phs[seg] = N0
                                /\ phs' = [phs EXCEPT ![seg] = SubN(a, pcs[seg])] /\ NoCode /\ UNCHANGED <<seg, pcs, img>>
                                /\ hist' = Append(hist, Rec("phase", 0, a))
     \/ /\ phs[seg] # N0 /\ phs' = [phs EXCEPT ![seg] = N0] /\ NoCode /\ UNCHANGED <<seg, pcs, img>>
        /\ hist' = Append(hist, Rec("dephase", 0, N0))
     \/ \E s \in Segs \ {seg} : /\ phs[seg] = N0 /\ seg' = s /\ NoCode /\ UNCHANGED <<pcs, phs, img>>
                                /\ hist' = Append(hist, Rec("segment", 0, N0))

Dump == (n = MaxStmts) => PrintT(<<"BEH", ToJson([tgt |-> tgt, radix |-> radix, start |-> [s \in Segs |-> 0], steps |-> hist])>>)
=============================================================================
