CONSTANTS MaxLen = 12 MaxDepth = 2 MaxInst = 2 MaxDefs = 2 SubNames = {"N"} Sizes = {1, 2} MinInst = 0 MinPhased = 0
          EndForms = "all" Moves = FALSE Errors = TRUE Strict = FALSE Segs = {"code", "data"} StructSeg = "struct"
CONSTANTS OptSets <- Opt_dots SubOptSets <- Opt_plain DimSets <- Dim_arr
CONSTANT FixAnon <- FixAnonEnv
INIT GInit
NEXT GNext
INVARIANT Dump
CHECK_DEADLOCK FALSE
