------------------------------ MODULE AddrBook ------------------------------
(***************************************************************************)
(* Address bookkeeping of the assembler (asmallg.c, as.c WriteCode,        *)
(* asmsub.c ProgCounter/EProgCounter): per-segment load counters, PHASE    *)
(* offsets and their stacks, SEGMENT switching, SAVE/RESTORE, ALIGN,       *)
(* STRUCT/UNION bodies.  Pure operators on a record                        *)
(*   b = [act, cpu, pc, ph, phStk, used, saveStk, stStk, stSaveSeg]        *)
(* so that the exhaustive wrapper, the generator and the trace             *)
(* specification share them.  Addresses are in units of the segment's      *)
(* granularity, exactly like PCs[].                                        *)
(*                                                                         *)
(*   ProgCounter  = pc[act]           load address                         *)
(*   EProgCounter = pc[act] + ph[act] execution address: labels, $, *      *)
(***************************************************************************)
EXTENDS Integers, Sequences, FiniteSets
CONSTANTS Segs,        \* ordinary segments (e.g. {"code","data"})
          StructSeg    \* the pseudo segment STRUCT/UNION bodies live in

AllSegs == Segs \cup {StructSeg}

Load(b) == b.pc[b.act]
Exec(b) == b.pc[b.act] + b.ph[b.act]

InitB(seg0) ==
  [act |-> seg0, cpu |-> 0, pc |-> [s \in AllSegs |-> 0], ph |-> [s \in AllSegs |-> 0],
   phStk |-> [s \in AllSegs |-> <<>>], used |-> [s \in AllSegs |-> s = seg0],
   saveStk |-> <<>>, stStk |-> <<>>, stSaveSeg |-> seg0]

InStruct(b) == b.act = StructSeg
InUnion(b) == InStruct(b) /\ b.stStk # <<>> /\ b.stStk[1].union

\* as.c WriteCode: the counter of the active segment advances by the statement's length (data or reservation).
\* Inside a UNION body every member starts at 0 again: the length only bumps the union's size.
Advance(b, n) ==
  IF InUnion(b)
  THEN [b EXCEPT !.stStk = <<[b.stStk[1] EXCEPT !.maxLen = IF n > @ THEN n ELSE @]>> \o Tail(b.stStk)]
  ELSE [b EXCEPT !.pc[b.act] = @ + n]

\* as.c WriteCode sets PCsUsed[ActPC] whenever a statement reaches the code file (data or reservation)
MarkUsed(b) == IF InStruct(b) THEN b ELSE [b EXCEPT !.used[b.act] = TRUE]

\* RetractWords(k): the counter goes back
Retract(b, k) == [b EXCEPT !.pc[b.act] = @ - k]

\* ORG a (asmallg.c CodeORG_Core).  The pinned code compares and assigns through the EXECUTION address:
\* if EProgCounter() # a then PCs := a - Phases.  With no PHASE in force this is "load address := a".
\* (OrgWhilePhased: the manual's CAUTION paragraph calls the argument the load address; the sources, the fork's
\*  history and every golden program use the execution-address reading, and the property text does not decide.
\*  The specification and the checks take the implemented reading as the reference: what matters for C10 is
\*  that ORG is ONE consistent function of the bookkeeping state.)
Org(b, a) == IF Exec(b) = a THEN b ELSE [b EXCEPT !.pc[b.act] = a - b.ph[b.act]]
OrgWhilePhased(b) == b.ph[b.act] # 0

Rorg(b, d) == [b EXCEPT !.pc[b.act] = @ + d]

\* ORG / RORG as STATEMENTS, i.e. including what as.c WriteCode does after the handler: inside a UNION body every
\* statement ends with the body's counter back at 0 (all members start at offset 0), so ORG and RORG have no lasting
\* effect there; inside a STRUCT body they move the offset of the following fields like in an ordinary segment.
OrgStmt(b, a) == IF InUnion(b) THEN b ELSE Org(b, a)
RorgStmt(b, d) == IF InUnion(b) THEN b ELSE Rorg(b, d)

\* ALIGN n: next multiple of n of the execution address; the gap is reserved (or filled)
AlignGap(b, n) == LET e == Exec(b) IN ((e + n - 1) \div n) * n - e
Align(b, n) == Advance(b, AlignGap(b, n))

\* SEGMENT s (SetNSeg): first use loads the target's start address for that segment
Segment(b, s, init) ==
  IF b.act # s \/ ~b.used[b.act]
  THEN LET b1 == [b EXCEPT !.act = s] IN
       [b1 EXCEPT !.pc[s] = IF b.used[s] THEN @ ELSE init, !.used[s] = TRUE]
  ELSE b

\* PHASE a: remember the offset in force, new offset so that the execution address becomes a
Phase(b, a) == [b EXCEPT !.phStk[b.act] = <<b.ph[b.act]>> \o @, !.ph[b.act] = a - b.pc[b.act]]
\* DEPHASE: back to the offset in force before the matching PHASE; on an empty stack the offset becomes 0
\* (DephaseOnEmptyStack: no error is reported by the code)
Dephase(b) ==
  IF b.phStk[b.act] # <<>>
  THEN [b EXCEPT !.ph[b.act] = b.phStk[b.act][1], !.phStk[b.act] = Tail(@)]
  ELSE [b EXCEPT !.ph[b.act] = 0]

\* CPU c (asmallg.c CodeCPU): select the target and enter its CODE segment (SetNSeg(SegCode)); the counters stay
Cpu(b, c, code, init) == Segment([b EXCEPT !.cpu = c], code, init)

\* SAVE / RESTORE: CPU and segment (and listing state, not modelled here) in LIFO order.  RESTORE reinstates the
\* saved segment and then the saved CPU through SetCPUByType -- which, unlike the CPU statement, does NOT enter
\* the CODE segment.
Save(b) == [b EXCEPT !.saveStk = <<[seg |-> b.act, cpu |-> b.cpu]>> \o @]
CanRestore(b) == b.saveStk # <<>>
Restore(b) == [b EXCEPT !.act = b.saveStk[1].seg, !.cpu = b.saveStk[1].cpu, !.saveStk = Tail(@)]

\* STRUCT / UNION: the body lives in StructSeg starting at offset 0; nothing is emitted
BeginStruct(b, isUnion) ==
  LET b1 == [b EXCEPT !.stStk = <<[union |-> isUnion, savePC |-> Load(b), maxLen |-> 0]>> \o @,
                      !.stSaveSeg = IF b.act # StructSeg THEN b.act ELSE @]
  IN [b1 EXCEPT !.act = StructSeg, !.pc[StructSeg] = 0, !.ph[StructSeg] = 0]
\* value of a field label (and of a nested structure's own name) inside structure bodies: offset inside the
\* innermost body plus the offsets at which the enclosing bodies were interrupted (all saved counters except the
\* outermost one, which is the counter of the ordinary segment): fields of nested structures and the members of
\* a union inside a structure are numbered relative to the OUTERMOST structure.
StructBase(b) ==
  LET S[i \in 0..Len(b.stStk)] == IF i = 0 THEN 0
                                   ELSE IF i = Len(b.stStk) THEN S[i-1] ELSE S[i-1] + b.stStk[i].savePC
  IN S[Len(b.stStk)]
FieldValue(b) == Load(b) + StructBase(b)

\* total length of the innermost open structure: counter for a STRUCT, maximum member size for a UNION
StructLen(b) == IF b.stStk[1].union THEN b.stStk[1].maxLen ELSE b.pc[StructSeg]
\* ENDSTRUCT: back to the outer structure's offset plus the size of the finished one (it is a member of the
\* outer one), or back to the segment that was active before the outermost STRUCT
EndStruct(b) ==
  LET len   == StructLen(b)
      outer == Tail(b.stStk)
      b1    == [b EXCEPT !.stStk = outer, !.pc[StructSeg] = b.stStk[1].savePC]
  IN IF outer = <<>> THEN [b1 EXCEPT !.act = b.stSaveSeg]
     ELSE Advance(b1, len)
=============================================================================
