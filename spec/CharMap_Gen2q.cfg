\* generator: every history of exactly 2 statements over OpsQuick, default case mode (quick)
CONSTANTS Codes <- MCCodes
 FileTabs <- MCFileTabs
 Ops <- OpsQuick
 MaxLen = 2
 CheckBackward = FALSE
 CaseModes = {FALSE}
 Dev = {}
 DevSourceChecked = TRUE
INIT Init
NEXT Next
CHECK_DEADLOCK FALSE
INVARIANTS Dump MachineIsFold
