------------------------------- MODULE Driver -------------------------------
(***************************************************************************)
(* The run driver of as.c: main() / AssembleGroup() / AssembleFile() and   *)
(* the per-file pass loop, on top of the counter protocol of Diag.tla.     *)
(*                                                                         *)
(*   main              opts fixed for the whole invocation (ProcessCMD     *)
(*                     runs before the first file), GlobErrFlag := FALSE   *)
(*   AssembleFile(f)   FileBegin: AsmDefInit/AsmParsInit/AsmIFInit         *)
(*     do {            PassBegin: AssembleFile_InitPass/AsmErrPassInit,    *)
(*                                OpenFile() creates <f>.p                 *)
(*        ProcessFile  one LineStep per source line                        *)
(*        ExitPass     EndPassStep: errors for constructs left open        *)
(*     } while (ErrorCount == 0 && Repass)                                 *)
(*     if (ErrorCount != 0) { unlink(<f>.p); GlobErrFlag = TRUE }          *)
(*     summary lines "N error(s)", "N warning(s)"  (unless -q)             *)
(*   return GlobErrFlag ? 2 : 0        fatal: EmergencyStop(); exit(3)     *)
(*                                                                         *)
(* A source file is a sequence of *line classes* (records with field k):   *)
(*   ok        a valid instruction (emits code)                            *)
(*   warn      a line earning an internal warning (number < 1000)          *)
(*   err       a line earning an internal error (unknown instruction)      *)
(*   fatalI    a line earning an internal fatal error (>= 10000)           *)
(*   uwarn, uerr, ufatal    WARNING / ERROR / FATAL pseudo instructions    *)
(*   fwd       a forward reference: valid code, forces a second pass       *)
(*   undef     a reference to a symbol that is never defined: taken for a  *)
(*             forward reference in pass 1, an error in pass 2             *)
(*   tjmp      TransientJumpErr: a short branch that is out of range only  *)
(*             in pass 2 (its body shrinks in that pass): the error is     *)
(*             written, and discounted again iff -Y  (JumpStep)            *)
(*   pjmp      a short branch that is out of range for good                *)
(*   bjmp      a short BACKWARD branch that is out of range for good: its  *)
(*             target is defined in every pass, so the error is raised in  *)
(*             every pass, pass 1 included, repass pending or not          *)
(*   bpage     a jump whose (constant) target is on another page: error    *)
(*             1910, the second number of the jump family, every pass      *)
(*   shrink    a forward reference to a zero-page / direct cell with a     *)
(*             label behind it: 3 bytes in pass 1, 2 bytes from pass 2 on, *)
(*             so the label MOVES in pass 2 (LabelMoved, Repass) - a mover *)
(*             that raises no diagnostic of its own                        *)
(*   the four jump classes carry a wrapper t:  ""  bare statement,         *)
(*             "exp"   EXPECT <its own number> / statement / ENDEXPECT,    *)
(*             "expx"  EXPECT <the other jump number> / statement /        *)
(*                     ENDEXPECT (the announcement does not match)         *)
(*             - the dimension EXPECT block x jump-error family x -Y x     *)
(*             pending repass x a label moving later in the pass.          *)
(*   burstE n, burstW n, burstU n   REPT n of an err / warn / uwarn line   *)
(*   expect, endexpect      EXPECT 1200 ... ENDEXPECT                      *)
(*             expect with f = "warn": EXPECT 290, the number of the       *)
(*             internal warning of class warn (met BEFORE -w and -Werror   *)
(*             are looked at: Diag.tla ExpectedFirst)                      *)
(*   flag f    an ON/OFF style instruction setting mode flag f, or the     *)
(*             definition of macro / function / symbol f (twice: error)    *)
(*   probe f   a line whose code depends on mode flag f                    *)
(*   use f     a line using table entry f (a macro / a function defined    *)
(*             by `flag f`): an error unless f is defined                  *)
(*   open t    opens construct t and is never closed:                      *)
(*             if0 if1 mac rept sec str sav pha   (always the last line)   *)
(*                                                                         *)
(* Everything is written as pure operators over records (LineStep,         *)
(* EndPassStep, RunPass, AsmFile, Outcome) so that the step machine        *)
(* (Driver_MC / Driver_Gen), the trace specifications and the              *)
(* expectations exported for replay use one and the same definition.       *)
(*                                                                         *)
(* Named deviations (modelled as coded, see also Diag.tla):                *)
(*  Leaky          mode flags in this set are NOT reset between files,     *)
(*                 passes or (CpuScoped) changes of the target.            *)
(*                 Vocabulary: ON/OFF flags dotted relaxed padding supmode;*)
(*                 org radix charset sym cpu; tables macro func;           *)
(*                 per-target state switchocc pageocc shiftocc onoff       *)
(*                 (cleared by SetCPUCore).                                *)
(*                 As originally pinned: {"dotted"} (DOTTEDSTRUCTS         *)
(*                 was missing from AssembleFile_InitPass, repaired by     *)
(*                 proposed_fixes/C18-dottedstructs-reset.diff); now: {}.  *)
(*  StaleUntilInitPass  FirstIfSave, FirstOutputTag, SectionStack,         *)
(*                 StructStack keep their (dangling) values from the end   *)
(*                 of one file until AssembleFile_InitPass of the next;    *)
(*                 the file_begin hook fires in between and sees them.     *)
(*                 Nothing reads them there (Residue, Driver_Trace).       *)
(*  LastPassOnly   counters are per pass: a warning of a two-pass file is  *)
(*                 written twice and summarised once.                      *)
(*  JmpErrorsSurvive  as originally pinned the JmpErrors counter was never  *)
(*                 cleared per pass / file ("jmperrors" \in Leaky): under  *)
(*                 -Y a later file subtracts errors of an earlier one      *)
(*                 (proposed_fixes/C18-jmperrors-reset.diff).              *)
(* Not modelled: I/O errors after the pass loop, +G (kept as a parameter,  *)
(* fixed TRUE).                                                            *)
(***************************************************************************)
EXTENDS Diag

CONSTANT Leaky          \* set of mode flags that survive InitPass

---------------------------------------------------------------------------
\* option partition (C17).  An option record has all of these fields.
CodeAffecting == {"werror", "suppw", "codeout", "maxerr", "throw"}    \* decide whether / which code file exists
ReportOnly    == {"q", "x", "n", "gnu", "E", "L"}            \* change where / how things are reported
\* maxerr never changes the bytes of a code file that exists, but it turns status 2 into 3; it is kept on the
\* code-affecting side because C17 does not list it as report-only.

CodeView(o) == [werror |-> o.werror, suppw |-> o.suppw, codeout |-> o.codeout, maxerr |-> o.maxerr, throw |-> o.throw]

\* where diagnostics go / whether the summary is printed: the only things report options decide in this model
Channel(o) == o.E                  \* "stderr" (default !2) | "stdout" (-E !1) | "file" (-E name) | "log" (-E)
SummaryShown(o) == ~o.q

---------------------------------------------------------------------------
\* file-local assembler state
\*  pos      number of the source line being processed
\*  prevErr  positions of the jump statements that raised their error in the PREVIOUS pass of this file (they emitted no
\*           code then) - the only thing of an earlier pass this model remembers; in the code it is the symbol table
\*  nowErr   the same for the current pass
InitCore == [ifasm |-> TRUE, ifd |-> 0, rec |-> "none", svd |-> 0, std |-> 0, sed |-> 0, phd |-> 0,
             flags |-> {}, code |-> <<>>, repass |-> FALSE, pos |-> 0, prevErr |-> {}, nowErr |-> {}, shift |-> FALSE]
\*  shift    a statement above has another size than in the previous pass and no label has been defined since: the
\*           next label definition is where SymbolAdder discovers the move (Discover)

\* a stale JmpErrors counter travels in the carry set as a token (only if "jmperrors" \in Leaky)
JmpTokens == {"jmperr1", "jmperr2", "jmperr3"}
JmpOf(carry) == IF "jmperr3" \in carry THEN 3 ELSE IF "jmperr2" \in carry THEN 2 ELSE IF "jmperr1" \in carry THEN 1 ELSE 0
JmpTok(n) == IF "jmperrors" \notin Leaky \/ n = 0 THEN {} ELSE IF n = 1 THEN {"jmperr1"} ELSE IF n = 2 THEN {"jmperr2"} ELSE {"jmperr3"}
\* what a finished pass hands to the next pass / file beyond the carry it got
Handover(carry, p) == ((carry \ JmpTokens) \cup (p.c.flags \cap Leaky)) \cup JmpTok(p.d.jmp)

FreshP(carry, prevErr) == [d |-> [PassInit EXCEPT !.jmp = JmpOf(carry)],
                           c |-> [InitCore EXCEPT !.flags = carry \ JmpTokens, !.prevErr = prevErr]]
Fresh(carry) == FreshP(carry, {})

Opened(c) == c.ifd > 0 \/ c.rec # "none" \/ c.svd > 0 \/ c.std > 0 \/ c.sed > 0 \/ c.phd > 0

Emit(c, t, v) == [c EXCEPT !.code = Append(@, [t |-> t, v |-> v])]

\* "flags" that are definitions (a macro, a function, a symbol): defining one twice is an error
Defs == {"macro", "func", "sym"}

\* State that asmallg.c SetCPUCore() clears on EVERY change of the target: SwitchIsOccupied / PageIsOccupied /
\* ShiftIsOccupied (set by the OLMS-50, SX20, KENBAK targets: SWITCH / PAGE / SHIFT are machine instructions there and
\* the pseudo instructions of that name are disabled) and the table of ON/OFF instructions registered per target
\* (ClearONOFF in UnsetCPU).  `flag f` for these = a visit to such a target and back; since the way back goes through
\* SetCPUCore the visit leaves nothing behind - unless the reset is missing, i.e. f \in Leaky.  probe switchocc/pageocc/
\* shiftocc = a SWITCH..CASE / PAGE / SHIFT line, use onoff = an ON/OFF instruction of the visited target (an unknown
\* instruction everywhere else).
CpuScoped == {"switchocc", "pageocc", "shiftocc", "onoff"}

\* A label is defined here.  If the code above it has changed its size against the previous pass (c.shift) this is
\* where SymbolAdder finds a changed value: LabelMoved (the remembered jump errors are forgotten / discounted), Repass.
Discover(o, st, pass) ==
  IF st.c.shift THEN [d |-> LabelMoved(o, st.d, st.c.repass, pass), c |-> [st.c EXCEPT !.repass = TRUE, !.shift = FALSE]]
  ELSE st

\* one source line in pass `pass`
\* A short branch over a body, at source position c.pos (6502 `bne`, 68000 `beq.s` ...).
\*   tjmp  TransientJumpErr: the body shrinks in pass 2 (operands defined further down become known), so the branch is
\*         out of range only in pass 2, where it still sees the label value of pass 1
\*   pjmp  the branch is out of range for good
\* pass 1: forward reference (Repass).  Later passes: the error is raised unless a repass has already been requested
\* (then the label value is questionable and the statement is assembled without complaint); a statement that raises
\* the error emits no code.  The labels behind it move iff the body shrank or the statement emits code now and did not
\* in the previous pass (or vice versa) - that is SymbolAdder's discovery (LabelMoved, Repass).
JumpStep(o, st, kind, pass) ==
  LET d == st.d
      c == st.c
  IN IF pass = 1 THEN [st EXCEPT !.c = [Emit(c, kind, FALSE) EXCEPT !.repass = TRUE]]
     ELSE LET inrange == kind = "tjmp" /\ pass >= 3
              errs    == ~inrange /\ ~c.repass
              d1      == IF errs THEN WrJumpError(o, d, c.repass) ELSE d
              moved   == (kind = "tjmp" /\ pass = 2) \/ (errs # (c.pos \in c.prevErr)) \/ c.shift
              d2      == IF moved /\ ~d1.fatal THEN LabelMoved(o, d1, c.repass, pass) ELSE d1
              c1      == IF errs THEN [c EXCEPT !.nowErr = @ \cup {c.pos}] ELSE Emit(c, kind, FALSE)
          IN [d |-> d2, c |-> [c1 EXCEPT !.repass = @ \/ (moved /\ ~d1.fatal), !.shift = FALSE]]

\* bjmp / bpage: the error is raised in every pass (the operand is a backward label / a constant: never questionable);
\* it is remembered in JmpErrors iff no repass is pending; the statement never emits code, so it moves nothing itself.
JumpNumOf(k) == IF k = "bpage" THEN NumTargOnDiffPage ELSE NumJmpDistTooBig
OtherJumpNum(num) == IF num = NumJmpDistTooBig THEN NumTargOnDiffPage ELSE NumJmpDistTooBig
\* (the target label of bjmp and the filler between it and the branch stand in front of the EXPECT block: PreLabel)
BackStep(o, st, num) == [st EXCEPT !.d = WrJumpErrorN(o, st.d, st.c.repass, num)]
PreLabel(o, st, k, pass) == IF k = "bjmp" THEN Discover(o, st, pass) ELSE st

\* shrink: pass 1 forward reference; pass 2 the statement is one byte shorter, the label behind it has another value
\* than in pass 1: SymbolAdder's discovery (LabelMoved: the remembered jump errors are forgotten, with -Y discounted),
\* Repass.  From pass 3 on nothing changes any more.
ShrinkStep(o, st, pass) ==
  LET c1 == Emit(st.c, "shrink", FALSE)
  IN IF pass = 1 THEN [st EXCEPT !.c = [c1 EXCEPT !.repass = TRUE]]
     ELSE IF pass = 2 THEN [d |-> LabelMoved(o, st.d, st.c.repass, pass), c |-> [c1 EXCEPT !.repass = TRUE, !.shift = FALSE]]
     ELSE Discover(o, [st EXCEPT !.c = c1], pass)

BareJump(o, st, k, pass) == IF k \in {"tjmp", "pjmp"} THEN JumpStep(o, st, k, pass) ELSE BackStep(o, st, JumpNumOf(k))

\* a statement of the jump family under its wrapper: three source lines EXPECT n / statement / ENDEXPECT executed in
\* order (a -maxerrors stop ends the sequence where it happens)
JumpFamilyStep(o, st00, ln, pass) ==
  LET st == PreLabel(o, st00, ln.k, pass) IN
  IF ln.t = "" THEN BareJump(o, st, ln.k, pass)
  ELSE LET num == IF ln.t = "exp" THEN JumpNumOf(ln.k) ELSE OtherJumpNum(JumpNumOf(ln.k))
           s1  == [st EXCEPT !.d = CodeEXPECT(o, st.d, <<num>>)]
           s2  == IF s1.d.fatal THEN s1 ELSE BareJump(o, s1, ln.k, pass)
       IN IF s2.d.fatal THEN s2 ELSE [s2 EXCEPT !.d = CodeENDEXPECT(o, s2.d)]

JumpKinds == {"tjmp", "pjmp", "bjmp", "bpage"}

\* what an `expect` line announces
ExpectNumOf(f) == IF f = "warn" THEN NumNullResMem ELSE NumUnknownInstr

LineStep(o, st0, ln, pass) ==
  LET st == [st0 EXCEPT !.c.pos = @ + 1]
      d == st.d
      c == st.c
  IN IF d.fatal THEN st
     ELSE IF c.rec # "none" \/ ~c.ifasm THEN st          \* swallowed by an open definition / skipped branch
     ELSE CASE ln.k = "ok"        -> [st EXCEPT !.c = Emit(c, "ok", FALSE)]
            [] ln.k = "warn"      -> [st EXCEPT !.d = WrXErrorPos(o, d, NumNullResMem)]
            [] ln.k = "err"       -> [st EXCEPT !.d = WrXErrorPos(o, d, NumUnknownInstr)]
            [] ln.k = "fatalI"    -> [st EXCEPT !.d = WrXErrorPos(o, d, NumOpeningFile)]
            [] ln.k = "uwarn"     -> [st EXCEPT !.d = UserWARNING(o, d)]
            [] ln.k = "uerr"      -> [st EXCEPT !.d = UserERROR(o, d)]
            [] ln.k = "ufatal"    -> [st EXCEPT !.d = UserFATAL(o, d)]
            [] ln.k = "fwd"       -> Discover(o, [st EXCEPT !.c = [Emit(c, "fwd", FALSE) EXCEPT !.repass = @ \/ pass = 1]], pass)
            [] ln.k \in JumpKinds -> JumpFamilyStep(o, st, ln, pass)
            [] ln.k = "shrink"    -> ShrinkStep(o, st, pass)
            [] ln.k = "undef"     -> IF pass = 1 THEN [st EXCEPT !.c = [Emit(c, "undef", FALSE) EXCEPT !.repass = TRUE]]
                                     \* no code where the error is raised: what follows stands 3 bytes lower than in pass 1
                                     ELSE [st EXCEPT !.d = WrXErrorPos(o, d, NumSymbolUndef), !.c.shift = (pass = 2)]
            [] ln.k = "burstE"    -> [st EXCEPT !.d = IF ln.n <= 3 THEN Repeat(o, d, NumUnknownInstr, ln.n)
                                                      ELSE RepeatClosed(o, d, NumUnknownInstr, ln.n)]
            [] ln.k = "burstW"    -> [st EXCEPT !.d = IF ln.n <= 3 THEN Repeat(o, d, NumNullResMem, ln.n)
                                                      ELSE RepeatClosed(o, d, NumNullResMem, ln.n)]
            [] ln.k = "burstU"    -> [st EXCEPT !.d = IF ln.n <= 3 THEN RepeatUserW(o, d, ln.n)
                                                      ELSE RepeatClosed([o EXCEPT !.suppw = FALSE], d, NumNullResMem, ln.n)]
            [] ln.k = "expect"    -> [st EXCEPT !.d = CodeEXPECT(o, d, <<ExpectNumOf(ln.f)>>)]
            [] ln.k = "endexpect" -> [st EXCEPT !.d = CodeENDEXPECT(o, d)]
            [] ln.k = "flag"      -> IF ln.f \in Defs /\ ln.f \in c.flags                \* defined twice
                                     THEN [st EXCEPT !.d = WrXErrorPos(o, d, IF ln.f = "macro" THEN NumDoubleMacro
                                                                                ELSE NumDoubleDef)]
                                     ELSE IF ln.f \in CpuScoped THEN [st EXCEPT !.c.flags = @ \cup ({ln.f} \cap Leaky)]
                                     ELSE [st EXCEPT !.c.flags = @ \cup {ln.f}]
            [] ln.k = "probe"     -> [st EXCEPT !.c = Emit(c, ln.f, ln.f \in c.flags)]
            [] ln.k = "use"       -> IF ln.f \in c.flags THEN [st EXCEPT !.c = Emit(c, ln.f, TRUE)]
                                     ELSE [st EXCEPT !.d = WrXErrorPos(o, d, IF ln.f \in {"macro", "onoff"} THEN NumUnknownInstr
                                                                                ELSE NumUnknownFunction)]
            [] ln.k = "open"      ->
                 CASE ln.t = "if0"  -> [st EXCEPT !.c.ifd = @ + 1, !.c.ifasm = FALSE]
                   [] ln.t = "if1"  -> [st EXCEPT !.c.ifd = @ + 1]
                   [] ln.t = "mac"  -> [st EXCEPT !.c.rec = "mac"]
                   [] ln.t = "rept" -> [st EXCEPT !.c.rec = "rept"]
                   [] ln.t = "sec"  -> [st EXCEPT !.c.sed = @ + 1]
                   [] ln.t = "str"  -> [st EXCEPT !.c.std = @ + 1]
                   [] ln.t = "sav"  -> [st EXCEPT !.c.svd = @ + 1]
                   [] ln.t = "pha"  -> [st EXCEPT !.c.phd = @ + 1]

\* a line the closed forms are allowed on (their precondition), used as a guard by the generators
BurstOK(st, ln) == ln.k \in {"burstE", "burstW", "burstU"} => (~Has(st.d.exp, NumUnknownInstr) /\ ~Has(st.d.exp, NumNullResMem))

\* end of ProcessFile + AssembleFile_ExitPass: one error per construct left open, in the order of the code
Report(o, d, cond, num) == IF cond /\ ~d.fatal THEN WrXErrorPos(o, d, num) ELSE d

EndPassStep(o, st) ==
  LET c  == st.c
      d1 == Report(o, st.d, c.rec = "mac", NumOpenMacro)
      d2 == Report(o, d1, c.rec = "rept", NumOpenREPT)
      d3 == IF d2.fatal THEN d2 ELSE PassExit(o, d2)
      d4 == Report(o, d3, c.ifd > 0, NumMissEndif)
      d5 == Report(o, d4, c.svd > 0, NumNoRestoreFrame)
      d6 == Report(o, d5, c.sed > 0, NumMissingEndSect)
      d7 == Report(o, d6, c.std > 0, NumOpenStruct)
  IN [st EXCEPT !.d = d7]

RECURSIVE Fold(_, _, _, _, _)
Fold(o, st, lines, i, pass) == IF i > Len(lines) THEN st ELSE Fold(o, LineStep(o, st, lines[i], pass), lines, i + 1, pass)

RunPassP(o, lines, pass, carry, prevErr) == EndPassStep(o, Fold(o, FreshP(carry, prevErr), lines, 1, pass))
RunPass(o, lines, pass, carry) == RunPassP(o, lines, pass, carry, {})

\* what the end of a pass leaves in the stale pointers (StaleUntilInitPass); FirstSaveState is nulled by AsmDefInit
Residue(c) == [ifd |-> c.ifd, rec |-> IF c.rec = "none" THEN 0 ELSE 1, std |-> IF c.std > 0 THEN 1 ELSE 0,
               sed |-> IF c.sed > 0 THEN 1 ELSE 0]
NoResidue == [ifd |-> 0, rec |-> 0, std |-> 0, sed |-> 0]

\* the result of AssembleFile given the state of the last pass run, the number of passes and the channel totals
FileResult(o, last, passes, chE, chW, chF, discP) ==
  LET kept == ~last.d.fatal /\ last.d.err = 0 /\ o.codeout
  IN [assembled |-> TRUE, passes |-> passes, fatal |-> last.d.fatal,
      disc |-> last.d.disc, discAll |-> discP + last.d.disc,   \* error lines written but discounted (-Y): last / all passes
      sumE |-> last.d.err, sumW |-> last.d.warn,              \* what the summary prints (the counters)
      emE |-> last.d.emE, emW |-> last.d.emW,                  \* really written in the last pass
      chanE |-> chE, chanW |-> chW, chanF |-> chF,             \* really written in all passes
      kept |-> kept, failed |-> last.d.fatal \/ last.d.err # 0,
      code |-> IF kept THEN last.c.code ELSE <<>>,
      left |-> (last.c.flags \cap Leaky) \cup JmpTok(last.d.jmp), residue |-> Residue(last.c)]

NotAssembled == [assembled |-> FALSE, passes |-> 0, fatal |-> FALSE, disc |-> 0, discAll |-> 0,
                 sumE |-> 0, sumW |-> 0, emE |-> 0, emW |-> 0,
                 chanE |-> 0, chanW |-> 0, chanF |-> 0, kept |-> FALSE, failed |-> FALSE, code |-> <<>>,
                 left |-> {}, residue |-> NoResidue]

\* the pass loop `do ... while (ErrorCount == 0 && Repass)`.  acc = what the finished passes wrote to the error
\* channel.  MaxPass only bounds the model: in this alphabet every file settles after at most 4 passes
\* (forward references: 2; a transient jump error discarded with -Y: 4).
MaxPass == 6
ZeroAcc == [e |-> 0, w |-> 0, f |-> 0, disc |-> 0]
AddAcc(acc, d) == [e |-> acc.e + d.emE, w |-> acc.w + d.emW, f |-> acc.f + d.emF, disc |-> acc.disc + d.disc]
Again(p, pass) == ~p.d.fatal /\ p.d.err = 0 /\ p.c.repass /\ pass < MaxPass
RECURSIVE Passes(_, _, _, _, _, _)
Passes(o, lines, pass, carry, prevErr, acc) ==
  LET p == RunPassP(o, lines, pass, carry, prevErr)
  IN IF Again(p, pass)
     THEN Passes(o, lines, pass + 1, Handover(carry, p), p.c.nowErr, AddAcc(acc, p.d))
     ELSE FileResult(o, p, pass, acc.e + p.d.emE, acc.w + p.d.emW, acc.f + p.d.emF, acc.disc)
AsmFile(o, lines, carry) == Passes(o, lines, 1, carry, {}, ZeroAcc)

\* main(): files in order; a fatal error ends the run; the rest is not assembled
RECURSIVE Files(_, _, _, _)
Files(o, fs, i, carry) ==
  IF i > Len(fs) THEN <<>>
  ELSE LET r == AsmFile(o, fs[i], carry)
       IN IF r.fatal THEN <<r>> \o [j \in 1..(Len(fs) - i) |-> NotAssembled]
          ELSE <<r>> \o Files(o, fs, i + 1, (carry \ JmpTokens) \cup r.left)

StatusOf(rs) == IF \E i \in 1..Len(rs) : rs[i].fatal THEN 3
                ELSE IF \E i \in 1..Len(rs) : rs[i].failed THEN 2 ELSE 0

Outcome(o, fs) == LET rs == Files(o, fs, 1, {}) IN [status |-> StatusOf(rs), files |-> rs]

---------------------------------------------------------------------------
\* What property C02 says, over the ghost tallies of what was really written (rs = results of a finished run)
\* An error LINE that reached the error channel counts - unless -Y discounted it, which the code (and the manual:
\* "forget the error message when the address change has been detected") does only under -Y: C02_NoDiscardWithoutY.
Reported(r) == r.chanE > r.discAll \/ r.chanF > 0
C02_NoDiscardWithoutY(o, rs) == ~o.throw => \A i \in 1..Len(rs) : rs[i].discAll = 0
C02_StatusZeroIffNoError(status, rs) == (status = 0) <=> (\A i \in 1..Len(rs) : ~Reported(rs[i]))
C02_ZeroKeepsAll(o, status, rs) == (status = 0 /\ o.codeout) => \A i \in 1..Len(rs) : rs[i].kept
C02_ErrorsDropCode(rs) == \A i \in 1..Len(rs) : Reported(rs[i]) => ~rs[i].kept
C02_ErrorStatus(status, rs) == /\ (\E i \in 1..Len(rs) : rs[i].chanF > 0) <=> status = 3
                               /\ ((\E i \in 1..Len(rs) : Reported(rs[i])) /\ status # 3) => status = 2
C02_SummaryAgrees(rs) == \A i \in 1..Len(rs) : (rs[i].assembled /\ ~rs[i].fatal) =>
                             rs[i].sumE + rs[i].disc = rs[i].emE /\ rs[i].sumW = rs[i].emW
C02_WerrorLeavesNoWarnings(o, rs) == o.werror => \A i \in 1..Len(rs) : rs[i].chanW = 0

\* Declarative reading of a program, written without the operators above (position arithmetic over the text):
\* the diagnostics a line calls for under options o, for programs without EXPECT, open constructs and -maxerrors
DeclErr(o, ln) == CASE ln.k \in {"err", "uerr"} -> 1
                    [] ln.k = "burstE" -> ln.n
                    [] ln.k = "warn" -> IF o.werror /\ ~o.suppw THEN 1 ELSE 0
                    [] ln.k = "burstW" -> IF o.werror /\ ~o.suppw THEN ln.n ELSE 0
                    [] ln.k = "uwarn" -> IF o.werror THEN 1 ELSE 0
                    [] ln.k = "burstU" -> IF o.werror THEN ln.n ELSE 0
                    [] OTHER -> 0
DeclWarn(o, ln) == CASE ln.k = "warn" -> IF o.werror \/ o.suppw THEN 0 ELSE 1
                     [] ln.k = "burstW" -> IF o.werror \/ o.suppw THEN 0 ELSE ln.n
                     [] ln.k = "uwarn" -> IF o.werror THEN 0 ELSE 1
                     [] ln.k = "burstU" -> IF o.werror THEN 0 ELSE ln.n
                     [] OTHER -> 0
IsFatalLine(ln) == ln.k \in {"fatalI", "ufatal"}
Plain(lines) == \A i \in 1..Len(lines) : lines[i].k \notin {"expect", "endexpect", "open", "use", "undef", "shrink"} \cup JumpKinds
RECURSIVE SumTo(_, _, _)
SumTo(f, lines, n) == IF n = 0 THEN 0 ELSE f[n] + SumTo(f, lines, n - 1)
\* index of the first fatal line, or Len+1
FirstFatal(lines) == IF \E i \in 1..Len(lines) : IsFatalLine(lines[i])
                     THEN CHOOSE i \in 1..Len(lines) : IsFatalLine(lines[i]) /\ \A j \in 1..(i - 1) : ~IsFatalLine(lines[j])
                     ELSE Len(lines) + 1
DeclFile(o, lines) ==
  LET ff   == FirstFatal(lines)
      upto == IF ff <= Len(lines) THEN ff - 1 ELSE Len(lines)
      e    == SumTo([i \in 1..Len(lines) |-> DeclErr(o, lines[i])], lines, upto)
      w    == SumTo([i \in 1..Len(lines) |-> DeclWarn(o, lines[i])], lines, upto)
  IN [fatal |-> ff <= Len(lines), errors |-> e, warnings |-> w,
      status |-> IF ff <= Len(lines) THEN 3 ELSE IF e > 0 THEN 2 ELSE 0]
=============================================================================
