\* smoke: four hand-picked programs
CONSTANTS ArgPrint = "decimal" StrEscape = "dec3" RecursionGuard = TRUE ArgParen = TRUE WholeIdent = TRUE
          Level = 3 MaxDefs = 2 EmitCases = TRUE ExcludeKnown = TRUE
SPECIFICATION Spec
INVARIANTS Agreement DefAgreement TokenRoundTrip Emit
CHECK_DEADLOCK FALSE
