CONSTANTS ModeNames <- MCModes
 Leaky = {}
 MaxLen = 4
INIT Init
NEXT Next
INVARIANT PassCountDoesNotMatter
CHECK_DEADLOCK FALSE
