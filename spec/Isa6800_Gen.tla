----------------------------- MODULE Isa6800_Gen -----------------------------
EXTENDS Isa6800
CONSTANTS Cpu, K, Salt, Step
VARIABLES form, ops, pc
INSTANCE IsaGen
ASSUME TableSane
ASSUME Cardinality(DefinedOpcodes(FormsOfCpu, UnitBits)) = DefinedCount(Cpu)
=============================================================================
