------------------------------- MODULE CharMap -------------------------------
(***************************************************************************************************************)
(* The CHARACTER TRANSLATION state machine of AS: CHARSET, CODEPAGE, SAVE / RESTORE (doc/pseudo-instructions.md *)
(* "CHARSET", "CODEPAGE", "SAVE and RESTORE"; doc/assembler-usage.md "String to Integer Conversion and Character *)
(* Constants", option -U) - code: asmallg.c CodeCHARSET / CodeCODEPAGE / CodeSAVE / CodeRESTORE, as.c             *)
(* AssembleFile_InitPass (STANDARD created per pass), asmpars.c ClearCodepages, asmdef.h CharTransTable =         *)
(* CurrTransTable->Table; readers: asmpars.c NonZString2Int (character constants in expressions), asmpars.c       *)
(* EvalStrIntExpressionWithResult (instruction operands, CHARSET's third argument), asmsub.c TranslateString and  *)
(* motpseudo.c (strings in data statements).                                                                      *)
(*                                                                                                                 *)
(* CODE SIDE ("M..." operators, shaped like the C code).  The state is a little heap:                             *)
(*   tabs   sequence of tables (malloc'ed 256-byte arrays; index = pointer)                                        *)
(*   cells  sequence of list cells [name, tab, next] (TTransTable; index = pointer, 0 = NULL)                      *)
(*   head   TransTables (list sorted by strcmp of the names), cur  CurrTransTable, stack  the SaveTransTable       *)
(*          members of the SAVE frames, newest first                                                                *)
(* A table is a function over the window Codes (a subset of 0..255 fixed by the model; entries outside the window  *)
(* stay the identity because the generated statements never write them and never write values outside of it).      *)
(*                                                                                                                 *)
(* DECLARATIVE SIDE ("D..." operators; what the manual promises, on sets and functions): a set of named pages,     *)
(* each a function code -> code, the name of the active page, the stack of saved names; DStep is the meaning of    *)
(* one statement, DFold the meaning of a history.  The value of a character constant / the bytes of a string at a  *)
(* statement = the active page of DFold(statements in front of it in the same pass) applied char by char.          *)
(* BValue is a second, demand-driven reading of the same promise (it looks BACKWARDS from the probe for the last   *)
(* statement that wrote the entry); CharMap_MC checks machine = fold = backward reading.                           *)
(*                                                                                                                 *)
(* What the manual fixes and this module states:                                                                   *)
(*  * the table starts 1:1; CHARSET without arguments re-establishes 1:1 for the ACTIVE page only;                  *)
(*  * CHARSET i,v / i,j,v / i,"string": entries are ASSIGNED (v, v+1, ... resp. the characters of the string);      *)
(*  * "CAUTION": integer arguments written as character constants ('a') are themselves translated through the       *)
(*    table in force BEFORE the statement - the index as well as the value; the characters of a double-quoted        *)
(*    string argument are NOT;                                                                                       *)
(*  * CHARSET "file": the first 256 bytes of the file become the active page;                                        *)
(*  * CODEPAGE name[,source]: switch to the page; on the first switch it is created as a COPY of `source` (default:  *)
(*    the page active until now) - a copy taken at that moment; all later CHARSETs modify only the new page;          *)
(*  * every pass starts with the single page STANDARD, 1:1;                                                          *)
(*  * names of pages are case-insensitive unless AS runs with -U;                                                     *)
(*  * SAVE pushes, RESTORE pops "the currently active character translation table (set by CODEPAGE)": which page is  *)
(*    active.  Whether the CONTENTS of that page are rolled back, too, is not said; the code keeps the contents      *)
(*    (it saves the pointer).  DStepAlt is the other reading; the generator marks the places where the two differ    *)
(*    (no verdict there).                                                                                             *)
(* Named deviation of the code from the manual (DevSourceChecked): `CODEPAGE existing,unknown` - the manual says the  *)
(* second parameter "only has a meaning for the first switch to the table", the code looks the source up first and    *)
(* reports "unknown codepage" without switching.  The declarative side follows the code when DevSourceChecked = TRUE. *)
(* NOT in this version of AS: a form of CHARSET that deletes a mapping (undefined characters); a table entry is       *)
(* always defined.                                                                                                     *)
(***************************************************************************************************************)
EXTENDS Integers, Sequences, FiniteSets

CONSTANTS Codes,             \* window of character codes tracked by the model (subset of 0..255)
          FileTabs,          \* sequence of tables over Codes: the contents of the files CHARSET "file" may name
          Dev,               \* named deviations applied to the CODE side (must be refuted): subset of
                             \*   {"alias", "rawindex", "norestore", "resetall", "strtrans"}
          DevSourceChecked   \* TRUE: declarative side follows the code for CODEPAGE existing,unknown

Identity == [z \in Codes |-> z]
Byte == 0..255

(* ---- names of pages --------------------------------------------------------------------------------------- *)
\* a name as written: [id |-> 1.., lc |-> written in lower case].  Names are alphabetic, the first letters follow
\* the ids, so strcmp orders all upper-case spellings before all lower-case ones (ASCII) and by id within a case.
StdName == [id |-> 2, lc |-> FALSE]                      \* "STANDARD"
Norm(n, cs) == IF cs THEN n ELSE [n EXCEPT !.lc = FALSE] \* UpString unless CaseSensitive
Rank(n) == n.id + (IF n.lc THEN 100 ELSE 0)
StrCmp(a, b) == IF Rank(a) < Rank(b) THEN -1 ELSE IF Rank(a) > Rank(b) THEN 1 ELSE 0

(* ---- statements --------------------------------------------------------------------------------------------- *)
\* argument of CHARSET: [sp |-> "chr" | "num" | "-", v |-> integer]; "chr" = written as character constant 'x'
NoArg == [sp |-> "-", v |-> 0]
NoName == [id |-> 0, lc |-> FALSE]
Stmt(k, a, b, c, s, n, q) == [k |-> k, a |-> a, b |-> b, c |-> c, s |-> s, n |-> n, q |-> q]
Reset          == Stmt("reset", NoArg, NoArg, NoArg, <<>>, NoName, NoName)        \* CHARSET
One(a, b)      == Stmt("one", a, b, NoArg, <<>>, NoName, NoName)                  \* CHARSET a,b
Range(a, b, c) == Stmt("range", a, b, c, <<>>, NoName, NoName)                    \* CHARSET a,b,c
Str(a, s)      == Stmt("str", a, NoArg, NoArg, s, NoName, NoName)                 \* CHARSET a,"s"
File(f)        == Stmt("file", [sp |-> "num", v |-> f], NoArg, NoArg, <<>>, NoName, NoName)  \* CHARSET "file f"
CP1(n)         == Stmt("cp", NoArg, NoArg, NoArg, <<>>, n, NoName)                \* CODEPAGE n
CP2(n, q)      == Stmt("cp", NoArg, NoArg, NoArg, <<>>, n, q)                     \* CODEPAGE n,q
Save           == Stmt("save", NoArg, NoArg, NoArg, <<>>, NoName, NoName)
Restore        == Stmt("restore", NoArg, NoArg, NoArg, <<>>, NoName, NoName)
\* no effect on the machine: a symbol is given the value of a character constant; eager: sym SET 'x'|0 (an integer,
\* converted where it stands), lazy: sym SET 'x' (a string symbol, converted where it is USED)
Cap(eager, ch) == Stmt(IF eager THEN "capE" ELSE "capL", [sp |-> "chr", v |-> ch], NoArg, NoArg, <<>>, NoName, NoName)

IsCharset(st) == st.k \in {"reset", "one", "range", "str", "file"}

(***************************************************************************************************************)
(* CODE SIDE                                                                                                     *)
(***************************************************************************************************************)
MInit == [tabs |-> <<Identity>>, cells |-> <<[name |-> StdName, tab |-> 1, next |-> 0]>>, head |-> 1, cur |-> 1,
          stack |-> <<>>]                                            \* as.c AssembleFile_InitPass

MCurTab(m) == m.tabs[m.cells[m.cur].tab]                             \* CharTransTable
MSetCurTab(m, t) == [m EXCEPT !.tabs[m.cells[m.cur].tab] = t]

\* EvalStrExpression + TempResultToInt of a single-quoted string / an integer literal: asmpars.c NonZString2Int
MArg(m, a) == IF a.sp = "chr" /\ "rawindex" \notin Dev THEN MCurTab(m)[a.v] ELSE a.v

\* for (z = Start; z <= Stop; z++) CharTransTable[z] = TStart + (z - Start);      (unsigned char: mod 256)
RECURSIVE MLoopRange(_, _, _, _, _)
MLoopRange(t, z, stop, start, tstart) ==
  IF z > stop THEN t
  ELSE MLoopRange(IF z \in Codes THEN [t EXCEPT ![z] = (tstart + (z - start)) % 256] ELSE t, z + 1, stop, start, tstart)

\* for (z = 0; z < l; z++) CharTransTable[Start + z] = str[z];
RECURSIVE MLoopStr(_, _, _, _)
MLoopStr(t, z, start, s) ==
  IF z >= Len(s) THEN t
  ELSE MLoopStr(IF start + z \in Codes THEN [t EXCEPT ![start + z] = s[z + 1]] ELSE t, z + 1, start, s)

MTransStr(m, s) == IF "strtrans" \in Dev THEN [i \in 1..Len(s) |-> MCurTab(m)[s[i]]] ELSE s

\* asmallg.c CodeCHARSET; result [m, err]
MCharset(m, st) ==
  LET same == [m |-> m, err |-> TRUE] IN
  CASE st.k = "reset" ->
         IF "resetall" \in Dev THEN [m |-> [m EXCEPT !.tabs = [i \in 1..Len(m.tabs) |-> Identity]], err |-> FALSE]
         ELSE [m |-> MSetCurTab(m, Identity), err |-> FALSE]
    [] st.k = "file"  -> [m |-> MSetCurTab(m, FileTabs[st.a.v]), err |-> FALSE]           \* memcpy(CharTransTable, tfield, 256)
    [] OTHER ->
         LET start == MArg(m, st.a) IN
         IF start \notin Byte THEN same                                                     \* ChkRange(.., 0, 255)
         ELSE CASE st.k = "one" ->
                     LET tstart == MArg(m, st.b) IN
                     IF tstart \notin Byte THEN same
                     ELSE [m |-> MSetCurTab(m, MLoopRange(MCurTab(m), start, start, start, tstart)), err |-> FALSE]
                [] st.k = "range" ->
                     LET stop == MArg(m, st.b) IN
                     IF ~(start <= stop /\ stop <= 255) THEN same                           \* ChkRange(Stop, Start, 255)
                     ELSE LET tstart == MArg(m, st.c) IN                                    \* EvalStrIntExpression(UInt8)
                          IF tstart \notin Byte THEN same
                          ELSE [m |-> MSetCurTab(m, MLoopRange(MCurTab(m), start, stop, start, tstart)), err |-> FALSE]
                [] st.k = "str" ->
                     IF start + Len(st.s) > 256 THEN same
                     ELSE [m |-> MSetCurTab(m, MLoopStr(MCurTab(m), 0, start, MTransStr(m, st.s))), err |-> FALSE]

\* for (Source = TransTables; Source; Source = Source->Next) if (!strcmp(Source->Name, Arg2)) break;
RECURSIVE MFind(_, _, _)
MFind(cells, p, name) == IF p = 0 THEN 0 ELSE IF cells[p].name = name THEN p ELSE MFind(cells, cells[p].next, name)

\* for (Prev = NULL, Run = TransTables; Run; Prev = Run, Run = Run->Next) if ((erg = strcmp(Arg1, Run->Name)) <= 0) break;
RECURSIVE MLocate(_, _, _, _)
MLocate(cells, prev, run, name) ==
  IF run = 0 THEN [prev |-> prev, run |-> 0, erg |-> 1]
  ELSE LET erg == StrCmp(name, cells[run].name) IN
       IF erg <= 0 THEN [prev |-> prev, run |-> run, erg |-> erg] ELSE MLocate(cells, run, cells[run].next, name)

\* asmallg.c CodeCODEPAGE
MCodepage(m, st, cs) ==
  LET name   == Norm(st.n, cs)
      source == IF st.q = NoName THEN m.cur ELSE MFind(m.cells, m.head, Norm(st.q, cs)) IN
  IF source = 0 THEN [m |-> m, err |-> TRUE]                                                \* ErrNum_UnknownCodepage
  ELSE LET loc == MLocate(m.cells, 0, m.head, name) IN
       IF loc.run = 0 \/ loc.erg < 0
       THEN LET alias  == "alias" \in Dev
                ntab   == IF alias THEN m.cells[source].tab ELSE Len(m.tabs) + 1          \* malloc + memcpy
                tabs1  == IF alias THEN m.tabs ELSE Append(m.tabs, m.tabs[m.cells[source].tab])
                new    == Len(m.cells) + 1
                cells1 == Append(m.cells, [name |-> name, tab |-> ntab, next |-> loc.run])
                cells2 == IF loc.prev = 0 THEN cells1 ELSE [cells1 EXCEPT ![loc.prev].next = new]
            IN [m |-> [m EXCEPT !.tabs = tabs1, !.cells = cells2, !.head = IF loc.prev = 0 THEN new ELSE m.head,
                               !.cur = new], err |-> FALSE]
       ELSE [m |-> [m EXCEPT !.cur = loc.run], err |-> FALSE]

\* asmallg.c CodeSAVE / CodeRESTORE (the translation table member of the frame only)
MSave(m) == [m |-> [m EXCEPT !.stack = <<m.cur>> \o m.stack], err |-> FALSE]
MRestore(m) == IF m.stack = <<>> THEN [m |-> m, err |-> TRUE]                               \* ErrNum_NoSaveFrame
               ELSE [m |-> [m EXCEPT !.stack = Tail(m.stack),
                                     !.cur = IF "norestore" \in Dev THEN m.cur ELSE Head(m.stack)], err |-> FALSE]

MStep(m, st, cs) ==
  CASE IsCharset(st)     -> MCharset(m, st)
    [] st.k = "cp"       -> MCodepage(m, st, cs)
    [] st.k = "save"     -> MSave(m)
    [] st.k = "restore"  -> MRestore(m)
    [] OTHER             -> [m |-> m, err |-> FALSE]

\* structure of the heap: the list is strictly sorted, cur and the saved pointers are members of it
RECURSIVE MList(_, _)
MList(cells, p) == IF p = 0 THEN <<>> ELSE <<p>> \o MList(cells, cells[p].next)
MWellFormed(m) ==
  LET l == MList(m.cells, m.head) IN
  /\ \A i \in 1..(Len(l) - 1) : StrCmp(m.cells[l[i]].name, m.cells[l[i + 1]].name) < 0
  /\ Len(l) = Len(m.cells)
  /\ \E i \in 1..Len(l) : l[i] = m.cur
  /\ \A j \in 1..Len(m.stack) : \E i \in 1..Len(l) : l[i] = m.stack[j]
  /\ "alias" \notin Dev => \A i, j \in 1..Len(l) : i # j => m.cells[l[i]].tab # m.cells[l[j]].tab

\* abstraction of the heap: pages by name, active name, saved names
MAbs(m) ==
  LET l == MList(m.cells, m.head)
      names == {m.cells[l[i]].name : i \in 1..Len(l)}
      cellOf(n) == CHOOSE p \in 1..Len(m.cells) : m.cells[p].name = n /\ \E i \in 1..Len(l) : l[i] = p
  IN [pages |-> [n \in names |-> m.tabs[m.cells[cellOf(n)].tab]], active |-> m.cells[m.cur].name,
      stack |-> [j \in 1..Len(m.stack) |-> m.cells[m.stack[j]].name]]

\* all values stay inside the window (the bounded model does not follow statements that leave it)
MClosed(m) == \A i \in 1..Len(m.tabs) : \A z \in Codes : m.tabs[i][z] \in Codes

(***************************************************************************************************************)
(* DECLARATIVE SIDE                                                                                              *)
(***************************************************************************************************************)
DInit == [pages |-> [n \in {StdName} |-> Identity], active |-> StdName, stack |-> <<>>]
DTab(d) == d.pages[d.active]

\* "integer constants written as ASCII" are translated by the table in force
DArg(d, a) == IF a.sp = "chr" THEN DTab(d)[a.v] ELSE a.v

\* is the statement an error (then it has no effect)?
DErr(d, st, cs) ==
  CASE st.k = "one"     -> DArg(d, st.a) \notin Byte \/ DArg(d, st.b) \notin Byte
    [] st.k = "range"   -> \/ DArg(d, st.a) \notin Byte \/ DArg(d, st.b) \notin Byte \/ DArg(d, st.b) < DArg(d, st.a)
                           \/ DArg(d, st.c) \notin Byte
    [] st.k = "str"     -> DArg(d, st.a) \notin Byte \/ DArg(d, st.a) + Len(st.s) > 256
    [] st.k = "cp"      -> /\ st.q # NoName /\ Norm(st.q, cs) \notin DOMAIN d.pages
                           /\ (DevSourceChecked \/ Norm(st.n, cs) \notin DOMAIN d.pages)
    [] st.k = "restore" -> d.stack = <<>>
    [] OTHER            -> FALSE

\* the new contents of the active page
DWrite(d, st) ==
  LET t == DTab(d) IN
  CASE st.k = "reset" -> Identity
    [] st.k = "file"  -> FileTabs[st.a.v]
    [] st.k = "one"   -> [z \in Codes |-> IF z = DArg(d, st.a) THEN DArg(d, st.b) ELSE t[z]]
    [] st.k = "range" -> [z \in Codes |-> IF DArg(d, st.a) <= z /\ z <= DArg(d, st.b)
                                          THEN (DArg(d, st.c) + (z - DArg(d, st.a))) % 256 ELSE t[z]]
    [] st.k = "str"   -> [z \in Codes |-> IF DArg(d, st.a) <= z /\ z < DArg(d, st.a) + Len(st.s)
                                          THEN st.s[z - DArg(d, st.a) + 1] ELSE t[z]]

Extend(f, k, v) == [x \in DOMAIN f \cup {k} |-> IF x = k THEN v ELSE f[x]]

DStep(d, st, cs) ==
  IF DErr(d, st, cs) THEN d
  ELSE CASE IsCharset(st)    -> [d EXCEPT !.pages[d.active] = DWrite(d, st)]
         [] st.k = "cp"      -> LET n == Norm(st.n, cs) IN
                                IF n \in DOMAIN d.pages THEN [d EXCEPT !.active = n]
                                ELSE LET src == IF st.q = NoName THEN d.active ELSE Norm(st.q, cs) IN
                                     [d EXCEPT !.pages = Extend(d.pages, n, d.pages[src]), !.active = n]
         [] st.k = "save"    -> [d EXCEPT !.stack = <<d.active>> \o d.stack]
         [] st.k = "restore" -> [d EXCEPT !.active = Head(d.stack), !.stack = Tail(d.stack)]
         [] OTHER            -> d

RECURSIVE DFoldFrom(_, _, _, _)
DFoldFrom(d, h, i, cs) == IF i > Len(h) THEN d ELSE DFoldFrom(DStep(d, h[i], cs), h, i + 1, cs)
DFold(h, cs) == DFoldFrom(DInit, h, 1, cs)
Prefix(h, n) == SubSeq(h, 1, n)

\* ---- the other reading of SAVE/RESTORE: the saved table is a snapshot of the contents ----------------------
\* state: as D, the stack holds [n |-> name, t |-> contents]
AInit == DInit
AStep(d, st, cs) ==
  LET plain == [d EXCEPT !.stack = [j \in 1..Len(d.stack) |-> d.stack[j].n]] IN
  IF DErr(plain, st, cs) THEN d
  ELSE CASE st.k = "save"    -> [d EXCEPT !.stack = <<[n |-> d.active, t |-> DTab(d)]>> \o d.stack]
         [] st.k = "restore" -> [d EXCEPT !.active = Head(d.stack).n, !.pages[Head(d.stack).n] = Head(d.stack).t,
                                          !.stack = Tail(d.stack)]
         [] OTHER            -> LET r == DStep(plain, st, cs) IN [r EXCEPT !.stack = d.stack]

(***************************************************************************************************************)
(* BACKWARD READING: the value of character code z at the point behind the first n statements of history h.      *)
(* It asks, going back from the probe: which page is active here?  which statement wrote entry z of that page    *)
(* last?  if none: from which page was it copied when it was created?  ... down to the 1:1 table of the pass      *)
(* start.  Shares nothing with DStep except DErr's notion of an erroneous statement (re-stated here on the        *)
(* backward functions).                                                                                            *)
(***************************************************************************************************************)
RECURSIVE BActive(_, _, _), BExists(_, _, _, _), BEntry(_, _, _, _, _), BErr(_, _, _), BMatch(_, _, _)

BArg(h, n, a, cs) == IF a.sp = "chr" THEN BEntry(h, n, BActive(h, n, cs), a.v, cs) ELSE a.v

\* the SAVE matched by a RESTORE standing behind position j, with `depth` effective RESTOREs still to be matched
BMatch(h, j, depth) ==
  IF j = 0 THEN 0
  ELSE CASE h[j].k = "save"    -> IF depth = 0 THEN j ELSE BMatch(h, j - 1, depth - 1)
         [] h[j].k = "restore" -> IF BMatch(h, j - 1, 0) # 0 THEN BMatch(h, j - 1, depth + 1)
                                  ELSE BMatch(h, j - 1, depth)
         [] OTHER              -> BMatch(h, j - 1, depth)

BErr(h, n, cs) ==
  LET st == h[n] IN
  CASE st.k = "one"     -> BArg(h, n - 1, st.a, cs) \notin Byte \/ BArg(h, n - 1, st.b, cs) \notin Byte
    [] st.k = "range"   -> \/ BArg(h, n - 1, st.a, cs) \notin Byte \/ BArg(h, n - 1, st.b, cs) \notin Byte
                           \/ BArg(h, n - 1, st.b, cs) < BArg(h, n - 1, st.a, cs) \/ BArg(h, n - 1, st.c, cs) \notin Byte
    [] st.k = "str"     -> BArg(h, n - 1, st.a, cs) \notin Byte \/ BArg(h, n - 1, st.a, cs) + Len(st.s) > 256
    [] st.k = "cp"      -> /\ st.q # NoName /\ ~BExists(h, n - 1, Norm(st.q, cs), cs)
                           /\ (DevSourceChecked \/ ~BExists(h, n - 1, Norm(st.n, cs), cs))
    [] st.k = "restore" -> BMatch(h, n - 1, 0) = 0
    [] OTHER            -> FALSE

BExists(h, n, p, cs) == p = StdName \/ \E j \in 1..n : h[j].k = "cp" /\ Norm(h[j].n, cs) = p /\ ~BErr(h, j, cs)

BActive(h, n, cs) ==
  IF n = 0 THEN StdName
  ELSE LET st == h[n] IN
       IF BErr(h, n, cs) THEN BActive(h, n - 1, cs)
       ELSE CASE st.k = "cp"      -> Norm(st.n, cs)
              [] st.k = "restore" -> BActive(h, BMatch(h, n - 1, 0) - 1, cs)   \* as it was in front of the SAVE
              [] OTHER            -> BActive(h, n - 1, cs)

BEntry(h, n, p, z, cs) ==
  IF n = 0 THEN z
  ELSE LET st == h[n] IN
       IF BErr(h, n, cs) THEN BEntry(h, n - 1, p, z, cs)
       ELSE IF st.k = "cp" /\ Norm(st.n, cs) = p /\ ~BExists(h, n - 1, p, cs)
            THEN BEntry(h, n - 1, IF st.q = NoName THEN BActive(h, n - 1, cs) ELSE Norm(st.q, cs), z, cs)
       ELSE IF IsCharset(st) /\ BActive(h, n - 1, cs) = p
            THEN CASE st.k = "reset" -> z
                   [] st.k = "file"  -> FileTabs[st.a.v][z]
                   [] st.k = "one"   -> IF z = BArg(h, n - 1, st.a, cs) THEN BArg(h, n - 1, st.b, cs)
                                        ELSE BEntry(h, n - 1, p, z, cs)
                   [] st.k = "range" -> LET lo == BArg(h, n - 1, st.a, cs) IN
                                        IF lo <= z /\ z <= BArg(h, n - 1, st.b, cs)
                                        THEN (BArg(h, n - 1, st.c, cs) + (z - lo)) % 256 ELSE BEntry(h, n - 1, p, z, cs)
                   [] st.k = "str"   -> LET lo == BArg(h, n - 1, st.a, cs) IN
                                        IF lo <= z /\ z < lo + Len(st.s) THEN st.s[z - lo + 1] ELSE BEntry(h, n - 1, p, z, cs)
       ELSE BEntry(h, n - 1, p, z, cs)

BValue(h, n, z, cs) == BEntry(h, n, BActive(h, n, cs), z, cs)

(***************************************************************************************************************)
(* WHERE THE TABLE IS APPLIED: probes.  A probe is a statement that lays down bytes; its element values are a     *)
(* function of the active table t.                                                                                *)
(*   str   data statement with a double-quoted string        "xyz"      one element per character, translated     *)
(*   chr   data statement with one character constant        'x'        one element, translated                   *)
(*   multi word data statement, multi-character constant     'xy'       one 16-bit element t[x]*256 + t[y]         *)
(*   expr  data statement, character constant in a term      'x'|0      translated (operand conversion)           *)
(*   insn  instruction with an immediate character constant  LD A,'x'   translated                                *)
(*   cmp   data statement, comparison of two strings         ("x"="y")&1   NOT translated: raw characters compared *)
(***************************************************************************************************************)
Probe(f, cs) == [f |-> f, cs |-> cs]
ProbeVal(p, t) ==
  CASE p.f = "str"   -> [i \in 1..Len(p.cs) |-> t[p.cs[i]]]
    [] p.f = "chr"   -> <<t[p.cs[1]]>>
    [] p.f = "expr"  -> <<t[p.cs[1]]>>
    [] p.f = "insn"  -> <<t[p.cs[1]]>>
    [] p.f = "multi" -> <<t[p.cs[1]] * 256 + t[p.cs[2]]>>
    [] p.f = "cmp"   -> <<IF p.cs[1] = p.cs[2] THEN 1 ELSE 0>>
=============================================================================
