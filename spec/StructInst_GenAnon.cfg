\* every nested definition is nameless (SubNames = {}): labelled members inside nameless bodies, then instances
CONSTANTS MaxLen = 12 MaxDepth = 2 MaxInst = 2 MaxDefs = 2 SubNames = {} Sizes = {1, 2} MinInst = 1 MinPhased = 0
          EndForms = "plain" Moves = TRUE Errors = FALSE Strict = FALSE Segs = {"code", "data"} StructSeg = "struct"
CONSTANTS OptSets <- Opt_dots SubOptSets <- Opt_plain DimSets <- Dim_arr
CONSTANT FixAnon <- FixAnonEnv
INIT GInit
NEXT GNext
INVARIANT Dump
CHECK_DEADLOCK FALSE
