-------------------------------- MODULE ALink --------------------------------
(* ALINK: link relocatable AS code files into one absolute code file.                                  *)
(*                                                                                                     *)
(* Neither the manual (doc/*.md) nor the property list says what ALINK does; man/alink.1 calls it work *)
(* in progress and only fixes the exit codes (0 ok, 1 parameters, 2 I/O, 3 input format).  The         *)
(* declarative side below (Link_decl) is therefore written from the meaning fileformat.h gives to the  *)
(* records: exported symbols resolve the patch entries of all input files; the result is an absolute   *)
(* code file whose memory image is the image of the inputs with every patched field replaced by        *)
(* field +/- value of the symbol (width, endianness and sign from the relocation type), records of     *)
(* relocatable segments laid out one behind the other from address 0 of their segment.                 *)
(* The operational side is alink.c: pass 1 ReadSymbols (part list, double definitions), the placement  *)
(* loop of main, pass 2 ProcessFile (PartRun pointer, GetValue/PutValue, undefined symbols), one step   *)
(* per record.  Places where alink.c does something else than Link_decl are NAMED DEVIATIONS (Devs).    *)
(*                                                                                                     *)
(* A case: [files |-> << bytes of input file 1, .. >>]  (command line order).                           *)
(* An observation: [rc (128 + signal when killed), bytes (target file, <<>> when absent),              *)
(*                  undef (names of the "undefined symbol" lines, in order), dbl (names of the         *)
(*                  "double defined symbol" lines)].                                                   *)
EXTENDS RelocFile, TLC

Devs == {"plain_part_null",          \* GetExport walks the part list and dereferences RelocInfo of EVERY part: a record
                                     \* without relocation info ($81 / $83) in front of the part that exports the name
                                     \* (or anywhere, when nobody exports it) is a NULL dereference (SIGSEGV)
         "undef_part_stall",         \* ProcessFile does not advance PartRun when a record had an undefined symbol: the
                                     \* following records of the run are patched with the relocation info of the wrong part
                                     \* (repeated messages, NULL dereference when that part has none)
         "patch_outside_unchecked",  \* ProcessFile indexes its record buffer with addr - start without looking at the record
                                     \* length: a patch entry outside its record reads and writes foreign heap memory
                                     \* (asl itself writes such entries at the 64 KiB record split, RelocWriter.tla)
         "dup_in_record_unnoticed",  \* ReadSymbols looks for a double definition only in the parts ALREADY in the list: two
                                     \* export entries with one name in the SAME relocation-info record pass, the first wins
         "reloc_plain_passthrough"}  \* a $83 record (relocatable, no symbols) is copied with its ORIGINAL address and
                                     \* WriteRecordHeader's fall-through branch writes only the CPU byte: not moved, and
                                     \* segment / granularity are lost

RcCrash == 139      \* 128 + SIGSEGV
RcAny == -1         \* the C code reads or writes outside its record buffer: no prediction

\* ALink's GetValue / PutValue know these types (flags SUB and PAGE masked off); HAS64 build
Knows(t) == Simple(t) /\ t.bits \in {8, 16, 32, 64}

(***************************************************************************)
(* operational                                                             *)
(***************************************************************************)
DataItems(items) == SelectSeq(items, LAMBDA it : IsData(it))
PartOf(fi, it) == [file |-> fi, start |-> it.start, len |-> Len(it.data), gran |-> it.gran, seg |-> it.seg,
                   rel |-> it.rel, info |-> it.info]
\* alink.c GetExport: [found, value, crash]
RECURSIVE GetExport(_, _, _, _)
GetExport(D, parts, i, name) ==
  IF i > Len(parts) THEN [found |-> FALSE, value |-> 0, crash |-> FALSE]
  ELSE IF parts[i].info = <<>> THEN
         IF "plain_part_null" \in D THEN [found |-> FALSE, value |-> 0, crash |-> TRUE] ELSE GetExport(D, parts, i + 1, name)
  ELSE LET X == parts[i].info[1].exports
           Z == {z \in 1..Len(X) : X[z].name = name}
       IN IF Z # {} THEN [found |-> TRUE, value |-> X[CHOOSE z \in Z : \A y \in Z : z <= y].value, crash |-> FALSE]
          ELSE GetExport(D, parts, i + 1, name)

\* WriteRecordHeader for a $81 record: short form when the format allows it
WrShort(it) == ~((it.seg # SegCode) \/ (it.gran # ImplicitGran(it.cpu, it.seg)) \/ (it.cpu >= 128))
DataHeader(it) == IF WrShort(it) THEN <<it.cpu>> ELSE <<129, it.cpu, it.seg, it.gran>>

S0(c) ==
  LET ds == [i \in 1..Len(c.files) |-> RDecode(c.files[i])] IN
  [ph |-> "sym", fi |-> 1, ii |-> 1, its |-> [i \in 1..Len(c.files) |-> ds[i].items], bad |-> [i \in 1..Len(c.files) |-> ~ds[i].ok],
   parts |-> <<>>, pr |-> 1, out |-> Magic, undef |-> <<>>, dbl |-> <<>>, flag |-> "", cnt |-> 0]

\* pass 1, one item: ReadSymbols
SymStep(D, s) ==
  IF s.fi > Len(s.its) THEN [s EXCEPT !.ph = IF s.dbl # <<>> THEN "done" ELSE "arrange", !.flag = IF s.dbl # <<>> THEN "dbl" ELSE ""]
  ELSE IF s.bad[s.fi] /\ s.ii > Len(s.its[s.fi]) THEN [s EXCEPT !.ph = "done", !.flag = "format"]   \* FormatError where the grammar breaks
  ELSE IF s.ii > Len(s.its[s.fi]) THEN [s EXCEPT !.fi = @ + 1, !.ii = 1]
  ELSE LET it == s.its[s.fi][s.ii] IN
       IF ~IsData(it) THEN [s EXCEPT !.ii = @ + 1]                                       \* SkipRecord (entry, stray info)
       ELSE LET X == IF HasInfo(it) THEN InfoOf(it).exports ELSE <<>>
                R == [z \in 1..Len(X) |-> GetExport(D, s.parts, 1, X[z].name)]
                own(z) == "dup_in_record_unnoticed" \notin D /\ \E y \in 1..(z - 1) : X[y].name = X[z].name
            IN IF \E z \in 1..Len(X) : R[z].crash THEN [s EXCEPT !.ph = "done", !.flag = "crash"]
               ELSE [s EXCEPT !.parts = Append(@, PartOf(s.fi, it)), !.ii = @ + 1,
                              !.dbl = @ \o SelectSeq([z \in 1..Len(X) |-> IF R[z].found \/ own(z) THEN X[z].name ELSE <<>>], LAMBDA n : n # <<>>)]

\* main(): arrange relocatable segments in memory, relocate global symbols
RECURSIVE Arrange(_, _, _)
Arrange(parts, i, ss) ==
  IF i > Len(parts) THEN parts
  ELSE LET p == parts[i] IN
       IF ~p.rel THEN Arrange(parts, i + 1, ss)
       ELSE LET diff == ss[p.seg] - p.start
                inf == IF p.info = <<>> THEN <<>>
                       ELSE <<[patches |-> [z \in 1..Len(p.info[1].patches) |-> [p.info[1].patches[z] EXCEPT !.addr = @ + diff]],
                               exports |-> [z \in 1..Len(p.info[1].exports) |->
                                              IF p.info[1].exports[z].flags % 2 = 1 THEN [p.info[1].exports[z] EXCEPT !.value = @ + diff]
                                              ELSE p.info[1].exports[z]]]>>
            IN Arrange([parts EXCEPT ![i] = [p EXCEPT !.start = ss[p.seg], !.info = inf]], i + 1,
                       [ss EXCEPT ![p.seg] = @ + (p.len \div p.gran)])
ArrangeStep(s) ==
  LET ps == Arrange(s.parts, 1, [z \in 0..10 |-> 0])
  IN [s EXCEPT !.parts = ps, !.ph = "link", !.fi = 1, !.ii = 0]                \* ii = 0: ProcessFile has not looked up PartRun yet

\* pass 2: patches of one record.  st = [buf, undef, flag]; flag "" | "crash" | "type" | "oob"
RECURSIVE Patch(_, _, _, _, _)
Patch(D, parts, part, z, st) ==
  IF z > Len(part.info[1].patches) \/ st.flag # "" THEN st
  ELSE LET pt == part.info[1].patches[z]
           g == IF pt.name = SegStartName THEN [found |-> TRUE, value |-> part.start, crash |-> FALSE]
                ELSE GetExport(D, parts, 1, pt.name)
           off == pt.addr - part.start
       IN IF g.crash THEN [st EXCEPT !.flag = "crash"]
          ELSE IF ~g.found THEN Patch(D, parts, part, z + 1, [st EXCEPT !.undef = Append(@, pt.name), !.failed = TRUE])
          ELSE IF ~Knows(pt.type) THEN [st EXCEPT !.flag = "type"]                               \* "unknown relocation type", exit(3)
          ELSE IF ~FieldInside(st.buf, off, pt.type)
               THEN [st EXCEPT !.flag = IF "patch_outside_unchecked" \in D THEN "oob" ELSE "format"]    \* repaired: format error
          ELSE LET old == FieldLE(st.buf, off, pt.type)
                   val == DigitsLE(g.value, Width(pt.type))
                   new == IF pt.type.sub THEN SubLE(old, val) ELSE AddLE(old, val)
               IN Patch(D, parts, part, z + 1, [st EXCEPT !.buf = PutFieldLE(st.buf, off, pt.type, new)])

LinkStep(D, s) ==
  IF s.fi > Len(s.its) THEN
     [s EXCEPT !.ph = "done", !.out = @ \o <<0>>, !.flag = IF s.undef # <<>> THEN "undef" ELSE "ok"]
  ELSE IF s.ii = 0 THEN        \* "we only have to look for the first part of this file in the list"
     LET F == {i \in 1..Len(s.parts) : s.parts[i].file >= s.fi}
     IN [s EXCEPT !.ii = 1, !.pr = IF F = {} THEN Len(s.parts) + 1 ELSE CHOOSE i \in F : \A j \in F : i <= j]
  ELSE IF s.ii > Len(s.its[s.fi]) THEN [s EXCEPT !.fi = @ + 1, !.ii = 0]
  ELSE LET it == s.its[s.fi][s.ii]
           adv == IF s.pr <= Len(s.parts) THEN s.pr + 1 ELSE s.pr
       IN
       IF ~IsData(it) THEN [s EXCEPT !.ii = @ + 1]                                                  \* entry records are dropped
       ELSE IF ~HasInfo(it) THEN
          \* "records without relocation info do not need any processing - just pass them through"
          LET hdr == IF ~it.rel THEN DataHeader(it)
                     ELSE IF "reloc_plain_passthrough" \in D THEN <<it.cpu>> ELSE DataHeader(it)
              adr == IF it.rel /\ "reloc_plain_passthrough" \notin D /\ s.pr <= Len(s.parts) THEN s.parts[s.pr].start ELSE it.start
          IN [s EXCEPT !.out = @ \o hdr \o LE4(adr) \o LE2(Len(it.data)) \o it.data, !.pr = adv, !.ii = @ + 1, !.cnt = @ + 1]
       ELSE IF s.pr > Len(s.parts) THEN [s EXCEPT !.ph = "done", !.flag = "crash"]                  \* PartRun = NULL
       ELSE LET part == s.parts[s.pr] IN
            IF part.info = <<>> THEN [s EXCEPT !.ph = "done", !.flag = "crash"]                     \* PartRun->RelocInfo = NULL
            ELSE LET st == Patch(D, s.parts, part, 1, [buf |-> it.data, undef |-> <<>>, flag |-> "", failed |-> FALSE]) IN
                 IF st.flag # "" THEN [s EXCEPT !.ph = "done", !.flag = st.flag, !.undef = @ \o st.undef]
                 ELSE IF st.failed
                      THEN [s EXCEPT !.undef = @ \o st.undef, !.ii = @ + 1,
                                     !.pr = IF "undef_part_stall" \in D THEN @ ELSE adv]
                      ELSE [s EXCEPT !.out = @ \o DataHeader(it) \o LE4(part.start) \o LE2(Len(it.data)) \o st.buf,
                                     !.pr = adv, !.ii = @ + 1, !.cnt = @ + 1]

Ended(s) == s.ph = "done"
StepOp(D, s) == CASE s.ph = "sym" -> SymStep(D, s) [] s.ph = "arrange" -> ArrangeStep(s) [] s.ph = "link" -> LinkStep(D, s) [] OTHER -> s
RECURSIVE RunFrom(_, _)
RunFrom(D, s) == IF Ended(s) THEN s ELSE RunFrom(D, StepOp(D, s))
\* body = the target file up to and including the header byte of the creator record ("ALINK <version>/<arch>" follows)
ResultOf(s) ==
  CASE s.flag = "ok"     -> [rc |-> 0, body |-> s.out, undef |-> <<>>, dbl |-> <<>>]
    [] s.flag = "undef"  -> [rc |-> 1, body |-> <<>>, undef |-> s.undef, dbl |-> <<>>]        \* target unlinked
    [] s.flag = "dbl"    -> [rc |-> 1, body |-> <<>>, undef |-> <<>>, dbl |-> s.dbl]          \* target never opened
    [] s.flag = "format" -> [rc |-> 3, body |-> <<>>, undef |-> s.undef, dbl |-> s.dbl]
    [] s.flag = "type"   -> [rc |-> 3, body |-> <<>>, undef |-> s.undef, dbl |-> <<>>]        \* target left behind, incomplete
    [] s.flag = "crash"  -> [rc |-> RcCrash, body |-> <<>>, undef |-> s.undef, dbl |-> s.dbl]
    [] OTHER             -> [rc |-> RcAny, body |-> <<>>, undef |-> <<>>, dbl |-> <<>>]
Run(D, c) == ResultOf(RunFrom(D, S0(c)))

(***************************************************************************)
(* declarative: Link_decl                                                  *)
(***************************************************************************)
Decoded(c) == [i \in 1..Len(c.files) |-> RDecode(c.files[i])]
\* all data records of the link set in command-line / file order
Recs(c) == FoldLeft(LAMBDA acc, d : acc \o DataItems(d.items), <<>>, Decoded(c))
\* relocatable records are laid out one behind the other from address 0 of their segment
NewStart(R, k) == IF ~R[k].rel THEN R[k].start
                  ELSE FoldLeft(LAMBDA a, j : IF j < k /\ R[j].rel /\ R[j].seg = R[k].seg THEN a + Units(R[j]) ELSE a,
                                0, [j \in 1..Len(R) |-> j])
Disp(R, k) == NewStart(R, k) - R[k].start
\* the global symbol table: every export entry of every record
SymEntries(R) == UNION {{[k |-> k, z |-> z, name |-> InfoOf(R[k]).exports[z].name,
                          value |-> InfoOf(R[k]).exports[z].value + (IF InfoOf(R[k]).exports[z].flags % 2 = 1 THEN Disp(R, k) ELSE 0)]
                         : z \in 1..Len(InfoOf(R[k]).exports)} : k \in {j \in 1..Len(R) : HasInfo(R[j])}}
DupNames(R) == {e.name : e \in {x \in SymEntries(R) : \E y \in SymEntries(R) : y.name = x.name /\ <<y.k, y.z>> # <<x.k, x.z>>}}
ValueOf(R, k, name) == IF name = SegStartName THEN NewStart(R, k) ELSE (CHOOSE e \in SymEntries(R) : e.name = name).value
PatchesOf(it) == IF HasInfo(it) THEN InfoOf(it).patches ELSE <<>>
Referenced(R) == UNION {{PatchesOf(R[k])[z].name : z \in 1..Len(PatchesOf(R[k]))} : k \in 1..Len(R)}
Undefined(R) == {n \in Referenced(R) : n # SegStartName /\ ~\E e \in SymEntries(R) : e.name = n}
\* the fields of one record: [off, t] with t = type without the sign; the integer that is added to a field
FieldKey(it, pt) == [off |-> pt.addr - it.start, t |-> [pt.type EXCEPT !.sub = FALSE]]
Fields(it) == {FieldKey(it, PatchesOf(it)[z]) : z \in 1..Len(PatchesOf(it))}
Bytes(f) == f.off..(f.off + Width(f.t) - 1)
FieldsSeparate(it) == \A f, g \in Fields(it) : f = g \/ Bytes(f) \cap Bytes(g) = {}
Delta(R, k, f) == FoldLeft(LAMBDA a, pt : IF FieldKey(R[k], pt) = f
                                           THEN (IF pt.type.sub THEN a - ValueOf(R, k, pt.name) ELSE a + ValueOf(R, k, pt.name)) ELSE a,
                           0, PatchesOf(R[k]))
Patched(R, k) ==
  LET it == R[k]
      fs == SetToSeq(Fields(it))
  IN FoldLeft(LAMBDA d, f : PutFieldLE(d, f.off, f.t, AddLE(FieldLE(it.data, f.off, f.t), DigitsLE(Delta(R, k, f), Width(f.t)))),
              it.data, fs)
Link_decl(c) ==
  LET R == Recs(c) IN
  IF DupNames(R) # {} THEN [rc |-> 1, why |-> "double defined symbol", recs |-> <<>>]
  ELSE IF Undefined(R) # {} THEN [rc |-> 1, why |-> "undefined symbol", recs |-> <<>>]
  ELSE [rc |-> 0, why |-> "",
        recs |-> [k \in 1..Len(R) |-> [k |-> "D", cpu |-> R[k].cpu, seg |-> R[k].seg, gran |-> R[k].gran,
                                        start |-> NewStart(R, k), data |-> Patched(R, k)]]]

\* link sets for which Link_decl has a definite meaning (and the model's integer bounds hold)
Definite(c) ==
  /\ \A i \in 1..Len(c.files) : Decoded(c)[i].ok
  /\ LET R == Recs(c) IN
     /\ R # <<>>
     /\ \A k \in 1..Len(R) :
          /\ R[k].gran = 1 /\ R[k].seg \in Segments /\ R[k].start < 16777216          \* patch addresses count bytes only then
          /\ \A z \in 1..Len(PatchesOf(R[k])) : LET pt == PatchesOf(R[k])[z] IN
                /\ Knows(pt.type) /\ ~pt.type.page
                /\ FieldInside(R[k].data, pt.addr - R[k].start, pt.type)
          /\ FieldsSeparate(R[k])
          /\ Len(PatchesOf(R[k])) <= 8
     /\ \A e \in SymEntries(R) : e.value >= 0 /\ e.value < 16777216

ImageEq(a, b) == \A sg \in Segments : Image(a, sg) = Image(b, sg)
Linked(c, obs) ==
  LET L == Link_decl(c) IN
  IF L.rc # 0 THEN obs.rc = L.rc /\ obs.bytes = <<>>
  ELSE /\ obs.rc = 0
       /\ LET d == Decode(obs.bytes) IN d.ok /\ WellFormed(d.items) /\ ImageEq(AbsSeq(d.items), L.recs)

Fits(r, obs) == \/ r.rc = RcAny
                \/ /\ r.rc = obs.rc /\ r.undef = obs.undef /\ r.dbl = obs.dbl
                   /\ IF r.rc = 0 THEN IsPrefix(r.body, obs.bytes) ELSE (r.rc = 1 => obs.bytes = <<>>)
Verdict(c, obs) ==
  LET def  == Definite(c)
      ok   == ~def \/ Linked(c, obs)
      fits == {D \in SUBSET Devs : Fits(Run(D, c), obs)}
      best == CHOOSE D \in fits : \A E \in fits : Cardinality(D) <= Cardinality(E)
  IN [definite |-> def, ok |-> ok, killed |-> obs.rc > 128 \/ obs.rc = 124,      \* signal, or the harness's time limit
      fit |-> IF Fits(Run({}, c), obs) THEN <<>> ELSE IF fits = {} THEN <<"none">> ELSE SetToSeq(best),
      why |-> IF ok THEN "" ELSE IF obs.rc # Link_decl(c).rc THEN "exit status" ELSE IF obs.rc # 0 THEN "target file left behind"
              ELSE IF ~Decode(obs.bytes).ok THEN Decode(obs.bytes).why ELSE "linked image differs"]
=============================================================================
