---------------------------- MODULE DiagPos_MC ----------------------------
(* Model check and generator for C20.  A job = program family member x reporting configuration.  For     *)
(* every job TLC runs the machine of MacroProc (the tag chain with its counters) and the declarative     *)
(* expansion (the place the text puts every statement), feeds both statement lists to the EXPECT machine  *)
(* and checks:                                                                                           *)
(*   PositionIsPlanted   every message names exactly the place of the faulty statement that raised it    *)
(*   NoCleanLineNamed    no message carries the position of a statement that raises nothing              *)
(*   PositionsIdentify   different statement instances have different positions (so "names" is sound)    *)
(*   ExpectExact         EXPECT hides exactly the announced numbers, each announced-but-missing number is *)
(*                       reported once at ENDEXPECT (counting definition vs. the list walk of asmerr.c)   *)
(*   ExpectProtocol      nested EXPECT, ENDEXPECT without EXPECT, pass end inside EXPECT are errors       *)
(*   ReaderCountsPhysical (family linelen) the line counter MacroProc works with is what ReadLnCont() of   *)
(*                       spec/LineReader.tla returns for the job's line lengths / line ends / buffer state  *)
(* With Dump in the configuration every job is printed with the messages the specification expects.      *)
EXTENDS DiagPos, Json
CONSTANTS Family, Tier

VARIABLES job, r
vars == <<job, r>>
Q == Tier = "quick"

Opts == {[x |-> 0, n |-> FALSE, gnu |-> FALSE, e |-> "stderr"], [x |-> 1, n |-> TRUE, gnu |-> FALSE, e |-> "file"],
         [x |-> 2, n |-> TRUE, gnu |-> FALSE, e |-> "stdout"], [x |-> 0, n |-> TRUE, gnu |-> TRUE, e |-> "stderr"],
         [x |-> 2, n |-> FALSE, gnu |-> TRUE, e |-> "file"], [x |-> 1, n |-> FALSE, gnu |-> TRUE, e |-> "stdout"]}
OptsFor(few) == IF few THEN {o \in Opts : o.x # 1} ELSE Opts

KindSeqs(n) == UNION {[1..k -> Kinds] : k \in 0..n}
Faults == {"F1200", "F1110", "F1320", "F1010", "W60"}
NumsA == {1200, 1110, 1320, 60}
OccO == {"F1200", "F1110", "F1320", "W60"}
SeqsLE(S, n) == UNION {[1..k -> S] : k \in 0..n}

Programs ==
  CASE Family = "main" ->       \* nesting <= 3 in the main file, after continuation lines
         {[tag |-> <<"main", ks, pp, cont, f>>, files |-> MainProg(ks, pp[1], pp[2], 2, cont, f)] :
            ks \in KindSeqs(IF Q THEN 2 ELSE 3), pp \in {<<0, 0>>, <<1, 0>>, <<0, 1>>} \cup (IF Q THEN {} ELSE {<<1, 1>>}),
            cont \in (IF Q THEN {0, 2} ELSE 0..2), f \in (IF Q THEN {"F1200"} ELSE Faults)}
         \cup {[tag |-> <<"main3", ks, pp, 1, "F1200">>, files |-> MainProg(ks, pp[1], pp[2], 2, 1, "F1200")] :
                 ks \in [1..3 -> Kinds], pp \in {<<1, 0>>, <<0, 1>>}}
         \cup {[tag |-> <<"mainf", <<k>>, <<0, po>>, 0, f>>, files |-> MainProg(<<k>>, 0, po, 1, 0, f)] : k \in Kinds, f \in Faults, po \in 0..1}
    [] Family = "incl" ->       \* nested includes, depth <= 3
         {[tag |-> <<"incl", dep, ks, po, cont, f>>, files |-> InclFault(dep, ks, 1, po, cont, f)] :
            dep \in 1..3, ks \in KindSeqs(1), po \in 0..1, cont \in {0, 1}, f \in (IF Q THEN {"F1200", "F1010"} ELSE Faults)}
         \cup {[tag |-> <<"inclin", k, f>>, files |-> InclInside(k, f)] : k \in Kinds, f \in {"F1200"}}
    [] Family = "after" ->      \* a faulty line after every construct kind has completed, with and without INCLUDE inside
         {[tag |-> <<"after", ks, inc, po, cont, f, wh>>, files |-> AfterProg(ks, inc, 0, po, cont, f, wh)] :
            ks \in KindSeqs(1), inc \in BOOLEAN, po \in 0..1, cont \in 0..1, f \in (IF Q THEN {"F1200"} ELSE {"F1200", "F1010", "W60"}),
            wh \in {"main", "inc"}}
         \cup {[tag |-> <<"after2", ks, inc, pre, 0, "F1200", wh>>, files |-> AfterProg(ks, inc, pre, 1, 0, "F1200", wh)] :
                 ks \in [1..2 -> Kinds], inc \in (IF Q THEN {TRUE} ELSE BOOLEAN), pre \in (IF Q THEN {0} ELSE 0..1),
                 wh \in (IF Q THEN {"main"} ELSE {"main", "inc"})}
         \cup (IF Q THEN {} ELSE {[tag |-> <<"after3", ks, TRUE, 1, 1, "F1200", "main">>, files |-> AfterProg(ks, TRUE, 1, 1, 1, "F1200", "main")] :
                                   ks \in [1..3 -> Kinds]})
    [] Family = "expect" ->     \* all announcements of <= 3 numbers x <= 3 occurring messages
         {[tag |-> <<"expect", A, O, c, nst>>, files |-> ExpectProg(A, O, c, nst)] :
            A \in SeqsLE(NumsA, IF Q THEN 2 ELSE 3) \ {<<>>}, O \in SeqsLE(OccO, IF Q THEN 2 ELSE 3), c \in {TRUE}, nst \in {FALSE}}
         \cup {[tag |-> <<"expect", A, O, c, nst>>, files |-> ExpectProg(A, O, c, nst)] :
                 A \in {<<1200>>, <<1320, 1200>>}, O \in {<<>>, <<"F1200">>, <<"F1200", "F1200">>}, c \in BOOLEAN, nst \in BOOLEAN}
         \cup {[tag |-> <<"expectmac", A, O>>, files |-> ExpectInMacro(A, O)] : A \in {<<1200>>, <<1200, 1110>>}, O \in SeqsLE({"F1200", "F1110"}, 2)}
         \cup {[tag |-> <<"expect0">>, files |-> [f \in {"a.asm"} |-> <<L(<<>>, "EXPECT", <<>>), L(<<>>, "ENDEXPECT", <<>>), L(<<>>, "ENDEXPECT", N(1))>>]]}
    [] Family = "expecthist" ->
         {[tag |-> <<"expecthist", pre, A1, O1, mid, A2, O2, post>>, files |-> ExpectHistory(pre, A1, O1, mid, A2, O2, post)] :
            pre \in {<<>>, <<"F1200">>}, A1 \in {<<1200>>, <<1200, 1110>>, <<1320>>, <<60>>}, O1 \in SeqsLE({"F1200", "F1110"}, 1),
            mid \in SeqsLE({"F1200", "F1110", "W60"}, 1) \cup {<<"F1200", "F1200">>} \cup (IF Q THEN {} ELSE {<<"F1320">>, <<"F1110", "F1200">>}),
            A2 \in {<<>>, <<1200>>, <<1110>>}, O2 \in {<<>>, <<"F1200">>}, post \in {<<>>, <<"F1200">>}}
    [] Family = "linelen" ->    \* physical line lengths around the reader's buffer x line ends x file ends (spec/LineReader.tla)
         LET G == LR!RealBuf.grow
             roomy == LR!RealBuf.cap - LR!RealBuf.low            \* joined characters that leave exactly `low` bytes free
             Ds == {-1, 0, 1, 2, G, G + 1, 3 * G + 7, 2 * LR!RealBuf.cap}
             LShapes == {<<"alone", 0, d>> : d \in Ds} \cup {<<"first", 0, d>> : d \in Ds}
                       \cup {<<"behind", t, d>> : t \in {roomy - 32, roomy, roomy + 1, LR!RealBuf.cap - 8}, d \in Ds \cup {5}}
                       \cup {<<"short", 0, 0>>, <<"short", 2, 0>>}
             Ctx == [where : {"main", "inc", "both"}, fault : {"F1200", "F1010"}, tailclean : BOOLEAN, twice : BOOLEAN,
                     eol : {"lf", "crlf"}, last : {"nl", "nonl", "ctrlz", "zonline"}]
             TCtx == {c \in Ctx : c.twice => c.where = "main"}        \* (the second copy in an include file adds nothing to "both")
             \* quick tier: every kind of chunking (LF alone, CR | LF, text in the next chunk, many chunks, behind joined text
             \* with and without growth, last line without line end) in a few contexts
             QLShapes == {<<"alone", 0, 0>>, <<"alone", 0, 1>>, <<"alone", 0, 2>>, <<"alone", 0, 3 * G + 7>>, <<"first", 0, 1>>,
                         <<"first", 0, 2>>, <<"behind", roomy - 32, 0>>, <<"behind", roomy - 32, 1>>, <<"behind", roomy - 32, 5>>,
                         <<"behind", roomy - 32, 3 * G + 7>>, <<"behind", roomy + 1, 1>>, <<"short", 2, 0>>}
             QCtx == {c \in Ctx : \/ c.where = "main" /\ c.tailclean /\ ~c.twice /\ c.last = "nl"
                                  \/ c.where = "inc" /\ ~c.tailclean /\ ~c.twice /\ c.last = "nonl" /\ c.fault = "F1200"
                                  \/ c.where = "both" /\ c.tailclean /\ ~c.twice /\ c.last = "ctrlz" /\ c.fault = "F1200" /\ c.eol = "lf"
                                  \/ c.where = "main" /\ ~c.tailclean /\ c.twice = (c.last = "nonl") /\ c.last \in {"nonl", "zonline"} /\ c.fault = "F1200" /\ c.eol = "lf"}
             All == {[tag |-> <<"linelen", sh, c.where, c.fault, c.tailclean, c.twice, c.eol, c.last>>,
                      prog |-> LineLenProg(LineShape(sh[1], sh[2], sh[3], c.eol), c.where, c.fault, c.tailclean, c.twice, c.eol, c.last)] :
                       sh \in (IF Q THEN QLShapes ELSE LShapes), c \in (IF Q THEN QCtx ELSE TCtx)}
         IN {[tag |-> j.tag, files |-> j.prog.files, phys |-> j.prog.phys] :
               j \in {x \in All : x.tag[4] = "F1010" => UnjudgedLines(x.prog.phys) = {}}}     \* (a broken statement stops after pass 1)
    [] OTHER -> {}
Jobs == Programs
HasPhys == "phys" \in DOMAIN job

\* the two runs are made once per job (Init) and kept in r
Compute(files) ==
  LET m == RunMachine(files, <<>>, "a.asm")
      d == ExpandDecl(files, <<>>, "a.asm")
  IN [delivered |-> m.delivered, errs |-> m.errs, devs |-> m.devs, pdevs |-> m.pdevs, raw |-> d.raw, indef |-> d.indef,
      mout |-> AllDiags(m.delivered), dout |-> AllDiags(d.raw), mout1 |-> PassDiags(m.delivered, 1)]
M == r
D == r
Stm(flat) == SelectSeq(flat, LAMBDA e : OpOf(e.l) # "")            \* label-only entries are not statements

\* --- properties --------------------------------------------------------------------------------------------
Definite == ~D.indef /\ M.errs = 0 /\ (Fixed = DevNames \/ (M.devs = {} /\ M.pdevs = {}))
NoExpect(flat) == \A i \in DOMAIN flat : OpOf(flat[i].l) \notin {"EXPECT", "ENDEXPECT"}
FaultPositions(flat, pass) == LET s == SelectSeq(flat, LAMBDA e : Raises(e, pass)) IN [k \in DOMAIN s |-> s[k].pos]

\* what the machine reports (positions read from the tag chain) is where the text puts the faulty statements
PositionIsPlanted ==
  (r # <<>> /\ Definite /\ NoExpect(D.raw)) =>
     LET out == M.mout
         p1 == FaultPositions(D.raw, 1)
         two == ~(\E i \in DOMAIN D.raw : Raises(D.raw[i], 1) /\ FaultNum(OpOf(D.raw[i].l)) >= 1000) /\ NeedsPass2(D.raw)
         want == IF two THEN p1 \o FaultPositions(D.raw, 2) ELSE p1
     IN [k \in DOMAIN out |-> out[k].pos] = want
NoCleanLineNamed ==
  (r # <<>> /\ Definite) => \A k \in DOMAIN M.mout :
                 LET d == M.mout[k]
                 IN d.pos = Internal \/ \A i \in DOMAIN D.raw :
                      (D.raw[i].pos = d.pos /\ OpOf(D.raw[i].l) # "") => OpOf(D.raw[i].l) \in FaultOps \cup {"EXPECT", "ENDEXPECT"}
PositionsIdentify ==
  (r # <<>> /\ ~D.indef) => LET s == Stm(D.raw)        \* (a file read from inside a construct is named alone: excluded)
                            IN \A i, j \in DOMAIN s : (i # j /\ Len(s[i].pos.gnu) = 1 /\ Len(s[j].pos.gnu) = 1) => s[i].pos # s[j].pos
ExpectExact ==
  (r # <<>> /\ Definite /\ WellFormedExpect(D.raw)) => ExpectAccountingOK(M.delivered, 1) /\ ExpectAccountingOK(D.raw, 1)
\* the pending list is empty whenever no block is open (machine over the delivered statements, every pass made)
PendingEmptyOutside ==
  r # <<>> => (PendingOnlyInsideBlock(M.delivered, 1) /\ PendingOnlyInsideBlock(D.raw, 1))
\* family linelen: what the machine of MacroProc assumes about the line counter is what the reader of LineReader does with
\* the lengths and line ends of the job, for every capacity the line buffer can have
ReaderCountsPhysical == (r # <<>> /\ HasPhys) => ReaderAgrees(job.files, job.phys)
ExpectProtocol ==
  (r # <<>> /\ Definite) =>
    LET out == M.mout1
        f == D.raw
        nestedAt == {i \in DOMAIN f : OpOf(f[i].l) = "EXPECT" /\ ArgsOf(f[i].l) # <<>> /\ Governing(f, i) # 0}
        strayAt == {i \in DOMAIN f : OpOf(f[i].l) = "ENDEXPECT" /\ ArgsOf(f[i].l) = <<>> /\ Governing(f, i) = 0}
        openEnd == Governing(f, Len(f) + 1) # 0
    IN /\ Cardinality({k \in DOMAIN out : out[k].num = NumNoNestExpect}) = Cardinality(nestedAt)
       /\ Cardinality({k \in DOMAIN out : out[k].num = NumMissingEXPECT}) = Cardinality(strayAt)
       /\ (\E k \in DOMAIN out : out[k].num = NumMissingENDEXPECT /\ out[k].pos = Internal) <=> openEnd

\* --- what is printed for the replay ---------------------------------------------------------------------------
Str(ts) == Glue(ts)
El(e) == [k |-> e.k, n |-> Str(e.n), i |-> e.i, b |-> e.b]
Shown(d, opt) ==
  [num |-> IF opt.n THEN d.num ELSE 0, cls |-> d.cls,
   file |-> IF d.pos = Internal THEN "INTERNAL" ELSE IF opt.gnu THEN Str(d.pos.gnu[1].n) ELSE Str(d.pos.native[1].n),
   line |-> IF d.pos = Internal THEN 0 ELSE IF opt.gnu THEN d.pos.gnu[1].b ELSE d.pos.native[1].b,
   chain |-> IF opt.gnu \/ d.pos = Internal THEN <<>> ELSE [i \in 1..(Len(d.pos.native) - 1) |-> El(d.pos.native[i + 1])],
   incl |-> IF ~opt.gnu \/ d.pos = Internal THEN <<>> ELSE [i \in 1..(Len(d.pos.gnu) - 1) |-> [file |-> Str(d.pos.gnu[i + 1].n), line |-> d.pos.gnu[i + 1].b]]]
Expected(ds, opt) == [k \in DOMAIN ds |-> Shown(ds[k], opt)]
OptSeq == LET S == OptsFor(Family \in {"expect", "expecthist"})
              RECURSIVE Enum(_)
              Enum(T) == IF T = {} THEN <<>> ELSE LET o == CHOOSE o \in T : TRUE IN <<o>> \o Enum(T \ {o})
          IN Enum(S)
RECURSIVE EnumSet(_)
EnumSet(T) == IF T = {} THEN <<>> ELSE LET o == CHOOSE o \in T : TRUE IN <<o>> \o EnumSet(T \ {o})
Out == [tag |-> job.tag, p |-> job.files, indef |-> r.indef \/ r.errs # 0, devs |-> r.devs, pdevs |-> r.pdevs,
        phys |-> IF HasPhys THEN job.phys ELSE <<>>,                       \* lengths and line ends for the renderer
        skip |-> IF HasPhys THEN EnumSet(UnjudgedLines(job.phys)) ELSE <<>>, chunked |-> HasPhys /\ ChunkedIn(job.phys),
        runs |-> [i \in DOMAIN OptSeq |-> [opt |-> OptSeq[i], want |-> Expected(r.dout, OptSeq[i]), coded |-> Expected(r.mout, OptSeq[i])]]]

\* the runs are made in the only step of a behaviour (so that all TLC workers share the jobs)
Init == job \in Jobs /\ r = <<>>
Next == r = <<>> /\ r' = Compute(job.files) /\ UNCHANGED job
Dump == r # <<>> => PrintT(<<"OUT", ToJson(Out)>>)
=============================================================================
