---------------------------- MODULE DiagPos_MC ----------------------------
(* Model check and generator for C20.  A job = program family member x reporting configuration.  For     *)
(* every job TLC runs the machine of MacroProc (the tag chain with its counters) and the declarative     *)
(* expansion (the place the text puts every statement), feeds both statement lists to the EXPECT machine  *)
(* and checks:                                                                                           *)
(*   PositionIsPlanted   every message names exactly the place of the faulty statement that raised it    *)
(*   NoCleanLineNamed    no message carries the position of a statement that raises nothing              *)
(*   PositionsIdentify   different statement instances have different positions (so "names" is sound)    *)
(*   ExpectExact         EXPECT hides exactly the announced numbers, each announced-but-missing number is *)
(*                       reported once at ENDEXPECT (counting definition vs. the list walk of asmerr.c)   *)
(*   ExpectProtocol      nested EXPECT, ENDEXPECT without EXPECT, pass end inside EXPECT are errors       *)
(* With Dump in the configuration every job is printed with the messages the specification expects.      *)
EXTENDS DiagPos, Json
CONSTANTS Family, Tier

VARIABLES job
vars == <<job>>
Q == Tier = "quick"

Opts == {[x |-> 0, n |-> FALSE, gnu |-> FALSE, e |-> "stderr"], [x |-> 1, n |-> TRUE, gnu |-> FALSE, e |-> "file"],
         [x |-> 2, n |-> TRUE, gnu |-> FALSE, e |-> "stdout"], [x |-> 0, n |-> TRUE, gnu |-> TRUE, e |-> "stderr"],
         [x |-> 2, n |-> FALSE, gnu |-> TRUE, e |-> "file"], [x |-> 1, n |-> FALSE, gnu |-> TRUE, e |-> "stdout"]}
OptsFor(few) == IF few THEN {o \in Opts : o.x # 1} ELSE Opts

KindSeqs(n) == UNION {[1..k -> Kinds] : k \in 0..n}
Faults == {"F1200", "F1110", "F1320", "F1010", "W60"}
NumsA == {1200, 1110, 1320, 60}
OccO == {"F1200", "F1110", "F1320", "W60"}
SeqsLE(S, n) == UNION {[1..k -> S] : k \in 0..n}

J(tag, files, opt) == [tag |-> tag, files |-> files, opt |-> opt]
Programs ==
  CASE Family = "main" ->       \* nesting <= 3 in the main file, after continuation lines
         {[tag |-> <<"main", ks, pre, cont, f>>, files |-> MainProg(ks, pre, 2, cont, f)] :
            ks \in KindSeqs(IF Q THEN 2 ELSE 3), pre \in 0..1, cont \in (IF Q THEN {0, 2} ELSE 0..2), f \in (IF Q THEN {"F1200", "W60"} ELSE Faults)}
         \cup {[tag |-> <<"main3", ks, 1, 1, "F1200">>, files |-> MainProg(ks, 1, 2, 1, "F1200")] : ks \in [1..3 -> Kinds]}
         \cup {[tag |-> <<"mainf", <<k>>, 0, 0, f>>, files |-> MainProg(<<k>>, 0, 1, 0, f)] : k \in Kinds, f \in Faults}
    [] Family = "incl" ->       \* nested includes, depth <= 3
         {[tag |-> <<"incl", dep, ks, cont, f>>, files |-> InclFault(dep, ks, 1, cont, f)] :
            dep \in 1..3, ks \in KindSeqs(1), cont \in {0, 1}, f \in (IF Q THEN {"F1200", "F1010"} ELSE Faults)}
         \cup {[tag |-> <<"inclin", k, f>>, files |-> InclInside(k, f)] : k \in Kinds, f \in {"F1200"}}
    [] Family = "expect" ->     \* all announcements of <= 3 numbers x <= 3 occurring messages
         {[tag |-> <<"expect", A, O, c, nst>>, files |-> ExpectProg(A, O, c, nst)] :
            A \in SeqsLE(NumsA, IF Q THEN 2 ELSE 3) \ {<<>>}, O \in SeqsLE(OccO, IF Q THEN 2 ELSE 3), c \in {TRUE}, nst \in {FALSE}}
         \cup {[tag |-> <<"expect", A, O, c, nst>>, files |-> ExpectProg(A, O, c, nst)] :
                 A \in {<<1200>>, <<1320, 1200>>}, O \in {<<>>, <<"F1200">>, <<"F1200", "F1200">>}, c \in BOOLEAN, nst \in BOOLEAN}
         \cup {[tag |-> <<"expectmac", A, O>>, files |-> ExpectInMacro(A, O)] : A \in {<<1200>>, <<1200, 1110>>}, O \in SeqsLE({"F1200", "F1110"}, 2)}
         \cup {[tag |-> <<"expect0">>, files |-> [f \in {"a.asm"} |-> <<L(<<>>, "EXPECT", <<>>), L(<<>>, "ENDEXPECT", <<>>), L(<<>>, "ENDEXPECT", N(1))>>]]}
    [] OTHER -> {}
Jobs == {J(p.tag, p.files, o) : p \in Programs, o \in OptsFor(Family = "expect")}

M == RunMachine(job.files, <<>>, "a.asm")
D == ExpandDecl(job.files, <<>>, "a.asm")
Stm(flat) == SelectSeq(flat, LAMBDA e : OpOf(e.l) # "")            \* label-only entries are not statements

\* --- properties --------------------------------------------------------------------------------------------
Definite == ~D.indef /\ M.errs = 0 /\ (Fixed = DevNames \/ (M.devs = {} /\ M.pdevs = {}))
NoExpect(flat) == \A i \in DOMAIN flat : OpOf(flat[i].l) \notin {"EXPECT", "ENDEXPECT"}
FaultPositions(flat, pass) == [k \in DOMAIN SelectSeq(flat, LAMBDA e : Raises(e, pass)) |-> SelectSeq(flat, LAMBDA e : Raises(e, pass))[k].pos]

\* what the machine reports (positions read from the tag chain) is where the text puts the faulty statements
PositionIsPlanted ==
  (Definite /\ NoExpect(D.raw)) =>
     LET out == AllDiags(M.delivered)
         p1 == FaultPositions(D.raw, 1)
         two == ~(\E i \in DOMAIN D.raw : Raises(D.raw[i], 1) /\ FaultNum(OpOf(D.raw[i].l)) >= 1000) /\ NeedsPass2(D.raw)
         want == IF two THEN p1 \o FaultPositions(D.raw, 2) ELSE p1
     IN [k \in DOMAIN out |-> out[k].pos] = want
NoCleanLineNamed ==
  Definite => \A k \in DOMAIN AllDiags(M.delivered) :
                 LET d == AllDiags(M.delivered)[k]
                 IN d.pos = Internal \/ \A i \in DOMAIN D.raw :
                      (D.raw[i].pos = d.pos /\ OpOf(D.raw[i].l) # "") => OpOf(D.raw[i].l) \in FaultOps \cup {"EXPECT", "ENDEXPECT"}
PositionsIdentify ==
  ~D.indef => LET s == Stm(D.raw) IN \A i, j \in DOMAIN s : i # j => s[i].pos # s[j].pos
ExpectExact ==
  (Definite /\ WellFormedExpect(D.raw)) => ExpectAccountingOK(M.delivered, 1) /\ ExpectAccountingOK(D.raw, 1)
ExpectProtocol ==
  Definite =>
    LET out == PassDiags(M.delivered, 1)
        f == D.raw
        nestedAt == {i \in DOMAIN f : OpOf(f[i].l) = "EXPECT" /\ ArgsOf(f[i].l) # <<>> /\ Governing(f, i) # 0}
        strayAt == {i \in DOMAIN f : OpOf(f[i].l) = "ENDEXPECT" /\ ArgsOf(f[i].l) = <<>> /\ Governing(f, i) = 0}
        openEnd == Governing(f, Len(f) + 1) # 0
    IN /\ Cardinality({k \in DOMAIN out : out[k].num = NumNoNestExpect}) = Cardinality(nestedAt)
       /\ Cardinality({k \in DOMAIN out : out[k].num = NumMissingEXPECT}) = Cardinality(strayAt)
       /\ (\E k \in DOMAIN out : out[k].num = NumMissingENDEXPECT /\ out[k].pos = Internal) <=> openEnd

\* --- what is printed for the replay ---------------------------------------------------------------------------
Str(ts) == Glue(ts)
El(e) == [k |-> e.k, n |-> Str(e.n), i |-> e.i, b |-> e.b]
Shown(d, opt) ==
  [num |-> IF opt.n THEN d.num ELSE 0, cls |-> d.cls,
   file |-> IF d.pos = Internal THEN "INTERNAL" ELSE IF opt.gnu THEN Str(d.pos.gnu[1].n) ELSE Str(d.pos.native[1].n),
   line |-> IF d.pos = Internal THEN 0 ELSE IF opt.gnu THEN d.pos.gnu[1].b ELSE d.pos.native[1].b,
   chain |-> IF opt.gnu \/ d.pos = Internal THEN <<>> ELSE [i \in 1..(Len(d.pos.native) - 1) |-> El(d.pos.native[i + 1])],
   incl |-> IF ~opt.gnu \/ d.pos = Internal THEN <<>> ELSE [i \in 1..(Len(d.pos.gnu) - 1) |-> [file |-> Str(d.pos.gnu[i + 1].n), line |-> d.pos.gnu[i + 1].b]]]
Expected(flat, opt) == [k \in DOMAIN AllDiags(flat) |-> Shown(AllDiags(flat)[k], opt)]
Out == [tag |-> job.tag, opt |-> job.opt, p |-> job.files, indef |-> D.indef \/ M.errs # 0, devs |-> M.devs, pdevs |-> M.pdevs,
        want |-> Expected(D.raw, job.opt), coded |-> Expected(M.delivered, job.opt)]

Init == job \in Jobs
Next == FALSE /\ UNCHANGED vars
Dump == PrintT(<<"OUT", ToJson(Out)>>)
=============================================================================
