CONSTANTS MaxStmts = 3 MaxLen = 9 Radices = {16, 2}
SPECIFICATION Spec
INVARIANTS RowsFaithful FirstRowAddr EmissionInImage InfoJustified RowFits
CHECK_DEADLOCK FALSE
