------------------------------ MODULE SrcLines_Gen ------------------------------
(* (G) Programs for the replay of the dimension "line origins".  A program is decoded from six random seeds      *)
(* (a small congruential generator supplies the digits, so that the structure is a pure function of the seeds):  *)
(*   macro 1   1..2 items, plain (data - now and then continued over two physical lines -, comments, loops)         *)
(*   macro 2   1..3 items: data, comments, INCLUDE of file 2 / 3, calls of macro 1, loops of those                *)
(*   file 3    1..3 items: data, comments, calls of macro 1, loops                                               *)
(*   file 2    1..4 items: the same + INCLUDE of file 3                                                          *)
(*   main      MainLen items, loops two deep (REPT / IRP / IRPC / WHILE x 0..2 iterations x 1..3 body items),     *)
(*             INCLUDE of file 2 / 3, calls of macro 1 / 2; closed by a comment and a data line                   *)
(* The behaviour is dumped with the flat source lines (FilesOf), what the text says about every executed data      *)
(* line (Expected: address, value, own place, chain, shown place, include depth), whether the input-tag machine     *)
(* agrees with it, and `hot` = number of INCLUDE statements met while CurrLine # MomLineCounter, `dev` = number of  *)
(* executed data lines the code as it is shows elsewhere than the text says (deviation BodyLinesCounted: a body    *)
(* line behind a continued statement in a loop read from a file).                                                 *)
EXTENDS SrcLines, TLC, Json
CONSTANTS MainLen
VARIABLES prog, ph
gvars == <<prog, ph>>

Rnd(s) == (s * 75 + 74) % 65537
KindSeq == <<"rept", "irp", "irpc", "while">>
CountSeq == <<1, 2, 2, 0>>
Env(incs, calls) == [incs |-> incs, calls |-> calls]
RECURSIVE DecItem(_, _, _), DecSeq(_, _, _, _)
DecItem(s, depth, env) ==                    \* -> [it, s]
  LET c == s % 10   s1 == Rnd(s) IN
  CASE c \in {0, 1} -> [it |-> D, s |-> s1]
    [] c = 2 -> [it |-> IF s1 % 3 = 0 THEN D2 ELSE D, s |-> Rnd(s1)]          \* now and then continued over two lines
    [] c = 3 -> [it |-> C, s |-> s1]
    [] c \in {4, 5} -> IF env.incs = <<>> THEN [it |-> D, s |-> s1]
                       ELSE [it |-> Inc(env.incs[1 + (s1 % Len(env.incs))]), s |-> Rnd(s1)]
    [] c = 6 -> IF env.calls = <<>> THEN [it |-> D, s |-> s1]
                ELSE [it |-> Call(env.calls[1 + (s1 % Len(env.calls))]), s |-> Rnd(s1)]
    [] OTHER -> IF depth = 0 THEN [it |-> D, s |-> s1]
                ELSE LET lk == KindSeq[1 + (s1 % 4)]
                         s2 == Rnd(s1)
                         n0 == CountSeq[1 + (s2 % 4)]
                         n  == IF lk \in {"irp", "irpc"} /\ n0 = 0 THEN 1 ELSE n0      \* IRP / IRPC without operand: an error
                         s3 == Rnd(s2)
                         b  == DecSeq(Rnd(s3), 1 + (s3 % 3), depth - 1, env)
                     IN  [it |-> Loop(lk, n, b.seq), s |-> b.s]
DecSeq(s, len, depth, env) ==                \* -> [seq, s]
  IF len = 0 THEN [seq |-> <<>>, s |-> s]
  ELSE LET a == DecItem(s, depth, env)
           r == DecSeq(a.s, len - 1, depth, env)
       IN  [seq |-> <<a.it>> \o r.seq, s |-> r.s]

Build(q1, q2, q3, q4, q5, q6) ==
  [macros |-> << DecSeq(Rnd(q1), 1 + (q1 % 2), 1, Env(<<>>, <<>>)).seq,
                 DecSeq(Rnd(q2), 1 + (q2 % 3), 1, Env(<<2, 3>>, <<1>>)).seq >>,
   incs   |-> << DecSeq(Rnd(q4), 1 + (q4 % 4), 1, Env(<<3>>, <<1>>)).seq,
                 DecSeq(Rnd(q3), 1 + (q3 % 3), 1, Env(<<>>, <<1>>)).seq >>,
   main   |-> DecSeq(q5, MainLen, 2, Env(<<2, 3>>, <<1, 2>>)).seq \o <<C, D>>,
   base   |-> 256,
   step   |-> IF q6 % 4 = 0 THEN 2 ELSE 1]

Seeds == 0..65536
GInit == prog = 0 /\ ph = 0
GNext == /\ ph = 0 /\ ph' = 1
         /\ \E q1 \in {RandomElement(Seeds)}, q2 \in {RandomElement(Seeds)}, q3 \in {RandomElement(Seeds)},
               q4 \in {RandomElement(Seeds)}, q5 \in {RandomElement(Seeds)}, q6 \in {RandomElement(Seeds)} :
               prog' = Build(q1, q2, q3, q4, q5, q6)

Dump == ph = 1 =>
  LET fl == FilesOf(prog)
      X  == Expected(prog)
      mm == RunAll(fl, Machine0By(prog, "place"))          \* the machine with the proposed repair of BodyLinesCounted
      ec == Emits(prog, "count")                           \* the machine of the code as it is
  IN  PrintT(<<"BEH", ToJson([prog |-> prog, files |-> fl, exp |-> X, agree |-> Agree(mm, X) /\ ShownInChain(X),
                              hot |-> mm.hot,
                              dev |-> Cardinality({i \in 1..Len(X) : i > Len(ec) \/ ec[i].line # X[i].line})])>>)
=============================================================================
