----------------------------- MODULE DiagDest_MC -----------------------------
(* C02 extension "diagdest": the destinations of diagnostics (DiagDest.tla), exhaustively for small bounds, and the  *)
(* export of every run for replay into the real asl.                                                                *)
(*                                                                                                                  *)
(* The machine only writes text: one action per line class appends a line to the current file, NextFile starts the  *)
(* next one.  Its states are the runs (options x 1..MaxFiles files of <= MaxLines / MaxLater line classes); in      *)
(* every state the complete run is evaluated with LOutcome (the fold of DiagDest.tla over Driver.tla / Diag.tla) and *)
(* the claims below are checked on it.  With ACTION_CONSTRAINT TCover every run is printed once, together with the  *)
(* projection of LOutcome the replay compares with (cover by text: the state graph is a tree).                      *)
EXTENDS DiagDest, TLC, Json

CONSTANTS MaxLines,    \* lines of the first file
          MaxFiles, MaxLater,   \* number of files, lines of the later ones
          Kinds, OptSpace

VARIABLES opts, done, cur
vars == <<opts, done, cur>>

Init == opts \in OptSpace /\ done = <<>> /\ cur = <<>>

HasFatalLine(ls) == \E i \in 1..Len(ls) : IsFatalLine(ls[i])
\* a definition / a skipped branch left open swallows what follows: such a line is the last one (as in Driver_MC)
Swallows(ls) == \E i \in 1..Len(ls) : ls[i].k = "open" /\ ls[i].t \in {"if0", "mac", "rept"}
Add(ln) == /\ Len(cur) < (IF done = <<>> THEN MaxLines ELSE MaxLater) /\ ~HasFatalLine(cur) /\ ~Swallows(cur)
           /\ cur' = Append(cur, ln) /\ UNCHANGED <<opts, done>>
OfKinds(ks) == {ln \in Kinds : ln.k \in ks}
CodeLine     == \E ln \in OfKinds({"ok", "fwd", "undef"}) : Add(ln)
InternalDiag == \E ln \in OfKinds({"warn", "err", "fatalI"}) : Add(ln)
UserDiag     == \E ln \in OfKinds({"uwarn", "uerr", "ufatal"}) : Add(ln)
ExpectLine   == \E ln \in OfKinds({"expect", "endexpect"}) : Add(ln)
OpenLine     == \E ln \in OfKinds({"open"}) : Add(ln)
ListingLine  == \E ln \in OfKinds({"listing"}) : Add(ln)
SaveLine     == \E ln \in OfKinds({"lsave"}) : Add(ln)
RestoreLine  == \E ln \in OfKinds({"lrestore"}) : Add(ln)
NextFile == /\ cur # <<>> /\ Len(done) + 1 < MaxFiles
            /\ done' = Append(done, cur) /\ cur' = <<>> /\ UNCHANGED opts

Next == CodeLine \/ InternalDiag \/ UserDiag \/ ExpectLine \/ OpenLine \/ ListingLine \/ SaveLine \/ RestoreLine \/ NextFile
Spec == Init /\ [][Next]_vars

---------------------------------------------------------------------------
Ln(k, n, f, t) == [k |-> k, n |-> n, f |-> f, t |-> t]
S(k) == Ln(k, 0, "", "")
BaseOptL == [werror |-> FALSE, maxerr |-> 0, suppw |-> FALSE, codeout |-> TRUE, throw |-> FALSE, lm |-> "none"]
OptsDest   == {[BaseOptL EXCEPT !.lm = l, !.werror = w, !.maxerr = m] : l \in ListModes, w \in BOOLEAN, m \in {0, 2}}
OptsDestW  == {[BaseOptL EXCEPT !.lm = l, !.werror = w, !.maxerr = m, !.suppw = s] :
                 l \in ListModes, w \in BOOLEAN, m \in {0, 1, 2}, s \in BOOLEAN}
OptsDestS  == {[BaseOptL EXCEPT !.lm = l, !.maxerr = m, !.suppw = s] : l \in ListModes, m \in {0, 1}, s \in BOOLEAN}
OptsDest2f == {[BaseOptL EXCEPT !.lm = l, !.werror = w] : l \in ListModes, w \in BOOLEAN}
ListArgs == {"off", "on", "noskipped", "purecode"}
KindsDest == {S("ok"), S("warn"), S("err"), S("uwarn"), S("uerr"), S("ufatal"), S("fwd"), S("undef"), S("lsave"), S("lrestore")}
             \cup {Ln("listing", 0, "", t) : t \in ListArgs}
\* + the internal fatal error, EXPECT blocks (a met announcement writes nothing, a failed one writes where ListOn stands
\* at ENDEXPECT) and a construct left open (reported at the end of the pass, where ListOn stands THEN)
KindsDestAll == KindsDest \cup {S("fatalI"), S("expect"), S("endexpect"), Ln("open", 0, "", "if1"), Ln("open", 0, "", "sec")}
\* four lines deep (thorough): SAVE / LISTING x / RESTORE / a diagnostic and the like
KindsDest4 == {S("ok"), S("err"), S("uwarn"), S("fwd"), S("undef"), S("lsave"), S("lrestore")}
              \cup {Ln("listing", 0, "", t) : t \in {"off", "on", "noskipped"}}
KindsDest2f == {S("ok"), S("err"), S("uwarn"), S("fwd"), S("lsave"), Ln("listing", 0, "", "off"), Ln("listing", 0, "", "on")}

---------------------------------------------------------------------------
RunNow == IF cur = <<>> /\ done # <<>> THEN done ELSE Append(done, cur)
OutcomeNow == LOutcome(opts, RunNow)

Claims == LET fs == RunNow
              oc == LOutcome(opts, fs)
              rs == oc.files
          IN /\ DD_StatusZeroIffNoneEmitted(oc.status, rs)
             /\ DD_ZeroKeepsAll(opts, oc.status, rs)
             /\ DD_EmittedDropsCode(rs)
             /\ DD_KeptIffNoneEmitted(opts, rs)
             /\ DD_ErrorStatus(oc.status, rs)
             /\ DD_SummaryAgrees(rs)
             /\ DD_NothingLost(rs)
             /\ DD_ChannelComplete(opts, rs)
             /\ DD_ConsoleOnce(opts, rs)
             /\ DD_NoListingNoLines(opts, rs)
             /\ DD_WarningsHarmless(opts, oc.status, rs)
             /\ DD_AgreesWithText(opts, fs, rs)
             \* the layer adds destinations and nothing else: status, kept, counters are those of Driver.tla
             /\ LET base == Outcome(opts, [i \in 1..Len(fs) |-> SelectSeq(fs[i], LAMBDA l : l.k \notin ListKinds)])
                IN (\A i \in 1..Len(fs) : \A j \in 1..Len(fs[i]) : fs[i][j].k \notin {"lsave", "lrestore"})
                     => /\ base.status = oc.status
                        /\ \A i \in 1..Len(rs) : /\ base.files[i].kept = rs[i].res.kept
                                                 /\ base.files[i].sumE = rs[i].res.sumE /\ base.files[i].sumW = rs[i].res.sumW
                                                 /\ base.files[i].chanE = rs[i].res.chanE /\ base.files[i].chanW = rs[i].res.chanW
\* single claims (for the configurations that must be refuted, and for looking at a failure)
NothingLost         == DD_NothingLost(OutcomeNow.files)
SummaryAgrees       == DD_SummaryAgrees(OutcomeNow.files)
StatusZeroIffNoneEmitted == LET oc == OutcomeNow IN DD_StatusZeroIffNoneEmitted(oc.status, oc.files)
AgreesWithText      == DD_AgreesWithText(opts, RunNow, OutcomeNow.files)

\* ---- export -----------------------------------------------------------------------------------------
ProjFile(r) == [assembled |-> r.res.assembled, fatal |-> r.res.fatal, kept |-> r.res.kept, passes |-> r.res.passes,
                sumE |-> r.res.sumE, sumW |-> r.res.sumW,
                chan |-> <<r.all.chE, r.all.chW, r.all.chF>>, lst |-> <<r.lst.E, r.lst.W>>,
                any |-> <<r.all.anyE, r.all.anyW, r.all.chF>>, lastAny |-> <<r.last.anyE, r.last.anyW>>,
                lonEnd |-> r.lonEnd]
Run(fs) == LET oc == LOutcome(opts, fs)
           IN [o |-> opts, files |-> fs, exp |-> [status |-> oc.status, files |-> [i \in 1..Len(oc.files) |-> ProjFile(oc.files[i])]]]
TCover == (cur' # cur /\ cur' # <<>>) => PrintT(<<"TR", ToJson(Run(Append(done', cur')))>>)
=============================================================================
