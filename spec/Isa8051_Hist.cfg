\* default constants of the MCS-51 case generator with the history dimension (checks/ext_isa8051.py writes per-run
\* copies, see Isa8051_Gen.cfg).  HDump prints every leaf with its context statement after checking CtxSaneWith /
\* ContextFreeWith.
CONSTANTS Cpu = "8051" K = 1 Salt = 1 Step = 1
INIT SliceInit
NEXT Next
INVARIANTS UnitsTyped DecodeInverts OutOfRangeIsError DecodeRoundTrip LengthAsPublished TargetReached HDump
CHECK_DEADLOCK FALSE
