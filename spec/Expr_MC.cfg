\* quick: every tree of depth <= 3 over one atom (18 k trees, minimal parentheses), flat formulas with <= 3 operators
CONSTANTS TreeDepth = 3 Atoms = {"a"} FlatOps = 3 Variants = 1
SPECIFICATION Spec
INVARIANTS RoundTrip FlatObeysRanks
CHECK_DEADLOCK FALSE
