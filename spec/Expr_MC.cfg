\* quick: every tree of depth <= 3 over one atom (20 k trees x 3 spellings), flat formulas with <= 3 operators
CONSTANTS TreeDepth = 3 Atoms = {"a"} FlatOps = 3
SPECIFICATION Spec
INVARIANTS RoundTrip FlatObeysRanks
CHECK_DEADLOCK FALSE
