------------------------------ MODULE FilterList ------------------------------
(* The option state behind `-f` of BIND / P2BIN / P2HEX (toolutils.c CMD_FilterList, FilterOK; cmdarg.c          *)
(* ProcessCMD).  The filter is not one list but the result of a SEQUENCE OF OPERATIONS:                           *)
(*   -f a,b,c   adds a, b, c (an entry already present is not added twice)                                        *)
(*   +f x,y     cancels x and y (an entry not present is ignored)                                                 *)
(* first the ones preset in the tool's environment variable (BINDCMD, P2BINCMD, P2HEXCMD), then those on the      *)
(* command line in command-line order.  A filter operation  op = [neg |-> BOOLEAN, list |-> <<ids>>, env |-> BOOLEAN]*)
(* (env = given through the environment variable; the harness puts env operations first, as ProcessCMD does).     *)
(*                                                                                                                *)
(* Operational: FilterBytes[0..FilterCnt-1] as a sequence; add = append unless found, cancel = overwrite the      *)
(* found slot with the last entry and shrink (swap-remove).  Declarative: an id is in the filter iff the last      *)
(* elementary operation that mentions it is an add; no id in the filter = no filtering (manual: "Without such an  *)
(* option, all records will be copied").                                                                          *)
EXTENDS Integers, Sequences, FiniteSets, SequencesExt

MaxFilter == 100                      \* static Byte FilterBytes[100]; there is no bounds check behind it

\* ---- operational --------------------------------------------------------------------------------------------
FirstIdx(fb, x) == Min({i \in 1..Len(fb) : fb[i] = x})
FAdd(fb, x)    == IF x \in Range(fb) THEN fb ELSE Append(fb, x)                 \* FilterBytes[FilterCnt++] = FTemp
FCancel(fb, x) == IF x \notin Range(fb) THEN fb
                  ELSE LET n == Len(fb) IN SubSeq([fb EXCEPT ![FirstIdx(fb, x)] = fb[n]], 1, n - 1)
                                                                                \* FilterBytes[Search] = FilterBytes[--FilterCnt]
ApplyOp(fb, op) == FoldLeft(LAMBDA f, x : IF op.neg THEN FCancel(f, x) ELSE FAdd(f, x), fb, op.list)
FilterState(ops) == FoldLeft(ApplyOp, <<>>, ops)
FilterPasses(fb, id) == fb = <<>> \/ id \in Range(fb)                           \* DoFilter = (FilterCnt != 0); FilterOK

\* ---- declarative --------------------------------------------------------------------------------------------
\* the elementary operations <<neg, id>> in the order they take effect
Elementary(ops) == FoldLeft(LAMBDA acc, op : acc \o [i \in 1..Len(op.list) |-> <<op.neg, op.list[i]>>], <<>>, ops)
InFilter(ops, id) == LET e == Elementary(ops)
                         M == {i \in 1..Len(e) : e[i][2] = id}
                     IN M # {} /\ ~e[Max(M)][1]
Mentioned(ops) == {Elementary(ops)[i][2] : i \in 1..Len(Elementary(ops))}
Filtering(ops) == \E id \in Mentioned(ops) : InFilter(ops, id)
FPasses(ops, id) == ~Filtering(ops) \/ InFilter(ops, id)
\* the case is within what the code can hold (more than MaxFilter simultaneous entries overrun the array)
Holdable(ops) == \A k \in 0..Len(Elementary(ops)) :
                   Cardinality({id \in Mentioned(ops) : LET e == SubSeq(Elementary(ops), 1, k)
                                                            M == {i \in 1..k : e[i][2] = id}
                                                        IN M # {} /\ ~e[Max(M)][1]}) <= MaxFilter

\* ---- operation sequences worth replaying, over four listed families a b c d (x = never listed) -----------------
FA(l)  == [neg |-> FALSE, list |-> l, env |-> FALSE]
FC(l)  == [neg |-> TRUE,  list |-> l, env |-> FALSE]
FEA(l) == [neg |-> FALSE, list |-> l, env |-> TRUE]
FEC(l) == [neg |-> TRUE,  list |-> l, env |-> TRUE]
FPatterns(a, b, c, d, x) ==
  { <<>>, <<FA(<<a>>)>>, <<FA(<<a, b>>)>>, <<FA(<<a, b, c>>)>>, <<FA(<<a, b, c, d>>)>>, <<FA(<<x>>)>>,
    <<FA(<<a, b, c>>), FC(<<a>>)>>, <<FA(<<a, b, c>>), FC(<<b>>)>>, <<FA(<<a, b, c>>), FC(<<c>>)>>,       \* first / middle / last
    <<FA(<<a, b, c, d>>), FC(<<a>>)>>, <<FA(<<a, b, c, d>>), FC(<<b>>)>>, <<FA(<<a, b, c, d>>), FC(<<c>>)>>,
    <<FA(<<a, b, c, d>>), FC(<<d>>)>>,
    <<FA(<<a, b, c>>), FC(<<x>>)>>,                                                                   \* absent
    <<FA(<<a, b, c>>), FC(<<a>>), FC(<<a>>)>>, <<FA(<<a, b, c>>), FC(<<a, a>>)>>,                        \* repeated
    <<FA(<<a, b, c>>), FC(<<a, b>>)>>, <<FA(<<a, b, c, d>>), FC(<<b>>), FC(<<a>>)>>, <<FA(<<a, b, c, d>>), FC(<<a, c>>)>>,
    <<FA(<<a, b>>), FC(<<a, b>>)>>, <<FA(<<a>>), FC(<<a>>)>>,                                           \* all cancelled
    <<FC(<<a>>)>>, <<FC(<<a>>), FA(<<a, b>>)>>,                                                        \* cancel before add
    <<FA(<<a, b, c>>), FC(<<a>>), FA(<<a>>)>>, <<FA(<<a, b, c>>), FC(<<b>>), FA(<<d>>)>>,                 \* re-add, add after cancel
    <<FA(<<a, b, c>>), FC(<<a>>), FA(<<d>>), FC(<<b>>)>>,
    <<FA(<<a, a, b>>)>>, <<FA(<<a, b>>), FA(<<b, c>>)>>, <<FA(<<a, b, a>>), FC(<<a>>)>>,                 \* duplicates
    <<FA(<<a>>), FA(<<b>>), FA(<<c>>), FC(<<a>>)>>,
    \* the same through the environment variable (processed before the command line)
    <<FEA(<<a, b, c>>)>>, <<FEA(<<a, b, c>>), FC(<<a>>)>>, <<FEA(<<a, b, c>>), FC(<<b>>)>>, <<FEA(<<a, b, c>>), FC(<<c>>)>>,
    <<FEA(<<a, b, c>>), FEC(<<a>>)>>, <<FEA(<<a, b, c>>), FEC(<<b>>), FA(<<d>>)>>, <<FEA(<<a, b>>), FA(<<c, d>>), FC(<<a>>)>>,
    <<FEA(<<a, b, c, d>>), FC(<<b>>), FC(<<x>>)>>, <<FEC(<<a>>), FA(<<a, b, c>>)>>, <<FEA(<<a>>), FC(<<a>>)>>,
    <<FEA(<<a, b, c>>), FC(<<a>>), FA(<<a>>)>> }

\* the longest list the array holds: ids 1..100 added in two options, then a cancellation
Upto(lo, hi) == [i \in 1..(hi - lo + 1) |-> lo + i - 1]
BigPatterns == { <<FA(Upto(1, 50)), FA(Upto(51, 100))>>, <<FA(Upto(1, 50)), FA(Upto(51, 100)), FC(<<1>>)>>,
                 <<FA(Upto(1, 50)), FA(Upto(51, 100)), FC(<<50>>)>>, <<FA(Upto(1, 50)), FA(Upto(51, 100)), FC(<<100>>)>>,
                 <<FEA(Upto(1, 50)), FA(Upto(51, 100)), FC(<<7, 93>>)>> }
=============================================================================
