\* 68000 class, algorithm of the pinned tree: TLC must report the livelock
CONSTANTS
  VarMode = "rel8"
  VarShort = 2
  VarLong = 4
  Padding = TRUE
  RelFpuOK = TRUE
  RefKinds = {"abs", "var", "rel"}
  Sects = {}
  Quals = {8}
  Alias = {}
  CaseSens = FALSE
  Pages = {}
  PageReset = TRUE
  SelfKinds = {}
  Labels = {"la", "lb"}
  MaxItems = 3
  Fills = {1, 2, 126}
  AbsWidths = {4}
  EquOffs = {1}
  Orgs = {0}
  Fixed = FALSE
  ThrowErrors = FALSE
  ThrowMaxPass = 3
  WithExtra = FALSE
  AllowIllFormed = FALSE
  Complete = FALSE
SPECIFICATION Spec
CHECK_DEADLOCK FALSE
INVARIANTS TypeOK Fixpoint
PROPERTIES Termination
