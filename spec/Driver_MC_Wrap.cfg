\* the counters as coded on the pinned tree (Word, 16 bit): EXPECTED to violate the C02 invariants
CONSTANTS MaxLines = 2 MaxFiles = 1 Wrap = 65536 Leaky = {}
CONSTANTS Kinds <- KindsDiag OptSpace <- OptsTwo
SPECIFICATION Spec
INVARIANTS StatusZeroIffNoError
CHECK_DEADLOCK FALSE
