\* the counters as originally coded (Word, 16 bit): EXPECTED to violate StatusZeroIffNoError
CONSTANTS MaxLines = 2 MaxFiles = 1 Wrap = 65536 Leaky = {}
CONSTANTS Kinds <- KindsDiag OptSpace <- OptsTwo
SPECIFICATION Spec
INVARIANTS StatusZeroIffNoError
CHECK_DEADLOCK FALSE
