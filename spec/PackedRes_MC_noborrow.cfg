\* the model with ONE named deviation of the code-shaped side: TLC must report an invariant violation
CONSTANTS
  Places <- PlacesOne
  Elems = {8}
  Kinds = {"res", "data"}
  Counts <- CountsRef
  MaxDepth = 2 MaxTok = 6 MaxStmts = 1 MaxDS = 1
  Dev = "noborrow"
INIT Init
NEXT Next
INVARIANTS PackedIsFlat LastInUnit AdvanceIsCeil CountersAreFlat DeadLaysNothing
CHECK_DEADLOCK FALSE
