---------------------------- MODULE IsaCommon ----------------------------
(* Generic machinery of the reference encoders (C14) and decoders (C15).                             *)
(*                                                                                                    *)
(* An ISA module (Isa4004, Isa8080, Isa6502, IsaPic16, Isa6800, ...) is a finite TABLE of instruction *)
(* forms written from the manufacturer's instruction-set definition, independently of /repo/code*.c.  *)
(* A form is a record                                                                                 *)
(*   id    unique name of the form ("LDA abs,X")                                                      *)
(*   mn    mnemonic as written in the source                                                          *)
(*   cpus  set of CPU names (argument of the assembler's CPU statement) that have this form           *)
(*   args  sequence of argument templates [pre, f, post, sgn]: text pre \o <operand f> \o post; f = 0 means *)
(*         a purely literal argument ("A", "(HL)")                                                    *)
(*   flds  sequence of operand field descriptors (below)                                              *)
(*   enc   sequence of encoding units (bytes, or 14/16-bit words): unit = c + sum of field pieces     *)
(*         piece [f, shr, w, shl] places bits shr..shr+w-1 of the encoded value of field f at bit shl  *)
(*   flow  control-flow class used by the disassembler model (Dasm): "next" | "cond" | "jump" |       *)
(*         "call" | "ret" | "stop";  tf = index of the field holding the target (0 = none)            *)
(*   alias TRUE if another form of the same CPU has the same encoding by definition (synonym)         *)
(*                                                                                                    *)
(* Field descriptor [k, lo, hi, glo, ghi, scale, base, w, sg, names]:                                 *)
(*   k = "num"  numeric operand v: MUST be accepted iff lo <= v <= hi and scale | v; values in        *)
(*              glo..ghi outside lo..hi are the assembler-convention zone (e.g. -128..-1 for an       *)
(*              unsigned byte): acceptance is not judged, but IF accepted the two's complement must be *)
(*              emitted; everything outside glo..ghi MUST be rejected.  Encoded value e = v \div scale  *)
(*   k = "rel"  operand = target address t; d = t - (pc + base); legal iff lo <= d <= hi, scale | d,  *)
(*              0 <= t <= AddrMax; e = d \div scale (two's complement in w bits)                       *)
(*   k = "page" operand = target address t; legal iff t lies in the 2^w-aligned page of pc + base;    *)
(*              e = t % 2^w                                                                           *)
(*   k = "relw" operand = target address t, encoded as (t - (pc + base)) mod 2^w: every address is    *)
(*              reachable (MSP430 symbolic mode)                                                      *)
(*   k = "enum" operand = index into names (sequence of <<spelling, code>>); e = code                 *)
(*   w = number of encoded bits, sg = TRUE if the canonical decoded value is signed                   *)
(*   gmin..gmax: only operand values in this interval are generated for the field (used where the     *)
(*   assembler chooses between two forms by the operand value, e.g. 6502 zero page vs absolute)       *)
(* All arithmetic is div/mod arithmetic on integers; Bits(v,shr,w) is the two's-complement bit slice.  *)
EXTENDS Integers, Sequences, FiniteSets, TLC

Error == "Error"
NoMatch == "NoMatch"

Bits(v, shr, w) == (v \div (2^shr)) % (2^w)

RECURSIVE SumSeq(_)
SumSeq(s) == IF s = <<>> THEN 0 ELSE Head(s) + SumSeq(Tail(s))

Range(s) == {s[i] : i \in DOMAIN s}

\* ------------------------------------------------------------------------------- field constructors
FNum(lo, hi, glo, ghi, w, sg) ==
  [k |-> "num", lo |-> lo, hi |-> hi, glo |-> glo, ghi |-> ghi, scale |-> 1, base |-> 0, w |-> w, sg |-> sg,
   names |-> <<>>, gmin |-> -(2^30), gmax |-> 2^30]
\* unsigned w-bit quantity; negative two's-complement spellings down to -2^(w-1) are convention zone
FUns(w)  == FNum(0, 2^w - 1, -(2^(w-1)), 2^w - 1, w, FALSE)
\* strictly unsigned quantity (bit numbers, vector numbers, condition masks): negative values must be rejected.
\* Addresses and data use FUns: a negative spelling of a full-width address is two's-complement convention.
FAddr(w) == FNum(0, 2^w - 1, 0, 2^w - 1, w, FALSE)
\* unsigned range lo..hi stored in w bits
FRange(lo, hi, w) == FNum(lo, hi, lo, hi, w, FALSE)
\* operand value window lo..hi of a form that has a sibling form for the values outside (no out-of-range classes)
FWindow(lo, hi, w) == [FNum(lo, hi, lo, hi, w, FALSE) EXCEPT !.gmin = lo, !.gmax = hi]
\* signed w-bit displacement written as a number
FSig(w)  == FNum(-(2^(w-1)), 2^(w-1) - 1, -(2^(w-1)), 2^(w-1) - 1, w, TRUE)
FRel(w, base) ==
  [k |-> "rel", lo |-> -(2^(w-1)), hi |-> 2^(w-1) - 1, glo |-> -(2^(w-1)), ghi |-> 2^(w-1) - 1, scale |-> 1,
   base |-> base, w |-> w, sg |-> TRUE, names |-> <<>>, gmin |-> -(2^30), gmax |-> 2^30]
FRelScaled(w, base, scale) == [FRel(w, base) EXCEPT !.scale = scale, !.lo = -(2^(w-1)) * scale,
                               !.hi = (2^(w-1) - 1) * scale, !.glo = -(2^(w-1)) * scale,
                               !.ghi = (2^(w-1) - 1) * scale]
\* PC-relative address without range limit: the w-bit difference wraps around (MSP430 symbolic mode)
FRelWrap(w, base) ==
  [k |-> "relw", lo |-> 0, hi |-> 0, glo |-> 0, ghi |-> 0, scale |-> 1, base |-> base, w |-> w, sg |-> FALSE,
   names |-> <<>>, gmin |-> -(2^30), gmax |-> 2^30]
FPage(w, base) ==
  [k |-> "page", lo |-> 0, hi |-> 0, glo |-> 0, ghi |-> 0, scale |-> 1, base |-> base, w |-> w, sg |-> FALSE,
   names |-> <<>>, gmin |-> -(2^30), gmax |-> 2^30]
FEnum(names, w) ==
  [k |-> "enum", lo |-> 1, hi |-> Len(names), glo |-> 1, ghi |-> Len(names), scale |-> 1, base |-> 0, w |-> w,
   sg |-> FALSE, names |-> names, gmin |-> -(2^30), gmax |-> 2^30]

Arg(pre, f, post) == [pre |-> pre, f |-> f, post |-> post, sgn |-> FALSE, f2 |-> 0, post2 |-> ""]
\* argument with two operands: pre \o <f> \o post \o <f2> \o post2, e.g. MSP430 "X(Rn)"
Arg2(pre, f, post, f2, post2) == [pre |-> pre, f |-> f, post |-> post, sgn |-> FALSE, f2 |-> f2, post2 |-> post2]
\* operand written with an explicit sign: "(IX" + d + ")" is rendered "(IX+5)" / "(IX-5)"
SArg(pre, f, post) == [pre |-> pre, f |-> f, post |-> post, sgn |-> TRUE, f2 |-> 0, post2 |-> ""]
Lit(text) == Arg(text, 0, "")
Op(f) == Arg("", f, "")
P(f, shr, w, shl) == [f |-> f, shr |-> shr, w |-> w, shl |-> shl]
U(c, parts) == [c |-> c, parts |-> parts]

\* ------------------------------------------------------------------------------- legality of an operand
InPage(fld, t, pc) == (t \div (2^fld.w)) = ((pc + fld.base) \div (2^fld.w))

Legal(fld, v, pc, addrMax) ==
  CASE fld.k = "num"  -> fld.lo <= v /\ v <= fld.hi /\ v % fld.scale = 0
    [] fld.k = "rel"  -> LET d == v - (pc + fld.base) IN
                           fld.lo <= d /\ d <= fld.hi /\ d % fld.scale = 0 /\ 0 <= v /\ v <= addrMax
    [] fld.k = "page" -> 0 <= v /\ v <= addrMax /\ InPage(fld, v, pc)
    [] fld.k = "relw" -> 0 <= v /\ v <= addrMax
    [] fld.k = "enum" -> v \in 1..Len(fld.names)

\* convention zone: not legal, but an assembler may accept the two's complement spelling
Grey(fld, v, pc, addrMax) ==
  \/ /\ fld.k = "num" /\ ~Legal(fld, v, pc, addrMax)
     /\ fld.glo <= v /\ v <= fld.ghi /\ v % fld.scale = 0
  \/ fld.k = "relw" /\ v < 0 /\ v >= -(2^(fld.w - 1))       \* negative spelling of an address

\* value placed into the instruction (before slicing into pieces)
Enc(fld, v, pc) ==
  CASE fld.k = "num"  -> v \div fld.scale
    [] fld.k = "rel"  -> (v - (pc + fld.base)) \div fld.scale
    [] fld.k = "page" -> v % (2^fld.w)
    [] fld.k = "relw" -> (v - (pc + fld.base)) % (2^fld.w)
    [] fld.k = "enum" -> fld.names[v][2]

\* ------------------------------------------------------------------------------- encoder
UnitOf(form, ops, pc, u) ==
  LET un == form.enc[u] IN
  un.c + SumSeq([i \in 1..Len(un.parts) |->
                   LET p == un.parts[i] IN Bits(Enc(form.flds[p.f], ops[p.f], pc), p.shr, p.w) * (2^p.shl)])

EncodeRaw(form, ops, pc) == [u \in 1..Len(form.enc) |-> UnitOf(form, ops, pc, u)]

AllLegal(form, ops, pc, addrMax) == \A i \in 1..Len(form.flds) : Legal(form.flds[i], ops[i], pc, addrMax)
SomeOut(form, ops, pc, addrMax) ==
  \E i \in 1..Len(form.flds) : ~Legal(form.flds[i], ops[i], pc, addrMax) /\ ~Grey(form.flds[i], ops[i], pc, addrMax)

\* Encode(form, operands) \in Seq(Unit) \cup {Error}
Encode(form, ops, pc, addrMax) ==
  IF AllLegal(form, ops, pc, addrMax) THEN EncodeRaw(form, ops, pc) ELSE Error

\* what the property demands of an assembler for this statement
Verdict(form, ops, pc, addrMax) ==
  IF AllLegal(form, ops, pc, addrMax) THEN "units"
  ELSE IF SomeOut(form, ops, pc, addrMax) THEN "reject" ELSE "either"

\* ------------------------------------------------------------------------------- decoder (declarative inverse)
\* encoded value of field f collected back from the units
RawField(form, units, f) ==
  SumSeq([u \in 1..Len(form.enc) |->
            SumSeq([i \in 1..Len(form.enc[u].parts) |->
                      LET p == form.enc[u].parts[i] IN
                        IF p.f = f THEN Bits(units[u], p.shl, p.w) * (2^p.shr) ELSE 0])])

SignExt(e, w) == IF e >= 2^(w-1) THEN e - 2^w ELSE e

EnumIndex(fld, code) ==
  LET S == {i \in 1..Len(fld.names) : fld.names[i][2] = code} IN
    IF S = {} THEN 0 ELSE CHOOSE i \in S : \A j \in S : i <= j

\* operand value denoted by the units: PC-relative fields decode to the referenced target address
Extract(form, units, pc) ==
  [f \in 1..Len(form.flds) |->
     LET fld == form.flds[f]
         e0  == RawField(form, units, f)
         e   == IF fld.sg THEN SignExt(e0, fld.w) ELSE e0
     IN CASE fld.k = "num"  -> e * fld.scale
          [] fld.k = "rel"  -> e * fld.scale + pc + fld.base
          [] fld.k = "page" -> ((pc + fld.base) \div (2^fld.w)) * (2^fld.w) + e
          [] fld.k = "relw" -> (e + pc + fld.base) % (2^fld.w)
          [] fld.k = "enum" -> EnumIndex(fld, e)]

\* canonical operand value: what Extract returns for the encoding of a legal / convention-zone operand
Canon(fld, v) ==
  IF fld.k = "num" /\ ~fld.sg THEN ((v \div fld.scale) % (2^fld.w)) * fld.scale
  ELSE IF fld.k = "enum" THEN EnumIndex(fld, fld.names[v][2]) ELSE v

\* no field of the form is placed twice (alias forms such as AVR LSL Rd = ADD Rd,Rd may do that)
DupFree(form) ==
  \A f \in 1..Len(form.flds) :
    \A u1, u2 \in 1..Len(form.enc) : \A i \in 1..Len(form.enc[u1].parts) : \A j \in 1..Len(form.enc[u2].parts) :
      LET p == form.enc[u1].parts[i] q == form.enc[u2].parts[j] IN
        (p.f = f /\ q.f = f /\ <<u1, i>> # <<u2, j>>) =>
           {p.shr + b : b \in 0..(p.w - 1)} \cap {q.shr + b : b \in 0..(q.w - 1)} = {}

\* the units (prefix of a memory window) are an encoding of this form
Matches(form, units, pc, addrMax) ==
  /\ Len(units) >= Len(form.enc)
  /\ IF DupFree(form)
     THEN LET ops == Extract(form, units, pc) IN
            /\ AllLegal(form, ops, pc, addrMax)
            /\ EncodeRaw(form, ops, pc) = SubSeq(units, 1, Len(form.enc))
     \* a field placed twice (one register operand used as source and destination): search its values
     ELSE /\ Len(form.flds) = 1 /\ form.flds[1].k = "enum"
          /\ \E v \in 1..Len(form.flds[1].names) : EncodeRaw(form, <<v>>, pc) = SubSeq(units, 1, Len(form.enc))

\* as Matches, but operands in the convention zone of a field (accepted by an assembler although outside the
\* must-accept range, e.g. a data address beyond the device's RAM) are admitted: used to explain recorded statements
MatchesLoose(form, units, pc, addrMax) ==
  /\ Len(units) >= Len(form.enc)
  /\ IF DupFree(form)
     THEN LET ops == Extract(form, units, pc) IN
            /\ \A i \in 1..Len(form.flds) : Legal(form.flds[i], ops[i], pc, addrMax) \/ Grey(form.flds[i], ops[i], pc, addrMax)
            /\ EncodeRaw(form, ops, pc) = SubSeq(units, 1, Len(form.enc))
     ELSE Matches(form, units, pc, addrMax)

\* ------------------------------------------------------------------------------- rendering
RenderOp(fld, v) == IF fld.k = "enum" THEN fld.names[v][1] ELSE ToString(v)

RenderArgs(form, ops) ==
  [i \in 1..Len(form.args) |->
     LET a == form.args[i] IN
       IF a.f = 0 THEN a.pre
       ELSE IF a.sgn THEN a.pre \o (IF ops[a.f] >= 0 THEN "+" \o ToString(ops[a.f]) ELSE "-" \o ToString(-ops[a.f])) \o a.post
       ELSE a.pre \o RenderOp(form.flds[a.f], ops[a.f]) \o a.post
            \o (IF a.f2 = 0 THEN "" ELSE RenderOp(form.flds[a.f2], ops[a.f2]) \o a.post2)]

\* ------------------------------------------------------------------------------- table sanity
\* bits of unit u of the form that no operand piece covers (the opcode bits)
PieceBits(form, u) == UNION {{p.shl + b : b \in 0..(p.w - 1)} : p \in Range(form.enc[u].parts)}

FormWellFormed(form, unitBits) ==
  /\ Len(form.enc) >= 1
  /\ \A u \in 1..Len(form.enc) :
       /\ form.enc[u].c \in 0..(2^unitBits - 1)
       /\ PieceBits(form, u) \subseteq 0..(unitBits - 1)
       \* opcode bits and operand pieces do not overlap; pieces do not overlap each other
       /\ \A b \in PieceBits(form, u) : Bits(form.enc[u].c, b, 1) = 0
       /\ \A i, j \in 1..Len(form.enc[u].parts) : i # j =>
            LET p == form.enc[u].parts[i] q == form.enc[u].parts[j] IN
              {p.shl + b : b \in 0..(p.w - 1)} \cap {q.shl + b : b \in 0..(q.w - 1)} = {}
  \* every encoded bit of every field is placed exactly once
  /\ \A f \in 1..Len(form.flds) :
       LET pcs == {<<u, i>> \in (1..Len(form.enc)) \X (1..8) :
                      i <= Len(form.enc[u].parts) /\ form.enc[u].parts[i].f = f}
           cover(ui) == LET p == form.enc[ui[1]].parts[ui[2]] IN {p.shr + b : b \in 0..(p.w - 1)}
       IN /\ UNION {cover(ui) : ui \in pcs} = 0..(form.flds[f].w - 1)
          /\ (~form.alias => \A x, y \in pcs : x # y => cover(x) \cap cover(y) = {})
  /\ \A i \in 1..Len(form.args) : form.args[i].f \in 0..Len(form.flds) /\ form.args[i].f2 \in 0..Len(form.flds)
  /\ form.tf \in 0..Len(form.flds)
  /\ form.flow \in {"next", "cond", "jump", "call", "ret", "stop"}

\* ------------------------------------------------------------------------------- opcode map (first unit)
FieldInUnit1(form, f) ==
  /\ \E i \in 1..Len(form.enc[1].parts) : form.enc[1].parts[i].f = f
  /\ \A u \in 2..Len(form.enc) : \A i \in 1..Len(form.enc[u].parts) : form.enc[u].parts[i].f # f

\* x can be the first unit of an instruction of this form
OpcodeCompat(form, x, unitBits) ==
  /\ \A b \in (0..(unitBits - 1)) \ PieceBits(form, 1) : Bits(form.enc[1].c, b, 1) = Bits(x, b, 1)
  /\ \A f \in 1..Len(form.flds) :
       (FieldInUnit1(form, f) /\ form.flds[f].k \in {"num", "enum"}) =>
          LET fld == form.flds[f]
              e   == RawField([form EXCEPT !.enc = <<form.enc[1]>>], <<x>>, f)
          IN IF fld.k = "enum" THEN EnumIndex(fld, e) # 0
             ELSE LET v == (IF fld.sg THEN SignExt(e, fld.w) ELSE e) * fld.scale IN fld.lo <= v /\ v <= fld.hi

FormsMatching(forms, x, unitBits) == {g \in forms : ~g.alias /\ OpcodeCompat(g, x, unitBits)}
DefinedOpcodes(forms, unitBits) == {x \in 0..(2^unitBits - 1) : FormsMatching(forms, x, unitBits) # {}}
AmbiguousOpcodes(forms, unitBits) == {x \in 0..(2^unitBits - 1) : Cardinality(FormsMatching(forms, x, unitBits)) > 1}
\* every alias is a special case of a primary form: its opcode word (operand bits zero) starts a primary form
AliasesHavePrimary(forms, unitBits) ==
  \A a \in forms : a.alias => \E g \in forms : ~g.alias /\ OpcodeCompat(g, a.enc[1].c, unitBits)
\* cheap pairwise variant of the ambiguity check for 16-bit opcode words: two non-alias forms differ in some
\* opcode bit that is fixed in both (ignores value restrictions of register fields: stricter than needed)
FixedBits(form, unitBits) == (0..(unitBits - 1)) \ PieceBits(form, 1)
MaskDistinct(f, g, unitBits) ==
  \E b \in FixedBits(f, unitBits) \cap FixedBits(g, unitBits) : Bits(f.enc[1].c, b, 1) # Bits(g.enc[1].c, b, 1)
PairwiseDistinct(forms, unitBits) ==
  \A f, g \in {h \in forms : ~h.alias} : f # g => MaskDistinct(f, g, unitBits)
\* ------------------------------------------------------------------------------- exact distinctness of forms
\* (for prefix-coded ISAs such as the Z80 and for ISAs whose register fields have holes, e.g. MSP430 modes)
\* possible values of unit u of a form: -1 if the unit carries (part of) an operand of 8 or more bits, otherwise the
\* set of values obtained by enumerating its register / bit-number fields
SmallVals(fld) == IF fld.k = "enum" THEN {fld.names[i][2] : i \in 1..Len(fld.names)}
                  ELSE {v \div fld.scale : v \in {x \in fld.lo..fld.hi : x % fld.scale = 0}}
RECURSIVE UnitVals(_, _, _)
UnitVals(form, u, i) ==      \* values contributed by pieces i.. of unit u
  IF i > Len(form.enc[u].parts) THEN {0}
  ELSE LET p == form.enc[u].parts[i] IN
       {Bits(v, p.shr, p.w) * (2^p.shl) + r : v \in SmallVals(form.flds[p.f]), r \in UnitVals(form, u, i + 1)}
WideUnit(form, u) == \E i \in 1..Len(form.enc[u].parts) : form.flds[form.enc[u].parts[i].f].w >= 8
KeyAt(form, u) == IF WideUnit(form, u) THEN {-1} ELSE {form.enc[u].c + x : x \in UnitVals(form, u, 1)}
\* two forms can never produce the same byte sequence: some unit distinguishes all their variants
Distinct(f, g) ==
  \E u \in 1..(IF Len(f.enc) < Len(g.enc) THEN Len(f.enc) ELSE Len(g.enc)) :
     /\ -1 \notin KeyAt(f, u) /\ -1 \notin KeyAt(g, u)
     /\ KeyAt(f, u) \cap KeyAt(g, u) = {}
\* (LD r,r' never meets HALT because (HL) = 110 is not a register code: the variants are enumerated exactly)
KeysDistinct(forms) == \A f, g \in {h \in forms : ~h.alias} : f # g => Distinct(f, g)
\* cheap mask test first, exact variant enumeration only where the masks cannot tell the forms apart
FormsDistinct(forms, unitBits) ==
  \A f, g \in {h \in forms : ~h.alias} : f # g => (MaskDistinct(f, g, unitBits) \/ Distinct(f, g))
=============================================================================
